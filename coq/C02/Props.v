(* C02 property theorems (statements only; proofs in C02/{Lists,Inv,Inv2,Inv3,Inv4,Struct,Steps,Step,Final}.v).

   Model: C02/Model.v - heap of tensor objects {inds, tags, owners} and network
   objects {tensor_map, ind_map, tag_map, _inner_inds, _outer_inds,
   _tid_counter, alive}; `step : heap -> op -> heap * bool` over the alphabet
   NewTensor, TCopy, NewNet, Add, AddNet, Pop, PopTags, Delete, SetItem,
   TModInds, TModTags, TReindex, TRetag, TAddTag, TDropTags, NReindex, NRetag,
   NAddTag, NDropTags, Copy, DeepCopy, Select, SelectWithout, Partition,
   PartitionTensors, MakeTidsConsecutive, Kill, RemoveAll.

   Inv h: for every live network m
     - ind_map / tag_map entry of a label = the tids a fresh scan of the
       network's tensors finds for it, no empty entries;
     - _inner_inds / _outer_inds = labels with total occurrence count >= 2 / = 1
       (a label twice on ONE tensor counts twice);
     - (m, tid) is an owner entry of tensor r  <->  tensor_map m tid = r.
   h_ok h: ghost flag, never read by an operation: no tensor was ever given a
   label twice, and no tensor object was added as a view to a network that
   already held it. *)
From Coq Require Import List Arith Bool PeanoNat.
From QV Require Import C02.Model C02.Lists C02.Inv C02.Step C02.Final C02.Combine C02.OSet.
Import ListNotations.

Theorem C02_inv_init : h_ok h0 = true /\ Good h0 /\ Inv h0.
Proof. exact (conj eq_refl (conj Good_h0 (Good_Inv h0 Good_h0))). Qed.
Print Assumptions C02_inv_init.

(* one step, every operation of the alphabet: the (strengthened, inductive)
   invariant Good is preserved as long as the history stays in the domain *)
Theorem C02_inv_step : forall h o,
  (h_ok h = true -> Good h) -> (h_ok (fst (step h o)) = true -> Good (fst (step h o))).
Proof. exact step_GoodF. Qed.
Print Assumptions C02_inv_step.

Theorem C02_good_implies_inv : forall h, Good h -> Inv h.
Proof. exact Good_Inv. Qed.
Print Assumptions C02_good_implies_inv.

(* all histories *)
Theorem C02_inv_reachable : forall ops : list op,
  h_ok (fold_left (fun h o => fst (step h o)) ops h0) = true ->
  Inv (fold_left (fun h o => fst (step h o)) ops h0).
Proof. exact run_Inv. Qed.
Print Assumptions C02_inv_reachable.

(* an operation that is rejected leaves the heap untouched *)
Theorem C02_rejected_unchanged : forall h o, snd (step h o) = false -> fst (step h o) = h.
Proof. intros h o; unfold step; destruct (step_core h o); simpl; [discriminate|reflexivity]. Qed.
Print Assumptions C02_rejected_unchanged.

(* selection by tags / by labels returns exactly the scan result, after any history *)
Theorem C02_select_tags_exact : forall ops m tags w tids,
  h_ok (run ops) = true -> live (run ops) m = true -> tags <> [] ->
  get_tids_from_tags (h_N (run ops) m) (Some tags) w = Some tids ->
  forall tid, In tid tids <->
    match w with
    | WAll => forall g, In g tags -> has_tag (run ops) m tid g
    | WAny => exists g, In g tags /\ has_tag (run ops) m tid g
    | WNAll => In tid (akeys (n_tmap (h_N (run ops) m))) /\ ~ (forall g, In g tags -> has_tag (run ops) m tid g)
    | WNAny => In tid (akeys (n_tmap (h_N (run ops) m))) /\ ~ (exists g, In g tags /\ has_tag (run ops) m tid g)
    end.
Proof. exact select_tags_exact. Qed.
Print Assumptions C02_select_tags_exact.

Theorem C02_select_inds_exact : forall ops m inds w tids,
  h_ok (run ops) = true -> live (run ops) m = true -> inds <> [] ->
  get_tids_from_inds (h_N (run ops) m) inds w = Some tids ->
  forall tid, In tid tids <->
    match w with
    | WAll => forall i, In i inds -> has_ind (run ops) m tid i
    | WAny => exists i, In i inds /\ has_ind (run ops) m tid i
    | WNAll => In tid (akeys (n_tmap (h_N (run ops) m))) /\ ~ (forall i, In i inds -> has_ind (run ops) m tid i)
    | WNAny => In tid (akeys (n_tmap (h_N (run ops) m))) /\ ~ (exists i, In i inds /\ has_ind (run ops) m tid i)
    end.
Proof. exact select_inds_exact. Qed.
Print Assumptions C02_select_inds_exact.

(* selection raises (KeyError) exactly when some requested tag is carried by no tensor *)
Theorem C02_select_missing_tag_rejected : forall x xmap xs w C, map_ok xmap C ->
  (get_tids_from x xmap xs w = None <-> exists g, In g xs /\ forall tid, ~ C tid g).
Proof. exact get_tids_from_rejects. Qed.
Print Assumptions C02_select_missing_tag_rejected.

(* ---- quimb.utils.oset: the list model (tied to the implementation by the oset
   correspondence stream) refines the finite-set operations, stays duplicate
   free and preserves first-insertion order; n-ary forms for ANY number of
   arguments ---- *)
Theorem C02_oset_update_union_refines : forall others a, NoDup a ->
  NoDup (o_update a others)
  /\ (forall y, In y (o_update a others) <-> In y a \/ exists o, In o others /\ In y o)
  /\ (exists t, o_update a others = a ++ t /\ subseq t (concat others)).
Proof. exact o_update_spec. Qed.
Print Assumptions C02_oset_update_union_refines.

Theorem C02_oset_intersection_refines : forall a others, NoDup a ->
  NoDup (o_inter a others)
  /\ (forall y, In y (o_inter a others) <-> In y a /\ forall o, In o others -> In y o)
  /\ subseq (o_inter a others) a.
Proof. exact o_inter_spec. Qed.
Print Assumptions C02_oset_intersection_refines.

Theorem C02_oset_difference_refines : forall a others, NoDup a ->
  NoDup (o_diff a others)
  /\ (forall y, In y (o_diff a others) <-> In y a /\ forall o, In o others -> ~ In y o)
  /\ subseq (o_diff a others) a.
Proof. exact o_diff_spec. Qed.
Print Assumptions C02_oset_difference_refines.

Theorem C02_oset_add_discard_build_refine : forall x a l, NoDup a ->
  (NoDup (oadd x a) /\ (forall y, In y (oadd x a) <-> y = x \/ In y a) /\ exists t, oadd x a = a ++ t)
  /\ (NoDup (odiscard x a) /\ (forall y, In y (odiscard x a) <-> In y a /\ y <> x) /\ subseq (odiscard x a) a)
  /\ (NoDup (oset_of l) /\ (forall y, In y (oset_of l) <-> In y l) /\ subseq (oset_of l) l).
Proof. intros x a l H. exact (conj (oadd_spec x a H) (conj (odiscard_spec x a H) (oset_of_spec l))). Qed.
Print Assumptions C02_oset_add_discard_build_refine.

Theorem C02_oset_pop_and_eq : forall a b, NoDup a -> NoDup b ->
  ((forall x r, o_popleft a = Some (x, r) -> a = x :: r /\ NoDup r)
   /\ (forall x r, o_popright a = Some (x, r) -> a = r ++ [x] /\ NoDup r)
   /\ (o_popleft a = None <-> a = []) /\ (o_popright a = None <-> a = []))
  /\ (set_eqb a b = true <-> forall x, In x a <-> In x b).
Proof. intros a b Ha Hb. exact (conj (o_pop_spec a Ha) (o_eq_spec a b Ha Hb)). Qed.
Print Assumptions C02_oset_pop_and_eq.

(* every method sequence keeps every oset duplicate free *)
Theorem C02_oset_machine_wellformed : forall ops s,
  Forall (@NoDup nat) s ->
  Forall (@NoDup nat) (fold_left (fun s o => match ostep s o with Some (s', _) => s' | None => s end) ops s).
Proof.
  induction ops as [|o ops IH]; simpl; intros s H; auto. apply IH.
  destruct (ostep s o) as [[s' res]|] eqn:E; auto. exact (ostep_wf s o s' res H E).
Qed.
Print Assumptions C02_oset_machine_wellformed.

(* the renaming applied by add_tensor_network(check_collisions=True) (= the
   model's add_net, see Combine.add_net_uses_mangle_map): labels outside the
   clash set - in particular every outer label - keep their name, a clashing
   inner bond gets a name no existing label has, and no two distinct labels are
   ever made to coincide.  `_partial`: this is a statement about the renaming
   function; that the resulting networks carry exactly the renamed labels is
   covered by C02_inv_reachable + the correspondence, and bond distinctness on
   the implementation by the combine oracle stream. *)
Theorem C02_combine_renaming_partial : forall clash fresh,
  NoDup clash -> (forall i, In i clash -> i < fresh) ->
  (forall i, ~ In i clash -> subst (mangle_map clash fresh) i = i)
  /\ (forall i, In i clash -> fresh <= subst (mangle_map clash fresh) i)
  /\ (forall i j, i < fresh -> j < fresh ->
        subst (mangle_map clash fresh) i = subst (mangle_map clash fresh) j -> i = j).
Proof. exact mangle_renaming_safe. Qed.
Print Assumptions C02_combine_renaming_partial.

(* outside the domain the faithful model - like the implementation - breaks the
   invariant (DESIGN.md section 5, F2): *)
(* ('a','a') tensor popped: inner_inds() still lists 'a' *)
Theorem C02_pop_repeated_label_refuted :
  ~ Inv (run [NewTensor [1; 1] [0]; NewNet [ITensor 0] false true; Pop 0 0]).
Proof. exact pop_repeated_refuted. Qed.
Print Assumptions C02_pop_repeated_label_refuted.

(* ('a','b') reindexed to ('b','b') inside a network: 'b' stays outer *)
Theorem C02_reindex_repeated_label_refuted :
  ~ Inv (run [NewTensor [1; 2] [0]; NewNet [ITensor 0] true true; TReindex 0 [(1, 2)]]).
Proof. exact reindex_repeated_refuted. Qed.
Print Assumptions C02_reindex_repeated_label_refuted.

(* the same tensor object twice in one network: the owner registry (keyed by
   network) remembers one tid only, a rename leaves the other entry stale *)
Theorem C02_same_tensor_twice_refuted :
  ~ Inv (run [NewTensor [1] [0]; NewNet [ITensor 0; ITensor 0] true true; TReindex 0 [(1, 2)]]).
Proof. exact same_tensor_twice_refuted. Qed.
Print Assumptions C02_same_tensor_twice_refuted.

(* non-vacuity: a history with two views sharing tensors, a garbage collected
   view, then a rename through a shared tensor, stays inside the domain, and
   its final maps are the expected ones *)
Example C02_example :
  let ops := [NewTensor [1; 2] [0]; NewTensor [2; 3] [1];
              NewNet [ITensor 0; ITensor 1] true true; Copy 0 true; Select 0 (Some [1]) WAll true;
              Kill 1; TReindex 1 [(2, 5)]; NAddTag 2 4 None WAll] in
  h_ok (run ops) = true
  /\ dump (run ops) =
     ([(0, ([(0, 0); (1, 1)], [(1, [0]); (2, [0]); (3, [1]); (5, [1])], [(0, [0]); (1, [1]); (4, [1])],
            [], [1; 3; 2; 5], 1));
       (2, ([(1, 1)], [(3, [1]); (5, [1])], [(1, [1]); (4, [1])], [], [3; 5], 0))],
      [([1; 2], [0], [(0, 0)]); ([5; 3], [1; 4], [(0, 1); (2, 1)])]).
Proof. vm_compute. split; reflexivity. Qed.

(* C02 - the renaming applied by add_tensor_network(check_collisions=True):
   clashing inner labels of the incoming network get fresh names. *)
From Coq Require Import List Arith Bool PeanoNat Lia.
From QV Require Import C02.Model C02.Lists.
Import ListNotations.

Definition mangle_map (clash : list nat) (fresh : nat) : list (nat * nat) :=
  combine clash (seq fresh (length clash)).

Lemma mangle_subst_notin : forall clash fresh i, ~ In i clash -> subst (mangle_map clash fresh) i = i.
Proof.
  induction clash as [|c cs IH]; intros fresh i Hn; unfold subst, mangle_map in *; simpl; auto.
  destruct (Nat.eqb_spec i c) as [->|Hc]; [exfalso; apply Hn; left; auto|].
  apply IH. intros ?; apply Hn; right; auto.
Qed.

Lemma mangle_subst_in : forall clash fresh, NoDup clash ->
  (forall i, In i clash -> fresh <= subst (mangle_map clash fresh) i < fresh + length clash)
  /\ (forall i j, In i clash -> In j clash -> subst (mangle_map clash fresh) i = subst (mangle_map clash fresh) j -> i = j).
Proof.
  induction clash as [|c cs IH]; intros fresh ND; [split; intros; contradiction|].
  inversion ND; subst. destruct (IH (S fresh) H2) as [R I].
  assert (forall i, subst (mangle_map (c :: cs) fresh) i = if i =? c then fresh else subst (mangle_map cs (S fresh)) i) as E.
  { intros i. unfold subst, mangle_map; simpl. destruct (i =? c); auto. }
  split.
  - intros i Hi. rewrite E. simpl length. destruct (Nat.eqb_spec i c) as [->|Hc]; [lia|].
    destruct Hi as [<-|Hi]; [congruence|]. specialize (R i Hi). lia.
  - intros i j Hi Hj. rewrite !E.
    destruct (Nat.eqb_spec i c) as [->|Hci]; destruct (Nat.eqb_spec j c) as [->|Hcj]; auto.
    + destruct Hj as [<-|Hj]; [congruence|]. specialize (R j Hj). lia.
    + destruct Hi as [<-|Hi]; [congruence|]. specialize (R i Hi). lia.
    + destruct Hi as [<-|Hi]; [congruence|]. destruct Hj as [<-|Hj]; [congruence|]. apply I; auto.
Qed.

(* no label outside the clash set is renamed (in particular no outer label);
   a clashing inner label gets a name no existing label has; the renaming
   never makes two distinct labels coincide *)
Theorem mangle_renaming_safe : forall clash fresh,
  NoDup clash -> (forall i, In i clash -> i < fresh) ->
  (forall i, ~ In i clash -> subst (mangle_map clash fresh) i = i)
  /\ (forall i, In i clash -> fresh <= subst (mangle_map clash fresh) i)
  /\ (forall i j, i < fresh -> j < fresh -> subst (mangle_map clash fresh) i = subst (mangle_map clash fresh) j -> i = j).
Proof.
  intros clash fresh ND Hlt. destruct (mangle_subst_in clash fresh ND) as [R I].
  split; [apply mangle_subst_notin|]. split; [intros i Hi; apply R; auto|].
  intros i j Hi Hj E.
  destruct (in_dec Nat.eq_dec i clash) as [Ii|Ni]; destruct (in_dec Nat.eq_dec j clash) as [Ij|Nj].
  - apply I; auto.
  - rewrite (mangle_subst_notin clash fresh j Nj) in E. specialize (R i Ii). lia.
  - rewrite (mangle_subst_notin clash fresh i Ni) in E. specialize (R j Ij). lia.
  - rewrite !mangle_subst_notin in E; auto.
Qed.

(* add_tensor_network uses exactly this renaming *)
Lemma add_net_uses_mangle_map : forall h dst src v,
  add_net h dst src v true =
  let clash := ointer (n_inner (h_N h dst)) (n_inner (h_N h src)) in
  fold_left (add_net_entry dst v clash (mangle_map clash (h_fresh h))) (n_tmap (h_N h src))
            (set_fresh h (h_fresh h + length clash)).
Proof. reflexivity. Qed.

(* C02 - invariant preservation: remove_all_tensors. *)
From Coq Require Import List Arith Bool PeanoNat Lia.
From QV Require Import C02.Model C02.Lists C02.Inv C02.Struct.
Import ListNotations.

Lemma adel_idem : forall {V} k (m : list (nat * V)), adel k (adel k m) = adel k m.
Proof.
  intros V k m. unfold adel. induction m as [|p m IH]; simpl; auto.
  destruct (negb (fst p =? k)) eqn:E; simpl; rewrite ?E, IH; auto.
Qed.

Definition drop_owner_fold (m : nat) (l : list (nat * nat)) (h : heap) : heap :=
  fold_left (fun hh p => setT hh (snd p) (remove_owner (h_T hh (snd p)) m)) l h.

Lemma drop_owner_fold_spec : forall m l h,
  h_N (drop_owner_fold m l h) = h_N h /\ h_nt (drop_owner_fold m l h) = h_nt h
  /\ h_nn (drop_owner_fold m l h) = h_nn h /\ h_pub (drop_owner_fold m l h) = h_pub h
  /\ h_ok (drop_owner_fold m l h) = h_ok h
  /\ forall r, t_inds (h_T (drop_owner_fold m l h) r) = t_inds (h_T h r)
            /\ t_tags (h_T (drop_owner_fold m l h) r) = t_tags (h_T h r)
            /\ t_owners (h_T (drop_owner_fold m l h) r)
               = if mem r (map snd l) then adel m (t_owners (h_T h r)) else t_owners (h_T h r).
Proof.
  intros m l; induction l as [|[tid r0] l IH]; intros h; unfold drop_owner_fold in *; simpl.
  - repeat split; auto.
  - destruct (IH (setT h r0 (remove_owner (h_T h r0) m))) as (A & B & C & D & E & F).
    split; [exact A|]. split; [exact B|]. split; [exact C|]. split; [exact D|]. split; [exact E|].
    intros r. destruct (F r) as (F1 & F2 & F3). cbn [h_T setT] in F1, F2, F3.
    rewrite F1, F2, F3.
    destruct (Nat.eq_dec r r0) as [Er|Er].
    + subst r0. rewrite Nat.eqb_refl. cbn [remove_owner t_inds t_tags t_owners orb].
      split; auto. split; auto. destruct (mem r (map snd l)); [apply adel_idem|auto].
    + rewrite (proj2 (Nat.eqb_neq _ _) Er). cbn [orb]. auto.
Qed.

Lemma st_remove_all : forall h m, st h (remove_all h m).
Proof.
  intros h m. unfold remove_all.
  destruct (drop_owner_fold_spec m (n_tmap (h_N h m)) h) as (A & B & C & D & E & F).
  fold (drop_owner_fold m (n_tmap (h_N h m)) h).
  constructor; cbn [h_ok h_nt setN]; try congruence; try lia.
  intros k Hk. unfold live in *; cbn [h_N setN]. rewrite A. destruct (Nat.eqb_spec k m) as [->|]; auto.
Qed.

Lemma remove_all_good : forall h m, Good h -> live h m = true -> Good (remove_all h m).
Proof.
  intros h m H Hm. unfold remove_all.
  destruct (drop_owner_fold_spec m (n_tmap (h_N h m)) h) as (EN & Ent & Enn & Epub & _ & HT).
  fold (drop_owner_fold m (n_tmap (h_N h m)) h). set (h1 := drop_owner_fold m (n_tmap (h_N h m)) h) in *.
  set (h' := setN _ _ _).
  assert (h_T h' = h_T h1 /\ h_nt h' = h_nt h /\ h_nn h' = h_nn h /\ h_pub h' = h_pub h) as (ET & Ent' & Enn' & Epub').
  { subst h'; cbn; auto. }
  assert (forall k, k <> m -> h_N h' k = h_N h k) as Nk.
  { intros k Hk; subst h'; cbn [h_N setN]. rewrite EN. destruct (Nat.eqb_spec k m); [lia|auto]. }
  assert (n_tmap (h_N h' m) = [] /\ n_imap (h_N h' m) = [] /\ n_gmap (h_N h' m) = [] /\ n_inner (h_N h' m) = []
          /\ n_outer (h_N h' m) = [] /\ n_alive (h_N h' m) = n_alive (h_N h m)) as (M1 & M2 & M3 & M4 & M5 & M6).
  { subst h'; cbn [h_N setN]. rewrite Nat.eqb_refl. cbn. repeat split; auto. }
  clearbody h'. clearbody h1.
  assert (forall k, live h' k = live h k) as Lv.
  { intros k; unfold live. destruct (Nat.eq_dec k m) as [->|Hk]; [auto|rewrite Nk; auto]. }
  pose proof (g_nets _ H m Hm) as NGm.
  (* every owner entry for m disappears, the others stay *)
  assert (forall r k t, In (k, t) (t_owners (h_T h' r)) <-> In (k, t) (t_owners (h_T h r)) /\ k <> m) as Hown.
  { intros r k t. rewrite ET. destruct (HT r) as (_ & _ & ->).
    destruct (mem r (map snd (n_tmap (h_N h m)))) eqn:Er.
    - rewrite In_adel; cbn [fst]. tauto.
    - split; [|tauto]. intros Hi; split; auto. intros ->.
      apply (g_own _ H r m t Hm) in Hi. apply aget_In_snd in Hi. apply mem_In in Hi. congruence. }
  destruct H as [A B C D E F G].
  constructor; rewrite ?Ent', ?Enn', ?Epub'; auto.
  - intros k Hk. rewrite Lv in Hk. destruct (Nat.eq_dec k m) as [->|Hkm].
    + apply empty_NetGood; auto.
    + apply (NetGood_frame h); rewrite ?Nk by auto; auto; try lia.
      intros t r _. rewrite ET. destruct (HT r) as (-> & -> & _). tauto.
  - intros k Hk. rewrite Lv in Hk. auto.
  - intros r. rewrite ET. destruct (HT r) as (-> & _). auto.
  - intros r. rewrite ET. destruct (HT r) as (_ & _ & ->).
    destruct (mem r (map snd (n_tmap (h_N h m)))); auto. apply akeys_adel_NoDup; auto.
  - intros r k t Hi. apply Hown in Hi as [Hi _]. eapply E; eauto.
  - intros r k t Hk. rewrite Lv in Hk. rewrite Hown. destruct (Nat.eq_dec k m) as [->|Hkm].
    + unfold holds. rewrite M1. simpl. split; [intros [_ ?]; congruence|discriminate].
    + unfold holds. rewrite Nk by auto. rewrite (F r k t Hk). unfold holds. tauto.
Qed.

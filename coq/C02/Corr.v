(* C02 - comparison functions used by the correspondence (harness/c02.py):
   the model replays an operation list and its observable state after every
   operation is compared with what the implementation showed. *)
From Coq Require Import ZArith List Arith Bool PeanoNat.
From QV Require Import C02.Model.
Import ListNotations.

Fixpoint list_eqb {A} (e : A -> A -> bool) (a b : list A) : bool :=
  match a, b with
  | [], [] => true
  | x :: a', y :: b' => e x y && list_eqb e a' b'
  | _, _ => false
  end.
Definition pair_eqb {A B} (ea : A -> A -> bool) (eb : B -> B -> bool) (p q : A * B) : bool :=
  ea (fst p) (fst q) && eb (snd p) (snd q).
Definition nl_eqb := list_eqb Nat.eqb.
Definition pl_eqb := list_eqb (pair_eqb Nat.eqb Nat.eqb).
Definition imap_eqb := list_eqb (pair_eqb Nat.eqb nl_eqb).

Definition net_dump_eqb (a b : net_dump) : bool :=
  let '(tm, im, gm, inn, out, c) := a in
  let '(tm', im', gm', inn', out', c') := b in
  pl_eqb tm tm' && imap_eqb im im' && imap_eqb gm gm' && nl_eqb inn inn' && nl_eqb out out' && (c =? c').
Definition tensor_dump_eqb (a b : tensor_dump) : bool :=
  let '(i, g, o) := a in let '(i', g', o') := b in nl_eqb i i' && nl_eqb g g' && pl_eqb o o'.
Definition dump_eqb (a b : state_dump) : bool :=
  list_eqb (pair_eqb Nat.eqb net_dump_eqb) (fst a) (fst b) && list_eqb tensor_dump_eqb (snd a) (snd b).

(* ------------------------------------------------------------------ *)
(* flat serialisation of one observation (length-prefixed fields) *)

Definition ser_nl (l : list nat) : list nat := length l :: l.
Definition ser_pl (l : list (nat * nat)) : list nat := length l :: flat_map (fun p => [fst p; snd p]) l.
Definition ser_imap (m : imap_t) : list nat := length m :: flat_map (fun p => fst p :: ser_nl (snd p)) m.
Definition ser_net (d : net_dump) : list nat :=
  let '(tm, im, gm, inn, out, c) := d in
  ser_pl tm ++ ser_imap im ++ ser_imap gm ++ ser_nl inn ++ ser_nl out ++ [c].
Definition ser_tensor (d : tensor_dump) : list nat :=
  let '(i, g, o) := d in ser_nl i ++ ser_nl g ++ ser_pl o.
Definition ser_state (s : state_dump) : list nat :=
  (length (fst s) :: flat_map (fun p => fst p :: ser_net (snd p)) (fst s))
  ++ (length (snd s) :: flat_map ser_tensor (snd s)).
Definition b2n (b : bool) : nat := if b then 1 else 0.
(* one observation = one integer: length-prefixed fields, 12 bits per value (a
   value that does not fit poisons the result).  The comparison uses its
   residues modulo 2^61-1 and 2^89-1, combined into one integer: equal
   observations give equal fingerprints (so a reported difference is a real
   difference); distinct observations collide with probability ~2^-150.  The
   harness computes the same function on what the implementation showed; on a
   mismatch both full states are printed (model_after). *)
Definition pack (l : list nat) : Z :=
  fold_left (fun acc x => if (x <? 4096)%nat then (Z.shiftl acc 12 + Z.of_nat x)%Z else 0%Z) l 1%Z.
(* n mod (2^k - 1) by summing the k-bit chunks of n (2^k = 1 modulo 2^k - 1):
   linear in the size of n, unlike the bit-by-bit division of Z.modulo *)
Fixpoint chunk_sum (fuel : nat) (k n acc : Z) : Z :=
  match fuel with
  | O => (acc + n)%Z
  | S f => if (n =? 0)%Z then acc else chunk_sum f k (Z.shiftr n k) (acc + Z.land n (Z.ones k))%Z
  end.
Definition mod_mersenne (fuel : nat) (k n : Z) : Z := ((chunk_sum fuel k n 0) mod (Z.ones k))%Z.
Definition fp (l : list nat) : Z :=
  let z := pack l in
  let fuel := S (length l) in
  (mod_mersenne fuel 61 z * 1237940039285380274899124224 + mod_mersenne fuel 89 z)%Z.

(* what the implementation showed after one operation: returned normally? /
   domain flag (no repeated label ever, no tensor twice in one network) /
   independent fresh scan agrees with the live maps? / state *)
Definition ser_obs_list (h : heap) (ok : bool) : list nat :=
  b2n ok :: b2n (h_ok h) :: b2n (invb h) :: ser_state (dump h).
Definition ser_obs (h : heap) (ok : bool) : Z := fp (ser_obs_list h ok).

(* index of the first operation after which model and implementation differ *)
Fixpoint first_bad (h : heap) (ops : list op) (exp : list Z) (k : nat) : option nat :=
  match ops, exp with
  | [], [] => None
  | o :: ops', e :: exp' =>
      let '(h', ok) := step h o in
      if Z.eqb (ser_obs h' ok) e then first_bad h' ops' exp' (S k) else Some k
  | _, _ => Some k
  end.

Definition check_trace (ops : list op) (exp : list Z) : bool :=
  match first_bad h0 ops exp 0 with None => true | Some _ => false end.

(* diagnostics for a failing trace: model side after the first k+1 operations *)
Definition model_after (ops : list op) (k : nat) : bool * bool * bool * state_dump :=
  let h := run (firstn k ops) in
  match nth_error ops k with
  | Some o => let '(h', ok) := step h o in (ok, h_ok h', invb h', dump h')
  | None => (true, h_ok h, invb h, dump h)
  end.

(* C02 - invariant preservation for the composite operations and for step. *)
From Coq Require Import List Arith Bool PeanoNat Lia.
From QV Require Import C02.Model C02.Lists C02.Inv C02.Inv2 C02.Inv3 C02.Inv4 C02.Struct.
Import ListNotations.

(* "good preserving": if the heap was good and the ghost flag is still true
   afterwards, the result is good *)
Definition gp (h h' : heap) : Prop := Good h -> h_ok h' = true -> Good h'.

Lemma gp_trans : forall a b c, st b c -> gp a b -> gp b c -> gp a c.
Proof. intros a b c S G1 G2 Ha Hc. apply G2; auto. apply G1; auto. apply (st_ok _ _ S); auto. Qed.

Lemma G_fold : forall {A} (f : heap -> A -> heap) (Q : heap -> A -> Prop),
  (forall h x, st h (f h x)) -> (forall h h' x, st h h' -> Q h x -> Q h' x) ->
  (forall h x, Q h x -> gp h (f h x)) ->
  forall l h, (forall x, In x l -> Q h x) -> gp h (fold_left f l h).
Proof.
  intros A f Q Hst Hstable Hg l; induction l as [|x l IH]; simpl; intros h HQ H Hok; auto.
  apply IH; auto.
  - intros y Hy. eapply Hstable; [apply Hst|]. apply HQ; auto.
  - apply Hg; auto. apply (st_ok _ _ (st_fold f Hst l (f h x))); auto.
Qed.

Lemma choose_tid_fresh : forall x topt tid ctr,
  NoDup (akeys (n_tmap x)) -> choose_tid x topt = (tid, ctr) -> aget tid (n_tmap x) = None.
Proof.
  intros x topt tid ctr ND H. unfold choose_tid in H. destruct topt as [t|].
  - destruct (amem t (n_tmap x)) eqn:E; injection H as <- <-.
    + apply next_tid_fresh; auto.
    + unfold amem in E. destruct (aget t (n_tmap x)); [discriminate|auto].
  - injection H as <- <-. apply next_tid_fresh; auto.
Qed.

Lemma vals_range : forall h m r, NetGood h m -> In r (map snd (n_tmap (h_N h m))) -> r < h_nt h.
Proof.
  intros h m r NG Hin. apply in_map_iff in Hin as [[tid r'] [E Hin]]; simpl in E; subst r'.
  eapply (ng_range _ _ NG tid). unfold holds. apply In_aget; auto. apply (ng_keys _ _ NG).
Qed.

Lemma G_add_tensor : forall h m r topt v, live h m = true -> r < h_nt h -> gp h (add_tensor h m r topt v).
Proof.
  intros h m r topt v Hm Hr H Hok. unfold add_tensor in *.
  destruct (choose_tid (h_N h m) topt) as [tid ctr] eqn:EC.
  pose proof (g_nets _ H m Hm) as NG.
  pose proof (choose_tid_fresh _ _ _ _ (ng_keys _ _ NG) EC) as Hfresh.
  destruct v.
  - pose proof (st_ok _ _ (st_attach _ _ _ _ _) Hok) as Hok1. cbn in Hok1.
    apply andb_true_iff in Hok1 as [_ Hnm]. apply negb_true_iff, mem_false in Hnm.
    apply attach_good; auto. apply Good_andok; auto.
  - set (h1 := fst (alloc_tensor h (t_inds (h_T h r)) (t_tags (h_T h r)))).
    assert (Good h1) as H1 by (apply alloc_tensor_good; auto; apply (g_inds _ H)).
    change (Good (attach h1 m (h_nt h) tid ctr)).
    apply attach_good; [exact H1|exact Hm|subst h1; cbn; lia|exact Hfresh|].
    intros Hin. change (In (h_nt h) (map snd (n_tmap (h_N h m)))) in Hin. apply (vals_range _ _ _ NG) in Hin. lia.
Qed.

Lemma G_modify_inds : forall h r inds, gp h (modify_inds h r inds).
Proof.
  intros h r inds H Hok. rewrite modify_inds_ok in Hok. apply andb_true_iff in Hok as [_ Hn].
  apply modify_inds_good; auto. apply nodupb_NoDup; auto.
Qed.

Lemma G_modify_tags : forall h r tags, gp h (modify_tags h r tags).
Proof. intros h r tags H _. apply modify_tags_good; auto. Qed.

Lemma G_t_drop_tags : forall h r f, gp h (t_drop_tags h r f).
Proof. intros; unfold t_drop_tags; destruct f; apply G_modify_tags. Qed.

Lemma G_pop_many : forall tids h m h' rs, live h m = true -> pop_many h m tids = Some (h', rs) ->
  Good h -> Good h' /\ forall r, In r rs -> r < h_nt h'.
Proof.
  induction tids as [|tid tids IH]; simpl; intros h m h' rs Hm H G.
  - injection H as <- <-. split; auto. intros ? [].
  - destruct (pop_tensor h m tid) as [[h1 r]|] eqn:E; [|discriminate].
    destruct (pop_many h1 m tids) as [[h2 rs']|] eqn:E2; [|discriminate].
    injection H as <- <-.
    destruct (pop_tensor_good _ _ _ _ _ G Hm E) as (G1 & Hr & _).
    pose proof (st_pop_tensor _ _ _ _ _ E) as S1.
    destruct (IH _ _ _ _ (st_live _ _ S1 m Hm) E2 G1) as [G2 Hrs].
    split; auto. intros r0 [<-|Hin]; auto.
    pose proof (st_nt _ _ S1). pose proof (st_nt _ _ (st_pop_many _ _ _ _ _ E2)). lia.
Qed.

Lemma G_add_net_entry : forall dst v clash reind h p,
  live h dst = true -> snd p < h_nt h -> gp h (add_net_entry dst v clash reind h p).
Proof.
  intros dst v clash reind h [tid r] Hd Hr H Hok. cbn [snd] in Hr. unfold add_net_entry in *.
  destruct (negb (isnil clash) && existsb _ _).
  - destruct v.
    + set (h1 := modify_inds h r (map (subst reind) (t_inds (h_T h r)))) in *.
      pose proof (st_modify_inds h r (map (subst reind) (t_inds (h_T h r)))) as S1. fold h1 in S1.
      apply G_add_tensor; auto.
      * apply (st_live _ _ S1); auto.
      * pose proof (st_nt _ _ S1); lia.
      * apply G_modify_inds; auto. apply (st_ok _ _ (st_add_tensor _ _ _ _ _) Hok).
    + set (inds' := map (subst reind) (t_inds (h_T h r))) in *.
      set (h1 := fst (alloc_tensor h inds' (t_tags (h_T h r)))).
      change (h_ok (add_tensor h1 dst (h_nt h) (Some tid) false) = true) in Hok.
      change (Good (add_tensor h1 dst (h_nt h) (Some tid) false)).
      pose proof (st_ok _ _ (st_add_tensor _ _ _ _ _) Hok) as Hok1.
      assert (Good h1) as H1.
      { apply alloc_tensor_good; auto. subst h1; cbn in Hok1. apply andb_true_iff in Hok1 as [_ Hn].
        apply nodupb_NoDup; auto. }
      apply G_add_tensor; auto; subst h1; cbn; lia.
  - apply G_add_tensor; auto.
Qed.

Lemma G_add_net : forall h dst src v cc, live h dst = true -> live h src = true -> gp h (add_net h dst src v cc).
Proof.
  intros h dst src v cc Hd Hs H Hok. unfold add_net in *.
  set (clash := if cc then _ else _) in *. set (reind := combine _ _) in *.
  set (h1 := set_fresh h _) in *.
  assert (Good h1) as H1 by (apply Good_set_fresh; auto).
  revert H1 Hok.
  apply (G_fold (add_net_entry dst v clash reind) (fun hh p => live hh dst = true /\ snd p < h_nt hh)).
  - intros; apply st_add_net_entry.
  - intros hh hh' p S [A B]. split; [apply (st_live _ _ S); auto|pose proof (st_nt _ _ S); lia].
  - intros hh p [A B]. apply G_add_net_entry; auto.
  - intros [tid r] Hin. split; auto. cbn [snd].
    change (r < h_nt h). apply (vals_range h src r (g_nets _ H src Hs)).
    apply (in_map snd) in Hin; auto.
Qed.

Definition item_ok (h : heap) (it : ritem) : Prop :=
  match it with RTensor r => r < h_nt h | RNet s => live h s = true end.

Lemma G_build_net : forall h items v cc, (forall it, In it items -> item_ok h it) ->
  gp h (fst (build_net h items v cc)).
Proof.
  intros h items v cc Hit H Hok. unfold build_net, alloc_net in *. cbn [fst] in *.
  set (h1 := mkH _ _ _ _ _ _ _) in *. set (m := h_nn h) in *.
  assert (Good h1) as H1 by (apply (alloc_net_good h H)).
  assert (st h h1) as S1 by (apply (st_alloc_net h)).
  assert (live h1 m = true) as Hm by (unfold live; subst h1; cbn; rewrite Nat.eqb_refl; auto).
  revert H1 Hok.
  apply (G_fold (add_item m v cc) (fun hh it => live hh m = true /\ item_ok hh it)).
  - intros; apply st_add_item.
  - intros hh hh' it S [A B]. split; [apply (st_live _ _ S); auto|].
    destruct it; cbn [item_ok] in *; [pose proof (st_nt _ _ S); lia|apply (st_live _ _ S); auto].
  - intros hh it [A B]. destruct it; cbn [item_ok add_item] in *; [apply G_add_tensor; auto|apply G_add_net; auto].
  - intros it Hin. split; auto. specialize (Hit it Hin).
    destruct it; cbn [item_ok] in *; [pose proof (st_nt _ _ S1); lia|apply (st_live _ _ S1); auto].
Qed.

Lemma G_for_tids : forall f, (forall h r, st h (f h r)) -> (forall h r, r < h_nt h -> gp h (f h r)) ->
  forall tids h m h', live h m = true -> for_tids f h m tids = Some h' -> gp h h'.
Proof.
  intros f Hst Hg tids; induction tids as [|tid tids IH]; simpl; intros h m h' Hm E H Hok.
  - injection E as <-; auto.
  - destruct (aget tid (n_tmap (h_N h m))) as [r|] eqn:Er; [|discriminate].
    assert (r < h_nt h) as Hr by (eapply (ng_range _ _ (g_nets _ H m Hm)); eauto).
    eapply (IH (f h r)); eauto.
    + apply (st_live _ _ (Hst h r)); auto.
    + apply Hg; auto. apply (st_ok _ _ (st_for_tids f Hst _ _ _ _ E)); auto.
Qed.

Lemma G_add_selected : forall tids n m v h h', live h n = true -> live h m = true ->
  add_selected n m v h tids = Some h' -> gp h h'.
Proof.
  induction tids as [|tid tids IH]; simpl; intros n m v h h' Hn Hm E H Hok.
  - injection E as <-; auto.
  - destruct (aget tid (n_tmap (h_N h n))) as [r|] eqn:Er; [|discriminate].
    assert (r < h_nt h) as Hr by (eapply (ng_range _ _ (g_nets _ H n Hn)); eauto).
    pose proof (st_add_tensor h m r (Some tid) v) as S1.
    eapply (IH n m v (add_tensor h m r (Some tid) v)); eauto.
    + apply (st_live _ _ S1); auto.
    + apply (st_live _ _ S1); auto.
    + apply G_add_tensor; auto. apply (st_ok _ _ (st_add_selected _ _ _ _ _ _ E)); auto.
Qed.

Lemma resolve_range : forall h k r, Good h -> resolve h k = Some r -> r < h_nt h.
Proof. intros h k r H E. apply (g_pub _ H). unfold resolve in E. eapply nth_error_In; eauto. Qed.

Lemma resolve_items_ok : forall h items its, Good h -> resolve_items h items = Some its ->
  forall it, In it its -> item_ok h it.
Proof.
  intros h items; induction items as [|[k|s] items IH]; simpl; intros its H E it Hin.
  - injection E as <-. inversion Hin.
  - destruct (resolve h k) as [r|] eqn:Er; [|discriminate]. cbn in E.
    destruct (resolve_items h items) as [l|]; [|discriminate]. cbn in E. injection E as <-.
    destruct Hin as [<-|Hin]; [cbn; eapply resolve_range; eauto|eapply IH; eauto].
  - destruct (live h s) eqn:Es; [|discriminate].
    destruct (resolve_items h items) as [l|]; [|discriminate]. cbn in E. injection E as <-.
    destruct Hin as [<-|Hin]; [cbn; auto|eapply IH; eauto].
Qed.

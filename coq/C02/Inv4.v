(* C02 - invariant preservation: the copy branch of TensorNetwork.__init__
   (virtual view or copy of every tensor; also deepcopy / pickle). *)
From Coq Require Import List Arith Bool PeanoNat Lia.
From QV Require Import C02.Model C02.Lists C02.Inv.
Import ListNotations.

(* the fold of copy_entry, virtual case *)
Lemma copy_fold_virtual : forall m l h tm, NoDup (map snd l) ->
  exists h2, fold_left (copy_entry m true) l (h, tm) = (h2, tm ++ l)
    /\ h_N h2 = h_N h /\ h_nt h2 = h_nt h /\ h_nn h2 = h_nn h /\ h_pub h2 = h_pub h
    /\ (forall tid r, In (tid, r) l -> h_T h2 r = add_owner (h_T h r) m tid)
    /\ (forall r, ~ In r (map snd l) -> h_T h2 r = h_T h r).
Proof.
  intros m l; induction l as [|[tid r] l IH]; intros h tm ND; simpl.
  - exists h. rewrite app_nil_r. repeat split; auto. intros ? ? [].
  - inversion ND; subst.
    destruct (IH (setT h r (add_owner (h_T h r) m tid)) (tm ++ [(tid, r)]) H2)
      as (h2 & E & EN & Ent & Enn & Epub & HT1 & HT2).
    exists h2. rewrite E, <- app_assoc; simpl. repeat split; auto.
    + intros tid0 r0 [Hin|Hin].
      * inversion Hin; subst. rewrite HT2 by auto. cbn [h_T setT]. rewrite Nat.eqb_refl; auto.
      * rewrite (HT1 _ _ Hin). cbn [h_T setT].
        destruct (Nat.eqb_spec r0 r) as [->|]; auto. exfalso; apply H1. apply (in_map snd) in Hin; auto.
    + intros r0 Hn. rewrite HT2 by (intros ?; apply Hn; right; auto). cbn [h_T setT].
      destruct (Nat.eqb_spec r0 r) as [->|]; auto. exfalso; apply Hn; left; auto.
Qed.

Lemma Forall2_impl_In : forall {A B} (R R' : A -> B -> Prop) l l',
  (forall a b, In a l -> R a b -> R' a b) -> Forall2 R l l' -> Forall2 R' l l'.
Proof.
  intros A B R R' l l' H HF. induction HF; constructor.
  - apply H; simpl; auto.
  - apply IHHF. intros; apply H; simpl; auto.
Qed.

(* the fold of copy_entry, copying case: the new tensors are nt, nt+1, ... *)
Definition copy_rel (h h2 : heap) (m : nat) (p q : nat * nat) : Prop :=
  fst q = fst p /\ h_nt h <= snd q < h_nt h2
  /\ t_inds (h_T h2 (snd q)) = t_inds (h_T h (snd p)) /\ t_tags (h_T h2 (snd q)) = t_tags (h_T h (snd p))
  /\ t_owners (h_T h2 (snd q)) = [(m, fst p)].

Lemma copy_fold_copy : forall m l h tm, (forall p, In p l -> snd p < h_nt h) ->
  exists h2 tn, fold_left (copy_entry m false) l (h, tm) = (h2, tm ++ tn)
    /\ h_N h2 = h_N h /\ h_nn h2 = h_nn h /\ h_pub h2 = h_pub h /\ h_nt h <= h_nt h2
    /\ (forall k, k < h_nt h -> h_T h2 k = h_T h k)
    /\ (forall k, h_nt h2 <= k -> h_T h2 k = h_T h k)
    /\ Forall2 (copy_rel h h2 m) l tn
    /\ NoDup (map snd tn)
    /\ (forall k, h_nt h <= k < h_nt h2 -> In k (map snd tn)).
Proof.
  intros m l; induction l as [|[tid r] l IH]; intros h tm Hr; simpl.
  - exists h, []. rewrite app_nil_r. repeat split; auto; try constructor. intros; lia.
  - set (h' := setT _ _ _).
    assert (h_nt h' = S (h_nt h) /\ h_N h' = h_N h /\ h_nn h' = h_nn h /\ h_pub h' = h_pub h) as (Ent & EN & Enn & Epub).
    { subst h'; cbn; auto. }
    assert (forall k, h_T h' k = if k =? h_nt h then mkT (t_inds (h_T h r)) (t_tags (h_T h r)) [(m, tid)] else h_T h k) as ET.
    { intros k; subst h'; cbn [h_T setT]. rewrite Nat.eqb_refl. destruct (k =? h_nt h) eqn:Ek; reflexivity. }
    clearbody h'.
    destruct (IH h' (tm ++ [(tid, h_nt h)])) as (h2 & tn & E & EN2 & Enn2 & Epub2 & Hle & HT1 & HT2 & HF & ND & Hcov).
    { intros p Hp. rewrite Ent. specialize (Hr p (or_intror Hp)). lia. }
    exists h2, ((tid, h_nt h) :: tn).
    split.
    { rewrite E. rewrite <- app_assoc. simpl. reflexivity. }
    assert (r < h_nt h) as Hrr by (apply (Hr (tid, r)); left; auto).
    repeat split; try congruence; try lia.
    + intros k Hk. rewrite HT1 by lia. rewrite ET. destruct (Nat.eqb_spec k (h_nt h)); [lia|auto].
    + intros k Hk. rewrite HT2 by lia. rewrite ET. destruct (Nat.eqb_spec k (h_nt h)); [lia|auto].
    + constructor.
      * unfold copy_rel; cbn [fst snd]. rewrite HT1 by lia. rewrite ET, Nat.eqb_refl. cbn. repeat split; auto; lia.
      * eapply Forall2_impl_In; [|exact HF]. intros p q Hp (A1 & A2 & A3 & A4 & A5).
        specialize (Hr p (or_intror Hp)).
        unfold copy_rel. repeat split; auto; try lia.
        -- rewrite A3, ET. destruct (Nat.eqb_spec (snd p) (h_nt h)); [lia|auto].
        -- rewrite A4, ET. destruct (Nat.eqb_spec (snd p) (h_nt h)); [lia|auto].
    + simpl. constructor; auto. intros Hin.
      (* every element of tn is >= nt h' *)
      clear -HF Hin Ent. induction HF; simpl in *; auto. destruct Hin as [Hin|Hin]; auto.
      destruct H as (_ & A2 & _). lia.
    + intros k Hk. simpl. destruct (Nat.eq_dec k (h_nt h)); [left; auto|right; apply Hcov; lia].
Qed.

Lemma Forall2_aget : forall (R : nat * nat -> nat * nat -> Prop) l l',
  Forall2 R l l' -> (forall p q, R p q -> fst q = fst p) ->
  forall k, (forall v', aget k l' = Some v' -> exists v, aget k l = Some v /\ R (k, v) (k, v'))
            /\ (forall v, aget k l = Some v -> exists v', aget k l' = Some v' /\ R (k, v) (k, v')).
Proof.
  intros R l l' HF Hfst k. induction HF as [|[k0 v0] [k0' v0'] l l' HR HF IH]; simpl.
  - split; intros; discriminate.
  - pose proof (Hfst _ _ HR) as Ek; simpl in Ek; subst k0'.
    destruct (k =? k0) eqn:E.
    + apply Nat.eqb_eq in E; subst k0. split.
      * intros v' Hv; inversion Hv; subst. exists v0; auto.
      * intros v Hv; inversion Hv; subst. exists v0'; auto.
    + exact IH.
Qed.

Lemma NetGood_rel : forall h h' m m',
  n_imap (h_N h' m') = n_imap (h_N h m) -> n_gmap (h_N h' m') = n_gmap (h_N h m) ->
  n_inner (h_N h' m') = n_inner (h_N h m) -> n_outer (h_N h' m') = n_outer (h_N h m) ->
  NoDup (akeys (n_tmap (h_N h' m'))) -> NoDup (map snd (n_tmap (h_N h' m'))) ->
  (forall tid r, holds h' m' tid r -> r < h_nt h') ->
  (forall tid i, Cind h' m' tid i <-> Cind h m tid i) ->
  (forall tid g, Ctag h' m' tid g <-> Ctag h m tid g) ->
  NetGood h m -> NetGood h' m'.
Proof.
  intros h h' m m' E2 E3 E4 E5 K V R HI HG [_ _ _ I G IO].
  constructor; rewrite ?E2, ?E3, ?E4, ?E5; auto.
  - eapply map_ok_ext; [|apply I]. intros; symmetry; apply HI.
  - eapply map_ok_ext; [|apply G]. intros; symmetry; apply HG.
Qed.

Lemma copy_net_good : forall h src virtual,
  Good h -> live h src = true -> Good (fst (copy_net h src virtual)).
Proof.
  intros h src virtual H Hsrc. unfold copy_net.
  pose proof (alloc_net_good h H) as H1. unfold alloc_net in *. cbn [fst] in H1.
  set (h1 := mkH _ _ _ _ _ _ _) in *. set (m := h_nn h) in *.
  pose proof (g_live_range _ H src Hsrc) as Hlt.
  assert (src <> m) as Hsm by (subst m; lia).
  assert (h_T h1 = h_T h /\ h_nt h1 = h_nt h /\ h_nn h1 = S m /\ h_pub h1 = h_pub h) as (ET1 & Ent1 & Enn1 & Epub1).
  { subst h1; cbn; auto. }
  assert (forall k, h_N h1 k = if k =? m then new_net else h_N h k) as EN1.
  { intros k; subst h1; cbn; auto. }
  assert (h_N h1 src = h_N h src) as Esrc.
  { rewrite EN1. destruct (Nat.eqb_spec src m); [lia|auto]. }
  assert (live h1 src = true) as Hsrc1 by (unfold live; rewrite Esrc; auto).
  assert (forall k, live h1 k = true <-> k = m \/ live h k = true) as Lv1.
  { intros k. unfold live. rewrite EN1. destruct (Nat.eqb_spec k m) as [->|]; cbn; split; auto.
    intros [?|?]; [lia|auto]. }
  clearbody h1.
  pose proof (g_nets _ H1 src Hsrc1) as NGs.
  set (l := n_tmap (h_N h src)) in *.
  assert (n_tmap (h_N h1 src) = l) as El by (rewrite Esrc; auto).
  assert (NoDup (akeys l)) as Kl by (rewrite <- El; apply (ng_keys _ _ NGs)).
  assert (NoDup (map snd l)) as Vl by (rewrite <- El; apply (ng_vals _ _ NGs)).
  assert (forall tid r, In (tid, r) l <-> holds h1 src tid r) as Hin.
  { intros; unfold holds; rewrite El. apply In_aget_iff; auto. }
  assert (forall r k tid, In (k, tid) (t_owners (h_T h1 r)) -> k <> m) as Hom.
  { intros r k tid Hi. pose proof (g_own_range _ H r k tid) as Hx. rewrite ET1 in Hi. specialize (Hx Hi). subst m; lia. }
  destruct virtual.
  - (* a view: the same tensor objects gain one owner *)
    destruct (copy_fold_virtual m l h1 [] Vl) as (h2 & E & EN & Ent & Enn & Epub & HT1 & HT2).
    rewrite E. cbn [app fst].
    set (hf := setN _ _ _).
    assert (h_T hf = h_T h2 /\ h_nt hf = h_nt h1 /\ h_nn hf = h_nn h1 /\ h_pub hf = h_pub h1) as (ETf & Entf & Ennf & Epubf).
    { subst hf; cbn; auto. }
    assert (forall k, k <> m -> h_N hf k = h_N h1 k) as ENf.
    { intros k Hk; subst hf; cbn [h_N setN]. rewrite EN. destruct (Nat.eqb_spec k m); [lia|auto]. }
    assert (n_tmap (h_N hf m) = l /\ n_imap (h_N hf m) = n_imap (h_N h1 src) /\ n_gmap (h_N hf m) = n_gmap (h_N h1 src)
            /\ n_inner (h_N hf m) = n_inner (h_N h1 src) /\ n_outer (h_N hf m) = n_outer (h_N h1 src)
            /\ n_alive (h_N hf m) = true) as (Fm1 & Fm2 & Fm3 & Fm4 & Fm5 & Fm6).
    { subst hf; cbn [h_N setN]. rewrite Nat.eqb_refl, Esrc. cbn. repeat split; auto. }
    clearbody hf.
    assert (forall k, live hf k = live h1 k) as Lvf.
    { intros k. unfold live. destruct (Nat.eq_dec k m) as [->|Hk]; [|rewrite ENf; auto].
      rewrite Fm6. symmetry. apply Lv1; auto. }
    assert (forall r, (t_inds (h_T hf r) = t_inds (h_T h1 r) /\ t_tags (h_T hf r) = t_tags (h_T h1 r))
                      /\ ((exists tid, In (tid, r) l /\ t_owners (h_T hf r) = aset m tid (t_owners (h_T h1 r)))
                          \/ (~ In r (map snd l) /\ t_owners (h_T hf r) = t_owners (h_T h1 r)))) as HTf.
    { intros r. rewrite ETf. destruct (in_dec Nat.eq_dec r (map snd l)) as [Hi|Hn].
      - apply in_map_iff in Hi as [[tid r'] [Er Hi]]; simpl in Er; subst r'.
        rewrite (HT1 _ _ Hi). cbn; split; auto. left; exists tid; auto.
      - rewrite (HT2 _ Hn). split; auto. }
    assert (forall k t r, k <> m -> (holds hf k t r <-> holds h1 k t r)) as Hhk.
    { intros; unfold holds; rewrite ENf by auto; tauto. }
    assert (forall t r, holds hf m t r <-> holds h1 src t r) as Hhm.
    { intros; unfold holds; rewrite Fm1, El; tauto. }
    destruct H1 as [A B C D E0 F G].
    constructor; rewrite ?Ennf, ?Entf, ?Epubf; auto.
    + intros k Hk. rewrite Lvf in Hk. destruct (Nat.eq_dec k m) as [->|Hkm].
      * apply (NetGood_rel h1 hf src m); auto.
        -- rewrite Fm1; auto.
        -- rewrite Fm1; auto.
        -- intros t r Hr. apply Hhm in Hr. rewrite Entf. eapply (ng_range _ _ NGs); eauto.
        -- intros t i. unfold Cind. split; intros [r [Hr Hi]]; exists r.
           ++ apply Hhm in Hr. split; auto. destruct (HTf r) as [[Ei _] _]. rewrite <- Ei; auto.
           ++ split; [apply Hhm; auto|]. destruct (HTf r) as [[Ei _] _]. rewrite Ei; auto.
        -- intros t i. unfold Ctag. split; intros [r [Hr Hi]]; exists r.
           ++ apply Hhm in Hr. split; auto. destruct (HTf r) as [[_ Ei] _]. rewrite <- Ei; auto.
           ++ split; [apply Hhm; auto|]. destruct (HTf r) as [[_ Ei] _]. rewrite Ei; auto.
      * apply (NetGood_frame h1); rewrite ?ENf by auto; auto; try lia.
        intros t r _. destruct (HTf r) as [[Ei Eg] _]. rewrite Ei, Eg; tauto.
    + intros k Hk. rewrite Lvf in Hk. auto.
    + intros r. destruct (HTf r) as [[Ei _] _]. rewrite Ei; auto.
    + intros r. destruct (HTf r) as [_ [[tid [_ Eo]]|[_ Eo]]]; rewrite Eo; auto. apply akeys_aset_NoDup; auto.
    + intros r k tid. destruct (HTf r) as [_ [[tid0 [_ Eo]]|[_ Eo]]]; rewrite Eo; [|apply E0].
      rewrite In_aset_iff by auto. intros [[-> _]|[_ Hi]]; [lia|eapply E0; eauto].
    + intros r k tid Hk. rewrite Lvf in Hk.
      destruct (HTf r) as [_ [[tid0 [Hi0 Eo]]|[Hn Eo]]]; rewrite Eo.
      * rewrite In_aset_iff by auto. destruct (Nat.eq_dec k m) as [->|Hkm].
        -- rewrite Hhm. apply Hin in Hi0. split.
           ++ intros [[_ ->]|[? _]]; [auto|lia].
           ++ intros Hr. left; split; auto. unfold holds in Hr, Hi0. rewrite El in Hr, Hi0.
              apply (aget_inj l tid tid0 r); auto.
        -- rewrite Hhk by auto. rewrite <- F by auto. split; [intros [[? _]|[_ ?]]; [lia|auto]|auto].
      * destruct (Nat.eq_dec k m) as [->|Hkm].
        -- rewrite Hhm. split.
           ++ intros Hi. exfalso. eapply Hom; eauto.
           ++ intros Hr. exfalso. apply Hn. apply Hin in Hr. apply (in_map snd) in Hr; auto.
        -- rewrite Hhk by auto. apply F; auto.
  - (* a copy: new tensor objects owned by the new network only *)
    destruct (copy_fold_copy m l h1 []) as (h2 & tn & E & EN & Enn & Epub & Hle & HT1 & HT2 & HF & NDn & Hcov).
    { intros [tid r] Hp. simpl. apply Hin in Hp. eapply (ng_range _ _ NGs); eauto. }
    rewrite E. cbn [app fst].
    set (hf := setN _ _ _).
    assert (h_T hf = h_T h2 /\ h_nt hf = h_nt h2 /\ h_nn hf = h_nn h1 /\ h_pub hf = h_pub h1) as (ETf & Entf & Ennf & Epubf).
    { subst hf; cbn; auto. }
    assert (forall k, k <> m -> h_N hf k = h_N h1 k) as ENf.
    { intros k Hk; subst hf; cbn [h_N setN]. rewrite EN. destruct (Nat.eqb_spec k m); [lia|auto]. }
    assert (n_tmap (h_N hf m) = tn /\ n_imap (h_N hf m) = n_imap (h_N h1 src) /\ n_gmap (h_N hf m) = n_gmap (h_N h1 src)
            /\ n_inner (h_N hf m) = n_inner (h_N h1 src) /\ n_outer (h_N hf m) = n_outer (h_N h1 src)
            /\ n_alive (h_N hf m) = true) as (Fm1 & Fm2 & Fm3 & Fm4 & Fm5 & Fm6).
    { subst hf; cbn [h_N setN]. rewrite Nat.eqb_refl, Esrc. cbn. repeat split; auto. }
    clearbody hf.
    assert (forall k, live hf k = live h1 k) as Lvf.
    { intros k. unfold live. destruct (Nat.eq_dec k m) as [->|Hk]; [|rewrite ENf; auto].
      rewrite Fm6. symmetry. apply Lv1; auto. }
    assert (forall p q, copy_rel h1 h2 m p q -> fst q = fst p) as Hfst by (intros p q (A1 & _); auto).
    pose proof (Forall2_aget _ _ _ HF Hfst) as Hag.
    assert (map fst tn = map fst l) as Ekeys.
    { clear -HF. induction HF; simpl; auto. destruct H as (A1 & _). congruence. }
    assert (forall k t r, k <> m -> (holds hf k t r <-> holds h1 k t r)) as Hhk.
    { intros; unfold holds; rewrite ENf by auto; tauto. }
    assert (forall t r', holds hf m t r' ->
              h_nt h1 <= r' < h_nt h2 /\ t_owners (h_T hf r') = [(m, t)]
              /\ exists r, holds h1 src t r /\ t_inds (h_T hf r') = t_inds (h_T h1 r) /\ t_tags (h_T hf r') = t_tags (h_T h1 r)) as Hm1.
    { intros t r' Hr. unfold holds in Hr. rewrite Fm1 in Hr.
      destruct (proj1 (Hag t) r' Hr) as (r & Hl & (_ & A2 & A3 & A4 & A5)). cbn [fst snd] in *.
      rewrite ETf. split; auto. split; auto. exists r. unfold holds. rewrite El. auto. }
    assert (forall t r, holds h1 src t r -> exists r', holds hf m t r' /\ t_inds (h_T hf r') = t_inds (h_T h1 r)
                                                   /\ t_tags (h_T hf r') = t_tags (h_T h1 r)) as Hm2.
    { intros t r Hr. unfold holds in Hr. rewrite El in Hr.
      destruct (proj2 (Hag t) r Hr) as (r' & Hl & (_ & A2 & A3 & A4 & A5)). cbn [fst snd] in *.
      exists r'. unfold holds. rewrite Fm1, ETf. auto. }
    assert (forall r, r < h_nt h1 -> h_T hf r = h_T h1 r) as Told by (intros; rewrite ETf; apply HT1; auto).
    assert (forall r, h_nt h2 <= r -> h_T hf r = h_T h1 r) as Tbig by (intros; rewrite ETf; apply HT2; auto).
    assert (forall r, h_nt h1 <= r < h_nt h2 -> exists t, holds hf m t r) as Tnew.
    { intros r Hr. apply Hcov in Hr. apply in_map_iff in Hr as [[t r'] [Er Hi]]; simpl in Er; subst r'.
      exists t. unfold holds. rewrite Fm1. apply In_aget; auto. unfold akeys. rewrite Ekeys; auto. }
    destruct H1 as [A B C D E0 F G].
    constructor; rewrite ?Ennf, ?Entf, ?Epubf; auto.
    + intros k Hk. rewrite Lvf in Hk. destruct (Nat.eq_dec k m) as [->|Hkm].
      * apply (NetGood_rel h1 hf src m); auto.
        -- rewrite Fm1. unfold akeys. rewrite Ekeys; auto.
        -- rewrite Fm1; auto.
        -- intros t r Hr. apply Hm1 in Hr. rewrite Entf. lia.
        -- intros t i. unfold Cind. split.
           ++ intros [r' [Hr Hi]]. destruct (Hm1 _ _ Hr) as (_ & _ & r & Hs & Ei & _). exists r. rewrite <- Ei; auto.
           ++ intros [r [Hr Hi]]. destruct (Hm2 _ _ Hr) as (r' & Hs & Ei & _). exists r'. rewrite Ei; auto.
        -- intros t i. unfold Ctag. split.
           ++ intros [r' [Hr Hi]]. destruct (Hm1 _ _ Hr) as (_ & _ & r & Hs & _ & Ei). exists r. rewrite <- Ei; auto.
           ++ intros [r [Hr Hi]]. destruct (Hm2 _ _ Hr) as (r' & Hs & _ & Ei). exists r'. rewrite Ei; auto.
      * apply (NetGood_frame h1); rewrite ?ENf by auto; auto; try lia.
        intros t r Hr. rewrite Told; [tauto|]. eapply (ng_range _ _ (A k Hk)); eauto.
    + intros k Hk. rewrite Lvf in Hk. auto.
    + intros r. destruct (lt_dec r (h_nt h1)) as [Hlt1|Hge]; [rewrite Told; auto|].
      destruct (le_dec (h_nt h2) r) as [Hbig|Hsml]; [rewrite Tbig; auto|].
      destruct (Tnew r) as [t Ht]; [lia|]. destruct (Hm1 _ _ Ht) as (_ & _ & r0 & _ & Ei & _). rewrite Ei; auto.
    + intros r. destruct (lt_dec r (h_nt h1)) as [Hlt1|Hge]; [rewrite Told; auto|].
      destruct (le_dec (h_nt h2) r) as [Hbig|Hsml]; [rewrite Tbig; auto|].
      destruct (Tnew r) as [t Ht]; [lia|]. destruct (Hm1 _ _ Ht) as (_ & Eo & _). rewrite Eo. cbn.
      constructor; [intros []|constructor].
    + intros r k tid. destruct (lt_dec r (h_nt h1)) as [Hlt1|Hge]; [rewrite Told; auto; apply E0|].
      destruct (le_dec (h_nt h2) r) as [Hbig|Hsml]; [rewrite Tbig; auto; apply E0|].
      destruct (Tnew r) as [t Ht]; [lia|]. destruct (Hm1 _ _ Ht) as (_ & Eo & _). rewrite Eo.
      intros [Hi|[]]. inversion Hi; subst. lia.
    + intros r k tid Hk. rewrite Lvf in Hk.
      destruct (lt_dec r (h_nt h1)) as [Hlt1|Hge]; [|destruct (le_dec (h_nt h2) r) as [Hbig|Hsml]].
      * rewrite Told by auto. destruct (Nat.eq_dec k m) as [->|Hkm].
        -- split; [intros Hi; exfalso; eapply Hom; eauto|]. intros Hr. apply Hm1 in Hr. lia.
        -- rewrite Hhk by auto. apply F; auto.
      * rewrite Tbig by auto. destruct (Nat.eq_dec k m) as [->|Hkm].
        -- split; [intros Hi; exfalso; eapply Hom; eauto|]. intros Hr. apply Hm1 in Hr. lia.
        -- rewrite Hhk by auto. apply F; auto.
      * destruct (Tnew r) as [t Ht]; [lia|]. destruct (Hm1 _ _ Ht) as (_ & Eo & _). rewrite Eo.
        destruct (Nat.eq_dec k m) as [->|Hkm].
        -- split.
           ++ intros [Hi|[]]. inversion Hi; subst; auto.
           ++ intros Hr. left. f_equal.
              unfold holds in *. rewrite Fm1 in *. eapply aget_inj; eauto.
        -- rewrite Hhk by auto. split.
           ++ intros [Hi|[]]. inversion Hi; subst; lia.
           ++ intros Hr. exfalso. pose proof (ng_range _ _ (A k (proj1 (conj Hk I))) _ _ Hr). lia.
    + intros r Hr. specialize (G r Hr). lia.
Qed.

(* C02 - every operation of the alphabet preserves the invariant (inside the
   domain recorded by the ghost flag). *)
From Coq Require Import List Arith Bool PeanoNat Lia.
From QV Require Import C02.Model C02.Lists C02.Inv C02.Inv2 C02.Inv3 C02.Inv4 C02.Inv5 C02.Struct C02.Steps.
Import ListNotations.

Lemma ifb_some : forall (b : bool) {A} (x : option A) y, ifb b x = Some y -> b = true /\ x = Some y.
Proof. intros b A x y H; destruct b; cbn in H; [auto|discriminate]. Qed.

Lemma obind_some : forall {A B} (o : option A) (f : A -> option B) y,
  obind o f = Some y -> exists a, o = Some a /\ f a = Some y.
Proof. intros A B o f y H; destruct o; cbn in H; [eauto|discriminate]. Qed.

Definition okm (h h' : heap) : Prop := h_ok h' = true -> h_ok h = true.

Lemma from_st : forall h h', st h h' -> gp h h' -> okm h h' /\ gp h h'.
Proof. intros h h' S G; split; auto. exact (st_ok _ _ S). Qed.

Ltac inv_some H := injection H as H; subst.

Lemma copy_or_same : forall h n (inplace : bool) h1 m, live h n = true ->
  (if inplace then (h, n) else copy_net h n false) = (h1, m) ->
  st h h1 /\ live h1 m = true /\ (Good h -> Good h1).
Proof.
  intros h n inplace h1 m Hn E. destruct inplace.
  - injection E as <- <-. split; [apply st_refl|auto].
  - destruct (st_copy_net h n false) as (S & Em & Hl).
    pose proof (copy_net_good h n false) as G.
    rewrite E in *. cbn [fst snd] in *. subst m. auto.
Qed.

Lemma step_core_spec : forall h o h', step_core h o = Some h' -> okm h h' /\ gp h h'.
Proof.
  intros h o h' E. destruct o; cbn [step_core] in E.
  - (* NewTensor *)
    unfold alloc_tensor in E. inv_some E.
    set (h1 := mkH _ _ _ _ _ _ _).
    assert (st h h1) as S1 by (apply (st_alloc_tensor h inds (oset_of tags))).
    apply from_st; [eapply st_trans; [exact S1|apply st_publish1]|].
    intros H Hok. apply publish1_good; [|subst h1; cbn; lia].
    apply (alloc_tensor_good h inds (oset_of tags)); auto.
    apply (st_ok _ _ (st_publish1 _ _)) in Hok. subst h1; cbn in Hok.
    apply andb_true_iff in Hok as [_ Hn]. apply nodupb_NoDup; auto.
  - (* TCopy *)
    apply obind_some in E as (r & Er & E). unfold alloc_tensor in E. inv_some E.
    set (h1 := mkH _ _ _ _ _ _ _).
    assert (st h h1) as S1 by (apply (st_alloc_tensor h (t_inds (h_T h r)) (t_tags (h_T h r)))).
    apply from_st; [eapply st_trans; [exact S1|apply st_publish1]|].
    intros H Hok. apply publish1_good; [|subst h1; cbn; lia].
    apply (alloc_tensor_good h (t_inds (h_T h r)) (t_tags (h_T h r))); auto. apply (g_inds _ H).
  - (* NewNet *)
    apply obind_some in E as (its & Ei & E). inv_some E.
    destruct (st_build_net h its virtual cc) as (S & _ & _).
    apply from_st; auto. intros H Hok. apply G_build_net; auto. eapply resolve_items_ok; eauto.
  - (* Add *)
    apply ifb_some in E as [Hn E]. apply obind_some in E as (r & Er & E). inv_some E.
    apply from_st; [apply st_add_tensor|]. intros H Hok. apply G_add_tensor; auto. eapply resolve_range; eauto.
  - (* AddNet *)
    apply ifb_some in E as [Hn E]. inv_some E.
    apply andb_true_iff in Hn as [Hn _]. apply andb_true_iff in Hn as [Hn Hs].
    apply from_st; [apply st_add_net|]. apply G_add_net; auto.
  - (* Pop *)
    apply ifb_some in E as [Hn E]. apply obind_some in E as ([h1 r] & Ep & E). inv_some E. cbn [fst].
    apply from_st; [eapply st_pop_tensor; eauto|]. intros H _. eapply pop_tensor_good; eauto.
  - (* PopTags *)
    apply ifb_some in E as [Hn E]. apply obind_some in E as (tids & Et & E).
    destruct tids as [|tid [|? ?]]; try discriminate.
    apply obind_some in E as ([h1 r] & Ep & E). inv_some E. cbn [fst].
    apply from_st; [eapply st_pop_tensor; eauto|]. intros H _. eapply pop_tensor_good; eauto.
  - (* Delete *)
    apply ifb_some in E as [Hn E]. apply obind_some in E as (tids & Et & E).
    apply obind_some in E as ([h1 rs] & Ep & E). inv_some E. cbn [fst].
    apply from_st; [eapply st_pop_many; eauto|]. intros H _. eapply G_pop_many; eauto.
  - (* SetItem *)
    apply ifb_some in E as [Hn E]. apply obind_some in E as (tids & Et & E).
    destruct tids as [|tid [|? ?]]; try discriminate.
    apply obind_some in E as (r & Er & E). apply obind_some in E as ([h1 r0] & Ep & E). inv_some E. cbn [fst].
    pose proof (st_pop_tensor _ _ _ _ _ Ep) as S1.
    apply from_st; [eapply st_trans; [exact S1|apply st_add_tensor]|].
    intros H Hok. apply G_add_tensor; auto.
    + apply (st_live _ _ S1); auto.
    + pose proof (resolve_range _ _ _ H Er). pose proof (st_nt _ _ S1). lia.
    + eapply pop_tensor_good; eauto.
  - (* TModInds *)
    apply obind_some in E as (r & Er & E). inv_some E. apply from_st; [apply st_modify_inds|apply G_modify_inds].
  - (* TModTags *)
    apply obind_some in E as (r & Er & E). inv_some E. apply from_st; [apply st_modify_tags|apply G_modify_tags].
  - (* TReindex *)
    apply obind_some in E as (r & Er & E). inv_some E. apply from_st; [apply st_modify_inds|apply G_modify_inds].
  - (* TRetag *)
    apply obind_some in E as (r & Er & E). inv_some E. apply from_st; [apply st_modify_tags|apply G_modify_tags].
  - (* TAddTag *)
    apply obind_some in E as (r & Er & E). inv_some E. apply from_st; [apply st_modify_tags|apply G_modify_tags].
  - (* TDropTags *)
    apply obind_some in E as (r & Er & E). inv_some E. apply from_st; [apply st_t_drop_tags|apply G_t_drop_tags].
  - (* NReindex *)
    apply ifb_some in E as [Hn E].
    destruct (if inplace then (h, n) else copy_net h n false) as [h1 m] eqn:Ec.
    destruct (copy_or_same _ _ _ _ _ Hn Ec) as (S1 & Hm & G1).
    pose proof (st_for_tids (fun hh r => t_reindex hh r f) (fun hh r => st_t_reindex hh r f) _ _ _ _ E) as S2.
    apply from_st; [eapply st_trans; eauto|].
    intros H Hok.
    eapply (G_for_tids (fun hh r => t_reindex hh r f)); eauto.
    + intros; apply st_t_reindex.
    + intros hh r _. apply G_modify_inds.
  - (* NRetag *)
    apply ifb_some in E as [Hn E].
    destruct (if inplace then (h, n) else copy_net h n false) as [h1 m] eqn:Ec.
    destruct (copy_or_same _ _ _ _ _ Hn Ec) as (S1 & Hm & G1).
    apply obind_some in E as (tids & Et & E).
    pose proof (st_for_tids (fun hh r => t_retag hh r f) (fun hh r => st_t_retag hh r f) _ _ _ _ E) as S2.
    apply from_st; [eapply st_trans; eauto|].
    intros H Hok.
    eapply (G_for_tids (fun hh r => t_retag hh r f)); eauto.
    + intros; apply st_t_retag.
    + intros hh r _. apply G_modify_tags.
  - (* NAddTag *)
    apply ifb_some in E as [Hn E]. apply obind_some in E as (tids & Et & E).
    pose proof (st_for_tids (fun hh r => t_add_tag hh r [tag]) (fun hh r => st_t_add_tag hh r [tag]) _ _ _ _ E) as S2.
    apply from_st; auto.
    eapply (G_for_tids (fun hh r => t_add_tag hh r [tag])); eauto.
    + intros; apply st_t_add_tag.
    + intros hh r _. apply G_modify_tags.
  - (* NDropTags *)
    apply ifb_some in E as [Hn E]. apply obind_some in E as (tids & Et & E).
    pose proof (st_for_tids (fun hh r => t_drop_tags hh r tags) (fun hh r => st_t_drop_tags hh r tags) _ _ _ _ E) as S2.
    apply from_st; auto.
    eapply (G_for_tids (fun hh r => t_drop_tags hh r tags)); eauto.
    + intros; apply st_t_drop_tags.
    + intros hh r _. apply G_t_drop_tags.
  - (* Copy *)
    apply ifb_some in E as [Hn E]. inv_some E.
    apply from_st; [apply st_copy_net|]. intros H _. apply copy_net_good; auto.
  - (* DeepCopy *)
    apply ifb_some in E as [Hn E]. inv_some E.
    apply from_st; [apply st_copy_net|]. intros H _. apply copy_net_good; auto.
  - (* Select *)
    apply ifb_some in E as [Hn E]. apply obind_some in E as (tids & Et & E).
    unfold alloc_net in E. set (h1 := mkH _ _ _ _ _ _ _) in E.
    assert (st h h1) as S1 by (apply (st_alloc_net h)).
    pose proof (st_add_selected _ _ _ _ _ _ E) as S2.
    apply from_st; [eapply st_trans; eauto|].
    intros H Hok. apply (G_add_selected tids n (h_nn h) virtual h1 h'); auto.
    + apply (st_live _ _ S1); auto.
    + unfold live; subst h1; cbn. rewrite Nat.eqb_refl; auto.
    + apply (alloc_net_good h H).
  - (* SelectWithout *)
    apply ifb_some in E as [Hn E].
    destruct (copy_net h n virtual) as [h1 m] eqn:Ec.
    destruct (st_copy_net h n virtual) as (S1 & Em & Hl).
    pose proof (copy_net_good h n virtual) as G1. rewrite Ec in *. cbn [fst snd] in *. subst m.
    apply obind_some in E as ([h2 rs] & Ep & E). inv_some E. cbn [fst].
    apply from_st; [eapply st_trans; [exact S1|eapply st_pop_many; eauto]|].
    intros H _. eapply G_pop_many; eauto.
  - (* Partition *)
    apply ifb_some in E as [Hn E]. apply obind_some in E as (tids & Et & E).
    destruct inplace.
    + apply obind_some in E as ([h1 rs] & Ep & E). inv_some E. cbn [fst snd].
      pose proof (st_pop_many _ _ _ _ _ Ep) as S1.
      destruct (st_build_net h1 (map RTensor rs) false false) as (S2 & _ & _).
      apply from_st; [eapply st_trans; eauto|].
      intros H Hok. destruct (G_pop_many _ _ _ _ _ Hn Ep H) as [G1 Hrs].
      apply G_build_net; auto. intros it Hit. apply in_map_iff in Hit as [r [<- Hr]]. cbn. auto.
    + set (its1 := map (fun p => RTensor (snd p)) (filter (fun p => negb (mem (fst p) tids)) (n_tmap (h_N h n)))) in *.
      set (its2 := map (fun p => RTensor (snd p)) (filter (fun p => mem (fst p) tids) (n_tmap (h_N h n)))) in *.
      destruct (build_net h its1 false false) as [h1 m1] eqn:Eb1. inv_some E.
      destruct (st_build_net h its1 false false) as (S1 & _ & _). rewrite Eb1 in S1; cbn [fst] in S1.
      destruct (st_build_net h1 its2 false false) as (S2 & _ & _).
      apply from_st; [eapply st_trans; eauto|].
      intros H Hok.
      assert (forall p, In p (n_tmap (h_N h n)) -> snd p < h_nt h) as Hrange.
      { intros p Hp. apply (vals_range h n _ (g_nets _ H n Hn)). apply in_map; auto. }
      assert (Good h1) as G1.
      { pose proof (G_build_net h its1 false false) as Gb. rewrite Eb1 in Gb; cbn [fst] in Gb. apply Gb; auto.
        - intros it Hit. subst its1. apply in_map_iff in Hit as [p [<- Hp]]. apply filter_In in Hp as [Hp _]. cbn. auto.
        - apply (st_ok _ _ S2); auto. }
      apply G_build_net; auto.
      intros it Hit. subst its2. apply in_map_iff in Hit as [p [<- Hp]]. apply filter_In in Hp as [Hp _]. cbn.
      pose proof (st_nt _ _ S1). specialize (Hrange p Hp). lia.
  - (* PartitionTensors *)
    apply ifb_some in E as [Hn E]. apply obind_some in E as (tids & Et & E).
    destruct (if inplace then (h, n) else copy_net h n false) as [h1 m] eqn:Ec.
    destruct (copy_or_same _ _ _ _ _ Hn Ec) as (S1 & Hm & G1).
    apply obind_some in E as ([h2 rs] & Ep & E). inv_some E. cbn [fst].
    apply from_st; [eapply st_trans; [exact S1|eapply st_pop_many; eauto]|].
    intros H _. eapply G_pop_many; eauto.
  - (* MakeTidsConsecutive *)
    apply ifb_some in E as [Hn E]. apply obind_some in E as ([h1 rs] & Ep & E). inv_some E. cbn [fst snd].
    pose proof (st_pop_many _ _ _ _ _ Ep) as S1.
    pose proof (st_set_ctr h1 n tid0) as S2.
    pose proof (st_fold (fun hh r => add_tensor hh n r None true) (fun hh r => st_add_tensor hh n r None true) rs (set_ctr h1 n tid0)) as S3.
    apply from_st; [eapply st_trans; [exact S1|eapply st_trans; eauto]|].
    intros H Hok. destruct (G_pop_many _ _ _ _ _ Hn Ep H) as [G1 Hrs].
    revert Hok. generalize (set_ctr_good h1 n tid0 G1).
    apply (G_fold (fun hh r => add_tensor hh n r None true) (fun hh r => live hh n = true /\ r < h_nt hh)).
    + intros; apply st_add_tensor.
    + intros hh hh' r S [A B]. split; [apply (st_live _ _ S); auto|pose proof (st_nt _ _ S); lia].
    + intros hh r [A B]. apply G_add_tensor; auto.
    + intros r Hr. split.
      * apply (st_live _ _ S2). apply (st_live _ _ S1); auto.
      * specialize (Hrs r Hr). pose proof (st_nt _ _ S2). lia.
  - (* Kill *)
    apply ifb_some in E as [Hn E]. inv_some E. split.
    + unfold okm, kill; cbn; auto.
    + intros H _. apply kill_good; auto.
  - (* RemoveAll *)
    apply ifb_some in E as [Hn E]. inv_some E.
    apply from_st; [apply st_remove_all|]. intros H _. apply remove_all_good; auto.
Qed.

(* ------------------------------------------------------------------ *)

Definition GoodF (h : heap) : Prop := h_ok h = true -> Good h.

Lemma Good_h0 : Good h0.
Proof.
  constructor; cbn; try discriminate; intros; try constructor; try tauto.
Qed.

Theorem step_GoodF : forall h o, GoodF h -> GoodF (fst (step h o)).
Proof.
  intros h o G. unfold step. destruct (step_core h o) as [h'|] eqn:E; cbn [fst]; auto.
  destruct (step_core_spec _ _ _ E) as [Hok Hg].
  intros Hp. apply publish_good. apply Hg; auto.
Qed.

Theorem run_GoodF : forall ops, GoodF (run ops).
Proof.
  intros ops. unfold run.
  assert (forall l h, GoodF h -> GoodF (fold_left (fun h o => fst (step h o)) l h)) as Hgen.
  { induction l; simpl; intros; auto. apply IHl. apply step_GoodF; auto. }
  apply Hgen. intros _. apply Good_h0.
Qed.

(* C02 - invariant preservation: pop_tensor, kill, set_ctr, publish. *)
From Coq Require Import List Arith Bool PeanoNat Lia.
From QV Require Import C02.Model C02.Lists C02.Inv.
Import ListNotations.

Lemma pop_tensor_good : forall h m tid h' r,
  Good h -> live h m = true -> pop_tensor h m tid = Some (h', r) ->
  Good h' /\ r < h_nt h /\ holds h m tid r.
Proof.
  intros h m tid h' r [A B C D E F G] Hm Hpop.
  pose proof (A m Hm) as [K V R I Gm IO].
  unfold pop_tensor in Hpop.
  destruct (aget tid (n_tmap (h_N h m))) as [r0|] eqn:Eh; [|discriminate].
  destruct (unlink_inds (t_inds (h_T h r0)) tid (n_imap (h_N h m), n_inner (h_N h m), n_outer (h_N h m)))
    as [[im inn] out] eqn:EL.
  injection Hpop as Eh' Er. subst r0.
  assert (holds h m tid r) as Hr by exact Eh.
  split; [|split; [eapply R; eauto|auto]].
  assert (ist_ok (im, inn, out) (fun t j => Cind h m t j /\ ~ (t = tid /\ In j (t_inds (h_T h r))))) as HL.
  { rewrite <- EL. apply unlink_inds_ok. split; auto. }
  destruct HL as [HLm HLio].
  pose proof (unlink_tags_ok (t_tags (h_T h r)) tid _ _ Gm) as HG.
  assert (forall k, t_inds (h_T h' k) = t_inds (h_T h k)) as Ti.
  { intros k; subst h'; cbn [h_T setN setT]. destruct (Nat.eqb_spec k r) as [->|]; auto. }
  assert (forall k, t_tags (h_T h' k) = t_tags (h_T h k)) as Tg.
  { intros k; subst h'; cbn [h_T setN setT]. destruct (Nat.eqb_spec k r) as [->|]; auto. }
  assert (forall k, t_owners (h_T h' k) = if k =? r then adel m (t_owners (h_T h r)) else t_owners (h_T h k)) as To.
  { intros k; subst h'; cbn [h_T setN setT]. destruct (k =? r); auto. }
  assert (forall k, live h' k = live h k) as Lv.
  { intros k; subst h'; unfold live; cbn [h_N setN setT]. destruct (Nat.eqb_spec k m) as [->|]; auto. }
  assert (forall k, k <> m -> h_N h' k = h_N h k) as Nk.
  { intros k Hk; subst h'; cbn [h_N setN setT]. destruct (Nat.eqb_spec k m); [lia|auto]. }
  assert (n_tmap (h_N h' m) = adel tid (n_tmap (h_N h m))) as Tm.
  { subst h'; cbn [h_N setN setT]. rewrite Nat.eqb_refl; auto. }
  assert (n_imap (h_N h' m) = im /\ n_inner (h_N h' m) = inn /\ n_outer (h_N h' m) = out
          /\ n_gmap (h_N h' m) = unlink_tags (t_tags (h_T h r)) tid (n_gmap (h_N h m))) as (Im & Inn & Out & Gmm).
  { subst h'; cbn [h_N setN setT]. rewrite Nat.eqb_refl; auto. }
  assert (h_nt h' = h_nt h /\ h_nn h' = h_nn h /\ h_pub h' = h_pub h) as (Ent & Enn & Epub).
  { subst h'; cbn; auto. }
  clear Eh'.
  assert (forall t r0, holds h' m t r0 <-> t <> tid /\ holds h m t r0) as Hh.
  { intros t r0. unfold holds. rewrite Tm. destruct (Nat.eq_dec t tid) as [->|Hn].
    - rewrite aget_adel_same. split; [discriminate|tauto].
    - rewrite aget_adel_other by auto. tauto. }
  assert (forall t, holds h m t r -> t = tid) as Huniq.
  { intros t Ht. eapply aget_inj; eauto. }
  constructor.
  - intros k Hk. rewrite Lv in Hk. destruct (Nat.eq_dec k m) as [->|Hn].
    + constructor.
      * rewrite Tm. apply akeys_adel_NoDup; auto.
      * rewrite Tm. apply NoDup_map_filter; auto.
      * intros t r0 H0. rewrite Ent. apply Hh in H0 as [_ H0]. eapply R; eauto.
      * rewrite Im. eapply map_ok_ext; [|apply HLm]. intros t j. unfold Cind. split.
        -- intros [[r0 [H0 Hj]] Hn]. exists r0. split; [|rewrite Ti; auto].
           apply Hh; split; auto. intros ->. apply Hn; split; auto.
           unfold holds in *. rewrite Hr in H0; inversion H0; subst; auto.
        -- intros [r0 [H0 Hj]]. rewrite Ti in Hj. apply Hh in H0 as [Hn H0]. split; [exists r0; auto|tauto].
      * rewrite Gmm. eapply map_ok_ext; [|apply HG]. intros t j. unfold Ctag. split.
        -- intros [[r0 [H0 Hj]] Hn]. exists r0. split; [|rewrite Tg; auto].
           apply Hh; split; auto. intros ->. apply Hn; split; auto.
           unfold holds in *. rewrite Hr in H0; inversion H0; subst; auto.
        -- intros [r0 [H0 Hj]]. rewrite Tg in Hj. apply Hh in H0 as [Hn H0]. split; [exists r0; auto|tauto].
      * rewrite Im, Inn, Out; auto.
    + apply (NetGood_frame h); rewrite ?Nk by auto; auto; try lia.
      intros; rewrite Ti, Tg; tauto.
  - intros k Hk. rewrite Lv in Hk. rewrite Enn. apply B; auto.
  - intros k. rewrite Ti; auto.
  - intros k. rewrite To. destruct (Nat.eqb_spec k r) as [->|]; auto.
    apply akeys_adel_NoDup; auto.
  - intros k m0 t0. rewrite To, Enn. destruct (Nat.eqb_spec k r) as [->|]; [|apply E].
    rewrite In_adel. intros [Hi _]. eapply E; eauto.
  - intros k m0 t0 Hk. rewrite Lv in Hk. rewrite To.
    destruct (Nat.eq_dec m0 m) as [->|Hm0].
    + rewrite Hh. destruct (Nat.eqb_spec k r) as [->|Hk'].
      * rewrite In_adel; simpl. split; [intros [_ ?]; lia|]. intros [Hn H0]. exfalso; apply Hn; auto.
      * rewrite F by auto. split; [|tauto]. intros H0; split; auto. intros ->.
        unfold holds in *. rewrite Hr in H0; inversion H0; auto.
    + assert (holds h' m0 t0 k <-> holds h m0 t0 k) as -> by (unfold holds; rewrite Nk by auto; tauto).
      destruct (Nat.eqb_spec k r) as [->|Hk'].
      * rewrite In_adel; simpl. rewrite <- F by auto. tauto.
      * apply F; auto.
  - intros k Hk. rewrite Epub in Hk. rewrite Ent. apply G; auto.
Qed.

Lemma kill_good : forall h m, Good h -> Good (kill h m).
Proof.
  intros h m [A B C D E F G]. unfold kill.
  set (h' := setN _ _ _).
  assert (forall k, live h' k = if k =? m then false else live h k) as Lv.
  { intros k; subst h'; unfold live; cbn [h_N setN]. destruct (k =? m); auto. }
  assert (forall k, k <> m -> h_N h' k = h_N h k) as Nk.
  { intros k Hk; subst h'; cbn [h_N setN]. destruct (Nat.eqb_spec k m); [lia|auto]. }
  assert (h_T h' = h_T h /\ h_nt h' = h_nt h /\ h_nn h' = h_nn h /\ h_pub h' = h_pub h) as (ET & Ent & Enn & Epub).
  { subst h'; cbn; auto. }
  clearbody h'.
  assert (forall k, live h' k = true -> k <> m /\ live h k = true) as Lv'.
  { intros k Hk. rewrite Lv in Hk. destruct (Nat.eqb_spec k m); [discriminate|auto]. }
  constructor; rewrite ?ET, ?Enn, ?Ent, ?Epub; auto.
  - intros k Hk. apply Lv' in Hk as [Hn Hk].
    apply (NetGood_frame h); rewrite ?Nk, ?ET by auto; auto; try lia. intros; tauto.
  - intros k Hk. apply Lv' in Hk as [Hn Hk]. auto.
  - intros r k tid Hk. apply Lv' in Hk as [Hn Hk]. unfold holds. rewrite Nk by auto. apply F; auto.
Qed.

Lemma set_ctr_good : forall h m c, Good h -> Good (set_ctr h m c).
Proof.
  intros h m c [A B C D E F G]. unfold set_ctr.
  set (h' := setN _ _ _).
  assert (forall k, live h' k = live h k) as Lv.
  { intros k; subst h'; unfold live; cbn [h_N setN]. destruct (Nat.eqb_spec k m) as [->|]; auto. }
  assert (forall k, n_tmap (h_N h' k) = n_tmap (h_N h k) /\ n_imap (h_N h' k) = n_imap (h_N h k)
                    /\ n_gmap (h_N h' k) = n_gmap (h_N h k) /\ n_inner (h_N h' k) = n_inner (h_N h k)
                    /\ n_outer (h_N h' k) = n_outer (h_N h k)) as Nk.
  { intros k; subst h'; cbn [h_N setN]. destruct (Nat.eqb_spec k m) as [->|]; auto. }
  assert (h_T h' = h_T h /\ h_nt h' = h_nt h /\ h_nn h' = h_nn h /\ h_pub h' = h_pub h) as (ET & Ent & Enn & Epub).
  { subst h'; cbn; auto. }
  clearbody h'.
  constructor; rewrite ?ET, ?Enn, ?Ent, ?Epub; auto.
  - intros k Hk. rewrite Lv in Hk. destruct (Nk k) as (E1 & E2 & E3 & E4 & E5).
    apply (NetGood_frame h); rewrite ?ET; auto; try lia. intros; tauto.
  - intros k Hk. rewrite Lv in Hk. auto.
  - intros r k tid Hk. rewrite Lv in Hk. unfold holds. destruct (Nk k) as (E1 & _). rewrite E1. apply F; auto.
Qed.

(* publish only extends the handle table with tensors held by live networks *)
Lemma publish_inner_range : forall (tm : list (nat * nat)) pub (bound : nat),
  (forall r, In r pub -> r < bound) -> (forall p, In p tm -> snd p < bound) ->
  forall r, In r (fold_left (fun pub p => if mem (snd p) pub then pub else pub ++ [snd p]) tm pub) -> r < bound.
Proof.
  induction tm as [|p tm]; simpl; intros pub bound Hp Ht r Hr; auto.
  eapply IHtm; [| |exact Hr]; auto.
  intros r0 H0. destruct (mem (snd p) pub); auto.
  apply in_app_iff in H0 as [?|[<-|[]]]; auto.
Qed.

Lemma publish_good : forall h, Good h -> Good (publish h).
Proof.
  intros h H. apply (Good_same h); auto.
  unfold publish; cbn [h_pub set_pub].
  assert (forall ms pub, (forall r, In r pub -> r < h_nt h) ->
            forall r, In r (fold_left
              (fun pub m => if live h m
                 then fold_left (fun pub p => if mem (snd p) pub then pub else pub ++ [snd p]) (n_tmap (h_N h m)) pub
                 else pub) ms pub) -> r < h_nt h) as Hgen.
  { induction ms as [|m ms]; simpl; intros pub Hp r Hr; auto.
    eapply IHms; [|exact Hr]. destruct (live h m) eqn:Hm; auto.
    apply publish_inner_range; auto.
    intros [tid r0] Hin. simpl. pose proof (g_nets _ H m Hm) as NG.
    eapply (ng_range _ _ NG tid). unfold holds. apply In_aget; auto. apply (ng_keys _ _ NG). }
  apply Hgen. apply (g_pub _ H).
Qed.

Lemma publish1_good : forall h r, Good h -> r < h_nt h -> Good (publish1 h r).
Proof.
  intros h r H Hr. unfold publish1. destruct (mem r (h_pub h)); auto.
  apply (Good_same h); auto. cbn [h_pub set_pub]. intros r0 H0.
  apply in_app_iff in H0 as [?|[<-|[]]]; auto. apply (g_pub _ H); auto.
Qed.

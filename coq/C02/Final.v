(* C02 - the invariant in terms of a fresh scan, selection exactness. *)
From Coq Require Import List Arith Bool PeanoNat Lia.
From QV Require Import C02.Model C02.Lists C02.Inv C02.Inv2 C02.Inv3 C02.Inv4 C02.Struct C02.Steps C02.Step.
Import ListNotations.

(* what a fresh scan of network m's tensors finds *)
Definition scan_carriers (h : heap) (m : nat) (sel : tensor -> list nat) (i : nat) : list nat :=
  carriers h (h_N h m) sel i.
Definition scan_occ (h : heap) (m i : nat) : nat := occ h (h_N h m) i.

Definition NetInv (h : heap) (m : nat) : Prop :=
  let x := h_N h m in
  (forall i tid, In tid (aget0 i (n_imap x)) <-> In tid (scan_carriers h m t_inds i))
  /\ (forall g tid, In tid (aget0 g (n_gmap x)) <-> In tid (scan_carriers h m t_tags g))
  /\ (forall i, aget i (n_imap x) <> Some []) /\ (forall g, aget g (n_gmap x) <> Some [])
  /\ (forall i, In i (n_inner x) <-> 2 <= scan_occ h m i)
  /\ (forall i, In i (n_outer x) <-> scan_occ h m i = 1)
  /\ (forall r tid, In (m, tid) (t_owners (h_T h r)) <-> In (tid, r) (n_tmap x)).

Definition Inv (h : heap) : Prop := forall m, live h m = true -> NetInv h m.

Lemma carriers_In : forall h x sel i tid,
  In tid (carriers h x sel i) <-> exists r, In (tid, r) (n_tmap x) /\ In i (sel (h_T h r)).
Proof.
  intros; unfold carriers. rewrite in_map_iff. split.
  - intros [[t r] [E Hin]]. simpl in E; subst t. apply filter_In in Hin as [Hin Hm]. apply mem_In in Hm. eauto.
  - intros [r [Hin Hi]]. exists (tid, r); split; auto. apply filter_In; split; auto. apply mem_In; auto.
Qed.

Lemma carriers_NoDup : forall h x sel i, NoDup (akeys (n_tmap x)) -> NoDup (carriers h x sel i).
Proof. intros; unfold carriers. apply NoDup_map_filter; auto. Qed.

Lemma count_occ_NoDup : forall l (i : nat), NoDup l -> count_occ Nat.eq_dec l i = if mem i l then 1 else 0.
Proof.
  induction l; simpl; intros i ND; auto. inversion ND; subst.
  destruct (Nat.eq_dec a i) as [->|Hn].
  - rewrite Nat.eqb_refl; simpl. rewrite IHl by auto.
    destruct (mem i l) eqn:E; auto. apply mem_In in E; tauto.
  - assert ((i =? a) = false) as -> by (apply Nat.eqb_neq; auto). simpl. apply IHl; auto.
Qed.

Lemma occ_length : forall h x i, (forall r, NoDup (t_inds (h_T h r))) ->
  occ h x i = length (carriers h x t_inds i).
Proof.
  intros h x i ND. unfold occ, carriers. rewrite map_length.
  induction (n_tmap x) as [|p l IH]; simpl; auto.
  rewrite count_occ_NoDup by auto. destruct (mem i (t_inds (h_T h (snd p)))); simpl; lia.
Qed.

Lemma NoDup_same_length : forall (a b : list nat), NoDup a -> NoDup b -> (forall x, In x a <-> In x b) -> length a = length b.
Proof.
  intros a b Ha Hb H. apply Nat.le_antisymm; apply NoDup_incl_length; auto; intros x Hx; apply H; auto.
Qed.

Theorem Good_Inv : forall h, Good h -> Inv h.
Proof.
  intros h H m Hm. pose proof (g_nets _ H m Hm) as [K V R I G IO].
  assert (forall sel i tid, In tid (scan_carriers h m sel i) <-> exists r, holds h m tid r /\ In i (sel (h_T h r))) as HC.
  { intros. unfold scan_carriers. rewrite carriers_In. split; intros [r [A B]]; exists r; split; auto.
    - apply In_aget; auto.
    - apply aget_In; auto. }
  unfold NetInv; cbv zeta. repeat split.
  - intros Hi. apply HC. apply (I i); auto.
  - intros Hi. apply (I i). apply HC in Hi; auto.
  - intros Hi. apply HC. apply (G g); auto.
  - intros Hi. apply (G g). apply HC in Hi; auto.
  - intros i. apply (I i).
  - intros g. apply (G g).
  - intros Hi. unfold scan_occ. rewrite occ_length by (apply (g_inds _ H)).
    rewrite <- (NoDup_same_length (aget0 i (n_imap (h_N h m)))); [apply (IO i); auto|apply (I i)|apply carriers_NoDup; auto|].
    intros t. rewrite (proj1 (proj2 (I i))). symmetry. apply (HC t_inds).
  - intros Hi. unfold scan_occ in Hi. rewrite occ_length in Hi by (apply (g_inds _ H)).
    rewrite <- (NoDup_same_length (aget0 i (n_imap (h_N h m)))) in Hi; [apply (IO i); auto|apply (I i)|apply carriers_NoDup; auto|].
    intros t. rewrite (proj1 (proj2 (I i))). symmetry. apply (HC t_inds).
  - intros Hi. unfold scan_occ. rewrite occ_length by (apply (g_inds _ H)).
    rewrite <- (NoDup_same_length (aget0 i (n_imap (h_N h m)))); [apply (IO i); auto|apply (I i)|apply carriers_NoDup; auto|].
    intros t. rewrite (proj1 (proj2 (I i))). symmetry. apply (HC t_inds).
  - intros Hi. unfold scan_occ in Hi. rewrite occ_length in Hi by (apply (g_inds _ H)).
    rewrite <- (NoDup_same_length (aget0 i (n_imap (h_N h m)))) in Hi; [apply (IO i); auto|apply (I i)|apply carriers_NoDup; auto|].
    intros t. rewrite (proj1 (proj2 (I i))). symmetry. apply (HC t_inds).
  - intros Hi. apply aget_In. apply (g_own _ H r m tid Hm); auto.
  - intros Hi. apply (g_own _ H r m tid Hm). apply In_aget; auto.
Qed.

Theorem run_Inv : forall ops, h_ok (run ops) = true -> Inv (run ops).
Proof. intros ops Hok. apply Good_Inv. apply run_GoodF; auto. Qed.

(* ------------------------------------------------------------------ *)
(* selection by tags / labels returns exactly what a scan finds         *)

Definition select_spec (keys xs : list nat) (C : nat -> nat -> Prop) (w : which) (tid : nat) : Prop :=
  match w with
  | WAll => forall g, In g xs -> C tid g
  | WAny => exists g, In g xs /\ C tid g
  | WNAll => In tid keys /\ ~ (forall g, In g xs -> C tid g)
  | WNAny => In tid keys /\ ~ (exists g, In g xs /\ C tid g)
  end.

Lemma amap_gets_spec : forall xmap xs sets, amap_gets xmap xs = Some sets ->
  sets = map (fun g => aget0 g xmap) xs /\ forall g, In g xs -> aget g xmap <> None.
Proof.
  intros xmap xs; induction xs as [|g xs IH]; simpl; intros sets E.
  - injection E as <-. split; auto; intros ? [].
  - destruct (aget g xmap) as [l|] eqn:Eg; [|discriminate].
    destruct (amap_gets xmap xs) as [ls|]; [|discriminate]. injection E as <-.
    destruct (IH ls eq_refl) as [-> Hp]. split.
    + simpl. f_equal. unfold aget0. rewrite Eg. auto.
    + intros g0 [<-|Hin]; [congruence|auto].
Qed.

Lemma combine_all_In : forall xmap xs tid, xs <> [] ->
  (In tid (combine_all (map (fun g => aget0 g xmap) xs)) <-> forall g, In g xs -> In tid (aget0 g xmap)).
Proof.
  intros xmap xs tid Hne. destruct xs as [|g0 xs]; [congruence|]. simpl.
  rewrite filter_In, forallb_forall. split.
  - intros [H0 Hr] g [<-|Hin]; auto. apply mem_In. apply Hr. apply in_map_iff. exists g; auto.
  - intros H. split; [apply H; auto|]. intros s Hs. apply in_map_iff in Hs as [g [<- Hin]]. apply mem_In. apply H; auto.
Qed.

Lemma combine_any_In : forall xmap xs tid,
  (In tid (combine_any (map (fun g => aget0 g xmap) xs)) <-> exists g, In g xs /\ In tid (aget0 g xmap)).
Proof.
  intros; unfold combine_any. rewrite oset_of_In, in_concat. split.
  - intros [s [Hs Hin]]. apply in_map_iff in Hs as [g [<- Hg]]. eauto.
  - intros [g [Hg Hin]]. exists (aget0 g xmap). split; auto. apply in_map_iff; eauto.
Qed.

Theorem get_tids_from_spec : forall x xmap xs w tids C,
  map_ok xmap C -> (forall tid g, C tid g -> In tid (akeys (n_tmap x))) ->
  xs <> [] -> get_tids_from x xmap xs w = Some tids ->
  forall tid, In tid tids <-> select_spec (akeys (n_tmap x)) xs C w tid.
Proof.
  intros x xmap xs w tids C HM Hkeys Hne E tid. unfold get_tids_from in E.
  destruct (amap_gets xmap (oset_of xs)) as [sets|] eqn:Es; [|discriminate].
  apply amap_gets_spec in Es as [-> _].
  assert (oset_of xs <> []) as Hne'.
  { destruct xs as [|g xs]; [congruence|]. intros Hc. assert (In g (oset_of (g :: xs))) as Hi by (apply oset_of_In; left; auto).
    rewrite Hc in Hi; inversion Hi. }
  assert (forall t, In t (combine_all (map (fun g => aget0 g xmap) (oset_of xs))) <-> forall g, In g xs -> C t g) as HA.
  { intros t. rewrite combine_all_In by auto. split; intros H g Hg.
    - apply (HM g). apply H. apply oset_of_In; auto.
    - apply (HM g). apply H. apply oset_of_In; auto. }
  assert (forall t, In t (combine_any (map (fun g => aget0 g xmap) (oset_of xs))) <-> exists g, In g xs /\ C t g) as HB.
  { intros t. rewrite combine_any_In. split; intros [g [Hg Hc]]; exists g.
    - split; [apply oset_of_In; auto|apply (HM g); auto].
    - split; [apply oset_of_In; auto|apply (HM g); auto]. }
  injection E as <-. destruct w; cbn [select_spec].
  - apply HA.
  - apply HB.
  - rewrite odiff_In, HA. tauto.
  - rewrite odiff_In, HB. tauto.
Qed.

(* a missing tag / label is a KeyError *)
Theorem get_tids_from_rejects : forall x xmap xs w C,
  map_ok xmap C -> (get_tids_from x xmap xs w = None <-> exists g, In g xs /\ forall tid, ~ C tid g).
Proof.
  intros x xmap xs w C HM. unfold get_tids_from.
  assert (forall l, amap_gets xmap l = None <-> exists g, In g l /\ aget g xmap = None) as Hg.
  { induction l as [|g l IH]; simpl.
    - split; [discriminate|intros [? [[] _]]].
    - destruct (aget g xmap) as [s|] eqn:Eg.
      + destruct (amap_gets xmap l) as [l0|].
        * split; [discriminate|]. intros [g0 [[<-|Hin] E0]]; [congruence|].
          assert (Some l0 = None) as Hx by (apply IH; eauto). discriminate.
        * split; auto. intros _. destruct (proj1 IH eq_refl) as [g0 [A B]]. eauto.
      + split; auto. intros _. exists g; auto. }
  destruct (amap_gets xmap (oset_of xs)) as [sets|] eqn:Es.
  - split; [discriminate|]. intros [g [Hin Hn]]. exfalso.
    assert (amap_gets xmap (oset_of xs) = None) as Hx.
    { apply Hg. exists g. split; [apply oset_of_In; auto|].
      destruct (aget g xmap) as [s|] eqn:Eg; auto. exfalso.
      destruct (HM g) as (_ & B & NE). unfold aget0 in B. rewrite Eg in B, NE.
      destruct s as [|t s]; [congruence|]. apply (Hn t). apply B. left; auto. }
    congruence.
  - split; auto. intros _. apply Hg in Es as [g [Hin Eg]]. exists g. split; [apply (proj1 (oset_of_In _ _)) in Hin; auto|].
    intros tid Hc. apply (HM g) in Hc. unfold aget0 in Hc. rewrite Eg in Hc. inversion Hc.
Qed.

Definition has_tag (h : heap) (m tid g : nat) : Prop :=
  exists r, In (tid, r) (n_tmap (h_N h m)) /\ In g (t_tags (h_T h r)).
Definition has_ind (h : heap) (m tid i : nat) : Prop :=
  exists r, In (tid, r) (n_tmap (h_N h m)) /\ In i (t_inds (h_T h r)).

Theorem select_tags_exact : forall ops m tags w tids,
  h_ok (run ops) = true -> live (run ops) m = true -> tags <> [] ->
  get_tids_from_tags (h_N (run ops) m) (Some tags) w = Some tids ->
  forall tid, In tid tids <-> select_spec (akeys (n_tmap (h_N (run ops) m))) tags (has_tag (run ops) m) w tid.
Proof.
  intros ops m tags w tids Hok Hm Hne E tid. pose proof (run_GoodF ops Hok) as H.
  pose proof (g_nets _ H m Hm) as [K V R I G IO]. cbn [get_tids_from_tags] in E.
  apply (get_tids_from_spec _ _ _ _ _ (has_tag (run ops) m)) with (tid := tid) in E; auto.
  - eapply map_ok_ext; [|apply G]. intros t g. unfold Ctag, has_tag. split; intros [r [A B]]; exists r; split; auto.
    + apply aget_In; auto.
    + apply In_aget; auto.
  - intros t g [r [A _]]. apply (in_map fst) in A; auto.
Qed.

Theorem select_inds_exact : forall ops m inds w tids,
  h_ok (run ops) = true -> live (run ops) m = true -> inds <> [] ->
  get_tids_from_inds (h_N (run ops) m) inds w = Some tids ->
  forall tid, In tid tids <-> select_spec (akeys (n_tmap (h_N (run ops) m))) inds (has_ind (run ops) m) w tid.
Proof.
  intros ops m inds w tids Hok Hm Hne E tid. pose proof (run_GoodF ops Hok) as H.
  pose proof (g_nets _ H m Hm) as [K V R I G IO]. unfold get_tids_from_inds in E.
  apply (get_tids_from_spec _ _ _ _ _ (has_ind (run ops) m)) with (tid := tid) in E; auto.
  - eapply map_ok_ext; [|apply I]. intros t g. unfold Cind, has_ind. split; intros [r [A B]]; exists r; split; auto.
    + apply aget_In; auto.
    + apply In_aget; auto.
  - intros t g [r [A _]]. apply (in_map fst) in A; auto.
Qed.

(* ------------------------------------------------------------------ *)
(* outside the domain the faithful model violates the invariant         *)

Definition ops_pop_repeated : list op :=
  [NewTensor [1; 1] [0]; NewNet [ITensor 0] false true; Pop 0 0].
Definition ops_reindex_repeated : list op :=
  [NewTensor [1; 2] [0]; NewNet [ITensor 0] true true; TReindex 0 [(1, 2)]].
Definition ops_same_tensor_twice : list op :=
  [NewTensor [1] [0]; NewNet [ITensor 0; ITensor 0] true true; TReindex 0 [(1, 2)]].

Lemma pop_repeated_refuted : ~ Inv (run ops_pop_repeated).
Proof.
  intros HI. destruct (HI 0 eq_refl) as (_ & _ & _ & _ & Hin & _).
  assert (In 1 (n_inner (h_N (run ops_pop_repeated) 0))) as H1 by (vm_compute; auto).
  apply Hin in H1. vm_compute in H1. lia.
Qed.

Lemma reindex_repeated_refuted : ~ Inv (run ops_reindex_repeated).
Proof.
  intros HI. destruct (HI 0 eq_refl) as (_ & _ & _ & _ & _ & Hout & _).
  assert (In 2 (n_outer (h_N (run ops_reindex_repeated) 0))) as H1 by (vm_compute; auto).
  apply Hout in H1. vm_compute in H1. lia.
Qed.

Lemma same_tensor_twice_refuted : ~ Inv (run ops_same_tensor_twice).
Proof.
  intros HI. destruct (HI 0 eq_refl) as (Himap & _).
  assert (In 0 (scan_carriers (run ops_same_tensor_twice) 0 t_inds 2)) as H1 by (vm_compute; auto).
  apply Himap in H1. vm_compute in H1. destruct H1 as [H1|[]]. discriminate.
Qed.

(* C02 - comparison function for the correspondence of quimb.utils.oset with the
   list model of C02/OSet.v (same fingerprint as C02/Corr.v). *)
From Coq Require Import ZArith List Arith Bool.
From QV Require Import C02.Model C02.Corr C02.OSet.
Import ListNotations.

Fixpoint ofirst_bad (s : ostate) (ops : list oop) (exp : list Z) (k : nat) : option nat :=
  match ops, exp with
  | [], [] => None
  | o :: ops', e :: exp' =>
      match ostep s o with
      | Some (s', res) => if Z.eqb (fp (oser s' true res)) e then ofirst_bad s' ops' exp' (S k) else Some k
      | None => if Z.eqb (fp (oser s false 0)) e then ofirst_bad s ops' exp' (S k) else Some k
      end
  | _, _ => Some k
  end.

Definition ocheck (ops : list oop) (exp : list Z) : bool :=
  match ofirst_bad ostate0 ops exp 0 with None => true | Some _ => false end.

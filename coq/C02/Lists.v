(* C02 - lemmas about the ordered sets / insertion ordered maps of Model.v and
   about _link_* / _unlink_* relative to an abstract "carries" relation. *)
From Coq Require Import List Arith Bool PeanoNat Lia.
From QV Require Import C02.Model.
Import ListNotations.

(* ------------------------------------------------------------------ *)
(* osets                                                               *)

Lemma filter_len_le : forall {A} (f : A -> bool) l, length (filter f l) <= length l.
Proof. induction l; simpl; auto. destruct (f a); simpl; lia. Qed.

Lemma mem_In : forall x l, mem x l = true <-> In x l.
Proof.
  unfold mem; intros x l; rewrite existsb_exists; split.
  - intros [y [Hy E]]. apply Nat.eqb_eq in E; subst; auto.
  - intros H; exists x; split; auto. apply Nat.eqb_refl.
Qed.

Lemma mem_false : forall x l, mem x l = false <-> ~ In x l.
Proof. intros x l; rewrite <- mem_In; destruct (mem x l); split; congruence. Qed.

Lemma oadd_In : forall x y l, In y (oadd x l) <-> y = x \/ In y l.
Proof.
  intros x y l; unfold oadd; destruct (mem x l) eqn:E.
  - apply mem_In in E; split; auto; intros [->|]; auto.
  - rewrite in_app_iff; simpl; intuition.
Qed.

Lemma oadd_NoDup : forall x l, NoDup l -> NoDup (oadd x l).
Proof.
  intros x l H; unfold oadd; destruct (mem x l) eqn:E; auto.
  apply mem_false in E.
  induction l; simpl.
  - constructor; [intros []|constructor].
  - inversion H; subst. constructor.
    + rewrite in_app_iff; simpl; intros [?|[?|[]]]; auto. subst; apply E; left; auto.
    + apply IHl; auto. intros ?; apply E; right; auto.
Qed.

Lemma oadd_fresh : forall x l, ~ In x l -> oadd x l = l ++ [x].
Proof. intros x l H; unfold oadd; apply mem_false in H; rewrite H; auto. Qed.

Lemma odiscard_In : forall x y l, In y (odiscard x l) <-> In y l /\ y <> x.
Proof.
  intros x y l; unfold odiscard; rewrite filter_In; rewrite negb_true_iff, Nat.eqb_neq; tauto.
Qed.

Lemma odiscard_NoDup : forall x l, NoDup l -> NoDup (odiscard x l).
Proof. intros; unfold odiscard; apply NoDup_filter; auto. Qed.

Lemma odiscard_length : forall x l, length (odiscard x l) <= length l.
Proof. intros; unfold odiscard; apply filter_len_le. Qed.

Lemma fold_oadd_In : forall l acc x, In x (fold_left (fun a y => oadd y a) l acc) <-> In x acc \/ In x l.
Proof.
  induction l; simpl; intros; [tauto|].
  rewrite IHl, oadd_In; intuition.
Qed.

Lemma fold_oadd_NoDup : forall l acc, NoDup acc -> NoDup (fold_left (fun a y => oadd y a) l acc).
Proof. induction l; simpl; intros; auto. apply IHl, oadd_NoDup; auto. Qed.

Lemma oset_of_In : forall l x, In x (oset_of l) <-> In x l.
Proof. intros; unfold oset_of; rewrite fold_oadd_In; simpl; tauto. Qed.

Lemma oset_of_NoDup : forall l, NoDup (oset_of l).
Proof. intros; apply fold_oadd_NoDup; constructor. Qed.

Lemma odiff_In : forall a b x, In x (odiff a b) <-> In x a /\ ~ In x b.
Proof. intros; unfold odiff; rewrite filter_In, negb_true_iff, mem_false; tauto. Qed.

Lemma odiff_NoDup : forall a b, NoDup a -> NoDup (odiff a b).
Proof. intros; apply NoDup_filter; auto. Qed.

Lemma ointer_In : forall a b x, In x (ointer a b) <-> In x a /\ In x b.
Proof. intros; unfold ointer; rewrite filter_In, mem_In; tauto. Qed.

Lemma nodupb_NoDup : forall l, nodupb l = true <-> NoDup l.
Proof.
  induction l; simpl.
  - split; auto. constructor.
  - rewrite andb_true_iff, negb_true_iff, mem_false, IHl. split.
    + intros [? ?]; constructor; auto.
    + intros H; inversion H; auto.
Qed.

Lemma set_eqb_sound : forall a b, NoDup a -> NoDup b -> set_eqb a b = true -> forall x, In x a <-> In x b.
Proof.
  intros a b Ha Hb H x. unfold set_eqb in H. apply andb_true_iff in H as [HL HI].
  apply Nat.eqb_eq in HL. rewrite forallb_forall in HI.
  assert (incl a b) as Hab by (intros y Hy; apply mem_In, HI; auto).
  split; [apply Hab|].
  apply (NoDup_length_incl Ha); auto. lia.
Qed.

(* ------------------------------------------------------------------ *)
(* association lists                                                   *)

Section AMapLemmas.
  Context {V : Type}.
  Implicit Types m : list (nat * V).

  Lemma aget_aset_same : forall k v m, aget k (aset k v m) = Some v.
  Proof.
    induction m as [|[k' v'] m]; simpl.
    - rewrite Nat.eqb_refl; auto.
    - destruct (k =? k') eqn:E; simpl; rewrite ?Nat.eqb_refl, ?E; auto.
  Qed.

  Lemma aget_aset_other : forall k k' v m, k' <> k -> aget k' (aset k v m) = aget k' m.
  Proof.
    induction m as [|[k0 v0] m]; simpl; intros.
    - apply Nat.eqb_neq in H; rewrite H; auto.
    - destruct (k =? k0) eqn:E; simpl.
      + apply Nat.eqb_eq in E; subst. apply Nat.eqb_neq in H; rewrite H; auto.
      + destruct (k' =? k0); auto.
  Qed.

  Lemma aget_adel_same : forall k m, aget k (adel k m) = None.
  Proof.
    induction m as [|[k0 v0] m]; simpl; auto.
    destruct (k0 =? k) eqn:E; simpl; auto.
    rewrite Nat.eqb_sym, E; auto.
  Qed.

  Lemma aget_adel_other : forall k k' m, k' <> k -> aget k' (adel k m) = aget k' m.
  Proof.
    induction m as [|[k0 v0] m]; simpl; intros; auto.
    destruct (k0 =? k) eqn:E; simpl.
    - apply Nat.eqb_eq in E; subst. pose proof H as H'. apply Nat.eqb_neq in H'; rewrite H'; auto.
    - destruct (k' =? k0); auto.
  Qed.

  Lemma aget_In : forall k v m, aget k m = Some v -> In (k, v) m.
  Proof.
    induction m as [|[k0 v0] m]; simpl; intros; [discriminate|].
    destruct (k =? k0) eqn:E.
    - apply Nat.eqb_eq in E; inversion H; subst; auto.
    - right; auto.
  Qed.

  Lemma aget_None : forall k m, aget k m = None <-> ~ In k (akeys m).
  Proof.
    induction m as [|[k0 v0] m]; simpl; [tauto|].
    destruct (k =? k0) eqn:E.
    - apply Nat.eqb_eq in E; subst; split; [discriminate|]. intros H; exfalso; apply H; auto.
    - apply Nat.eqb_neq in E. rewrite IHm. split; [intros ? [?|?]; auto | intros H ?; apply H; auto].
  Qed.

  Lemma In_aget : forall k v m, NoDup (akeys m) -> In (k, v) m -> aget k m = Some v.
  Proof.
    induction m as [|[k0 v0] m]; simpl; intros ND H; [tauto|].
    inversion ND; subst.
    destruct H as [H|H].
    - inversion H; subst. rewrite Nat.eqb_refl; auto.
    - destruct (k =? k0) eqn:E; auto.
      apply Nat.eqb_eq in E; subst. exfalso; apply H2. apply (in_map fst) in H; auto.
  Qed.

  Lemma amem_true : forall k m, amem k m = true <-> In k (akeys m).
  Proof.
    intros; unfold amem. destruct (aget k m) eqn:E.
    - split; auto; intros _. apply aget_In in E. apply (in_map fst) in E; auto.
    - apply aget_None in E. split; [discriminate|tauto].
  Qed.

  Lemma akeys_aset : forall k v m x, In x (akeys (aset k v m)) <-> x = k \/ In x (akeys m).
  Proof.
    induction m as [|[k0 v0] m]; simpl; intros.
    - intuition.
    - destruct (k =? k0) eqn:E; simpl.
      + apply Nat.eqb_eq in E; subst; intuition.
      + rewrite IHm; intuition.
  Qed.

  Lemma akeys_aset_NoDup : forall k v m, NoDup (akeys m) -> NoDup (akeys (aset k v m)).
  Proof.
    induction m as [|[k0 v0] m]; simpl; intros.
    - constructor; [intros []|constructor].
    - inversion H; subst. destruct (k =? k0) eqn:E; simpl.
      + apply Nat.eqb_eq in E; subst; constructor; auto.
      + constructor; auto. rewrite akeys_aset. intros [?|?]; auto. subst. rewrite Nat.eqb_refl in E; discriminate.
  Qed.

  Lemma aset_fresh : forall k v m, aget k m = None -> aset k v m = m ++ [(k, v)].
  Proof.
    induction m as [|[k0 v0] m]; simpl; intros; auto.
    destruct (k =? k0); [discriminate|]. rewrite IHm; auto.
  Qed.

  Lemma akeys_adel_NoDup : forall k m, NoDup (akeys m) -> NoDup (akeys (adel k m)).
  Proof.
    induction m as [|[k0 v0] m]; simpl; intros; auto.
    inversion H; subst. destruct (k0 =? k); simpl; auto.
    constructor; auto. intros Hin; apply H2.
    unfold akeys, adel in Hin. apply in_map_iff in Hin as [[a b] [E Hin]]. apply filter_In in Hin as [Hin _].
    simpl in E; subst. apply (in_map fst) in Hin; auto.
  Qed.

  Lemma In_adel : forall k p m, In p (adel k m) <-> In p m /\ fst p <> k.
  Proof. intros; unfold adel; rewrite filter_In, negb_true_iff, Nat.eqb_neq; tauto. Qed.
End AMapLemmas.

Lemma aget0_aset_same : forall k l m, aget0 k (aset k l m) = l.
Proof. intros; unfold aget0; rewrite aget_aset_same; auto. Qed.
Lemma aget0_aset_other : forall k k' l m, k' <> k -> aget0 k' (aset k l m) = aget0 k' m.
Proof. intros; unfold aget0; rewrite aget_aset_other; auto. Qed.
Lemma aget0_adel_same : forall k (m : imap_t), aget0 k (adel k m) = [].
Proof. intros; unfold aget0; rewrite aget_adel_same; auto. Qed.
Lemma aget0_adel_other : forall k k' (m : imap_t), k' <> k -> aget0 k' (adel k m) = aget0 k' m.
Proof. intros; unfold aget0; rewrite aget_adel_other; auto. Qed.

(* ------------------------------------------------------------------ *)
(* a map label -> tids is exact for a "carries" relation C tid label    *)

Definition map_ok (m : imap_t) (C : nat -> nat -> Prop) : Prop :=
  forall i, NoDup (aget0 i m) /\ (forall t, In t (aget0 i m) <-> C t i) /\ aget i m <> Some [].

Definition io_ok (m : imap_t) (inn out : list nat) : Prop :=
  forall i, (In i inn <-> 2 <= length (aget0 i m)) /\ (In i out <-> length (aget0 i m) = 1).

Lemma map_ok_ext : forall m C C', (forall t i, C t i <-> C' t i) -> map_ok m C -> map_ok m C'.
Proof.
  intros m C C' E H i. destruct (H i) as (A & B & D). repeat split; auto.
  - intros; apply E, B; auto.
  - intros; apply B, E; auto.
Qed.

Lemma map_ok_empty : map_ok [] (fun _ _ => False).
Proof. intros i; simpl; repeat split; try tauto; try constructor; discriminate. Qed.

Lemma io_ok_empty : io_ok [] [] [].
Proof. intros i; simpl; repeat split; try tauto; try lia. Qed.

(* ---- tags ---- *)

Lemma link_tag1_ok : forall tid m g C, map_ok m C ->
  map_ok (link_tag1 tid m g) (fun t i => C t i \/ (t = tid /\ i = g)).
Proof.
  intros tid m g C H i. destruct (H i) as (ND & B & NE).
  unfold link_tag1. destruct (aget g m) as [l|] eqn:E.
  - destruct (Nat.eq_dec i g) as [->|Hn].
    + rewrite aget0_aset_same, aget_aset_same.
      assert (aget0 g m = l) as El by (unfold aget0; rewrite E; auto). rewrite El in *.
      split; [|split].
      * apply oadd_NoDup; auto.
      * intros t. rewrite oadd_In, B. split.
        -- intros [->|?]; auto.
        -- intros [?|[? _]]; auto.
      * intros Hc; inversion Hc as [Hc']. assert (In tid (oadd tid l)) as Hi by (apply oadd_In; auto).
        rewrite Hc' in Hi; inversion Hi.
    + rewrite aget0_aset_other, aget_aset_other by auto. split; [|split]; auto.
      intros t. rewrite B. split; auto; intros [?|[_ ?]]; tauto.
  - destruct (Nat.eq_dec i g) as [->|Hn].
    + rewrite aget0_aset_same, aget_aset_same.
      assert (aget0 g m = []) as El by (unfold aget0; rewrite E; auto). rewrite El in *.
      split; [|split].
      * constructor; [intros []|constructor].
      * intros t. simpl. split.
        -- intros [->|[]]; auto.
        -- intros [Hc|[? _]]; auto. apply B in Hc; inversion Hc.
      * discriminate.
    + rewrite aget0_aset_other, aget_aset_other by auto. split; [|split]; auto.
      intros t. rewrite B. split; auto; intros [?|[_ ?]]; tauto.
Qed.

Lemma link_tags_ok : forall tags tid m C, map_ok m C ->
  map_ok (link_tags tags tid m) (fun t i => C t i \/ (t = tid /\ In i tags)).
Proof.
  induction tags; simpl; intros.
  - eapply map_ok_ext; [|apply H]. intros; tauto.
  - unfold link_tags; simpl. eapply map_ok_ext; [|apply IHtags, link_tag1_ok, H].
    intros; simpl. intuition.
Qed.

Lemma unlink_tag1_ok : forall tid m g C, map_ok m C ->
  map_ok (unlink_tag1 tid m g) (fun t i => C t i /\ ~ (t = tid /\ i = g)).
Proof.
  intros tid m g C H i. destruct (H i) as (ND & B & NE).
  unfold unlink_tag1. destruct (aget g m) as [l|] eqn:E.
  - assert (aget0 g m = l) as El by (unfold aget0; rewrite E; auto).
    destruct (odiscard tid l) as [|a l'] eqn:Ed.
    + destruct (Nat.eq_dec i g) as [->|Hn].
      * rewrite aget0_adel_same, aget_adel_same. rewrite El in *. split; [|split].
        -- constructor.
        -- intros t; split; [intros []|].
           intros [Hc Hn]. apply B in Hc. assert (In t (odiscard tid l)) as Hi.
           { apply odiscard_In; split; auto; intros ->; apply Hn; auto. }
           rewrite Ed in Hi; inversion Hi.
        -- discriminate.
      * rewrite aget0_adel_other, aget_adel_other by auto. split; [|split]; auto.
        intros t. rewrite B. split; [|tauto]. intros ?; split; auto; intros [_ ?]; auto.
    + destruct (Nat.eq_dec i g) as [->|Hn].
      * rewrite aget0_aset_same, aget_aset_same. rewrite El in *. rewrite <- Ed. split; [|split].
        -- apply odiscard_NoDup; auto.
        -- intros t. rewrite odiscard_In, B. split.
           ++ intros [? ?]; split; auto; intros [? _]; auto.
           ++ intros [? Hn]; split; auto; intros ->; apply Hn; auto.
        -- rewrite Ed; discriminate.
      * rewrite aget0_aset_other, aget_aset_other by auto. split; [|split]; auto.
        intros t. rewrite B. split; [|tauto]. intros ?; split; auto; intros [_ ?]; auto.
  - split; [|split]; auto.
    intros t. rewrite B. split; [|tauto]. intros Hc; split; auto; intros [-> ->].
    assert (aget0 g m = []) as El by (unfold aget0; rewrite E; auto).
    apply B in Hc. rewrite El in Hc; inversion Hc.
Qed.

Lemma unlink_tags_ok : forall tags tid m C, map_ok m C ->
  map_ok (unlink_tags tags tid m) (fun t i => C t i /\ ~ (t = tid /\ In i tags)).
Proof.
  induction tags; simpl; intros.
  - eapply map_ok_ext; [|apply H]. intros; tauto.
  - unfold unlink_tags; simpl. eapply map_ok_ext; [|apply IHtags, unlink_tag1_ok, H].
    intros; simpl. intuition.
Qed.

(* ---- inds, with the inner / outer classification ---- *)

Definition ist_ok (s : ist) (C : nat -> nat -> Prop) : Prop :=
  let '(m, inn, out) := s in map_ok m C /\ io_ok m inn out.

Lemma link_ind1_ok : forall tid s i C, ist_ok s C -> ~ C tid i ->
  ist_ok (link_ind1 tid s i) (fun t j => C t j \/ (t = tid /\ j = i)).
Proof.
  intros tid [[m inn] out] i C [HM HIO] HF. unfold link_ind1.
  destruct (aget i m) as [l|] eqn:E.
  - assert (aget0 i m = l) as El by (unfold aget0; rewrite E; auto).
    split.
    + pose proof (link_tag1_ok tid m i C HM) as L. unfold link_tag1 in L. rewrite E in L. exact L.
    + destruct (HM i) as (ND & B & NE). rewrite El in *.
      assert (~ In tid l) as Hnt by (rewrite B; auto).
      assert (l <> []) as Hl by (intros ->; apply NE; rewrite E; auto).
      intros j. destruct (HIO j) as [I1 I2]. destruct (Nat.eq_dec j i) as [->|Hn].
      * rewrite aget0_aset_same, (oadd_fresh tid l) by auto. rewrite app_length; simpl.
        rewrite oadd_In, odiscard_In. destruct l; [congruence|]. simpl. split; split; intros; try lia; auto.
        all: try (destruct H as [_ H]; congruence).
      * rewrite aget0_aset_other by auto. rewrite oadd_In, odiscard_In. split; [rewrite <- I1|rewrite <- I2]; intuition.
  - assert (aget0 i m = []) as El by (unfold aget0; rewrite E; auto).
    split.
    + pose proof (link_tag1_ok tid m i C HM) as L. unfold link_tag1 in L. rewrite E in L. exact L.
    + intros j. destruct (HIO j) as [I1 I2]. destruct (Nat.eq_dec j i) as [->|Hn].
      * rewrite aget0_aset_same. rewrite El in *. simpl in *. rewrite oadd_In. split; split; intros; try lia; auto.
        all: try (apply I1 in H; lia).
      * rewrite aget0_aset_other by auto. rewrite oadd_In. split; [auto|rewrite <- I2]; intuition.
Qed.

Lemma ist_ok_ext : forall s C C', (forall t i, C t i <-> C' t i) -> ist_ok s C -> ist_ok s C'.
Proof. intros [[m inn] out] C C' E [A B]; split; auto. eapply map_ok_ext; eauto. Qed.

Lemma link_inds_ok : forall inds tid s C, ist_ok s C -> NoDup inds -> (forall i, In i inds -> ~ C tid i) ->
  ist_ok (link_inds inds tid s) (fun t j => C t j \/ (t = tid /\ In j inds)).
Proof.
  induction inds; simpl; intros tid s C H ND HF.
  - eapply ist_ok_ext; [|apply H]. intros; tauto.
  - inversion ND; subst. unfold link_inds; simpl.
    eapply ist_ok_ext; [|apply IHinds; [apply link_ind1_ok; [apply H|apply HF; auto]| auto |]].
    + intros; simpl. intuition.
    + intros i Hi [Hc|[_ ->]]; [eapply HF; eauto|auto].
Qed.

Lemma unlink_ind1_ok : forall tid s i C, ist_ok s C ->
  ist_ok (unlink_ind1 tid s i) (fun t j => C t j /\ ~ (t = tid /\ j = i)).
Proof.
  intros tid [[m inn] out] i C [HM HIO]. unfold unlink_ind1.
  destruct (aget i m) as [l|] eqn:E.
  - assert (aget0 i m = l) as El by (unfold aget0; rewrite E; auto).
    pose proof (unlink_tag1_ok tid m i C HM) as L. unfold unlink_tag1 in L. rewrite E in L.
    destruct (HM i) as (ND & B & NE). rewrite El in *.
    pose proof (odiscard_length tid l) as Hlen.
    destruct (odiscard tid l) as [|a [|b l']] eqn:Ed; simpl length; cbv iota beta.
    + split; [exact L|].
      (* every element of l is tid, l is duplicate free: length l <= 1 *)
      assert (length l <= 1) as Hl1.
      { destruct l as [|x [|y l2]]; simpl; try lia. exfalso.
        inversion ND; subst.
        assert (x = tid) by (destruct (Nat.eq_dec x tid); auto; assert (In x (odiscard tid (x :: y :: l2))) as Hc by (apply odiscard_In; split; simpl; auto); rewrite Ed in Hc; inversion Hc).
        assert (y = tid) by (destruct (Nat.eq_dec y tid); auto; assert (In y (odiscard tid (x :: y :: l2))) as Hc by (apply odiscard_In; split; simpl; auto); rewrite Ed in Hc; inversion Hc).
        subst. apply H1; simpl; auto. }
      intros j. destruct (HIO j) as [I1 I2]. destruct (Nat.eq_dec j i) as [->|Hn].
      * rewrite aget0_adel_same. rewrite El in *. simpl. rewrite odiscard_In. split; split; intros; try lia.
        all: try (apply I1 in H; lia); try (destruct H; congruence).
      * rewrite aget0_adel_other by auto. rewrite odiscard_In. split; [auto|rewrite <- I2]; intuition.
    + split; [exact L|].
      intros j. destruct (HIO j) as [I1 I2]. destruct (Nat.eq_dec j i) as [->|Hn].
      * rewrite aget0_aset_same. simpl. rewrite odiscard_In, oadd_In. split; split; intros; try lia; auto.
        all: try (destruct H; congruence).
      * rewrite aget0_aset_other by auto. rewrite odiscard_In, oadd_In. split; [rewrite <- I1|rewrite <- I2]; intuition.
    + split; [exact L|].
      intros j. destruct (HIO j) as [I1 I2]. destruct (Nat.eq_dec j i) as [->|Hn].
      * rewrite aget0_aset_same. rewrite El in *. simpl in *. split; split; intros; try lia.
        all: try (apply I1; lia); try (apply I2 in H; lia).
      * rewrite aget0_aset_other by auto. auto.
  - split; auto.
    eapply map_ok_ext; [|apply HM]. intros; split; [|tauto]. intros Hc; split; auto; intros [-> ->].
    destruct (HM i) as (_ & B & _). apply B in Hc. unfold aget0 in Hc; rewrite E in Hc; inversion Hc.
Qed.

Lemma unlink_inds_ok : forall inds tid s C, ist_ok s C ->
  ist_ok (unlink_inds inds tid s) (fun t j => C t j /\ ~ (t = tid /\ In j inds)).
Proof.
  induction inds; simpl; intros tid s C H.
  - eapply ist_ok_ext; [|apply H]. intros; tauto.
  - unfold unlink_inds; simpl.
    eapply ist_ok_ext; [|apply IHinds, unlink_ind1_ok, H].
    intros; simpl. intuition.
Qed.

(* _modify_tensor_inds / _modify_tensor_tags when tid carries exactly `old` *)
Lemma modify_inds_ist_ok : forall s C tid old new,
  ist_ok s C -> NoDup new -> (forall i, C tid i <-> In i old) ->
  ist_ok (link_inds (odiff new old) tid (unlink_inds (odiff old new) tid s))
         (fun t j => (t <> tid /\ C t j) \/ (t = tid /\ In j new)).
Proof.
  intros s C tid old new H ND HC.
  eapply ist_ok_ext; [|apply link_inds_ok; [apply unlink_inds_ok, H|apply odiff_NoDup, ND|]].
  - intros t j; simpl. rewrite !odiff_In. destruct (Nat.eq_dec t tid) as [->|Hn].
    + rewrite HC. destruct (in_dec Nat.eq_dec j new); destruct (in_dec Nat.eq_dec j old); intuition.
    + intuition.
  - intros i Hi [Hc _]. apply odiff_In in Hi as [_ Hi]. apply Hi, HC, Hc.
Qed.

Lemma modify_tags_map_ok : forall m C tid old new,
  map_ok m C -> (forall g, C tid g <-> In g old) ->
  map_ok (link_tags (odiff new old) tid (unlink_tags (odiff old new) tid m))
         (fun t g => (t <> tid /\ C t g) \/ (t = tid /\ In g new)).
Proof.
  intros m C tid old new H HC.
  eapply map_ok_ext; [|apply link_tags_ok, unlink_tags_ok, H].
  intros t g; simpl. rewrite !odiff_In. destruct (Nat.eq_dec t tid) as [->|Hn].
  - rewrite HC. destruct (in_dec Nat.eq_dec g new); destruct (in_dec Nat.eq_dec g old); intuition.
  - intuition.
Qed.

(* ------------------------------------------------------------------ *)
(* _next_tid returns an unused tid                                     *)

Lemma leb_S_ne : forall c a, a <> c -> (S c <=? a) = (c <=? a).
Proof.
  intros c a H. destruct (Nat.leb_spec (S c) a); destruct (Nat.leb_spec c a); auto; lia.
Qed.

Lemma filter_ge_notin : forall c l, ~ In c l -> filter (fun k => S c <=? k) l = filter (fun k => c <=? k) l.
Proof.
  induction l as [|a l IH]; cbn [filter]; intros H; auto.
  rewrite leb_S_ne by (intros ->; apply H; left; auto). rewrite IH; auto. intros ?; apply H; right; auto.
Qed.

Lemma filter_ge_in : forall c l, NoDup l -> In c l ->
  S (length (filter (fun k => S c <=? k) l)) = length (filter (fun k => c <=? k) l).
Proof.
  induction l as [|a l IH]; intros ND Hin; [inversion Hin|]. inversion ND; subst. cbn [filter].
  destruct (Nat.eq_dec a c) as [->|Hn].
  - rewrite Nat.leb_refl. replace (S c <=? c) with false by (symmetry; apply Nat.leb_gt; lia).
    cbn [length]. rewrite filter_ge_notin; auto.
  - destruct Hin as [->|Hin]; [congruence|]. rewrite leb_S_ne by auto.
    destruct (c <=? a); cbn [length]; rewrite <- IH; auto.
Qed.

Lemma next_tid_loop_fresh : forall fuel c (tmap : list (nat * nat)),
  NoDup (akeys tmap) ->
  length (filter (fun k => c <=? k) (akeys tmap)) < fuel ->
  aget (next_tid_loop fuel c tmap) tmap = None.
Proof.
  induction fuel; intros c tmap ND Hlt; [lia|].
  simpl. destruct (amem c tmap) eqn:E.
  - apply IHfuel; auto. apply amem_true in E.
    pose proof (filter_ge_in c _ ND E). lia.
  - unfold amem in E. destruct (aget c tmap); auto; discriminate.
Qed.

Lemma next_tid_fresh : forall c (tmap : list (nat * nat)), NoDup (akeys tmap) -> aget (next_tid c tmap) tmap = None.
Proof.
  intros. unfold next_tid. apply next_tid_loop_fresh; auto.
  pose proof (filter_len_le (fun k => c <=? k) (akeys tmap)). unfold akeys in *. rewrite map_length in *. lia.
Qed.

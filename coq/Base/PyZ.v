(* Runtime for the py2coq translator: the integer subset of Python. *)
From Coq Require Import ZArith List Bool Lia ZifyBool.
Import ListNotations.
Open Scope Z_scope.

Definition b2z (b : bool) : Z := if b then 1 else 0.

(* exact ceiling of the rational a / b (any sign of b <> 0) *)
Definition ceil_div (a b : Z) : Z := - ((- a) / b).

(* Python round() of the exact rational a / b : nearest, ties to even *)
Definition round_half_even (a b : Z) : Z :=
  let a' := if b <? 0 then - a else a in
  let b' := Z.abs b in
  let q := a' / b' in
  let r := a' mod b' in
  if 2 * r <? b' then q
  else if 2 * r >? b' then q + 1
  else if Z.even q then q else q + 1.

Definition lenZ (l : list Z) : Z := Z.of_nat (length l).
Definition inb (l : list Z) (i : Z) : bool := (0 <=? i) && (i <? lenZ l).
Definition nthZ (l : list Z) (i : Z) : Z := nth (Z.to_nat i) l 0.
Fixpoint upd_nat (l : list Z) (n : nat) (v : Z) : list Z :=
  match l, n with
  | [], _ => []
  | _ :: t, O => v :: t
  | h :: t, S n' => h :: upd_nat t n' v
  end.
Definition updZ (l : list Z) (i v : Z) : list Z := upd_nat l (Z.to_nat i) v.

(* for i in range(lo, hi, step): st = body i st   (None = Python raised) *)
Fixpoint for_iter {S : Type} (n : nat) (i step : Z) (body : Z -> S -> option S) (st : S) : option S :=
  match n with
  | O => Some st
  | Datatypes.S n' =>
      match body i st with
      | None => None
      | Some st' => for_iter n' (i + step) step body st'
      end
  end.

Definition range_len (lo hi step : Z) : Z :=
  if step >? 0 then (if lo <? hi then ceil_div (hi - lo) step else 0)
  else if step <? 0 then (if hi <? lo then ceil_div (lo - hi) (- step) else 0)
  else 0.

Definition for_range {S : Type} (lo hi step : Z) (body : Z -> S -> option S) (st : S) : option S :=
  for_iter (Z.to_nat (range_len lo hi step)) lo step body st.

Fixpoint while_fuel {S : Type} (fuel : nat) (cond : S -> bool) (body : S -> option S) (st : S) : option S :=
  match fuel with
  | O => None
  | Datatypes.S f => if cond st then
      match body st with None => None | Some st' => while_fuel f cond body st' end
    else Some st
  end.

(* ---- characterising lemmas ------------------------------------------- *)

Lemma ceil_div_spec a b : 0 < b -> b * (ceil_div a b - 1) < a <= b * ceil_div a b.
Proof.
  intros Hb. unfold ceil_div.
  pose proof (Z.div_mod (- a) b ltac:(lia)).
  pose proof (Z.mod_pos_bound (- a) b Hb). nia.
Qed.

Lemma ceil_div_unique a b c : 0 < b -> b * (c - 1) < a <= b * c -> ceil_div a b = c.
Proof.
  intros Hb Hc. pose proof (ceil_div_spec a b Hb). nia.
Qed.

Lemma round_half_even_spec a b : 0 < b ->
  let r := round_half_even a b in
  2 * b * r - b <= 2 * a <= 2 * b * r + b.
Proof.
  intros Hb. unfold round_half_even.
  replace (b <? 0) with false by lia. rewrite (Z.abs_eq b) by lia.
  pose proof (Z.div_mod a b ltac:(lia)).
  pose proof (Z.mod_pos_bound a b Hb).
  cbv zeta.
  destruct (2 * (a mod b) <? b) eqn:E1; [nia|].
  destruct (2 * (a mod b) >? b) eqn:E2; [nia|].
  destruct (Z.even (a / b)); nia.
Qed.

Lemma round_half_even_ge1 a b : 0 < b -> b < 2 * a -> 1 <= round_half_even a b.
Proof.
  intros Hb Ha. pose proof (round_half_even_spec a b Hb). cbv zeta in H.
  destruct (Z_lt_le_dec (round_half_even a b) 1) as [Hlt|]; [|lia].
  exfalso.
  (* r <= 0 gives 2a <= b, contradiction *)
  nia.
Qed.

Lemma round_half_even_nonneg a b : 0 < b -> 0 <= a -> 0 <= round_half_even a b.
Proof.
  intros Hb Ha. unfold round_half_even.
  replace (b <? 0) with false by lia. rewrite (Z.abs_eq b) by lia.
  pose proof (Z.div_pos a b Ha Hb).
  cbv zeta.
  destruct (2 * (a mod b) <? b); [lia|].
  destruct (2 * (a mod b) >? b); [lia|].
  destruct (Z.even (a / b)); lia.
Qed.

Lemma ceil_div_pos a b : 0 < b -> 0 < a -> 1 <= ceil_div a b.
Proof. intros Hb Ha. pose proof (ceil_div_spec a b Hb). nia. Qed.

Lemma ceil_div_nonneg a b : 0 < b -> 0 <= a -> 0 <= ceil_div a b.
Proof. intros Hb Ha. pose proof (ceil_div_spec a b Hb). nia. Qed.

(* Executable instances of the network semantics: Gaussian integers Z[i]
   (pairs of Z), row-major arrays, and the evaluator used by the correspondence
   checks (`vm_compute`).  The theorems of Base/TN.v are instantiated for exactly
   these definitions (G_ring below), so what is proved and what is executed are
   the same functions. *)
From Coq Require Import ZArith Arith List Bool Lia Ring PeanoNat.
From QV Require Import Base.Sums Base.TN.
Import ListNotations.

Definition G := (Z * Z)%type.
Definition g0 : G := (0, 0)%Z.
Definition g1 : G := (1, 0)%Z.
Definition gadd (a b : G) : G := (fst a + fst b, snd a + snd b)%Z.
Definition gmul (a b : G) : G := (fst a * fst b - snd a * snd b, fst a * snd b + snd a * fst b)%Z.
Definition gopp (a : G) : G := (- fst a, - snd a)%Z.
Definition gsub (a b : G) : G := gadd a (gopp b).
Definition gconj (a : G) : G := (fst a, - snd a)%Z.
Definition geqb (a b : G) : bool := (fst a =? fst b)%Z && (snd a =? snd b)%Z.
Definition gscale (z : Z) (a : G) : G := (z * fst a, z * snd a)%Z.

Lemma G_ring : ring_theory g0 g1 gadd gmul gsub gopp eq.
Proof.
  constructor; intros; repeat match goal with x : G |- _ => destruct x end;
    unfold g0, g1, gadd, gmul, gsub, gopp; cbn [fst snd]; try reflexivity; f_equal; ring.
Qed.

Lemma geqb_eq a b : geqb a b = true <-> a = b.
Proof.
  destruct a, b. unfold geqb. cbn [fst snd]. rewrite andb_true_iff, !Z.eqb_eq.
  split; [intros [-> ->]; reflexivity | intros E; injection E; auto].
Qed.

(* row-major flattening *)
Fixpoint ravel (shape idx : list nat) : nat :=
  match shape, idx with
  | d :: shape', i :: idx' => i * fold_right Nat.mul 1 shape' + ravel shape' idx'
  | _, _ => 0
  end.

Fixpoint unravel (shape : list nat) (k : nat) : list nat :=
  match shape with
  | [] => []
  | d :: shape' => let p := fold_right Nat.mul 1 shape' in (k / p) mod d :: unravel shape' k
  end.

Definition arr_tensor (inds shape : list nat) (data : list G) : tensor G :=
  {| tinds := inds; tval := fun s => nth (ravel shape (map s inds)) data g0 |}.

Lemma arr_tensor_wf inds shape data : wf G (arr_tensor inds shape data).
Proof.
  intros s s' H. cbn [arr_tensor tval tinds] in *. f_equal. f_equal.
  apply map_ext_in. exact H.
Qed.

(* label dimensions from an association list *)
Fixpoint lookup (l : list (nat * nat)) (i : nat) : nat :=
  match l with [] => 1 | (j, d) :: l' => if Nat.eqb j i then d else lookup l' i end.

Fixpoint asg_of (outs vals : list nat) : nat -> nat :=
  match outs, vals with
  | o :: outs', v :: vals' => fun j => if Nat.eqb j o then v else asg_of outs' vals' j
  | _, _ => fun _ => 0
  end.

Definition gvalue (dims : list (nat * nat)) := value G g0 g1 gadd gmul (lookup dims).

Definition all_inds (ts : list (tensor G)) : list nat := nodup Nat.eq_dec (flat_map (tinds G) ts).
Definition summed_of (ts : list (tensor G)) (outs : list nat) : list nat :=
  filter (fun i => negb (existsb (Nat.eqb i) outs)) (all_inds ts).

(* dense array of the network over the output labels `outs` (row-major in that order) *)
Definition dense (dims : list (nat * nat)) (ts : list (tensor G)) (outs : list nat) : list G :=
  let shape := map (lookup dims) outs in
  let summed := summed_of ts outs in
  map (fun k => gvalue dims ts summed (asg_of outs (unravel shape k)))
      (seq 0 (fold_right Nat.mul 1 shape)).

Fixpoint glist_eqb (a b : list G) : bool :=
  match a, b with
  | [], [] => true
  | x :: a', y :: b' => geqb x y && glist_eqb a' b'
  | _, _ => false
  end.

(* network value times 10^e (e >= 0) equals the implementation's dense result *)
Definition check_dense (dims : list (nat * nat)) (ts : list (tensor G)) (outs : list nat)
    (e : Z) (impl : list G) : bool :=
  glist_eqb (map (gscale (10 ^ e)%Z) (dense dims ts outs)) impl.

(* instantiated theorems: any contraction path of any well-formed network over Z[i] *)
Theorem gpath_sound dims x y : steps G g0 gadd gmul (lookup dims) x y -> Forall (wf G) (fst x) ->
  forall s, gvalue dims (fst x) (snd x) s = gvalue dims (fst y) (snd y) s.
Proof. apply (path_sound G g0 g1 gadd gmul gsub gopp G_ring). Qed.

Theorem gvalue_perm dims ts ts' summed s : Permutation.Permutation ts ts' ->
  gvalue dims ts summed s = gvalue dims ts' summed s.
Proof. apply (value_perm G g0 g1 gadd gmul gsub gopp G_ring). Qed.

Example dense_example :
  dense [(0, 2); (1, 2); (2, 2)]
    [arr_tensor [0; 1] [2; 2] [(1,0); (2,0); (3,0); (4,0)]%Z;
     arr_tensor [1; 2] [2; 2] [(0,1); (1,0); (1,0); (0,0)]%Z] [0; 2]
  = [(2,1); (1,0); (4,3); (3,0)]%Z.
Proof. vm_compute. reflexivity. Qed.

(* Denotational semantics of labelled tensor networks over an arbitrary
   commutative ring K (Section variables + ring_theory: no axioms).

   A tensor is a finite list of labels and a value function of total label
   assignments that depends only on its own labels.  The value of a network is
   the sum, over all assignments of the summed labels, of the product of its
   tensors (hyper-indices - a label on three or more tensors - included).
   Main theorems: contracting any pair of tensors over labels that occur
   nowhere else preserves the value (hence every contraction path gives the
   same value); tensor order and summation order are irrelevant. *)
From Coq Require Import Arith List Lia Ring PeanoNat Permutation.
From QV Require Import Base.Sums.
Import ListNotations.

Section TN.
  Variable K : Type.
  Variables (k0 k1 : K) (kadd kmul ksub : K -> K -> K) (kopp : K -> K).
  Hypothesis Kring : ring_theory k0 k1 kadd kmul ksub kopp eq.
  Add Ring Krtn : Kring.
  Infix "+" := kadd. Infix "*" := kmul.
  Notation sum := (sum K k0 kadd).

  Definition ind := nat.
  Definition asg := ind -> nat.
  Variable dim : ind -> nat.

  Definition upd (s : asg) (i : ind) (v : nat) : asg := fun j => if Nat.eqb j i then v else s j.
  Definition aeq (s s' : asg) : Prop := forall i, s i = s' i.
  Definition ext (f : asg -> K) : Prop := forall s s', aeq s s' -> f s = f s'.
  Definition indep (f : asg -> K) (i : ind) : Prop := forall s v, f (upd s i v) = f s.

  Lemma aeq_refl s : aeq s s. Proof. intros i; reflexivity. Qed.
  Lemma aeq_upd s s' i v : aeq s s' -> aeq (upd s i v) (upd s' i v).
  Proof. intros H j. unfold upd. destruct (Nat.eqb j i); [reflexivity | apply H]. Qed.
  Lemma upd_comm s i j v w : i <> j -> aeq (upd (upd s i v) j w) (upd (upd s j w) i v).
  Proof.
    intros Hne k. unfold upd. destruct (Nat.eqb k j) eqn:Ej; destruct (Nat.eqb k i) eqn:Ei; try reflexivity.
    apply Nat.eqb_eq in Ej, Ei. subst. contradiction.
  Qed.

  Fixpoint sum_over (L : list ind) (f : asg -> K) (s : asg) : K :=
    match L with
    | [] => f s
    | i :: L' => sum (dim i) (fun v => sum_over L' f (upd s i v))
    end.

  Lemma sum_over_ext_fun L f g : (forall s, f s = g s) -> forall s, sum_over L f s = sum_over L g s.
  Proof.
    induction L as [|i L IH]; intros H s; cbn; [apply H|].
    apply sum_ext. intros v _. apply IH. exact H.
  Qed.

  Lemma sum_over_aeq L f : ext f -> forall s s', aeq s s' -> sum_over L f s = sum_over L f s'.
  Proof.
    intros Hf. induction L as [|i L IH]; intros s s' H; cbn; [apply Hf; exact H|].
    apply sum_ext. intros v _. apply IH. apply aeq_upd. exact H.
  Qed.

  Lemma ext_sum_over L f : ext f -> ext (sum_over L f).
  Proof. intros Hf s s' H. apply sum_over_aeq; assumption. Qed.

  Lemma sum_over_app A B f s : sum_over (A ++ B) f s = sum_over A (sum_over B f) s.
  Proof.
    revert s. induction A as [|i A IH]; intros s; cbn; [reflexivity|].
    apply sum_ext. intros v _. apply IH.
  Qed.

  (* move a single summation through a block of summations over other labels *)
  Lemma sum_push i B g : ext g -> ~ In i B -> forall s,
    sum (dim i) (fun v => sum_over B g (upd s i v))
    = sum_over B (fun s' => sum (dim i) (fun v => g (upd s' i v))) s.
  Proof.
    intros Hg. induction B as [|j B IH]; intros Hni s; cbn; [reflexivity|].
    assert (Hij : i <> j) by (intros E; apply Hni; left; symmetry; exact E).
    assert (HniB : ~ In i B) by (intros H; apply Hni; right; exact H).
    rewrite (sum_swap K k0 k1 kadd kmul ksub kopp Kring).
    apply sum_ext. intros w _.
    rewrite <- (IH HniB (upd s j w)).
    apply sum_ext. intros v _.
    apply sum_over_aeq; [exact Hg|]. apply upd_comm. exact Hij.
  Qed.

  Lemma ext_inner_sum i g : ext g -> ext (fun s' => sum (dim i) (fun v => g (upd s' i v))).
  Proof. intros Hg s s' H. apply sum_ext. intros v _. apply Hg. apply aeq_upd. exact H. Qed.

  (* Fubini for disjoint label blocks *)
  Lemma sum_over_comm A : forall B f, ext f -> (forall i, In i A -> ~ In i B) -> forall s,
    sum_over A (sum_over B f) s = sum_over B (sum_over A f) s.
  Proof.
    induction A as [|i A IH]; intros B f Hf Hd s; cbn [sum_over]; [reflexivity|].
    rewrite (sum_ext K k0 kadd (dim i) _ (fun v => sum_over B (sum_over A f) (upd s i v))).
    2:{ intros v _. apply IH; [exact Hf|]. intros j Hj. apply Hd. right. exact Hj. }
    rewrite sum_push; [reflexivity | apply ext_sum_over; exact Hf | apply Hd; left; reflexivity].
  Qed.

  (* factors that do not depend on the summed labels come out of the sum *)
  Lemma sum_over_factor S f g : (forall i, In i S -> indep g i) -> forall s,
    sum_over S (fun s' => f s' * g s') s = sum_over S f s * g s.
  Proof.
    induction S as [|i S IH]; intros Hg s; cbn [sum_over]; [reflexivity|].
    rewrite (sum_ext K k0 kadd (dim i) _ (fun v => sum_over S f (upd s i v) * g s)).
    - apply (sum_mul_r K k0 k1 kadd kmul ksub kopp Kring).
    - intros v _. rewrite IH by (intros j Hj; apply Hg; right; exact Hj).
      rewrite (Hg i (or_introl eq_refl)). reflexivity.
  Qed.

  (* ---- tensors and networks ------------------------------------------- *)
  Record tensor := { tinds : list ind; tval : asg -> K }.

  (* the value depends only on the tensor's own labels *)
  Definition wf (t : tensor) : Prop :=
    forall s s', (forall i, In i (tinds t) -> s i = s' i) -> tval t s = tval t s'.

  Lemma wf_ext t : wf t -> ext (tval t).
  Proof. intros H s s' E. apply H. intros i _. apply E. Qed.

  Lemma wf_indep t i : wf t -> ~ In i (tinds t) -> indep (tval t) i.
  Proof.
    intros H Hni s v. apply H. intros j Hj. unfold upd.
    destruct (Nat.eqb j i) eqn:E; [|reflexivity]. apply Nat.eqb_eq in E. subst. contradiction.
  Qed.

  Fixpoint prodK (l : list K) : K := match l with [] => k1 | x :: t => x * prodK t end.
  Definition tprod (ts : list tensor) (s : asg) : K := prodK (map (fun t => tval t s) ts).

  (* value of a network: labels in `summed` are summed, all others are read from s *)
  Definition value (ts : list tensor) (summed : list ind) (s : asg) : K := sum_over summed (tprod ts) s.

  Lemma prodK_perm l l' : Permutation l l' -> prodK l = prodK l'.
  Proof.
    induction 1 as [|x l l' HP IH|x y l|l l' l'' H1 IH1 H2 IH2]; cbn.
    - reflexivity.
    - rewrite IH. reflexivity.
    - ring.
    - congruence.
  Qed.

  Lemma tprod_perm ts ts' s : Permutation ts ts' -> tprod ts s = tprod ts' s.
  Proof. intros H. unfold tprod. apply prodK_perm. apply Permutation_map. exact H. Qed.

  Lemma ext_tprod ts : Forall wf ts -> ext (tprod ts).
  Proof.
    induction 1 as [|t ts Ht Hts IH]; intros s s' E; unfold tprod in *; cbn; [reflexivity|].
    rewrite (wf_ext t Ht s s' E). rewrite (IH s s' E). reflexivity.
  Qed.

  Lemma indep_tprod ts i : Forall wf ts -> (forall t, In t ts -> ~ In i (tinds t)) -> indep (tprod ts) i.
  Proof.
    induction 1 as [|t ts Ht Hts IH]; intros Hni s v; unfold tprod in *; cbn; [reflexivity|].
    rewrite (wf_indep t i Ht (Hni t (or_introl eq_refl))).
    rewrite IH by (intros t' Ht'; apply Hni; right; exact Ht'). reflexivity.
  Qed.

  (* tensor insertion order never matters *)
  Theorem value_perm ts ts' summed s : Permutation ts ts' -> value ts summed s = value ts' summed s.
  Proof. intros H. unfold value. apply sum_over_ext_fun. intros s'. apply tprod_perm. exact H. Qed.

  (* pairwise contraction over the labels S *)
  Definition contract2 (a b : tensor) (S : list ind) : tensor :=
    {| tinds := filter (fun i => negb (existsb (Nat.eqb i) S)) (tinds a ++ tinds b);
       tval := sum_over S (fun s => tval a s * tval b s) |}.

  (* One contraction step: S are labels summed at this step; they may not occur
     on any other tensor nor among the labels R summed later (nor be outputs:
     outputs are simply not in S ++ R). *)
  Theorem contract_step_sound a b others S R s :
    wf a -> wf b -> Forall wf others ->
    (forall i, In i S -> ~ In i R) ->
    (forall i t, In i S -> In t others -> ~ In i (tinds t)) ->
    value (a :: b :: others) (S ++ R) s = value (contract2 a b S :: others) R s.
  Proof.
    intros Ha Hb Ho Hd Hfree. unfold value.
    rewrite sum_over_app.
    rewrite sum_over_comm.
    - apply sum_over_ext_fun. intros s1. unfold tprod. cbn [map prodK contract2 tval].
      fold (tprod others).
      rewrite (sum_over_ext_fun S _ (fun s' => (tval a s' * tval b s') * tprod others s')) by (intros; unfold tprod; ring).
      apply sum_over_factor. intros i Hi. apply indep_tprod; [exact Ho|]. intros t Ht. apply Hfree; assumption.
    - apply ext_tprod. repeat constructor; assumption.
    - exact Hd.
  Qed.

  (* the same step at arbitrary positions in the tensor list *)
  Corollary contract_step_sound_perm ts a b others S R s :
    Permutation ts (a :: b :: others) ->
    wf a -> wf b -> Forall wf others ->
    (forall i, In i S -> ~ In i R) ->
    (forall i t, In i S -> In t others -> ~ In i (tinds t)) ->
    value ts (S ++ R) s = value (contract2 a b S :: others) R s.
  Proof.
    intros HP Ha Hb Ho Hd Hfree. rewrite (value_perm ts (a :: b :: others)) by exact HP.
    apply contract_step_sound; assumption.
  Qed.

  (* the order in which the labels are summed never matters *)
  Theorem value_summed_swap ts A B s : Forall wf ts -> (forall i, In i A -> ~ In i B) ->
    value ts (A ++ B) s = value ts (B ++ A) s.
  Proof.
    intros Hw Hd. unfold value. rewrite !sum_over_app. apply sum_over_comm; [apply ext_tprod; exact Hw | exact Hd].
  Qed.

  Lemma wf_contract2 a b S : wf a -> wf b -> wf (contract2 a b S).
  Proof.
    intros Ha Hb s s' E. cbn [contract2 tval tinds] in *.
    revert s s' E. induction S as [|i S IH]; intros s s' E.
    - cbn in *. rewrite (Ha s s'), (Hb s s'); [reflexivity| |];
        intros j Hj; apply E; apply filter_In; (split; [apply in_or_app; auto | reflexivity]).
    - cbn [sum_over]. apply sum_ext. intros v _. apply IH.
      intros j Hj. apply filter_In in Hj. destruct Hj as [Hin Hns]. unfold upd.
      destruct (Nat.eqb j i) eqn:Eji; [reflexivity|].
      apply E. apply filter_In. split; [exact Hin|]. cbn [existsb]. rewrite Eji. exact Hns.
  Qed.

  (* ---- contraction paths --------------------------------------------------- *)
  (* A network state is (tensors, labels still to be summed).  A path is any
     sequence of legal steps; `legal` is exactly the side condition above. *)
  Inductive step : list tensor * list ind -> list tensor * list ind -> Prop :=
  | Step ts a b others S R :
      Permutation ts (a :: b :: others) ->
      (forall i, In i S -> ~ In i R) ->
      (forall i t, In i S -> In t others -> ~ In i (tinds t)) ->
      step (ts, S ++ R) (contract2 a b S :: others, R)
  | Reorder ts A B : (forall i, In i A -> ~ In i B) -> step (ts, A ++ B) (ts, B ++ A).

  Inductive steps : list tensor * list ind -> list tensor * list ind -> Prop :=
  | steps_refl x : steps x x
  | steps_cons x y z : step x y -> steps y z -> steps x z.

  Lemma step_wf ts L ts' L' : step (ts, L) (ts', L') -> Forall wf ts -> Forall wf ts'.
  Proof.
    intros H Hw. inversion H; subst; [|exact Hw].
    assert (Hw' : Forall wf (a :: b :: others)) by (eapply Permutation_Forall; eassumption).
    inversion Hw' as [|? ? Ha Hw'']; subst. inversion Hw'' as [|? ? Hb Ho]; subst.
    constructor; [apply wf_contract2; assumption | exact Ho].
  Qed.

  Theorem step_sound ts L ts' L' s : step (ts, L) (ts', L') -> Forall wf ts -> value ts L s = value ts' L' s.
  Proof.
    intros H Hw. inversion H; subst.
    - assert (Hw' : Forall wf (a :: b :: others)) by (eapply Permutation_Forall; eassumption).
      inversion Hw' as [|? ? Ha Hw'']; subst. inversion Hw'' as [|? ? Hb Ho]; subst.
      apply contract_step_sound_perm; assumption.
    - apply value_summed_swap; assumption.
  Qed.

  (* every contraction path returns the same value *)
  Theorem path_sound x y : steps x y -> Forall wf (fst x) ->
    forall s, value (fst x) (snd x) s = value (fst y) (snd y) s.
  Proof.
    induction 1 as [x|x y z Hxy Hyz IH]; intros Hw s; [reflexivity|].
    destruct x as [ts L], y as [ts' L']. cbn [fst snd] in *.
    rewrite (step_sound ts L ts' L' s Hxy Hw). apply IH. eapply step_wf; eassumption.
  Qed.

  (* fully contracted: one tensor left, nothing to sum -> its entries are the value *)
  Corollary path_to_single ts L t s : steps (ts, L) ([t], []) -> Forall wf ts ->
    value ts L s = tval t s.
  Proof.
    intros H Hw. pose proof (path_sound _ _ H Hw s) as E. cbn [fst snd] in E. rewrite E.
    unfold value, tprod. cbn. ring.
  Qed.
End TN.

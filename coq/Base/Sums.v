(* Finite sums over an arbitrary commutative ring K (Section variables +
   ring_theory hypothesis: no axioms).  sum n f = f 0 + ... + f (n-1). *)
From Coq Require Import Arith List Lia Ring PeanoNat.
Import ListNotations.

Section Sums.
  Variable K : Type.
  Variables (k0 k1 : K) (kadd kmul ksub : K -> K -> K) (kopp : K -> K).
  Hypothesis Kring : ring_theory k0 k1 kadd kmul ksub kopp eq.
  Add Ring Kr : Kring.
  Infix "+" := kadd. Infix "*" := kmul.

  Fixpoint sum (n : nat) (f : nat -> K) : K :=
    match n with O => k0 | S n' => sum n' f + f n' end.

  Lemma sum_ext n f g : (forall i, (i < n)%nat -> f i = g i) -> sum n f = sum n g.
  Proof.
    induction n as [|n IH]; intros H; cbn; [reflexivity|].
    rewrite IH by (intros; apply H; lia). rewrite H by lia. reflexivity.
  Qed.

  Lemma sum_zero n : sum n (fun _ => k0) = k0.
  Proof. induction n as [|n IH]; cbn; [reflexivity|]. rewrite IH. ring. Qed.

  Lemma sum_all_zero n f : (forall i, (i < n)%nat -> f i = k0) -> sum n f = k0.
  Proof. intros H. rewrite (sum_ext n f (fun _ => k0)) by exact H. apply sum_zero. Qed.

  Lemma sum_add n f g : sum n (fun i => f i + g i) = sum n f + sum n g.
  Proof. induction n as [|n IH]; cbn; [ring|]. rewrite IH. ring. Qed.

  Lemma sum_mul_l n c f : sum n (fun i => c * f i) = c * sum n f.
  Proof. induction n as [|n IH]; cbn; [ring|]. rewrite IH. ring. Qed.

  Lemma sum_mul_r n c f : sum n (fun i => f i * c) = sum n f * c.
  Proof. induction n as [|n IH]; cbn; [ring|]. rewrite IH. ring. Qed.

  (* Fubini *)
  Lemma sum_swap n m (f : nat -> nat -> K) :
    sum n (fun i => sum m (fun j => f i j)) = sum m (fun j => sum n (fun i => f i j)).
  Proof.
    induction n as [|n IH]; cbn.
    - symmetry. apply sum_zero.
    - rewrite IH. rewrite <- sum_add. reflexivity.
  Qed.

  (* Kronecker delta collapse *)
  Lemma sum_delta n c f : (c < n)%nat ->
    sum n (fun i => if Nat.eqb i c then f i else k0) = f c.
  Proof.
    induction n as [|n IH]; intros Hc; [lia|]. cbn.
    destruct (Nat.eqb n c) eqn:E.
    - apply Nat.eqb_eq in E. subst.
      rewrite (sum_ext c _ (fun _ => k0)).
      + rewrite sum_zero. ring.
      + intros i Hi. destruct (Nat.eqb i c) eqn:E'; [apply Nat.eqb_eq in E'; lia | reflexivity].
    - apply Nat.eqb_neq in E. rewrite IH by lia. ring.
  Qed.

  Lemma sum_delta_out n c f : (n <= c)%nat ->
    sum n (fun i => if Nat.eqb i c then f i else k0) = k0.
  Proof.
    intros Hc. rewrite (sum_ext n _ (fun _ => k0)); [apply sum_zero|].
    intros i Hi. destruct (Nat.eqb i c) eqn:E; [apply Nat.eqb_eq in E; lia | reflexivity].
  Qed.

  (* splitting a product range: k = i*b + j *)
  Lemma sum_app n m f : sum (n + m) f = sum n f + sum m (fun j => f (n + j)%nat).
  Proof.
    induction m as [|m IH]; cbn.
    - rewrite Nat.add_0_r. ring.
    - rewrite Nat.add_succ_r. cbn. rewrite IH. ring.
  Qed.

  Lemma sum_prod a b f :
    sum (a * b) f = sum a (fun i => sum b (fun j => f (i * b + j)%nat)).
  Proof.
    induction a as [|a IH]; cbn [Nat.mul sum]; [reflexivity|].
    rewrite Nat.add_comm. rewrite sum_app. rewrite IH. reflexivity.
  Qed.
End Sums.

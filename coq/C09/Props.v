(* C09 property theorems: statements only (proofs: C09/Proofs.v over an arbitrary
   commutative ring, C09/Cap.v for the sweep machine of C09/Model.v). *)
From Coq Require Import ZArith Arith List Bool Ring.
From QV Require Import Base.Sums C09.Model C09.Proofs C09.Cap C09.Trunc C09.RecordModel C09.Record.
Import ListNotations.

Section C09.
  Variable K : Type.
  Variables (k0 k1 : K) (kadd kmul ksub : K -> K -> K) (kopp : K -> K).
  Hypothesis Kring : ring_theory k0 k1 kadd kmul ksub kopp eq.

  (* MPS / MPO addition (open boundaries, every length, site-dependent bond and physical
     dimensions): the network whose first/last tensors are the concatenations and whose
     middle tensors are the block-diagonal direct sums of the operands' site tensors
     (bond axes padded, physical axes not) has, at EVERY physical configuration, the sum
     of the two amplitudes.  (An MPO is the same statement with the physical value = the
     pair upper/lower.) *)
  Theorem C09_mps_add_sound : forall (m : mps2 K) (p0 : nat) (cfg : list nat) (pl : nat),
    amp_of_sum K k0 kadd kmul m p0 cfg pl
    = kadd (amp_of_A K k0 kadd kmul m p0 cfg pl) (amp_of_B K k0 kadd kmul m p0 cfg pl).
  Proof. exact (mps_add_sound K k0 k1 kadd kmul ksub kopp Kring). Qed.

  (* the same at the level of the selected chain of matrices *)
  Theorem C09_block_diagonal_chain_is_sum : forall na nb (a0 b0 : vec K) (l : list (ssite K)) (wa wb : vec K),
    dot K k0 kadd kmul (endA K na l + endB K nb l)
        (propS K k0 kadd kmul na nb (vcat K na a0 b0) l) (vcat K (endA K na l) wa wb)
    = kadd (dot K k0 kadd kmul (endA K na l) (propA K k0 kadd kmul na a0 l) wa)
           (dot K k0 kadd kmul (endB K nb l) (propB K k0 kadd kmul nb b0 l) wb).
  Proof. exact (add_selected_sound K k0 k1 kadd kmul ksub kopp Kring). Qed.

  (* subtraction = addition with ONE tensor of the second operand negated *)
  Theorem C09_mps_sub_sound : forall (m : mps2 K) (p0 : nat) (cfg : list nat) (pl : nat),
    amp_of_sum K k0 kadd kmul
      {| na0 := na0 K m; nb0 := nb0 K m; firstA := firstA K m;
         firstB := fun p i => kopp (firstB K m p i);
         middle := middle K m; lastA := lastA K m; lastB := lastB K m |} p0 cfg pl
    = ksub (amp_of_A K k0 kadd kmul m p0 cfg pl) (amp_of_B K k0 kadd kmul m p0 cfg pl).
  Proof. exact (mps_sub_sound K k0 k1 kadd kmul ksub kopp Kring). Qed.

  (* periodic boundaries: trace of the product of block-diagonal matrices *)
  Theorem C09_mps_add_cyclic_sound : forall (ra0 rb0 : nat) (s1 : ssite K) (rest : list (ssite K)),
    endA K (ca K s1) rest = ra0 -> endB K (cb K s1) rest = rb0 ->
    cycS K k0 kadd kmul ra0 rb0 s1 rest
    = kadd (cycA K k0 kadd kmul ra0 s1 rest) (cycB K k0 kadd kmul rb0 s1 rest).
  Proof. exact (add_cyclic_selected_sound K k0 k1 kadd kmul ksub kopp Kring). Qed.

  (* scalar multiplication: per-tensor scalars multiply the amplitude by their product *)
  Theorem C09_scale_sound : forall l : list (csite K),
    amp_chain_scaled K k0 k1 kadd kmul l = kmul (prodc K k1 kmul l) (amp_chain K k0 k1 kadd kmul l).
  Proof. exact (scale_sound K k0 k1 kadd kmul ksub kopp Kring). Qed.

  (* TensorNetwork.multiply: k tensors get the factor r, the first one also the sign s:
     the amplitude is multiplied by s * r^k *)
  Theorem C09_multiply_sound : forall (s r : K) (k : nat) (l : list (csite K)), 1 <= k <= length l ->
    amp_chain_scaled K k0 k1 kadd kmul (set_scalars K k1 (multiply_scalars K kmul s r k) l)
    = kmul (kmul s (kpow K k1 kmul r k)) (amp_chain K k0 k1 kadd kmul l).
  Proof. exact (multiply_sound K k0 k1 kadd kmul ksub kopp Kring). Qed.

  (* operator on vector.  which_A = "lower": the LOWER label of A meets the ket,
     (A x)(us) = sum_ds <us|A|ds> x(ds) *)
  Theorem C09_apply_op_vec_lower_sound : forall (l : list (osite K)) (us : list nat), length us = length l ->
    apply_vec_amp K k0 k1 kadd kmul Lower l us
    = sum_cfgs K k0 kadd (map (dl K) l)
        (fun ds => kmul (op_amp K k0 k1 kadd kmul l us ds) (ket_amp K k0 k1 kadd kmul l ds)).
  Proof. exact (apply_op_vec_lower K k0 k1 kadd kmul ksub kopp Kring). Qed.

  (* which_A = "upper": the UPPER label of A meets the ket, (A^T x)(ds) = sum_us <us|A|ds> x(us) *)
  Theorem C09_apply_op_vec_upper_sound : forall (l : list (osite K)) (ds : list nat), length ds = length l ->
    apply_vec_amp K k0 k1 kadd kmul Upper l ds
    = sum_cfgs K k0 kadd (map (du K) l)
        (fun us => kmul (op_amp K k0 k1 kadd kmul l us ds) (ket_amp K k0 k1 kadd kmul l us)).
  Proof. exact (apply_op_vec_upper K k0 k1 kadd kmul ksub kopp Kring). Qed.

  (* operator on operator, the four (which_A, which_B) cases as coded; R = result,
     R(rus, rds) with B's outer labels *)
  (* (lower, upper): R = A B *)
  Theorem C09_apply_op_op_lower_upper : forall (l : list (ppsite K)) (rus rds : list nat),
    length rus = length l -> length rds = length l ->
    apply_op_amp K k0 k1 kadd kmul Lower Upper l rus rds
    = sum_cfgs K k0 kadd (map (pla K) l)
        (fun cs => kmul (A_amp K k0 k1 kadd kmul l rus cs) (B_amp K k0 k1 kadd kmul l cs rds)).
  Proof. exact (apply_op_op_sound K k0 k1 kadd kmul ksub kopp Kring Lower Upper). Qed.
  (* (lower, lower): R = B A^T *)
  Theorem C09_apply_op_op_lower_lower : forall (l : list (ppsite K)) (rus rds : list nat),
    length rus = length l -> length rds = length l ->
    apply_op_amp K k0 k1 kadd kmul Lower Lower l rus rds
    = sum_cfgs K k0 kadd (map (pla K) l)
        (fun cs => kmul (A_amp K k0 k1 kadd kmul l rds cs) (B_amp K k0 k1 kadd kmul l rus cs)).
  Proof. exact (apply_op_op_sound K k0 k1 kadd kmul ksub kopp Kring Lower Lower). Qed.
  (* (upper, upper): R = A^T B *)
  Theorem C09_apply_op_op_upper_upper : forall (l : list (ppsite K)) (rus rds : list nat),
    length rus = length l -> length rds = length l ->
    apply_op_amp K k0 k1 kadd kmul Upper Upper l rus rds
    = sum_cfgs K k0 kadd (map (pua K) l)
        (fun cs => kmul (A_amp K k0 k1 kadd kmul l cs rus) (B_amp K k0 k1 kadd kmul l cs rds)).
  Proof. exact (apply_op_op_sound K k0 k1 kadd kmul ksub kopp Kring Upper Upper). Qed.
  (* (upper, lower): R = B A *)
  Theorem C09_apply_op_op_upper_lower : forall (l : list (ppsite K)) (rus rds : list nat),
    length rus = length l -> length rds = length l ->
    apply_op_amp K k0 k1 kadd kmul Upper Lower l rus rds
    = sum_cfgs K k0 kadd (map (pua K) l)
        (fun cs => kmul (A_amp K k0 k1 kadd kmul l cs rds) (B_amp K k0 k1 kadd kmul l rus cs)).
  Proof. exact (apply_op_op_sound K k0 k1 kadd kmul ksub kopp Kring Upper Lower). Qed.

  (* fusing the pair of bonds of the applied network into one axis only relabels the sum *)
  Theorem C09_fuse_multibond_relabels : forall (a b : nat) (f : nat -> nat -> K),
    sum K k0 kadd a (fun i => sum K k0 kadd b (fun i' => f i i'))
    = sum K k0 kadd (a * b) (fun I => f (I / b) (I mod b)).
  Proof. exact (fuse_pair_sum K k0 k1 kadd kmul ksub kopp Kring). Qed.
End C09.

Print Assumptions C09_mps_add_sound.
Print Assumptions C09_block_diagonal_chain_is_sum.
Print Assumptions C09_mps_sub_sound.
Print Assumptions C09_mps_add_cyclic_sound.
Print Assumptions C09_scale_sound.
Print Assumptions C09_multiply_sound.
Print Assumptions C09_apply_op_vec_lower_sound.
Print Assumptions C09_apply_op_vec_upper_sound.
Print Assumptions C09_apply_op_op_lower_upper.
Print Assumptions C09_apply_op_op_lower_lower.
Print Assumptions C09_apply_op_op_upper_upper.
Print Assumptions C09_apply_op_op_upper_lower.
Print Assumptions C09_fuse_multibond_relabels.

(* ---- sweep machine (every length, every dimension, every cutoff outcome) ---- *)

(* compress(form, max_bond = D) leaves every bond <= D *)
Theorem C09_compress_bond_cap : forall (f : form) (cnt : nat -> option nat) (p b : list nat) (D : nat),
  posn p -> posn b -> 0 < D -> length b + 1 = length p ->
  Forall (fun x => x <= D) (run_bonds p D (compress_prog f (length p) cnt) b).
Proof. exact compress_bond_cap. Qed.
Print Assumptions C09_compress_bond_cap.

(* any history of canonise / compress steps: a bond compressed at any time with cap D ends <= D *)
Theorem C09_bond_cap_every_history : forall (p : list nat) (D : nat) (prog : list step) (b : list nat) (j : nat),
  posn p -> posn b -> 0 < D -> Exists (fun s => comp_on s j) prog -> nth j (run_bonds p D prog b) 1 <= D.
Proof. exact bond_cap_history. Qed.
Print Assumptions C09_bond_cap_every_history.

(* no step ever enlarges a bond *)
Theorem C09_sweeps_never_grow_bonds : forall (p : list nat) (D : nat) (prog : list step) (b : list nat) (j : nat),
  posn p -> posn b -> 0 < D -> nth j (run_bonds p D prog b) 1 <= nth j b 1.
Proof. exact run_nonincreasing. Qed.
Print Assumptions C09_sweeps_never_grow_bonds.

(* the truncation count: capped, never above the rank, never zero; nothing is discarded when
   neither the cap nor a cutoff bites *)
Theorem C09_truncation_count : forall cnt D d, 1 <= d ->
  (0 < D -> nchi cnt D d <= D) /\ nchi cnt D d <= d /\ 1 <= nchi cnt D d
  /\ ((D = 0 \/ d <= D) -> nchi None D d = d).
Proof.
  exact (fun cnt D d H => conj (nchi_le_cap cnt D d) (conj (nchi_le_rank cnt D d H)
           (conj (nchi_pos cnt D d H) (nchi_no_truncation D d)))).
Qed.
Print Assumptions C09_truncation_count.

(* canonical form left by compress(form), given that the QR / SVD factors are isometries *)
Theorem C09_compress_right_canonical : forall cnt L st, length st = L -> 1 <= L ->
  canonical_around 0 L (run_status (compress_prog FRight L cnt) st).
Proof. exact compress_right_canonical. Qed.
Print Assumptions C09_compress_right_canonical.

Theorem C09_compress_left_canonical : forall cnt L st, length st = L -> 1 <= L ->
  canonical_around (L - 1) L (run_status (compress_prog FLeft L cnt) st).
Proof. exact compress_left_canonical. Qed.
Print Assumptions C09_compress_left_canonical.

Theorem C09_compress_center_canonical : forall cnt L c st, length st = L -> c < L ->
  canonical_around c L (run_status (compress_prog (FCenter c) L cnt) st).
Proof. exact compress_center_canonical. Qed.
Print Assumptions C09_compress_center_canonical.

(* error of the 'direct' method, PARTIAL: one truncation in canonical form.  Discarding the m
   Schmidt terms u_i alpha_i (x) beta_i (orthonormal alpha's and beta's: the isometric
   environments of the canonical form) changes the state by a vector of squared norm exactly
   sum_i |u_i|^2, over any commutative ring with an involution.  The root-sum-square
   accumulation over a whole sweep is NOT proved (oracle stream only). *)
Theorem C09_direct_error_single_truncation_partial :
  forall (K : Type) (k0 k1 : K) (kadd kmul ksub : K -> K -> K) (kopp : K -> K),
  ring_theory k0 k1 kadd kmul ksub kopp eq ->
  forall conj : K -> K,
  (forall a b, conj (kadd a b) = kadd (conj a) (conj b)) ->
  (forall a b, conj (kmul a b) = kmul (conj a) (conj b)) ->
  forall (na nb m : nat) (u : nat -> K) (alpha beta : nat -> nat -> K),
  (forall i j, i < m -> j < m ->
     sum K k0 kadd na (fun x => kmul (conj (alpha i x)) (alpha j x)) = delta K k0 k1 i j) ->
  (forall i j, i < m -> j < m ->
     sum K k0 kadd nb (fun y => kmul (conj (beta i y)) (beta j y)) = delta K k0 k1 i j) ->
  sum K k0 kadd na (fun x => sum K k0 kadd nb (fun y =>
      kmul (conj (tail K k0 kadd kmul m u alpha beta x y)) (tail K k0 kadd kmul m u alpha beta x y)))
  = sum K k0 kadd m (fun i => kmul (conj (u i)) (u i)).
Proof. exact tail_norm2. Qed.
Print Assumptions C09_direct_error_single_truncation_partial.

(* ---- the canonical-centre record info["cur_orthog"] shared between calls (C09/RecordModel.v) ----
   Contracts (validated on every run by the harness, not proved): QR / LQ factors are isometries,
   the compression of a region leaves the canonical form its sweep direction promises,
   calc_current_orthog_center reports true facts. *)

(* every chain length, every history of canonicalize / sub-operator applications (either sweep
   direction) / expectation queries (on a copy or in place, any set of terms) sharing one record:
   a record that is true of the state stays true of the state *)
Theorem C09_record_truthful_every_history : forall (L : nat) (ops : list op) (s : mstate),
  inv L s -> Forall (op_ok L) ops -> inv L (run_ops ops s).
Proof. exact record_truthful_every_history. Qed.
Print Assumptions C09_record_truthful_every_history.

(* in particular from every state an observed history starts from (nothing known, or a measured pair) *)
Theorem C09_record_truthful_from_any_start : forall (L : nat) (r : rcd) (ops : list op),
  rcd_in_range L r -> Forall (op_ok L) ops -> inv L (run_ops ops (init_state L r)).
Proof. exact record_truthful_from_any_start. Qed.
Print Assumptions C09_record_truthful_from_any_start.

(* canonicalize((w1, w2), info): whatever true record it started from (missing, None, "calc", a
   pair), it ends with a pair inside [min w, max w] that is true of the moved state *)
Theorem C09_canonicalize_records_true_range : forall L dcalc w1 w2 calc s,
  inv L s -> w1 < L -> w2 < L -> fst calc < L -> snd calc < L ->
  canon_post L (Nat.min w1 w2) (Nat.max w1 w2) (canonicalize dcalc w1 w2 calc s).
Proof. exact canonicalize_spec. Qed.
Print Assumptions C09_canonicalize_records_true_range.

(* gate_with_submpo / gate_nonlocal on sites si..sf: the record is the single site the sweep
   direction ends on (si, or sf when sweep_reverse) and the whole chain is canonical around it *)
Theorem C09_submpo_record_and_form : forall L w1 w2 (rv : bool) calc s,
  inv L s -> w1 < L -> w2 < L -> fst calc < L -> snd calc < L ->
  let c := if rv then Nat.max w1 w2 else Nat.min w1 w2 in
  let s' := submpo w1 w2 rv calc s in
  length (fst s') = L /\ snd s' = RPair c c /\ canonical_around c L (fst s').
Proof. exact submpo_spec. Qed.
Print Assumptions C09_submpo_record_and_form.

(* ... and the direction matters: after a reversed sweep over >= 2 sites the forward record
   (si, si) claims isometries that no contract guarantees *)
Theorem C09_submpo_reverse_first_site_record_false : forall L w1 w2 calc s,
  inv L s -> w1 < L -> w2 < L -> w1 <> w2 -> fst calc < L -> snd calc < L ->
  ~ truthful L (fst (submpo w1 w2 true calc s)) (RPair (Nat.min w1 w2) (Nat.min w1 w2)).
Proof. exact submpo_reverse_first_site_record_false. Qed.
Print Assumptions C09_submpo_reverse_first_site_record_false.

(* an expectation query with inplace=False leaves state and record alone; a state about which
   nothing is known admits only the trivial record (0, L-1), so handing the centre of the moved
   COPY to the caller's record would be false *)
Theorem C09_expectation_on_copy_keeps_record : forall (L a b : nat) (s : mstate),
  apply_op OExpCopy s = s
  /\ (truthful L (generic L) (RPair a b) -> Nat.min a b = 0 /\ L - 1 <= Nat.max a b).
Proof. exact (fun L a b s => conj eq_refl (generic_only_trivial_record L a b)). Qed.
Print Assumptions C09_expectation_on_copy_keeps_record.

(* non-vacuity: an executable instance over Z[i] (block-diagonal sum of two 2-site chains,
   the sweep machine on a 4-site chain, the multiply plan) *)
Example C09_examples :
  run_bonds [2; 3; 2; 2] 2 (compress_prog FRight 4 no_cut) [5; 7; 4] = [2; 2; 2]
  /\ run_bonds [2; 3; 2; 2] 0 (compress_prog FLeft 4 no_cut) [5; 7; 4] = [2; 4; 2]
  /\ run_status (compress_prog (FCenter 2) 4 no_cut) [SN; SN; SN; SN] = [SL; SL; SN; SR]
  /\ multiply_plan 5 8 false true = MRaises /\ multiply_plan 1 8 false true = MOk 1
  /\ site_sum_check false true [1; 2; 2] [(1,0); (2,0); (3,0); (4,0)]%Z [1; 1; 2] [(5,0); (6,0)]%Z
       [1; 3; 2] [(1,0); (2,0); (3,0); (4,0); (5,0); (6,0)]%Z = true
  /\ matvec 2 2 [(1,0); (2,0); (3,0); (4,0)]%Z [(1,0); (0,1)]%Z = [(1,2); (3,4)]%Z
  /\ run_ops [OSub 2 6 true (0, 7); OSub 3 4 false (0, 7)] (generic 8, RUnset)
     = ([SL; SL; SL; SN; SR; SR; SR; SR], RPair 3 3)
  /\ snd (run_ops [OSub 2 6 true (0, 7)] (generic 8, RUnset)) = RPair 6 6
  /\ run_ops [OExpIn [(5, 6); (6, 7); (7, 7)] (0, 7); OExpCopy; OExpIn [(0, 1); (4, 1)] (0, 7)] (generic 8, RUnset)
     = ([SL; SN; SR; SR; SR; SR; SR; SR], RPair 1 1).
Proof. vm_compute. repeat split. Qed.

(* C09 - the canonical-centre record info["cur_orthog"] stays TRUE of the state it describes,
   for every chain length and every history of record-sharing calls (C09/RecordModel.v). *)
From Coq Require Import Arith List Bool Lia PeanoNat.
From QV Require Import C09.Model C09.Cap C09.RecordModel.
Import ListNotations.

(* ---- tables ---- *)
Lemma length_tab L f : length (tab L f) = L.
Proof. unfold tab. rewrite map_length, seq_length. reflexivity. Qed.

Lemma nth_tab L f k : k < L -> nth k (tab L f) SN = f k.
Proof.
  intros H. unfold tab. rewrite (nth_indep _ SN (f 0)) by (rewrite map_length, seq_length; exact H).
  rewrite map_nth, seq_nth by exact H. reflexivity.
Qed.

(* ---- sweeps ---- *)
Lemma asc_from : forall n c st, c + n < length st ->
  (forall k, c <= k < c + n -> nth k (run_status (map LCanon (seq c n)) st) SN = SL)
  /\ (forall k, k < c \/ c + n < k -> nth k (run_status (map LCanon (seq c n)) st) SN = nth k st SN).
Proof.
  induction n as [|n IH]; intros c st Hn.
  - cbn. split; [lia | reflexivity].
  - rewrite seq_S, map_app, run_status_app. cbn [map run_status fold_left step_status].
    destruct (IH c st ltac:(lia)) as [IH1 IH2].
    fold (run_status (map LCanon (seq c n)) st).
    set (st1 := run_status (map LCanon (seq c n)) st) in *.
    assert (Hl : length st1 = length st) by apply length_run_status.
    split; intros k Hk; rewrite !nth_lset, !length_lset, Hl.
    + destruct (Nat.eqb k (S (c + n))) eqn:E1; [apply Nat.eqb_eq in E1; lia|]. cbn [andb].
      destruct (Nat.eqb k (c + n)) eqn:E2.
      * rewrite (proj2 (Nat.ltb_lt (c + n) (length st)) ltac:(lia)). reflexivity.
      * cbn [andb]. apply IH1. apply Nat.eqb_neq in E2. lia.
    + destruct (Nat.eqb k (S (c + n))) eqn:E1; [apply Nat.eqb_eq in E1; lia|]. cbn [andb].
      destruct (Nat.eqb k (c + n)) eqn:E2; [apply Nat.eqb_eq in E2; lia|]. cbn [andb].
      apply IH2. lia.
Qed.

Lemma desc_to : forall m stop st, stop + m < length st ->
  (forall k, stop < k <= stop + m -> nth k (run_status (map RCanon (rev (seq (S stop) m))) st) SN = SR)
  /\ (forall k, k < stop \/ stop + m < k -> nth k (run_status (map RCanon (rev (seq (S stop) m))) st) SN = nth k st SN).
Proof. exact (desc_sweep RCanon rcanon_left). Qed.

(* ---- the invariant ---- *)
Definition truthful (L : nat) (st : list status) (r : rcd) : Prop :=
  match r with
  | RPair a b => a < L /\ b < L
      /\ (forall k, k < Nat.min a b -> nth k st SN = SL)
      /\ (forall k, Nat.max a b < k < L -> nth k st SN = SR)
  | _ => True
  end.

Definition inv (L : nat) (s : mstate) : Prop := length (fst s) = L /\ truthful L (fst s) (snd s).

(* what one canonicalize establishes *)
Definition canon_post (L i j : nat) (s : mstate) : Prop :=
  length (fst s) = L /\
  exists i1 j1, snd s = RPair i1 j1 /\ i <= i1 /\ i1 <= j1 /\ j1 <= j
    /\ (forall k, k < i1 -> nth k (fst s) SN = SL)
    /\ (forall k, j1 < k < L -> nth k (fst s) SN = SR).

Lemma canon_post_inv L i j s : j < L -> canon_post L i j s -> inv L s.
Proof.
  intros Hj [Hl (i1 & j1 & Hr & H1 & H2 & H3 & HL & HR)]. split; [exact Hl|].
  rewrite Hr. cbn [truthful].
  rewrite (Nat.min_l i1 j1) by exact H2. rewrite (Nat.max_r i1 j1) by exact H2.
  repeat split; try lia; assumption.
Qed.

Lemma canon_pair_spec L i j cmin cmax st :
  length st = L -> i <= j -> j < L -> cmin <= cmax -> cmax < L ->
  (forall k, k < cmin -> nth k st SN = SL) ->
  (forall k, cmax < k < L -> nth k st SN = SR) ->
  canon_post L i j (canon_pair i j cmin cmax st).
Proof.
  intros Hl Hij Hj Hc HcL HL HR. unfold canon_pair, shift_prog.
  destruct (cmin <? i) eqn:E1; destruct (j <? cmax) eqn:E2.
  - (* both ends move *)
    apply Nat.ltb_lt in E1, E2.
    replace (cmax <? j) with false by (symmetry; apply Nat.ltb_ge; lia).
    destruct (asc_from (i - cmin) cmin st ltac:(lia)) as [A1 A2].
    set (st1 := run_status (map LCanon (seq cmin (i - cmin))) st) in *.
    assert (H1 : length st1 = L) by (unfold st1; rewrite length_run_status; exact Hl).
    destruct (desc_to (cmax - j) j st1 ltac:(lia)) as [B1 B2].
    set (st2 := run_status (map RCanon (rev (seq (S j) (cmax - j)))) st1) in *.
    split; [cbn [fst]; unfold st2; rewrite length_run_status; exact H1|].
    exists i, j. cbn [fst snd]. repeat split; try lia.
    + intros k Hk. rewrite B2 by lia.
      destruct (Nat.lt_ge_cases k cmin) as [Hlt|Hge]; [rewrite A2 by lia; apply HL; exact Hlt | apply A1; lia].
    + intros k Hk. destruct (Nat.le_gt_cases k cmax) as [Hle|Hgt].
      * apply B1. lia.
      * rewrite B2 by lia. rewrite A2 by lia. apply HR. lia.
  - (* only the left end moves *)
    apply Nat.ltb_lt in E1. apply Nat.ltb_ge in E2.
    destruct (asc_from (i - cmin) cmin st ltac:(lia)) as [A1 A2].
    set (st1 := run_status (map LCanon (seq cmin (i - cmin))) st) in *.
    split; [cbn [fst]; unfold st1; rewrite length_run_status; exact Hl|].
    exists i, (Nat.max i cmax). cbn [fst snd]. repeat split; try lia.
    + intros k Hk.
      destruct (Nat.lt_ge_cases k cmin) as [Hlt|Hge]; [rewrite A2 by lia; apply HL; exact Hlt | apply A1; lia].
    + intros k Hk. rewrite A2 by lia. apply HR. lia.
  - (* only the right end moves *)
    apply Nat.ltb_ge in E1. apply Nat.ltb_lt in E2.
    replace (cmax <? j) with false by (symmetry; apply Nat.ltb_ge; lia).
    destruct (desc_to (cmax - j) j st ltac:(lia)) as [B1 B2].
    set (st2 := run_status (map RCanon (rev (seq (S j) (cmax - j)))) st) in *.
    split; [cbn [fst]; unfold st2; rewrite length_run_status; exact Hl|].
    exists (Nat.min j cmin), j. cbn [fst snd]. repeat split; try lia.
    + intros k Hk. rewrite B2 by lia. apply HL. lia.
    + intros k Hk. destruct (Nat.le_gt_cases k cmax) as [Hle|Hgt].
      * apply B1. lia.
      * rewrite B2 by lia. apply HR. lia.
  - (* nothing moves *)
    apply Nat.ltb_ge in E1, E2.
    split; [exact Hl|].
    exists (Nat.min j cmin), (Nat.max (Nat.min j cmin) cmax). cbn [fst snd]. repeat split; try lia.
    + intros k Hk. apply HL. lia.
    + intros k Hk. apply HR. lia.
Qed.

Lemma assume_spec lo hi st L : length st = L -> lo < L -> hi < L ->
  length (assume lo hi st) = L
  /\ (forall k, k < Nat.min lo hi -> nth k (assume lo hi st) SN = SL)
  /\ (forall k, Nat.max lo hi < k < L -> nth k (assume lo hi st) SN = SR).
Proof.
  intros Hl Hlo Hhi. unfold assume. rewrite Hl. split; [apply length_tab|]. split; intros k Hk.
  - rewrite nth_tab by lia. rewrite (proj2 (Nat.ltb_lt _ _) Hk). reflexivity.
  - rewrite nth_tab by lia.
    replace (k <? Nat.min lo hi) with false by (symmetry; apply Nat.ltb_ge; lia).
    rewrite (proj2 (Nat.ltb_lt (Nat.max lo hi) k) ltac:(lia)). reflexivity.
Qed.

(* canonicalize((w1, w2), info): whatever the record said (provided it was true), afterwards the
   record is a pair inside [min w, max w] that is true of the state *)
Lemma canonicalize_spec L dcalc w1 w2 calc s :
  inv L s -> w1 < L -> w2 < L -> fst calc < L -> snd calc < L ->
  canon_post L (Nat.min w1 w2) (Nat.max w1 w2) (canonicalize dcalc w1 w2 calc s).
Proof.
  intros [Hl Ht] H1 H2 Hc1 Hc2. destruct s as [st r0]. cbn [fst snd] in *.
  assert (Hij : Nat.min w1 w2 <= Nat.max w1 w2) by lia.
  assert (HjL : Nat.max w1 w2 < L) by lia.
  assert (CALC : canon_post L (Nat.min w1 w2) (Nat.max w1 w2)
            (canon_pair (Nat.min w1 w2) (Nat.max w1 w2) (Nat.min (fst calc) (snd calc))
               (Nat.max (fst calc) (snd calc)) (assume (fst calc) (snd calc) st))).
  { destruct (assume_spec (fst calc) (snd calc) st L Hl Hc1 Hc2) as (A0 & A1 & A2).
    apply canon_pair_spec; try assumption; lia. }
  assert (PAIR : forall a b, truthful L st (RPair a b) ->
            canon_post L (Nat.min w1 w2) (Nat.max w1 w2)
              (canon_pair (Nat.min w1 w2) (Nat.max w1 w2) (Nat.min a b) (Nat.max a b) st)).
  { intros a b (Ha & Hb & TL & TR). apply canon_pair_spec; try assumption; lia. }
  assert (NONE : canon_post L (Nat.min w1 w2) (Nat.max w1 w2)
            (run_status (right_canonize_prog (length st) (Nat.max w1 w2))
               (run_status (left_canonize_prog (Nat.min w1 w2)) st),
             RPair (Nat.min w1 w2) (Nat.max w1 w2))).
  { unfold left_canonize_prog, right_canonize_prog. rewrite Hl.
    destruct (asc_from (Nat.min w1 w2) 0 st ltac:(lia)) as [A1 A2].
    set (st1 := run_status (map LCanon (seq 0 (Nat.min w1 w2))) st) in *.
    assert (Hl1 : length st1 = L) by (unfold st1; rewrite length_run_status; exact Hl).
    destruct (desc_to (L - 1 - Nat.max w1 w2) (Nat.max w1 w2) st1 ltac:(lia)) as [B1 B2].
    set (st2 := run_status (map RCanon (rev (seq (S (Nat.max w1 w2)) (L - 1 - Nat.max w1 w2)))) st1) in *.
    split; [cbn [fst]; unfold st2; rewrite length_run_status; exact Hl1|].
    exists (Nat.min w1 w2), (Nat.max w1 w2). cbn [fst snd]. repeat split; try lia.
    - intros k Hk. rewrite B2 by lia. apply A1. lia.
    - intros k Hk. apply B1. lia. }
  unfold canonicalize.
  destruct r0 as [| | |a b]; cbn [truthful] in Ht.
  - destruct dcalc; [exact CALC | exact NONE].
  - exact NONE.
  - exact CALC.
  - apply PAIR. exact Ht.
Qed.

Lemma canonicalize_inv L dcalc w1 w2 calc s :
  inv L s -> w1 < L -> w2 < L -> fst calc < L -> snd calc < L ->
  inv L (canonicalize dcalc w1 w2 calc s).
Proof.
  intros. apply (canon_post_inv L (Nat.min w1 w2) (Nat.max w1 w2)); [lia|].
  apply canonicalize_spec; assumption.
Qed.

(* after canonicalize the state is canonical around the whole requested range *)
Lemma canonicalize_covers L dcalc w1 w2 calc s :
  inv L s -> w1 < L -> w2 < L -> fst calc < L -> snd calc < L ->
  let s' := canonicalize dcalc w1 w2 calc s in
  (forall k, k < Nat.min w1 w2 -> nth k (fst s') SN = SL)
  /\ (forall k, Nat.max w1 w2 < k < L -> nth k (fst s') SN = SR).
Proof.
  intros Hi H1 H2 H3 H4 s'.
  destruct (canonicalize_spec L dcalc w1 w2 calc s Hi H1 H2 H3 H4) as [_ (i1 & j1 & _ & A & B & C & HL & HR)].
  split; intros k Hk; [apply HL | apply HR]; lia.
Qed.

(* ---- sub-operator application ---- *)
Lemma submpo_spec L w1 w2 (rev : bool) calc s :
  inv L s -> w1 < L -> w2 < L -> fst calc < L -> snd calc < L ->
  let c := if rev then Nat.max w1 w2 else Nat.min w1 w2 in
  let s' := submpo w1 w2 rev calc s in
  length (fst s') = L /\ snd s' = RPair c c /\ canonical_around c L (fst s').
Proof.
  intros Hi H1 H2 H3 H4 c s'. subst c s'. unfold submpo.
  set (si := Nat.min w1 w2). set (sf := Nat.max w1 w2).
  assert (Hsi : si < L) by (unfold si; lia). assert (Hsf : sf < L) by (unfold sf; lia).
  assert (Hle : si <= sf) by (unfold si, sf; lia).
  pose proof (canonicalize_spec L false si sf calc s Hi Hsi Hsf H3 H4) as [Hl _].
  destruct (canonicalize_covers L false si sf calc s Hi Hsi Hsf H3 H4) as [CL CR].
  rewrite (Nat.min_l si sf) in CL by exact Hle. rewrite (Nat.max_r si sf) in CR by exact Hle.
  set (s1 := canonicalize false si sf calc s) in *.
  cbn [fst snd]. unfold region_set. rewrite Hl.
  split; [apply length_tab|]. split; [destruct rev; reflexivity|].
  destruct rev; split; intros k Hk; rewrite nth_tab by lia.
  - (* reversed, k < sf *)
    destruct (Nat.lt_ge_cases k si) as [Hlt|Hge].
    + replace (si <=? k) with false by (symmetry; apply Nat.leb_gt; lia). cbn [andb]. apply CL. exact Hlt.
    + rewrite (proj2 (Nat.leb_le si k) Hge), (proj2 (Nat.leb_le k sf) ltac:(lia)). cbn [andb].
      rewrite (proj2 (Nat.ltb_lt k sf) Hk). reflexivity.
  - replace (k <=? sf) with false by (symmetry; apply Nat.leb_gt; lia). rewrite andb_false_r. apply CR. lia.
  - replace (si <=? k) with false by (symmetry; apply Nat.leb_gt; lia). cbn [andb]. apply CL. exact Hk.
  - destruct (Nat.le_gt_cases k sf) as [Hle2|Hgt].
    + rewrite (proj2 (Nat.leb_le si k) ltac:(lia)), (proj2 (Nat.leb_le k sf) Hle2). cbn [andb].
      rewrite (proj2 (Nat.ltb_lt si k) ltac:(lia)). reflexivity.
    + replace (k <=? sf) with false by (symmetry; apply Nat.leb_gt; lia). rewrite andb_false_r. apply CR. lia.
Qed.

Lemma submpo_inv L w1 w2 (rev : bool) calc s :
  inv L s -> w1 < L -> w2 < L -> fst calc < L -> snd calc < L -> inv L (submpo w1 w2 rev calc s).
Proof.
  intros Hi H1 H2 H3 H4.
  destruct (submpo_spec L w1 w2 rev calc s Hi H1 H2 H3 H4) as (Hl & Hr & HL & HR).
  split; [exact Hl|]. rewrite Hr. cbn [truthful]. rewrite Nat.min_id, Nat.max_id.
  assert ((if rev then Nat.max w1 w2 else Nat.min w1 w2) < L) by (destruct rev; lia).
  repeat split; assumption.
Qed.

(* the direction matters: after a REVERSED sweep over a region of at least two sites, the
   record of the forward sweep, (si, si), claims isometries that nothing guarantees *)
Lemma submpo_reverse_first_site_record_false L w1 w2 calc s :
  inv L s -> w1 < L -> w2 < L -> w1 <> w2 -> fst calc < L -> snd calc < L ->
  ~ truthful L (fst (submpo w1 w2 true calc s)) (RPair (Nat.min w1 w2) (Nat.min w1 w2)).
Proof.
  intros Hi H1 H2 Hne H3 H4 (_ & _ & _ & TR).
  destruct (submpo_spec L w1 w2 true calc s Hi H1 H2 H3 H4) as (Hl & _ & HL & _).
  cbn [fst snd] in *. rewrite Nat.max_id in TR.
  set (si := Nat.min w1 w2) in *. set (sf := Nat.max w1 w2) in *.
  assert (Hlt : si < sf) by (unfold si, sf; lia).
  assert (Hk : si < S si < L) by (unfold sf in Hlt; lia).
  specialize (TR (S si) Hk).
  destruct (Nat.eq_dec (S si) sf) as [E|E].
  - (* the neighbour is the centre: no guarantee at all *)
    revert TR. unfold submpo. fold si sf. cbn [fst]. unfold region_set.
    pose proof (canonicalize_spec L false si sf calc s Hi ltac:(unfold si; lia) ltac:(unfold sf; lia) H3 H4) as [Hl1 _].
    rewrite Hl1. rewrite nth_tab by lia.
    rewrite (proj2 (Nat.leb_le si (S si)) ltac:(lia)), (proj2 (Nat.leb_le (S si) sf) ltac:(lia)). cbn [andb].
    replace (S si <? sf) with false by (symmetry; apply Nat.ltb_ge; lia). discriminate.
  - rewrite (HL (S si)) in TR by lia. discriminate.
Qed.

(* ---- expectation values ---- *)
Lemma Forall_insert_by (P : nat * nat -> Prop) key x l : P x -> Forall P l -> Forall P (insert_by key x l).
Proof.
  intros Hx Hl. induction Hl as [|y t Hy Ht IH]; cbn; [constructor; [exact Hx | constructor]|].
  destruct (key x <=? key y); repeat constructor; assumption.
Qed.
Lemma Forall_isort (P : nat * nat -> Prop) key l : Forall P l -> Forall P (isort key l).
Proof. induction 1; cbn; [constructor | apply Forall_insert_by; assumption]. Qed.

Definition site_ok (L : nat) (w : nat * nat) : Prop := fst w < L /\ snd w < L.

Lemma fold_canon_inv L calc : fst calc < L -> snd calc < L -> forall ws s,
  Forall (site_ok L) ws -> inv L s ->
  inv L (fold_left (fun s w => canonicalize true (fst w) (snd w) calc s) ws s).
Proof.
  intros H3 H4. induction ws as [|w t IH]; intros s Hw Hi; cbn [fold_left]; [exact Hi|].
  inversion Hw as [|? ? [Ha Hb] Ht]; subst. apply IH; [exact Ht|].
  apply canonicalize_inv; assumption.
Qed.

Lemma expec_inplace_inv L terms calc s :
  inv L s -> Forall (site_ok L) terms -> fst calc < L -> snd calc < L -> inv L (expec_inplace terms calc s).
Proof.
  intros Hi Ht H3 H4. unfold expec_inplace. apply fold_canon_inv; try assumption.
  unfold term_order. destruct (snd s); apply Forall_isort; exact Ht.
Qed.

(* ---- every history ---- *)
Definition op_ok (L : nat) (o : op) : Prop :=
  match o with
  | OCanon w1 w2 c => w1 < L /\ w2 < L /\ fst c < L /\ snd c < L
  | OSub w1 w2 _ c => w1 < L /\ w2 < L /\ fst c < L /\ snd c < L
  | OExpCopy => True
  | OExpIn terms c => Forall (site_ok L) terms /\ fst c < L /\ snd c < L
  end.

Lemma apply_op_inv L o s : inv L s -> op_ok L o -> inv L (apply_op o s).
Proof.
  intros Hi Ho. destruct o as [w1 w2 c|w1 w2 rev c| |terms c]; cbn [apply_op op_ok] in *.
  - destruct Ho as (A & B & C & D). apply canonicalize_inv; assumption.
  - destruct Ho as (A & B & C & D). apply submpo_inv; assumption.
  - exact Hi.
  - destruct Ho as (A & C & D). apply expec_inplace_inv; assumption.
Qed.

Theorem record_truthful_every_history L : forall ops s,
  inv L s -> Forall (op_ok L) ops -> inv L (run_ops ops s).
Proof.
  induction ops as [|o t IH]; intros s Hi Ho; [exact Hi|].
  inversion Ho; subst. unfold run_ops. cbn [fold_left]. apply IH; [|assumption].
  apply apply_op_inv; assumption.
Qed.

(* a state about which nothing is guaranteed admits only the trivial record: writing the moved
   centre of a COPY into the caller's record (inplace=False without copying `info`) is false *)
Lemma generic_only_trivial_record L a b :
  truthful L (generic L) (RPair a b) -> Nat.min a b = 0 /\ L - 1 <= Nat.max a b.
Proof.
  intros (Ha & Hb & TL & TR). unfold generic in *. split.
  - destruct (Nat.min a b) eqn:E; [reflexivity|]. specialize (TL 0 ltac:(lia)).
    destruct L; [lia|]. cbn in TL. discriminate.
  - destruct (Nat.le_gt_cases (L - 1) (Nat.max a b)) as [H|H]; [exact H|].
    specialize (TR (L - 1) ltac:(lia)). rewrite nth_repeat in TR. discriminate.
Qed.

(* the states the observed histories start from satisfy the invariant *)
Definition rcd_in_range (L : nat) (r : rcd) : Prop :=
  match r with RPair a b => a < L /\ b < L | _ => True end.

Lemma init_state_inv L r : rcd_in_range L r -> inv L (init_state L r).
Proof.
  intros Hr. assert (Hg : length (generic L) = L) by apply repeat_length.
  destruct r as [| | |a b]; cbn [init_state]; try (split; [exact Hg | exact I]).
  destruct Hr as [Ha Hb]. destruct (assume_spec a b (generic L) L Hg Ha Hb) as (A0 & A1 & A2).
  split; [exact A0|]. cbn [fst snd truthful]. repeat split; assumption.
Qed.

Theorem record_truthful_from_any_start L r ops :
  rcd_in_range L r -> Forall (op_ok L) ops -> inv L (run_ops ops (init_state L r)).
Proof. intros Hr Ho. apply record_truthful_every_history; [apply init_state_inv; exact Hr | exact Ho]. Qed.

(* C09 - executable definitions only.

   (A) dense linear algebra on row-major lists of Gaussian integers, used to build the
       EXPECTED result of an MPS/MPO operation from the dense forms of its INPUTS;
   (B) the array-level direct sum (array_direct_product: pad + add) used by MPS/MPO addition;
   (C) the bond / isometry-status machine of the 1D canonise / compress sweeps
       (TensorNetwork1DFlat.left_canonize, right_canonize, left_compress, right_compress,
       compress(form)) with the truncation count rule of decomp._trim_and_renorm_svd_result;
   (D) the plan of TensorNetwork.multiply (how many tensors are touched, when it raises);
   (E) dense forms of the named states / operators. *)
From Coq Require Import ZArith Arith List Bool PeanoNat.
From QV Require Import Base.Sums Base.TN Base.TNExec.
Import ListNotations.

(* ---------------------------------------------------------------- (A) *)
Definition gsum (l : list G) : G := fold_right gadd g0 l.

Fixpoint map2 {A B C : Type} (f : A -> B -> C) (a : list A) (b : list B) : list C :=
  match a, b with x :: a', y :: b' => f x y :: map2 f a' b' | _, _ => [] end.

Definition vadd (a b : list G) : list G := map2 gadd a b.
Definition vsub (a b : list G) : list G := map2 gsub a b.
Definition vscale (c : G) (a : list G) : list G := map (gmul c) a.
Definition vconj (a : list G) : list G := map gconj a.
Definition gdot (a b : list G) : G := gsum (map2 gmul a b).          (* sum a_i b_i, no conjugation *)
Definition vdot (a b : list G) : G := gdot (vconj a) b.              (* <a|b> *)
Definition same_len (a b : list G) : bool := Nat.eqb (length a) (length b).

(* n rows of length m *)
Fixpoint chunks (m n : nat) (l : list G) : list (list G) :=
  match n with O => [] | S n' => firstn m l :: chunks m n' (skipn m l) end.

(* n x m matrix times vector of length m *)
Definition matvec (n m : nat) (M v : list G) : list G := map (fun row => gdot row v) (chunks m n M).
(* transpose of an n x m matrix (result m x n) *)
Definition mtranspose (n m : nat) (M : list G) : list G :=
  flat_map (fun j => map (fun i => nth (i * m + j) M g0) (seq 0 n)) (seq 0 m).
(* (n x m) . (m x p) *)
Definition matmul (n m p : nat) (A B : list G) : list G :=
  let cols := chunks m p (mtranspose m p B) in
  flat_map (fun row => map (fun col => gdot row col) cols) (chunks m n A).
Definition mtrace (n : nat) (M : list G) : G := gsum (map (fun i => nth (i * n + i) M g0) (seq 0 n)).
Definition kronv (a b : list G) : list G := flat_map (fun x => map (gmul x) b) a.
(* Kronecker product of row-major matrices (ra x ca) (x) (rb x cb) *)
Definition kronm (ra ca rb cb : nat) (A B : list G) : list G :=
  flat_map (fun i => flat_map (fun k =>
    flat_map (fun j => map (fun l => gmul (nth (i * ca + j) A g0) (nth (k * cb + l) B g0)) (seq 0 cb)) (seq 0 ca))
    (seq 0 rb)) (seq 0 ra).
Definition identm (n : nat) : list G :=
  flat_map (fun i => map (fun j => if Nat.eqb i j then g1 else g0) (seq 0 n)) (seq 0 n).
Definition onehot (n k : nat) : list G := map (fun i => if Nat.eqb i k then g1 else g0) (seq 0 n).
Definition prodn (l : list nat) : nat := fold_right Nat.mul 1 l.

(* partial trace of |psi><psi| : rho[r, c] = sum_t psi(r,t) conj psi(c,t);  mask: site kept? *)
Fixpoint merge (mask : list bool) (r t : list nat) : list nat :=
  match mask with
  | [] => []
  | true :: m => match r with x :: r' => x :: merge m r' t | [] => [] end
  | false :: m => match t with x :: t' => x :: merge m r t' | [] => [] end
  end.
Fixpoint pick (mask : list bool) (l : list nat) (b : bool) : list nat :=
  match mask, l with
  | m :: mask', x :: l' => if Bool.eqb m b then x :: pick mask' l' b else pick mask' l' b
  | _, _ => []
  end.
Definition ptrace_keep (dims : list nat) (mask : list bool) (psi : list G) : list G :=
  let kd := pick mask dims true in
  let td := pick mask dims false in
  let nk := prodn kd in
  let nt := prodn td in
  let amp r t := nth (ravel dims (merge mask (unravel kd r) (unravel td t))) psi g0 in
  flat_map (fun r => map (fun c =>
    gsum (map (fun t => gmul (amp r t) (gconj (amp c t))) (seq 0 nt))) (seq 0 nk)) (seq 0 nk).

(* partial transpose of an operator given as a tensor over (upper dims ++ lower dims):
   on the masked sites the upper and lower values are exchanged *)
Fixpoint swap_masked (mask : list bool) (u d : list nat) : list nat * list nat :=
  match mask, u, d with
  | m :: mask', x :: u', y :: d' =>
      let '(uu, dd) := swap_masked mask' u' d' in
      if m then (y :: uu, x :: dd) else (x :: uu, y :: dd)
  | _, _, _ => ([], [])
  end.
Definition ptranspose (dims : list nat) (mask : list bool) (M : list G) : list G :=
  let n := prodn dims in
  flat_map (fun r => map (fun c =>
    let '(u, d) := swap_masked mask (unravel dims r) (unravel dims c) in
    nth (ravel dims u * n + ravel dims d) M g0) (seq 0 n)) (seq 0 n).

(* ---------------------------------------------------------------- (B) *)
(* site arrays normalised to rank 3 (left bond, right bond, physical); a boundary
   tensor has a dummy bond of size 1 that is NOT padded (it is absent in the code). *)
Definition aget3 (shape : list nat) (data : list G) (i j p : nat) : G := nth (ravel shape [i; j; p]) data g0.

Definition dsum_entry (padL padR : bool) (ra ca : nat) (A B : nat -> nat -> nat -> G) (i j p : nat) : G :=
  let inAl := if padL then Nat.ltb i ra else true in
  let inBl := if padL then negb (Nat.ltb i ra) else true in
  let inAr := if padR then Nat.ltb j ca else true in
  let inBr := if padR then negb (Nat.ltb j ca) else true in
  gadd (if inAl && inAr then A i j p else g0)
       (if inBl && inBr then B (if padL then i - ra else i) (if padR then j - ca else j) p else g0).

Definition nat_list_eqb (a b : list nat) : bool :=
  (Nat.eqb (length a) (length b)) && forallb (fun p => Nat.eqb (fst p) (snd p)) (combine a b).

(* the implementation's summed site array equals the direct sum of the two input site arrays *)
Definition site_sum_check (padL padR : bool) (shA : list nat) (dA : list G) (shB : list nat) (dB : list G)
    (shS : list nat) (dS : list G) : bool :=
  match shA, shB with
  | [ra; ca; pa], [rb; cb; pb] =>
      let expect := [ (if padL then ra + rb else ra); (if padR then ca + cb else ca); pa ] in
      nat_list_eqb shS expect && Nat.eqb pa pb && Nat.eqb (length dS) (prodn expect) &&
      forallb (fun i => forallb (fun j => forallb (fun p =>
        geqb (aget3 shS dS i j p) (dsum_entry padL padR ra ca (aget3 shA dA) (aget3 shB dB) i j p))
        (seq 0 pa)) (seq 0 (nth 1 expect 0))) (seq 0 (nth 0 expect 0))
  | _, _ => false
  end.

(* ---------------------------------------------------------------- (C) *)
(* number of singular values kept (decomp._trim_and_renorm_svd_result and its numba twin):
   cnt = Some c : dynamic truncation requested (cutoff > 0), c = number of values above the
   threshold (a numerical fact, c <= d);  cnt = None : cutoff = 0.
   D = 0 encodes max_bond None / -1 ("max_bond > 0" is false). *)
Definition nchi (cnt : option nat) (D d : nat) : nat :=
  match cnt with
  | Some c => let n := Nat.max (Nat.min c d) 1 in if Nat.ltb 0 D then Nat.min n D else n
  | None => if Nat.ltb 0 D && Nat.ltb D d then D else d
  end.

Inductive status := SL | SR | SN.     (* left isometry / right isometry / not isometric *)
Definition status_eqb (a b : status) : bool :=
  match a, b with SL, SL | SR, SR | SN, SN => true | _, _ => false end.

Inductive step :=
| LCanon (i : nat)                       (* left_canonize_site i : QR of site i, R into i+1 *)
| RCanon (i : nat)                       (* right_canonize_site i: LQ of site i, L into i-1 *)
| LComp (i : nat) (cnt : option nat) (both : bool)   (* left_compress_site i  (reduced='left')  *)
| RComp (i : nat) (cnt : option nat) (both : bool).  (* right_compress_site i (reduced='right') *)

Fixpoint lset {A : Type} (l : list A) (i : nat) (v : A) : list A :=
  match l, i with
  | [], _ => []
  | _ :: t, O => v :: t
  | x :: t, S j => x :: lset t j v
  end.
(* bond to the left / right of site i; bonds = [b_0 .. b_{L-2}], b_k joins sites k and k+1 *)
Definition lbond (b : list nat) (i : nat) : nat := match i with O => 1 | S j => nth j b 1 end.
Definition rbond (b : list nat) (i : nat) : nat := nth i b 1.

Definition step_bonds (p : list nat) (D : nat) (b : list nat) (s : step) : list nat :=
  match s with
  | LCanon i => lset b i (Nat.min (lbond b i * nth i p 1) (rbond b i))
  | RCanon i => match i with O => b | S j => lset b j (Nat.min (lbond b i) (nth i p 1 * rbond b i)) end
  | LComp i cnt _ => lset b i (nchi cnt D (Nat.min (lbond b i * nth i p 1) (rbond b i)))
  | RComp i cnt _ => match i with O => b | S j => lset b j (nchi cnt D (Nat.min (lbond b i) (nth i p 1 * rbond b i))) end
  end.

(* isometry status after each step, given the contracts "QR / SVD factor is an isometry" *)
Definition step_status (st : list status) (s : step) : list status :=
  match s with
  | LCanon i => lset (lset st i SL) (S i) SN
  | RCanon i => match i with O => st | S j => lset (lset st i SR) j SN end
  | LComp i _ both => if both then lset (lset st i SN) (S i) SN else lset (lset st i SL) (S i) SN
  | RComp i _ both => match i with O => st | S j => if both then lset (lset st i SN) j SN else lset (lset st i SR) j SN end
  end.

Definition run_bonds (p : list nat) (D : nat) (prog : list step) (b : list nat) : list nat :=
  fold_left (step_bonds p D) prog b.
Definition run_status (prog : list step) (st : list status) : list status := fold_left step_status prog st.

(* the sweep programs exactly as the Python loops enumerate them *)
Definition left_canonize_prog (stop : nat) : list step := map LCanon (seq 0 stop).            (* range(0, stop) *)
Definition right_canonize_prog (L stop : nat) : list step :=                                  (* range(L-1, stop, -1) *)
  map RCanon (rev (seq (S stop) (L - 1 - stop))).
Definition left_compress_prog (cnt : nat -> option nat) (both : bool) (stop : nat) : list step :=
  map (fun i => LComp i (cnt i) both) (seq 0 stop).
Definition right_compress_prog (cnt : nat -> option nat) (both : bool) (L stop : nat) : list step :=
  map (fun i => RComp i (cnt i) both) (rev (seq (S stop) (L - 1 - stop))).

Inductive form := FRight | FLeft | FFlat | FCenter (c : nat).

(* TensorNetwork1DFlat.compress(form, **opts) for an open chain of L sites *)
Definition compress_prog (f : form) (L : nat) (cnt : nat -> option nat) : list step :=
  match f with
  | FRight => left_canonize_prog (L - 1) ++ right_compress_prog cnt false L 0
  | FLeft => right_canonize_prog L 0 ++ left_compress_prog cnt false (L - 1)
  | FFlat => right_compress_prog cnt true L (L / 2) ++ left_compress_prog cnt true (L / 2)
  | FCenter c =>
      if Nat.ltb c (L / 2)
      then left_canonize_prog (L - 1) ++ right_compress_prog cnt false L 0 ++ left_canonize_prog c
      else right_canonize_prog L 0 ++ left_compress_prog cnt false (L - 1) ++ right_canonize_prog L c
  end.

Definition no_cut : nat -> option nat := fun _ => None.

(* correspondence helper: predicted bond sizes of mps.compress(form, max_bond=D, cutoff=0) *)
Definition compress_bonds_check (f : form) (p b : list nat) (D : nat) (impl : list nat) : bool :=
  nat_list_eqb (run_bonds p D (compress_prog f (length p) no_cut) b) impl.

(* ---------------------------------------------------------------- (D) *)
(* TensorNetwork.multiply(x, spread_over): k = min(num_tensors, spread_over) tensors are
   multiplied; for k > 1 and a REAL x the sign x/|x| is computed, which divides by zero for x = 0 *)
Inductive mres := MOk (k : nat) | MRaises.
Definition multiply_plan (ntensors spread : nat) (is_complex is_zero : bool) : mres :=
  let k := Nat.min ntensors spread in
  if Nat.eqb k 1 then MOk 1
  else if is_complex then MOk k
  else if is_zero then MRaises else MOk k.
Definition mres_touched (r : mres) (k : nat) : bool := match r with MOk k' => Nat.eqb k k' | MRaises => false end.

(* ---------------------------------------------------------------- (E) *)
Fixpoint kron_all (vs : list (list G)) : list G :=
  match vs with [] => [g1] | v :: t => kronv v (kron_all t) end.
(* computational basis state of the digit string (qubits) *)
Definition comp_dense (digits : list nat) : list G :=
  kron_all (map (fun d => onehot 2 d) digits).
Definition neel_digits (L : nat) (down_first : bool) : list nat :=
  map (fun i => if Nat.even i then (if down_first then 1 else 0) else (if down_first then 0 else 1)) (seq 0 L).
(* GHZ * sqrt 2 and W * sqrt L : integer vectors *)
Definition ghz_dense (L : nat) : list G :=
  vadd (comp_dense (repeat 0 L)) (comp_dense (repeat 1 L)).
Definition w_dense (L : nat) : list G :=
  fold_right vadd (map (fun _ => g0) (seq 0 (2 ^ L)))
    (map (fun i => comp_dense (map (fun j => if Nat.eqb i j then 1 else 0) (seq 0 L))) (seq 0 L)).
(* Kronecker product of square matrices given with their sizes *)
Fixpoint kronm_all (ms : list (nat * list G)) : nat * list G :=
  match ms with
  | [] => (1, [g1])
  | (n, M) :: t => let '(n', M') := kronm_all t in (n * n', kronm n n n' n' M M')
  end.

(* C09 - executable definitions only: the canonical-centre RECORD info["cur_orthog"] that
   the sub-operator application routines and the canonical-form expectation routines of
   MatrixProductState read and write (quimb/tensor/tn1d/core.py), on top of the isometry
   status machine of C09/Model.v part C (SL / SR / SN per site, LCanon / RCanon steps).

   A history is a list of library calls that share ONE caller-supplied `info` dict:
     canonicalize[_](where, info=info)
     gate_with_submpo / gate_nonlocal(..., sweep_reverse=rev, info=info)   (every method but 'lazy')
     compute_local_expectation(terms, info=info, inplace=False)  /  method='envs'
     compute_local_expectation(terms, info=info, inplace=True), local_expectation_canonical,
       partial_trace_to_dense_canonical
   The statuses are GUARANTEES (a site marked SL is a left isometry given the contracts
   "QR / LQ factors are isometries", "the 1D compression of a region leaves the canonical
   form its sweep direction promises", "calc_current_orthog_center reports true facts");
   a site marked SN carries no guarantee. *)
From Coq Require Import Arith List Bool PeanoNat.
From QV Require Import C09.Model.
Import ListNotations.

(* info["cur_orthog"]: key missing | None | "calc" | (a, b) *)
Inductive rcd := RUnset | RNone | RCalc | RPair (a b : nat).

Definition rcd_eqb (x y : rcd) : bool :=
  match x, y with
  | RUnset, RUnset | RNone, RNone | RCalc, RCalc => true
  | RPair a b, RPair c d => Nat.eqb a c && Nat.eqb b d
  | _, _ => false
  end.

Definition mstate := (list status * rcd)%type.

Definition tab (L : nat) (f : nat -> status) : list status := map f (seq 0 L).

(* calc_current_orthog_center() = (lo, hi) was consulted: sites < lo ARE left isometries,
   sites > hi ARE right isometries (a measurement of the state, so a fact about it) *)
Definition assume (lo hi : nat) (st : list status) : list status :=
  tab (length st) (fun k => if k <? Nat.min lo hi then SL else if Nat.max lo hi <? k then SR else nth k st SN).

(* shift_orthogonality_center(current, new) *)
Definition shift_prog (cur new : nat) : list step :=
  if cur <? new then map LCanon (seq cur (new - cur))          (* for i in range(current, new)      *)
  else map RCanon (rev (seq (S new) (cur - new))).             (* for i in range(current, new, -1)  *)

(* the body of canonicalize once the current centre range (cmin, cmax) is known *)
Definition canon_pair (i j cmin cmax : nat) (st : list status) : mstate :=
  let '(st1, i1) := if cmin <? i then (run_status (shift_prog cmin i) st, i) else (st, Nat.min j cmin) in
  let '(st2, j1) := if j <? cmax then (run_status (shift_prog cmax j) st1, j) else (st1, Nat.max i1 cmax) in
  (st2, RPair i1 j1).

(* TensorNetwork1DFlat.canonicalize(where=(w1, w2), info=info).  dcalc = what setdefault
   installs when the key is missing: true = "calc" (canonicalize is the entry point), false =
   None (the entry point is wrapped by convert_cur_orthog).  calc = what calc_current_orthog_center
   returns if it is consulted. *)
Definition canonicalize (dcalc : bool) (w1 w2 : nat) (calc : nat * nat) (s : mstate) : mstate :=
  let '(st, r0) := s in
  let L := length st in
  let i := Nat.min w1 w2 in
  let j := Nat.max w1 w2 in
  let r := match r0 with RUnset => if dcalc then RCalc else RNone | _ => r0 end in
  match r with
  | RPair a b => canon_pair i j (Nat.min a b) (Nat.max a b) st
  | RNone => (run_status (right_canonize_prog L j) (run_status (left_canonize_prog i) st), RPair i j)
  | _ => canon_pair i j (Nat.min (fst calc) (snd calc)) (Nat.max (fst calc) (snd calc))
                    (assume (fst calc) (snd calc) st)
  end.

(* the region si..sf after tensor_network_1d_compress(sub network, sweep_reverse=rev):
   not reversed: centre on si, sites si+1..sf right isometries;
   reversed:     sites si..sf-1 left isometries, centre on sf *)
Definition region_set (si sf : nat) (rev : bool) (st : list status) : list status :=
  tab (length st) (fun k =>
    if (si <=? k) && (k <=? sf)
    then (if rev then (if k <? sf then SL else SN) else (if si <? k then SR else SN))
    else nth k st SN).

(* gate_with_submpo(submpo, where, method != 'lazy', info=info, sweep_reverse=rev) *)
Definition submpo (w1 w2 : nat) (rev : bool) (calc : nat * nat) (s : mstate) : mstate :=
  let si := Nat.min w1 w2 in
  let sf := Nat.max w1 w2 in
  let s1 := canonicalize false si sf calc s in
  (region_set si sf rev (fst s1), if rev then RPair sf sf else RPair si si).

(* stable sort by a key, as Python's sorted() *)
Fixpoint insert_by (key : nat * nat -> nat) (x : nat * nat) (l : list (nat * nat)) : list (nat * nat) :=
  match l with
  | [] => [x]
  | y :: t => if key x <=? key y then x :: y :: t else y :: insert_by key x t
  end.
Fixpoint isort (key : nat * nat -> nat) (l : list (nat * nat)) : list (nat * nat) :=
  match l with [] => [] | x :: t => insert_by key x (isort key t) end.

Definition absdiff (a b : nat) : nat := (a - b) + (b - a).
Definition min_site (w : nat * nat) : nat := Nat.min (fst w) (snd w).

(* compute_local_expectation_canonical(terms, info=info, inplace=True): the order in which
   the terms are visited (a recorded tuple: closest to cur_orthog[0] first; otherwise by the
   smallest site), then one canonicalize_ per term *)
Definition term_order (r : rcd) (terms : list (nat * nat)) : list (nat * nat) :=
  match r with
  | RPair a _ => isort (fun w => absdiff (min_site w) a) terms
  | _ => isort min_site terms
  end.

Definition expec_inplace (terms : list (nat * nat)) (calc : nat * nat) (s : mstate) : mstate :=
  fold_left (fun s w => canonicalize true (fst w) (snd w) calc s) (term_order (snd s) terms) s.

Inductive op :=
| OCanon (w1 w2 : nat) (calc : nat * nat)
| OSub (w1 w2 : nat) (rev : bool) (calc : nat * nat)
| OExpCopy                                    (* inplace=False (works on copies of state AND record), method='envs' *)
| OExpIn (terms : list (nat * nat)) (calc : nat * nat).

Definition apply_op (o : op) (s : mstate) : mstate :=
  match o with
  | OCanon w1 w2 calc => canonicalize true w1 w2 calc s
  | OSub w1 w2 rev calc => submpo w1 w2 rev calc s
  | OExpCopy => s
  | OExpIn terms calc => expec_inplace terms calc s
  end.

Definition run_ops (ops : list op) (s : mstate) : mstate := fold_left (fun s o => apply_op o s) ops s.

(* ---- correspondence helpers ---- *)
(* every guarantee of the model is true of the measured state (liso / riso: is site k
   measured to be a left / right isometry) *)
Definition guaranteed_ok (st : list status) (liso riso : list bool) : bool :=
  forallb (fun k => match nth k st SN with
                    | SL => nth k liso false
                    | SR => nth k riso false
                    | SN => true
                    end) (seq 0 (length st)).

(* one observed call of a history: the model is run through the calls made before it, then the
   implementation's record after the call must equal the model's and the model's guarantees
   must hold of the measured state *)
Definition step_check (s0 : mstate) (before : list op) (o : op) (r : rcd) (li ri : list bool) : bool :=
  let s' := apply_op o (run_ops before s0) in
  rcd_eqb (snd s') r && guaranteed_ok (fst s') li ri.

Definition generic (L : nat) : list status := repeat SN L.

(* the state a history starts from: nothing known (RUnset / RNone / RCalc) or a record that the
   harness has measured to be true of the initial state *)
Definition init_state (L : nat) (r : rcd) : mstate :=
  match r with
  | RPair a b => (assume a b (generic L), r)
  | _ => (generic L, r)
  end.

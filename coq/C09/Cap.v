(* C09 - the bond-cap and canonical-form invariants of the 1D sweep programs
   (C09/Model.v part C), for every chain length, all physical / bond dimensions, every
   numerical outcome of the dynamic cutoff (the counts carried by the steps), every
   history of steps. *)
From Coq Require Import Arith List Bool Lia PeanoNat.
From QV Require Import C09.Model.
Import ListNotations.

Lemma nth_lset {A : Type} (l : list A) : forall i v j d,
  nth j (lset l i v) d = if Nat.eqb j i && Nat.ltb i (length l) then v else nth j l d.
Proof.
  induction l as [|x t IH]; intros i v j d.
  - cbn. rewrite andb_false_r. reflexivity.
  - destruct i as [|i]; destruct j as [|j]; cbn [lset nth Nat.eqb andb length]; try reflexivity.
    rewrite IH. reflexivity.
Qed.

Lemma length_lset {A : Type} (l : list A) : forall i v, length (lset l i v) = length l.
Proof. induction l as [|x t IH]; intros [|i] v; cbn; try reflexivity. rewrite IH. reflexivity. Qed.

(* ---- the truncation count -------------------------------------------- *)
Lemma nchi_le_cap cnt D d : 0 < D -> nchi cnt D d <= D.
Proof.
  intros HD. unfold nchi. destruct cnt as [c|].
  - rewrite (proj2 (Nat.ltb_lt 0 D) HD). apply Nat.le_min_r.
  - rewrite (proj2 (Nat.ltb_lt 0 D) HD). cbn [andb].
    destruct (Nat.ltb D d) eqn:E; [lia|]. apply Nat.ltb_ge in E. exact E.
Qed.

Lemma nchi_le_rank cnt D d : 1 <= d -> nchi cnt D d <= d.
Proof.
  intros Hd. unfold nchi. destruct cnt as [c|].
  - destruct (Nat.ltb 0 D); lia.
  - destruct (Nat.ltb 0 D && Nat.ltb D d) eqn:E; [|lia].
    apply andb_true_iff in E. destruct E as [_ E]. apply Nat.ltb_lt in E. lia.
Qed.

Lemma nchi_pos cnt D d : 1 <= d -> 1 <= nchi cnt D d.
Proof.
  intros Hd. unfold nchi. destruct cnt as [c|].
  - destruct (Nat.ltb 0 D) eqn:E; [apply Nat.ltb_lt in E|]; lia.
  - destruct (Nat.ltb 0 D && Nat.ltb D d) eqn:E; [|lia].
    apply andb_true_iff in E. destruct E as [E _]. apply Nat.ltb_lt in E. lia.
Qed.

(* with no cap and no cutoff nothing is discarded; with a cap that is not smaller than the
   rank and no cutoff nothing is discarded either *)
Lemma nchi_no_truncation D d : (D = 0 \/ d <= D) -> nchi None D d = d.
Proof.
  intros H. unfold nchi. destruct (Nat.ltb 0 D && Nat.ltb D d) eqn:E; [|reflexivity].
  apply andb_true_iff in E. destruct E as [E1 E2]. apply Nat.ltb_lt in E1, E2. lia.
Qed.

(* ---- bonds ------------------------------------------------------------ *)
Definition posn (l : list nat) : Prop := forall j, 1 <= nth j l 1.

Definition comp_on (s : step) (j : nat) : Prop :=
  match s with
  | LComp i _ _ => i = j
  | RComp (S i) _ _ => i = j
  | _ => False
  end.

Lemma lbond_pos b i : posn b -> 1 <= lbond b i.
Proof. intros H. destruct i; cbn; [lia | apply H]. Qed.

Lemma mul_pos a b : 1 <= a -> 1 <= b -> 1 <= a * b.
Proof. intros. nia. Qed.

Lemma rankL_pos p b i : posn p -> posn b -> 1 <= Nat.min (lbond b i * nth i p 1) (rbond b i).
Proof.
  intros Hp Hb. apply Nat.min_glb; [apply mul_pos; [apply lbond_pos; exact Hb | apply Hp] | apply Hb].
Qed.
Lemma rankR_pos p b i : posn p -> posn b -> 1 <= Nat.min (lbond b i) (nth i p 1 * rbond b i).
Proof.
  intros Hp Hb. apply Nat.min_glb; [apply lbond_pos; exact Hb | apply mul_pos; [apply Hp | apply Hb]].
Qed.

(* one step: no bond grows, bonds stay positive, a compress step caps its bond *)
Lemma step_spec p D b s j : posn p -> posn b -> 0 < D ->
  nth j (step_bonds p D b s) 1 <= nth j b 1
  /\ 1 <= nth j (step_bonds p D b s) 1
  /\ (comp_on s j -> nth j (step_bonds p D b s) 1 <= D).
Proof.
  intros Hp Hb HD.
  assert (Hj : 1 <= nth j b 1) by apply Hb.
  destruct s as [i|i|i cnt both|i cnt both]; cbn [step_bonds comp_on].
  - (* LCanon *)
    rewrite nth_lset. destruct (Nat.eqb j i && Nat.ltb i (length b)) eqn:E.
    + apply andb_true_iff in E. destruct E as [E _]. apply Nat.eqb_eq in E. subst j.
      pose proof (rankL_pos p b i Hp Hb). unfold rbond in *. repeat split; try lia; try (intros []).
    + repeat split; try lia; try (intros []).
  - (* RCanon *)
    destruct i as [|i]; [repeat split; try lia; try (intros [])|].
    rewrite nth_lset. destruct (Nat.eqb j i && Nat.ltb i (length b)) eqn:E.
    + apply andb_true_iff in E. destruct E as [E _]. apply Nat.eqb_eq in E. subst j.
      pose proof (rankR_pos p b (S i) Hp Hb). cbn [lbond] in *. repeat split; try lia; try (intros []).
    + repeat split; try lia; try (intros []).
  - (* LComp *)
    rewrite nth_lset. destruct (Nat.eqb j i && Nat.ltb i (length b)) eqn:E.
    + apply andb_true_iff in E. destruct E as [E _]. apply Nat.eqb_eq in E. subst j.
      pose proof (rankL_pos p b i Hp Hb) as Hr.
      pose proof (nchi_le_rank cnt D _ Hr). pose proof (nchi_pos cnt D _ Hr).
      pose proof (nchi_le_cap cnt D (Nat.min (lbond b i * nth i p 1) (rbond b i)) HD).
      unfold rbond in *. repeat split; try lia.
    + repeat split; try lia. intros <-. rewrite Nat.eqb_refl in E. cbn [andb] in E.
      apply Nat.ltb_ge in E. rewrite nth_overflow by exact E. lia.
  - (* RComp *)
    destruct i as [|i]; [repeat split; try lia; try (intros [])|].
    rewrite nth_lset. destruct (Nat.eqb j i && Nat.ltb i (length b)) eqn:E.
    + apply andb_true_iff in E. destruct E as [E _]. apply Nat.eqb_eq in E. subst j.
      pose proof (rankR_pos p b (S i) Hp Hb) as Hr.
      pose proof (nchi_le_rank cnt D _ Hr). pose proof (nchi_pos cnt D _ Hr).
      pose proof (nchi_le_cap cnt D (Nat.min (lbond b (S i)) (nth (S i) p 1 * rbond b (S i))) HD).
      cbn [lbond] in *. repeat split; try lia.
    + repeat split; try lia. intros <-. rewrite Nat.eqb_refl in E. cbn [andb] in E.
      apply Nat.ltb_ge in E. rewrite nth_overflow by exact E. lia.
Qed.

Lemma step_posn p D b s : posn p -> posn b -> 0 < D -> posn (step_bonds p D b s).
Proof. intros Hp Hb HD j. apply (step_spec p D b s j Hp Hb HD). Qed.

Lemma run_posn p D prog : forall b, posn p -> posn b -> 0 < D -> posn (run_bonds p D prog b).
Proof.
  induction prog as [|s t IH]; intros b Hp Hb HD; cbn; [exact Hb|].
  apply IH; try assumption. apply step_posn; assumption.
Qed.

(* every history: no bond ever grows *)
Lemma run_nonincreasing p D prog : forall b j, posn p -> posn b -> 0 < D ->
  nth j (run_bonds p D prog b) 1 <= nth j b 1.
Proof.
  induction prog as [|s t IH]; intros b j Hp Hb HD; cbn; [lia|].
  etransitivity; [apply IH; try assumption; apply step_posn; assumption|].
  apply (step_spec p D b s j Hp Hb HD).
Qed.

(* every history: a bond that was compressed (at any time) with cap D ends <= D *)
Theorem bond_cap_history p D prog : forall b j, posn p -> posn b -> 0 < D ->
  Exists (fun s => comp_on s j) prog -> nth j (run_bonds p D prog b) 1 <= D.
Proof.
  induction prog as [|s t IH]; intros b j Hp Hb HD Hex; [inversion Hex|].
  cbn. apply Exists_cons in Hex. destruct Hex as [Hs|Ht].
  - etransitivity; [apply run_nonincreasing; try assumption; apply step_posn; assumption|].
    apply (step_spec p D b s j Hp Hb HD). exact Hs.
  - apply IH; try assumption. apply step_posn; assumption.
Qed.

Lemma length_step p D b s : length (step_bonds p D b s) = length b.
Proof. destruct s as [i|[|i]|i c o|[|i] c o]; cbn; try reflexivity; apply length_lset. Qed.
Lemma length_run p D prog : forall b, length (run_bonds p D prog b) = length b.
Proof.
  induction prog as [|s t IH]; intros b; [reflexivity|].
  change (run_bonds p D (s :: t) b) with (run_bonds p D t (step_bonds p D b s)). rewrite IH. apply length_step.
Qed.

(* the compress(form) program compresses every bond of an open chain *)
Lemma in_rcomp cnt both L stop j : stop <= j -> j + 1 < L ->
  Exists (fun s => comp_on s j) (right_compress_prog cnt both L stop).
Proof.
  intros H1 H2. apply Exists_exists. exists (RComp (S j) (cnt (S j)) both). split; [|reflexivity].
  unfold right_compress_prog. apply (in_map (fun i => RComp i (cnt i) both)). apply -> in_rev. apply in_seq. lia.
Qed.
Lemma in_lcomp cnt both stop j : j < stop -> Exists (fun s => comp_on s j) (left_compress_prog cnt both stop).
Proof.
  intros H. apply Exists_exists. exists (LComp j (cnt j) both). split; [|reflexivity].
  unfold left_compress_prog. apply (in_map (fun i => LComp i (cnt i) both)). apply in_seq. lia.
Qed.

Lemma compress_prog_covers f L cnt j : j + 1 < L -> Exists (fun s => comp_on s j) (compress_prog f L cnt).
Proof.
  intros Hj. destruct f as [| | |c]; cbn [compress_prog].
  - apply Exists_app. right. apply in_rcomp; lia.
  - apply Exists_app. right. apply in_lcomp; lia.
  - apply Exists_app. destruct (Nat.lt_ge_cases j (L / 2)) as [H|H].
    + right. apply in_lcomp. exact H.
    + left. apply in_rcomp; lia.
  - destruct (Nat.ltb c (L / 2)).
    + apply Exists_app. right. apply Exists_app. left. apply in_rcomp; lia.
    + apply Exists_app. right. apply Exists_app. left. apply in_lcomp; lia.
Qed.

(* compress(form, max_bond = D): every bond <= D afterwards, whatever the cutoff discarded *)
Theorem compress_bond_cap f cnt p b D : posn p -> posn b -> 0 < D -> length b + 1 = length p ->
  Forall (fun x => x <= D) (run_bonds p D (compress_prog f (length p) cnt) b).
Proof.
  intros Hp Hb HD Hlen. apply Forall_forall. intros x Hx.
  destruct (In_nth _ _ 1 Hx) as [j [Hj <-]]. rewrite length_run in Hj.
  apply bond_cap_history; try assumption. apply compress_prog_covers. lia.
Qed.

(* and no bond is larger than before *)
Theorem compress_never_grows f cnt p b D j : posn p -> posn b -> 0 < D ->
  nth j (run_bonds p D (compress_prog f (length p) cnt) b) 1 <= nth j b 1.
Proof. intros. apply run_nonincreasing; assumption. Qed.

(* ---- isometry statuses ------------------------------------------------- *)
Lemma length_step_status st s : length (step_status st s) = length st.
Proof.
  destruct s as [i|[|i]|i c [|]|[|i] c [|]]; cbn; try reflexivity; rewrite !length_lset; reflexivity.
Qed.
Lemma length_run_status prog : forall st, length (run_status prog st) = length st.
Proof.
  induction prog as [|s t IH]; intros st; [reflexivity|].
  change (run_status (s :: t) st) with (run_status t (step_status st s)). rewrite IH. apply length_step_status.
Qed.

Lemma run_status_app a b st : run_status (a ++ b) st = run_status b (run_status a st).
Proof. unfold run_status. apply fold_left_app. Qed.

(* a step "to the right": site i becomes a left isometry, site i+1 is spoiled *)
Definition goes_right (f : nat -> step) : Prop :=
  forall i st, step_status st (f i) = lset (lset st i SL) (S i) SN.
(* a step "to the left": site i+1 becomes a right isometry, site i is spoiled *)
Definition goes_left (f : nat -> step) : Prop :=
  forall i st, step_status st (f (S i)) = lset (lset st (S i) SR) i SN.

Lemma asc_sweep f : goes_right f -> forall n st, n < length st ->
  (forall i, i < n -> nth i (run_status (map f (seq 0 n)) st) SN = SL)
  /\ (forall i, n < i -> nth i (run_status (map f (seq 0 n)) st) SN = nth i st SN).
Proof.
  intros Hf. induction n as [|n IH]; intros st Hn.
  - cbn. split; [lia | reflexivity].
  - rewrite seq_S, map_app, run_status_app. cbn [map run_status fold_left Nat.add].
    destruct (IH st ltac:(lia)) as [IH1 IH2].
    set (st1 := run_status (map f (seq 0 n)) st) in *.
    assert (Hl : length st1 = length st) by apply length_run_status.
    rewrite Hf. split; intros i Hi; rewrite !nth_lset, !length_lset, Hl.
    + destruct (Nat.eqb i (S n)) eqn:E1; [apply Nat.eqb_eq in E1; lia|]. cbn [andb].
      destruct (Nat.eqb i n) eqn:E2.
      * rewrite (proj2 (Nat.ltb_lt n (length st)) ltac:(lia)). reflexivity.
      * cbn [andb]. apply IH1. apply Nat.eqb_neq in E2. lia.
    + destruct (Nat.eqb i (S n)) eqn:E1; [apply Nat.eqb_eq in E1; lia|]. cbn [andb].
      destruct (Nat.eqb i n) eqn:E2; [apply Nat.eqb_eq in E2; lia|]. cbn [andb].
      apply IH2. lia.
Qed.

Lemma desc_sweep f : goes_left f -> forall m stop st, stop + m < length st ->
  (forall i, stop < i <= stop + m -> nth i (run_status (map f (rev (seq (S stop) m))) st) SN = SR)
  /\ (forall i, i < stop \/ stop + m < i -> nth i (run_status (map f (rev (seq (S stop) m))) st) SN = nth i st SN).
Proof.
  intros Hf. induction m as [|m IH]; intros stop st Hlen.
  - cbn. split; [lia | reflexivity].
  - rewrite seq_S, rev_app_distr. cbn [rev app map run_status fold_left].
    replace (S stop + m) with (S (stop + m)) by lia. rewrite Hf.
    set (st1 := lset (lset st (S (stop + m)) SR) (stop + m) SN).
    assert (Hl : length st1 = length st) by (unfold st1; rewrite !length_lset; reflexivity).
    destruct (IH stop st1 ltac:(lia)) as [IH1 IH2]. fold (run_status (map f (rev (seq (S stop) m))) st1).
    split; intros i Hi.
    + destruct (Nat.eq_dec i (S (stop + m))) as [->|Hne].
      * rewrite IH2 by lia. unfold st1. rewrite !nth_lset, !length_lset.
        replace (Nat.eqb (S (stop + m)) (stop + m)) with false by (symmetry; apply Nat.eqb_neq; lia).
        cbn [andb]. rewrite Nat.eqb_refl.
        rewrite (proj2 (Nat.ltb_lt (S (stop + m)) (length st)) ltac:(lia)). reflexivity.
      * apply IH1. lia.
    + rewrite IH2 by lia. unfold st1. rewrite !nth_lset, !length_lset.
      replace (Nat.eqb i (stop + m)) with false by (symmetry; apply Nat.eqb_neq; lia).
      replace (Nat.eqb i (S (stop + m))) with false by (symmetry; apply Nat.eqb_neq; lia).
      reflexivity.
Qed.

Lemma lcanon_right : goes_right LCanon.
Proof. intros i st. reflexivity. Qed.
Lemma lcomp_right cnt : goes_right (fun i => LComp i (cnt i) false).
Proof. intros i st. reflexivity. Qed.
Lemma rcanon_left : goes_left RCanon.
Proof. intros i st. reflexivity. Qed.
Lemma rcomp_left cnt : goes_left (fun i => RComp i (cnt i) false).
Proof. intros i st. reflexivity. Qed.

(* what compress(form) promises, given that the QR / SVD factors are isometries:
   'right': sites 1.. are right isometries (centre 0); 'left': sites ..L-2 are left
   isometries (centre L-1); integer c: left isometries before c, right isometries after *)
Definition canonical_around (c L : nat) (st : list status) : Prop :=
  (forall i, i < c -> nth i st SN = SL) /\ (forall i, c < i < L -> nth i st SN = SR).

Theorem compress_right_canonical cnt L st : length st = L -> 1 <= L ->
  canonical_around 0 L (run_status (compress_prog FRight L cnt) st).
Proof.
  intros Hl HL. cbn [compress_prog]. rewrite run_status_app.
  set (st1 := run_status (left_canonize_prog (L - 1)) st).
  assert (H1 : length st1 = L) by (unfold st1; rewrite length_run_status; exact Hl).
  unfold right_compress_prog.
  destruct (desc_sweep _ (rcomp_left cnt) (L - 1 - 0) 0 st1 ltac:(lia)) as [A _].
  split; [lia|]. intros i Hi. apply A. lia.
Qed.

Theorem compress_left_canonical cnt L st : length st = L -> 1 <= L ->
  canonical_around (L - 1) L (run_status (compress_prog FLeft L cnt) st).
Proof.
  intros Hl HL. cbn [compress_prog]. rewrite run_status_app.
  set (st1 := run_status (right_canonize_prog L 0) st).
  assert (H1 : length st1 = L) by (unfold st1; rewrite length_run_status; exact Hl).
  unfold left_compress_prog.
  destruct (asc_sweep _ (lcomp_right cnt) (L - 1) st1 ltac:(lia)) as [A _].
  split; [exact A | lia].
Qed.

Theorem compress_center_canonical cnt L c st : length st = L -> c < L ->
  canonical_around c L (run_status (compress_prog (FCenter c) L cnt) st).
Proof.
  intros Hl Hc. cbn [compress_prog]. destruct (Nat.ltb c (L / 2)) eqn:E.
  - rewrite !run_status_app.
    set (st1 := run_status (left_canonize_prog (L - 1)) st).
    assert (H1 : length st1 = L) by (unfold st1; rewrite length_run_status; exact Hl).
    unfold right_compress_prog.
    destruct (desc_sweep _ (rcomp_left cnt) (L - 1 - 0) 0 st1 ltac:(lia)) as [A _].
    set (st2 := run_status (map (fun i => RComp i (cnt i) false) (rev (seq 1 (L - 1 - 0)))) st1) in *.
    assert (H2 : length st2 = L) by (unfold st2; rewrite length_run_status; exact H1).
    unfold left_canonize_prog.
    destruct (asc_sweep _ lcanon_right c st2 ltac:(lia)) as [B1 B2].
    split; [exact B1|]. intros i Hi. rewrite B2 by lia. apply A. lia.
  - rewrite !run_status_app.
    set (st1 := run_status (right_canonize_prog L 0) st).
    assert (H1 : length st1 = L) by (unfold st1; rewrite length_run_status; exact Hl).
    unfold left_compress_prog.
    destruct (asc_sweep _ (lcomp_right cnt) (L - 1) st1 ltac:(lia)) as [A _].
    set (st2 := run_status (map (fun i => LComp i (cnt i) false) (seq 0 (L - 1))) st1) in *.
    assert (H2 : length st2 = L) by (unfold st2; rewrite length_run_status; exact H1).
    unfold right_canonize_prog.
    destruct (desc_sweep _ rcanon_left (L - 1 - c) c st2 ltac:(lia)) as [B1 B2].
    split.
    + intros i Hi. rewrite B2 by lia. apply A. lia.
    + intros i Hi. apply B1. lia.
Qed.

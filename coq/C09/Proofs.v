(* C09 - matrix-product algebra over an ARBITRARY commutative ring K
   (Section variables + ring_theory, no axioms).

   An MPS/MPO amplitude at a fixed physical configuration is a product of the
   site matrices selected by the physical values, closed by boundary vectors
   (open boundaries) or by a trace (periodic).  Site matrices are functions
   nat -> nat -> K with explicit bond dimensions.

   Theorems:
   * the block-diagonal direct sum used by MPS/MPO addition
     (array_direct_product: every bond axis is padded, physical axes are not)
     denotes the SUM of the two amplitudes, for every length and all bond
     dimensions (open: boundary tensors are concatenated; periodic: trace);
   * multiplying the site tensors by scalars multiplies the amplitude by the
     product of the scalars (the rule behind TensorNetwork.multiply);
   * contracting one physical label of an operator chain with a physical label
     of another chain site by site (tensor_network_apply_op_vec / _op_op)
     gives sum_c Op(kept, c) * X(c, rest): a one-site identity lifted to all
     lengths by induction; which label is summed (lower / upper) is explicit. *)
From Coq Require Import Arith List Lia Ring PeanoNat Bool.
From QV Require Import Base.Sums.
Import ListNotations.

Section Chain.
  Variable K : Type.
  Variables (k0 k1 : K) (kadd kmul ksub : K -> K -> K) (kopp : K -> K).
  Hypothesis Kring : ring_theory k0 k1 kadd kmul ksub kopp eq.
  Add Ring Kr9 : Kring.
  Infix "+" := kadd. Infix "*" := kmul.
  Notation sum := (sum K k0 kadd).

  (* local copies of the Sums.v interface (shorter to apply) *)
  Lemma Sext n f g : (forall i, (i < n)%nat -> f i = g i) -> sum n f = sum n g.
  Proof. apply sum_ext. Qed.
  Lemma Szero n f : (forall i, (i < n)%nat -> f i = k0) -> sum n f = k0.
  Proof. apply (sum_all_zero K k0 k1 kadd kmul ksub kopp Kring). Qed.
  Lemma Sadd n f g : sum n (fun i => f i + g i) = sum n f + sum n g.
  Proof. apply (sum_add K k0 k1 kadd kmul ksub kopp Kring). Qed.
  Lemma Smul_l n c f : sum n (fun i => c * f i) = c * sum n f.
  Proof. apply (sum_mul_l K k0 k1 kadd kmul ksub kopp Kring). Qed.
  Lemma Smul_r n c f : sum n (fun i => f i * c) = sum n f * c.
  Proof. apply (sum_mul_r K k0 k1 kadd kmul ksub kopp Kring). Qed.
  Lemma Sswap n m (f : nat -> nat -> K) :
    sum n (fun i => sum m (fun j => f i j)) = sum m (fun j => sum n (fun i => f i j)).
  Proof. apply (sum_swap K k0 k1 kadd kmul ksub kopp Kring). Qed.
  Lemma Sapp n m f : sum (n + m) f = sum n f + sum m (fun j => f (n + j)%nat).
  Proof. apply (sum_app K k0 k1 kadd kmul ksub kopp Kring). Qed.

  Definition mat := nat -> nat -> K.
  Definition vec := nat -> K.

  (* row vector (length n) times matrix (n rows) *)
  Definition vmul (n : nat) (v : vec) (M : mat) : vec := fun j => sum n (fun i => v i * M i j).
  Definition dot (n : nat) (v w : vec) : K := sum n (fun i => v i * w i).

  (* concatenation of two vectors, the first of length na *)
  Definition vcat (na : nat) (va vb : vec) : vec :=
    fun i => if Nat.ltb i na then va i else vb (i - na)%nat.

  (* block-diagonal direct sum, A is ra x ca (array_direct_product on two bond axes:
     X padded after, Y padded before, then added) *)
  Definition dsum (ra ca : nat) (A B : mat) : mat := fun i j =>
    if Nat.ltb i ra then (if Nat.ltb j ca then A i j else k0)
    else (if Nat.ltb j ca then k0 else B (i - ra)%nat (j - ca)%nat).

  Lemma ltb_true i n : (i < n)%nat -> Nat.ltb i n = true.
  Proof. intros H. apply Nat.ltb_lt. exact H. Qed.
  Lemma ltb_false_add n i : Nat.ltb (n + i) n = false.
  Proof. apply Nat.ltb_ge. lia. Qed.
  Lemma add_sub_l n i : (n + i - n)%nat = i.
  Proof. lia. Qed.

  (* one site: [va vb] . (A (+) B) = [va.A  vb.B] *)
  Lemma vmul_vcat_dsum na nb ca' va vb A B j :
    vmul (na + nb) (vcat na va vb) (dsum na ca' A B) j
    = vcat ca' (vmul na va A) (vmul nb vb B) j.
  Proof.
    unfold vmul, vcat. rewrite Sapp.
    destruct (Nat.ltb j ca') eqn:Ej.
    - rewrite (Sext na _ (fun i => va i * A i j)).
      2:{ intros i Hi. unfold dsum. rewrite (ltb_true i na Hi). rewrite Ej. reflexivity. }
      rewrite (Szero nb).
      2:{ intros i Hi. unfold dsum. rewrite ltb_false_add. rewrite Ej. ring. }
      ring.
    - rewrite (Szero na).
      2:{ intros i Hi. unfold dsum. rewrite (ltb_true i na Hi). rewrite Ej. ring. }
      rewrite (Sext nb _ (fun i => vb i * B i (j - ca')%nat)).
      2:{ intros i Hi. unfold dsum. rewrite ltb_false_add. rewrite Ej. rewrite add_sub_l. reflexivity. }
      ring.
  Qed.

  Lemma dot_vcat na nb x y w z :
    dot (na + nb) (vcat na x y) (vcat na w z) = dot na x w + dot nb y z.
  Proof.
    unfold dot, vcat. rewrite Sapp. f_equal.
    - apply Sext. intros i Hi. rewrite (ltb_true i na Hi). reflexivity.
    - apply Sext. intros i Hi. rewrite ltb_false_add. rewrite add_sub_l. reflexivity.
  Qed.

  Lemma dot_ext n v v' w w' : (forall i, v i = v' i) -> (forall i, w i = w' i) -> dot n v w = dot n v' w'.
  Proof. intros H1 H2. unfold dot. apply Sext. intros i _. rewrite H1, H2. reflexivity. Qed.

  Lemma vmul_ext n v v' M j : (forall i, v i = v' i) -> vmul n v M j = vmul n v' M j.
  Proof. intros H. unfold vmul. apply Sext. intros i _. rewrite H. reflexivity. Qed.

  (* ------------------------------------------------------------------ *)
  (* MPS addition.  A selected site: the two matrices picked by the      *)
  (* physical value, with their column (right bond) dimensions.          *)
  Record ssite := { ca : nat; cb : nat; mA : mat; mB : mat }.

  Fixpoint propA (n : nat) (v : vec) (l : list ssite) : vec :=
    match l with [] => v | s :: t => propA (ca s) (vmul n v (mA s)) t end.
  Fixpoint propB (n : nat) (v : vec) (l : list ssite) : vec :=
    match l with [] => v | s :: t => propB (cb s) (vmul n v (mB s)) t end.
  (* the summed chain: every site matrix is the direct sum, bond = na + nb *)
  Fixpoint propS (na nb : nat) (v : vec) (l : list ssite) : vec :=
    match l with
    | [] => v
    | s :: t => propS (ca s) (cb s) (vmul (na + nb) v (dsum na (ca s) (mA s) (mB s))) t
    end.
  Fixpoint endA (n : nat) (l : list ssite) : nat := match l with [] => n | s :: t => endA (ca s) t end.
  Fixpoint endB (n : nat) (l : list ssite) : nat := match l with [] => n | s :: t => endB (cb s) t end.

  Lemma propS_ext l : forall na nb v v', (forall i, v i = v' i) -> forall j, propS na nb v l j = propS na nb v' l j.
  Proof.
    induction l as [|s t IH]; intros na nb v v' H j; cbn; [apply H|].
    apply IH. intros i. apply vmul_ext. exact H.
  Qed.
  Lemma propA_ext l : forall n v v', (forall i, v i = v' i) -> forall j, propA n v l j = propA n v' l j.
  Proof.
    induction l as [|s t IH]; intros n v v' H j; cbn; [apply H|].
    apply IH. intros i. apply vmul_ext. exact H.
  Qed.
  Lemma propB_ext l : forall n v v', (forall i, v i = v' i) -> forall j, propB n v l j = propB n v' l j.
  Proof.
    induction l as [|s t IH]; intros n v v' H j; cbn; [apply H|].
    apply IH. intros i. apply vmul_ext. exact H.
  Qed.

  (* all middle sites, all lengths: the propagated vector stays a concatenation *)
  Lemma propS_sound l : forall na nb va vb j,
    propS na nb (vcat na va vb) l j = vcat (endA na l) (propA na va l) (propB nb vb l) j.
  Proof.
    induction l as [|s t IH]; intros na nb va vb j; cbn; [reflexivity|].
    rewrite (propS_ext t (ca s) (cb s) _ (vcat (ca s) (vmul na va (mA s)) (vmul nb vb (mB s)))).
    - apply IH.
    - intros i. apply vmul_vcat_dsum.
  Qed.

  (* open boundaries: first tensors are row vectors a0 (length na), b0 (nb), concatenated;
     last tensors are column vectors wa, wb, concatenated *)
  Definition ampA (na : nat) (a0 : vec) (l : list ssite) (wa : vec) : K := dot (endA na l) (propA na a0 l) wa.
  Definition ampB (nb : nat) (b0 : vec) (l : list ssite) (wb : vec) : K := dot (endB nb l) (propB nb b0 l) wb.
  Definition ampS (na nb : nat) (a0 b0 : vec) (l : list ssite) (wa wb : vec) : K :=
    dot (endA na l + endB nb l) (propS na nb (vcat na a0 b0) l) (vcat (endA na l) wa wb).

  Theorem add_selected_sound na nb a0 b0 l wa wb :
    ampS na nb a0 b0 l wa wb = ampA na a0 l wa + ampB nb b0 l wb.
  Proof.
    unfold ampS, ampA, ampB.
    rewrite (dot_ext _ _ (vcat (endA na l) (propA na a0 l) (propB nb b0 l)) _ (vcat (endA na l) wa wb)).
    - apply dot_vcat.
    - intros i. apply propS_sound.
    - reflexivity.
  Qed.

  (* with the physical labels: site tensors indexed by the physical value *)
  Record site := { sca : nat; scb : nat; sA : nat -> mat; sB : nat -> mat }.
  Fixpoint sel (l : list site) (cfg : list nat) : list ssite :=
    match l, cfg with
    | s :: t, p :: c => {| ca := sca s; cb := scb s; mA := sA s p; mB := sB s p |} :: sel t c
    | _, _ => []
    end.

  (* an open-boundary pair of MPS with L >= 2 sites *)
  Record mps2 := {
    na0 : nat; nb0 : nat;
    firstA : nat -> vec; firstB : nat -> vec;     (* physical value -> row vector *)
    middle : list site;
    lastA : nat -> vec; lastB : nat -> vec        (* physical value -> column vector *)
  }.
  Definition amp_of_A (m : mps2) (p0 : nat) (cfg : list nat) (pl : nat) : K :=
    ampA (na0 m) (firstA m p0) (sel (middle m) cfg) (lastA m pl).
  Definition amp_of_B (m : mps2) (p0 : nat) (cfg : list nat) (pl : nat) : K :=
    ampB (nb0 m) (firstB m p0) (sel (middle m) cfg) (lastB m pl).
  (* the network built by tensor_network_(ag_)sum: first/last tensors padded on their only
     bond axis (concatenation), middle tensors padded on both (block diagonal),
     physical axes summed (not padded) *)
  Definition amp_of_sum (m : mps2) (p0 : nat) (cfg : list nat) (pl : nat) : K :=
    ampS (na0 m) (nb0 m) (firstA m p0) (firstB m p0) (sel (middle m) cfg) (lastA m pl) (lastB m pl).

  Theorem mps_add_sound m p0 cfg pl :
    amp_of_sum m p0 cfg pl = amp_of_A m p0 cfg pl + amp_of_B m p0 cfg pl.
  Proof. apply add_selected_sound. Qed.

  (* subtraction: negate ONE tensor of the second operand (tensor_network_ag_sum(negate=True)) *)
  Lemma vmul_opp_l n v M j : vmul n (fun i => kopp (v i)) M j = kopp (vmul n v M j).
  Proof.
    unfold vmul. rewrite (Sext n _ (fun i => kopp k1 * (v i * M i j))) by (intros; ring).
    rewrite Smul_l. ring.
  Qed.
  Lemma propB_opp l : forall n v j, propB n (fun i => kopp (v i)) l j = kopp (propB n v l j).
  Proof.
    induction l as [|s t IH]; intros n v j; cbn; [reflexivity|].
    rewrite (propB_ext t (cb s) _ (fun i => kopp (vmul n v (mB s) i))) by (intros; apply vmul_opp_l).
    apply IH.
  Qed.
  Theorem mps_sub_sound m p0 cfg pl :
    amp_of_sum {| na0 := na0 m; nb0 := nb0 m; firstA := firstA m;
                  firstB := fun p i => kopp (firstB m p i);
                  middle := middle m; lastA := lastA m; lastB := lastB m |} p0 cfg pl
    = ksub (amp_of_A m p0 cfg pl) (amp_of_B m p0 cfg pl).
  Proof.
    rewrite mps_add_sound. unfold amp_of_A, amp_of_B, ampB, dot. cbn [na0 nb0 firstA firstB middle lastA lastB].
    rewrite (Sext _ _ (fun i => kopp k1 * (propB (nb0 m) (firstB m p0) (sel (middle m) cfg) i * lastB m pl i))).
    2:{ intros i _. rewrite propB_opp. ring. }
    rewrite Smul_l. ring.
  Qed.

  (* periodic boundaries: amplitude = trace of the product; the first site is s1 with
     row dimensions ra0 / rb0, which the last column dimensions must close *)
  Definition cycA (ra0 : nat) (s1 : ssite) (rest : list ssite) : K :=
    sum ra0 (fun i => propA (ca s1) (mA s1 i) rest i).
  Definition cycB (rb0 : nat) (s1 : ssite) (rest : list ssite) : K :=
    sum rb0 (fun i => propB (cb s1) (mB s1 i) rest i).
  Definition cycS (ra0 rb0 : nat) (s1 : ssite) (rest : list ssite) : K :=
    sum (ra0 + rb0) (fun i => propS (ca s1) (cb s1) (dsum ra0 (ca s1) (mA s1) (mB s1) i) rest i).

  Theorem add_cyclic_selected_sound ra0 rb0 s1 rest :
    endA (ca s1) rest = ra0 -> endB (cb s1) rest = rb0 ->
    cycS ra0 rb0 s1 rest = cycA ra0 s1 rest + cycB rb0 s1 rest.
  Proof.
    intros HA HB. unfold cycS, cycA, cycB. rewrite Sapp. f_equal.
    - apply Sext. intros i Hi.
      rewrite (propS_ext rest _ _ _ (vcat (ca s1) (mA s1 i) (fun _ => k0))).
      2:{ intros j. unfold dsum, vcat. rewrite (ltb_true i ra0 Hi). reflexivity. }
      rewrite propS_sound. unfold vcat at 1. rewrite HA. rewrite (ltb_true i ra0 Hi). reflexivity.
    - apply Sext. intros i Hi.
      rewrite (propS_ext rest _ _ _ (vcat (ca s1) (fun _ => k0) (mB s1 i))).
      2:{ intros j. unfold dsum, vcat. rewrite ltb_false_add. rewrite add_sub_l. reflexivity. }
      rewrite propS_sound. unfold vcat at 1. rewrite HA. rewrite ltb_false_add. rewrite add_sub_l. reflexivity.
  Qed.

  Theorem mps_add_cyclic_sound ra0 rb0 (s1 : site) (rest : list site) p1 cfg :
    let s := {| ca := sca s1; cb := scb s1; mA := sA s1 p1; mB := sB s1 p1 |} in
    endA (sca s1) (sel rest cfg) = ra0 -> endB (scb s1) (sel rest cfg) = rb0 ->
    cycS ra0 rb0 s (sel rest cfg) = cycA ra0 s (sel rest cfg) + cycB rb0 s (sel rest cfg).
  Proof. intros s HA HB. apply add_cyclic_selected_sound; assumption. Qed.

  (* ------------------------------------------------------------------ *)
  (* scalar multiplication: every site tensor gets its own scalar        *)
  Definition csite := (K * (nat * mat))%type.      (* scalar, column dim, matrix *)
  Fixpoint propU (n : nat) (v : vec) (l : list csite) : vec :=
    match l with [] => v | (_, (m, M)) :: t => propU m (vmul n v M) t end.
  Fixpoint propC (n : nat) (v : vec) (l : list csite) : vec :=
    match l with [] => v | (c, (m, M)) :: t => propC m (vmul n v (fun i j => c * M i j)) t end.
  Fixpoint prodc (l : list csite) : K := match l with [] => k1 | (c, _) :: t => c * prodc t end.

  Lemma propU_ext l : forall n v v', (forall i, v i = v' i) -> forall j, propU n v l j = propU n v' l j.
  Proof.
    induction l as [|[c [m M]] t IH]; intros n v v' H j; cbn; [apply H|].
    apply IH. intros i. apply vmul_ext. exact H.
  Qed.
  Lemma propC_ext l : forall n v v', (forall i, v i = v' i) -> forall j, propC n v l j = propC n v' l j.
  Proof.
    induction l as [|[c [m M]] t IH]; intros n v v' H j; cbn; [apply H|].
    apply IH. intros i. apply vmul_ext. exact H.
  Qed.
  Lemma vmul_scal_l n c v M j : vmul n (fun i => c * v i) M j = c * vmul n v M j.
  Proof.
    unfold vmul. rewrite (Sext n _ (fun i => c * (v i * M i j))) by (intros; ring). apply Smul_l.
  Qed.
  Lemma vmul_scal_r n c v M j : vmul n v (fun i j' => c * M i j') j = c * vmul n v M j.
  Proof.
    unfold vmul. rewrite (Sext n _ (fun i => c * (v i * M i j))) by (intros; ring). apply Smul_l.
  Qed.
  Lemma propU_scal l : forall n c v j, propU n (fun i => c * v i) l j = c * propU n v l j.
  Proof.
    induction l as [|[c' [m M]] t IH]; intros n c v j; cbn; [reflexivity|].
    rewrite (propU_ext t m _ (fun i => c * vmul n v M i)) by (intros; apply vmul_scal_l).
    apply IH.
  Qed.
  Lemma propC_scale l : forall n v j, propC n v l j = prodc l * propU n v l j.
  Proof.
    induction l as [|[c [m M]] t IH]; intros n v j; cbn; [ring|].
    rewrite (propC_ext t m _ (fun i => c * vmul n v M i)) by (intros; apply vmul_scal_r).
    rewrite IH. rewrite propU_scal. ring.
  Qed.

  (* generic boundary form: boundary bonds of dimension 1, amplitude = entry 0 *)
  Definition amp_chain (l : list csite) : K := propU 1 (fun _ => k1) l 0%nat.
  Definition amp_chain_scaled (l : list csite) : K := propC 1 (fun _ => k1) l 0%nat.

  Theorem scale_sound l : amp_chain_scaled l = prodc l * amp_chain l.
  Proof. apply propC_scale. Qed.

  (* TensorNetwork.multiply(x, spread_over): the first k tensors are multiplied by r
     (the first one additionally by the sign s), the others are untouched *)
  Fixpoint kpow (r : K) (k : nat) : K := match k with O => k1 | S k' => r * kpow r k' end.
  Fixpoint set_scalars (cs : list K) (l : list csite) : list csite :=
    match cs, l with
    | c :: cs', (_, mm) :: t => (c, mm) :: set_scalars cs' t
    | [], (_, mm) :: t => (k1, mm) :: set_scalars [] t
    | _, [] => []
    end.
  Definition multiply_scalars (s r : K) (k : nat) : list K :=
    match k with O => [] | S k' => (s * r) :: repeat r k' end.

  Lemma prodc_ones l : prodc (set_scalars [] l) = k1.
  Proof. induction l as [|[c mm] t IH]; cbn; [reflexivity|]. rewrite IH. ring. Qed.
  Lemma prodc_repeat r k : forall l, (k <= length l)%nat -> prodc (set_scalars (repeat r k) l) = kpow r k.
  Proof.
    induction k as [|k IH]; intros l Hl; cbn [repeat].
    - destruct l as [|[c mm] t]; cbn; [reflexivity|]. rewrite prodc_ones. ring.
    - destruct l as [|[c mm] t]; cbn in *; [lia|]. rewrite IH by lia. reflexivity.
  Qed.
  Lemma propU_set_scalars cs : forall l n v j, propU n v (set_scalars cs l) j = propU n v l j.
  Proof.
    induction cs as [|c cs IH]; intros l; induction l as [|[c' [m M]] t IHl]; intros n v j; cbn; try reflexivity.
    - apply IHl.
    - apply IH.
  Qed.

  Theorem multiply_sound s r k l : (1 <= k <= length l)%nat ->
    amp_chain_scaled (set_scalars (multiply_scalars s r k) l) = (s * kpow r k) * amp_chain l.
  Proof.
    intros [H1 H2]. rewrite scale_sound. unfold amp_chain. rewrite propU_set_scalars.
    f_equal. destruct k as [|k]; [lia|]. cbn [multiply_scalars kpow].
    destruct l as [|[c mm] t]; cbn in *; [lia|]. rewrite prodc_repeat by lia. ring.
  Qed.

  (* ------------------------------------------------------------------ *)
  (* operator application: one physical label of chain W is contracted   *)
  (* with one physical label of chain X, site by site.  The two bonds    *)
  (* of the result are kept as a pair (the lazy network x | A; fusing    *)
  (* the pair is a relabelling, see fuse_pair_sum below).                *)
  Definition vec2 := nat -> nat -> K.
  Definition mat2 := nat -> nat -> nat -> nat -> K.     (* i i' j j' *)

  Record asite := { dd : nat; cw : nat; cx : nat; mW : nat -> mat; mX : nat -> mat }.

  (* result site tensor: sum over the contracted value c of W_c (x) X_c *)
  Definition ymat (s : asite) : mat2 := fun i i' j j' => sum (dd s) (fun c => mW s c i j * mX s c i' j').
  Definition vmul2 (n n' : nat) (v : vec2) (Y : mat2) : vec2 :=
    fun j j' => sum n (fun i => sum n' (fun i' => v i i' * Y i i' j j')).
  Fixpoint prop2 (n n' : nat) (v : vec2) (l : list asite) : vec2 :=
    match l with [] => v | s :: t => prop2 (cw s) (cx s) (vmul2 n n' v (ymat s)) t end.

  Fixpoint propW (n : nat) (v : vec) (l : list asite) (cfg : list nat) : vec :=
    match l, cfg with s :: t, c :: cs => propW (cw s) (vmul n v (mW s c)) t cs | _, _ => v end.
  Fixpoint propX (n : nat) (v : vec) (l : list asite) (cfg : list nat) : vec :=
    match l, cfg with s :: t, c :: cs => propX (cx s) (vmul n v (mX s c)) t cs | _, _ => v end.

  (* sum over all configurations of a list of dimensions *)
  Fixpoint sum_cfgs (dims : list nat) (f : list nat -> K) : K :=
    match dims with [] => f [] | d :: t => sum d (fun c => sum_cfgs t (fun cs => f (c :: cs))) end.

  Lemma sum_cfgs_ext dims : forall f g, (forall cfg, f cfg = g cfg) -> sum_cfgs dims f = sum_cfgs dims g.
  Proof.
    induction dims as [|d t IH]; intros f g H; cbn; [apply H|].
    apply Sext. intros c _. apply IH. intros cs. apply H.
  Qed.

  Lemma vmul2_ext n n' v v' Y j j' : (forall i i', v i i' = v' i i') -> vmul2 n n' v Y j j' = vmul2 n n' v' Y j j'.
  Proof. intros H. unfold vmul2. apply Sext. intros i _. apply Sext. intros i' _. rewrite H. reflexivity. Qed.

  Lemma prop2_ext l : forall n n' v v', (forall i i', v i i' = v' i i') -> forall j j', prop2 n n' v l j j' = prop2 n n' v' l j j'.
  Proof.
    induction l as [|s t IH]; intros n n' v v' H j j'; cbn; [apply H|].
    apply IH. intros i i'. apply vmul2_ext. exact H.
  Qed.

  Lemma vmul2_sum n n' m (V : nat -> vec2) Y j j' :
    vmul2 n n' (fun i i' => sum m (fun c => V c i i')) Y j j' = sum m (fun c => vmul2 n n' (V c) Y j j').
  Proof.
    unfold vmul2.
    rewrite (Sext n _ (fun i => sum m (fun c => sum n' (fun i' => V c i i' * Y i i' j j')))).
    2:{ intros i _. rewrite <- Sswap. apply Sext. intros i' _. rewrite Smul_r. reflexivity. }
    apply Sswap.
  Qed.

  (* linearity of the propagation in its start vector *)
  Lemma prop2_sum l : forall n n' m (V : nat -> vec2) j j',
    prop2 n n' (fun i i' => sum m (fun c => V c i i')) l j j' = sum m (fun c => prop2 n n' (V c) l j j').
  Proof.
    induction l as [|s t IH]; intros n n' m V j j'; cbn; [reflexivity|].
    rewrite (prop2_ext t (cw s) (cx s) _ (fun a b => sum m (fun c => vmul2 n n' (V c) (ymat s) a b))).
    - apply IH.
    - intros a b. apply vmul2_sum.
  Qed.

  (* the one-site identity: (x (x) y) . sum_c (W_c (x) X_c) = sum_c (x.W_c) (x) (y.X_c) *)
  Lemma vmul2_product n n' x y s a b :
    vmul2 n n' (fun i i' => x i * y i') (ymat s) a b
    = sum (dd s) (fun c => vmul n x (mW s c) a * vmul n' y (mX s c) b).
  Proof.
    unfold vmul2, ymat, vmul.
    (* right side -> sum_c sum_i sum_i' *)
    rewrite (Sext (dd s) (fun c => sum n (fun i => x i * mW s c i a) * sum n' (fun i => y i * mX s c i b))
                  (fun c => sum n (fun i => sum n' (fun i' => (x i * y i') * (mW s c i a * mX s c i' b))))).
    2:{ intros c _. rewrite <- Smul_r. apply Sext. intros i _. rewrite <- Smul_l. apply Sext. intros i' _. ring. }
    (* left side -> sum_i sum_i' sum_c *)
    rewrite (Sext n _ (fun i => sum (dd s) (fun c => sum n' (fun i' => (x i * y i') * (mW s c i a * mX s c i' b))))).
    2:{ intros i _. rewrite <- Sswap. apply Sext. intros i' _. rewrite Smul_l. reflexivity. }
    apply Sswap.
  Qed.

  Theorem apply_core l : forall n n' x y j j',
    prop2 n n' (fun i i' => x i * y i') l j j'
    = sum_cfgs (map dd l) (fun cfg => propW n x l cfg j * propX n' y l cfg j').
  Proof.
    induction l as [|s t IH]; intros n n' x y j j'; cbn [prop2 map sum_cfgs propW propX]; [reflexivity|].
    rewrite (prop2_ext t (cw s) (cx s) _
               (fun a b => sum (dd s) (fun c => vmul n x (mW s c) a * vmul n' y (mX s c) b))).
    2:{ intros a b. apply vmul2_product. }
    rewrite (prop2_sum t (cw s) (cx s) (dd s)
               (fun c a b => vmul n x (mW s c) a * vmul n' y (mX s c) b)).
    apply Sext. intros c _. apply IH.
  Qed.

  (* fusing the pair of bonds into one axis (fuse_multibonds) is a relabelling of the sum *)
  Lemma fuse_pair_sum a b (f : nat -> nat -> K) :
    sum a (fun i => sum b (fun i' => f i i')) = sum (a * b) (fun I => f (I / b)%nat (I mod b)%nat).
  Proof.
    rewrite (sum_prod K k0 k1 kadd kmul ksub kopp Kring).
    apply Sext. intros i _. apply Sext. intros i' Hi'.
    assert (Hb : b <> 0%nat) by lia.
    rewrite Nat.div_add_l by exact Hb. rewrite (Nat.div_small i' b Hi'). rewrite Nat.add_0_r.
    rewrite Nat.add_comm. rewrite Nat.mod_add by exact Hb. rewrite (Nat.mod_small i' b Hi'). reflexivity.
  Qed.

  (* ---- operators: site tensors W u d (upper value, lower value) ---- *)
  Inductive which := Lower | Upper.

  Record osite := { du : nat; dl : nat; ocw : nat; ocx : nat; oW : nat -> nat -> mat; oX : nat -> mat }.

  (* tensor_network_apply_op_vec: which_A = Lower contracts A's LOWER label with the ket
     and re-labels A's UPPER label as the ket's site label; Upper is the reverse *)
  Definition wsel (w : which) (W : nat -> nat -> mat) (kept c : nat) : mat :=
    match w with Lower => W kept c | Upper => W c kept end.
  Definition cdim (w : which) (s : osite) : nat := match w with Lower => dl s | Upper => du s end.
  Fixpoint vsites (w : which) (l : list osite) (kept : list nat) : list asite :=
    match l, kept with
    | s :: t, k :: ks => {| dd := cdim w s; cw := ocw s; cx := ocx s; mW := wsel w (oW s) k; mX := oX s |} :: vsites w t ks
    | _, _ => []
    end.
  Definition apply_vec_amp (w : which) (l : list osite) (kept : list nat) : K :=
    prop2 1 1 (fun _ _ => k1) (vsites w l kept) 0%nat 0%nat.

  (* <us| Op |ds> and <ps|x> of the INPUT chains *)
  Fixpoint opW (n : nat) (v : vec) (l : list osite) (us ds : list nat) : vec :=
    match l, us, ds with s :: t, u :: us', d :: ds' => opW (ocw s) (vmul n v (oW s u d)) t us' ds' | _, _, _ => v end.
  Fixpoint ketX (n : nat) (v : vec) (l : list osite) (ps : list nat) : vec :=
    match l, ps with s :: t, p :: ps' => ketX (ocx s) (vmul n v (oX s p)) t ps' | _, _ => v end.
  Definition op_amp l us ds : K := opW 1 (fun _ => k1) l us ds 0%nat.
  Definition ket_amp l ps : K := ketX 1 (fun _ => k1) l ps 0%nat.

  Lemma propW_vsites_lower l : forall n v us cfg, propW n v (vsites Lower l us) cfg = opW n v l us cfg.
  Proof.
    induction l as [|s t IH]; intros n v us cfg; destruct us as [|u us]; destruct cfg as [|c cs]; cbn; try reflexivity.
    apply IH.
  Qed.
  Lemma propW_vsites_upper l : forall n v ds cfg, propW n v (vsites Upper l ds) cfg = opW n v l cfg ds.
  Proof.
    induction l as [|s t IH]; intros n v ds cfg; destruct ds as [|d ds]; destruct cfg as [|c cs]; cbn; try reflexivity.
    apply IH.
  Qed.
  Lemma propX_vsites w l : forall n v kept cfg, length kept = length l -> propX n v (vsites w l kept) cfg = ketX n v l cfg.
  Proof.
    induction l as [|s t IH]; intros n v kept cfg H; destruct kept as [|k ks]; destruct cfg as [|c cs]; cbn in *; try reflexivity; try lia.
    apply IH. lia.
  Qed.
  Lemma map_dd_vsites w l : forall kept, length kept = length l -> map dd (vsites w l kept) = map (cdim w) l.
  Proof.
    induction l as [|s t IH]; intros kept H; destruct kept as [|k ks]; cbn in *; try reflexivity; try lia.
    f_equal. apply IH. lia.
  Qed.

  Lemma apply_core_ones l j j' :
    prop2 1 1 (fun _ _ => k1) l j j'
    = sum_cfgs (map dd l) (fun cfg => propW 1 (fun _ => k1) l cfg j * propX 1 (fun _ => k1) l cfg j').
  Proof.
    rewrite <- (apply_core l 1 1 (fun _ => k1) (fun _ => k1)).
    apply prop2_ext. intros i i'. ring.
  Qed.

  (* which_A = "lower":  (A x)(us) = sum_ds <us|A|ds> x(ds) *)
  Theorem apply_op_vec_lower l us : length us = length l ->
    apply_vec_amp Lower l us = sum_cfgs (map dl l) (fun ds => op_amp l us ds * ket_amp l ds).
  Proof.
    intros H. unfold apply_vec_amp.
    rewrite apply_core_ones. rewrite (map_dd_vsites Lower l us H).
    apply sum_cfgs_ext. intros cfg. unfold op_amp, ket_amp.
    rewrite propW_vsites_lower. rewrite (propX_vsites Lower l _ _ us cfg H). reflexivity.
  Qed.

  (* which_A = "upper":  (A^T x)(ds) = sum_us <us|A|ds> x(us) *)
  Theorem apply_op_vec_upper l ds : length ds = length l ->
    apply_vec_amp Upper l ds = sum_cfgs (map du l) (fun us => op_amp l us ds * ket_amp l us).
  Proof.
    intros H. unfold apply_vec_amp.
    rewrite apply_core_ones. rewrite (map_dd_vsites Upper l ds H).
    apply sum_cfgs_ext. intros cfg. unfold op_amp, ket_amp.
    rewrite propW_vsites_upper. rewrite (propX_vsites Upper l _ _ ds cfg H). reflexivity.
  Qed.

  (* ---- operator on operator: the four (which_A, which_B) cases ---- *)
  Record ppsite := { pua : nat; pla : nat; pub : nat; plb : nat; pcw : nat; pcx : nat;
                     pA : nat -> nat -> mat; pB : nat -> nat -> mat }.

  (* the result keeps B's outer labels: result upper/lower values ru, rd.
     As coded: which_B = Upper -> B's upper label is contracted, A's remaining label
     becomes the result's UPPER label and B's lower stays; which_B = Lower -> B's lower
     label is contracted, A's remaining label becomes the result's LOWER label. *)
  Definition ccdim (wA : which) (s : ppsite) : nat := match wA with Lower => pla s | Upper => pua s end.
  Definition keptA (wB : which) (ru rd : nat) : nat := match wB with Upper => ru | Lower => rd end.
  Definition bsel (wB : which) (B : nat -> nat -> mat) (ru rd c : nat) : mat :=
    match wB with Upper => B c rd | Lower => B ru c end.
  Fixpoint oosites (wA wB : which) (l : list ppsite) (rus rds : list nat) : list asite :=
    match l, rus, rds with
    | s :: t, ru :: rus', rd :: rds' =>
        {| dd := ccdim wA s; cw := pcw s; cx := pcx s;
           mW := wsel wA (pA s) (keptA wB ru rd); mX := bsel wB (pB s) ru rd |} :: oosites wA wB t rus' rds'
    | _, _, _ => []
    end.
  Definition apply_op_amp (wA wB : which) l rus rds : K :=
    prop2 1 1 (fun _ _ => k1) (oosites wA wB l rus rds) 0%nat 0%nat.

  Fixpoint opA (n : nat) (v : vec) (l : list ppsite) (us ds : list nat) : vec :=
    match l, us, ds with s :: t, u :: us', d :: ds' => opA (pcw s) (vmul n v (pA s u d)) t us' ds' | _, _, _ => v end.
  Fixpoint opB (n : nat) (v : vec) (l : list ppsite) (us ds : list nat) : vec :=
    match l, us, ds with s :: t, u :: us', d :: ds' => opB (pcx s) (vmul n v (pB s u d)) t us' ds' | _, _, _ => v end.
  Definition A_amp l us ds : K := opA 1 (fun _ => k1) l us ds 0%nat.
  Definition B_amp l us ds : K := opB 1 (fun _ => k1) l us ds 0%nat.

  Definition A_entry (wA wB : which) l rus rds cs : K :=
    let kept := match wB with Upper => rus | Lower => rds end in
    match wA with Lower => A_amp l kept cs | Upper => A_amp l cs kept end.
  Definition B_entry (wB : which) l rus rds cs : K :=
    match wB with Upper => B_amp l cs rds | Lower => B_amp l rus cs end.

  Lemma propW_oosites wA wB l : forall n v rus rds cfg, length rus = length l -> length rds = length l ->
    propW n v (oosites wA wB l rus rds) cfg
    = match wA with
      | Lower => opA n v l (match wB with Upper => rus | Lower => rds end) cfg
      | Upper => opA n v l cfg (match wB with Upper => rus | Lower => rds end)
      end.
  Proof.
    induction l as [|s t IH]; intros n v rus rds cfg H1 H2;
      destruct rus as [|ru rus]; destruct rds as [|rd rds]; cbn in H1, H2; try lia.
    - destruct wA, wB; destruct cfg; reflexivity.
    - destruct cfg as [|c cs].
      + destruct wA, wB; reflexivity.
      + cbn [oosites propW cw mW]. rewrite IH by lia.
        destruct wA, wB; reflexivity.
  Qed.
  Lemma propX_oosites wA wB l : forall n v rus rds cfg, length rus = length l -> length rds = length l ->
    propX n v (oosites wA wB l rus rds) cfg
    = match wB with Upper => opB n v l cfg rds | Lower => opB n v l rus cfg end.
  Proof.
    induction l as [|s t IH]; intros n v rus rds cfg H1 H2;
      destruct rus as [|ru rus]; destruct rds as [|rd rds]; cbn in H1, H2; try lia.
    - destruct wB; destruct cfg; reflexivity.
    - destruct cfg as [|c cs].
      + destruct wB; reflexivity.
      + cbn [oosites propX cx mX]. rewrite IH by lia.
        destruct wB; reflexivity.
  Qed.
  Lemma map_dd_oosites wA wB l : forall rus rds, length rus = length l -> length rds = length l ->
    map dd (oosites wA wB l rus rds) = map (ccdim wA) l.
  Proof.
    induction l as [|s t IH]; intros rus rds H1 H2; destruct rus as [|ru rus]; destruct rds as [|rd rds]; cbn in *; try reflexivity; try lia.
    f_equal. apply IH; lia.
  Qed.

  Theorem apply_op_op_sound wA wB l rus rds : length rus = length l -> length rds = length l ->
    apply_op_amp wA wB l rus rds
    = sum_cfgs (map (ccdim wA) l) (fun cs => A_entry wA wB l rus rds cs * B_entry wB l rus rds cs).
  Proof.
    intros H1 H2. unfold apply_op_amp.
    rewrite apply_core_ones. rewrite (map_dd_oosites wA wB l rus rds H1 H2).
    apply sum_cfgs_ext. intros cfg. unfold A_entry, B_entry, A_amp, B_amp.
    rewrite (propW_oosites wA wB l _ _ rus rds cfg H1 H2).
    rewrite (propX_oosites wA wB l _ _ rus rds cfg H1 H2).
    destruct wA, wB; reflexivity.
  Qed.
End Chain.

(* C09 - a single truncation in canonical form: discarding Schmidt terms changes the
   state by exactly the root-sum-square of the discarded values (Pythagoras), over any
   commutative ring with an involution.  This is the one-step core of the error bound of
   the 'direct' compression method; the accumulation over a whole sweep is NOT proved
   here (it is exercised by the oracle stream). *)
From Coq Require Import Arith List Lia Ring PeanoNat Bool.
From QV Require Import Base.Sums.
Import ListNotations.

Section Trunc.
  Variable K : Type.
  Variables (k0 k1 : K) (kadd kmul ksub : K -> K -> K) (kopp : K -> K).
  Hypothesis Kring : ring_theory k0 k1 kadd kmul ksub kopp eq.
  Add Ring KrT : Kring.
  Infix "+" := kadd. Infix "*" := kmul.
  Notation sum := (sum K k0 kadd).

  Variable conj : K -> K.
  Hypothesis conj_add : forall a b, conj (a + b) = conj a + conj b.
  Hypothesis conj_mul : forall a b, conj (a * b) = conj a * conj b.

  Lemma Text n f g : (forall i, (i < n)%nat -> f i = g i) -> sum n f = sum n g.
  Proof. apply sum_ext. Qed.
  Lemma Tswap n m (f : nat -> nat -> K) :
    sum n (fun i => sum m (fun j => f i j)) = sum m (fun j => sum n (fun i => f i j)).
  Proof. apply (sum_swap K k0 k1 kadd kmul ksub kopp Kring). Qed.
  Lemma Tmul_l n c f : sum n (fun i => c * f i) = c * sum n f.
  Proof. apply (sum_mul_l K k0 k1 kadd kmul ksub kopp Kring). Qed.
  Lemma Tmul_r n c f : sum n (fun i => f i * c) = sum n f * c.
  Proof. apply (sum_mul_r K k0 k1 kadd kmul ksub kopp Kring). Qed.

  Lemma conj_zero : conj k0 = k0.
  Proof.
    assert (H : conj k0 = conj k0 + conj k0) by (rewrite <- conj_add; f_equal; ring).
    assert (H2 : conj k0 + kopp (conj k0) = (conj k0 + conj k0) + kopp (conj k0)) by (rewrite <- H; reflexivity).
    transitivity ((conj k0 + conj k0) + kopp (conj k0)); [ring | rewrite <- H2; ring].
  Qed.

  Lemma conj_sum n f : conj (sum n f) = sum n (fun i => conj (f i)).
  Proof. induction n as [|n IH]; cbn; [apply conj_zero|]. rewrite conj_add, IH. reflexivity. Qed.

  Lemma sum_mul_sum n m f g :
    sum n f * sum m g = sum n (fun i => sum m (fun j => f i * g j)).
  Proof.
    rewrite <- Tmul_r. apply Text. intros i _. rewrite Tmul_l. reflexivity.
  Qed.

  (* sum_x sum_y sum_i sum_j  =  sum_i sum_j sum_x sum_y *)
  Lemma sum4_reorder nx ny m (F : nat -> nat -> nat -> nat -> K) :
    sum nx (fun x => sum ny (fun y => sum m (fun i => sum m (fun j => F x y i j))))
    = sum m (fun i => sum m (fun j => sum nx (fun x => sum ny (fun y => F x y i j)))).
  Proof.
    rewrite (Text nx _ (fun x => sum m (fun i => sum ny (fun y => sum m (fun j => F x y i j))))).
    2:{ intros x _. apply Tswap. }
    rewrite Tswap. apply Text. intros i _.
    rewrite (Text nx _ (fun x => sum m (fun j => sum ny (fun y => F x y i j)))).
    2:{ intros x _. apply Tswap. }
    apply Tswap.
  Qed.

  (* m discarded terms u_i * alpha_i (x) beta_i with orthonormal alpha's and beta's *)
  Variables (na nb m : nat).
  Variables (u : nat -> K) (alpha beta : nat -> nat -> K).
  Definition delta (i j : nat) : K := if Nat.eqb j i then k1 else k0.
  Hypothesis alpha_on : forall i j, (i < m)%nat -> (j < m)%nat ->
    sum na (fun x => conj (alpha i x) * alpha j x) = delta i j.
  Hypothesis beta_on : forall i j, (i < m)%nat -> (j < m)%nat ->
    sum nb (fun y => conj (beta i y) * beta j y) = delta i j.

  Definition tail (x y : nat) : K := sum m (fun i => u i * (alpha i x * beta i y)).

  Theorem tail_norm2 :
    sum na (fun x => sum nb (fun y => conj (tail x y) * tail x y)) = sum m (fun i => conj (u i) * u i).
  Proof.
    unfold tail.
    rewrite (Text na _ (fun x => sum nb (fun y => sum m (fun i => sum m (fun j =>
               (conj (u i) * u j) * ((conj (alpha i x) * alpha j x) * (conj (beta i y) * beta j y))))))).
    2:{ intros x _. apply Text. intros y _. rewrite conj_sum. rewrite sum_mul_sum.
        apply Text. intros i _. apply Text. intros j _. rewrite !conj_mul. ring. }
    rewrite sum4_reorder. apply Text. intros i Hi.
    rewrite (Text m _ (fun j => if Nat.eqb j i then conj (u i) * u j else k0)).
    - apply (sum_delta K k0 k1 kadd kmul ksub kopp Kring m i (fun j => conj (u i) * u j) Hi).
    - intros j Hj.
      rewrite (Text na _ (fun x => (conj (u i) * u j) * ((conj (alpha i x) * alpha j x) * sum nb (fun y => conj (beta i y) * beta j y)))).
      2:{ intros x _. rewrite Tmul_l. rewrite Tmul_l. reflexivity. }
      rewrite Tmul_l. rewrite Tmul_r. rewrite alpha_on, beta_on by assumption.
      unfold delta. destruct (Nat.eqb j i); ring.
  Qed.
End Trunc.

(* the truncated state differs from the full one by exactly the tail *)
Section Split.
  Variable K : Type.
  Variables (k0 k1 : K) (kadd kmul ksub : K -> K -> K) (kopp : K -> K).
  Hypothesis Kring : ring_theory k0 k1 kadd kmul ksub kopp eq.
  Add Ring KrS : Kring.

  Lemma full_is_kept_plus_tail D m (t : nat -> K) :
    sum K k0 kadd (D + m) t = kadd (sum K k0 kadd D t) (sum K k0 kadd m (fun i => t (D + i)%nat)).
  Proof. apply (sum_app K k0 k1 kadd kmul ksub kopp Kring). Qed.
End Split.

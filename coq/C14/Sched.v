(* Schedule independence, generically: message ids M with a well-founded
   dependency rank; an update of a message whose lower-ranked messages are all
   "good" yields a good message.  Then after k rounds of ANY fair schedule
   (every round = any sequence of steps, every step = any set of messages
   recomputed together from the current state - a singleton is a sequential
   update, the whole set a parallel one; every valid message is recomputed at
   least once per round) every message of rank < k is good, and stays good. *)
From Coq Require Import Arith List Lia.
Import ListNotations.

Section Sched.
  Variables (M msg : Type).
  Variable M_dec : forall a b : M, {a = b} + {a <> b}.
  Definition gstate := M -> msg.
  Variable valid : M -> Prop.
  Variable rank : M -> nat.
  Variable good : M -> msg -> Prop.
  Variable same : msg -> msg -> Prop.
  Hypothesis good_same : forall id m m', same m m' -> good id m -> good id m'.
  Variable Upd : gstate -> M -> msg -> Prop.
  Hypothesis Upd_sound : forall s id v, valid id ->
    (forall id', valid id' -> rank id' < rank id -> good id' (s id')) -> Upd s id v -> good id v.

  Definition step (S : list M) (s s' : gstate) : Prop :=
    (forall id, In id S -> Upd s id (s' id)) /\ (forall id, ~ In id S -> same (s id) (s' id)).

  Inductive steps : gstate -> list (list M) -> gstate -> Prop :=
  | steps_nil s : steps s [] s
  | steps_cons s S s1 r s2 : step S s s1 -> steps s1 r s2 -> steps s (S :: r) s2.

  Definition covers (r : list (list M)) : Prop :=
    forall id, valid id -> exists S, In S r /\ In id S.

  Inductive rounds : gstate -> list (list (list M)) -> gstate -> Prop :=
  | rounds_nil s : rounds s [] s
  | rounds_cons s r s1 rs s2 : steps s r s1 -> rounds s1 rs s2 -> rounds s (r :: rs) s2.

  Definition Inv (k : nat) (s : gstate) : Prop :=
    forall id, valid id -> rank id < k -> good id (s id).

  Lemma step_good k S s s' id : Inv k s -> step S s s' -> valid id -> rank id <= k ->
    (good id (s id) \/ In id S) -> good id (s' id).
  Proof.
    intros HI [Hin Hout] Hv Hr Hg.
    destruct (in_dec M_dec id S) as [i|n].
    - apply (Upd_sound s id); [exact Hv | | apply Hin; exact i].
      intros id' Hv' Hr'. apply HI; [exact Hv' | lia].
    - destruct Hg as [Hg|Hg]; [|contradiction].
      apply (good_same id (s id)); [apply Hout; exact n | exact Hg].
  Qed.

  Lemma step_inv k S s s' : Inv k s -> step S s s' -> Inv k s'.
  Proof.
    intros HI Hs id Hv Hr. apply (step_good k S s s' id HI Hs Hv); [lia|].
    left. apply HI; assumption.
  Qed.

  Lemma steps_inv k r s s' : steps s r s' -> Inv k s -> Inv k s'.
  Proof. induction 1 as [|s S s1 r s2 Hs _ IH]; intros HI; [exact HI|]. apply IH. exact (step_inv k S s s1 HI Hs). Qed.

  Lemma steps_progress k r s s' : steps s r s' -> Inv k s ->
    forall id, valid id -> rank id <= k ->
      (good id (s id) \/ exists S, In S r /\ In id S) -> good id (s' id).
  Proof.
    induction 1 as [s|s S s1 r s2 Hs _ IH]; intros HI id Hv Hr Hg.
    - destruct Hg as [Hg|(S & [] & _)]. exact Hg.
    - apply IH; [exact (step_inv k S s s1 HI Hs) | exact Hv | exact Hr |].
      destruct (in_dec M_dec id S) as [i|n].
      + left. apply (step_good k S s s1 id HI Hs Hv Hr). right. exact i.
      + destruct Hg as [Hg|(S' & [HS'|HS'] & Hi)].
        * left. apply (step_good k S s s1 id HI Hs Hv Hr). left. exact Hg.
        * subst S'. contradiction.
        * right. exists S'. split; assumption.
  Qed.

  Lemma round_inv k r s s' : steps s r s' -> covers r -> Inv k s -> Inv (S k) s'.
  Proof.
    intros Hs Hc HI id Hv Hr.
    apply (steps_progress k r s s' Hs HI id Hv); [lia|]. right. apply Hc. exact Hv.
  Qed.

  Lemma rounds_inv rs : forall s s' k, rounds s rs s' -> Forall covers rs -> Inv k s -> Inv (length rs + k) s'.
  Proof.
    induction rs as [|r rs IH]; intros s s' k Hr Hc HI.
    - inversion Hr; subst. exact HI.
    - inversion Hr as [|? ? s1 ? ? Hs Hrest]; subst.
      inversion Hc as [|? ? Hc1 Hc2]; subst.
      cbn [length]. replace (S (length rs) + k) with (length rs + S k) by lia.
      apply (IH s1 s' (S k) Hrest Hc2). exact (round_inv k r s s1 Hs Hc1 HI).
  Qed.

  (* from ANY initial state *)
  Theorem fair_schedule_converges s0 rs s : rounds s0 rs s -> Forall covers rs ->
    forall id, valid id -> rank id < length rs -> good id (s id).
  Proof.
    intros Hr Hc id Hv Hk.
    assert (HI : Inv 0 s0) by (intros ? ? H; lia).
    pose proof (rounds_inv rs s0 s 0 Hr Hc HI) as H. apply H; [exact Hv | lia].
  Qed.

  Definition all_good (s : gstate) : Prop := forall id, valid id -> good id (s id).

  (* once every message is good, any further (not necessarily fair) steps keep it so *)
  Theorem all_good_stable r s s' : steps s r s' -> all_good s -> all_good s'.
  Proof.
    intros Hs Hg id Hv.
    assert (HI : Inv (S (rank id)) s) by (intros id' Hv' _; apply Hg; exact Hv').
    apply (steps_inv _ r s s' Hs HI); [exact Hv | lia].
  Qed.

  (* a fixed point of the update (every message is an admissible update of itself) is all good *)
  Theorem fixed_point_good s : (forall id, valid id -> Upd s id (s id)) -> all_good s.
  Proof.
    intros Hfix.
    assert (H : forall k, Inv k s).
    { induction k as [|k IH]; intros id Hv Hr; [lia|].
      apply (Upd_sound s id); [exact Hv | | apply Hfix; exact Hv].
      intros id' Hv' Hr'. apply IH; [exact Hv' | lia]. }
    intros id Hv. apply (H (S (rank id))); [exact Hv | lia].
  Qed.

  (* damped updates: admissible new value also depends on the old one; they keep
     an all-good state all good (damping only delays, it never changes the target) *)
  Variable UpdD : gstate -> M -> msg -> Prop.
  Hypothesis UpdD_sound : forall s id v, valid id ->
    (forall id', valid id' -> good id' (s id')) -> UpdD s id v -> good id v.

  Definition stepD (S : list M) (s s' : gstate) : Prop :=
    (forall id, In id S -> UpdD s id (s' id)) /\ (forall id, ~ In id S -> same (s id) (s' id)).

  Theorem all_good_stable_damped S s s' : stepD S s s' -> all_good s -> all_good s'.
  Proof.
    intros [Hin Hout] Hg id Hv.
    destruct (in_dec M_dec id S) as [i|n].
    - apply (UpdD_sound s id); [exact Hv | exact Hg | apply Hin; exact i].
    - apply (good_same id (s id)); [apply Hout; exact n | apply Hg; exact Hv].
  Qed.
End Sched.

(* Belief propagation on tensor trees over any commutative ring: exactness of
   the messages, of the Bethe combination and of the marginals; the update rule
   instantiates the generic schedule theorem of C14/Sched.v. *)
From Coq Require Import Arith List Bool Lia Ring PeanoNat.
From QV Require Import Base.Sums C14.Model C14.Contract C14.Sched.
Import ListNotations.

Section Tree.
  Variable K : Type.
  Variables (k0 k1 : K) (kadd kmul ksub : K -> K -> K) (kopp : K -> K).
  Hypothesis Kring : ring_theory k0 k1 kadd kmul ksub kopp eq.
  Add Ring Kr14t : Kring.
  Infix "+" := kadd. Infix "*" := kmul.
  Notation sum := (Sums.sum K k0 kadd).
  Notation sumW := (Model.sumW K k0 kadd kmul).
  Notation outW := (Model.outW K k0 kadd kmul).
  Notation vec := (Model.vec K).
  Notation tensor := (Model.tensor K).
  Notation ttree := (Model.ttree K).
  Notation tforest := (Model.tforest K).
  Notation ndim := (Model.ndim K).
  Notation kids := (Model.kids K).
  Notation dimsF := (Model.dimsF K).
  Notation nthF := (Model.nthF K).
  Notation ldims := (Model.ldims K).
  Notation tens := (Model.tens K).
  Notation upT := (Model.upT K k0 kadd kmul).
  Notation upsF := (Model.upsF K k0 kadd kmul).
  Notation value := (Model.value K k0 kadd kmul).
  Notation heightT := (Model.heightT K).
  Notation heightF := (Model.heightF K).
  Notation sub := (Model.sub K).
  Notation incE := (Model.incE K k0 kadd kmul).
  Notation dnAt := (Model.dnAt K k0 kadd kmul).
  Notation dnT := (Model.dnT K k0 k1 kadd kmul).
  Notation state := (Model.state K).
  Notation inc := (Model.inc K k1).
  Notation rawmsg := (Model.rawmsg K k0 k1 kadd kmul).
  Notation Znode := (Model.Znode K k0 k1 kadd kmul).
  Notation Zbond := (Model.Zbond K k0 kadd kmul).
  Notation nodeZs := (Model.nodeZs K k0 k1 kadd kmul).
  Notation nodeZsF := (Model.nodeZsF K k0 k1 kadd kmul).
  Notation bondZs := (Model.bondZs K k0 kadd kmul).
  Notation bondZsF := (Model.bondZsF K k0 kadd kmul).
  Notation lprod := (Model.lprod K k1 kmul).
  Notation exact_state := (Model.exact_state K k0 k1 kadd kmul).
  Notation bond_marg := (Model.bond_marg K kmul).
  Notation node_marg := (Model.node_marg K k1 kmul).
  Notation wprod := (Model.wprod K k1 kmul).
  Notation scalev := (Model.scalev K kmul).
  Notation dampv := (Model.dampv K kadd kmul).

  Let sum_ext' := sum_ext' K k0 kadd.
  Let sum_mul_l' := sum_mul_l' K k0 k1 kadd kmul ksub kopp Kring.
  Let sumW_ext := sumW_ext K k0 kadd kmul.
  Let sumW_scale_ex := sumW_scale_ex K k0 k1 kadd kmul ksub kopp Kring.
  Let outW_scale_ex := outW_scale_ex K k0 k1 kadd kmul ksub kopp Kring.
  Let sum_out_in := sum_out_in K k0 k1 kadd kmul ksub kopp Kring.

  Scheme ttree_mut := Induction for Model.ttree Sort Prop
  with tforest_mut := Induction for Model.tforest Sort Prop.
  Combined Scheme ttree_tforest_mutind from ttree_mut, tforest_mut.

  (* ---------- structure lemmas ---------- *)
  Lemma nthF_facts cs : forall j c, nthF cs j = Some c ->
    (j < length (dimsF cs))%nat /\ nth j (dimsF cs) 0%nat = ndim c /\ upsF cs j = upT c.
  Proof.
    induction cs as [|t r IH]; intros j c H; cbn in H; [discriminate|].
    destruct j as [|j].
    - injection H as <-. cbn. repeat split. lia.
    - destruct (IH j c H) as (A & B & C). cbn [Model.dimsF length nth Model.upsF]. repeat split; [lia | exact B | exact C].
  Qed.

  Lemma nthF_some cs : forall j, (j < length (dimsF cs))%nat -> exists c, nthF cs j = Some c.
  Proof.
    induction cs as [|t r IH]; intros j Hj; cbn in Hj; [lia|].
    destruct j as [|j]; [exists t; reflexivity|]. cbn. apply IH. lia.
  Qed.

  Lemma height_child cs : forall j c, nthF cs j = Some c -> (S (heightT c) <= heightF cs)%nat.
  Proof.
    induction cs as [|t r IH]; intros j c H; cbn in H; [discriminate|].
    destruct j as [|j]; cbn [Model.heightF].
    - injection H as <-. apply Nat.le_max_l.
    - pose proof (IH j c H) as H1. etransitivity; [exact H1 | apply Nat.le_max_r].
  Qed.

  Lemma heightT_kids t : heightT t = heightF (kids t).
  Proof. destruct t; reflexivity. Qed.

  Lemma ldims_eq t : ldims t = ndim t :: dimsF (kids t).
  Proof. destruct t; reflexivity. Qed.

  Lemma sub_app p : forall t j, sub t (p ++ [j]) = match sub t p with Some c => nthF (kids c) j | None => None end.
  Proof.
    induction p as [|i p IH]; intros t j; cbn.
    - destruct (nthF (kids t) j); reflexivity.
    - destruct (nthF (kids t) i); [apply IH | reflexivity].
  Qed.

  Lemma height_sub p : forall t c, sub t p = Some c -> (heightT c + length p <= heightT t)%nat.
  Proof.
    induction p as [|i p IH]; intros t c H; cbn in H.
    - injection H as <-. cbn. lia.
    - destruct (nthF (kids t) i) as [c'|] eqn:E; [|discriminate].
      pose proof (IH c' c H). pose proof (height_child (kids t) i c' E).
      rewrite (heightT_kids t). cbn [length]. lia.
  Qed.

  Lemma upT_unfold t x : upT t x = sumW (dimsF (kids t)) (upsF (kids t)) (fun ys => tens t (x :: ys)).
  Proof. destruct t. reflexivity. Qed.

  Lemma upT_as_outW t dn x : upT t x = outW 0 (ldims t) (incE dn (kids t)) (tens t) x.
  Proof. destruct t. reflexivity. Qed.

  (* contraction of a subtree against a vector on its top bond *)
  Definition tot (t : ttree) (dn : vec) : K := sum (ndim t) (fun x => dn x * upT t x).

  Lemma tot_sumW t dn : tot t dn = sumW (ldims t) (incE dn (kids t)) (tens t).
  Proof. destruct t. reflexivity. Qed.

  Lemma tot_one t : tot t (fun _ => k1) = value t.
  Proof. unfold tot, Model.value. apply sum_ext'. intros; ring. Qed.

  Lemma dnAt_app p : forall t dn j,
    dnAt t dn (p ++ [j]) =
      match sub t p with
      | Some c => match nthF (kids c) j with
                  | Some _ => outW (S j) (ldims c) (incE (dnAt t dn p) (kids c)) (tens c)
                  | None => fun _ => k0
                  end
      | None => fun _ => k0
      end.
  Proof.
    induction p as [|i p IH]; intros t dn j; cbn.
    - destruct (nthF (kids t) j); reflexivity.
    - destruct (nthF (kids t) i); [apply IH | reflexivity].
  Qed.

  (* cutting ANY bond of the tree: (outside contraction) . (inside contraction) = whole value *)
  Lemma cut_any_bond p : forall t dn c, sub t p = Some c -> tot c (dnAt t dn p) = tot t dn.
  Proof.
    induction p as [|j p IH]; intros t dn c H; cbn in H.
    - injection H as <-. reflexivity.
    - destruct (nthF (kids t) j) as [c'|] eqn:E; [|discriminate].
      cbn [Model.dnAt]. rewrite E. rewrite (IH c' _ c H).
      destruct (nthF_facts (kids t) j c' E) as (Hj & Hd & Hu).
      unfold tot at 1. rewrite <- Hd, <- Hu.
      rewrite tot_sumW.
      rewrite <- (sum_out_in (ldims t) (S j) (incE dn (kids t)) (tens t)).
      2:{ rewrite ldims_eq. cbn [length]. lia. }
      rewrite ldims_eq. cbn [nth]. apply sum_ext'. intros y _.
      rewrite <- ldims_eq. cbn [Model.incE]. ring.
  Qed.

  Theorem cut_bond_value t p c : sub t p = Some c ->
    sum (ndim c) (fun x => upT c x * dnT t p x) = value t.
  Proof.
    intros H. rewrite <- tot_one. rewrite <- (cut_any_bond p t (fun _ => k1) c H).
    unfold tot, Model.dnT. apply sum_ext'. intros; ring.
  Qed.

  Lemma inc0_nonnil (s : state) p : p <> [] -> inc s p 0%nat = s p false.
  Proof. destruct p; [contradiction | reflexivity]. Qed.

  (* ---------- good messages ---------- *)
  Definition mid := (list nat * bool)%type.
  Definition mid_dec : forall a b : mid, {a = b} + {a <> b}.
  Proof. decide equality; [apply Bool.bool_dec | apply (list_eq_dec Nat.eq_dec)]. Defined.

  Variable t : ttree.

  Definition bdim (q : list nat) : nat := match sub t q with Some c => ndim c | None => O end.
  Definition valid (id : mid) : Prop := fst id <> [] /\ exists c, sub t (fst id) = Some c.
  (* a message is good when it is a scalar multiple of the exact contraction behind it *)
  Definition good (id : mid) (m : vec) : Prop :=
    exists a, forall x, (x < bdim (fst id))%nat -> m x = a * exact_state t (fst id) (snd id) x.
  Definition same (m m' : vec) : Prop := forall x, m x = m' x.
  Definition curry (s : mid -> vec) : state := fun q b => s (q, b).
  (* an admissible new value: any scalar (the normalisation) times the raw update *)
  Definition bp_upd (s : mid -> vec) (id : mid) (v : vec) : Prop :=
    exists c, forall x, (x < bdim (fst id))%nat -> v x = c * rawmsg t (curry s) (fst id) (snd id) x.
  (* with damping: lam * old + mu * (normalised new) *)
  Definition bp_upd_damped (s : mid -> vec) (id : mid) (v : vec) : Prop :=
    exists lam mu c, forall x, (x < bdim (fst id))%nat ->
      v x = lam * s id x + mu * (c * rawmsg t (curry s) (fst id) (snd id) x).
  Definition rank (id : mid) : nat :=
    if snd id then match sub t (fst id) with Some c => heightT c | None => O end
    else (S (heightT t) + length (fst id))%nat.

  Lemma good_same id m m' : same m m' -> good id m -> good id m'.
  Proof. intros Hs [a Ha]. exists a. intros x Hx. rewrite <- Hs. apply Ha. exact Hx. Qed.

  Lemma rank_bound id : valid id -> (rank id < 2 * heightT t + 2)%nat.
  Proof.
    intros [Hne [c Hc]]. unfold rank. pose proof (height_sub (fst id) t c Hc).
    destruct (snd id); [rewrite Hc|]; lia.
  Qed.

  Lemma upd_sound_raw (s : mid -> vec) id : valid id ->
    (forall id', valid id' -> (rank id' < rank id)%nat -> good id' (s id')) ->
    exists A, forall x, rawmsg t (curry s) (fst id) (snd id) x = A * exact_state t (fst id) (snd id) x.
  Proof.
    destruct id as [q b]. cbn [fst snd]. intros [Hne [c Hc]] Hlow. cbn [fst] in Hne, Hc.
    destruct b.
    - (* upward message *)
      unfold Model.rawmsg, Model.exact_state. rewrite Hc.
      destruct (outW_scale_ex (ldims c) 0%nat (inc (curry s) q) (incE (fun _ => k0) (kids c))) as [A HA].
      { intros j' Hj' Hne'. destruct j' as [|i]; [lia|].
        rewrite ldims_eq in Hj'. cbn [length] in Hj'.
        destruct (nthF_some (kids c) i) as [ci Hci]; [lia|].
        destruct (nthF_facts (kids c) i ci Hci) as (_ & Hd & Hu).
        assert (Hsub : sub t (q ++ [i]) = Some ci) by (rewrite sub_app, Hc; exact Hci).
        destruct (Hlow (q ++ [i], true)) as [a Ha].
        { split; cbn [fst]; [destruct q; discriminate | exists ci; exact Hsub]. }
        { unfold rank. cbn [fst snd]. rewrite Hsub, Hc.
          pose proof (height_child (kids c) i ci Hci). rewrite (heightT_kids c). lia. }
        exists a. intros x Hx. cbn [Model.inc Model.incE]. unfold curry.
        rewrite Ha.
        - unfold Model.exact_state. cbn [fst snd]. rewrite Hsub, Hu. reflexivity.
        - unfold bdim. cbn [fst]. rewrite Hsub. rewrite ldims_eq in Hx. cbn [nth] in Hx. rewrite Hd in Hx. exact Hx. }
      exists A. intros x. rewrite HA. rewrite <- upT_as_outW. reflexivity.
    - (* downward message *)
      destruct (exists_last Hne) as (p & j & ->).
      unfold Model.rawmsg, Model.exact_state. rewrite removelast_last, last_last.
      rewrite sub_app in Hc. destruct (sub t p) as [cp|] eqn:Hp; [|discriminate].
      unfold Model.dnT. rewrite dnAt_app, Hp, Hc.
      destruct (outW_scale_ex (ldims cp) (S j) (inc (curry s) p) (incE (dnAt t (fun _ => k1) p) (kids cp))) as [A HA].
      { intros j' Hj' Hne'. rewrite ldims_eq in Hj'. cbn [length] in Hj'.
        destruct j' as [|i].
        - (* the message from above *)
          destruct (list_eq_dec Nat.eq_dec p []) as [->|Hpn].
          + exists k1. intros x _. cbn. ring.
          + destruct (Hlow (p, false)) as [a Ha].
            { split; cbn [fst]; [exact Hpn | exists cp; exact Hp]. }
            { unfold rank. cbn [fst snd]. rewrite app_length. cbn. lia. }
            exists a. intros x Hx. rewrite (inc0_nonnil (curry s) p Hpn). cbn [Model.incE]. unfold curry.
            rewrite Ha.
            * unfold Model.exact_state, Model.dnT. reflexivity.
            * unfold bdim. cbn [fst]. rewrite Hp. rewrite ldims_eq in Hx. exact Hx.
        - (* a sibling subtree *)
          destruct (nthF_some (kids cp) i) as [ci Hci]; [lia|].
          destruct (nthF_facts (kids cp) i ci Hci) as (_ & Hd & Hu).
          assert (Hsub : sub t (p ++ [i]) = Some ci) by (rewrite sub_app, Hp; exact Hci).
          destruct (Hlow (p ++ [i], true)) as [a Ha].
          { split; cbn [fst]; [destruct p; discriminate | exists ci; exact Hsub]. }
          { unfold rank. cbn [fst snd]. rewrite Hsub.
            pose proof (height_sub (p ++ [i]) t ci Hsub). lia. }
          exists a. intros x Hx. cbn [Model.inc Model.incE]. unfold curry.
          rewrite Ha.
          + unfold Model.exact_state. cbn [fst snd]. rewrite Hsub, Hu. reflexivity.
          + unfold bdim. cbn [fst]. rewrite Hsub. rewrite ldims_eq in Hx. cbn [nth] in Hx. rewrite Hd in Hx. exact Hx. }
      exists A. intros x. apply HA.
  Qed.

  Lemma upd_sound (s : mid -> vec) id v : valid id ->
    (forall id', valid id' -> (rank id' < rank id)%nat -> good id' (s id')) ->
    bp_upd s id v -> good id v.
  Proof.
    intros Hv Hlow [c Hc]. destruct (upd_sound_raw s id Hv Hlow) as [A HA].
    exists (c * A). intros x Hx. rewrite Hc by exact Hx. rewrite HA. ring.
  Qed.

  Lemma upd_damped_sound (s : mid -> vec) id v : valid id ->
    (forall id', valid id' -> good id' (s id')) -> bp_upd_damped s id v -> good id v.
  Proof.
    intros Hv Hall (lam & mu & c & Hc).
    destruct (upd_sound_raw s id Hv (fun id' Hv' _ => Hall id' Hv')) as [A HA].
    destruct (Hall id Hv) as [a Ha].
    exists (lam * a + mu * (c * A)). intros x Hx. rewrite Hc by exact Hx. rewrite HA, Ha by exact Hx. ring.
  Qed.

  Definition all_good_state (s : state) : Prop :=
    forall q b, valid (q, b) -> good (q, b) (s q b).

  (* ---------- the Bethe combination ---------- *)
  Lemma lprod_app l1 l2 : lprod (l1 ++ l2) = lprod l1 * lprod l2.
  Proof. induction l1 as [|x l1 IH]; cbn [app Model.lprod]; [ring|]. rewrite IH. ring. Qed.

  Lemma nodeZs_node (s : state) q d T cs :
    nodeZs s q (Node d T cs) = Znode s q (Node d T cs) :: nodeZsF s q 0%nat cs.
  Proof. reflexivity. Qed.
  Lemma bondZs_node (s : state) q d T cs : bondZs s q (Node d T cs) = bondZsF s q 0%nat cs.
  Proof. reflexivity. Qed.
  Lemma nodeZsF_cons (s : state) q j c r :
    nodeZsF s q j (FCons c r) = nodeZs s (q ++ [j]) c ++ nodeZsF s q (S j) r.
  Proof. reflexivity. Qed.
  Lemma bondZsF_cons (s : state) q j c r :
    bondZsF s q j (FCons c r) = (Zbond s (q ++ [j]) (ndim c) :: bondZs s (q ++ [j]) c) ++ bondZsF s q (S j) r.
  Proof. reflexivity. Qed.
  Lemma sumW_upsF_cons c r (g : nat -> vec) (T : tensor) :
    sumW (dimsF (FCons c r)) (upsF (FCons c r)) T
    = sum (ndim c) (fun y => upT c y * sumW (dimsF r) (upsF r) (fun ys => T (y :: ys))).
  Proof. reflexivity. Qed.

  Section Bethe.
    Variable s : state.
    Hypothesis Hgood : all_good_state s.

    Lemma Znode_good q c a_dn A : sub t q = Some c ->
      (forall x, (x < ndim c)%nat -> inc s q 0%nat x = a_dn * dnT t q x) ->
      (forall T, sumW (dimsF (kids c)) (shift (inc s q)) T = A * sumW (dimsF (kids c)) (upsF (kids c)) T) ->
      Znode s q c = a_dn * A * value t.
    Proof.
      intros Hc Hdn HA. unfold Model.Znode. rewrite ldims_eq. cbn [Model.sumW].
      rewrite <- (cut_bond_value t q c Hc).
      rewrite <- sum_mul_l'. apply sum_ext'. intros x Hx.
      rewrite Hdn by exact Hx. rewrite HA. rewrite (upT_unfold c x). ring.
    Qed.

    Lemma down_witness q c : sub t q = Some c ->
      exists a_dn, forall x, (x < ndim c)%nat -> inc s q 0%nat x = a_dn * dnT t q x.
    Proof.
      intros Hc. destruct (list_eq_dec Nat.eq_dec q []) as [->|Hqn].
      - exists k1. intros x _. cbn. ring.
      - destruct (Hgood q false) as [a Ha].
        { split; cbn [fst]; [exact Hqn | exists c; exact Hc]. }
        exists a. intros x Hx. rewrite (inc0_nonnil s q Hqn).
        rewrite Ha; [reflexivity|]. unfold bdim. cbn [fst]. rewrite Hc. exact Hx.
    Qed.

    Lemma Zbond_good q c a a_dn : sub t q = Some c ->
      (forall x, (x < ndim c)%nat -> s q true x = a * upT c x) ->
      (forall x, (x < ndim c)%nat -> s q false x = a_dn * dnT t q x) ->
      Zbond s q (ndim c) = a * a_dn * value t.
    Proof.
      intros Hc Hu Hd. unfold Model.Zbond. rewrite <- (cut_bond_value t q c Hc).
      rewrite <- sum_mul_l'. apply sum_ext'. intros x Hx. rewrite Hu, Hd by exact Hx. ring.
    Qed.

    Definition P_tree (c : ttree) : Prop :=
      forall q, q <> [] -> sub t q = Some c ->
      forall a, (forall x, (x < ndim c)%nat -> s q true x = a * upT c x) ->
      a * lprod (nodeZs s q c) = Zbond s q (ndim c) * lprod (bondZs s q c).
    Definition P_forest (cs : tforest) : Prop :=
      forall q j0, (forall i ci, nthF cs i = Some ci -> sub t (q ++ [(j0 + i)%nat]) = Some ci) ->
      exists A, (forall T, sumW (dimsF cs) (fun i => s (q ++ [(j0 + i)%nat]) true) T = A * sumW (dimsF cs) (upsF cs) T)
                /\ A * lprod (nodeZsF s q j0 cs) = lprod (bondZsF s q j0 cs).

    Lemma bethe_mut : (forall c, P_tree c) /\ (forall cs, P_forest cs).
    Proof.
      apply ttree_tforest_mutind.
      - (* a node *)
        intros d T cs IHcs q Hne Hc a Ha.
        destruct (IHcs q 0%nat) as (A & HA1 & HA2).
        { intros i ci Hi. cbn [Nat.add]. rewrite sub_app, Hc. exact Hi. }
        destruct (down_witness q (Node d T cs) Hc) as [a_dn Hdn].
        assert (HZ : Znode s q (Node d T cs) = a_dn * A * value t).
        { apply Znode_good; [exact Hc | exact Hdn | exact HA1]. }
        assert (HB : Zbond s q d = a * a_dn * value t).
        { apply (Zbond_good q (Node d T cs) a a_dn Hc Ha).
          intros x Hx. rewrite <- Hdn by exact Hx. destruct q; [contradiction | reflexivity]. }
        rewrite nodeZs_node, bondZs_node. cbn [Model.lprod Model.ndim]. rewrite HZ, HB, <- HA2. ring.
      - (* no children *)
        intros q j0 _. exists k1. split; [intros T; cbn; ring | cbn; ring].
      - (* a child and the remaining children *)
        intros c IHc r IHr q j0 Hn.
        assert (Hc : sub t (q ++ [j0]) = Some c).
        { rewrite <- (Nat.add_0_r j0) at 1. apply Hn. reflexivity. }
        destruct (Hgood (q ++ [j0]) true) as [a_c Ha_c].
        { split; cbn [fst]; [destruct q; discriminate | exists c; exact Hc]. }
        assert (Ha : forall x, (x < ndim c)%nat -> s (q ++ [j0]) true x = a_c * upT c x).
        { intros x Hx. rewrite Ha_c.
          - unfold Model.exact_state. cbn [fst snd]. rewrite Hc. reflexivity.
          - unfold bdim. cbn [fst]. rewrite Hc. exact Hx. }
        pose proof (IHc (q ++ [j0]) ltac:(destruct q; discriminate) Hc a_c Ha) as Hsubtree.
        destruct (IHr q (S j0)) as (A' & HA1 & HA2).
        { intros i ci Hi. replace (S j0 + i)%nat with (j0 + S i)%nat by lia. apply Hn. exact Hi. }
        exists (a_c * A'). split.
        + intros T. rewrite (sumW_upsF_cons c r (fun _ _ => k0)). cbn [Model.dimsF Model.sumW].
          rewrite <- sum_mul_l'. apply sum_ext'. intros y Hy.
          rewrite Nat.add_0_r. rewrite Ha by exact Hy.
          rewrite (sumW_ext (dimsF r) (shift (fun i => s (q ++ [(j0 + i)%nat]) true))
                     (fun i => s (q ++ [(S j0 + i)%nat]) true) (fun ys => T (y :: ys)) (fun ys => T (y :: ys))).
          2:{ intros j x _ _. unfold shift. replace (j0 + S j)%nat with (S j0 + j)%nat by lia. reflexivity. }
          2: reflexivity.
          rewrite HA1. ring.
        + rewrite nodeZsF_cons, bondZsF_cons. rewrite !lprod_app. cbn [Model.lprod].
          rewrite <- HA2, <- Hsubtree. ring.
    Qed.

    (* prod Z_tensor = value * prod Z_bond : the normalisation scalars cancel *)
    Theorem bethe_exact : lprod (nodeZs s [] t) = value t * lprod (bondZs s [] t).
    Proof.
      destruct bethe_mut as [_ HF].
      destruct t as [d T cs] eqn:Et. rewrite <- Et in *.
      destruct (HF cs [] 0%nat) as (A & HA1 & HA2).
      { intros i ci Hi. cbn [Nat.add app]. rewrite Et. cbn. rewrite Hi. reflexivity. }
      assert (Hc : sub t [] = Some t) by reflexivity.
      assert (HZ : Znode s [] t = k1 * A * value t).
      { apply Znode_good; [exact Hc | intros x _; cbn; ring | rewrite Et; exact HA1]. }
      rewrite Et at 1 3. rewrite nodeZs_node, bondZs_node. cbn [Model.lprod]. rewrite <- Et. rewrite HZ, <- HA2. ring.
    Qed.

    (* index marginal read from the two messages of a bond = exact marginal (up to the common scalar) *)
    Theorem bond_marginal_exact q c : q <> [] -> sub t q = Some c ->
      exists A, (forall x, (x < ndim c)%nat -> bond_marg s q x = A * (upT c x * dnT t q x))
                /\ Zbond s q (ndim c) = A * value t.
    Proof.
      intros Hne Hc.
      destruct (Hgood q true) as [a Ha]. { split; [exact Hne | exists c; exact Hc]. }
      destruct (Hgood q false) as [b Hb]. { split; [exact Hne | exists c; exact Hc]. }
      assert (Hu : forall x, (x < ndim c)%nat -> s q true x = a * upT c x).
      { intros x Hx. rewrite Ha; [unfold Model.exact_state; cbn [fst snd]; rewrite Hc; reflexivity|].
        unfold bdim. cbn [fst]. rewrite Hc. exact Hx. }
      assert (Hd : forall x, (x < ndim c)%nat -> s q false x = b * dnT t q x).
      { intros x Hx. rewrite Hb; [reflexivity|]. unfold bdim. cbn [fst]. rewrite Hc. exact Hx. }
      exists (a * b). split.
      - intros x Hx. unfold Model.bond_marg. rewrite Hu, Hd by exact Hx. ring.
      - apply Zbond_good; assumption.
    Qed.
  End Bethe.
  (* ---------- tensor (node) marginals ---------- *)
  Let sumW_wprod_scale_ex := sumW_wprod_scale_ex K k0 k1 kadd kmul ksub kopp Kring.
  Let sumW_as_wprod := sumW_as_wprod K k0 k1 kadd kmul ksub kopp Kring.

  Lemma exact_inc q c : sub t q = Some c ->
    forall j x, (j < length (ldims c))%nat -> (x < nth j (ldims c) 0)%nat ->
      inc (exact_state t) q j x = incE (dnT t q) (kids c) j x.
  Proof.
    intros Hc j x Hj Hx. destruct j as [|i]; cbn [Model.inc Model.incE].
    - destruct q; reflexivity.
    - rewrite ldims_eq in Hj. cbn [length] in Hj.
      destruct (nthF_some (kids c) i) as [ci Hci]; [lia|].
      destruct (nthF_facts (kids c) i ci Hci) as (_ & _ & Hu).
      unfold Model.exact_state. rewrite sub_app, Hc, Hci, Hu. reflexivity.
  Qed.

  (* with the exact messages every local tensor contraction IS the value of the network *)
  Theorem Znode_exact q c : sub t q = Some c -> Znode (exact_state t) q c = value t.
  Proof.
    intros Hc. unfold Model.Znode.
    rewrite (sumW_ext (ldims c) (inc (exact_state t) q) (incE (dnT t q) (kids c)) (tens c) (tens c)).
    2:{ intros j x Hj Hx. apply (exact_inc q c Hc j x Hj Hx). }
    2: reflexivity.
    rewrite <- tot_sumW. rewrite <- (cut_bond_value t q c Hc). unfold tot.
    apply sum_ext'. intros; ring.
  Qed.

  Definition in_range (ds idx : list nat) : Prop :=
    length idx = length ds /\ forall j, (j < length ds)%nat -> (nth j idx 0 < nth j ds 0)%nat.

  (* the normalisation of the tensor marginal is the local tensor contraction *)
  Theorem Znode_sums_node_marg (s : state) q c :
    Znode s q c = sumW (ldims c) (fun _ _ => k1) (node_marg s q c).
  Proof.
    unfold Model.Znode. rewrite (sumW_as_wprod (ldims c) (inc s q) (fun _ _ => k1) (tens c)) by reflexivity.
    apply sumW_ext; [reflexivity|]. intros idx. unfold Model.node_marg. ring.
  Qed.

  Theorem node_marginal_exact (s : state) q c : all_good_state s -> sub t q = Some c ->
    exists A, (forall idx, in_range (ldims c) idx ->
                 node_marg s q c idx = A * node_marg (exact_state t) q c idx)
              /\ Znode s q c = A * value t.
  Proof.
    intros Hgood Hc.
    destruct (sumW_wprod_scale_ex (ldims c) (inc s q) (inc (exact_state t) q)) as (A & HA1 & HA2).
    { intros j Hj. destruct j as [|i].
      - destruct (down_witness s Hgood q c Hc) as [a Ha]. exists a. intros x Hx.
        rewrite ldims_eq in Hx. cbn [nth] in Hx. rewrite Ha by exact Hx.
        f_equal. destruct q; reflexivity.
      - rewrite ldims_eq in Hj. cbn [length] in Hj.
        destruct (nthF_some (kids c) i) as [ci Hci]; [lia|].
        destruct (nthF_facts (kids c) i ci Hci) as (_ & Hd & _).
        assert (Hsub : sub t (q ++ [i]) = Some ci) by (rewrite sub_app, Hc; exact Hci).
        destruct (Hgood (q ++ [i]) true) as [a Ha].
        { split; cbn [fst]; [destruct q; discriminate | exists ci; exact Hsub]. }
        exists a. intros x Hx. cbn [Model.inc]. apply Ha.
        unfold bdim. cbn [fst]. rewrite Hsub. rewrite ldims_eq in Hx. cbn [nth] in Hx. rewrite Hd in Hx. exact Hx. }
    exists A. split.
    - intros idx [Hl Hr]. unfold Model.node_marg. rewrite (HA2 idx Hl Hr). ring.
    - unfold Model.Znode at 1. rewrite HA1. fold (Znode (exact_state t) q c). rewrite (Znode_exact q c Hc). reflexivity.
  Qed.

  (* ---------- schedules ---------- *)
  Notation grounds := (Sched.rounds mid vec same bp_upd).
  Notation gsteps := (Sched.steps mid vec same bp_upd).
  Notation gcovers := (Sched.covers mid valid).

  Lemma all_good_curry (s : mid -> vec) : (forall id, valid id -> good id (s id)) -> all_good_state (curry s).
  Proof. intros H q b Hv. apply (H (q, b) Hv). Qed.

  (* after 2*height+2 rounds of ANY fair schedule, from ANY initial messages and with ANY
     normalisation scalars, every message is a scalar multiple of the exact contraction behind it *)
  Theorem bp_fair_schedule_good (s0 s : mid -> vec) rs :
    grounds s0 rs s -> Forall gcovers rs -> (2 * heightT t + 2 <= length rs)%nat ->
    forall id, valid id -> good id (s id).
  Proof.
    intros Hr Hc Hn id Hv.
    apply (Sched.fair_schedule_converges mid vec mid_dec valid rank good same good_same bp_upd upd_sound s0 rs s Hr Hc id Hv).
    pose proof (rank_bound id Hv). lia.
  Qed.

  Theorem bp_fair_schedule_bethe (s0 s : mid -> vec) rs :
    grounds s0 rs s -> Forall gcovers rs -> (2 * heightT t + 2 <= length rs)%nat ->
    lprod (nodeZs (curry s) [] t) = value t * lprod (bondZs (curry s) [] t).
  Proof.
    intros Hr Hc Hn. apply bethe_exact. apply all_good_curry. apply (bp_fair_schedule_good s0 s rs Hr Hc Hn).
  Qed.

  (* ... and further steps of any kind keep them so *)
  Theorem bp_all_good_stable (s s' : mid -> vec) r :
    gsteps s r s' -> (forall id, valid id -> good id (s id)) -> forall id, valid id -> good id (s' id).
  Proof.
    intros Hs Hg. exact (Sched.all_good_stable mid vec mid_dec valid rank good same good_same bp_upd upd_sound r s s' Hs Hg).
  Qed.

  (* every fixed point (up to normalisation) consists of exact messages *)
  Theorem bp_fixed_point_good (s : mid -> vec) :
    (forall id, valid id -> bp_upd s id (s id)) -> forall id, valid id -> good id (s id).
  Proof.
    intros Hfix. exact (Sched.fixed_point_good mid vec valid rank good bp_upd upd_sound s Hfix).
  Qed.

  (* damped steps keep an all-good state all good *)
  Theorem bp_damped_step_stable (s s' : mid -> vec) S :
    Sched.stepD mid vec same bp_upd_damped S s s' ->
    (forall id, valid id -> good id (s id)) -> forall id, valid id -> good id (s' id).
  Proof.
    intros Hs Hg.
    exact (Sched.all_good_stable_damped mid vec mid_dec valid good same good_same bp_upd_damped upd_damped_sound S s s' Hs Hg).
  Qed.

  (* the fixed-point equation does not depend on the damping: a fixed point of the damped
     iteration lam*old + (1-lam)*new, with 1-lam cancellable, is a fixed point of the undamped one *)
  Theorem damped_fixed_point_is_fixed_point (s : mid -> vec) (lam : K) :
    (forall a b, ksub k1 lam * a = ksub k1 lam * b -> a = b) ->
    (forall id, valid id -> exists c, forall x, (x < bdim (fst id))%nat ->
        s id x = lam * s id x + ksub k1 lam * (c * rawmsg t (curry s) (fst id) (snd id) x)) ->
    forall id, valid id -> bp_upd s id (s id).
  Proof.
    intros Hcancel Hfix id Hv. destruct (Hfix id Hv) as [c Hc]. exists c. intros x Hx.
    apply Hcancel. pose proof (Hc x Hx) as H.
    set (u := s id x) in *. set (v := c * rawmsg t (curry s) (fst id) (snd id) x) in *.
    transitivity (ksub (lam * u + ksub k1 lam * v) (lam * u)); [rewrite <- H; ring | ring].
  Qed.
End Tree.

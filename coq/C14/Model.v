(* C14 - belief propagation on trees: executable definitions only.

   Part 1 (Section Combine): quimb.tensor.belief_propagation.bp_common.
   combine_local_contractions - the mantissa / exponent bookkeeping - over an
   arbitrary field F (Leibniz equality) and an abstract exponent type E.
   Part 2 (Section BP): sum-product message passing on tensor TREES over an
   arbitrary commutative ring K: weighted contractions sumW / outW (a tensor
   contracted with incoming messages on all / all-but-one legs =
   hd1bp.compute_all_tensor_messages_tree), the rooted tree type, the exact
   subtree contractions, path-indexed message states, the raw update rule of
   d1bp / hd1bp, normalisation scalars, damping, the local contractions that
   D1BP.contract / contract_hyper_messages feed to combine_local_contractions,
   and the copy (delta) tensor that turns a hyper-index into an ordinary node.
   Instances for execution: K = Z (positive integer data: every quantity is an
   exact integer). *)
From Coq Require Import Arith List ZArith Bool.
From QV Require Import Base.Sums.
Import ListNotations.

(* ------------------------------------------------------------------ *)
Section Combine.
  Variable F : Type.
  Variables (f0 f1 : F) (fadd fmul fsub : F -> F -> F) (fopp : F -> F)
            (fdiv : F -> F -> F) (finv : F -> F).
  Variable mag : F -> F.              (* abs: the magnitude, embedded in F *)
  Variable feqb : F -> F -> bool.     (* decides x_mag == 0.0 *)
  Variable E : Type.                  (* exponents (log10 values) *)
  Variables (e0 : E) (eadd : E -> E -> E) (escale : Z -> E -> E).
  Variable lg : F -> E.               (* log10 of a magnitude *)
  Variable ten : E -> F.              (* 10 ** e *)

  Fixpoint fpow_pos (x : F) (n : nat) : F :=
    match n with O => f1 | S n' => fmul x (fpow_pos x n') end.
  (* x ** p for an integer power p *)
  Definition fpow (x : F) (p : Z) : F :=
    match p with
    | Z0 => f1
    | Zpos n => fpow_pos x (Pos.to_nat n)
    | Zneg n => finv (fpow_pos x (Pos.to_nat n))
    end.

  Inductive cres := CZero | CVal (m : F) (e : E) | CNaN.

  (* the loop `for x, p in values` *)
  Fixpoint combine_loop (check_zero : bool) (values : list (F * Z)) (m : F) (e : E) : cres :=
    match values with
    | [] => CVal m e
    | (x, p) :: rest =>
        let x_mag := mag x in
        let x_phase := fdiv x x_mag in
        if feqb x_mag f0 then
          (if check_zero then CZero else CNaN)   (* log10(0), 0/0 without the check *)
        else combine_loop check_zero rest (fmul m (fpow x_phase p)) (eadd e (escale p (lg x_mag)))
    end.

  (* combine_local_contractions(values, strip_exponent=True, check_zero,
     mantissa, exponent, power): power is an integer here *)
  Definition combine (check_zero : bool) (values : list (F * Z)) (mant : F) (expo : E) (power : Z) : cres :=
    match combine_loop check_zero values mant expo with
    | CVal m e => if Z.eqb power 1 then CVal m e else CVal (fpow m power) (escale power e)
    | r => r
    end.

  (* strip_exponent=False *)
  Definition combine_value (r : cres) : option F :=
    match r with CZero => Some f0 | CVal m e => Some (fmul m (ten e)) | CNaN => None end.

  (* the product the routine is meant to compute *)
  Fixpoint prod_pow (values : list (F * Z)) : F :=
    match values with [] => f1 | (x, p) :: rest => fmul (fpow x p) (prod_pow rest) end.
End Combine.

(* ------------------------------------------------------------------ *)
Section BP.
  Variable K : Type.
  Variables (k0 k1 : K) (kadd kmul : K -> K -> K).
  Notation sum := (sum K k0 kadd).
  Local Infix "+" := kadd.
  Local Infix "*" := kmul.

  Definition vec := nat -> K.
  Definition tensor := list nat -> K.      (* value at an index assignment, legs in order *)
  Definition shift {A : Type} (g : nat -> A) : nat -> A := fun j => g (S j).

  Fixpoint lprod (l : list K) : K := match l with [] => k1 | x :: r => x * lprod r end.

  (* the tensor T, legs of sizes ds, contracted with message g j on EVERY leg j
     (D1BP.local_tensor_contract, the tensor region of contract_hyper_messages) *)
  Fixpoint sumW (ds : list nat) (g : nat -> vec) (T : tensor) : K :=
    match ds with
    | [] => T []
    | d :: ds' => sum d (fun y => g 0%nat y * sumW ds' (shift g) (fun ys => T (y :: ys)))
    end.

  (* ... contracted with the messages on every leg EXCEPT leg j, whose index is
     left open: the new message sent out along leg j
     (hd1bp.compute_all_tensor_messages_{tree,prod}, entry j) *)
  Fixpoint outW (j : nat) (ds : list nat) (g : nat -> vec) (T : tensor) (y : nat) {struct ds} : K :=
    match ds with
    | [] => k0
    | d :: ds' =>
        match j with
        | O => sumW ds' (shift g) (fun ys => T (y :: ys))
        | S j' => sum d (fun x => g 0%nat x * outW j' ds' (shift g) (fun ys => T (x :: ys)) y)
        end
    end.

  (* rooted tensor tree.  Node d T cs: d = size of the bond to the parent (for
     the root: a dangling index that is summed over, size 1 for a closed
     network); T's legs are [parent; child 0; child 1; ...] *)
  Inductive ttree := Node (d : nat) (T : tensor) (cs : tforest)
  with tforest := FNil | FCons (t : ttree) (rest : tforest).

  Definition ndim (t : ttree) : nat := match t with Node d _ _ => d end.
  Definition kids (t : ttree) : tforest := match t with Node _ _ cs => cs end.
  Fixpoint dimsF (cs : tforest) : list nat :=
    match cs with FNil => [] | FCons t r => ndim t :: dimsF r end.
  Fixpoint nthF (cs : tforest) (j : nat) : option ttree :=
    match cs with
    | FNil => None
    | FCons t r => match j with O => Some t | S j' => nthF r j' end
    end.
  Definition ldims (t : ttree) : list nat := match t with Node d _ cs => d :: dimsF cs end.
  Definition tens (t : ttree) : tensor := match t with Node _ T _ => T end.

  (* exact contraction of the subtree below a bond, as a vector over the bond *)
  Fixpoint upT (t : ttree) : vec :=
    match t with
    | Node d T cs => fun x => sumW (dimsF cs) (upsF cs) (fun ys => T (x :: ys))
    end
  with upsF (cs : tforest) : nat -> vec :=
    match cs with
    | FNil => fun _ _ => k0
    | FCons t r => fun j => match j with O => upT t | S j' => upsF r j' end
    end.

  (* the exact contraction value of the whole tree *)
  Definition value (t : ttree) : K := sum (ndim t) (upT t).

  Fixpoint sizeT (t : ttree) : nat := match t with Node _ _ cs => S (sizeF cs) end
  with sizeF (cs : tforest) : nat := match cs with FNil => O | FCons t r => (sizeT t + sizeF r)%nat end.
  Fixpoint heightT (t : ttree) : nat := match t with Node _ _ cs => heightF cs end
  with heightF (cs : tforest) : nat := match cs with FNil => O | FCons t r => Nat.max (S (heightT t)) (heightF r) end.

  (* the node reached from the root by the child indices p *)
  Fixpoint sub (t : ttree) (p : list nat) : option ttree :=
    match p with
    | [] => Some t
    | j :: p' => match nthF (kids t) j with Some c => sub c p' | None => None end
    end.

  (* messages arriving at a node whose exact downward message is dn *)
  Definition incE (dn : vec) (cs : tforest) : nat -> vec :=
    fun j => match j with O => dn | S j' => upsF cs j' end.

  (* exact contraction of everything OUTSIDE the subtree at path p, over the bond above it *)
  Fixpoint dnAt (t : ttree) (dn : vec) (p : list nat) : vec :=
    match p with
    | [] => dn
    | j :: p' =>
        match nthF (kids t) j with
        | Some c => dnAt c (outW (S j) (ldims t) (incE dn (kids t)) (tens t)) p'
        | None => fun _ => k0
        end
    end.
  Definition dnT (t : ttree) (p : list nat) : vec := dnAt t (fun _ => k1) p.

  (* ---- message states: s q true  = message going UP the bond above node q
                          s q false = message going DOWN that bond (into node q) *)
  Definition state := list nat -> bool -> vec.

  (* the messages arriving at node q: leg 0 from above, leg j+1 from child j *)
  Definition inc (s : state) (q : list nat) : nat -> vec :=
    fun j => match j with
             | O => match q with [] => fun _ => k1 | _ => s q false end
             | S j' => s (q ++ [j']) true
             end.

  (* the un-normalised new message of d1bp / hd1bp for message (q, b) *)
  Definition rawmsg (t : ttree) (s : state) (q : list nat) (b : bool) : vec :=
    if b then
      match sub t q with
      | Some c => outW 0 (ldims c) (inc s q) (tens c)
      | None => fun _ => k0
      end
    else
      match sub t (removelast q) with
      | Some c => outW (S (last q 0%nat)) (ldims c) (inc s (removelast q)) (tens c)
      | None => fun _ => k0
      end.

  Definition scalev (c : K) (v : vec) : vec := fun x => c * v x.
  (* damping * old + (1 - damping) * new, with both weights explicit *)
  Definition dampv (lam mu : K) (old new : vec) : vec := fun x => lam * old x + mu * new x.

  Definition path_eqb (a b : list nat) : bool := if list_eq_dec Nat.eq_dec a b then true else false.
  Definition set_msg (s : state) (q : list nat) (b : bool) (v : vec) : state :=
    fun q' b' => if path_eqb q' q && Bool.eqb b' b then v else s q' b'.

  (* the local contractions combined by D1BP.contract *)
  Definition Znode (s : state) (q : list nat) (c : ttree) : K := sumW (ldims c) (inc s q) (tens c).
  Definition Zbond (s : state) (q : list nat) (d : nat) : K := sum d (fun x => s q true x * s q false x).

  Fixpoint nodeZs (s : state) (q : list nat) (t : ttree) : list K :=
    match t with Node d T cs => Znode s q (Node d T cs) :: nodeZsF s q 0 cs end
  with nodeZsF (s : state) (q : list nat) (j : nat) (cs : tforest) : list K :=
    match cs with
    | FNil => []
    | FCons c r => nodeZs s (q ++ [j]) c ++ nodeZsF s q (S j) r
    end.

  (* bonds strictly below node q *)
  Fixpoint bondZs (s : state) (q : list nat) (t : ttree) : list K :=
    match t with Node d T cs => bondZsF s q 0 cs end
  with bondZsF (s : state) (q : list nat) (j : nat) (cs : tforest) : list K :=
    match cs with
    | FNil => []
    | FCons c r => (Zbond s (q ++ [j]) (ndim c) :: bondZs s (q ++ [j]) c) ++ bondZsF s q (S j) r
    end.

  (* the state made of the exact messages *)
  Definition exact_state (t : ttree) : state :=
    fun q b => if b then match sub t q with Some c => upT c | None => fun _ => k0 end else dnT t q.

  (* marginals read from a state: bond (index) marginal and node (tensor) marginal, un-normalised *)
  Definition bond_marg (s : state) (q : list nat) : vec := fun x => s q true x * s q false x.
  Fixpoint wprod (g : nat -> vec) (idx : list nat) : K :=
    match idx with [] => k1 | y :: r => g 0%nat y * wprod (shift g) r end.
  Definition node_marg (s : state) (q : list nat) (c : ttree) : tensor :=
    fun idx => tens c idx * wprod (inc s q) idx.

  (* copy tensor of a hyper-index: 1 iff all legs carry the same value *)
  Definition alleq (x : nat) (idx : list nat) : K := if forallb (Nat.eqb x) idx then k1 else k0.
  Definition deltaT : tensor := fun idx => match idx with [] => k1 | x :: r => alleq x r end.
  (* product of the messages on all legs (j < n) at value x: the index region of contract_hyper_messages *)
  Fixpoint mprod (n : nat) (g : nat -> vec) (x : nat) : K :=
    match n with O => k1 | S n' => g 0%nat x * mprod n' (shift g) x end.
  (* product of all the other messages: compute_all_hyperind_messages_prod *)
  Fixpoint mprod_except (j n : nat) (g : nat -> vec) (x : nat) : K :=
    match n with
    | O => k1
    | S n' => match j with
              | O => mprod n' (shift g) x
              | S j' => g 0%nat x * mprod_except j' n' (shift g) x
              end
    end.
End BP.

Arguments Node {K}.
Arguments FNil {K}.
Arguments FCons {K}.

(* ---------------- executable instance: K = Z ------------------------- *)
Open Scope Z_scope.

Fixpoint ravel (ds idx : list nat) : nat :=
  match ds, idx with
  | d :: ds', i :: idx' => (i * fold_right Nat.mul 1%nat ds' + ravel ds' idx')%nat
  | _, _ => O
  end.
(* a dense row-major array as a tensor *)
Definition tensor_of (ds : list nat) (data : list Z) : list nat -> Z :=
  fun idx => nth (ravel ds idx) data 0.
Definition vec_of (data : list Z) : nat -> Z := fun x => nth x data 0.
Definition tab (d : nat) (v : nat -> Z) : list Z := map v (seq 0 d).

Definition ZupT := upT Z 0 Z.add Z.mul.
Definition ZdnT := dnT Z 0 1 Z.add Z.mul.
Definition Zvalue := value Z 0 Z.add Z.mul.
Definition Zraw := rawmsg Z 0 1 Z.add Z.mul.
Definition Zsub := sub Z.
Definition ZnodeZs := nodeZs Z 0 1 Z.add Z.mul.
Definition ZbondZs := bondZs Z 0 Z.add Z.mul.
Definition Zlprod := lprod Z 1 Z.mul.
Definition Zexact := exact_state Z 0 1 Z.add Z.mul.
Definition ZdeltaT := deltaT Z 0 1.

(* a state given as an association list ((path, up?), message) ; missing = zeros *)
Fixpoint assoc_state (l : list ((list nat * bool) * list Z)) : list nat -> bool -> nat -> Z :=
  match l with
  | [] => fun _ _ _ => 0
  | ((q, b), m) :: r => fun q' b' => if path_eqb q' q && Bool.eqb b' b then vec_of m else assoc_state r q' b'
  end.

(* all (path, node) pairs of a tree in pre-order *)
Fixpoint nodesT (q : list nat) (t : ttree Z) : list (list nat * ttree Z) :=
  match t with Node d T cs => (q, Node d T cs) :: nodesF q 0 cs end
with nodesF (q : list nat) (j : nat) (cs : tforest Z) : list (list nat * ttree Z) :=
  match cs with
  | FNil => []
  | FCons c r => nodesT (q ++ [j]) c ++ nodesF q (S j) r
  end.

(* exact messages of every non-root bond: (path, up vector, down vector) *)
Definition exact_table (t : ttree Z) : list (list nat * list Z * list Z) :=
  map (fun qc => (fst qc, tab (ndim Z (snd qc)) (ZupT (snd qc)), tab (ndim Z (snd qc)) (ZdnT t (fst qc))))
      (tl (nodesT [] t)).

(* one parallel un-normalised BP round from state s, as a table *)
Definition raw_table (t : ttree Z) (s : list nat -> bool -> nat -> Z) : list (list nat * list Z * list Z) :=
  map (fun qc => (fst qc, tab (ndim Z (snd qc)) (Zraw t s (fst qc) true), tab (ndim Z (snd qc)) (Zraw t s (fst qc) false)))
      (tl (nodesT [] t)).

(* C14 - the two message factors of quimb.tensor.belief_propagation.d2bp.D2BP.gauge_insert
   (executable definitions only).

   For a boundary message  m = W diag(s2) W^dag  (eigh), gauge_insert builds
       s      = sqrt(clip(s2, 0)) ;  s <- s + smudge * s[-1]  (if smudge != 0) ;  s <- s ** power (if power != 1)
       msqrt  = ldmul(s, dag(W))            msqrt[i][j] = s_i * conj(W[j][i])      (inserted with t.gate_(msqrt, ix))
       minv   = rddiv(W, s)                 minv[i][j]  = W[i][j] / s_j            (return_gauges = "inverse")
   and gauge_temp / gate_ later apply minv with t.gate_(minv, ix).  Tensor.gate_(G, ix) acts on every fibre v of the
   tensor along ix as  v |-> G v.

   K is an arbitrary commutative ring with an involution conj; matrices are functions nat -> nat -> K used below a
   size n.  The division by s_j is a multiplication by a supplied sinv_j (hypothesis s_j * sinv_j = 1 in the theorems,
   cross-multiplied in the correspondence).  Executable instance: Gaussian integers (Base.TNExec.G). *)
From Coq Require Import Arith List ZArith Bool.
From QV Require Import Base.Sums.
Import ListNotations.

Section Gauge.
  Variable K : Type.
  Variables (k0 k1 : K) (kadd kmul : K -> K -> K) (kconj : K -> K).

  Definition mat := nat -> nat -> K.

  (* ldmul(s, dag(W)) *)
  Definition msqrt (s : nat -> K) (W : mat) : mat := fun i j => kmul (s i) (kconj (W j i)).
  (* rdmul(A, d): column j scaled by d_j *)
  Definition rdmul (A : mat) (d : nat -> K) : mat := fun i j => kmul (A i j) (d j).
  (* rddiv(W, s) with 1/s_j = sinv_j *)
  Definition minv (sinv : nat -> K) (W : mat) : mat := rdmul W sinv.
  (* what a 'transpose instead of dagger' inverse would be: transpose(lddiv(s, dag(W)))[i][j] = conj(W[i][j]) / s_j *)
  Definition minv_transposed (sinv : nat -> K) (W : mat) : mat := rdmul (fun i j => kconj (W i j)) sinv.

  Definition mmul (n : nat) (A B : mat) : mat := fun i j => sum K k0 kadd n (fun k => kmul (A i k) (B k j)).
  Definition mident : mat := fun i j => if Nat.eqb i j then k1 else k0.
  (* Tensor.gate_(G, ix) on one fibre along ix *)
  Definition gate1 (n : nat) (G : mat) (v : nat -> K) : nat -> K :=
    fun i => sum K k0 kadd n (fun j => kmul (G i j) (v j)).
  (* the message the factor is the square root of: m = W diag(s^2) W^dag *)
  Definition msg (n : nat) (s : nat -> K) (W : mat) : mat :=
    fun i j => sum K k0 kadd n (fun k => kmul (kmul (W i k) (kmul (s k) (s k))) (kconj (W j k))).
  (* <v| m |w> in the layout D2BP stores messages (first axis bra, second axis ket):  sum_{b b'} v_b conj(w_b') m[b'][b] *)
  Definition mform (n : nat) (m : mat) (v w : nat -> K) : K :=
    sum K k0 kadd n (fun b => sum K k0 kadd n (fun b' => kmul (kmul (v b) (kconj (w b'))) (m b' b))).
  (* plain inner product of two fibres *)
  Definition inner (n : nat) (v w : nat -> K) : K := sum K k0 kadd n (fun a => kmul (v a) (kconj (w a))).

  (* s + (a/b) * s[-1] in fraction-free form: b * s_i + a * s_(n-1)   (eigh sorts ascending: s[-1] is the largest) *)
  Definition smudged (n : nat) (a b : K) (s : nat -> K) : nat -> K :=
    fun i => kadd (kmul b (s i)) (kmul a (s (pred n))).
  Fixpoint kpow (x : K) (p : nat) : K := match p with O => k1 | S p' => kmul x (kpow x p') end.
  Definition powered (p : nat) (s : nat -> K) : nat -> K := fun i => kpow (s i) p.
End Gauge.

(* ---- executable instance: Gaussian integers, matrices as lists of rows ---- *)
From QV Require Import Base.TNExec.
Open Scope Z_scope.

Definition gmat_of (rows : list (list G)) : mat G := fun i j => nth j (nth i rows []) g0.
Definition gvec_of (l : list Z) : nat -> G := fun i => (nth i l 0, 0).
Definition gnorm2 (a : G) : Z := fst a * fst a + snd a * snd a.
Definition gtab (n : nat) (A : mat G) : list G := flat_map (fun i => map (fun j => A i j) (seq 0 n)) (seq 0 n).
(* all entries of A and B agree up to 1e-9 of the Frobenius norm of B (squared: 1e-18) *)
Definition gclose9 (n : nat) (A B : mat G) : bool :=
  let tot := fold_left Z.add (map gnorm2 (gtab n B)) 0 in
  forallb (fun ij => gnorm2 (gsub (A (fst ij) (snd ij)) (B (fst ij) (snd ij))) * 1000000000000000000 <=? tot)
          (flat_map (fun i => map (fun j => (i, j)) (seq 0 n)) (seq 0 n)).

(* spectrum used by gauge_insert, over integers: s_int / ds holds sqrt(eig); smudge = a / b; power p (natural).
   The value is  spec_num / spec_den. *)
Definition spec_num (n : nat) (a b : Z) (p : nat) (s : list Z) : nat -> G :=
  powered G g1 gmul p (smudged G gadd gmul n (a, 0) (b, 0) (gvec_of s)).
Definition spec_den (b ds : Z) (p : nat) : Z := Z.pow (b * ds) (Z.of_nat p).

(* the implementation's raw factor (graw / dg) is the model's msqrt of (W / dw, spectrum):
      graw[i][j] * (dw * spec_den)  ~  spec_num_i * conj(W[j][i]) * dg                                   *)
Definition raw_matches (n : nat) (W : list (list G)) (dw : Z) (s : list Z) (ds a b : Z) (p : nat)
                       (graw : list (list G)) (dg : Z) : bool :=
  let sd := spec_den b ds p in
  gclose9 n (fun i j => gscale (dw * sd) (gmat_of graw i j))
            (fun i j => gscale dg (msqrt G gmul gconj (spec_num n a b p s) (gmat_of W) i j)).
(* the implementation's inverse factor (ginv / dh) is the model's minv, cross-multiplied by the spectrum:
      ginv[i][j] * spec_num_j * dw  ~  W[i][j] * dh * spec_den                                           *)
Definition inv_matches (n : nat) (W : list (list G)) (dw : Z) (s : list Z) (ds a b : Z) (p : nat)
                       (ginv : list (list G)) (dh : Z) : bool :=
  let sd := spec_den b ds p in
  gclose9 n (fun i j => gscale dw (rdmul G gmul (gmat_of ginv) (spec_num n a b p s) i j))
            (fun i j => gscale (dh * sd) (gmat_of W i j)).

(* combine_local_contractions: mantissa * 10^exponent = prod x^p, over any field
   (Leibniz equality) with an abstract magnitude and an abstract exponent type. *)
From Coq Require Import ZArith List Bool Field Ring Lia.
From QV Require Import C14.Model.
Import ListNotations.

Section CombineProofs.
  Variable F : Type.
  Variables (f0 f1 : F) (fadd fmul fsub : F -> F -> F) (fopp : F -> F)
            (fdiv : F -> F -> F) (finv : F -> F).
  Hypothesis Ffield : field_theory f0 f1 fadd fmul fsub fopp fdiv finv eq.
  Add Field Ff : Ffield.
  Variable mag : F -> F.
  Variable feqb : F -> F -> bool.
  Hypothesis feqb_ok : forall a b, feqb a b = true <-> a = b.
  Hypothesis mag_zero : forall x, mag x = f0 <-> x = f0.
  Variable E : Type.
  Variables (e0 : E) (eadd : E -> E -> E) (escale : Z -> E -> E).
  Variable lg : F -> E.
  Variable ten : E -> F.
  Notation fpow := (fpow F f1 fmul finv).
  Notation fpow_pos := (fpow_pos F f1 fmul).
  Notation combine_loop := (combine_loop F f0 f1 fmul fdiv finv mag feqb E eadd escale lg).
  Notation combine := (combine F f0 f1 fmul fdiv finv mag feqb E eadd escale lg).
  Notation prod_pow := (prod_pow F f1 fmul finv).
  Hypothesis ten_add : forall a b, ten (eadd a b) = fmul (ten a) (ten b).
  Hypothesis ten_scale : forall p a, ten (escale p a) = fpow (ten a) p.
  Hypothesis ten_nz : forall a, ten a <> f0.
  Infix "*" := fmul.

  Lemma f1_neq_0 : f1 <> f0.
  Proof. exact (F_1_neq_0 Ffield). Qed.

  Lemma fmul_nz a b : a <> f0 -> b <> f0 -> a * b <> f0.
  Proof.
    intros Ha Hb H. apply Hb.
    assert (b = finv a * (a * b)) as -> by (field; exact Ha).
    rewrite H. ring.
  Qed.

  Lemma fpow_pos_nz a n : a <> f0 -> fpow_pos a n <> f0.
  Proof.
    intros Ha. induction n as [|n IH]; cbn [Model.fpow_pos].
    - exact f1_neq_0.
    - apply fmul_nz; assumption.
  Qed.

  Lemma fpow_pos_mul a b n : fpow_pos (a * b) n = fpow_pos a n * fpow_pos b n.
  Proof. induction n as [|n IH]; cbn [Model.fpow_pos]; [ring|]. rewrite IH. ring. Qed.

  Lemma fpow_nz a p : a <> f0 -> fpow a p <> f0.
  Proof.
    intros Ha. destruct p as [|n|n]; cbn [Model.fpow].
    - exact f1_neq_0.
    - apply fpow_pos_nz; exact Ha.
    - intros H. pose proof (fpow_pos_nz a (Pos.to_nat n) Ha) as Hn.
      apply f1_neq_0.
      assert (f1 = fpow_pos a (Pos.to_nat n) * finv (fpow_pos a (Pos.to_nat n))) as -> by (field; exact Hn).
      rewrite H. ring.
  Qed.

  Lemma fpow_mul a b p : a <> f0 -> b <> f0 -> fpow (a * b) p = fpow a p * fpow b p.
  Proof.
    intros Ha Hb. destruct p as [|n|n]; cbn [Model.fpow].
    - ring.
    - apply fpow_pos_mul.
    - rewrite fpow_pos_mul. field. split; apply fpow_pos_nz; assumption.
  Qed.

  Lemma fdiv_nz a b : a <> f0 -> b <> f0 -> fdiv a b <> f0.
  Proof.
    intros Ha Hb H. apply Ha.
    assert (a = fdiv a b * b) as -> by (field; exact Hb).
    rewrite H. ring.
  Qed.

  (* what is required of every value: non-zero, and log10 / 10** are inverse on its magnitude *)
  Definition okval (xp : F * Z) : Prop :=
    fst xp <> f0 /\ ten (lg (mag (fst xp))) = mag (fst xp).

  Lemma combine_loop_sound cz values : Forall okval values -> forall m e, m <> f0 ->
    exists m' e', combine_loop cz values m e = CVal F E m' e'
                  /\ m' <> f0 /\ m' * ten e' = m * ten e * prod_pow values.
  Proof.
    induction 1 as [|[x p] rest [Hx Hlg] _ IH]; intros m e Hm.
    - exists m, e. cbn. repeat split; [exact Hm | ring].
    - cbn [Model.combine_loop Model.prod_pow]. cbn [fst] in Hx, Hlg.
      assert (Hmag : mag x <> f0) by (intros H; apply Hx; apply mag_zero; exact H).
      destruct (feqb (mag x) f0) eqn:Eq; [apply feqb_ok in Eq; contradiction|].
      assert (Hph : fdiv x (mag x) <> f0) by (apply fdiv_nz; assumption).
      destruct (IH (m * fpow (fdiv x (mag x)) p) (eadd e (escale p (lg (mag x)))))
        as (m' & e' & Hc & Hnz & Hv).
      { apply fmul_nz; [exact Hm | apply fpow_nz; exact Hph]. }
      exists m', e'. split; [exact Hc|]. split; [exact Hnz|].
      rewrite Hv, ten_add, ten_scale, Hlg.
      assert (Hx' : fpow x p = fpow (fdiv x (mag x)) p * fpow (mag x) p).
      { rewrite <- fpow_mul by assumption. f_equal. field. exact Hmag. }
      rewrite Hx'. ring.
  Qed.

  Lemma fpow_1 a : fpow a 1 = a.
  Proof. change (a * f1 = a). ring. Qed.

  (* mantissa * 10^exponent = (mantissa0 * 10^exponent0 * prod x^p) ^ power *)
  Theorem combine_sound cz values mant expo power : mant <> f0 -> Forall okval values ->
    exists m e, combine cz values mant expo power = CVal F E m e
                /\ m * ten e = fpow (mant * ten expo * prod_pow values) power.
  Proof.
    intros Hm Hv. unfold Model.combine.
    destruct (combine_loop_sound cz values Hv mant expo Hm) as (m & e & Hc & Hnz & Hval).
    rewrite Hc. destruct (Z.eqb power 1) eqn:Ep.
    - apply Z.eqb_eq in Ep. subst power. exists m, e. split; [reflexivity|].
      rewrite fpow_1. exact Hval.
    - exists (fpow m power), (escale power e). split; [reflexivity|].
      rewrite ten_scale, <- fpow_mul by (try exact Hnz; apply ten_nz). rewrite Hval. reflexivity.
  Qed.

  (* the zero short-circuit *)
  Theorem combine_zero values mant expo power :
    Exists (fun xp => fst xp = f0) values -> combine true values mant expo power = CZero F E.
  Proof.
    intros Hz. unfold Model.combine.
    assert (H : forall m e, combine_loop true values m e = CZero F E).
    { induction Hz as [[x p] rest Hx | [x p] rest _ IH]; intros m e; cbn [Model.combine_loop].
      - cbn [fst] in Hx. subst x.
        assert (Hm : feqb (mag f0) f0 = true) by (apply feqb_ok, mag_zero; reflexivity).
        rewrite Hm. reflexivity.
      - destruct (feqb (mag x) f0); [reflexivity | apply IH]. }
    rewrite H. reflexivity.
  Qed.

  (* ... and the product it stands for is zero when the zero factor has a positive power *)
  Lemma fpow_pos_zero n : (0 < n)%nat -> fpow_pos f0 n = f0.
  Proof. destruct n; [lia|]. intros _. cbn [Model.fpow_pos]. ring. Qed.

  Theorem prod_pow_zero values :
    Exists (fun xp => fst xp = f0 /\ (0 < snd xp)%Z) values -> prod_pow values = f0.
  Proof.
    induction 1 as [[x p] rest [Hx Hp] | [x p] rest _ IH]; cbn [Model.prod_pow].
    - cbn [fst snd] in Hx, Hp. subst x. destruct p as [|n|n]; try lia.
      cbn [Model.fpow]. rewrite fpow_pos_zero by lia. ring.
    - rewrite IH. ring.
  Qed.

  (* without check_zero a zero value is not a number (log10 0, 0/0) *)
  Theorem combine_nan values mant expo power :
    Forall (fun xp => fst xp = f0) values -> values <> [] -> combine false values mant expo power = CNaN F E.
  Proof.
    intros Hz Hne. destruct values as [|[x p] rest]; [contradiction|].
    pose proof (Forall_inv Hz) as Hx. cbn [fst] in Hx. subst x.
    unfold Model.combine. cbn [Model.combine_loop].
    assert (Hm : feqb (mag f0) f0 = true) by (apply feqb_ok, mag_zero; reflexivity).
    rewrite Hm. reflexivity.
  Qed.
End CombineProofs.

(* Lemmas about a tensor contracted with messages on its legs (sumW: every leg;
   outW j: every leg but j), over any commutative ring. *)
From Coq Require Import Arith List Bool Lia Ring PeanoNat.
From QV Require Import Base.Sums C14.Model.
Import ListNotations.

Section Contract.
  Variable K : Type.
  Variables (k0 k1 : K) (kadd kmul ksub : K -> K -> K) (kopp : K -> K).
  Hypothesis Kring : ring_theory k0 k1 kadd kmul ksub kopp eq.
  Add Ring Kr14c : Kring.
  Infix "+" := kadd. Infix "*" := kmul.
  Notation sum := (Sums.sum K k0 kadd).
  Notation sumW := (Model.sumW K k0 kadd kmul).
  Notation outW := (Model.outW K k0 kadd kmul).
  Notation vec := (Model.vec K).
  Notation tensor := (Model.tensor K).

  Definition sum_ext' := sum_ext K k0 kadd.
  Definition sum_mul_l' := sum_mul_l K k0 k1 kadd kmul ksub kopp Kring.
  Definition sum_swap' := sum_swap K k0 k1 kadd kmul ksub kopp Kring.
  Definition sum_delta' := sum_delta K k0 k1 kadd kmul ksub kopp Kring.
  Definition sum_all_zero' := sum_all_zero K k0 k1 kadd kmul ksub kopp Kring.

  (* product of the first n scalars of a *)
  Fixpoint prodA (n : nat) (a : nat -> K) : K :=
    match n with O => k1 | S n' => a 0%nat * prodA n' (shift a) end.

  Lemma sumW_ext ds : forall (g g' : nat -> vec) (T T' : tensor),
    (forall j x, (j < length ds)%nat -> (x < nth j ds 0)%nat -> g j x = g' j x) ->
    (forall idx, T idx = T' idx) ->
    sumW ds g T = sumW ds g' T'.
  Proof.
    induction ds as [|d ds IH]; intros g g' T T' Hg HT; cbn [Model.sumW].
    - apply HT.
    - apply sum_ext'. intros y Hy.
      rewrite (Hg 0%nat y) by (cbn; lia).
      f_equal. apply IH.
      + intros j x Hj Hx. unfold shift. apply Hg; cbn; [lia | exact Hx].
      + intros idx. apply HT.
  Qed.

  Lemma sumW_scale ds : forall (g h : nat -> vec) (a : nat -> K) (T : tensor),
    (forall j x, (j < length ds)%nat -> (x < nth j ds 0)%nat -> g j x = a j * h j x) ->
    sumW ds g T = prodA (length ds) a * sumW ds h T.
  Proof.
    induction ds as [|d ds IH]; intros g h a T Hg; cbn [Model.sumW prodA length].
    - ring.
    - rewrite <- sum_mul_l'. apply sum_ext'. intros y Hy.
      rewrite (Hg 0%nat y) by (cbn; lia).
      rewrite (IH (shift g) (shift h) (shift a)).
      + ring.
      + intros j x Hj Hx. unfold shift. apply Hg; cbn; [lia | exact Hx].
  Qed.

  Lemma sumW_scale_ex ds : forall (g h : nat -> vec),
    (forall j, (j < length ds)%nat -> exists a, forall x, (x < nth j ds 0)%nat -> g j x = a * h j x) ->
    exists A, forall T, sumW ds g T = A * sumW ds h T.
  Proof.
    induction ds as [|d ds IH]; intros g h Hg.
    - exists k1. intros T. cbn. ring.
    - destruct (Hg 0%nat) as [a0 Ha0]; [cbn; lia|].
      destruct (IH (shift g) (shift h)) as [A HA].
      { intros j Hj. destruct (Hg (S j)) as [a Ha]; [cbn; lia|]. exists a. exact Ha. }
      exists (a0 * A). intros T. cbn [Model.sumW].
      rewrite <- sum_mul_l'. apply sum_ext'. intros y Hy.
      rewrite Ha0 by exact Hy. rewrite HA. ring.
  Qed.

  Lemma outW_ext ds : forall j (g g' : nat -> vec) (T : tensor) y,
    (forall j' x, (j' < length ds)%nat -> j' <> j -> (x < nth j' ds 0)%nat -> g j' x = g' j' x) ->
    outW j ds g T y = outW j ds g' T y.
  Proof.
    induction ds as [|d ds IH]; intros j g g' T y Hg; cbn [Model.outW]; [reflexivity|].
    destruct j as [|j].
    - apply sumW_ext; [|reflexivity].
      intros j x Hj Hx. unfold shift. apply Hg; cbn; [lia | lia | exact Hx].
    - apply sum_ext'. intros x Hx.
      rewrite (Hg 0%nat x) by (cbn; lia).
      f_equal. apply IH. intros j' x' Hj' Hne Hx'. unfold shift. apply Hg; cbn; [lia | lia | exact Hx'].
  Qed.

  Lemma outW_ext_T ds : forall j (g : nat -> vec) (T T' : tensor) y,
    (forall idx, T idx = T' idx) -> outW j ds g T y = outW j ds g T' y.
  Proof.
    induction ds as [|d ds IH]; intros j g T T' y HT; cbn [Model.outW]; [reflexivity|].
    destruct j as [|j].
    - apply sumW_ext; [reflexivity | intros idx; apply HT].
    - apply sum_ext'. intros x _. f_equal. apply IH. intros idx. apply HT.
  Qed.

  Lemma outW_scale_ex ds : forall j (g h : nat -> vec),
    (forall j', (j' < length ds)%nat -> j' <> j ->
        exists a, forall x, (x < nth j' ds 0)%nat -> g j' x = a * h j' x) ->
    exists A, forall T y, outW j ds g T y = A * outW j ds h T y.
  Proof.
    induction ds as [|d ds IH]; intros j g h Hg.
    - exists k1. intros T y. cbn. ring.
    - destruct j as [|j].
      + destruct (sumW_scale_ex ds (shift g) (shift h)) as [A HA].
        { intros j Hj. destruct (Hg (S j)) as [a Ha]; [cbn; lia | lia |]. exists a. exact Ha. }
        exists A. intros T y. cbn [Model.outW]. apply HA.
      + destruct (Hg 0%nat) as [a0 Ha0]; [cbn; lia | lia |].
        destruct (IH j (shift g) (shift h)) as [A HA].
        { intros j' Hj' Hne. destruct (Hg (S j')) as [a Ha]; [cbn; lia | lia |]. exists a. exact Ha. }
        exists (a0 * A). intros T y. cbn [Model.outW].
        rewrite <- sum_mul_l'. apply sum_ext'. intros x Hx.
        rewrite Ha0 by exact Hx. rewrite HA. ring.
  Qed.

  (* closing the open leg j with the message on leg j gives the full contraction *)
  Lemma sum_out_in ds : forall j (g : nat -> vec) (T : tensor), (j < length ds)%nat ->
    sum (nth j ds 0%nat) (fun y => g j y * outW j ds g T y) = sumW ds g T.
  Proof.
    induction ds as [|d ds IH]; intros j g T Hj; [cbn in Hj; lia|].
    destruct j as [|j]; cbn [Model.outW Model.sumW nth].
    - reflexivity.
    - cbn [length] in Hj.
      rewrite (sum_ext' _ _ (fun y => sum d (fun x => g 0%nat x * (shift g j y * outW j ds (shift g) (fun ys => T (x :: ys)) y)))).
      2:{ intros y _. rewrite <- sum_mul_l'. apply sum_ext'. intros x _. unfold shift. ring. }
      rewrite sum_swap'. apply sum_ext'. intros x _.
      rewrite sum_mul_l'. f_equal. apply IH. lia.
  Qed.

  (* pointwise products along an index assignment *)
  Notation wprod := (Model.wprod K k1 kmul).

  Lemma sumW_const1 ds : forall (g1 : nat -> vec) (T : tensor) (c : K),
    (forall j x, g1 j x = k1) ->
    sumW ds g1 (fun idx => c * T idx) = c * sumW ds g1 T.
  Proof.
    induction ds as [|d ds IH]; intros g1 T c H1; cbn [Model.sumW]; [reflexivity|].
    rewrite <- sum_mul_l'. apply sum_ext'. intros y _.
    rewrite (IH (shift g1) (fun ys => T (y :: ys)) c) by (intros; apply H1). ring.
  Qed.

  (* the full contraction is the sum over all index assignments of tensor entry times message entries *)
  Lemma sumW_as_wprod ds : forall (g g1 : nat -> vec) (T : tensor),
    (forall j x, g1 j x = k1) ->
    sumW ds g T = sumW ds g1 (fun idx => wprod g idx * T idx).
  Proof.
    induction ds as [|d ds IH]; intros g g1 T H1; cbn [Model.sumW Model.wprod].
    - ring.
    - apply sum_ext'. intros y _. rewrite (H1 0%nat y).
      rewrite (sumW_ext ds (shift g1) (shift g1)
                 (fun ys => g 0%nat y * wprod (shift g) ys * T (y :: ys))
                 (fun ys => g 0%nat y * (wprod (shift g) ys * T (y :: ys)))).
      2: reflexivity. 2:{ intros idx. ring. }
      rewrite (sumW_const1 ds (shift g1) (fun ys => wprod (shift g) ys * T (y :: ys))) by (intros; apply H1).
      rewrite <- (IH (shift g) (shift g1) (fun ys => T (y :: ys))) by (intros; apply H1). ring.
  Qed.

  Lemma wprod_scale idx : forall (ds : list nat) (g h : nat -> vec) (a : nat -> K),
    length idx = length ds ->
    (forall j, (j < length ds)%nat -> (nth j idx 0 < nth j ds 0)%nat) ->
    (forall j x, (j < length ds)%nat -> (x < nth j ds 0)%nat -> g j x = a j * h j x) ->
    wprod g idx = prodA (length ds) a * wprod h idx.
  Proof.
    induction idx as [|y idx IH]; intros ds g h a Hl Hr Hg; destruct ds as [|d ds]; cbn in Hl; try discriminate.
    - cbn. ring.
    - cbn [Model.wprod prodA length].
      rewrite (Hg 0%nat y); [| cbn; lia | exact (Hr 0%nat ltac:(cbn; lia))].
      rewrite (IH ds (shift g) (shift h) (shift a)).
      + ring.
      + lia.
      + intros j Hj. apply (Hr (S j)). cbn; lia.
      + intros j x Hj Hx. unfold shift. apply Hg; cbn; [lia | exact Hx].
  Qed.
  (* the same scalar relates the full contraction and every entry-wise product *)
  Lemma sumW_wprod_scale_ex ds : forall (g h : nat -> vec),
    (forall j, (j < length ds)%nat -> exists a, forall x, (x < nth j ds 0)%nat -> g j x = a * h j x) ->
    exists A, (forall T, sumW ds g T = A * sumW ds h T)
              /\ (forall idx, length idx = length ds ->
                    (forall j, (j < length ds)%nat -> (nth j idx 0 < nth j ds 0)%nat) ->
                    wprod g idx = A * wprod h idx).
  Proof.
    induction ds as [|d ds IH]; intros g h Hg.
    - exists k1. split; [intros T; cbn; ring|].
      intros idx Hl _. destruct idx; [cbn; ring | discriminate].
    - destruct (Hg 0%nat) as [a0 Ha0]; [cbn; lia|].
      destruct (IH (shift g) (shift h)) as (A & HA1 & HA2).
      { intros j Hj. destruct (Hg (S j)) as [a Ha]; [cbn; lia|]. exists a. exact Ha. }
      exists (a0 * A). split.
      + intros T. cbn [Model.sumW].
        rewrite <- sum_mul_l'. apply sum_ext'. intros y Hy.
        rewrite Ha0 by exact Hy. rewrite HA1. ring.
      + intros idx Hl Hr. destruct idx as [|y idx]; [discriminate|].
        cbn [Model.wprod]. rewrite Ha0 by (apply (Hr 0%nat); cbn; lia).
        rewrite (HA2 idx).
        * ring.
        * cbn in Hl. lia.
        * intros j Hj. apply (Hr (S j)). cbn; lia.
  Qed.

  (* ---- the copy tensor of a hyper-index ---- *)
  Notation alleq := (Model.alleq K k0 k1).
  Notation deltaT := (Model.deltaT K k0 k1).
  Notation mprod := (Model.mprod K k1 kmul).
  Notation mprod_except := (Model.mprod_except K k1 kmul).

  Lemma sumW_zero ds : forall (g : nat -> vec), sumW ds g (fun _ => k0) = k0.
  Proof.
    induction ds as [|d ds IH]; intros g; cbn [Model.sumW]; [reflexivity|].
    apply sum_all_zero'. intros y _. rewrite IH. ring.
  Qed.

  Lemma outW_zero ds : forall j (g : nat -> vec) y, outW j ds g (fun _ => k0) y = k0.
  Proof.
    induction ds as [|d ds IH]; intros j g y; cbn [Model.outW]; [reflexivity|].
    destruct j; [apply sumW_zero|].
    apply sum_all_zero'. intros x _. rewrite IH. ring.
  Qed.

  Lemma alleq_cons x y ys : alleq x (y :: ys) = if Nat.eqb y x then alleq x ys else k0.
  Proof.
    unfold Model.alleq. cbn [forallb]. rewrite (Nat.eqb_sym x y). destruct (Nat.eqb y x); reflexivity.
  Qed.

  Lemma sumW_alleq ds : forall (g : nat -> vec) x,
    (forall j, (j < length ds)%nat -> (x < nth j ds 0)%nat) ->
    sumW ds g (alleq x) = mprod (length ds) g x.
  Proof.
    induction ds as [|d ds IH]; intros g x Hx; cbn [Model.sumW Model.mprod length].
    - reflexivity.
    - rewrite (sum_ext' d _ (fun y => if Nat.eqb y x then g 0%nat y * sumW ds (shift g) (alleq x) else k0)).
      2:{ intros y _.
          rewrite (sumW_ext ds (shift g) (shift g) _ (fun ys => if Nat.eqb y x then alleq x ys else k0)).
          2: reflexivity. 2:{ intros idx. apply alleq_cons. }
          destruct (Nat.eqb y x); [reflexivity|]. rewrite sumW_zero. ring. }
      rewrite sum_delta' by (apply (Hx 0%nat); cbn; lia).
      rewrite IH; [reflexivity|]. intros j Hj. apply (Hx (S j)). cbn; lia.
  Qed.

  (* local contraction of the copy tensor = sum_x prod_j m_j(x): the index region of contract_hyper_messages *)
  Theorem sumW_delta d ds (g : nat -> vec) :
    (forall j, (j < length ds)%nat -> nth j ds 0%nat = d) ->
    sumW (d :: ds) g deltaT = sum d (mprod (S (length ds)) g).
  Proof.
    intros Hd. cbn [Model.sumW Model.mprod]. apply sum_ext'. intros y Hy.
    rewrite (sumW_ext ds (shift g) (shift g) _ (alleq y)) by reflexivity.
    rewrite sumW_alleq; [reflexivity|]. intros j Hj. rewrite Hd by exact Hj. exact Hy.
  Qed.

  Lemma outW_alleq ds : forall j (g : nat -> vec) x y, (j < length ds)%nat ->
    (forall j', (j' < length ds)%nat -> (x < nth j' ds 0)%nat) ->
    outW j ds g (alleq x) y = if Nat.eqb y x then mprod_except j (length ds) g x else k0.
  Proof.
    induction ds as [|d ds IH]; intros j g x y Hj Hx; [cbn in Hj; lia|].
    destruct j as [|j]; cbn [Model.outW Model.mprod_except length].
    - rewrite (sumW_ext ds (shift g) (shift g) _ (fun ys => if Nat.eqb y x then alleq x ys else k0)).
      2: reflexivity. 2:{ intros idx. apply alleq_cons. }
      destruct (Nat.eqb y x).
      + apply sumW_alleq. intros j' Hj'. apply (Hx (S j')). cbn; lia.
      + apply sumW_zero.
    - cbn [length] in Hj.
      rewrite (sum_ext' d _ (fun x' => if Nat.eqb x' x then g 0%nat x' * outW j ds (shift g) (alleq x) y else k0)).
      2:{ intros x' _.
          rewrite (outW_ext_T ds j (shift g) _ (fun ys => if Nat.eqb x' x then alleq x ys else k0) y).
          2:{ intros idx. apply alleq_cons. }
          destruct (Nat.eqb x' x); [reflexivity|]. rewrite outW_zero. ring. }
      rewrite sum_delta' by (apply (Hx 0%nat); cbn; lia).
      rewrite IH; [| lia | intros j' Hj'; apply (Hx (S j')); cbn; lia].
      destruct (Nat.eqb y x); ring.
  Qed.

  (* the message the copy tensor sends along leg j = the product of the messages arriving on the
     other legs: compute_all_hyperind_messages_{prod,tree} *)
  Theorem outW_delta d ds j (g : nat -> vec) y :
    (j < S (length ds))%nat -> (y < d)%nat ->
    (forall j', (j' < length ds)%nat -> nth j' ds 0%nat = d) ->
    outW j (d :: ds) g deltaT y = mprod_except j (S (length ds)) g y.
  Proof.
    intros Hj Hy Hd. destruct j as [|j]; cbn [Model.outW Model.mprod_except].
    - rewrite (sumW_ext ds (shift g) (shift g) _ (alleq y)) by reflexivity.
      apply sumW_alleq. intros j' Hj'. rewrite Hd by exact Hj'. exact Hy.
    - rewrite (sum_ext' d _ (fun x => if Nat.eqb x y then g 0%nat x * mprod_except j (length ds) (shift g) x else k0)).
      2:{ intros x Hx.
          rewrite (outW_ext_T ds j (shift g) _ (alleq x) y) by reflexivity.
          rewrite outW_alleq; [| lia | intros j' Hj'; rewrite Hd by exact Hj'; exact Hx].
          rewrite (Nat.eqb_sym y x). destruct (Nat.eqb x y); ring. }
      apply sum_delta'. exact Hy.
  Qed.
End Contract.

(* Forests, and the tie between the Bethe identity on trees and the
   mantissa/exponent bookkeeping of combine_local_contractions, over any field. *)
From Coq Require Import ZArith Arith List Bool Lia Ring Field PeanoNat.
From QV Require Import Base.Sums C14.Model C14.Combine C14.Contract C14.Sched C14.Tree.
Import ListNotations.

Section Forest.
  Variable K : Type.
  Variables (k0 k1 : K) (kadd kmul ksub : K -> K -> K) (kopp : K -> K).
  Hypothesis Kring : ring_theory k0 k1 kadd kmul ksub kopp eq.
  Add Ring Kr14f : Kring.
  Infix "*" := kmul.
  Notation lprod := (Model.lprod K k1 kmul).
  Notation nodeZs := (Model.nodeZs K k0 k1 kadd kmul).
  Notation bondZs := (Model.bondZs K k0 kadd kmul).
  Notation value := (Model.value K k0 kadd kmul).
  Notation all_good_state := (Tree.all_good_state K k0 k1 kadd kmul).

  (* a forest = a list of (tree, message state) ; its value is the product of the components *)
  Definition forest := list (Model.ttree K * Model.state K).
  Fixpoint fvalue (f : forest) : K := match f with [] => k1 | (t, _) :: r => value t * fvalue r end.
  Fixpoint fnodeZs (f : forest) : list K := match f with [] => [] | (t, s) :: r => nodeZs s [] t ++ fnodeZs r end.
  Fixpoint fbondZs (f : forest) : list K := match f with [] => [] | (t, s) :: r => bondZs s [] t ++ fbondZs r end.

  Theorem bethe_exact_forest (f : forest) :
    Forall (fun ts => all_good_state (fst ts) (snd ts)) f ->
    lprod (fnodeZs f) = fvalue f * lprod (fbondZs f).
  Proof.
    induction 1 as [|[t s] r Hts _ IH]; cbn [fnodeZs fbondZs fvalue Model.lprod].
    - ring.
    - rewrite !(Tree.lprod_app K k0 k1 kadd kmul ksub kopp Kring).
      cbn [fst snd] in Hts.
      rewrite (Tree.bethe_exact K k0 k1 kadd kmul ksub kopp Kring t s Hts), IH. ring.
  Qed.
End Forest.

Section BetheCombine.
  Variable F : Type.
  Variables (f0 f1 : F) (fadd fmul fsub : F -> F -> F) (fopp : F -> F)
            (fdiv : F -> F -> F) (finv : F -> F).
  Hypothesis Ffield : field_theory f0 f1 fadd fmul fsub fopp fdiv finv eq.
  Add Field Ff14 : Ffield.
  Let Fring := F_R Ffield.
  Variable mag : F -> F.
  Variable feqb : F -> F -> bool.
  Hypothesis feqb_ok : forall a b, feqb a b = true <-> a = b.
  Hypothesis mag_zero : forall x, mag x = f0 <-> x = f0.
  Variable E : Type.
  Variables (e0 : E) (eadd : E -> E -> E) (escale : Z -> E -> E).
  Variable lg : F -> E.
  Variable ten : E -> F.
  Hypothesis ten_add : forall a b, ten (eadd a b) = fmul (ten a) (ten b).
  Hypothesis ten_scale : forall p a, ten (escale p a) = fpow F f1 fmul finv (ten a) p.
  Hypothesis ten_nz : forall a, ten a <> f0.
  Hypothesis ten_0 : ten e0 = f1.
  Infix "*" := fmul.
  Notation lprod := (Model.lprod F f1 fmul).
  Notation prod_pow := (Model.prod_pow F f1 fmul finv).
  Notation combine := (Model.combine F f0 f1 fmul fdiv finv mag feqb E eadd escale lg).
  Notation okval := (Combine.okval F f0 mag E lg ten).

  (* the list handed to combine_local_contractions by D1BP.contract: (Z_tensor, +1) ..., (Z_bond, -1) ... *)
  Definition zvals (nodes bonds : list F) : list (F * Z) :=
    map (fun z => (z, 1%Z)) nodes ++ map (fun z => (z, (-1)%Z)) bonds.

  Lemma prod_pow_app l1 l2 : prod_pow (l1 ++ l2) = prod_pow l1 * prod_pow l2.
  Proof. induction l1 as [|[x p] l1 IH]; cbn [app Model.prod_pow]; [ring|]. rewrite IH. ring. Qed.

  Lemma prod_pow_plus l : prod_pow (map (fun z => (z, 1%Z)) l) = lprod l.
  Proof.
    induction l as [|z l IH]; cbn [map Model.prod_pow Model.lprod]; [reflexivity|].
    rewrite IH. change (Model.fpow F f1 fmul finv z 1) with (z * f1). ring.
  Qed.

  Lemma lprod_nz l : Forall (fun z => z <> f0) l -> lprod l <> f0.
  Proof.
    induction 1 as [|z l Hz _ IH]; cbn [Model.lprod].
    - exact (F_1_neq_0 Ffield).
    - apply (Combine.fmul_nz F f0 f1 fadd fmul fsub fopp fdiv finv Ffield); assumption.
  Qed.

  Lemma prod_pow_minus l : Forall (fun z => z <> f0) l ->
    prod_pow (map (fun z => (z, (-1)%Z)) l) = finv (lprod l).
  Proof.
    induction 1 as [|z l Hz Hl IH]; cbn [map Model.prod_pow Model.lprod].
    - field. exact (F_1_neq_0 Ffield).
    - rewrite IH. change (Model.fpow F f1 fmul finv z (-1)) with (finv (z * f1)).
      pose proof (lprod_nz l Hl). field. split; assumption.
  Qed.

  (* D1BP.contract on a tree whose messages are scalar multiples of the exact ones:
     mantissa * 10^exponent = the exact contraction value (all local values non-zero) *)
  Theorem bethe_combine_exact (t : Model.ttree F) (s : Model.state F) cz :
    Tree.all_good_state F f0 f1 fadd fmul t s ->
    Forall okval (zvals (Model.nodeZs F f0 f1 fadd fmul s [] t) (Model.bondZs F f0 fadd fmul s [] t)) ->
    exists m e,
      combine cz (zvals (Model.nodeZs F f0 f1 fadd fmul s [] t) (Model.bondZs F f0 fadd fmul s [] t)) f1 e0 1%Z
        = CVal F E m e
      /\ m * ten e = Model.value F f0 fadd fmul t.
  Proof.
    intros Hgood Hok.
    set (nodes := Model.nodeZs F f0 f1 fadd fmul s [] t) in *.
    set (bonds := Model.bondZs F f0 fadd fmul s [] t) in *.
    destruct (Combine.combine_sound F f0 f1 fadd fmul fsub fopp fdiv finv Ffield mag feqb feqb_ok mag_zero
                E eadd escale lg ten ten_add ten_scale ten_nz cz (zvals nodes bonds) f1 e0 1%Z
                (F_1_neq_0 Ffield) Hok) as (m & e & Hc & Hv).
    exists m, e. split; [exact Hc|]. rewrite Hv.
    rewrite (Combine.fpow_1 F f0 f1 fadd fmul fsub fopp fdiv finv Ffield).
    unfold zvals. rewrite prod_pow_app, prod_pow_plus.
    assert (Hb : Forall (fun z => z <> f0) bonds).
    { unfold zvals in Hok. apply Forall_app in Hok. destruct Hok as [_ Hok].
      rewrite Forall_map in Hok. eapply Forall_impl; [|exact Hok]. intros z [Hz _]. exact Hz. }
    rewrite (prod_pow_minus bonds Hb).
    pose proof (Tree.bethe_exact F f0 f1 fadd fmul fsub fopp Fring t s Hgood) as HB.
    fold nodes bonds in HB. rewrite HB, ten_0.
    pose proof (lprod_nz bonds Hb). field. assumption.
  Qed.
End BetheCombine.

(* C14 - proofs about the message factors of D2BP.gauge_insert (model: C14/GaugeModel.v).
   K: any commutative ring with a ring involution conj (R with the identity, C with complex conjugation, ...). *)
From Coq Require Import Arith List Lia Ring PeanoNat.
From QV Require Import Base.Sums C14.GaugeModel.
Import ListNotations.

Section GaugeProofs.
  Variable K : Type.
  Variables (k0 k1 : K) (kadd kmul ksub : K -> K -> K) (kopp : K -> K).
  Hypothesis Kring : ring_theory k0 k1 kadd kmul ksub kopp eq.
  Add Ring Kr : Kring.
  Variable kconj : K -> K.
  Hypothesis conj_add : forall a b, kconj (kadd a b) = kadd (kconj a) (kconj b).
  Hypothesis conj_mul : forall a b, kconj (kmul a b) = kmul (kconj a) (kconj b).
  Hypothesis conj_invol : forall a, kconj (kconj a) = a.

  Infix "+" := kadd. Infix "*" := kmul.
  Notation S_ := (sum K k0 kadd).
  Notation msqrt_ := (msqrt K kmul kconj).
  Notation minv_ := (minv K kmul).
  Notation mmul_ := (mmul K k0 kadd kmul).
  Notation mident_ := (mident K k0 k1).
  Notation gate1_ := (gate1 K k0 kadd kmul).

  Let sum_ext' := sum_ext K k0 kadd.
  Let sum_mul_l' := sum_mul_l K k0 k1 kadd kmul ksub kopp Kring.
  Let sum_mul_r' := sum_mul_r K k0 k1 kadd kmul ksub kopp Kring.
  Let sum_swap' := sum_swap K k0 k1 kadd kmul ksub kopp Kring.
  Let sum_delta' := sum_delta K k0 k1 kadd kmul ksub kopp Kring.

  Lemma conj_zero : kconj k0 = k0.
  Proof.
    assert (H : kconj k0 = kconj k0 + kconj k0) by (rewrite <- conj_add; f_equal; ring).
    assert (H2 : kconj k0 + kopp (kconj k0) = kconj k0 + kconj k0 + kopp (kconj k0)) by (rewrite <- H; reflexivity).
    transitivity (kconj k0 + kconj k0 + kopp (kconj k0)); [|rewrite <- H2]; ring.
  Qed.

  Lemma sum_conj n f : kconj (S_ n f) = S_ n (fun i => kconj (f i)).
  Proof.
    induction n as [|n IH]; cbn; [apply conj_zero|]. rewrite conj_add, IH. reflexivity.
  Qed.

  Lemma sum_mul_sum n f h : S_ n f * S_ n h = S_ n (fun b => S_ n (fun b' => f b * h b')).
  Proof.
    rewrite <- sum_mul_r'.
    apply sum_ext'. intros b _.
    rewrite sum_mul_l'. reflexivity.
  Qed.

  (* the identity matrix acts as the identity on indices below n *)
  Lemma gate1_ident n v i : i < n -> gate1_ n mident_ v i = v i.
  Proof.
    intros Hi. unfold gate1, mident.
    rewrite (sum_ext' n _ (fun j => if Nat.eqb j i then v j else k0)).
    - apply sum_delta'; exact Hi.
    - intros j _. rewrite Nat.eqb_sym. destruct (Nat.eqb j i); ring.
  Qed.

  (* two gate_ calls on the same index compose to the matrix product *)
  Lemma gate1_comp n A B v i : gate1_ n A (gate1_ n B v) i = gate1_ n (mmul_ n A B) v i.
  Proof.
    unfold gate1, mmul.
    rewrite (sum_ext' n _ (fun j => S_ n (fun k => A i j * B j k * v k))).
    2:{ intros j _. rewrite <- sum_mul_l'.
        apply sum_ext'. intros; ring. }
    rewrite sum_swap'.
    apply sum_ext'. intros k _.
    rewrite <- sum_mul_r'. reflexivity.
  Qed.

  Lemma gate1_ext n A B v i :
    (forall j, j < n -> A i j = B i j) -> gate1_ n A v i = gate1_ n B v i.
  Proof. intros H. unfold gate1. apply sum_ext'. intros j Hj. rewrite H by exact Hj. reflexivity. Qed.

  Section Factor.
    Variable n : nat.
    Variable W : mat K.
    Variables s sinv : nat -> K.
    (* eigh returns a unitary W (square: W^dag W = 1 and W W^dag = 1); the factor rule needs W W^dag = 1 *)
    Hypothesis W_unitary : forall i j, i < n -> j < n ->
      S_ n (fun k => W i k * kconj (W j k)) = mident_ i j.
    Hypothesis s_inv : forall k, k < n -> s k * sinv k = k1.

    (* rddiv(W, s) . ldmul(s, dag(W)) = 1, whatever the (smudged, powered) spectrum s is *)
    Lemma gauge_inverse_cancels i j : i < n -> j < n ->
      mmul_ n (minv_ sinv W) (msqrt_ s W) i j = mident_ i j.
    Proof.
      intros Hi Hj. rewrite <- (W_unitary i j Hi Hj). unfold mmul, minv, rdmul, msqrt.
      apply sum_ext'. intros k Hk.
      transitivity (W i k * kconj (W j k) * (s k * sinv k)); [ring|]. rewrite (s_inv k Hk). ring.
    Qed.

    (* gate_(msqrt) followed by gate_(minv) restores every fibre of every tensor *)
    Lemma gauge_round_trip v i : i < n ->
      gate1_ n (minv_ sinv W) (gate1_ n (msqrt_ s W) v) i = v i.
    Proof.
      intros Hi. rewrite gate1_comp.
      rewrite (gate1_ext n _ mident_ v i); [apply gate1_ident; exact Hi|].
      intros j Hj. apply gauge_inverse_cancels; assumption.
    Qed.
  End Factor.

  (* the 'transpose instead of dagger' inverse conj(W) s^-1: its product with the inserted factor is conj(W W^T), the
     identity exactly when W W^T = 1 (real orthogonal W: real symmetric messages), not for a general unitary W *)
  Lemma transposed_inverse_product n (W : mat K) (s sinv : nat -> K) :
    (forall k, k < n -> s k * sinv k = k1) ->
    forall i j,
    mmul_ n (minv_transposed K kmul kconj sinv W) (msqrt_ s W) i j = kconj (S_ n (fun k => W i k * W j k)).
  Proof.
    intros Hs i j. rewrite sum_conj. unfold mmul, minv_transposed, rdmul, msqrt.
    apply sum_ext'. intros k Hk. rewrite conj_mul.
    transitivity (kconj (W i k) * kconj (W j k) * (s k * sinv k)); [ring|]. rewrite (Hs k Hk). ring.
  Qed.

  (* the inserted factor squares to the message: the plain inner product of two gauged fibres is the message form of
     the original fibres (so a patch gauged on all its boundary bonds sees the identity as environment).  Needs only a
     real spectrum, no unitarity. *)
  Lemma gauged_inner_is_message_form n (W : mat K) (s : nat -> K) :
    (forall k, k < n -> kconj (s k) = s k) ->
    forall v w,
    inner K k0 kadd kmul kconj n (gate1_ n (msqrt_ s W) v) (gate1_ n (msqrt_ s W) w)
    = mform K k0 kadd kmul kconj n (msg K k0 kadd kmul kconj n s W) v w.
  Proof.
    intros Hs v w. unfold inner, mform, msg, gate1, msqrt.
    (* left: sum_a sum_b sum_b' *)
    rewrite (sum_ext' n _
      (fun a => S_ n (fun b => S_ n (fun b' =>
         (s a * kconj (W b a) * v b) * kconj (s a * kconj (W b' a) * w b'))))).
    2:{ intros a _. rewrite sum_conj. apply sum_mul_sum. }
    rewrite sum_swap'.
    apply sum_ext'. intros b _.
    rewrite sum_swap'.
    apply sum_ext'. intros b' _.
    rewrite <- sum_mul_l'.
    apply sum_ext'. intros a Ha.
    rewrite !conj_mul, conj_invol, (Hs a Ha). ring.
  Qed.
End GaugeProofs.

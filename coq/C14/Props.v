(* C14 property theorems (statements only; proofs in C14/{Combine,Contract,Sched,Tree,Final,Gauge}.v).
   K is ANY commutative ring (so Z, Q, R, C, ...), F ANY field; a tree is a rooted tensor tree
   (Model.ttree) - a hyper-index is a copy-tensor node (last two theorems). *)
From Coq Require Import ZArith Arith List Bool Ring Field.
From QV Require Import Base.Sums C14.Model C14.Combine C14.Contract C14.Sched C14.Tree C14.Final C14.GaugeModel C14.Gauge.
Import ListNotations.
Close Scope Z_scope.

(* combine_local_contractions: mantissa * 10^exponent = (mantissa0 * 10^exponent0 * prod x^p)^power
   for every list of non-zero values, every integer powers p, any overall integer power *)
Theorem C14_combine_mantissa_exponent_exact :
  forall (F : Type) (f0 f1 : F) (fadd fmul fsub : F -> F -> F) (fopp : F -> F)
         (fdiv : F -> F -> F) (finv : F -> F),
  field_theory f0 f1 fadd fmul fsub fopp fdiv finv eq ->
  forall (mag : F -> F) (feqb : F -> F -> bool),
  (forall a b : F, feqb a b = true <-> a = b) ->
  (forall x : F, mag x = f0 <-> x = f0) ->
  forall (E : Type) (eadd : E -> E -> E) (escale : Z -> E -> E) (lg : F -> E) (ten : E -> F),
  (forall a b : E, ten (eadd a b) = fmul (ten a) (ten b)) ->
  (forall (p : Z) (a : E), ten (escale p a) = fpow F f1 fmul finv (ten a) p) ->
  (forall a : E, ten a <> f0) ->
  forall (cz : bool) (values : list (F * Z)) (mant : F) (expo : E) (power : Z),
  mant <> f0 ->
  Forall (fun xp => fst xp <> f0 /\ ten (lg (mag (fst xp))) = mag (fst xp)) values ->
  exists (m : F) (e : E),
    combine F f0 f1 fmul fdiv finv mag feqb E eadd escale lg cz values mant expo power = CVal F E m e
    /\ fmul m (ten e) = fpow F f1 fmul finv (fmul (fmul mant (ten expo)) (prod_pow F f1 fmul finv values)) power.
Proof. exact combine_sound. Qed.
Print Assumptions C14_combine_mantissa_exponent_exact.

(* the zero short-circuit returns zero; the product it stands for is zero *)
Theorem C14_combine_zero_short_circuit :
  forall (F : Type) (f0 f1 : F) (fmul fdiv : F -> F -> F) (finv mag : F -> F) (feqb : F -> F -> bool),
  (forall a b : F, feqb a b = true <-> a = b) ->
  (forall x : F, mag x = f0 <-> x = f0) ->
  forall (E : Type) (eadd : E -> E -> E) (escale : Z -> E -> E) (lg : F -> E)
         (values : list (F * Z)) (mant : F) (expo : E) (power : Z),
  Exists (fun xp => fst xp = f0) values ->
  combine F f0 f1 fmul fdiv finv mag feqb E eadd escale lg true values mant expo power = CZero F E.
Proof. exact combine_zero. Qed.
Print Assumptions C14_combine_zero_short_circuit.

Theorem C14_combine_zero_is_the_product :
  forall (F : Type) (f0 f1 : F) (fadd fmul fsub : F -> F -> F) (fopp : F -> F)
         (fdiv : F -> F -> F) (finv : F -> F),
  field_theory f0 f1 fadd fmul fsub fopp fdiv finv eq ->
  forall values : list (F * Z),
  Exists (fun xp => fst xp = f0 /\ (0 < snd xp)%Z) values -> prod_pow F f1 fmul finv values = f0.
Proof. exact prod_pow_zero. Qed.
Print Assumptions C14_combine_zero_is_the_product.

(* cutting any bond: (contraction outside) . (contraction inside) = value of the whole tree *)
Theorem C14_cut_any_bond_gives_value :
  forall (K : Type) (k0 k1 : K) (kadd kmul ksub : K -> K -> K) (kopp : K -> K),
  ring_theory k0 k1 kadd kmul ksub kopp eq ->
  forall (t : ttree K) (p : list nat) (c : ttree K), sub K t p = Some c ->
  sum K k0 kadd (ndim K c) (fun x => kmul (upT K k0 kadd kmul c x) (dnT K k0 k1 kadd kmul t p x))
  = value K k0 kadd kmul t.
Proof. exact cut_bond_value. Qed.
Print Assumptions C14_cut_any_bond_gives_value.

(* schedule independence: after 2*height+2 rounds of ANY fair schedule (each round any sequence
   of steps, each step any set of messages recomputed together - sequential, parallel or mixed -
   every message at least once per round), from ANY initial messages and with ANY normalisation
   scalars, every message is a scalar multiple of the exact contraction of the subtree behind it *)
Theorem C14_messages_exact_after_any_fair_schedule :
  forall (K : Type) (k0 k1 : K) (kadd kmul ksub : K -> K -> K) (kopp : K -> K),
  ring_theory k0 k1 kadd kmul ksub kopp eq ->
  forall (t : ttree K) (s0 s : mid -> vec K) (rs : list (list (list mid))),
  rounds mid (vec K) (same K) (bp_upd K k0 k1 kadd kmul t) s0 rs s ->
  Forall (covers mid (valid K t)) rs ->
  2 * heightT K t + 2 <= length rs ->
  forall id : mid, valid K t id ->
    exists a, forall x, x < bdim K t (fst id) ->
      s id x = kmul a (exact_state K k0 k1 kadd kmul t (fst id) (snd id) x).
Proof. exact bp_fair_schedule_good. Qed.
Print Assumptions C14_messages_exact_after_any_fair_schedule.

(* ... and the Bethe combination prod Z_tensor / prod Z_bond is then the exact value
   (cross-multiplied: valid in any commutative ring, the normalisation scalars cancel) *)
Theorem C14_bethe_exact_after_any_fair_schedule :
  forall (K : Type) (k0 k1 : K) (kadd kmul ksub : K -> K -> K) (kopp : K -> K),
  ring_theory k0 k1 kadd kmul ksub kopp eq ->
  forall (t : ttree K) (s0 s : mid -> vec K) (rs : list (list (list mid))),
  rounds mid (vec K) (same K) (bp_upd K k0 k1 kadd kmul t) s0 rs s ->
  Forall (covers mid (valid K t)) rs ->
  2 * heightT K t + 2 <= length rs ->
  lprod K k1 kmul (nodeZs K k0 k1 kadd kmul (curry K s) [] t)
  = kmul (value K k0 kadd kmul t) (lprod K k1 kmul (bondZs K k0 kadd kmul (curry K s) [] t)).
Proof. exact bp_fair_schedule_bethe. Qed.
Print Assumptions C14_bethe_exact_after_any_fair_schedule.

(* every fixed point (up to normalisation) consists of exact messages *)
Theorem C14_fixed_point_messages_exact :
  forall (K : Type) (k0 k1 : K) (kadd kmul ksub : K -> K -> K) (kopp : K -> K),
  ring_theory k0 k1 kadd kmul ksub kopp eq ->
  forall (t : ttree K) (s : mid -> vec K),
  (forall id : mid, valid K t id ->
     exists c, forall x, x < bdim K t (fst id) ->
       s id x = kmul c (rawmsg K k0 k1 kadd kmul t (curry K s) (fst id) (snd id) x)) ->
  forall id : mid, valid K t id ->
    exists a, forall x, x < bdim K t (fst id) ->
      s id x = kmul a (exact_state K k0 k1 kadd kmul t (fst id) (snd id) x).
Proof. exact bp_fixed_point_good. Qed.
Print Assumptions C14_fixed_point_messages_exact.

(* Bethe formula for ANY normalisation scalars *)
Theorem C14_bethe_exact_for_any_normalisation :
  forall (K : Type) (k0 k1 : K) (kadd kmul ksub : K -> K -> K) (kopp : K -> K),
  ring_theory k0 k1 kadd kmul ksub kopp eq ->
  forall (t : ttree K) (s : state K),
  (forall q b, valid K t (q, b) ->
     exists a, forall x, x < bdim K t q -> s q b x = kmul a (exact_state K k0 k1 kadd kmul t q b x)) ->
  lprod K k1 kmul (nodeZs K k0 k1 kadd kmul s [] t)
  = kmul (value K k0 kadd kmul t) (lprod K k1 kmul (bondZs K k0 kadd kmul s [] t)).
Proof. exact bethe_exact. Qed.
Print Assumptions C14_bethe_exact_for_any_normalisation.

(* forests: product over the components *)
Theorem C14_bethe_exact_forest :
  forall (K : Type) (k0 k1 : K) (kadd kmul ksub : K -> K -> K) (kopp : K -> K),
  ring_theory k0 k1 kadd kmul ksub kopp eq ->
  forall f : forest K,
  Forall (fun ts => all_good_state K k0 k1 kadd kmul (fst ts) (snd ts)) f ->
  lprod K k1 kmul (fnodeZs K k0 k1 kadd kmul f)
  = kmul (fvalue K k0 k1 kadd kmul f) (lprod K k1 kmul (fbondZs K k0 kadd kmul f)).
Proof. exact bethe_exact_forest. Qed.
Print Assumptions C14_bethe_exact_forest.

(* D1BP.contract = combine_local_contractions([(Z_t, 1)...] + [(Z_bond, -1)...]) is the exact value *)
Theorem C14_bethe_through_combine_exact :
  forall (F : Type) (f0 f1 : F) (fadd fmul fsub : F -> F -> F) (fopp : F -> F)
         (fdiv : F -> F -> F) (finv : F -> F),
  field_theory f0 f1 fadd fmul fsub fopp fdiv finv eq ->
  forall (mag : F -> F) (feqb : F -> F -> bool),
  (forall a b : F, feqb a b = true <-> a = b) ->
  (forall x : F, mag x = f0 <-> x = f0) ->
  forall (E : Type) (e0 : E) (eadd : E -> E -> E) (escale : Z -> E -> E) (lg : F -> E) (ten : E -> F),
  (forall a b : E, ten (eadd a b) = fmul (ten a) (ten b)) ->
  (forall (p : Z) (a : E), ten (escale p a) = fpow F f1 fmul finv (ten a) p) ->
  (forall a : E, ten a <> f0) ->
  ten e0 = f1 ->
  forall (t : ttree F) (s : state F) (cz : bool),
  all_good_state F f0 f1 fadd fmul t s ->
  Forall (fun xp => fst xp <> f0 /\ ten (lg (mag (fst xp))) = mag (fst xp))
    (zvals F (nodeZs F f0 f1 fadd fmul s [] t) (bondZs F f0 fadd fmul s [] t)) ->
  exists (m : F) (e : E),
    combine F f0 f1 fmul fdiv finv mag feqb E eadd escale lg cz
      (zvals F (nodeZs F f0 f1 fadd fmul s [] t) (bondZs F f0 fadd fmul s [] t)) f1 e0 1%Z = CVal F E m e
    /\ fmul m (ten e) = value F f0 fadd fmul t.
Proof. exact bethe_combine_exact. Qed.
Print Assumptions C14_bethe_through_combine_exact.

(* index marginal from the two messages of a bond: proportional to the exact marginal
   up(x).down(x), with the proportionality constant equal to its own normalisation / value *)
Theorem C14_index_marginal_exact :
  forall (K : Type) (k0 k1 : K) (kadd kmul ksub : K -> K -> K) (kopp : K -> K),
  ring_theory k0 k1 kadd kmul ksub kopp eq ->
  forall (t : ttree K) (s : state K), all_good_state K k0 k1 kadd kmul t s ->
  forall (q : list nat) (c : ttree K), q <> [] -> sub K t q = Some c ->
  exists A : K,
    (forall x, x < ndim K c ->
       bond_marg K kmul s q x = kmul A (kmul (upT K k0 kadd kmul c x) (dnT K k0 k1 kadd kmul t q x)))
    /\ Zbond K k0 kadd kmul s q (ndim K c) = kmul A (value K k0 kadd kmul t).
Proof. exact bond_marginal_exact. Qed.
Print Assumptions C14_index_marginal_exact.

(* tensor marginal: proportional to the one built from the exact messages, constant = Z_node / value;
   and its normalisation (sum over all index assignments) is Z_node *)
Theorem C14_tensor_marginal_exact :
  forall (K : Type) (k0 k1 : K) (kadd kmul ksub : K -> K -> K) (kopp : K -> K),
  ring_theory k0 k1 kadd kmul ksub kopp eq ->
  forall (t : ttree K) (s : state K) (q : list nat) (c : ttree K),
  all_good_state K k0 k1 kadd kmul t s -> sub K t q = Some c ->
  exists A : K,
    (forall idx, in_range (ldims K c) idx ->
       node_marg K k1 kmul s q c idx = kmul A (node_marg K k1 kmul (exact_state K k0 k1 kadd kmul t) q c idx))
    /\ Znode K k0 k1 kadd kmul s q c = kmul A (value K k0 kadd kmul t).
Proof. exact node_marginal_exact. Qed.
Print Assumptions C14_tensor_marginal_exact.

Theorem C14_tensor_marginal_normalisation :
  forall (K : Type) (k0 k1 : K) (kadd kmul ksub : K -> K -> K) (kopp : K -> K),
  ring_theory k0 k1 kadd kmul ksub kopp eq ->
  forall (t : ttree K) (s : state K) (q : list nat) (c : ttree K),
  Znode K k0 k1 kadd kmul s q c = sumW K k0 kadd kmul (ldims K c) (fun _ _ => k1) (node_marg K k1 kmul s q c)
  /\ (sub K t q = Some c -> Znode K k0 k1 kadd kmul (exact_state K k0 k1 kadd kmul t) q c = value K k0 kadd kmul t).
Proof.
  intros K k0 k1 kadd kmul ksub kopp R t s q c. split.
  - exact (Znode_sums_node_marg K k0 k1 kadd kmul ksub kopp R s q c).
  - exact (Znode_exact K k0 k1 kadd kmul ksub kopp R t q c).
Qed.
Print Assumptions C14_tensor_marginal_normalisation.

(* exactness is stable: further steps of any kind, damped or not, keep every message exact *)
Theorem C14_exact_messages_stay_exact :
  forall (K : Type) (k0 k1 : K) (kadd kmul ksub : K -> K -> K) (kopp : K -> K),
  ring_theory k0 k1 kadd kmul ksub kopp eq ->
  forall (t : ttree K) (s s' : mid -> vec K) (r : list (list mid)),
  steps mid (vec K) (same K) (bp_upd K k0 k1 kadd kmul t) s r s' ->
  (forall id, valid K t id -> good K k0 k1 kadd kmul t id (s id)) ->
  forall id, valid K t id -> good K k0 k1 kadd kmul t id (s' id).
Proof. exact bp_all_good_stable. Qed.
Print Assumptions C14_exact_messages_stay_exact.

Theorem C14_damped_steps_preserve_exactness :
  forall (K : Type) (k0 k1 : K) (kadd kmul ksub : K -> K -> K) (kopp : K -> K),
  ring_theory k0 k1 kadd kmul ksub kopp eq ->
  forall (t : ttree K) (s s' : mid -> vec K) (S : list mid),
  stepD mid (vec K) (same K) (bp_upd_damped K k0 k1 kadd kmul t) S s s' ->
  (forall id, valid K t id -> good K k0 k1 kadd kmul t id (s id)) ->
  forall id, valid K t id -> good K k0 k1 kadd kmul t id (s' id).
Proof. exact bp_damped_step_stable. Qed.
Print Assumptions C14_damped_steps_preserve_exactness.

(* damping does not change the fixed point (convergence of the damped iteration itself is
   asymptotic and is left to the numerical stream: hence _partial) *)
Theorem C14_damping_same_fixed_point_partial :
  forall (K : Type) (k0 k1 : K) (kadd kmul ksub : K -> K -> K) (kopp : K -> K),
  ring_theory k0 k1 kadd kmul ksub kopp eq ->
  forall (t : ttree K) (s : mid -> vec K) (lam : K),
  (forall a b : K, kmul (ksub k1 lam) a = kmul (ksub k1 lam) b -> a = b) ->
  (forall id : mid, valid K t id ->
     exists c : K, forall x, x < bdim K t (fst id) ->
       s id x = kadd (kmul lam (s id x))
                     (kmul (ksub k1 lam) (kmul c (rawmsg K k0 k1 kadd kmul t (curry K s) (fst id) (snd id) x)))) ->
  forall id : mid, valid K t id ->
    exists a, forall x, x < bdim K t (fst id) ->
      s id x = kmul a (exact_state K k0 k1 kadd kmul t (fst id) (snd id) x).
Proof.
  intros K k0 k1 kadd kmul ksub kopp R t s lam Hc Hfix.
  apply (bp_fixed_point_good K k0 k1 kadd kmul ksub kopp R t s).
  exact (damped_fixed_point_is_fixed_point K k0 k1 kadd kmul ksub kopp R t s lam Hc Hfix).
Qed.
Print Assumptions C14_damping_same_fixed_point_partial.

(* hyper-indices: a hyper-index of degree n and size d IS the copy tensor of rank n. The message
   the copy tensor sends along leg j is the product of the messages arriving on the other legs
   (hd1bp.compute_all_hyperind_messages_prod / _tree), and its local contraction is sum_x prod_j m_j(x)
   (the index region of contract_hyper_messages) - so hyper BP on a hyper-tree is tree BP. *)
Theorem C14_hyper_index_message_is_copy_tensor :
  forall (K : Type) (k0 k1 : K) (kadd kmul ksub : K -> K -> K) (kopp : K -> K),
  ring_theory k0 k1 kadd kmul ksub kopp eq ->
  forall (d : nat) (ds : list nat) (j : nat) (g : nat -> vec K) (y : nat),
  j < S (length ds) -> y < d -> (forall j', j' < length ds -> nth j' ds 0 = d) ->
  outW K k0 kadd kmul j (d :: ds) g (deltaT K k0 k1) y = mprod_except K k1 kmul j (S (length ds)) g y.
Proof. exact outW_delta. Qed.
Print Assumptions C14_hyper_index_message_is_copy_tensor.

Theorem C14_hyper_index_region_is_copy_tensor :
  forall (K : Type) (k0 k1 : K) (kadd kmul ksub : K -> K -> K) (kopp : K -> K),
  ring_theory k0 k1 kadd kmul ksub kopp eq ->
  forall (d : nat) (ds : list nat) (g : nat -> vec K),
  (forall j, j < length ds -> nth j ds 0 = d) ->
  sumW K k0 kadd kmul (d :: ds) g (deltaT K k0 k1) = sum K k0 kadd d (mprod K k1 kmul (S (length ds)) g).
Proof. exact sumW_delta. Qed.
Print Assumptions C14_hyper_index_region_is_copy_tensor.

(* D2BP.gauge_insert / gauge_temp / gate_: the two factors built from the eigen-decomposition m = W s^2 W^dag of a
   boundary message (model C14/GaugeModel.v: msqrt = ldmul(s, dag(W)), minv = rddiv(W, s), Tensor.gate_ on a fibre =
   gate1).  K: any commutative ring with a conjugation; s: ANY spectrum with inverses (so smudge and power are covered);
   W: any matrix with W W^dag = 1 (what eigh returns). *)
Theorem C14_gauge_inverse_factor_cancels_sqrt_factor :
  forall (K : Type) (k0 k1 : K) (kadd kmul ksub : K -> K -> K) (kopp : K -> K),
  ring_theory k0 k1 kadd kmul ksub kopp eq ->
  forall (kconj : K -> K) (n : nat) (W : mat K) (s sinv : nat -> K),
  (forall i j, i < n -> j < n -> sum K k0 kadd n (fun k => kmul (W i k) (kconj (W j k))) = mident K k0 k1 i j) ->
  (forall k, k < n -> kmul (s k) (sinv k) = k1) ->
  forall i j, i < n -> j < n ->
  mmul K k0 kadd kmul n (minv K kmul sinv W) (msqrt K kmul kconj s W) i j = mident K k0 k1 i j.
Proof. exact gauge_inverse_cancels. Qed.
Print Assumptions C14_gauge_inverse_factor_cancels_sqrt_factor.

(* gate_(msqrt, ix) followed by gate_(minv, ix) (gauge_temp, the un-gauging after gate_) restores every fibre of the
   tensor along ix, hence the tensor, hence the denoted network *)
Theorem C14_gauge_then_ungauge_is_identity :
  forall (K : Type) (k0 k1 : K) (kadd kmul ksub : K -> K -> K) (kopp : K -> K),
  ring_theory k0 k1 kadd kmul ksub kopp eq ->
  forall (kconj : K -> K) (n : nat) (W : mat K) (s sinv : nat -> K),
  (forall i j, i < n -> j < n -> sum K k0 kadd n (fun k => kmul (W i k) (kconj (W j k))) = mident K k0 k1 i j) ->
  (forall k, k < n -> kmul (s k) (sinv k) = k1) ->
  forall (v : nat -> K) (i : nat), i < n ->
  gate1 K k0 kadd kmul n (minv K kmul sinv W) (gate1 K k0 kadd kmul n (msqrt K kmul kconj s W) v) i = v i.
Proof. exact gauge_round_trip. Qed.
Print Assumptions C14_gauge_then_ungauge_is_identity.

(* the inserted factor is a square root of the message in the layout D2BP stores it (bra axis first): the plain inner
   product of two gauged fibres is the message-weighted inner product of the original fibres - the gauged patch sees
   the identity as its environment.  Any W, any real spectrum. *)
Theorem C14_gauged_inner_product_is_message_form :
  forall (K : Type) (k0 k1 : K) (kadd kmul ksub : K -> K -> K) (kopp : K -> K),
  ring_theory k0 k1 kadd kmul ksub kopp eq ->
  forall kconj : K -> K,
  (forall a b, kconj (kadd a b) = kadd (kconj a) (kconj b)) ->
  (forall a b, kconj (kmul a b) = kmul (kconj a) (kconj b)) ->
  (forall a, kconj (kconj a) = a) ->
  forall (n : nat) (W : mat K) (s : nat -> K),
  (forall k, k < n -> kconj (s k) = s k) ->
  forall v w : nat -> K,
  inner K k0 kadd kmul kconj n (gate1 K k0 kadd kmul n (msqrt K kmul kconj s W) v)
                               (gate1 K k0 kadd kmul n (msqrt K kmul kconj s W) w)
  = mform K k0 kadd kmul kconj n (msg K k0 kadd kmul kconj n s W) v w.
Proof. exact gauged_inner_is_message_form. Qed.
Print Assumptions C14_gauged_inner_product_is_message_form.

(* a transpose in place of the dagger (inverse factor conj(W) s^-1) gives conj(W W^T) instead of the identity: right for
   real orthogonal W (real symmetric messages) only *)
Theorem C14_transposed_inverse_factor_gives_W_Wt :
  forall (K : Type) (k0 k1 : K) (kadd kmul ksub : K -> K -> K) (kopp : K -> K),
  ring_theory k0 k1 kadd kmul ksub kopp eq ->
  forall kconj : K -> K,
  (forall a b, kconj (kadd a b) = kadd (kconj a) (kconj b)) ->
  (forall a b, kconj (kmul a b) = kmul (kconj a) (kconj b)) ->
  forall (n : nat) (W : mat K) (s sinv : nat -> K),
  (forall k, k < n -> kmul (s k) (sinv k) = k1) ->
  forall i j,
  mmul K k0 kadd kmul n (minv_transposed K kmul kconj sinv W) (msqrt K kmul kconj s W) i j
  = kconj (sum K k0 kadd n (fun k => kmul (W i k) (W j k))).
Proof. exact transposed_inverse_product. Qed.
Print Assumptions C14_transposed_inverse_factor_gives_W_Wt.

(* non-vacuity: a 3-tensor chain  A[3] - B[3,2] - C[2]  over Z, rooted at A (dummy top leg of size 1):
   value, exact messages, one raw BP round from all-ones messages, and the Bethe identity with
   un-normalised exact messages scaled by 2 and 5. *)
Open Scope Z_scope.
Definition exC := Node 2%nat (tensor_of [2%nat] [7; 8]) FNil.
Definition exB := Node 3%nat (tensor_of [3%nat; 2%nat] [1; 2; 3; 4; 5; 6]) (FCons exC FNil).
Definition exA := Node 1%nat (tensor_of [1%nat; 3%nat] [1; 1; 3]) (FCons exB FNil).
Definition exS : list nat -> bool -> nat -> Z :=
  fun q b x => (if b then 2 else 5) * Zexact exA q b x.
Example C14_examples :
  Zvalue exA = 1*(1*7+2*8) + 1*(3*7+4*8) + 3*(5*7+6*8)
  /\ exact_table exA = [([0%nat], [23; 53; 83], [1; 1; 3]); ([0%nat; 0%nat], [7; 8], [19; 24])]
  /\ Zlprod (ZnodeZs exS [] exA) = Zvalue exA * Zlprod (ZbondZs exS [] exA)
  /\ raw_table exA (fun _ _ _ => 1) = [([0%nat], [3; 7; 11], [1; 1; 3]); ([0%nat; 0%nat], [7; 8], [9; 12])].
Proof. vm_compute. repeat split. Qed.

(* non-vacuity of the gauge theorems over the Gaussian integers: W = [[0, i], [1, 0]] is unitary, spectrum (1, -1)
   (its own inverse): minv . msqrt = 1, while the transposed rule gives diag(-1, 1). *)
From QV Require Import Base.TNExec.
Definition exW : mat G := gmat_of [[(0, 0); (0, 1)]; [(1, 0); (0, 0)]].
Definition exs : nat -> G := gvec_of [1; -1].
Example C14_gauge_examples :
  gtab 2 (mmul G g0 gadd gmul 2 exW (fun i j => gconj (exW j i))) = [g1; g0; g0; g1]
  /\ gtab 2 (mmul G g0 gadd gmul 2 (minv G gmul exs exW) (msqrt G gmul gconj exs exW)) = [g1; g0; g0; g1]
  /\ gtab 2 (mmul G g0 gadd gmul 2 (minv_transposed G gmul gconj exs exW) (msqrt G gmul gconj exs exW))
     = [(-1, 0); g0; g0; g1].
Proof. vm_compute. repeat split. Qed.

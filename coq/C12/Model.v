(* C12 model: the PLAN language of approximate (compressed) contraction schemes
   and its executable checker.

   A run of any scheme of quimb (2D/3D boundary contraction in every mode,
   contract_compressed / contract_around, HOTRG, CTMRG, environment builders)
   is logged by the harness (harness/c12.py rebinds the primitives at run time)
   as a list of the operations below, with the ACTUAL bond sizes observed before
   and after each compression.  `plan_ok` decides - inside Coq, on the logged
   plan - that the plan is well-formed (only known primitives, no tensor used
   after it was contracted away) and cap-respecting (every compression with a
   finite max_bond ends within it; at every hand-over every bond compressed
   since the previous hand-over is within the scheme's cap).
   `plan_untruncating` decides that no step can truncate (cutoff = 0 and
   max_bond >= the rank bound of the bond).  Executable definitions only. *)
From Coq Require Import List Bool Arith PeanoNat.
Import ListNotations.

Definition tid := nat.

Inductive op : Type :=
  (* tensors `ts` are contracted into one tensor that lives at `r`
     (r is one of ts - _contract_between_tids - or a new identifier) *)
| Contract (ts : list tid) (r : tid)
  (* QR-type gauge move between two neighbouring tensors (tensor_canonize_bond,
     tree canonisation around a pair is logged as one Canonize per tree edge) *)
| Canonize (a b : tid)
  (* bond a-b compressed with `max_bond = chi` (None = unbounded), `cut0` =
     (cutoff == 0), `rk` = observed upper bound on the exact rank of the bond
     (min of bond size and the two outer sizes), observed bond size before / after *)
| Compress (a b : tid) (chi : option nat) (cut0 : bool) (rk before after : nat)
  (* a pair of projectors pa, pb inserted between the regions la | lb
     (insert_compressor_between_regions: HOTRG, CTMRG, projector modes): the
     product of the cut bond sizes `before`, the new pa-pb bond `after` *)
| Project (la lb : list tid) (pa pb : tid) (chi : option nat) (cut0 : bool) (rk before after : nat)
  (* several parallel bonds between a and b fused into one (tensor_fuse_squeeze) *)
| Fuse (a b : tid)
  (* G, G^-1 inserted on / absorbed along the bond a-b; bond size unchanged *)
| Gauge (a b : tid)
  (* the scheme returns, or hands an intermediate boundary to its next stage:
     `cap` = the scheme's max_bond, `bonds` = the observed sizes of all bonds
     between pairs of tensors of the network at that moment *)
| HandOver (cap : option nat) (bonds : list (tid * tid * nat))
  (* an environment consisting of the tensors `ts` is stored under `key` *)
| Env (key : nat) (ts : list tid)
  (* a boundary-contraction step returns: `bonds` = the observed TOTAL size (product
     over all shared indices, fused or not) of the bond between every pair of tensors
     of the new boundary layer; all of them must be within the cap, whether or not a
     compression was logged for them (a bond the driver forgot to compress - e.g. the
     one closing a periodic direction - is refused here) *)
| Boundary (cap : option nat) (bonds : list (tid * tid * nat))
  (* a mutation of the network that is none of the above *)
| Unknown (code : nat).

Definition mem (x : tid) (l : list tid) : bool := existsb (Nat.eqb x) l.

Definition le_cap (n : nat) (cap : option nat) : bool :=
  match cap with None => true | Some m => n <=? m end.

(* renaming of tensor identifiers performed by a contraction *)
Definition ren (ts : list tid) (r : tid) (x : tid) : tid := if mem x ts then r else x.

Definition ren_op (o : op) (x : tid) : tid :=
  match o with Contract ts r => ren ts r x | _ => x end.

Definition is_handover (o : op) : bool := match o with HandOver _ _ => true | _ => false end.

Fixpoint bond_lookup (bonds : list (tid * tid * nat)) (a b : tid) : option nat :=
  match bonds with
  | [] => None
  | (x, y, s) :: rest =>
      if (Nat.eqb x a && Nat.eqb y b) || (Nat.eqb x b && Nat.eqb y a) then Some s
      else bond_lookup rest a b
  end.

Fixpoint nodupb (l : list tid) : bool :=
  match l with [] => true | x :: t => negb (mem x t) && nodupb t end.

(* checker state: identifiers contracted away so far; bonds (as pairs of current
   identifiers) compressed since the last hand-over *)
Record st := { dead : list tid; pend : list (tid * tid) }.

Definition init : st := {| dead := []; pend := [] |}.

Definition alive (s : st) (x : tid) : bool := negb (mem x (dead s)).

Definition pair_ok (s : st) (a b : tid) : bool := alive s a && alive s b && negb (Nat.eqb a b).

(* identifiers an operation refers to *)
Definition mentions (o : op) : list tid :=
  match o with
  | Contract ts r => r :: ts
  | Canonize a b | Fuse a b | Gauge a b => [a; b]
  | Compress a b _ _ _ _ _ => [a; b]
  | Project la lb pa pb _ _ _ _ _ => pa :: pb :: la ++ lb
  | HandOver _ bonds => flat_map (fun e => [fst (fst e); snd (fst e)]) bonds
  | Boundary _ bonds => flat_map (fun e => [fst (fst e); snd (fst e)]) bonds
  | Env _ ts => ts
  | Unknown _ => []
  end.

Definition step (s : st) (o : op) : option st :=
  match o with
  | Contract ts r =>
      if negb (match ts with [] => true | _ => false end) && forallb (alive s) ts && nodupb ts
         && (mem r ts || alive s r)
      then Some {| dead := filter (fun x => negb (Nat.eqb x r)) ts ++ dead s;
                   pend := filter (fun p => negb (Nat.eqb (fst p) (snd p)))
                             (map (fun p => (ren ts r (fst p), ren ts r (snd p))) (pend s)) |}
      else None
  | Canonize a b | Fuse a b | Gauge a b => if pair_ok s a b then Some s else None
  | Compress a b chi _ _ _ after =>
      if pair_ok s a b && le_cap after chi
      then Some {| dead := dead s; pend := (a, b) :: pend s |} else None
  | Project la lb pa pb chi _ _ _ after =>
      if pair_ok s pa pb && forallb (alive s) la && forallb (alive s) lb
         && le_cap after chi
      then Some {| dead := dead s; pend := (pa, pb) :: pend s |} else None
  | HandOver cap bonds =>
      if forallb (alive s) (mentions o)
         && forallb (fun p => match bond_lookup bonds (fst p) (snd p) with
                              | Some sz => le_cap sz cap
                              | None => false
                              end) (pend s)
      then Some {| dead := dead s; pend := [] |} else None
  | Env _ ts => if forallb (alive s) ts then Some s else None
  | Boundary cap bonds =>
      if forallb (alive s) (mentions o) && forallb (fun e => le_cap (snd e) cap) bonds
      then Some s else None
  | Unknown _ => None
  end.

Fixpoint run (s : st) (p : list op) : option st :=
  match p with
  | [] => Some s
  | o :: p' => match step s o with Some s' => run s' p' | None => None end
  end.

Definition plan_ok (p : list op) : bool :=
  match run init p with Some _ => true | None => false end.

(* index of the first operation the checker refuses (diagnostics for the searcher) *)
Fixpoint first_bad (s : st) (p : list op) (k : nat) : option nat :=
  match p with
  | [] => None
  | o :: p' => match step s o with Some s' => first_bad s' p' (S k) | None => Some k end
  end.

(* no step of the plan can truncate *)
Definition exact_op (o : op) : bool :=
  match o with
  | Compress _ _ chi cut0 rk _ _ => cut0 && le_cap rk chi
  | Project _ _ _ _ chi cut0 rk _ _ => cut0 && le_cap rk chi
  | Unknown _ => false
  | _ => true
  end.

Definition plan_untruncating (p : list op) : bool := forallb exact_op p.

(* the scheme's cap is the cap every primitive is called with *)
Definition opt_eqb (a b : option nat) : bool :=
  match a, b with
  | None, None => true
  | Some x, Some y => Nat.eqb x y
  | _, _ => false
  end.

Definition op_cap_is (cap : option nat) (o : op) : bool :=
  match o with
  | Compress _ _ chi _ _ _ _ => opt_eqb chi cap
  | Project _ _ _ _ chi _ _ _ _ => opt_eqb chi cap
  | HandOver c _ => opt_eqb c cap
  | Boundary c _ => opt_eqb c cap
  | _ => true
  end.

Definition plan_cap_is (cap : option nat) (p : list op) : bool := forallb (op_cap_is cap) p.

(* ... and the scheme's cutoff is the cutoff every primitive is called with *)
Definition op_cut_is (c0 : bool) (o : op) : bool :=
  match o with
  | Compress _ _ _ c _ _ _ => Bool.eqb c c0
  | Project _ _ _ _ _ c _ _ _ => Bool.eqb c c0
  | _ => true
  end.

Definition plan_opts_are (cap : option nat) (c0 : bool) (p : list op) : bool :=
  plan_cap_is cap p && forallb (op_cut_is c0) p.

(* no step can truncate under the scheme's cap (cutoff = 0 and cap >= rank bound) *)
Definition exact_under (cap : option nat) (o : op) : bool :=
  match o with
  | Compress _ _ _ cut0 rk _ _ => cut0 && le_cap rk cap
  | Project _ _ _ _ _ cut0 rk _ _ => cut0 && le_cap rk cap
  | Unknown _ => false
  | _ => true
  end.

Definition scheme_untruncating (cap : option nat) (p : list op) : bool := forallb (exact_under cap) p.

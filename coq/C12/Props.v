(* C12 property theorems (statements only; proofs in C12/Proofs.v, C12/Exact.v). *)
From Coq Require Import ZArith Arith List Bool Ring Permutation.
From QV Require Import Base.Sums Base.TN Base.TNExec C12.Model C12.Proofs C12.Exact C12.PlaqModel C12.PlaqProofs.
Import ListNotations.

(* ---- bookkeeping half: for EVERY logged plan ------------------------------ *)

(* At every hand-over of an accepted plan, every bond that was compressed since
   the previous hand-over (followed through the renamings done by the
   contractions in between; `pending` reads the history backwards) is present in
   the observed bond table and its observed size is within the scheme's cap. *)
Theorem C12_plan_bond_cap : forall p, plan_ok p = true ->
  forall pre cap bonds post, p = pre ++ HandOver cap bonds :: post ->
  forall a b, pending (rev pre) a b ->
  exists sz, bond_lookup bonds a b = Some sz /\ within sz cap.
Proof. exact plan_bond_cap. Qed.
Print Assumptions C12_plan_bond_cap.

(* every compression with a finite max_bond ends within it *)
Theorem C12_plan_compress_cap : forall p, plan_ok p = true ->
  forall a b m c rk bf af, In (Compress a b (Some m) c rk bf af) p -> af <= m.
Proof. exact plan_compress_cap. Qed.
Print Assumptions C12_plan_compress_cap.

Theorem C12_plan_project_cap : forall p, plan_ok p = true ->
  forall la lb pa pb m c rk bf af, In (Project la lb pa pb (Some m) c rk bf af) p -> af <= m.
Proof. exact plan_project_cap. Qed.
Print Assumptions C12_plan_project_cap.

(* every bond between two tensors of a returned boundary layer - total size over all
   shared indices, whether or not a compression was logged for it - is within the cap *)
Theorem C12_plan_boundary_cap : forall p, plan_ok p = true ->
  forall cap bonds, In (Boundary cap bonds) p ->
  forall a b sz, In (a, b, sz) bonds -> within sz cap.
Proof. exact plan_boundary_cap. Qed.
Print Assumptions C12_plan_boundary_cap.

(* an accepted plan consists of known primitives only *)
Theorem C12_plan_no_unknown_primitive : forall p, plan_ok p = true -> forall k, ~ In (Unknown k) p.
Proof. exact plan_no_unknown. Qed.
Print Assumptions C12_plan_no_unknown_primitive.

(* ... and never touches a tensor after it was contracted away *)
Theorem C12_plan_no_use_after_contract : forall p, plan_ok p = true ->
  forall pre ts r post, p = pre ++ Contract ts r :: post ->
  forall x, In x ts -> x <> r -> forall o, In o post -> ~ In x (mentions o).
Proof. exact plan_no_use_after_contract. Qed.
Print Assumptions C12_plan_no_use_after_contract.

(* when every primitive is called with the scheme's cap, "the scheme's max_bond is at
   least every rank bound and cutoff = 0" is exactly "no step can truncate" *)
Theorem C12_scheme_cap_untruncating : forall cap p, plan_cap_is cap p = true ->
  scheme_untruncating cap p = plan_untruncating p.
Proof. exact scheme_cap_untruncating. Qed.
Print Assumptions C12_scheme_cap_untruncating.

(* ---- plaquette environments: which sites the four sources contribute ------- *)
(* both coordinate selections of compute_plaquette_environments (rows first,
   columns first) are exactly the ring of valid lattice sites around the plaquette,
   for every lattice size, plaquette position and plaquette shape *)
Theorem C12_plaquette_rows_first_is_ring : forall Lx Ly i0 j0 xb yb c,
  In c (sel_x_first Lx Ly i0 j0 xb yb) <-> PlaqProofs.ring Lx Ly i0 j0 xb yb c.
Proof. exact sel_x_first_is_ring. Qed.
Print Assumptions C12_plaquette_rows_first_is_ring.

Theorem C12_plaquette_columns_first_is_ring : forall Lx Ly i0 j0 xb yb c,
  In c (sel_y_first Lx Ly i0 j0 xb yb) <-> PlaqProofs.ring Lx Ly i0 j0 xb yb c.
Proof. exact sel_y_first_is_ring. Qed.
Print Assumptions C12_plaquette_columns_first_is_ring.

(* the run-time check on an observed plaquette environment certifies that its tensors
   carry every site of the ring and no site of the plaquette *)
Theorem C12_env_sites_ok_sound : forall Lx Ly i0 j0 xb yb seen,
  env_sites_ok Lx Ly i0 j0 xb yb seen = true ->
  (forall c, PlaqProofs.ring Lx Ly i0 j0 xb yb c -> In c seen)
  /\ (forall c, In c (plaquette i0 j0 xb yb) -> ~ In c seen).
Proof. exact env_sites_ok_sound. Qed.
Print Assumptions C12_env_sites_ok_sound.

(* ---- algebraic half: over an ARBITRARY commutative ring ---------------------- *)
Section C12.
  Variable K : Type.
  Variables (k0 k1 : K) (kadd kmul ksub : K -> K -> K) (kopp : K -> K).
  Hypothesis Kring : ring_theory k0 k1 kadd kmul ksub kopp eq.
  Variable dim : nat -> nat.
  Notation value := (value K k0 k1 kadd kmul dim).

  (* replacing a group of tensors by a group with the same local denotation
     (exact factorisation) preserves the value of the whole network *)
  Theorem C12_local_rewrite_sound : forall old new rest So Sn R s,
    Forall (wf K) old -> Forall (wf K) new -> Forall (wf K) rest ->
    disj So R -> off K So rest -> disj Sn R -> off K Sn rest ->
    (forall s', value old So s' = value new Sn s') ->
    value (old ++ rest) (So ++ R) s = value (new ++ rest) (Sn ++ R) s.
  Proof. exact (local_rewrite_sound K k0 k1 kadd kmul ksub kopp Kring dim). Qed.

  (* any sequence of contraction steps and exact local rewrites preserves the value *)
  Theorem C12_rewrite_sequence_exact : forall x y,
    xsteps K k0 k1 kadd kmul dim x y -> Forall (wf K) (fst x) ->
    forall s, value (fst x) (snd x) s = value (fst y) (snd y) s.
  Proof. exact (xsteps_sound K k0 k1 kadd kmul ksub kopp Kring dim). Qed.

  (* a plan whose steps are all untruncating preserves the network value, for
     every implementation `sem` of the primitives that meets the contract
     "an untruncating primitive is a composition of contraction steps and
     exact local rewrites" *)
  Theorem C12_plan_exact : forall (sem : op -> state K -> state K),
    (forall o x, exact_op o = true -> Forall (wf K) (fst x) -> xsteps K k0 k1 kadd kmul dim x (sem o x)) ->
    forall p x, plan_untruncating p = true -> Forall (wf K) (fst x) ->
    forall s, value (fst (run_plan K sem p x)) (snd (run_plan K sem p x)) s = value (fst x) (snd x) s.
  Proof. exact (plan_exact K k0 k1 kadd kmul ksub kopp Kring dim). Qed.

  (* environment (contracted first, along any path) + excluded part = whole *)
  Theorem C12_env_consistent : forall E E' rest SE SE' R s,
    steps K k0 kadd kmul dim (E, SE) (E', SE') -> Forall (wf K) E -> Forall (wf K) rest ->
    disj SE R -> off K SE rest ->
    value (E' ++ rest) (SE' ++ R) s = value (E ++ rest) (SE ++ R) s.
  Proof. exact (env_consistent K k0 k1 kadd kmul ksub kopp Kring dim). Qed.

  (* two environments around a kept row / column / plaquette *)
  Theorem C12_env_consistent_two : forall E1 E1' E2 E2' mid S1 S1' S2 S2' R s,
    steps K k0 kadd kmul dim (E1, S1) (E1', S1') -> steps K k0 kadd kmul dim (E2, S2) (E2', S2') ->
    Forall (wf K) E1 -> Forall (wf K) E2 -> Forall (wf K) mid ->
    disj S1 (S2 ++ R) -> off K S1 (E2 ++ mid) ->
    disj S2 R -> disj S2 S1 -> off K S2 (E1 ++ mid) ->
    value (E1' ++ E2' ++ mid) (S1' ++ S2' ++ R) s = value (E1 ++ E2 ++ mid) (S1 ++ S2 ++ R) s.
  Proof. exact (env_consistent_two K k0 k1 kadd kmul ksub kopp Kring dim). Qed.
End C12.

Print Assumptions C12_local_rewrite_sound.
Print Assumptions C12_rewrite_sequence_exact.
Print Assumptions C12_plan_exact.
Print Assumptions C12_env_consistent.
Print Assumptions C12_env_consistent_two.

(* ---- non-vacuity -------------------------------------------------------------- *)
(* a boundary step: contract 1,4 -> 1 and 2,5 -> 2, compress the doubled bond
   1-2 from 4 to 2, hand over; accepted.  The same plan with the compressed bond
   observed at size 3 at hand-over, or with an unknown primitive, is refused. *)
Example C12_plan_example :
  plan_ok [Contract [1; 4] 1; Contract [2; 5] 2; Canonize 2 1;
           Compress 1 2 (Some 2) true 4 4 2; HandOver (Some 2) [(1, 2, 2); (1, 7, 2)]] = true
  /\ plan_ok [Contract [1; 4] 1; Contract [2; 5] 2;
              Compress 1 2 (Some 2) true 4 4 2; HandOver (Some 2) [(1, 2, 3)]] = false
  /\ plan_ok [Compress 1 2 (Some 2) true 4 4 2; Contract [2; 3] 3; HandOver (Some 2) [(1, 3, 4)]] = false
  /\ plan_ok [Contract [1; 4] 1; Unknown 7] = false
  /\ plan_ok [Contract [1; 4] 1; Contract [2; 5] 2; Boundary (Some 2) [(1, 2, 4)]] = false
  /\ plan_ok [Contract [1; 4] 1; Contract [2; 5] 2; Boundary (Some 4) [(1, 2, 4)]] = true
  /\ plan_ok [Contract [1; 4] 1; Canonize 4 2] = false
  /\ plan_untruncating [Compress 1 2 (Some 4) true 4 4 4; Project [1] [2] 8 9 None true 4 4 4] = true
  /\ plan_untruncating [Compress 1 2 (Some 2) true 4 4 2] = false.
Proof. vm_compute. repeat split; reflexivity. Qed.

(* an exact local rewrite on integer data: the pair (A, B) over bond 1 is
   replaced by (A.G, G^-1.B) over a new bond 5 with G unimodular; a third tensor
   is attached to the pair.  Both networks denote the same tensor. *)
Example C12_gauge_example :
  let A := arr_tensor [0; 1] [2; 2] [(1,0); (2,0); (3,0); (4,0)]%Z in
  let B := arr_tensor [1; 2] [2; 2] [(0,1); (1,0); (1,0); (2,0)]%Z in
  let C := arr_tensor [2; 3] [2; 2] [(1,0); (0,0); (2,0); (1,0)]%Z in
  let AG := arr_tensor [0; 5] [2; 2] [(1,0); (3,0); (3,0); (7,0)]%Z in        (* A.[[1,1],[0,1]] *)
  let GB := arr_tensor [5; 2] [2; 2] [((-1),1); ((-1),0); (1,0); (2,0)]%Z in   (* [[1,-1],[0,1]].B *)
  let dims := [(0, 2); (1, 2); (2, 2); (3, 2); (5, 2)] in
  dense dims [A; B; C] [0; 3] = dense dims [AG; GB; C] [0; 3].
Proof. vm_compute. reflexivity. Qed.

(* 2x2 plaquette at (0,1) of a 3x4 lattice: the ring has 8 sites (both upper corners
   included); an environment lacking the corner (2,0) is refused *)
Example C12_plaquette_example :
  sel_y_first 3 4 0 1 2 2 = [(0, 0); (1, 0); (0, 3); (1, 3); (2, 0); (2, 1); (2, 2); (2, 3)]%Z
  /\ env_sites_ok 3 4 0 1 2 2 [(0, 0); (1, 0); (0, 3); (1, 3); (2, 0); (2, 1); (2, 2); (2, 3)]%Z = true
  /\ env_sites_ok 3 4 0 1 2 2 [(0, 0); (1, 0); (0, 3); (1, 3); (2, 1); (2, 2); (2, 3)]%Z = false.
Proof. vm_compute. repeat split; reflexivity. Qed.

(* C12 proofs, algebraic half, on top of the shared network semantics
   (Base/TN.v), over an ARBITRARY commutative ring K:

   * value_frame / local_rewrite_sound: replacing a group of tensors by another
     group with the same local denotation (exact QR / SVD / projector /
     gauge / fuse: the factorisation exactness is the hypothesis) preserves the
     value of the whole network;
   * xsteps_sound: any sequence of contraction steps and exact local rewrites
     preserves the value (rewrite-star induction);
   * plan_exact: a logged plan all of whose steps are untruncating preserves
     the network value, for any implementation `sem` of the primitives that
     meets the contract "an untruncating primitive is a sequence of
     contraction steps and exact local rewrites";
   * env_consistent: contracting an environment part first (any path) and
     then combining with the excluded part gives the value of the whole. *)
From Coq Require Import Arith List Lia Ring PeanoNat Permutation Bool.
From QV Require Import Base.Sums Base.TN C12.Model.
Import ListNotations.

Section Exact.
  Variable K : Type.
  Variables (k0 k1 : K) (kadd kmul ksub : K -> K -> K) (kopp : K -> K).
  Hypothesis Kring : ring_theory k0 k1 kadd kmul ksub kopp eq.
  Add Ring Krc12 : Kring.
  Variable dim : nat -> nat.

  Notation tensor := (tensor K).
  Notation wf := (wf K).
  Notation tinds := (tinds K).
  Notation value := (value K k0 k1 kadd kmul dim).
  Notation tprod := (tprod K k1 kmul).
  Notation sum_over := (sum_over K k0 kadd dim).
  Notation step := (TN.step K k0 kadd kmul dim).
  Notation steps := (TN.steps K k0 kadd kmul dim).
  Infix "*" := kmul.

  Definition state := (list tensor * list nat)%type.

  Definition disj (A B : list nat) : Prop := forall i, In i A -> ~ In i B.
  Definition off (A : list nat) (ts : list tensor) : Prop :=
    forall i t, In i A -> In t ts -> ~ In i (tinds t).

  Lemma tprod_app A B s : tprod (A ++ B) s = tprod A s * tprod B s.
  Proof.
    unfold TN.tprod. rewrite map_app. induction (map (fun t => tval K t s) A) as [|x l IH]; cbn.
    - ring.
    - rewrite IH. ring.
  Qed.

  Lemma Forall_app_wf A B : Forall wf A -> Forall wf B -> Forall wf (A ++ B).
  Proof. intros HA HB. apply Forall_app. split; assumption. Qed.

  (* the labels SE live on the group E only: their sum can be taken on E alone *)
  Lemma value_frame E rest SE R s :
    Forall wf E -> Forall wf rest -> disj SE R -> off SE rest ->
    value (E ++ rest) (SE ++ R) s = sum_over R (fun s' => value E SE s' * tprod rest s') s.
  Proof.
    intros HE Hr Hd Ho. unfold TN.value.
    rewrite (sum_over_app K k0 kadd dim).
    rewrite (sum_over_comm K k0 k1 kadd kmul ksub kopp Kring dim SE R).
    - apply (sum_over_ext_fun K k0 kadd dim). intros s1.
      rewrite (sum_over_ext_fun K k0 kadd dim SE _ (fun s' => tprod E s' * tprod rest s'))
        by (intros; apply tprod_app).
      apply (sum_over_factor K k0 k1 kadd kmul ksub kopp Kring dim).
      intros i Hi. apply indep_tprod; [exact Hr|].
      intros t Ht. apply Ho; assumption.
    - apply ext_tprod. apply Forall_app_wf; assumption.
    - exact Hd.
  Qed.

  (* A group of tensors `old` (with its private summed labels So) is replaced
     by `new` (private labels Sn) denoting the same tensor: the value of the
     whole network is unchanged.  Instances: exact QR (Canonize), SVD with no
     truncation (Compress), a projector pair whose product is the identity on
     the support (Project), G.G^-1 (Gauge), fusing parallel bonds (Fuse). *)
  Theorem local_rewrite_sound old new rest So Sn R s :
    Forall wf old -> Forall wf new -> Forall wf rest ->
    disj So R -> off So rest -> disj Sn R -> off Sn rest ->
    (forall s', value old So s' = value new Sn s') ->
    value (old ++ rest) (So ++ R) s = value (new ++ rest) (Sn ++ R) s.
  Proof.
    intros Ho Hn Hr D1 O1 D2 O2 Heq.
    rewrite (value_frame old rest So R s Ho Hr D1 O1).
    rewrite (value_frame new rest Sn R s Hn Hr D2 O2).
    apply (sum_over_ext_fun K k0 kadd dim). intros s'. rewrite Heq. reflexivity.
  Qed.

  (* ---- plans as rewriting sequences -------------------------------------- *)
  Inductive xstep : state -> state -> Prop :=
  | XPath x y : step x y -> xstep x y
  | XLocal ts old new rest So Sn R :
      Permutation ts (old ++ rest) -> Forall wf new ->
      disj So R -> off So rest -> disj Sn R -> off Sn rest ->
      (forall s, value old So s = value new Sn s) ->
      xstep (ts, So ++ R) (new ++ rest, Sn ++ R).

  Inductive xsteps : state -> state -> Prop :=
  | xsteps_refl x : xsteps x x
  | xsteps_cons x y z : xstep x y -> xsteps y z -> xsteps x z.

  Lemma xsteps_trans x y z : xsteps x y -> xsteps y z -> xsteps x z.
  Proof. induction 1; [auto | intros; econstructor; eauto]. Qed.

  Lemma xstep_wf x y : xstep x y -> Forall wf (fst x) -> Forall wf (fst y).
  Proof.
    intros H Hw. destruct H as [[ts L] [ts' L'] H | ts old new rest So Sn R HP Hn _ _ _ _ _]; cbn [fst] in *.
    - eapply (step_wf K k0 kadd kmul dim); eassumption.
    - assert (Hw' : Forall wf (old ++ rest)) by (eapply Permutation_Forall; eassumption).
      apply Forall_app in Hw'. destruct Hw' as [_ Hr]. apply Forall_app_wf; assumption.
  Qed.

  Theorem xstep_sound x y : xstep x y -> Forall wf (fst x) ->
    forall s, value (fst x) (snd x) s = value (fst y) (snd y) s.
  Proof.
    intros H Hw s. destruct H as [[ts L] [ts' L'] H | ts old new rest So Sn R HP Hn D1 O1 D2 O2 Heq];
      cbn [fst snd] in *.
    - apply (step_sound K k0 k1 kadd kmul ksub kopp Kring dim); assumption.
    - assert (Hw' : Forall wf (old ++ rest)) by (eapply Permutation_Forall; eassumption).
      rewrite (value_perm K k0 k1 kadd kmul ksub kopp Kring dim ts (old ++ rest)) by exact HP.
      apply Forall_app in Hw'. destruct Hw' as [Ho Hr].
      apply local_rewrite_sound; assumption.
  Qed.

  Lemma xsteps_wf x y : xsteps x y -> Forall wf (fst x) -> Forall wf (fst y).
  Proof. induction 1; [auto | intros; apply IHxsteps; eapply xstep_wf; eassumption]. Qed.

  (* composition of value-preserving steps preserves the value *)
  Theorem xsteps_sound x y : xsteps x y -> Forall wf (fst x) ->
    forall s, value (fst x) (snd x) s = value (fst y) (snd y) s.
  Proof.
    induction 1 as [x|x y z Hxy Hyz IH]; intros Hw s; [reflexivity|].
    rewrite (xstep_sound x y Hxy Hw s). apply IH. eapply xstep_wf; eassumption.
  Qed.

  (* ---- logged plans ---------------------------------------------------------
     `sem o x` is whatever the implementation does to the network when it
     executes the logged operation o.  Contract of the primitives: an operation
     that cannot truncate (exact_op o = true: cutoff = 0 and max_bond >= rank
     bound, or no compression at all) is a composition of contraction steps and
     exact local rewrites.  (Validated numerically per logged step by the
     harness: a test of this hypothesis, not a proof.) *)
  Section Plan.
    Variable sem : op -> state -> state.
    Hypothesis sem_exact : forall o x, exact_op o = true -> Forall wf (fst x) -> xsteps x (sem o x).

    Definition run_plan (p : list op) (x : state) : state := fold_left (fun x o => sem o x) p x.

    Lemma run_plan_xsteps : forall p x, plan_untruncating p = true -> Forall wf (fst x) ->
      xsteps x (run_plan p x).
    Proof.
      induction p as [|o p IH]; intros x Hp Hw; cbn [run_plan fold_left]; [constructor|].
      cbn [plan_untruncating forallb] in Hp. apply andb_true_iff in Hp. destruct Hp as [Ho Hp].
      apply (xsteps_trans x (sem o x)); [apply sem_exact; assumption|].
      change (xsteps (sem o x) (run_plan p (sem o x))).
      apply IH; [exact Hp|]. apply (xsteps_wf x); [apply sem_exact; assumption | exact Hw].
    Qed.

    Theorem plan_exact : forall p x, plan_untruncating p = true -> Forall wf (fst x) ->
      forall s, value (fst (run_plan p x)) (snd (run_plan p x)) s = value (fst x) (snd x) s.
    Proof.
      intros p x Hp Hw s. symmetry. apply xsteps_sound; [apply run_plan_xsteps|]; assumption.
    Qed.
  End Plan.

  (* ---- environments --------------------------------------------------------- *)
  Lemma step_incl ts L ts' L' : step (ts, L) (ts', L') -> incl L' L.
  Proof.
    intros H. inversion H; subst.
    - intros i Hi. apply in_or_app. right. exact Hi.
    - intros i Hi. apply in_app_or in Hi. apply in_or_app. tauto.
  Qed.

  Lemma steps_incl x y : steps x y -> incl (snd y) (snd x).
  Proof.
    induction 1 as [x|[ts L] [ts' L'] z Hxy Hyz IH]; [apply incl_refl|].
    cbn [snd] in *. eapply incl_tran; [exact IH | eapply step_incl; exact Hxy].
  Qed.

  Lemma steps_wf x y : steps x y -> Forall wf (fst x) -> Forall wf (fst y).
  Proof.
    induction 1 as [x|[ts L] [ts' L'] z Hxy Hyz IH]; [auto|].
    intros Hw. apply IH. cbn [fst] in *. eapply (step_wf K k0 kadd kmul dim); eassumption.
  Qed.

  (* An environment: the group E (summed labels SE that live on E only) is
     contracted first, along ANY path, to E' (possibly a single tensor); the
     stored environment combined with the excluded part `rest` of the network
     has the value of the whole. *)
  Theorem env_consistent E E' rest SE SE' R s :
    steps (E, SE) (E', SE') -> Forall wf E -> Forall wf rest ->
    disj SE R -> off SE rest ->
    value (E' ++ rest) (SE' ++ R) s = value (E ++ rest) (SE ++ R) s.
  Proof.
    intros Hst HE Hr D O. symmetry.
    pose proof (steps_incl _ _ Hst) as Hinc. cbn [snd] in Hinc.
    pose proof (steps_wf _ _ Hst HE) as HE'. cbn [fst] in HE'.
    apply local_rewrite_sound; try assumption.
    - intros i Hi. apply D. apply Hinc. exact Hi.
    - intros i t Hi Ht. apply O; [apply Hinc; exact Hi | exact Ht].
    - intros s'. apply (path_sound K k0 k1 kadd kmul ksub kopp Kring dim (E, SE) (E', SE') Hst HE).
  Qed.

  Lemma step_labels ts L ts' L' : step (ts, L) (ts', L') ->
    forall t' i, In t' ts' -> In i (tinds t') -> exists t, In t ts /\ In i (tinds t).
  Proof.
    intros H t' i Ht' Hi. inversion H as [ts0 a b others S R HP _ _ | ts0 A B _]; subst.
    - destruct Ht' as [<-|Ht'].
      + cbn [contract2 TN.tinds] in Hi. apply filter_In in Hi. destruct Hi as [Hi _].
        apply in_app_or in Hi. destruct Hi as [Hi|Hi].
        * exists a. split; [|exact Hi]. eapply Permutation_in; [apply Permutation_sym; exact HP|]. left. reflexivity.
        * exists b. split; [|exact Hi]. eapply Permutation_in; [apply Permutation_sym; exact HP|]. right. left. reflexivity.
      + exists t'. split; [|exact Hi]. eapply Permutation_in; [apply Permutation_sym; exact HP|]. right. right. exact Ht'.
    - exists t'. split; assumption.
  Qed.

  Lemma steps_labels x y : steps x y ->
    forall t' i, In t' (fst y) -> In i (tinds t') -> exists t, In t (fst x) /\ In i (tinds t).
  Proof.
    induction 1 as [x|[ts L] [ts' L'] z Hxy Hyz IH]; intros t' i Ht' Hi; [eauto|].
    destruct (IH t' i Ht' Hi) as [t1 [Ht1 Hi1]]. cbn [fst] in *.
    eapply step_labels; eassumption.
  Qed.

  (* two environments on either side of a kept region (row / column /
     plaquette): both may be contracted independently, along any paths *)
  Theorem env_consistent_two E1 E1' E2 E2' mid S1 S1' S2 S2' R s :
    steps (E1, S1) (E1', S1') -> steps (E2, S2) (E2', S2') ->
    Forall wf E1 -> Forall wf E2 -> Forall wf mid ->
    disj S1 (S2 ++ R) -> off S1 (E2 ++ mid) ->
    disj S2 R -> disj S2 S1 -> off S2 (E1 ++ mid) ->
    value (E1' ++ E2' ++ mid) (S1' ++ S2' ++ R) s = value (E1 ++ E2 ++ mid) (S1 ++ S2 ++ R) s.
  Proof.
    intros H1 H2 W1 W2 Wm D1 O1 D2 D21 O2.
    pose proof (steps_incl _ _ H1) as I1. cbn [snd] in I1.
    pose proof (steps_incl _ _ H2) as I2. cbn [snd] in I2.
    pose proof (steps_wf _ _ H1 W1) as W1'. cbn [fst] in W1'.
    pose proof (steps_wf _ _ H2 W2) as W2'. cbn [fst] in W2'.
    transitivity (value (E1' ++ E2 ++ mid) (S1' ++ S2 ++ R) s).
    2:{ apply env_consistent; try assumption. apply Forall_app_wf; assumption. }
    assert (PermE : forall X, Permutation (E1' ++ X ++ mid) (X ++ E1' ++ mid)).
    { intros X. rewrite !app_assoc. apply Permutation_app_tail. apply Permutation_app_comm. }
    assert (DS : forall X, incl X S2 -> disj S1' (X ++ R)).
    { intros X HX i Hi Hi2. apply (D1 i (I1 i Hi)). apply in_app_or in Hi2. apply in_or_app.
      destruct Hi2 as [Hi2|Hi2]; [left; apply HX; exact Hi2 | right; exact Hi2]. }
    rewrite (value_perm K k0 k1 kadd kmul ksub kopp Kring dim _ _ (S1' ++ S2' ++ R) s (PermE E2')).
    rewrite (value_perm K k0 k1 kadd kmul ksub kopp Kring dim _ _ (S1' ++ S2 ++ R) s (PermE E2)).
    rewrite (value_summed_swap K k0 k1 kadd kmul ksub kopp Kring dim (E2' ++ E1' ++ mid) S1' (S2' ++ R)).
    2:{ apply Forall_app_wf; [|apply Forall_app_wf]; assumption. }
    2:{ apply DS. exact I2. }
    rewrite (value_summed_swap K k0 k1 kadd kmul ksub kopp Kring dim (E2 ++ E1' ++ mid) S1' (S2 ++ R)).
    2:{ apply Forall_app_wf; [|apply Forall_app_wf]; assumption. }
    2:{ apply DS. apply incl_refl. }
    rewrite <- !app_assoc.
    apply env_consistent; try assumption.
    - apply Forall_app_wf; assumption.
    - intros i Hi Hi2. apply in_app_or in Hi2. destruct Hi2 as [Hi2|Hi2].
      + apply (D2 i Hi Hi2).
      + apply (D21 i Hi). apply I1. exact Hi2.
    - intros i t Hi Ht. apply in_app_or in Ht. destruct Ht as [Ht|Ht].
      + intros Hit. destruct (steps_labels _ _ H1 t i Ht Hit) as [t0 [Ht0 Hi0]]. cbn [fst] in Ht0.
        apply (O2 i t0 Hi); [apply in_or_app; left; exact Ht0 | exact Hi0].
      + apply O2; [exact Hi | apply in_or_app; right; exact Ht].
  Qed.
End Exact.

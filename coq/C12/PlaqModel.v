(* C12 model, plaquette environments: which lattice sites the four sources
   (left / right column environments, lower / upper row environments) must
   contribute to the environment of the plaquette (i0, j0) of size xb x yb on an
   Lx x Ly lattice.  Mirrors the coordinate generators of
   TensorNetwork2D._compute_plaquette_environments_x_first / _y_first
   (ymin_coos, ymax_coos, xmin_coos, above_coos / xmax_coos, each filtered by
   valid_coo).  Executable definitions only. *)
From Coq Require Import ZArith List Bool.
Import ListNotations.
Local Open Scope Z_scope.

Definition coo := (Z * Z)%type.

(* range(a, a + n) *)
Definition zrange (a : Z) (n : nat) : list Z := map (fun k => a + Z.of_nat k) (seq 0 n).

Definition valid (Lx Ly : Z) (c : coo) : bool :=
  (0 <=? fst c) && (fst c <? Lx) && (0 <=? snd c) && (snd c <? Ly).

(* rows first: the column environments of the strip reach one site beyond the
   plaquette on both ends (they bring the four corners), the row environments
   give the sites directly below / above *)
Definition sel_x_first (Lx Ly i0 j0 : Z) (xb yb : nat) : list coo :=
  filter (valid Lx Ly)
    (map (fun x => (i0 + x, j0 - 1)) (zrange (-1) (xb + 2))
     ++ map (fun x => (i0 + x, j0 + Z.of_nat yb)) (zrange (-1) (xb + 2))
     ++ map (fun x => (i0 - 1, j0 + x)) (zrange 0 yb)
     ++ map (fun x => (i0 + Z.of_nat xb, j0 + x)) (zrange 0 yb)).

(* columns first: the row environments of the strip bring the corners *)
Definition sel_y_first (Lx Ly i0 j0 : Z) (xb yb : nat) : list coo :=
  filter (valid Lx Ly)
    (map (fun x => (i0 + x, j0 - 1)) (zrange 0 xb)
     ++ map (fun x => (i0 + x, j0 + Z.of_nat yb)) (zrange 0 xb)
     ++ map (fun x => (i0 - 1, j0 + x)) (zrange (-1) (yb + 2))
     ++ map (fun x => (i0 + Z.of_nat xb, j0 + x)) (zrange (-1) (yb + 2))).

Definition plaquette (i0 j0 : Z) (xb yb : nat) : list coo :=
  flat_map (fun a => map (fun b => (i0 + a, j0 + b)) (zrange 0 yb)) (zrange 0 xb).

Definition coo_eqb (c d : coo) : bool := (fst c =? fst d) && (snd c =? snd d).
Definition cmem (c : coo) (l : list coo) : bool := existsb (coo_eqb c) l.

(* what the harness checks on every plaquette environment the implementation
   returns: the sites carried by the environment's tensors (`seen`) include every
   site of the ring around the plaquette and none of the plaquette itself *)
Definition env_sites_ok (Lx Ly i0 j0 : Z) (xb yb : nat) (seen : list coo) : bool :=
  forallb (fun c => cmem c seen) (sel_x_first Lx Ly i0 j0 xb yb)
  && forallb (fun c => negb (cmem c seen)) (plaquette i0 j0 xb yb).

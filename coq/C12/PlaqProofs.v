(* C12 proofs, plaquette environments: both coordinate selections (rows first,
   columns first) are exactly the ring of valid lattice sites around the
   plaquette, for every lattice, position and plaquette size. *)
From Coq Require Import ZArith List Bool Lia.
From QV Require Import C12.PlaqModel.
Import ListNotations.
Local Open Scope Z_scope.

Lemma in_zrange a n z : In z (zrange a n) <-> a <= z < a + Z.of_nat n.
Proof.
  unfold zrange. rewrite in_map_iff. split.
  - intros [k [<- Hk]]. apply in_seq in Hk. lia.
  - intros H. exists (Z.to_nat (z - a)). split; [lia|]. apply in_seq. lia.
Qed.

Lemma valid_iff Lx Ly c : valid Lx Ly c = true <-> 0 <= fst c < Lx /\ 0 <= snd c < Ly.
Proof.
  unfold valid. rewrite !andb_true_iff, !Z.leb_le, !Z.ltb_lt. lia.
Qed.

(* the ring around the plaquette *)
Definition ring (Lx Ly i0 j0 : Z) (xb yb : nat) (c : coo) : Prop :=
  (0 <= fst c < Lx /\ 0 <= snd c < Ly)
  /\ i0 - 1 <= fst c <= i0 + Z.of_nat xb /\ j0 - 1 <= snd c <= j0 + Z.of_nat yb
  /\ ~ (i0 <= fst c < i0 + Z.of_nat xb /\ j0 <= snd c < j0 + Z.of_nat yb).

Ltac crunch :=
  repeat match goal with
  | H : In _ (_ ++ _) |- _ => apply in_app_or in H; destruct H as [H|H]
  | H : In _ (map _ _) |- _ => apply in_map_iff in H; destruct H as [? [<- H]]
  | H : In _ (zrange _ _) |- _ => apply in_zrange in H
  end.

Theorem sel_x_first_is_ring Lx Ly i0 j0 xb yb c :
  In c (sel_x_first Lx Ly i0 j0 xb yb) <-> ring Lx Ly i0 j0 xb yb c.
Proof.
  unfold sel_x_first, ring. rewrite filter_In, valid_iff. split.
  - intros [H Hv]. split; [exact Hv|]. crunch; cbn [fst snd] in *; lia.
  - intros [Hv [Hi [Hj Hn]]]. split; [|exact Hv]. destruct c as [i j]. cbn [fst snd] in *.
    destruct (Z.eq_dec j (j0 - 1)) as [->|Hj1].
    { apply in_or_app. left. apply in_map_iff. exists (i - i0). split; [f_equal; lia | apply in_zrange; lia]. }
    destruct (Z.eq_dec j (j0 + Z.of_nat yb)) as [->|Hj2].
    { apply in_or_app. right. apply in_or_app. left. apply in_map_iff. exists (i - i0).
      split; [f_equal; lia | apply in_zrange; lia]. }
    destruct (Z.eq_dec i (i0 - 1)) as [->|Hi1].
    { apply in_or_app. right. apply in_or_app. right. apply in_or_app. left. apply in_map_iff. exists (j - j0).
      split; [f_equal; lia | apply in_zrange; lia]. }
    assert (i = i0 + Z.of_nat xb) as -> by lia.
    apply in_or_app. right. apply in_or_app. right. apply in_or_app. right. apply in_map_iff. exists (j - j0).
    split; [f_equal; lia | apply in_zrange; lia].
Qed.

Theorem sel_y_first_is_ring Lx Ly i0 j0 xb yb c :
  In c (sel_y_first Lx Ly i0 j0 xb yb) <-> ring Lx Ly i0 j0 xb yb c.
Proof.
  unfold sel_y_first, ring. rewrite filter_In, valid_iff. split.
  - intros [H Hv]. split; [exact Hv|]. crunch; cbn [fst snd] in *; lia.
  - intros [Hv [Hi [Hj Hn]]]. split; [|exact Hv]. destruct c as [i j]. cbn [fst snd] in *.
    destruct (Z.eq_dec i (i0 - 1)) as [->|Hi1].
    { apply in_or_app. right. apply in_or_app. right. apply in_or_app. left. apply in_map_iff. exists (j - j0).
      split; [f_equal; lia | apply in_zrange; lia]. }
    destruct (Z.eq_dec i (i0 + Z.of_nat xb)) as [->|Hi2].
    { apply in_or_app. right. apply in_or_app. right. apply in_or_app. right. apply in_map_iff. exists (j - j0).
      split; [f_equal; lia | apply in_zrange; lia]. }
    destruct (Z.eq_dec j (j0 - 1)) as [->|Hj1].
    { apply in_or_app. left. apply in_map_iff. exists (i - i0). split; [f_equal; lia | apply in_zrange; lia]. }
    assert (j = j0 + Z.of_nat yb) as -> by lia.
    apply in_or_app. right. apply in_or_app. left. apply in_map_iff. exists (i - i0).
    split; [f_equal; lia | apply in_zrange; lia].
Qed.

(* so the two variants select the same sites *)
Corollary sel_variants_agree Lx Ly i0 j0 xb yb c :
  In c (sel_x_first Lx Ly i0 j0 xb yb) <-> In c (sel_y_first Lx Ly i0 j0 xb yb).
Proof. rewrite sel_x_first_is_ring, sel_y_first_is_ring. reflexivity. Qed.

Lemma cmem_In c l : cmem c l = true <-> In c l.
Proof.
  unfold cmem. rewrite existsb_exists. split.
  - intros [d [Hd E]]. unfold coo_eqb in E. apply andb_true_iff in E. destruct E as [E1 E2].
    apply Z.eqb_eq in E1, E2. destruct c, d. cbn in *. subst. exact Hd.
  - intros H. exists c. split; [exact H|]. unfold coo_eqb. rewrite !Z.eqb_refl. reflexivity.
Qed.

(* what the run-time check certifies about an observed environment *)
Theorem env_sites_ok_sound Lx Ly i0 j0 xb yb seen :
  env_sites_ok Lx Ly i0 j0 xb yb seen = true ->
  (forall c, ring Lx Ly i0 j0 xb yb c -> In c seen)
  /\ (forall c, In c (plaquette i0 j0 xb yb) -> ~ In c seen).
Proof.
  unfold env_sites_ok. intros H. apply andb_true_iff in H. destruct H as [H1 H2].
  rewrite forallb_forall in H1, H2. split.
  - intros c Hc. apply cmem_In. apply H1. apply sel_x_first_is_ring. exact Hc.
  - intros c Hc Hs. specialize (H2 c Hc). apply negb_true_iff in H2.
    apply cmem_In in Hs. congruence.
Qed.

(* C12 proofs, bookkeeping half: what `plan_ok p = true` guarantees, for EVERY
   plan (induction over the plan). *)
From Coq Require Import List Bool Arith PeanoNat Lia.
From QV Require Import C12.Model.
Import ListNotations.

(* ---- generalities ------------------------------------------------------- *)
Lemma mem_In x l : mem x l = true <-> In x l.
Proof.
  unfold mem. rewrite existsb_exists. split.
  - intros [y [Hy E]]. apply Nat.eqb_eq in E. subst. exact Hy.
  - intros H. exists x. split; [exact H | apply Nat.eqb_refl].
Qed.

Lemma run_app s p q : run s (p ++ q) = match run s p with Some s' => run s' q | None => None end.
Proof.
  revert s. induction p as [|o p IH]; intros s; cbn [run app]; [reflexivity|].
  destruct (step s o); [apply IH | reflexivity].
Qed.

Lemma run_snoc s p o s2 : run s (p ++ [o]) = Some s2 ->
  exists s1, run s p = Some s1 /\ step s1 o = Some s2.
Proof.
  rewrite run_app. destruct (run s p) as [s1|]; [|discriminate].
  cbn [run]. destruct (step s1 o) as [s2'|] eqn:E; [|discriminate].
  intros H. injection H as <-. exists s1. split; [reflexivity | exact E].
Qed.

(* ---- the declarative notion: "bond a-b (current names) was compressed since
   the last hand-over", over the history read backwards (most recent first) -- *)
Inductive pending : list op -> tid -> tid -> Prop :=
| P_compress a b chi c rk bf af h : pending (Compress a b chi c rk bf af :: h) a b
| P_project la lb pa pb chi c rk bf af h : pending (Project la lb pa pb chi c rk bf af :: h) pa pb
| P_keep o h a b : pending h a b -> is_handover o = false ->
    ren_op o a <> ren_op o b -> pending (o :: h) (ren_op o a) (ren_op o b).

Lemma pending_tracked : forall pre s, run init pre = Some s ->
  forall a b, pending (rev pre) a b -> In (a, b) (pend s).
Proof.
  induction pre as [|o pre IH] using rev_ind; intros s Hrun a b Hp.
  - cbn in Hp. inversion Hp.
  - apply run_snoc in Hrun. destruct Hrun as [s1 [Hr1 Hst]].
    rewrite rev_app_distr in Hp. cbn [rev app] in Hp.
    inversion Hp as [a' b' chi c rk bf af h E1 E2 E3
                    | la lb pa pb chi c rk bf af h E1 E2 E3
                    | o' h a0 b0 Hp0 Hho Hne E1 E2 E3]; subst.
    + cbn [step] in Hst.
      destruct (pair_ok s1 a b && le_cap af chi); [|discriminate].
      injection Hst as <-. cbn [pend]. left. reflexivity.
    + cbn [step] in Hst.
      destruct (pair_ok s1 a b && forallb (alive s1) la && forallb (alive s1) lb
                && le_cap af chi); [|discriminate].
      injection Hst as <-. cbn [pend]. left. reflexivity.
    + specialize (IH s1 Hr1 a0 b0 Hp0).
      destruct o as [ts r|x y|x y chi c rk bf af|la lb pa pb chi c rk bf af|x y|x y|cap bonds|k ts|bcap bbonds|k];
        cbn [step ren_op is_handover] in *; try discriminate.
      * destruct (negb match ts with [] => true | _ :: _ => false end && forallb (alive s1) ts
                  && nodupb ts && (mem r ts || alive s1 r)); [|discriminate].
        injection Hst as <-. cbn [pend]. apply filter_In. split.
        -- apply (in_map (fun p => (ren ts r (fst p), ren ts r (snd p))) _ (a0, b0)). exact IH.
        -- cbn [fst snd]. apply negb_true_iff. apply Nat.eqb_neq. exact Hne.
      * destruct (pair_ok s1 x y); [|discriminate]. injection Hst as <-. exact IH.
      * destruct (pair_ok s1 x y && le_cap af chi); [|discriminate].
        injection Hst as <-. cbn [pend]. right. exact IH.
      * destruct (pair_ok s1 pa pb && forallb (alive s1) la && forallb (alive s1) lb
                  && le_cap af chi); [|discriminate].
        injection Hst as <-. cbn [pend]. right. exact IH.
      * destruct (pair_ok s1 x y); [|discriminate]. injection Hst as <-. exact IH.
      * destruct (pair_ok s1 x y); [|discriminate]. injection Hst as <-. exact IH.
      * destruct (forallb (alive s1) ts); [|discriminate]. injection Hst as <-. exact IH.
      * destruct (forallb (alive s1) (mentions (Boundary bcap bbonds))
                  && forallb (fun e => le_cap (snd e) bcap) bbonds); [|discriminate].
        injection Hst as <-. exact IH.
Qed.

Definition within (sz : nat) (cap : option nat) : Prop :=
  match cap with None => True | Some m => sz <= m end.

Lemma le_cap_within sz cap : le_cap sz cap = true -> within sz cap.
Proof. destruct cap as [m|]; cbn; [apply Nat.leb_le | trivial]. Qed.

Lemma plan_ok_run p : plan_ok p = true -> exists s, run init p = Some s.
Proof. unfold plan_ok. destruct (run init p) as [s|]; [eauto | discriminate]. Qed.

(* the cap invariant at every hand-over *)
Theorem plan_bond_cap : forall p, plan_ok p = true ->
  forall pre cap bonds post, p = pre ++ HandOver cap bonds :: post ->
  forall a b, pending (rev pre) a b ->
  exists sz, bond_lookup bonds a b = Some sz /\ within sz cap.
Proof.
  intros p Hok pre cap bonds post -> a b Hp.
  apply plan_ok_run in Hok. destruct Hok as [s Hrun].
  rewrite run_app in Hrun. destruct (run init pre) as [s1|] eqn:Hr1; [|discriminate].
  cbn [run] in Hrun. destruct (step s1 (HandOver cap bonds)) as [s2|] eqn:Hst; [|discriminate].
  pose proof (pending_tracked pre s1 Hr1 a b Hp) as Hin.
  cbn [step] in Hst.
  destruct (forallb (alive s1) (mentions (HandOver cap bonds))); [|discriminate].
  cbn [andb] in Hst.
  destruct (forallb _ (pend s1)) eqn:Hall; [|discriminate].
  rewrite forallb_forall in Hall. specialize (Hall (a, b) Hin). cbn [fst snd] in Hall.
  destruct (bond_lookup bonds a b) as [sz|]; [|discriminate].
  exists sz. split; [reflexivity | apply le_cap_within; exact Hall].
Qed.

(* after a hand-over nothing is pending: the invariant is per stage *)
Lemma pending_not_through_handover cap bonds h a b : ~ pending (HandOver cap bonds :: h) a b.
Proof. intros H. inversion H; subst; cbn in *; discriminate. Qed.

(* ---- every operation of an accepted plan is individually accepted -------- *)
Lemma run_each : forall p s s', run s p = Some s' -> forall pre o post, p = pre ++ o :: post ->
  exists s1 s2, run s pre = Some s1 /\ step s1 o = Some s2 /\ run s2 post = Some s'.
Proof.
  intros p s s' Hrun pre o post ->. rewrite run_app in Hrun.
  destruct (run s pre) as [s1|]; [|discriminate]. cbn [run] in Hrun.
  destruct (step s1 o) as [s2|] eqn:E; [|discriminate].
  exists s1, s2. repeat split; assumption.
Qed.

Theorem plan_compress_cap : forall p, plan_ok p = true ->
  forall a b m c rk bf af, In (Compress a b (Some m) c rk bf af) p -> af <= m.
Proof.
  intros p Hok a b m c rk bf af Hin. apply plan_ok_run in Hok. destruct Hok as [s Hrun].
  apply in_split in Hin. destruct Hin as [pre [post E]].
  destruct (run_each p init s Hrun pre _ post E) as [s1 [s2 [_ [Hst _]]]].
  cbn [step] in Hst.
  destruct (pair_ok s1 a b && le_cap af (Some m)) eqn:Hc; [|discriminate].
  apply andb_true_iff in Hc. destruct Hc as [_ H3].
  cbn in H3. apply Nat.leb_le in H3. exact H3.
Qed.

Theorem plan_project_cap : forall p, plan_ok p = true ->
  forall la lb pa pb m c rk bf af, In (Project la lb pa pb (Some m) c rk bf af) p -> af <= m.
Proof.
  intros p Hok la lb pa pb m c rk bf af Hin. apply plan_ok_run in Hok. destruct Hok as [s Hrun].
  apply in_split in Hin. destruct Hin as [pre [post E]].
  destruct (run_each p init s Hrun pre _ post E) as [s1 [s2 [_ [Hst _]]]].
  cbn [step] in Hst.
  destruct (pair_ok s1 pa pb && forallb (alive s1) la && forallb (alive s1) lb
            && le_cap af (Some m)) eqn:Hc; [|discriminate].
  apply andb_true_iff in Hc. destruct Hc as [_ H3].
  cbn in H3. apply Nat.leb_le in H3. exact H3.
Qed.

Theorem plan_no_unknown : forall p, plan_ok p = true -> forall k, ~ In (Unknown k) p.
Proof.
  intros p Hok k Hin. apply plan_ok_run in Hok. destruct Hok as [s Hrun].
  apply in_split in Hin. destruct Hin as [pre [post E]].
  destruct (run_each p init s Hrun pre _ post E) as [s1 [s2 [_ [Hst _]]]].
  cbn in Hst. discriminate.
Qed.

(* ---- no tensor is used after it has been contracted away ---------------- *)
Lemma step_dead_mono s o s' : step s o = Some s' -> incl (dead s) (dead s').
Proof.
  intros H x Hx.
  destruct o as [ts r|a b|a b chi c rk bf af|la lb pa pb chi c rk bf af|a b|a b|cap bonds|k ts|bcap bbonds|k];
    cbn [step] in H;
    match type of H with (if ?c then _ else _) = _ => destruct c; [|discriminate] | _ => idtac end;
    try discriminate; injection H as <-; cbn [dead]; try exact Hx.
  apply in_or_app. right. exact Hx.
Qed.

Lemma run_dead_mono : forall p s s', run s p = Some s' -> incl (dead s) (dead s').
Proof.
  induction p as [|o p IH]; intros s s' H; cbn [run] in H.
  - injection H as <-. apply incl_refl.
  - destruct (step s o) as [s1|] eqn:E; [|discriminate].
    eapply incl_tran; [eapply step_dead_mono; exact E | apply IH; exact H].
Qed.

Lemma forallb_alive s l : forallb (alive s) l = true -> forall x, In x l -> ~ In x (dead s).
Proof.
  intros H x Hx Hd. rewrite forallb_forall in H. specialize (H x Hx).
  unfold alive in H. apply negb_true_iff in H. apply mem_In in Hd. congruence.
Qed.

Lemma alive_not_dead s x : alive s x = true -> ~ In x (dead s).
Proof. intros H Hd. unfold alive in H. apply negb_true_iff in H. apply mem_In in Hd. congruence. Qed.

Lemma pair_ok_alive s a b : pair_ok s a b = true -> ~ In a (dead s) /\ ~ In b (dead s).
Proof.
  unfold pair_ok. intros H. apply andb_true_iff in H. destruct H as [H _].
  apply andb_true_iff in H. destruct H as [Ha Hb]. split; apply alive_not_dead; assumption.
Qed.

Lemma step_mentions_alive s o s' : step s o = Some s' -> forall x, In x (mentions o) -> ~ In x (dead s).
Proof.
  intros H x Hx.
  destruct o as [ts r|a b|a b chi c rk bf af|la lb pa pb chi c rk bf af|a b|a b|cap bonds|k ts|bcap bbonds|k];
    cbn [step] in H; cbn [mentions In] in Hx.
  - destruct (negb match ts with [] => true | _ :: _ => false end && forallb (alive s) ts
              && nodupb ts && (mem r ts || alive s r)) eqn:Hc; [|discriminate].
    apply andb_true_iff in Hc. destruct Hc as [Hc Hr]. apply andb_true_iff in Hc. destruct Hc as [Hc _].
    apply andb_true_iff in Hc. destruct Hc as [_ Hts].
    destruct Hx as [<-|Hx]; [|eapply forallb_alive; eassumption].
    apply orb_true_iff in Hr. destruct Hr as [Hr|Hr]; [|apply alive_not_dead; exact Hr].
    apply mem_In in Hr. eapply forallb_alive; eassumption.
  - destruct (pair_ok s a b) eqn:Hc; [|discriminate]. apply pair_ok_alive in Hc.
    destruct Hx as [<-|[<-|[]]]; tauto.
  - destruct (pair_ok s a b && le_cap af chi) eqn:Hc; [|discriminate].
    apply andb_true_iff in Hc. destruct Hc as [Hc _].
    apply pair_ok_alive in Hc. destruct Hx as [<-|[<-|[]]]; tauto.
  - destruct (pair_ok s pa pb && forallb (alive s) la && forallb (alive s) lb
              && le_cap af chi) eqn:Hc; [|discriminate].
    apply andb_true_iff in Hc. destruct Hc as [Hc _].
    apply andb_true_iff in Hc. destruct Hc as [Hc Hlb]. apply andb_true_iff in Hc. destruct Hc as [Hc Hla].
    apply pair_ok_alive in Hc.
    destruct Hx as [<-|[<-|Hx]]; try tauto.
    apply in_app_or in Hx. destruct Hx as [Hx|Hx];
      [exact (forallb_alive s la Hla x Hx) | exact (forallb_alive s lb Hlb x Hx)].
  - destruct (pair_ok s a b) eqn:Hc; [|discriminate]. apply pair_ok_alive in Hc.
    destruct Hx as [<-|[<-|[]]]; tauto.
  - destruct (pair_ok s a b) eqn:Hc; [|discriminate]. apply pair_ok_alive in Hc.
    destruct Hx as [<-|[<-|[]]]; tauto.
  - destruct (forallb (alive s) (mentions (HandOver cap bonds))) eqn:Hc; [|discriminate].
    eapply forallb_alive; [exact Hc | exact Hx].
  - destruct (forallb (alive s) ts) eqn:Hc; [|discriminate]. eapply forallb_alive; eassumption.
  - destruct (forallb (alive s) (mentions (Boundary bcap bbonds))) eqn:Hc; [|discriminate].
    eapply forallb_alive; [exact Hc | exact Hx].
  - discriminate.
Qed.

Theorem plan_no_use_after_contract : forall p, plan_ok p = true ->
  forall pre ts r post, p = pre ++ Contract ts r :: post ->
  forall x, In x ts -> x <> r -> forall o, In o post -> ~ In x (mentions o).
Proof.
  intros p Hok pre ts r post E x Hx Hxr o Ho Hm.
  apply plan_ok_run in Hok. destruct Hok as [s Hrun].
  destruct (run_each p init s Hrun pre _ post E) as [s1 [s2 [_ [Hst Hpost]]]].
  assert (Hd : In x (dead s2)).
  { cbn [step] in Hst.
    destruct (negb match ts with [] => true | _ :: _ => false end && forallb (alive s1) ts
              && nodupb ts && (mem r ts || alive s1 r)); [|discriminate].
    injection Hst as <-. cbn [dead]. apply in_or_app. left. apply filter_In. split; [exact Hx|].
    apply negb_true_iff. apply Nat.eqb_neq. exact Hxr. }
  apply in_split in Ho. destruct Ho as [q1 [q2 E2]].
  destruct (run_each post s2 s Hpost q1 o q2 E2) as [s3 [s4 [Hq1 [Hso _]]]].
  apply (step_mentions_alive s3 o s4 Hso x Hm).
  apply (run_dead_mono q1 s2 s3 Hq1). exact Hd.
Qed.

(* the diagnostic index agrees with the checker *)
Lemma first_bad_none : forall p s k, first_bad s p k = None <-> exists s', run s p = Some s'.
Proof.
  induction p as [|o p IH]; intros s k; cbn [first_bad run].
  - split; [eauto | reflexivity].
  - destruct (step s o) as [s1|]; [apply IH|]. split; [discriminate | intros [s' H]; discriminate].
Qed.

(* ---- the scheme-level criterion "max_bond >= every rank bound and cutoff = 0"
   coincides with the step-level one when every primitive is called with the
   scheme's cap ---------------------------------------------------------------- *)
Lemma opt_eqb_eq a b : opt_eqb a b = true -> a = b.
Proof.
  destruct a as [x|], b as [y|]; cbn; try discriminate; try reflexivity.
  intros H. apply Nat.eqb_eq in H. subst. reflexivity.
Qed.

Lemma exact_under_op cap o : op_cap_is cap o = true -> exact_under cap o = exact_op o.
Proof.
  destruct o; cbn; try reflexivity; intros H; apply opt_eqb_eq in H; subst; reflexivity.
Qed.

Theorem scheme_cap_untruncating : forall cap p, plan_cap_is cap p = true ->
  scheme_untruncating cap p = plan_untruncating p.
Proof.
  intros cap p. unfold plan_cap_is, scheme_untruncating, plan_untruncating.
  induction p as [|o p IH]; cbn [forallb]; [reflexivity|].
  intros H. apply andb_true_iff in H. destruct H as [Ho Hp].
  rewrite (exact_under_op cap o Ho), (IH Hp). reflexivity.
Qed.

(* ---- a returned boundary layer is within the cap on EVERY bond between its
   tensors (total size over all shared indices), compressed or not ------------- *)
Theorem plan_boundary_cap : forall p, plan_ok p = true ->
  forall cap bonds, In (Boundary cap bonds) p ->
  forall a b sz, In (a, b, sz) bonds -> within sz cap.
Proof.
  intros p Hok cap bonds Hin a b sz He. apply plan_ok_run in Hok. destruct Hok as [s Hrun].
  apply in_split in Hin. destruct Hin as [pre [post E]].
  destruct (run_each p init s Hrun pre _ post E) as [s1 [s2 [_ [Hst _]]]].
  cbn [step] in Hst.
  destruct (forallb (alive s1) (mentions (Boundary cap bonds))); [|discriminate]. cbn [andb] in Hst.
  destruct (forallb (fun e => le_cap (snd e) cap) bonds) eqn:Hall; [|discriminate].
  rewrite forallb_forall in Hall. specialize (Hall (a, b, sz) He). cbn [snd] in Hall.
  apply le_cap_within. exact Hall.
Qed.

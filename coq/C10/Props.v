(* C10 property theorems: statements only (proofs: C10/Energy.v, C10/Network.v, C10/Proofs.v).
   K is an ARBITRARY commutative ring with an involution `conj` (Z, Z[i], Q, Q[i], R, C ...). *)
From Coq Require Import ZArith Arith List Bool Ring Lia.
From QV Require Import Base.Sums Base.TN Base.TNExec C10.Model C10.Energy C10.Network C10.Proofs C10.Schedule.
Import ListNotations.

Section C10.
  Variable K : Type.
  Variables (k0 k1 : K) (kadd kmul ksub : K -> K -> K) (kopp : K -> K).
  Hypothesis Kring : ring_theory k0 k1 kadd kmul ksub kopp eq.
  Variable conj : K -> K.
  Hypothesis conj_0 : conj k0 = k0.
  Hypothesis conj_add : forall a b, conj (kadd a b) = kadd (conj a) (conj b).
  Hypothesis conj_mul : forall a b, conj (kmul a b) = kmul (conj a) (conj b).
  Hypothesis conj_invol : forall a, conj (conj a) = a.
  Variable dim : nat -> nat.

  (* Any ket / operator / bra layers (MPS, MPO of any length and bond structure)
     whose internal bonds are private: the stacked network's value is the sum over
     the shared physical labels of the product of the three layers' values. *)
  Theorem C10_layered_network_value : forall tk th tb P Bk Bh Bb s,
    Forall (wf K) tk -> Forall (wf K) th -> Forall (wf K) tb ->
    (forall i t, In i Bk -> In t (th ++ tb) -> ~ In i (tinds K t)) ->
    (forall i t, In i Bh -> In t (tk ++ tb) -> ~ In i (tinds K t)) ->
    (forall i t, In i Bb -> In t (tk ++ th) -> ~ In i (tinds K t)) ->
    value K k0 k1 kadd kmul dim (tk ++ th ++ tb) (P ++ Bk ++ Bh ++ Bb) s
    = sum_over K k0 kadd dim P
        (fun s' => kmul (kmul (value K k0 k1 kadd kmul dim tk Bk s') (value K k0 k1 kadd kmul dim th Bh s'))
                        (value K k0 k1 kadd kmul dim tb Bb s')) s.
  Proof. exact (layered_value K k0 k1 kadd kmul ksub kopp Kring dim). Qed.

  (* The stack (bra, ham, ket) labelled by tensor_network_align denotes
     sum_u sum_l conj(psi_u) H[u,l] psi_l: the bra meets the UPPER label, the ket the
     LOWER label - the library's operator-on-state convention (apply_op_vec). *)
  Theorem C10_energy_network_denotes : forall kid hu hl bid psi H D s,
    bid <> fresh 0 -> dim bid = D -> dim (fresh 0) = D ->
    energy_value K k0 k1 kadd kmul conj dim BraHamKet kid hu hl bid psi H s
    = Some (sum K k0 kadd D (fun u => sum K k0 kadd D (fun l => kmul (kmul (conj (psi u)) (H u l)) (psi l)))).
  Proof. exact (energy_network_denotes K k0 k1 kadd kmul ksub kopp Kring conj dim). Qed.

  (* The stack (ket, ham, bra) - what DMRG built before the alignment fix (the order DMRG builds now is Model.dmrg_order,
     observed on every run) - denotes <psi|H^T|psi> = the energy of the CONJUGATE state instead. *)
  Theorem C10_dmrg_energy_network_denotes_transpose : forall kid hu hl bid psi H D s,
    kid <> fresh 0 -> dim kid = D -> dim (fresh 0) = D ->
    energy_value K k0 k1 kadd kmul conj dim KetHamBra kid hu hl bid psi H s
      = Some (herm_form K k0 kadd kmul conj D (transpose K H) psi)
    /\ herm_form K k0 kadd kmul conj D (transpose K H) psi
      = herm_form K k0 kadd kmul conj D H (cj K conj psi).
  Proof. exact (dmrg_energy_network_denotes_transpose K k0 k1 kadd kmul ksub kopp Kring conj dim conj_invol). Qed.

  (* ... which is the right number when H is symmetric (every real-symmetric
     Hamiltonian: Heisenberg, Ising, XY ...) or the state is real: why the tests pass. *)
  Theorem C10_dmrg_energy_network_correct_if_symmetric_or_real : forall kid hu hl bid psi H D s,
    kid <> fresh 0 -> dim kid = D -> dim (fresh 0) = D ->
    (forall u l, u < D -> l < D -> H u l = H l u) \/ (forall u, u < D -> conj (psi u) = psi u) ->
    energy_value K k0 k1 kadd kmul conj dim KetHamBra kid hu hl bid psi H s
      = Some (herm_form K k0 kadd kmul conj D H psi).
  Proof. exact (dmrg_energy_network_correct_if_symmetric_or_real K k0 k1 kadd kmul ksub kopp Kring conj dim). Qed.

  (* The effective Hamiltonian P^dagger H P is the restriction of H, for any environment P. *)
  Theorem C10_heff_is_restriction : forall n m P H x,
    herm_form K k0 kadd kmul conj m (heff K k0 kadd kmul conj n P H) x
    = herm_form K k0 kadd kmul conj n H (embed K k0 kadd kmul m P x).
  Proof. exact (heff_is_restriction K k0 k1 kadd kmul ksub kopp Kring conj conj_0 conj_add conj_mul). Qed.

  (* The lazy (linear operator) path must act as the same restriction: (Heff x)_a = sum_u conj(P[u,a]) (H (P x))_u. *)
  Theorem C10_heff_matvec_is_restriction : forall n m P H x a,
    mat_vec K k0 kadd kmul m (heff K k0 kadd kmul conj n P H) x a
    = sum K k0 kadd n (fun u => kmul (conj (P u a)) (mat_vec K k0 kadd kmul n H (embed K k0 kadd kmul m P x) u)).
  Proof. exact (heff_matvec K k0 k1 kadd kmul ksub kopp Kring conj). Qed.

  (* Row and column labels of a Hermitian operator swapped = the complex-conjugated operator. *)
  Theorem C10_swapped_labels_apply_conjugate : forall n M x a,
    (forall u l, u < n -> l < n -> conj (M l u) = M u l) -> a < n ->
    mat_vec K k0 kadd kmul n (transpose K M) x a = conj (mat_vec K k0 kadd kmul n M (cj K conj x) a).
  Proof. exact (transpose_matvec_hermitian K k0 kadd kmul conj conj_0 conj_add conj_mul conj_invol). Qed.

  (* Isometric environments preserve the norm (effective norm matrix = 1). *)
  Theorem C10_isometric_environment_preserves_norm : forall n m P x,
    isometry K k0 k1 kadd kmul conj n m P ->
    norm2 K k0 kadd kmul conj n (embed K k0 kadd kmul m P x) = norm2 K k0 kadd kmul conj m x.
  Proof. exact (isometry_preserves_norm K k0 k1 kadd kmul ksub kopp Kring conj conj_0 conj_add conj_mul). Qed.

  (* order: any predicate closed under 0 and + that contains every |z|^2
     (the non-negative reals inside C; the non-negative integers inside Z[i]) *)
  Variable nonneg : K -> Prop.
  Hypothesis nonneg_0 : nonneg k0.
  Hypothesis nonneg_add : forall a b, nonneg a -> nonneg b -> nonneg (kadd a b).
  Hypothesis nonneg_sq : forall z, nonneg (kmul (conj z) z).

  (* Variational bound: H - E0*1 = B^dagger B  ==>  <x|H|x> - E0 <x|x> >= 0 for EVERY x. *)
  Theorem C10_variational_bound : forall n r E0 H B x,
    (forall u l, u < n -> l < n ->
        H u l = kadd (kmul E0 (if Nat.eqb l u then k1 else k0)) (gram K k0 kadd kmul conj r B u l)) ->
    nonneg (ksub (herm_form K k0 kadd kmul conj n H x) (kmul E0 (norm2 K k0 kadd kmul conj n x))).
  Proof.
    exact (variational_bound K k0 k1 kadd kmul ksub kopp Kring conj conj_0 conj_add conj_mul
             nonneg nonneg_0 nonneg_add nonneg_sq).
  Qed.

  (* Local update: with an isometric environment, a normalised local vector whose local
     energy is not above the current one gives a normalised state whose TOTAL energy is
     not above the current one; and the local energy IS the total energy. *)
  Theorem C10_local_update_monotone : forall n m P H x x',
    isometry K k0 k1 kadd kmul conj n m P ->
    norm2 K k0 kadd kmul conj m x = k1 -> norm2 K k0 kadd kmul conj m x' = k1 ->
    nonneg (ksub (herm_form K k0 kadd kmul conj m (heff K k0 kadd kmul conj n P H) x)
                 (herm_form K k0 kadd kmul conj m (heff K k0 kadd kmul conj n P H) x')) ->
    norm2 K k0 kadd kmul conj n (embed K k0 kadd kmul m P x') = k1 /\
    norm2 K k0 kadd kmul conj n (embed K k0 kadd kmul m P x) = k1 /\
    nonneg (ksub (herm_form K k0 kadd kmul conj n H (embed K k0 kadd kmul m P x))
                 (herm_form K k0 kadd kmul conj n H (embed K k0 kadd kmul m P x'))).
  Proof.
    exact (local_update_monotone K k0 k1 kadd kmul ksub kopp Kring conj conj_0 conj_add conj_mul nonneg).
  Qed.
End C10.

Print Assumptions C10_layered_network_value.
Print Assumptions C10_energy_network_denotes.
Print Assumptions C10_dmrg_energy_network_denotes_transpose.
Print Assumptions C10_dmrg_energy_network_correct_if_symmetric_or_real.
Print Assumptions C10_heff_is_restriction.
Print Assumptions C10_heff_matvec_is_restriction.
Print Assumptions C10_swapped_labels_apply_conjugate.
Print Assumptions C10_isometric_environment_preserves_norm.
Print Assumptions C10_variational_bound.
Print Assumptions C10_local_update_monotone.

(* REFUTED on the faithful model (DESIGN section 5, F11): there is a Hermitian H and a
   state for which the network DMRG builds does not denote <psi|H|psi>
   (one site, H = sigma_y, psi = (1, i): -2 instead of +2). *)
Theorem C10_dmrg_energy_network_denotes_expectation_refuted :
  exists (D : nat) (psi : nat -> G) (H : nat -> nat -> G),
    hermitian D H /\
    energy_value G g0 g1 gadd gmul gconj (fun _ => D) KetHamBra 0 1 2 3 psi H (fun _ => 0)
      <> Some (gherm D H psi).
Proof. exact dmrg_energy_network_refuted. Qed.
Print Assumptions C10_dmrg_energy_network_denotes_expectation_refuted.

(* the Z[i] instance of the variational bound used by the exact oracle (closed) *)
(* The stack DMRG builds NOW (Model.dmrg_order, compared with the implementation on every run) is
   (bra, ham, ket): by C10_energy_network_denotes its energy network is <psi|H|psi>. *)
Theorem C10_dmrg_builds_bra_ham_ket : dmrg_order = BraHamKet.
Proof. reflexivity. Qed.
Print Assumptions C10_dmrg_builds_bra_ham_ket.

Theorem C10_variational_bound_gaussian_integers : forall n r (E0 : G) H B x,
  (forall u l, u < n -> l < n ->
      H u l = gadd (gmul E0 (if Nat.eqb l u then g1 else g0)) (gram G g0 gadd gmul gconj r B u l)) ->
  gnonneg (gsub (gherm n H x) (gmul E0 (gnorm2 n x))).
Proof. exact variational_bound_G. Qed.
Print Assumptions C10_variational_bound_gaussian_integers.

(* Bond caps.  2-site: after a sweep EVERY bond is at most that sweep's max_bond,
   whatever the bonds were before and whatever ranks the splits found. *)
Theorem C10_sweep2_bond_cap : forall d chi right canonize ranks bonds,
  length bonds <= length ranks ->
  Forall (fun b => b <= chi) (sweep2 d chi right canonize ranks bonds).
Proof. exact sweep2_cap. Qed.
Print Assumptions C10_sweep2_bond_cap.

(* solve(): after the last of any sequence of sweeps, every bond obeys the cap the
   schedule assigns to that sweep (bond_dims entry, the last entry repeated). *)
Theorem C10_solve2_bond_cap : forall d bds sweeps dr cn rk bonds,
  length bonds <= length rk ->
  Forall (fun b => b <= sched bds (length sweeps)) (solve2 d bds (sweeps ++ [(dr, cn, rk)]) 0 bonds).
Proof. exact solve2_cap. Qed.
Print Assumptions C10_solve2_bond_cap.

(* 1-site: bonds are only ever expanded to the cap; QR moves never exceed max(previous, cap). *)
Theorem C10_sweep1_bond_cap : forall d chi right canonize B bonds, 1 <= B ->
  Forall (fun b => b <= B) bonds -> Forall (fun b => b <= Nat.max B chi) (sweep1 d chi right canonize bonds).
Proof. exact sweep1_cap. Qed.
Print Assumptions C10_sweep1_bond_cap.

Theorem C10_solve1_bond_cap : forall d bds sweeps k B bonds, 1 <= B ->
  Forall (fun b => b <= B) bonds -> (forall c, In c bds -> c <= B) -> bds <> [] ->
  Forall (fun b => b <= B) (solve1 d bds sweeps k bonds).
Proof. exact solve1_cap. Qed.
Print Assumptions C10_solve1_bond_cap.

(* schedule iterator: entry k, then the last entry for ever *)
Theorem C10_schedule_repeats_last : forall bds k,
  (k < length bds -> sched bds k = nth k bds 0) /\ (length bds <= k -> sched bds k = last bds 0).
Proof. exact schedule_repeats_last. Qed.
Print Assumptions C10_schedule_repeats_last.

(* `energy` is the last total energy of the last sweep *)
Theorem C10_reported_energy_is_last_total : forall total_energies, total_energies <> [] ->
  reported_energy total_energies = last (last total_energies []) 0%Z.
Proof. exact reported_energy_is_last_total. Qed.
Print Assumptions C10_reported_energy_is_last_total.

(* whichever vector is passed first to tensor_network_align meets the operator's UPPER label *)
Theorem C10_align_first_vector_meets_upper : forall k hu hl b,
  ket_on_upper KetHamBra k hu hl b = Some true /\ (b <> fresh 0 -> ket_on_upper BraHamKet k hu hl b = Some false).
Proof. exact align_first_vector_meets_upper. Qed.
Print Assumptions C10_align_first_vector_meets_upper.

(* Delegating the post-truncation renormalisation to the split (renorm=True) would keep the state normalised only for
   the cutoff modes sum2 / rsum2; the modelled 2-site update (explicit division, tied per mode on every run) does for all. *)
Theorem C10_split_renorm_only_for_sum2 : forall m,
  (keeps_frobenius_norm m = true <-> (m = CSum2 \/ m = CRsum2)) /\ dmrg2_normalised_after_truncation m = true.
Proof. exact split_renorm_table. Qed.
Print Assumptions C10_split_renorm_only_for_sum2.

(* ---- the schedules over the whole life of a DMRG object (any history of solve() calls) ------------------------
   Model.dmrg_history is the iterator machine of the code (chain(bds, repeat(bds[-1])) per schedule, replaced by a
   solve(bond_dims= / cutoffs=) argument, continued otherwise, one entry of each per sweep performed); it is
   compared with the arguments every sweep of real and scripted runs receives.  Closed form: sweep i after the
   sequence in force was set gets its entry i, the FINAL entry once the sequence is exhausted. *)
Theorem C10_schedule_iterator_closed_form : forall bds cuts h,
  bds <> [] -> cuts <> [] -> Forall ok_call h ->
  dmrg_history bds cuts h = Some (history_spec (bds, 0) (cuts, 0) h).
Proof. exact dmrg_history_closed_form. Qed.
Print Assumptions C10_schedule_iterator_closed_form.

(* an empty schedule is refused, in the constructor and in any later call *)
Theorem C10_empty_schedule_rejected : forall bds cuts pre ob oc n post,
  ob = Some [] \/ oc = Some [] -> Forall ok_call pre ->
  dmrg_history bds cuts (pre ++ (ob, oc, n) :: post) = None.
Proof. exact dmrg_history_rejects_empty. Qed.
Print Assumptions C10_empty_schedule_rejected.

(* sweep i of the last call of ANY history: entry (consumed + i) of the sequence in force - this call's argument
   when given (consumed = 0), else whatever the earlier calls left (sequence and position) *)
Theorem C10_last_call_caps : forall pre sb sc ob oc n i, i < n ->
  nth i (last (history_spec sb sc (pre ++ [(ob, oc, n)])) []) (0, 0)
  = (sched (fst (enter (bstate_after sb pre) ob)) (snd (enter (bstate_after sb pre) ob) + i),
     sched (fst (enter (cstate_after sc pre) oc)) (snd (enter (cstate_after sc pre) oc) + i)).
Proof. exact last_call_caps. Qed.
Print Assumptions C10_last_call_caps.

(* a call that sets bond_dims = b and sweeps beyond the end of b runs those sweeps with the final entry of b *)
Theorem C10_exhausted_schedule_holds_final_entry : forall pre sb sc b oc n i, i < n -> length b <= i ->
  fst (nth i (last (history_spec sb sc (pre ++ [(Some b, oc, n)])) []) (0, 0)) = last b 0.
Proof. exact exhausted_schedule_holds_final_entry. Qed.
Print Assumptions C10_exhausted_schedule_holds_final_entry.

Theorem C10_exhausted_cutoffs_hold_final_entry : forall pre sb sc ob c n i, i < n -> length c <= i ->
  snd (nth i (last (history_spec sb sc (pre ++ [(ob, Some c, n)])) []) (0, 0)) = last c 0.
Proof. exact exhausted_cutoffs_hold_final_entry. Qed.
Print Assumptions C10_exhausted_cutoffs_hold_final_entry.

(* the two iterators are independent: cutoffs= arguments never move the bond-dimension schedule *)
Theorem C10_bond_schedule_independent_of_cutoff_arguments : forall h sb sc sc',
  map (map fst) (history_spec sb sc h)
  = map (map fst) (history_spec sb sc' (map (fun c : call => (fst (fst c), None, snd c)) h)).
Proof. exact bond_schedule_independent_of_cutoff_arguments. Qed.
Print Assumptions C10_bond_schedule_independent_of_cutoff_arguments.

(* The state after ANY history of solve() calls on a 2-site DMRG (any directions, canonize flags, ranks found by the
   splits, initial bonds): every bond <= the cap the schedule in force assigns to the last sweep performed. *)
Theorem C10_history2_bond_cap : forall d sb sc pre ob oc n (sws : list (bool * bool * list nat)) bonds,
  length sws = length (concat (history_spec sb sc (pre ++ [(ob, oc, S n)]))) ->
  (forall x, In x sws -> length bonds <= length (snd x)) ->
  let s := enter (bstate_after sb pre) ob in
  Forall (fun b => b <= sched (fst s) (snd s + n))
         (sweeps2 d (combine (map fst (concat (history_spec sb sc (pre ++ [(ob, oc, S n)])))) sws) bonds).
Proof. exact history2_bond_cap. Qed.
Print Assumptions C10_history2_bond_cap.

(* the sweep loop of solve(): at most max_sweeps sweeps, at least one, all of them when tol <= 0 *)
Theorem C10_sweeps_done_bounds : forall ms tol es script,
  sweeps_done ms tol es script <= ms /\ sweeps_done ms tol es script <= length script /\
  (1 <= ms -> 1 <= length script -> 1 <= sweeps_done ms tol es script) /\
  ((tol <= 0)%Z -> sweeps_done ms tol es script = Nat.min ms (length script)).
Proof. exact sweeps_done_bounds. Qed.
Print Assumptions C10_sweeps_done_bounds.

(* non-vacuity of the schedule machine: a decreasing schedule ends BELOW its maximum, a later call restarts *)
Example C10_schedule_example :
  dmrg_history [16; 6] [12] [(None, None, 4); (Some [12; 8; 4], None, 5); (None, Some [6; 10], 2)]
  = Some [[(16, 12); (6, 12); (6, 12); (6, 12)]; [(12, 12); (8, 12); (4, 12); (4, 12); (4, 12)]; [(4, 6); (4, 10)]].
Proof. vm_compute. reflexivity. Qed.

(* non-vacuity: sigma_y + 1 = B^dagger B with B = (1, -i); psi = (1, i) has <H> = 2 >= -1 * 2,
   the conjugate state (what the DMRG stack evaluates) sits exactly on the bound *)
Example C10_variational_example :
  let B := fun (k l : nat) => nth l [(1, 0); (0, -1)]%Z g0 in
  (forall u l, u < 2 -> l < 2 ->
     lmat 2 sigma_y u l = gadd (gmul (-1, 0)%Z (if Nat.eqb l u then g1 else g0)) (gram G g0 gadd gmul gconj 1 B u l))
  /\ gherm 2 (lmat 2 sigma_y) (lvec psi_1i) = (2, 0)%Z
  /\ gdmrg 2 (lmat 2 sigma_y) (lvec psi_1i) = (-2, 0)%Z
  /\ gnorm2 2 (lvec psi_1i) = (2, 0)%Z.
Proof.
  cbv zeta. split.
  - intros u l Hu Hl. destruct u as [|[|u]]; destruct l as [|[|l]]; try lia; vm_compute; reflexivity.
  - vm_compute. repeat split; reflexivity.
Qed.

(* C10 - algebra of energy expectation values over an arbitrary commutative ring
   K with an involution `conj` (Section variables + ring_theory: no axioms).

   herm_form n H x   = sum_u sum_l conj(x_u) * H[u,l] * x_l   = <x|H|x>
                       (the library's convention: `H.apply(x)` contracts the
                       LOWER label l of H with the ket, `x.H @ ...` puts the
                       conjugate on the UPPER label u; H.to_dense()[u,l])
   dmrg_form n H x   = sum_u sum_l x_u * H[u,l] * conj(x_l)   = <x|H^T|x>
                       (what a network denotes in which the ket sits on the
                       upper label and the bra on the lower label)
   Theorems: dmrg_form = herm_form of the transpose; they agree when H is
   symmetric; restriction to a subspace (effective Hamiltonian), isometric
   embeddings preserve norms, hence Rayleigh quotients; the variational bound
   from an explicit sum-of-squares certificate H - E0 = B^dagger B. *)
From Coq Require Import Arith List Lia Ring PeanoNat.
From QV Require Import Base.Sums.
Import ListNotations.

Section Energy.
  Variable K : Type.
  Variables (k0 k1 : K) (kadd kmul ksub : K -> K -> K) (kopp : K -> K).
  Hypothesis Kring : ring_theory k0 k1 kadd kmul ksub kopp eq.
  Add Ring KrE : Kring.
  Infix "+" := kadd. Infix "*" := kmul. Infix "-" := ksub.
  Notation sum := (sum K k0 kadd).
  Notation sum_ext := (sum_ext K k0 kadd).
  Notation sum_swap := (sum_swap K k0 k1 kadd kmul ksub kopp Kring).
  Notation sum_mul_l := (sum_mul_l K k0 k1 kadd kmul ksub kopp Kring).
  Notation sum_mul_r := (sum_mul_r K k0 k1 kadd kmul ksub kopp Kring).
  Notation sum_add := (sum_add K k0 k1 kadd kmul ksub kopp Kring).
  Notation sum_delta := (sum_delta K k0 k1 kadd kmul ksub kopp Kring).
  Notation sum_zero := (sum_zero K k0 k1 kadd kmul ksub kopp Kring).

  (* the involution *)
  Variable conj : K -> K.
  Hypothesis conj_0 : conj k0 = k0.
  Hypothesis conj_add : forall a b, conj (a + b) = conj a + conj b.
  Hypothesis conj_mul : forall a b, conj (a * b) = conj a * conj b.
  Hypothesis conj_invol : forall a, conj (conj a) = a.

  Definition vec := nat -> K.
  Definition mat := nat -> nat -> K.

  Definition cj (x : vec) : vec := fun i => conj (x i).
  Definition transpose (M : mat) : mat := fun u l => M l u.
  Definition adjoint (M : mat) : mat := fun u l => conj (M l u).
  Definition mat_vec (n : nat) (M : mat) (x : vec) : vec := fun u => sum n (fun l => M u l * x l).
  Definition dot (n : nat) (y z : vec) : K := sum n (fun u => y u * z u).

  (* bilinear form y^T M z *)
  Definition bil (n : nat) (y : vec) (M : mat) (z : vec) : K := dot n y (mat_vec n M z).

  (* <x|H|x> in the library's operator-on-state convention *)
  Definition herm_form (n : nat) (H : mat) (x : vec) : K :=
    sum n (fun u => sum n (fun l => conj (x u) * H u l * x l)).
  (* ket on the upper label, bra on the lower label *)
  Definition dmrg_form (n : nat) (H : mat) (x : vec) : K :=
    sum n (fun u => sum n (fun l => x u * H u l * conj (x l))).
  Definition norm2 (n : nat) (x : vec) : K := sum n (fun u => conj (x u) * x u).

  Lemma conj_sum n f : conj (sum n f) = sum n (fun i => conj (f i)).
  Proof. induction n as [|n IH]; cbn; [exact conj_0|]. rewrite conj_add, IH. reflexivity. Qed.

  Lemma bil_unfold n y M z : bil n y M z = sum n (fun u => sum n (fun l => y u * M u l * z l)).
  Proof.
    unfold bil, dot, mat_vec. apply sum_ext. intros u _.
    rewrite <- sum_mul_l. apply sum_ext. intros l _. ring.
  Qed.

  Lemma herm_form_bil n H x : herm_form n H x = bil n (cj x) H x.
  Proof. rewrite bil_unfold. reflexivity. Qed.

  Lemma dmrg_form_bil n H x : dmrg_form n H x = bil n x H (cj x).
  Proof. rewrite bil_unfold. reflexivity. Qed.

  Lemma bil_transpose n y M z : bil n y M z = bil n z (transpose M) y.
  Proof.
    rewrite !bil_unfold. rewrite sum_swap. apply sum_ext. intros l _.
    apply sum_ext. intros u _. unfold transpose. ring.
  Qed.

  (* the network with the ket on the upper label denotes the expectation of H^T *)
  Theorem dmrg_form_is_transpose n H x : dmrg_form n H x = herm_form n (transpose H) x.
  Proof. rewrite dmrg_form_bil, herm_form_bil. apply bil_transpose. Qed.

  (* ... and so agrees with <x|H|x> when H is symmetric (e.g. real-symmetric Hermitian) *)
  Theorem dmrg_form_symmetric n H x :
    (forall u l, (u < n)%nat -> (l < n)%nat -> H u l = H l u) -> dmrg_form n H x = herm_form n H x.
  Proof.
    intros Hs. rewrite dmrg_form_is_transpose. unfold herm_form, transpose.
    apply sum_ext. intros u Hu. apply sum_ext. intros l Hl. rewrite (Hs l u) by assumption. reflexivity.
  Qed.

  (* ... or when the state is real *)
  Theorem dmrg_form_real_state n H x :
    (forall u, (u < n)%nat -> conj (x u) = x u) -> dmrg_form n H x = herm_form n H x.
  Proof.
    intros Hr. unfold dmrg_form, herm_form. apply sum_ext. intros u Hu. apply sum_ext. intros l Hl.
    rewrite (Hr u Hu), (Hr l Hl). reflexivity.
  Qed.

  (* it is the energy of the CONJUGATE state: <x|H^T|x> = <conj x|H|conj x>
     (so minimising it returns the conjugate of the ground state of H) *)
  Theorem dmrg_form_conj_state n H x : dmrg_form n H x = herm_form n H (cj x).
  Proof.
    unfold dmrg_form, herm_form, cj. apply sum_ext. intros u _. apply sum_ext. intros l _.
    rewrite conj_invol. reflexivity.
  Qed.

  (* ---- restriction to a subspace ---------------------------------------- *)
  (* embedding of a local vector: (P x)_u = sum_a P[u,a] x_a *)
  Definition embed (m : nat) (P : mat) (x : vec) : vec := fun u => sum m (fun a => P u a * x a).
  Definition col (P : mat) (a : nat) : vec := fun u => P u a.

  Lemma bil_linear_l n m Q y M z :
    bil n (embed m Q y) M z = sum m (fun a => y a * bil n (col Q a) M z).
  Proof.
    unfold bil, dot, embed, col.
    rewrite (sum_ext n _ (fun u => sum m (fun a => y a * (Q u a * mat_vec n M z u)))).
    2:{ intros u _. rewrite <- sum_mul_r. apply sum_ext. intros a _. ring. }
    rewrite sum_swap. apply sum_ext. intros a _. rewrite sum_mul_l. reflexivity.
  Qed.

  Lemma bil_linear_r n m P y M z :
    bil n y M (embed m P z) = sum m (fun b => bil n y M (col P b) * z b).
  Proof.
    rewrite bil_transpose. rewrite bil_linear_l. apply sum_ext. intros b _.
    rewrite (bil_transpose n y M (col P b)). ring.
  Qed.

  (* y^T (Q^T M P) z = (Q y)^T M (P z) *)
  Lemma bil_restrict n m Q P y M z :
    bil n (embed m Q y) M (embed m P z) = bil m y (fun a b => bil n (col Q a) M (col P b)) z.
  Proof.
    rewrite bil_linear_l. unfold bil at 3, dot, mat_vec. apply sum_ext. intros a _.
    rewrite bil_linear_r. reflexivity.
  Qed.

  Lemma cj_embed m P x u : cj (embed m P x) u = embed m (fun u a => conj (P u a)) (cj x) u.
  Proof. unfold cj, embed. rewrite conj_sum. apply sum_ext. intros a _. apply conj_mul. Qed.

  Lemma bil_ext_l n y y' M z : (forall u, (u < n)%nat -> y u = y' u) -> bil n y M z = bil n y' M z.
  Proof. intros E. unfold bil, dot. apply sum_ext. intros u Hu. rewrite (E u Hu). reflexivity. Qed.

  Lemma bil_ext_M n y M M' z : (forall a b, (a < n)%nat -> (b < n)%nat -> M a b = M' a b) ->
    bil n y M z = bil n y M' z.
  Proof.
    intros E. unfold bil, dot, mat_vec. apply sum_ext. intros a Ha. f_equal.
    apply sum_ext. intros b Hb. rewrite (E a b Ha Hb). reflexivity.
  Qed.

  (* effective operator: Heff[a,b] = sum_u sum_l conj(P[u,a]) H[u,l] P[l,b]  ( = P^dagger H P ) *)
  Definition heff (n : nat) (P : mat) (H : mat) : mat :=
    fun a b => sum n (fun u => sum n (fun l => conj (P u a) * H u l * P l b)).

  (* the effective Hamiltonian is the restriction of H: <x|Heff|x> = <Px|H|Px>, for ANY P *)
  Theorem heff_is_restriction n m P H x : herm_form m (heff n P H) x = herm_form n H (embed m P x).
  Proof.
    rewrite (herm_form_bil n). rewrite (bil_ext_l n _ (embed m (fun u a => conj (P u a)) (cj x))).
    2:{ intros u _. apply cj_embed. }
    rewrite bil_restrict. rewrite herm_form_bil.
    apply bil_ext_M. intros a b _ _. unfold heff. rewrite bil_unfold. reflexivity.
  Qed.

  (* the same restriction as a LINEAR OPERATOR (the lazy path of form_local_ops): applying Heff to a
     local vector = embed, apply H, project back with P^dagger:  (Heff x)_a = sum_u conj(P[u,a]) (H (P x))_u *)
  Theorem heff_matvec n m P H x a :
    mat_vec m (heff n P H) x a = sum n (fun u => conj (P u a) * mat_vec n H (embed m P x) u).
  Proof.
    unfold mat_vec, heff, embed.
    rewrite (sum_ext m _ (fun b => sum n (fun u => sum n (fun l => conj (P u a) * H u l * P l b * x b)))).
    2:{ intros b _. rewrite <- sum_mul_r. apply sum_ext. intros u _. rewrite <- sum_mul_r. reflexivity. }
    rewrite (sum_swap m n). apply sum_ext. intros u _.
    rewrite (sum_swap m n). rewrite <- sum_mul_l. apply sum_ext. intros l _.
    rewrite <- sum_mul_l. rewrite <- sum_mul_l. apply sum_ext. intros b _. ring.
  Qed.

  (* swapping the row / column labels of the operator applies the transpose; for a Hermitian operator that is
     the complex conjugate: it returns conj(Heff conj(x)) - the seeded defect class "left_inds <-> right_inds" *)
  Theorem transpose_matvec_hermitian n M x a :
    (forall u l, (u < n)%nat -> (l < n)%nat -> conj (M l u) = M u l) -> (a < n)%nat ->
    mat_vec n (transpose M) x a = conj (mat_vec n M (cj x) a).
  Proof.
    intros Hh Ha. unfold mat_vec, transpose, cj. rewrite conj_sum. apply sum_ext. intros l Hl.
    rewrite conj_mul, conj_invol. rewrite (Hh l a Hl Ha). reflexivity.
  Qed.

  (* isometric embedding (P^dagger P = 1 on the local space) preserves the norm *)
  Definition isometry (n m : nat) (P : mat) : Prop :=
    forall a b, (a < m)%nat -> (b < m)%nat ->
      sum n (fun u => conj (P u a) * P u b) = if Nat.eqb b a then k1 else k0.

  Lemma norm2_as_herm n x : norm2 n x = herm_form n (fun u l => if Nat.eqb l u then k1 else k0) x.
  Proof.
    unfold norm2, herm_form. apply sum_ext. intros u Hu.
    rewrite (sum_ext n _ (fun l => if Nat.eqb l u then conj (x u) * x l else k0)).
    2:{ intros l _. destruct (Nat.eqb l u); ring. }
    rewrite sum_delta by exact Hu. reflexivity.
  Qed.

  Theorem isometry_preserves_norm n m P x : isometry n m P -> norm2 n (embed m P x) = norm2 m x.
  Proof.
    intros Hiso. rewrite (norm2_as_herm n). rewrite <- heff_is_restriction. rewrite (norm2_as_herm m).
    unfold herm_form. apply sum_ext. intros a Ha. apply sum_ext. intros b Hb. f_equal. f_equal.
    unfold heff. rewrite <- (Hiso a b Ha Hb). apply sum_ext. intros u Hu.
    rewrite (sum_ext n _ (fun l => if Nat.eqb l u then conj (P u a) * P l b else k0)).
    2:{ intros l _. destruct (Nat.eqb l u); ring. }
    rewrite sum_delta by exact Hu. reflexivity.
  Qed.

  (* ---- variational bound from a sum-of-squares certificate ---------------- *)
  Lemma herm_form_add n A B x : herm_form n (fun u l => A u l + B u l) x = herm_form n A x + herm_form n B x.
  Proof.
    unfold herm_form. rewrite <- sum_add. apply sum_ext. intros u _.
    rewrite <- sum_add. apply sum_ext. intros l _. ring.
  Qed.

  Lemma herm_form_scale n c A x : herm_form n (fun u l => c * A u l) x = c * herm_form n A x.
  Proof.
    unfold herm_form. rewrite <- sum_mul_l. apply sum_ext. intros u _.
    rewrite <- sum_mul_l. apply sum_ext. intros l _. ring.
  Qed.

  Lemma herm_form_ext n A B x : (forall u l, (u < n)%nat -> (l < n)%nat -> A u l = B u l) ->
    herm_form n A x = herm_form n B x.
  Proof.
    intros E. unfold herm_form. apply sum_ext. intros u Hu. apply sum_ext. intros l Hl.
    rewrite (E u l Hu Hl). reflexivity.
  Qed.

  (* <x| B^dagger B |x> = sum_k |(B x)_k|^2, B an r x n matrix *)
  Definition gram (r : nat) (B : mat) : mat := fun u l => sum r (fun k => conj (B k u) * B k l).

  Lemma herm_form_gram n r B x :
    herm_form n (gram r B) x = sum r (fun k => conj (mat_vec n B x k) * mat_vec n B x k).
  Proof.
    unfold herm_form, gram, mat_vec.
    rewrite (sum_ext r _ (fun k => sum n (fun u => sum n (fun l => conj (x u) * (conj (B k u) * B k l) * x l)))).
    2:{ intros k _. rewrite conj_sum. rewrite <- sum_mul_r. apply sum_ext. intros u _.
        rewrite <- sum_mul_l. apply sum_ext. intros l _. rewrite conj_mul. ring. }
    rewrite (sum_swap r n).
    apply sum_ext. intros u _. rewrite (sum_swap r n). apply sum_ext. intros l _.
    rewrite <- sum_mul_l. rewrite <- sum_mul_r. reflexivity.
  Qed.

  (* the ring identity behind the variational principle *)
  Theorem variational_identity n r E0 H B x :
    (forall u l, (u < n)%nat -> (l < n)%nat ->
        H u l = E0 * (if Nat.eqb l u then k1 else k0) + gram r B u l) ->
    herm_form n H x = E0 * norm2 n x + sum r (fun k => conj (mat_vec n B x k) * mat_vec n B x k).
  Proof.
    intros Hdec. rewrite (herm_form_ext n H _ x Hdec).
    rewrite herm_form_add, herm_form_scale, <- norm2_as_herm, herm_form_gram. reflexivity.
  Qed.

  (* order: any predicate closed under 0, +, and containing every |z|^2 *)
  Variable nonneg : K -> Prop.
  Hypothesis nonneg_0 : nonneg k0.
  Hypothesis nonneg_add : forall a b, nonneg a -> nonneg b -> nonneg (a + b).
  Hypothesis nonneg_sq : forall z, nonneg (conj z * z).

  Lemma nonneg_sum n f : (forall i, (i < n)%nat -> nonneg (f i)) -> nonneg (sum n f).
  Proof.
    induction n as [|n IH]; intros Hf; cbn; [exact nonneg_0|].
    apply nonneg_add; [apply IH; intros; apply Hf; lia | apply Hf; lia].
  Qed.

  Lemma norm2_nonneg n x : nonneg (norm2 n x).
  Proof. apply nonneg_sum. intros. apply nonneg_sq. Qed.

  (* H - E0 = B^dagger B  ==>  <x|H|x> - E0 <x|x> >= 0, for every x (no normalisation needed) *)
  Theorem variational_bound n r E0 H B x :
    (forall u l, (u < n)%nat -> (l < n)%nat ->
        H u l = E0 * (if Nat.eqb l u then k1 else k0) + gram r B u l) ->
    nonneg (herm_form n H x - E0 * norm2 n x).
  Proof.
    intros Hdec. rewrite (variational_identity n r E0 H B x Hdec).
    match goal with |- nonneg (?a + ?b - ?a) => replace (a + b - a) with b by ring end.
    apply nonneg_sum. intros. apply nonneg_sq.
  Qed.

  (* local update: with an isometric environment a local vector that does not
     raise the local energy does not raise the total energy, and stays normalised *)
  Theorem local_update_monotone n m P H x x' :
    isometry n m P ->
    norm2 m x = k1 -> norm2 m x' = k1 ->
    nonneg (herm_form m (heff n P H) x - herm_form m (heff n P H) x') ->
    norm2 n (embed m P x') = k1 /\ norm2 n (embed m P x) = k1 /\
    nonneg (herm_form n H (embed m P x) - herm_form n H (embed m P x')).
  Proof.
    intros Hiso Hx Hx' Hle. rewrite !isometry_preserves_norm by exact Hiso.
    rewrite <- !heff_is_restriction. auto.
  Qed.

  (* the local energy IS the total energy of the embedded state *)
  Theorem local_energy_is_total n m P H x :
    isometry n m P -> norm2 m x = k1 ->
    norm2 n (embed m P x) = k1 /\ herm_form n H (embed m P x) = herm_form m (heff n P H) x.
  Proof.
    intros Hiso Hx. rewrite isometry_preserves_norm by exact Hiso. rewrite heff_is_restriction. auto.
  Qed.
End Energy.

(* C10 - the energy network <b|H|k> on the shared network semantics (Base/TN.v),
   over an arbitrary commutative ring with involution.

   (1) layered_value: for ANY three layers of tensors (ket MPS, MPO, bra MPS of
       any length and bond structure) whose internal bonds are private, the
       value of the stacked network is the sum over the shared physical labels
       of the product of the three layers' own values.
   (2) energy_network: the three-layer stack with the labels that
       `tensor_network_align` assigns (C10/Model.v `align`), at the level of
       the composite physical index; its value as a double sum, for both
       stacking orders. *)
From Coq Require Import Arith List Lia Ring PeanoNat.
From QV Require Import Base.Sums Base.TN C10.Model C10.Energy.
Import ListNotations.

Section Net.
  Variable K : Type.
  Variables (k0 k1 : K) (kadd kmul ksub : K -> K -> K) (kopp : K -> K).
  Hypothesis Kring : ring_theory k0 k1 kadd kmul ksub kopp eq.
  Add Ring KrN : Kring.
  Infix "+" := kadd. Infix "*" := kmul.
  Variable conj : K -> K.
  Variable dim : nat -> nat.

  Notation sum := (sum K k0 kadd).
  Notation tensor := (tensor K).
  Notation wf := (wf K).
  Notation asg := (nat -> nat).
  Notation sum_over := (sum_over K k0 kadd dim).
  Notation tprod := (tprod K k1 kmul).
  Notation value := (value K k0 k1 kadd kmul dim).
  Notation indep := (indep K).
  Notation ext := (ext K).

  (* ---- (1) layers --------------------------------------------------------- *)
  Lemma tprod_app a b s : tprod (a ++ b) s = tprod a s * tprod b s.
  Proof.
    unfold TN.tprod. induction a as [|t a IH]; cbn; [ring|]. rewrite IH. ring.
  Qed.

  Lemma sum_over_factor_l S f g : (forall i, In i S -> indep g i) -> forall s,
    sum_over S (fun s' => g s' * f s') s = g s * sum_over S f s.
  Proof.
    intros Hg s.
    rewrite (sum_over_ext_fun K k0 kadd dim S _ (fun s' => f s' * g s')) by (intros; ring).
    rewrite (sum_over_factor K k0 k1 kadd kmul ksub kopp Kring dim S f g Hg). ring.
  Qed.

  Lemma indep_sum_over B f i : ext f -> indep f i -> indep (sum_over B f) i.
  Proof.
    intros He Hi. induction B as [|j B IH]; intros s v; cbn [TN.sum_over]; [apply Hi|].
    apply sum_ext. intros w _.
    destruct (Nat.eq_dec j i) as [->|Hne].
    - apply (sum_over_aeq K k0 kadd dim B f He). intros q. unfold upd.
      destruct (Nat.eqb q i); reflexivity.
    - rewrite (sum_over_aeq K k0 kadd dim B f He _ (upd (upd s j w) i v)).
      + apply IH.
      + apply upd_comm. intros E. apply Hne. symmetry. exact E.
  Qed.

  Lemma indep_mul f g i : indep f i -> indep g i -> indep (fun s => f s * g s) i.
  Proof. intros Hf Hg s v. rewrite Hf, Hg. reflexivity. Qed.

  Lemma indep_value ts B i : Forall wf ts -> (forall t, In t ts -> ~ In i (tinds K t)) -> indep (value ts B) i.
  Proof.
    intros Hw Hn. unfold TN.value. apply indep_sum_over.
    - apply (ext_tprod K k1 kmul); exact Hw.
    - apply (indep_tprod K k1 kmul); assumption.
  Qed.

  Theorem layered_value tk th tb P Bk Bh Bb s :
    Forall wf tk -> Forall wf th -> Forall wf tb ->
    (forall i t, In i Bk -> In t (th ++ tb) -> ~ In i (tinds K t)) ->
    (forall i t, In i Bh -> In t (tk ++ tb) -> ~ In i (tinds K t)) ->
    (forall i t, In i Bb -> In t (tk ++ th) -> ~ In i (tinds K t)) ->
    value (tk ++ th ++ tb) (P ++ Bk ++ Bh ++ Bb) s
    = sum_over P (fun s' => value tk Bk s' * value th Bh s' * value tb Bb s') s.
  Proof.
    intros Wk Wh Wb Hk Hh Hb. unfold TN.value at 1.
    rewrite (sum_over_app K k0 kadd dim). apply (sum_over_ext_fun K k0 kadd dim). intros s1.
    rewrite (sum_over_app K k0 kadd dim).
    transitivity (sum_over Bk (fun s2 => tprod tk s2 * (value th Bh s2 * value tb Bb s2)) s1).
    - apply (sum_over_ext_fun K k0 kadd dim). intros s2. rewrite (sum_over_app K k0 kadd dim).
      transitivity (sum_over Bh (fun s3 => tprod th s3 * (tprod tk s3 * value tb Bb s3)) s2).
      + apply (sum_over_ext_fun K k0 kadd dim). intros s3.
        rewrite (sum_over_ext_fun K k0 kadd dim Bb _ (fun s4 => (tprod tk s4 * tprod th s4) * tprod tb s4))
          by (intros; rewrite !tprod_app; ring).
        rewrite sum_over_factor_l.
        * unfold TN.value. ring.
        * intros i Hi. apply indep_mul; apply (indep_tprod K k1 kmul); try assumption;
            intros t Ht; apply (Hb i t Hi); apply in_or_app; auto.
      + rewrite (sum_over_factor K k0 k1 kadd kmul ksub kopp Kring dim).
        * unfold TN.value. ring.
        * intros i Hi. apply indep_mul.
          -- apply (indep_tprod K k1 kmul); [exact Wk|]. intros t Ht. apply (Hh i t Hi). apply in_or_app; auto.
          -- apply indep_value; [exact Wb|]. intros t Ht. apply (Hh i t Hi). apply in_or_app; auto.
    - rewrite (sum_over_factor K k0 k1 kadd kmul ksub kopp Kring dim).
      + unfold TN.value. ring.
      + intros i Hi. apply indep_mul; apply indep_value; try assumption;
          intros t Ht; apply (Hk i t Hi); apply in_or_app; auto.
  Qed.

  (* ---- (2) the aligned energy network at the composite physical index ---------- *)
  Definition vec_tensor (lbl : nat) (v : nat -> K) : tensor :=
    {| tinds := [lbl]; tval := fun s => v (s lbl) |}.
  Definition op_tensor (u l : nat) (H : nat -> nat -> K) : tensor :=
    {| tinds := [u; l]; tval := fun s => H (s u) (s l) |}.

  Lemma vec_tensor_wf lbl v : wf (vec_tensor lbl v).
  Proof. intros s s' E. cbn. rewrite (E lbl); [reflexivity | left; reflexivity]. Qed.
  Lemma op_tensor_wf u l H : wf (op_tensor u l H).
  Proof. intros s s' E. cbn. rewrite (E u), (E l); [reflexivity | right; left; reflexivity | left; reflexivity]. Qed.

  (* the network of an aligned 3-layer stack; the labels summed are the site
     labels of the two vectors (after alignment they are the operator's labels) *)
  Definition stack3 (ls : list layer) (top : nat -> K) (H : nat -> nat -> K) (bot : nat -> K)
      : option (list tensor * list nat) :=
    match ls with
    | [LVec a; LOp u l; LVec c] => Some ([vec_tensor a top; op_tensor u l H; vec_tensor c bot], [a; c])
    | _ => None
    end.

  Definition energy_network (o : order) (kid hu hl bid : nat) (psi : nat -> K) (H : nat -> nat -> K)
      : option (list tensor * list nat) :=
    match o with
    | KetHamBra =>
        match align [LVec kid; LOp hu hl; LVec bid] with
        | Some ls => stack3 ls psi H (cj K conj psi)
        | None => None
        end
    | BraHamKet =>
        match align [LVec bid; LOp hu hl; LVec kid] with
        | Some ls => stack3 ls (cj K conj psi) H psi
        | None => None
        end
    end.

  Definition energy_value (o : order) (kid hu hl bid : nat) psi H (s : asg) : option K :=
    match energy_network o kid hu hl bid psi H with
    | Some (ts, Sm) => Some (value ts Sm s)
    | None => None
    end.

  Lemma align3 a hu hl c :
    align [LVec a; LOp hu hl; LVec c] = Some [LVec a; LOp a (fresh 0); LVec (fresh 0)].
  Proof. reflexivity. Qed.

  Lemma stack_value a f X H Y D s : a <> f -> dim a = D -> dim f = D ->
    value [vec_tensor a X; op_tensor a f H; vec_tensor f Y] [a; f] s
    = sum D (fun u => sum D (fun l => X u * H u l * Y l)).
  Proof.
    intros Hne Ha Hf. unfold TN.value. cbn [TN.sum_over]. rewrite Ha, Hf.
    apply sum_ext. intros u _. apply sum_ext. intros l _.
    unfold TN.tprod. cbn [map TN.prodK vec_tensor op_tensor tval]. unfold upd.
    rewrite !Nat.eqb_refl. rewrite (proj2 (Nat.eqb_neq a f) Hne). ring.
  Qed.

  (* library convention (bra, ham, ket): the network denotes <psi|H|psi> *)
  Theorem energy_network_denotes kid hu hl bid psi H D s :
    bid <> fresh 0 -> dim bid = D -> dim (fresh 0) = D ->
    energy_value BraHamKet kid hu hl bid psi H s = Some (herm_form K k0 kadd kmul conj D H psi).
  Proof.
    intros Hne Hb Hf. unfold energy_value, energy_network. rewrite align3. cbn [stack3].
    rewrite (stack_value bid (fresh 0) _ H psi D s Hne Hb Hf). reflexivity.
  Qed.

  (* DMRG's order (ket, ham, bra): the network denotes <psi|H^T|psi> *)
  Theorem dmrg_energy_network_denotes kid hu hl bid psi H D s :
    kid <> fresh 0 -> dim kid = D -> dim (fresh 0) = D ->
    energy_value KetHamBra kid hu hl bid psi H s = Some (dmrg_form K k0 kadd kmul conj D H psi).
  Proof.
    intros Hne Hb Hf. unfold energy_value, energy_network. rewrite align3. cbn [stack3].
    rewrite (stack_value kid (fresh 0) psi H _ D s Hne Hb Hf). reflexivity.
  Qed.

  (* ---- consequences for the order DMRG uses ----------------------------------------- *)
  Hypothesis conj_invol : forall a, conj (conj a) = a.

  Theorem dmrg_energy_network_denotes_transpose kid hu hl bid psi H D s :
    kid <> fresh 0 -> dim kid = D -> dim (fresh 0) = D ->
    energy_value KetHamBra kid hu hl bid psi H s
      = Some (herm_form K k0 kadd kmul conj D (transpose K H) psi)
    /\ herm_form K k0 kadd kmul conj D (transpose K H) psi
      = herm_form K k0 kadd kmul conj D H (cj K conj psi).
  Proof.
    intros Hne Hk Hf. split.
    - rewrite <- (dmrg_form_is_transpose K k0 k1 kadd kmul ksub kopp Kring conj).
      exact (dmrg_energy_network_denotes kid hu hl bid psi H D s Hne Hk Hf).
    - rewrite <- (dmrg_form_is_transpose K k0 k1 kadd kmul ksub kopp Kring conj).
      exact (dmrg_form_conj_state K k0 kadd kmul conj conj_invol D H psi).
  Qed.

  Theorem dmrg_energy_network_correct_if_symmetric_or_real kid hu hl bid psi H D s :
    kid <> fresh 0 -> dim kid = D -> dim (fresh 0) = D ->
    (forall u l, u < D -> l < D -> H u l = H l u) \/ (forall u, u < D -> conj (psi u) = psi u) ->
    energy_value KetHamBra kid hu hl bid psi H s = Some (herm_form K k0 kadd kmul conj D H psi).
  Proof.
    intros Hne Hk Hf Hc.
    rewrite (dmrg_energy_network_denotes kid hu hl bid psi H D s Hne Hk Hf).
    f_equal. destruct Hc as [Hs|Hr].
    - exact (dmrg_form_symmetric K k0 k1 kadd kmul ksub kopp Kring conj D H psi Hs).
    - exact (dmrg_form_real_state K k0 kadd kmul conj D H psi Hr).
  Qed.
End Net.

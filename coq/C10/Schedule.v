(* C10 - the bond-dimension / cutoff schedules over the whole life of a DMRG object:
   the iterator machine of Model.v (chain(bds, repeat(bds[-1])), replaced by solve(bond_dims=...),
   continued otherwise, one entry per sweep) equals the documented closed form, for EVERY history
   of solve() calls; consequences for the caps handed to the sweeps and for the bonds of the
   state after any history of 2-site sweeps. *)
From Coq Require Import ZArith Arith List Bool Lia PeanoNat.
From QV Require Import C10.Model C10.Proofs.
Import ListNotations.

(* ---- the iterator after k draws ------------------------------------------------------------ *)
Definition it_at (bds : list nat) (k : nat) : siter := mk_siter (skipn k bds) (last bds 0).

Lemma mk_iter_it_at bds : bds <> [] -> mk_iter bds = Some (it_at bds 0).
Proof. destruct bds; [congruence|]. intros _. reflexivity. Qed.

Lemma next_skipn (t : nat) : forall bds k,
  match skipn k bds with
  | [] => (t, mk_siter (skipn k bds) t)
  | x :: r => (x, mk_siter r t)
  end = (nth k bds t, mk_siter (skipn (S k) bds) t).
Proof.
  induction bds as [|a bds IH]; intros k.
  - destruct k; reflexivity.
  - destruct k as [|k]; [reflexivity|]. cbn [skipn nth]. rewrite IH. reflexivity.
Qed.

Lemma next_it_at bds k : next_it (it_at bds k) = (sched bds k, it_at bds (S k)).
Proof.
  unfold next_it, it_at, sched. cbn [rest tailv].
  pose proof (next_skipn (last bds 0) bds k) as H.
  destruct (skipn k bds) eqn:E; rewrite H; reflexivity.
Qed.

Lemma map_seq_S {A} (f : nat -> A) s n : map f (seq (S s) n) = map (fun i => f (S i)) (seq s n).
Proof. rewrite <- seq_shift, map_map. reflexivity. Qed.

Lemma draws_it_at : forall n b kb c kc,
  draws n (it_at b kb) (it_at c kc)
  = (caps_at (b, kb) (c, kc) n, (it_at b (kb + n), it_at c (kc + n))).
Proof.
  induction n as [|n IH]; intros b kb c kc.
  - cbn [draws]. unfold caps_at. cbn [seq map]. rewrite !Nat.add_0_r. reflexivity.
  - cbn [draws]. rewrite !next_it_at, IH.
    unfold caps_at. cbn [fst snd seq map]. rewrite !Nat.add_0_r.
    rewrite map_seq_S.
    replace (S kb + n) with (kb + S n) by lia. replace (S kc + n) with (kc + S n) by lia.
    f_equal. f_equal. apply map_ext. intros i.
    replace (S kb + i) with (kb + S i) by lia. replace (S kc + i) with (kc + S i) by lia. reflexivity.
Qed.

Lemma override_it_at b k o : o <> Some [] ->
  override (it_at b k) o = Some (it_at (fst (enter (b, k) o)) (snd (enter (b, k) o))).
Proof.
  intros H. destruct o as [l|]; cbn [override enter fst snd]; [|reflexivity].
  apply mk_iter_it_at. intros E. apply H. rewrite E. reflexivity.
Qed.

(* a call whose schedule arguments are not the empty sequence (for which the code raises IndexError) *)
Definition ok_call (c : call) : Prop := fst (fst c) <> Some [] /\ snd (fst c) <> Some [].

Lemma history_it_at : forall h b kb c kc, Forall ok_call h ->
  history (it_at b kb) (it_at c kc) h = Some (history_spec (b, kb) (c, kc) h).
Proof.
  induction h as [|[[ob oc] n] h IH]; intros b kb c kc Hok; [reflexivity|].
  inversion Hok as [|x l [H1 H2] Hrest]; subst. cbn [fst snd] in H1, H2.
  cbn [history history_spec].
  rewrite (override_it_at b kb ob H1), (override_it_at c kc oc H2).
  destruct (enter (b, kb) ob) as [b1 k1] eqn:Eb. destruct (enter (c, kc) oc) as [c1 k1c] eqn:Ec.
  cbn [fst snd]. rewrite draws_it_at. cbn [fst snd]. rewrite IH by exact Hrest. reflexivity.
Qed.

(* the machine = the closed form, for every history *)
Theorem dmrg_history_closed_form bds cuts h :
  bds <> [] -> cuts <> [] -> Forall ok_call h ->
  dmrg_history bds cuts h = Some (history_spec (bds, 0) (cuts, 0) h).
Proof.
  intros Hb Hc Hok. unfold dmrg_history.
  rewrite (mk_iter_it_at bds Hb), (mk_iter_it_at cuts Hc). apply history_it_at. exact Hok.
Qed.

(* the empty schedule is rejected (IndexError), in __init__ and in any later solve() *)
Theorem dmrg_history_rejects_empty bds cuts pre ob oc n post :
  ob = Some [] \/ oc = Some [] ->
  Forall ok_call pre ->
  dmrg_history bds cuts (pre ++ (ob, oc, n) :: post) = None.
Proof.
  intros Hbad Hpre. unfold dmrg_history.
  destruct (mk_iter bds) as [b|] eqn:Eb; [|reflexivity].
  destruct (mk_iter cuts) as [c|] eqn:Ec; [|reflexivity].
  assert (Hb : bds <> []) by (destruct bds; [discriminate|congruence]).
  assert (Hc : cuts <> []) by (destruct cuts; [discriminate|congruence]).
  rewrite (mk_iter_it_at bds Hb) in Eb. rewrite (mk_iter_it_at cuts Hc) in Ec.
  injection Eb as <-. injection Ec as <-.
  generalize 0 at 1 as kb. generalize 0 at 1 as kc. generalize bds as b0. generalize cuts as c0.
  clear Hb Hc.
  induction pre as [|[[ob' oc'] n'] pre IH]; intros c0 b0 kc kb.
  - cbn [app history]. destruct Hbad as [-> | ->].
    + cbn [override mk_iter]. reflexivity.
    + cbn [override mk_iter]. destruct (override (it_at b0 kb) ob); reflexivity.
  - inversion Hpre as [|x l [H1 H2] Hrest]; subst. cbn [fst snd] in H1, H2.
    cbn [app history].
    rewrite (override_it_at b0 kb ob' H1), (override_it_at c0 kc oc' H2).
    destruct (enter (b0, kb) ob') as [b1 k1]. destruct (enter (c0, kc) oc') as [c1 k1c].
    cbn [fst snd]. rewrite draws_it_at. cbn [fst snd]. rewrite (IH Hrest). reflexivity.
Qed.

(* ---- the last call of a history -------------------------------------------------------------- *)
Lemma history_spec_snoc : forall pre sb sc ob oc n,
  history_spec sb sc (pre ++ [(ob, oc, n)])
  = history_spec sb sc pre ++ [caps_at (enter (bstate_after sb pre) ob) (enter (cstate_after sc pre) oc) n].
Proof.
  induction pre as [|[[ob' oc'] n'] pre IH]; intros sb sc ob oc n.
  - reflexivity.
  - cbn [app history_spec]. rewrite IH. unfold bstate_after, cstate_after. cbn [fold_left fst snd]. reflexivity.
Qed.

Lemma caps_at_nth sb sc n i : i < n ->
  nth i (caps_at sb sc n) (0, 0) = (sched (fst sb) (snd sb + i), sched (fst sc) (snd sc + i)).
Proof.
  intros H. unfold caps_at.
  set (f := fun i => (sched (fst sb) (snd sb + i), sched (fst sc) (snd sc + i))).
  rewrite (nth_indep _ (0, 0) (f 0)) by (rewrite map_length, seq_length; exact H).
  rewrite map_nth, seq_nth by exact H. reflexivity.
Qed.

Lemma caps_at_length sb sc n : length (caps_at sb sc n) = n.
Proof. unfold caps_at. rewrite map_length, seq_length. reflexivity. Qed.

(* the caps of the last call of ANY history: sweep i of that call gets entry (consumed + i) of the sequence in
   force - the argument of this call if given, else the one in force after the earlier calls *)
Theorem last_call_caps pre sb sc ob oc n i : i < n ->
  nth i (last (history_spec sb sc (pre ++ [(ob, oc, n)])) []) (0, 0)
  = (sched (fst (enter (bstate_after sb pre) ob)) (snd (enter (bstate_after sb pre) ob) + i),
     sched (fst (enter (cstate_after sc pre) oc)) (snd (enter (cstate_after sc pre) oc) + i)).
Proof. intros H. rewrite history_spec_snoc, last_last. apply caps_at_nth. exact H. Qed.

(* ... in particular: a call that sets bond_dims = b and sweeps beyond the end of b runs those sweeps with the
   FINAL entry of b (not its maximum, its first entry, or anything left over from the previous schedule) *)
Theorem exhausted_schedule_holds_final_entry pre sb sc b oc n i : i < n -> length b <= i ->
  fst (nth i (last (history_spec sb sc (pre ++ [(Some b, oc, n)])) []) (0, 0)) = last b 0.
Proof.
  intros H Hb. rewrite last_call_caps by exact H. cbn [enter fst snd]. apply sched_repeats_last. exact Hb.
Qed.

Theorem exhausted_cutoffs_hold_final_entry pre sb sc ob c n i : i < n -> length c <= i ->
  snd (nth i (last (history_spec sb sc (pre ++ [(ob, Some c, n)])) []) (0, 0)) = last c 0.
Proof.
  intros H Hc. rewrite last_call_caps by exact H. cbn [enter fst snd]. apply sched_repeats_last. exact Hc.
Qed.

(* the two iterators are independent: overriding one leaves the position of the other *)
Theorem bond_schedule_independent_of_cutoff_arguments : forall h sb sc sc',
  map (map fst) (history_spec sb sc h)
  = map (map fst) (history_spec sb sc' (map (fun c : call => (fst (fst c), None, snd c)) h)).
Proof.
  induction h as [|[[ob oc] n] h IH]; intros sb sc sc'; [reflexivity|].
  cbn [map history_spec fst snd]. f_equal.
  - unfold caps_at. rewrite !map_map. reflexivity.
  - apply IH.
Qed.

(* every cap ever handed to a sweep is an entry of the sequence in force *)
Theorem caps_are_schedule_entries sb sc n i : fst sb <> [] -> i < n ->
  In (fst (nth i (caps_at sb sc n) (0, 0))) (fst sb).
Proof. intros Hne H. rewrite caps_at_nth by exact H. cbn [fst]. apply sched_In. exact Hne. Qed.

Lemma combine_app' {A B} : forall (l1 : list A) (l1' : list B) l2 l2', length l1 = length l1' ->
  combine (l1 ++ l2) (l1' ++ l2') = combine l1 l1' ++ combine l2 l2'.
Proof.
  induction l1 as [|a l1 IH]; intros [|b l1'] l2 l2' H; cbn [length] in H; try discriminate; [reflexivity|].
  cbn [app combine]. rewrite IH by lia. reflexivity.
Qed.

(* ---- 2-site sweeps with explicit caps ---------------------------------------------------------- *)
Lemma sweeps2_snoc d : forall l x bonds,
  sweeps2 d (l ++ [x]) bonds
  = let '(chi, (dr, cn, rk)) := x in sweep2 d chi dr cn rk (sweeps2 d l bonds).
Proof.
  induction l as [|[chi [[dr cn] rk]] l IH]; intros [chi' [[dr' cn'] rk']] bonds; cbn [app sweeps2]; [reflexivity|].
  rewrite IH. reflexivity.
Qed.

Lemma sweeps2_length d : forall l bonds, length (sweeps2 d l bonds) = length bonds.
Proof.
  induction l as [|[chi [[dr cn] rk]] l IH]; intros bonds; cbn [sweeps2]; [reflexivity|].
  rewrite IH. apply sweep2_length.
Qed.

(* after ANY sequence of 2-site sweeps, every bond obeys the cap handed to the LAST sweep *)
Theorem sweeps2_cap d l chi dr cn rk bonds :
  length bonds <= length rk ->
  Forall (fun b => b <= chi) (sweeps2 d (l ++ [(chi, (dr, cn, rk))]) bonds).
Proof. intros H. rewrite sweeps2_snoc. apply sweep2_cap. rewrite sweeps2_length. exact H. Qed.

(* solve2 (one schedule, sweeps numbered from k) is sweeps2 with the caps the schedule gives *)
Lemma solve2_is_sweeps2 d bds : forall sw k bonds,
  solve2 d bds sw k bonds = sweeps2 d (combine (map (sched bds) (seq k (length sw))) sw) bonds.
Proof.
  induction sw as [|[[dr cn] rk] sw IH]; intros k bonds; [reflexivity|].
  cbn [solve2 length seq map combine sweeps2]. apply IH.
Qed.

(* The state after any history of solve() calls on a 2-site DMRG: every bond is at most the cap the schedules
   assign to the last sweep performed = entry (consumed) of the sequence in force, the final entry once exhausted. *)
Theorem history2_bond_cap d sb sc pre ob oc n (sws : list (bool * bool * list nat)) bonds :
  length sws = length (concat (history_spec sb sc (pre ++ [(ob, oc, S n)]))) ->
  (forall x, In x sws -> length bonds <= length (snd x)) ->
  let s := enter (bstate_after sb pre) ob in
  Forall (fun b => b <= sched (fst s) (snd s + n))
         (sweeps2 d (combine (map fst (concat (history_spec sb sc (pre ++ [(ob, oc, S n)])))) sws) bonds).
Proof.
  intros Hlen Hrk s.
  rewrite history_spec_snoc, concat_app in *. cbn [concat] in *. rewrite app_nil_r in *.
  set (last_caps := caps_at (enter (bstate_after sb pre) ob) (enter (cstate_after sc pre) oc) (S n)) in *.
  assert (Hl : last_caps = firstn n last_caps ++ [(sched (fst s) (snd s + n), sched (fst (enter (cstate_after sc pre) oc)) (snd (enter (cstate_after sc pre) oc) + n))]).
  { unfold last_caps, caps_at. rewrite seq_S, map_app. cbn [map Nat.add].
    rewrite firstn_app, map_length, seq_length, Nat.sub_diag. cbn [firstn]. rewrite app_nil_r.
    rewrite firstn_all2 by (rewrite map_length, seq_length; lia). reflexivity. }
  rewrite Hl in *. rewrite app_assoc in *. rewrite map_app in *. cbn [map fst] in *.
  rewrite app_length in Hlen. cbn [length] in Hlen.
  destruct (exists_last (l := sws)) as [sws' [x Hx]].
  { intros E. rewrite E in Hlen. cbn in Hlen. lia. }
  subst sws. rewrite app_length in Hlen. cbn [length] in Hlen.
  rewrite combine_app' by (rewrite map_length; lia).
  cbn [combine]. destruct x as [[dr cn] rk].
  apply sweeps2_cap. apply (Hrk (dr, cn, rk)). apply in_or_app. right. left. reflexivity.
Qed.

(* ---- the sweep loop ---------------------------------------------------------------------------- *)
Theorem sweeps_done_bounds : forall ms tol es script,
  sweeps_done ms tol es script <= ms /\ sweeps_done ms tol es script <= length script /\
  (1 <= ms -> 1 <= length script -> 1 <= sweeps_done ms tol es script) /\
  ((tol <= 0)%Z -> sweeps_done ms tol es script = Nat.min ms (length script)).
Proof.
  induction ms as [|ms IH]; intros tol es script.
  - cbn [sweeps_done]. repeat split; intros; lia.
  - destruct script as [|e script].
    + cbn [sweeps_done length]. repeat split; intros; lia.
    + cbn [sweeps_done length]. destruct (IH tol (e :: es) script) as (H1 & H2 & H3 & H4).
      destruct (converged tol (e :: es)) eqn:C.
      * repeat split; intros; try lia. exfalso.
        unfold converged in C. destruct es as [|e2 es']; [discriminate|].
        apply Z.ltb_lt in C. pose proof (Z.abs_nonneg (e2 - e)). lia.
      * repeat split; intros; lia.
Qed.

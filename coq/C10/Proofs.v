(* C10 - proofs about the executable models (C10/Model.v) and the Z[i]
   instances of the ring-generic theorems (C10/Energy.v, C10/Network.v). *)
From Coq Require Import ZArith Arith List Bool Lia PeanoNat Ring.
From QV Require Import Base.Sums Base.TN Base.TNExec C10.Model C10.Energy C10.Network.
Import ListNotations.

(* ---- alignment ------------------------------------------------------------------ *)
Lemma align_ket_ham_bra k hu hl b :
  align [LVec k; LOp hu hl; LVec b] = Some [LVec k; LOp k (fresh 0); LVec (fresh 0)].
Proof. reflexivity. Qed.

(* whichever vector is passed first ends up on the UPPER label of the operator *)
Lemma first_vector_on_upper k hu hl b : ket_on_upper KetHamBra k hu hl b = Some true.
Proof. unfold ket_on_upper. rewrite align_ket_ham_bra. rewrite Nat.eqb_refl. reflexivity. Qed.

Lemma last_vector_on_lower k hu hl b : b <> fresh 0 -> ket_on_upper BraHamKet k hu hl b = Some false.
Proof.
  intros H. unfold ket_on_upper. rewrite align_ket_ham_bra.
  destruct (Nat.eqb (fresh 0) b) eqn:E; [apply Nat.eqb_eq in E; congruence | reflexivity].
Qed.

(* every operator in the interior of a stack gets upper = id above, lower = id below *)
Lemma align_length n i first ls out : align_from n i first ls = Some out -> length out = length ls.
Proof.
  revert i out. induction ls as [|l r IH]; intros i out H; cbn in H.
  - inversion H. reflexivity.
  - destruct (align_one n i first l); [|discriminate].
    destruct (align_from n (S i) first r) eqn:E; [|discriminate].
    inversion H. cbn. f_equal. eapply IH. exact E.
Qed.

(* ---- schedules ----------------------------------------------------------------------- *)
Lemma sched_in_range bds k : (k < length bds)%nat -> sched bds k = nth k bds 0%nat.
Proof. intros H. unfold sched. apply nth_indep. exact H. Qed.

Lemma sched_repeats_last bds k : (length bds <= k)%nat -> sched bds k = last bds 0%nat.
Proof. intros H. unfold sched. apply nth_overflow. exact H. Qed.

Lemma last_In (l : list nat) d : l <> [] -> In (last l d) l.
Proof.
  induction l as [|x l IH]; intros H; [contradiction|].
  destruct l as [|y l]; [left; reflexivity|]. right. apply IH. discriminate.
Qed.

Lemma sched_In bds k : bds <> [] -> In (sched bds k) bds.
Proof.
  intros H. destruct (Nat.lt_ge_cases k (length bds)) as [Hk|Hk].
  - rewrite sched_in_range by exact Hk. apply nth_In. exact Hk.
  - rewrite sched_repeats_last by exact Hk. apply last_In. exact H.
Qed.

(* ---- bond dimensions ---------------------------------------------------------------------- *)
Lemma set_nth_length i v l : length (set_nth i v l) = length l.
Proof. revert i. induction l as [|x l IH]; intros [|i]; cbn; auto. Qed.

Lemma nth_set_nth i v l j dflt :
  nth j (set_nth i v l) dflt = if Nat.eqb j i && Nat.ltb i (length l) then v else nth j l dflt.
Proof.
  revert i j. induction l as [|x l IH]; intros i j.
  - destruct i; cbn [set_nth length Nat.ltb Nat.leb]; rewrite andb_false_r; reflexivity.
  - destruct i as [|i], j as [|j]; cbn [set_nth nth length]; try reflexivity.
    rewrite IH. cbn [Nat.eqb].
    replace (Nat.ltb (S i) (S (length l))) with (Nat.ltb i (length l)); [reflexivity|].
    destruct (Nat.ltb i (length l)) eqn:E; symmetry.
    + apply Nat.ltb_lt in E. apply Nat.ltb_lt. lia.
    + apply Nat.ltb_ge in E. apply Nat.ltb_ge. lia.
Qed.

Lemma Forall_set_nth (P : nat -> Prop) i v l : Forall P l -> P v -> Forall P (set_nth i v l).
Proof.
  intros Hl Hv. revert i. induction Hl as [|x l Hx Hl IH]; intros [|i]; cbn; constructor; auto.
Qed.

Lemma Forall_nth_le B l j : Forall (fun b => b <= B) l -> (j < length l)%nat -> nth j l 1%nat <= B.
Proof. intros H Hj. rewrite Forall_forall in H. apply H. apply nth_In. exact Hj. Qed.

(* --- steps never exceed a bound that already holds (QR moves, splits) --- *)
Lemma right_dim_le B l i : (1 <= B)%nat -> Forall (fun b => b <= B) l -> right_dim l i <= B.
Proof.
  intros HB H. unfold right_dim. destruct (Nat.lt_ge_cases i (length l)).
  - apply Forall_nth_le; assumption.
  - rewrite nth_overflow by assumption. exact HB.
Qed.

Lemma qr_right_bound d B l i : (1 <= B)%nat -> Forall (fun b => b <= B) l -> Forall (fun b => b <= B) (qr_right d l i).
Proof.
  intros HB H. unfold qr_right. apply Forall_set_nth; [exact H|].
  pose proof (right_dim_le B l i HB H). lia.
Qed.

Lemma qr_left_bound d B l i : (1 <= B)%nat -> Forall (fun b => b <= B) l -> Forall (fun b => b <= B) (qr_left d l i).
Proof.
  intros HB H. unfold qr_left. destruct i as [|j]; [exact H|]. apply Forall_set_nth; [exact H|].
  pose proof (right_dim_le B l j HB H). lia.
Qed.

Lemma qr_right_length d l i : length (qr_right d l i) = length l.
Proof. unfold qr_right. apply set_nth_length. Qed.
Lemma qr_left_length d l i : length (qr_left d l i) = length l.
Proof. unfold qr_left. destruct i; [reflexivity | apply set_nth_length]. Qed.

Lemma fold_bound (A : Type) (step : list nat -> A -> list nat) (P : list nat -> Prop) :
  (forall l a, P l -> P (step l a)) -> forall xs l, P l -> P (fold_left step xs l).
Proof. intros Hs xs. induction xs as [|x xs IH]; intros l Hl; cbn; [exact Hl | apply IH, Hs, Hl]. Qed.

Lemma pre_canon_bound d right cn B l : (1 <= B)%nat ->
  Forall (fun b => b <= B) l -> Forall (fun b => b <= B) (pre_canon d right cn l).
Proof.
  intros HB H. unfold pre_canon. destruct cn; [|exact H]. destruct right.
  - apply fold_bound; [intros; apply qr_left_bound; assumption | exact H].
  - apply fold_bound; [intros; apply qr_right_bound; assumption | exact H].
Qed.

Lemma pre_canon_length d right cn l : length (pre_canon d right cn l) = length l.
Proof.
  unfold pre_canon. destruct cn; [|reflexivity]. destruct right.
  - apply (fold_bound nat (qr_left d) (fun x => length x = length l)); [|reflexivity].
    intros x a Hx. rewrite qr_left_length. exact Hx.
  - apply (fold_bound nat (qr_right d) (fun x => length x = length l)); [|reflexivity].
    intros x a Hx. rewrite qr_right_length. exact Hx.
Qed.

(* --- 2-site sweep: EVERY bond is at most the cap afterwards, whatever it was before --- *)
Lemma split_bond_length d chi l ir : length (split_bond d chi l ir) = length l.
Proof. destruct ir. unfold split_bond. apply set_nth_length. Qed.

Lemma split_fold_inv d chi irs : forall l j,
  (In j (map fst irs) \/ nth j l 0%nat <= chi) -> (j < length l)%nat ->
  nth j (fold_left (split_bond d chi) irs l) 0%nat <= chi.
Proof.
  induction irs as [|[i r] irs IH]; intros l j Hj Hlen; cbn [fold_left].
  - destruct Hj as [[]|H]; exact H.
  - apply IH; [|rewrite split_bond_length; exact Hlen].
    unfold split_bond. rewrite nth_set_nth.
    destruct (Nat.eqb j i && Nat.ltb i (length l)) eqn:E.
    + right. lia.
    + destruct Hj as [[Hji|Hin]|Hle]; [|left; exact Hin|right; exact Hle].
      cbn [fst] in Hji. subst j. rewrite Nat.eqb_refl in E. cbn in E.
      apply Nat.ltb_ge in E. lia.
Qed.

Lemma map_fst_combine (idx ranks : list nat) : (length idx <= length ranks)%nat ->
  map fst (combine idx ranks) = idx.
Proof.
  revert ranks. induction idx as [|i idx IH]; intros [|r ranks] H; cbn in *; try reflexivity; try lia.
  f_equal. apply IH. lia.
Qed.

Theorem sweep2_cap d chi right cn ranks bonds :
  (length bonds <= length ranks)%nat ->
  Forall (fun b => b <= chi) (sweep2 d chi right cn ranks bonds).
Proof.
  intros Hr. unfold sweep2.
  set (b := pre_canon d right cn bonds).
  assert (Hb : length b = length bonds) by apply pre_canon_length.
  set (idx := if right then seq 0 (length b) else rev (seq 0 (length b))).
  assert (Hidx : forall j, (j < length b)%nat -> In j idx).
  { intros j Hj. unfold idx. destruct right; [|apply -> in_rev]; apply in_seq; lia. }
  assert (Hlen : length idx = length b).
  { unfold idx. destruct right; [|rewrite rev_length]; apply seq_length. }
  apply Forall_forall. intros x Hx.
  destruct (In_nth _ _ 0%nat Hx) as [j [Hj <-]].
  assert (Hfl : length (fold_left (split_bond d chi) (combine idx ranks) b) = length b).
  { apply (fold_bound _ (split_bond d chi) (fun x => length x = length b)); [|reflexivity].
    intros l a Hl. rewrite split_bond_length. exact Hl. }
  rewrite Hfl in Hj.
  apply split_fold_inv; [|exact Hj]. left. rewrite map_fst_combine by lia. apply Hidx. exact Hj.
Qed.

Lemma sweep2_length d chi right cn ranks bonds : length (sweep2 d chi right cn ranks bonds) = length bonds.
Proof.
  unfold sweep2. rewrite <- (pre_canon_length d right cn bonds).
  set (b := pre_canon d right cn bonds).
  apply (fold_bound _ (split_bond d chi) (fun x => length x = length b)); [|reflexivity].
  intros l a Hl. rewrite split_bond_length. exact Hl.
Qed.

(* solve(): after the last sweep every bond obeys THAT sweep's cap *)
Lemma solve2_snoc d bds sw x k bonds :
  solve2 d bds (sw ++ [x]) k bonds
  = let '(dr, cn, rk) := x in sweep2 d (sched bds (k + length sw)) dr cn rk (solve2 d bds sw k bonds).
Proof.
  revert k bonds. induction sw as [|[[dr cn] rk] sw IH]; intros k bonds; cbn [app solve2 length].
  - destruct x as [[dr cn] rk]. rewrite Nat.add_0_r. reflexivity.
  - rewrite IH. destruct x as [[dr' cn'] rk']. replace (S k + length sw)%nat with (k + S (length sw))%nat by lia. reflexivity.
Qed.

Lemma solve2_length d bds sw : forall k bonds, length (solve2 d bds sw k bonds) = length bonds.
Proof.
  induction sw as [|[[dr cn] rk] sw IH]; intros k bonds; cbn [solve2]; [reflexivity|].
  rewrite IH. apply sweep2_length.
Qed.

Theorem solve2_cap d bds sw dr cn rk bonds :
  (length bonds <= length rk)%nat ->
  Forall (fun b => b <= sched bds (length sw)) (solve2 d bds (sw ++ [(dr, cn, rk)]) 0 bonds).
Proof.
  intros H. rewrite solve2_snoc. cbn [Nat.add]. apply sweep2_cap. rewrite solve2_length. exact H.
Qed.

(* --- 1-site sweep: bonds are expanded to the cap, QR never exceeds max(previous, cap) --- *)
Lemma expand_bound chi B l : Forall (fun b => b <= B) l -> Forall (fun b => b <= Nat.max B chi) (expand chi l).
Proof.
  intros H. unfold expand. apply Forall_forall. intros x Hx. apply in_map_iff in Hx.
  destruct Hx as [y [<- Hy]]. rewrite Forall_forall in H. specialize (H y Hy). lia.
Qed.

Theorem sweep1_cap d chi right cn B bonds : (1 <= B)%nat ->
  Forall (fun b => b <= B) bonds -> Forall (fun b => b <= Nat.max B chi) (sweep1 d chi right cn bonds).
Proof.
  intros HB H. unfold sweep1.
  assert (H1 : (1 <= Nat.max B chi)%nat) by lia.
  pose proof (pre_canon_bound d right cn _ _ H1 (expand_bound chi B bonds H)) as Hp.
  destruct right.
  - apply fold_bound; [intros; apply qr_right_bound; assumption | exact Hp].
  - apply fold_bound; [intros; apply qr_left_bound; assumption | exact Hp].
Qed.

Theorem solve1_cap d bds : forall sw k B bonds, (1 <= B)%nat ->
  Forall (fun b => b <= B) bonds -> (forall c, In c bds -> c <= B) -> bds <> [] ->
  Forall (fun b => b <= B) (solve1 d bds sw k bonds).
Proof.
  induction sw as [|[dr cn] sw IH]; intros k B bonds HB H Hc Hne; cbn [solve1]; [exact H|].
  apply IH; try assumption.
  pose proof (sweep1_cap d (sched bds k) dr cn B bonds HB H) as Hs.
  replace (Nat.max B (sched bds k)) with B in Hs; [exact Hs|].
  pose proof (Hc _ (sched_In bds k Hne)). lia.
Qed.

(* ---- energies bookkeeping --------------------------------------------------------------------- *)
Lemma last_map (A B : Type) (f : A -> B) (l : list A) da : l <> [] -> last (map f l) (f da) = f (last l da).
Proof.
  induction l as [|x l IH]; intros H; [contradiction|].
  destruct l as [|y l]; [reflexivity|]. cbn [map last] in *. apply IH. discriminate.
Qed.

Theorem reported_energy_is_last_total tes : tes <> [] ->
  reported_energy tes = last (last tes []) 0%Z.
Proof.
  intros H. unfold reported_energy, energies_after.
  change 0%Z with (sweep_result []) at 1. rewrite last_map by exact H. reflexivity.
Qed.

(* ---- Z[i] instances ----------------------------------------------------------------------------- *)
Lemma gconj_0 : gconj g0 = g0. Proof. reflexivity. Qed.
Lemma gconj_add a b : gconj (gadd a b) = gadd (gconj a) (gconj b).
Proof. destruct a, b. unfold gconj, gadd. cbn [fst snd]. f_equal. ring. Qed.
Lemma gconj_mul a b : gconj (gmul a b) = gmul (gconj a) (gconj b).
Proof. destruct a, b. unfold gconj, gmul. cbn [fst snd]. f_equal; ring. Qed.
Lemma gconj_invol a : gconj (gconj a) = a.
Proof. destruct a. unfold gconj. cbn [fst snd]. f_equal. ring. Qed.

Definition gnonneg (z : G) : Prop := (snd z = 0 /\ 0 <= fst z)%Z.
Lemma gnonneg_0 : gnonneg g0. Proof. split; cbn; lia. Qed.
Lemma gnonneg_add a b : gnonneg a -> gnonneg b -> gnonneg (gadd a b).
Proof. destruct a, b. unfold gnonneg, gadd. cbn [fst snd]. lia. Qed.
Lemma gnonneg_sq z : gnonneg (gmul (gconj z) z).
Proof. destruct z as [a b]. unfold gnonneg, gmul, gconj. cbn [fst snd]. split; [ring | nia]. Qed.

Definition gherm := herm_form G g0 gadd gmul gconj.
Definition gdmrg := dmrg_form G g0 gadd gmul gconj.
Definition gnorm2 := norm2 G g0 gadd gmul gconj.

(* vectors / matrices from row-major lists *)
Definition lvec (v : list G) : nat -> G := fun i => nth i v g0.
Definition lmat (n : nat) (m : list G) : nat -> nat -> G := fun u l => nth (u * n + l) m g0.

(* sigma_y and psi = (1, i) *)
Definition sigma_y : list G := [(0, 0); (0, -1); (0, 1); (0, 0)]%Z.
Definition psi_1i : list G := [(1, 0); (0, 1)]%Z.

Definition hermitian (n : nat) (H : nat -> nat -> G) : Prop :=
  forall u l, (u < n)%nat -> (l < n)%nat -> gconj (H l u) = H u l.

Lemma sigma_y_hermitian : hermitian 2 (lmat 2 sigma_y).
Proof.
  intros u l Hu Hl. destruct u as [|[|u]]; destruct l as [|[|l]]; try lia; reflexivity.
Qed.

(* the stack (ket, ham, bra) that DMRG built before the alignment fix does NOT denote <psi|H|psi> *)
Lemma dmrg_network_refuted_witness :
  let dimf := fun _ : nat => 2%nat in
  energy_value G g0 g1 gadd gmul gconj dimf KetHamBra 0 1 2 3 (lvec psi_1i) (lmat 2 sigma_y) (fun _ => 0%nat)
    = Some ((-2)%Z, 0%Z)
  /\ gherm 2 (lmat 2 sigma_y) (lvec psi_1i) = (2%Z, 0%Z).
Proof. vm_compute. split; reflexivity. Qed.

Theorem dmrg_energy_network_refuted :
  exists (D : nat) (psi : nat -> G) (H : nat -> nat -> G),
    hermitian D H /\
    energy_value G g0 g1 gadd gmul gconj (fun _ => D) KetHamBra 0 1 2 3 psi H (fun _ => 0%nat)
      <> Some (gherm D H psi).
Proof.
  exists 2%nat, (lvec psi_1i), (lmat 2 sigma_y). split; [exact sigma_y_hermitian|].
  destruct dmrg_network_refuted_witness as [E1 E2]. cbv zeta in E1. rewrite E1.
  unfold gherm in *. rewrite E2. discriminate.
Qed.

Theorem variational_bound_G n r (E0 : G) H B x :
  (forall u l, (u < n)%nat -> (l < n)%nat ->
      H u l = gadd (gmul E0 (if Nat.eqb l u then g1 else g0)) (gram G g0 gadd gmul gconj r B u l)) ->
  gnonneg (gsub (gherm n H x) (gmul E0 (gnorm2 n x))).
Proof.
  exact (variational_bound G g0 g1 gadd gmul gsub gopp G_ring gconj gconj_0 gconj_add gconj_mul
           gnonneg gnonneg_0 gnonneg_add gnonneg_sq n r E0 H B x).
Qed.

Theorem schedule_repeats_last bds k :
  ((k < length bds)%nat -> sched bds k = nth k bds 0%nat) /\ ((length bds <= k)%nat -> sched bds k = last bds 0%nat).
Proof. split; [apply sched_in_range | apply sched_repeats_last]. Qed.

Theorem align_first_vector_meets_upper k hu hl b :
  ket_on_upper KetHamBra k hu hl b = Some true /\ (b <> fresh 0 -> ket_on_upper BraHamKet k hu hl b = Some false).
Proof. split; [apply first_vector_on_upper | apply last_vector_on_lower]. Qed.

(* renorm=True inside the split keeps the state normalised for exactly two of the six cutoff modes *)
Theorem split_renorm_table : forall m,
  (keeps_frobenius_norm m = true <-> (m = CSum2 \/ m = CRsum2)) /\ dmrg2_normalised_after_truncation m = true.
Proof.
  intros m. split; [|destruct m; reflexivity].
  destruct m; cbn; split; intros H; try reflexivity; try discriminate; auto;
    destruct H as [H|H]; discriminate.
Qed.

(* C10 - executable models (definitions only).

   1. `align`: quimb.tensor.tnag.core.tensor_network_align as a label-assignment
      machine over a stack of layers (vectors with a site id, operators with an
      upper and a lower id).  Same branch structure as the code; where the code
      raises the model returns None.
   2. which stack DMRG builds (`dmrg_order`).
   3. bond / cutoff schedule iterator of DMRG._set_bond_dim_seq.
   4. bond dimensions under 2-site updates, QR moves and bond expansion
      (the shape bookkeeping of a sweep).
   5. which number `DMRG.energy` exposes. *)
From Coq Require Import ZArith Arith List Bool PeanoNat.
Import ListNotations.

(* ---- 1. tensor_network_align ------------------------------------------------ *)
Inductive layer := LVec (site : nat) | LOp (upper lower : nat).

(* the generated ids "__ind_a{}__", "__ind_b{}__", ... *)
Definition fresh (j : nat) : nat := 1000 + j.

(* ind_ids = [first id of tns[0]] ++ [fresh 0; fresh 1; ...] *)
Definition ind_id (first j : nat) : nat := match j with O => first | S j' => fresh j' end.

(* tns[0].site_ind_id if it is a vector, else tns[0].lower_ind_id *)
Definition first_id (l : layer) : nat := match l with LVec s => s | LOp _ lo => lo end.

Definition align_one (n i first : nat) (l : layer) : option layer :=
  match l with
  | LVec s =>
      if Nat.eqb i 0 then Some (LVec (ind_id first i))
      else if Nat.eqb i (n - 1) then Some (LVec (ind_id first (i - 1)))
      else None                                   (* ValueError: vector in the middle *)
  | LOp u lo =>
      Some (LOp (if Nat.eqb i 0 then u else ind_id first (i - 1))
                (if Nat.eqb i (n - 1) then lo else ind_id first i))
  end.

Fixpoint align_from (n i first : nat) (ls : list layer) : option (list layer) :=
  match ls with
  | [] => Some []
  | l :: r =>
      match align_one n i first l, align_from n (S i) first r with
      | Some a, Some b => Some (a :: b)
      | _, _ => None
      end
  end.

Definition align (ls : list layer) : option (list layer) :=
  match ls with
  | [] => None                                    (* tns[0] : IndexError *)
  | l0 :: _ => align_from (length ls) 0 (first_id l0) ls
  end.

(* trace=True on a stack of operators: tns[-1].lower_ind_id = tns[0].upper_ind_id
   (the operator's setter raises when its upper and lower ids would coincide) *)
Definition upper_of (l : layer) : option nat := match l with LOp u _ => Some u | LVec _ => None end.
Fixpoint set_last_lower (v : nat) (ls : list layer) : option (list layer) :=
  match ls with
  | [] => None
  | [LOp u _] => if Nat.eqb u v then None else Some [LOp u v]
  | [LVec _] => None
  | l :: r => option_map (cons l) (set_last_lower v r)
  end.
Definition align_trace (ls : list layer) : option (list layer) :=
  match align ls with
  | Some (l0 :: r) => match upper_of l0 with Some u => set_last_lower u (l0 :: r) | None => None end
  | _ => None
  end.

Definition layer_eqb (a b : layer) : bool :=
  match a, b with
  | LVec s, LVec s' => Nat.eqb s s'
  | LOp u l, LOp u' l' => Nat.eqb u u' && Nat.eqb l l'
  | _, _ => false
  end.
Fixpoint layers_eqb (a b : list layer) : bool :=
  match a, b with
  | [], [] => true
  | x :: a', y :: b' => layer_eqb x y && layers_eqb a' b'
  | _, _ => false
  end.
Definition olayers_eqb (a b : option (list layer)) : bool :=
  match a, b with
  | None, None => true
  | Some x, Some y => layers_eqb x y
  | _, _ => false
  end.

(* ---- 2. the stack DMRG.__init__ builds: self._k.align_(self.ham, self._b) ---- *)
Inductive order := KetHamBra | BraHamKet.
Definition dmrg_order : order := BraHamKet.

(* which label of the operator meets the ket after alignment: true = upper *)
Definition ket_on_upper (o : order) (kid hu hl bid : nat) : option bool :=
  match o with
  | KetHamBra =>
      match align [LVec kid; LOp hu hl; LVec bid] with
      | Some [LVec k; LOp u l; LVec b] => Some (Nat.eqb k u)
      | _ => None
      end
  | BraHamKet =>
      match align [LVec bid; LOp hu hl; LVec kid] with
      | Some [LVec b; LOp u l; LVec k] => Some (Nat.eqb k u)
      | _ => None
      end
  end.

(* ---- 3. schedules: itertools.chain(bds, itertools.repeat(bds[-1])) ------------ *)
Definition sched (bds : list nat) (k : nat) : nat := nth k bds (last bds 0).

(* solve(): canonize = not (direction + previous_direction in {"LR", "RL"});
   directions cycle through the sweep sequence; 0 = 'R', 1 = 'L', 2 = none yet *)
Definition dir_at (seq : list nat) (k : nat) : nat := nth (k mod length seq) seq 0.
Definition canonize_at (seq : list nat) (k : nat) : bool :=
  match k with
  | O => true
  | S k' => negb (Nat.eqb (dir_at seq k + dir_at seq k') 1)
  end.

(* ---- 4. bond dimensions ----------------------------------------------------------- *)
(* bonds = [b_0 .. b_{n-2}], b_i joins sites i and i+1; d = physical dimension *)
Fixpoint set_nth (i v : nat) (l : list nat) : list nat :=
  match l, i with
  | [], _ => []
  | _ :: t, O => v :: t
  | x :: t, S i' => x :: set_nth i' v t
  end.
Definition left_dim (bonds : list nat) (i : nat) : nat := match i with O => 1 | S j => nth j bonds 1 end.
Definition right_dim (bonds : list nat) (i : nat) : nat := nth i bonds 1.

(* 2-site update of sites (i, i+1): the split keeps r singular values (r is what
   SVD + cutoff decide, an oracle), never more than the matrix allows nor than max_bond *)
Definition split_bond (d chi : nat) (bonds : list nat) (ir : nat * nat) : list nat :=
  let (i, r) := ir in
  set_nth i (Nat.min (Nat.min r (Nat.min (left_dim bonds i * d) (d * right_dim bonds (S i)))) chi) bonds.

(* QR move of the centre from site i to i+1 (left_canonize_site) / i to i-1 *)
Definition qr_right (d : nat) (bonds : list nat) (i : nat) : list nat :=
  set_nth i (Nat.min (left_dim bonds i * d) (right_dim bonds i)) bonds.
Definition qr_left (d : nat) (bonds : list nat) (i : nat) : list nat :=   (* site i -> bond i-1 *)
  match i with O => bonds | S j => set_nth j (Nat.min (right_dim bonds j) (d * right_dim bonds i)) bonds end.

(* expand_bond_dimension(new): every bond becomes at least `chi`, larger ones are left alone *)
Definition expand (chi : nat) (bonds : list nat) : list nat := map (Nat.max chi) bonds.

(* sweep(canonize=True): 'R' sweeps first right-canonize (QR moves from the right end
   to site 0), 'L' sweeps first left-canonize *)
Definition pre_canon (d : nat) (right canonize : bool) (bonds : list nat) : list nat :=
  if canonize then
    (if right then fold_left (qr_left d) (rev (seq 1 (length bonds))) bonds
     else fold_left (qr_right d) (seq 0 (length bonds)) bonds)
  else bonds.

(* one 2-site sweep: visits every bond once, rightwards (0..n-2) or leftwards *)
Definition sweep2 (d chi : nat) (right canonize : bool) (ranks : list nat) (bonds : list nat) : list nat :=
  let b := pre_canon d right canonize bonds in
  let idx := seq 0 (length b) in
  let idx := if right then idx else rev idx in
  fold_left (split_bond d chi) (combine idx ranks) b.

(* one 1-site sweep: expansion (done by solve()), canonisation, then QR moves across every bond *)
Definition sweep1 (d chi : nat) (right canonize : bool) (bonds : list nat) : list nat :=
  let b := pre_canon d right canonize (expand chi bonds) in
  if right then fold_left (qr_right d) (seq 0 (length b)) b
  else fold_left (qr_left d) (rev (seq 1 (length b))) b.

Definition max_list (l : list nat) : nat := fold_right Nat.max 0 l.

(* solve(): sweep number k uses the cap sched bds k; one entry of `sweeps` per sweep:
   (rightwards?, canonize?, oracle ranks) *)
Fixpoint solve2 (d : nat) (bds : list nat) (sweeps : list (bool * bool * list nat)) (k : nat)
    (bonds : list nat) : list nat :=
  match sweeps with
  | (dr, cn, rk) :: sweeps' => solve2 d bds sweeps' (S k) (sweep2 d (sched bds k) dr cn rk bonds)
  | [] => bonds
  end.

Fixpoint solve1 (d : nat) (bds : list nat) (sweeps : list (bool * bool)) (k : nat) (bonds : list nat) : list nat :=
  match sweeps with
  | (dr, cn) :: sweeps' => solve1 d bds sweeps' (S k) (sweep1 d (sched bds k) dr cn bonds)
  | [] => bonds
  end.

(* ---- 5. energies bookkeeping ------------------------------------------------------- *)
(* sweep() returns tot_ens[-1]; solve() appends it to energies; energy = energies[-1] *)
Definition sweep_result (tot_ens : list Z) : Z := last tot_ens 0%Z.
Definition energies_after (total_energies : list (list Z)) : list Z := map sweep_result total_energies.
Definition reported_energy (total_energies : list (list Z)) : Z := last (energies_after total_energies) 0%Z.

(* ---- 6. truncation options of the 2-site split ---------------------------------------- *)
(* cutoff modes (decomp._CUTOFF_MODE_MAP) and the power `renorm=True` is mapped to (decomp._RENORM_LOOKUP, default 0 =
   no renormalisation).  Only power 2 keeps the Frobenius norm of the two-site tensor = the norm of a canonical-form
   state, so a DMRG update may delegate its renormalisation to the split for sum2 / rsum2 ONLY; the code renormalises
   the factor that absorbed the singular values explicitly, for every mode. *)
Inductive cmode := CAbs | CRel | CSum2 | CRsum2 | CSum1 | CRsum1.
Definition cmode_code (m : cmode) : nat :=
  match m with CAbs => 1 | CRel => 2 | CSum2 => 3 | CRsum2 => 4 | CSum1 => 5 | CRsum1 => 6 end.
Definition renorm_lookup (m : cmode) : nat :=
  match m with CSum2 | CRsum2 => 2 | CSum1 | CRsum1 => 1 | CAbs | CRel => 0 end.
Definition keeps_frobenius_norm (m : cmode) : bool := Nat.eqb (renorm_lookup m) 2.
(* what DMRG._update_local_state_2site does after the split (open boundaries): explicit division by the norm *)
Definition dmrg2_renormalises_explicitly : bool := true.
Definition dmrg2_normalised_after_truncation (m : cmode) : bool :=
  dmrg2_renormalises_explicitly || keeps_frobenius_norm m.

(* ---- 7. the schedules over the life of a DMRG object ------------------------------------- *)
(* DMRG._set_bond_dim_seq / _set_cutoff_seq: bds = (x,) for a scalar else tuple(x);
   self._bond_dims = itertools.chain(bds, itertools.repeat(bds[-1]))   (bds[-1] of () raises IndexError).
   The iterator as a state machine: entries not handed out yet + the value repeated afterwards. *)
Record siter := mk_siter { rest : list nat; tailv : nat }.
Definition mk_iter (bds : list nat) : option siter :=
  match bds with [] => None | _ => Some (mk_siter bds (last bds 0)) end.
Definition next_it (it : siter) : nat * siter :=
  match rest it with
  | [] => (tailv it, it)
  | x :: r => (x, mk_siter r (tailv it))
  end.

(* __init__ : ham.rand_state(self._bond_dim0), _bond_dim0 = bds[0] *)
Definition bond_dim0 (bds : list nat) : option nat := match bds with [] => None | x :: _ => Some x end.

(* solve(bond_dims=None, cutoffs=None, ...): an argument that is given REPLACES the iterator (restart at entry 0),
   otherwise the iterator left by __init__ / the previous call goes on; every sweep performed draws exactly one
   entry of each iterator (direction, max_bond, cutoff = next(...), next(...), next(...)).
   One call = (bond_dims argument, cutoffs argument, number of sweeps performed).  Cutoffs are coded by naturals
   (index into a table of the floats used), the machine never looks inside them. *)
Definition override (it : siter) (o : option (list nat)) : option siter :=
  match o with None => Some it | Some b => mk_iter b end.
Definition call := (option (list nat) * option (list nat) * nat)%type.

Fixpoint draws (n : nat) (b c : siter) : list (nat * nat) * (siter * siter) :=
  match n with
  | O => ([], (b, c))
  | S n' =>
      let (x, b') := next_it b in
      let (y, c') := next_it c in
      let (l, st) := draws n' b' c' in ((x, y) :: l, st)
  end.

(* per call, per sweep: (max_bond, cutoff code) handed to sweep() *)
Fixpoint history (b c : siter) (h : list call) : option (list (list (nat * nat))) :=
  match h with
  | [] => Some []
  | (ob, oc, n) :: h' =>
      match override b ob, override c oc with
      | Some b1, Some c1 =>
          let (l, st) := draws n b1 c1 in
          option_map (cons l) (history (fst st) (snd st) h')
      | _, _ => None
      end
  end.
Definition dmrg_history (bds cuts : list nat) (h : list call) : option (list (list (nat * nat))) :=
  match mk_iter bds, mk_iter cuts with
  | Some b, Some c => history b c h
  | _, _ => None
  end.

(* the closed form the documentation promises: "successive sweeps iterate through, then repeat the final value" *)
Definition sseq := (list nat * nat)%type.            (* current sequence, entries consumed *)
Definition enter (s : sseq) (o : option (list nat)) : sseq := match o with Some b => (b, 0) | None => s end.
Definition caps_at (sb sc : sseq) (n : nat) : list (nat * nat) :=
  map (fun i => (sched (fst sb) (snd sb + i), sched (fst sc) (snd sc + i))) (seq 0 n).
Fixpoint history_spec (sb sc : sseq) (h : list call) : list (list (nat * nat)) :=
  match h with
  | [] => []
  | (ob, oc, n) :: h' =>
      let sb1 := enter sb ob in
      let sc1 := enter sc oc in
      caps_at sb1 sc1 n :: history_spec (fst sb1, snd sb1 + n) (fst sc1, snd sc1 + n) h'
  end.
Definition bstate_after (sb : sseq) (h : list call) : sseq :=
  fold_left (fun s (c : call) => let s1 := enter s (fst (fst c)) in (fst s1, snd s1 + snd c)) h sb.
Definition cstate_after (sc : sseq) (h : list call) : sseq :=
  fold_left (fun s (c : call) => let s1 := enter s (snd (fst c)) in (fst s1, snd s1 + snd c)) h sc.

(* solve(): the sweep loop.  `es` = self.energies, newest first; `script` = what the coming sweeps will return.
   for _ in range(max_sweeps): ... energies.append(sweep(...)); if _check_convergence(tol): break
   _check_convergence: len(energies) >= 2 and abs(energies[-2] - energies[-1]) < tol *)
Definition converged (tol : Z) (es : list Z) : bool :=
  match es with
  | e1 :: e2 :: _ => Z.ltb (Z.abs (e2 - e1)) tol
  | _ => false
  end.
Fixpoint sweeps_done (max_sweeps : nat) (tol : Z) (es script : list Z) : nat :=
  match max_sweeps, script with
  | S m, e :: script' => if converged tol (e :: es) then 1 else S (sweeps_done m tol (e :: es) script')
  | _, _ => 0
  end.

(* 2-site sweeps with the caps handed over explicitly (whatever schedule / history produced them) *)
Fixpoint sweeps2 (d : nat) (l : list (nat * (bool * bool * list nat))) (bonds : list nat) : list nat :=
  match l with
  | [] => bonds
  | (chi, (dr, cn, rk)) :: l' => sweeps2 d l' (sweep2 d chi dr cn rk bonds)
  end.

(* C06 - executable instance over the Gaussian integers Z[i] (Base/TNExec.v):
   `op_dense` computes, by direct evaluation, the right-hand side of
   gate_lazy_sound (operator entries times the values of the ORIGINAL network);
   the correspondence compares it with `dense` of the network the implementation
   produced.  op_entry_is_lazy_gate ties the two by instantiating the theorem. *)
From Coq Require Import ZArith Arith List Bool Lia Ring PeanoNat.
From QV Require Import Base.Sums Base.TN Base.TNExec C06.Gate C06.Model.
Import ListNotations.

Definition gentry (gshape : list nat) (gdata : list G) : gfun G :=
  fun o n => nth (ravel gshape (o ++ n)) gdata g0.

(* sum_beta G[s(inds), beta] * value ts (s[inds := beta])   (transposed: G[beta, s(inds)]) *)
Definition op_entry (dims : list (nat * nat)) (ts : list (tensor G)) (summed inds : list nat)
    (tr : bool) (gshape : list nat) (gdata : list G) (s : nat -> nat) : G :=
  sum_vals G g0 gadd (map (lookup dims) inds)
    (fun beta => gmul (gapply G tr (gentry gshape gdata) (map s inds) beta)
                      (gvalue dims ts summed (upds s inds beta))).

Definition op_dense dims ts (outs inds : list nat) tr gshape gdata : list G :=
  let shape := map (lookup dims) outs in
  let summed := summed_of ts outs in
  map (fun k => op_entry dims ts summed inds tr gshape gdata (asg_of outs (unravel shape k)))
      (seq 0 (fold_right Nat.mul 1 shape)).

(* implementation's network after gating (dims', ts') == operator applied to the network before *)
Definition check_gate dims ts outs inds tr gshape gdata (e : Z) dims' ts' (e' : Z) : bool :=
  glist_eqb (map (gscale (10 ^ e)%Z) (op_dense dims ts outs inds tr gshape gdata))
            (map (gscale (10 ^ e')%Z) (dense dims' ts' outs)).

(* the gate given as an array is the gate tensor of C06/Gate.v *)
Lemma arr_gate_val tr inds bnds gshape gdata s :
  tval G (arr_tensor (gate_labels tr inds bnds) gshape gdata) s
  = tval G (gate_tensor G tr (gentry gshape gdata) inds bnds) s.
Proof.
  rewrite gate_tensor_val. destruct tr; cbn [gate_labels arr_tensor tval gapply]; unfold gentry; rewrite map_app. all: reflexivity.
Qed.

Lemma rename_same : forall inds bnds k, Model.rename inds bnds k = Gate.rename inds bnds k.
Proof. reflexivity. Qed.

Theorem op_entry_is_lazy_gate dims ts inds bnds summed tr gshape gdata s :
  Forall (wf G) ts -> NoDup bnds -> length inds = length bnds ->
  map (lookup dims) bnds = map (lookup dims) inds ->
  (forall b, In b bnds -> ~ In b inds /\ ~ In b summed /\ ~ in_net G ts b) ->
  (forall i, In i inds -> ~ In i summed) ->
  gvalue dims (arr_tensor (gate_labels tr inds bnds) gshape gdata
               :: map (reindex G (Gate.rename inds bnds)) ts) (bnds ++ summed) s
  = op_entry dims ts summed inds tr gshape gdata s.
Proof.
  intros Hw Hnd Hl Hd Hf Ho. unfold gvalue, op_entry.
  rewrite (value_tval_ext G g0 g1 gadd gmul (lookup dims) _ (gate_tensor G tr (gentry gshape gdata) inds bnds))
    by (intros; apply arr_gate_val).
  apply (gate_lazy_sound_dims G g0 g1 gadd gmul gsub gopp G_ring (lookup dims)); assumption.
Qed.

(* ---- (transpose, dagger) options, executed as coded (Model.gate_opts) ---- *)
Definition op_dense_opts dims ts (outs inds : list nat) (transpose dagger : bool) gshape (gdata : list G) : list G :=
  let o := gate_opts transpose dagger in
  op_dense dims ts outs inds (snd o) gshape (if fst o then map TNExec.gconj gdata else gdata).

Definition check_gate_opts dims ts outs inds transpose dagger gshape gdata (e : Z) dims' ts' (e' : Z) : bool :=
  glist_eqb (map (gscale (10 ^ e)%Z) (op_dense_opts dims ts outs inds transpose dagger gshape gdata))
            (map (gscale (10 ^ e')%Z) (dense dims' ts' outs)).

Lemma gentry_conj gshape gdata o n :
  gentry gshape (map TNExec.gconj gdata) o n = Gate.gconj G TNExec.gconj (gentry gshape gdata) o n.
Proof.
  unfold gentry, Gate.gconj. change g0 with (TNExec.gconj g0) at 1. apply map_nth.
Qed.

(* the executed right-hand side, with the options handled as the code does, is the
   value of the network whose gate tensor is built as the code does *)
Theorem op_entry_opts_is_options_gate dims ts inds bnds summed tr dg gshape gdata s :
  Forall (wf G) ts -> NoDup bnds -> length inds = length bnds ->
  map (lookup dims) bnds = map (lookup dims) inds ->
  (forall b, In b bnds -> ~ In b inds /\ ~ In b summed /\ ~ in_net G ts b) ->
  (forall i, In i inds -> ~ In i summed) ->
  gvalue dims (opt_gate_tensor G TNExec.gconj tr dg (gentry gshape gdata) inds bnds
               :: map (reindex G (Gate.rename inds bnds)) ts) (bnds ++ summed) s
  = op_entry dims ts summed inds (snd (gate_opts tr dg)) gshape
             (if fst (gate_opts tr dg) then map TNExec.gconj gdata else gdata) s.
Proof.
  intros Hw Hnd Hl Hd Hf Ho. unfold gvalue, op_entry, opt_gate_tensor.
  destruct (fst (gate_opts tr dg)).
  - rewrite (value_tval_ext G g0 g1 gadd gmul (lookup dims) _
               (gate_tensor G (snd (gate_opts tr dg)) (gentry gshape (map TNExec.gconj gdata)) inds bnds)).
    + apply (gate_lazy_sound_dims G g0 g1 gadd gmul gsub gopp G_ring (lookup dims)); assumption.
    + intros s'. rewrite !gate_tensor_val. destruct (snd (gate_opts tr dg)); cbn [gapply]; symmetry; apply gentry_conj.
  - apply (gate_lazy_sound_dims G g0 g1 gadd gmul gsub gopp G_ring (lookup dims)); assumption.
Qed.

Example op_dense_example :
  (* |psi> = sum_ab T[a,b], gate X on label 0 *)
  op_dense [(0, 2); (1, 2)] [arr_tensor [0; 1] [2; 2] [(1,0); (2,0); (3,0); (4,0)]%Z] [0; 1] [0] false
           [2; 2] [(0,0); (1,0); (1,0); (0,0)]%Z
  = [(3,0); (4,0); (1,0); (2,0)]%Z.
Proof. vm_compute. reflexivity. Qed.

(* C06 - executable model of the gate-application bookkeeping that is pure logic
   (no arithmetic on tensor entries): which routine a (mode, arity, geometry)
   combination is dispatched to, which labels end up where, which tags the new
   gate tensor receives.  Definitions only; mirrors the branch structure of
   quimb/tensor/tn1d/core.py:gate_TN_1D, quimb/tensor/gating.py:
   tensor_network_gate_inds / _tensor_network_gate_inds_basic / _eager_split /
   _lazy_split and quimb/tensor/tnag/core.py:tensor_network_ag_gate. *)
From Coq Require Import Arith List Bool PeanoNat.
Import ListNotations.

(* ---- contract modes ------------------------------------------------------- *)
Inductive cmode :=
| CFalse | CTrue | CSplit | CReduceSplit | CSplitGate | CSwapSplitGate | CAutoSplitGate
| CSwapPlusSplit | CNonlocal | CAutoMps.

Definition all_modes : list cmode :=
  [CFalse; CTrue; CSplit; CReduceSplit; CSplitGate; CSwapSplitGate; CAutoSplitGate; CSwapPlusSplit; CNonlocal; CAutoMps].

Definition cmode_eqb (a b : cmode) : bool :=
  match a, b with
  | CFalse, CFalse | CTrue, CTrue | CSplit, CSplit | CReduceSplit, CReduceSplit | CSplitGate, CSplitGate
  | CSwapSplitGate, CSwapSplitGate | CAutoSplitGate, CAutoSplitGate | CSwapPlusSplit, CSwapPlusSplit
  | CNonlocal, CNonlocal | CAutoMps, CAutoMps => true
  | _, _ => false
  end.

(* what is finally done to the network *)
Inductive action :=
| ASingleSite        (* matrix contracted into the one tensor carrying the label (Tensor.gate) *)
| ALazy              (* gate tensor attached, nothing contracted *)
| AContractAll       (* gate and all touched tensors contracted into one tensor *)
| ASplit             (* contract the pair with the gate, split back *)
| AReduceSplit       (* QR-reduce both tensors, contract reduced factors with the gate, split, reabsorb *)
| ALazySplitGate     (* gate tensor split spatially, attached lazily *)
| ALazySwapSplitGate (* gate tensor split across (as if swapped), attached lazily *)
| AAutoSwap          (* 1D: swap until adjacent, split, (swap back) *)
| ANonlocal          (* 1D: gate -> sub-MPO, applied on the covering range *)
| ARejected.         (* raises *)

Definition action_eqb (a b : action) : bool :=
  match a, b with
  | ASingleSite, ASingleSite | ALazy, ALazy | AContractAll, AContractAll | ASplit, ASplit
  | AReduceSplit, AReduceSplit | ALazySplitGate, ALazySplitGate | ALazySwapSplitGate, ALazySwapSplitGate
  | AAutoSwap, AAutoSwap | ANonlocal, ANonlocal | ARejected, ARejected => true
  | _, _ => false
  end.

(* ---- gate_TN_1D : the 1D front end ------------------------------------------ *)
Inductive route1d := RAutoSwap | RNonlocal | RGeneric (c : cmode).

Definition dispatch_1d (c : cmode) (ng : nat) : route1d :=
  let c1 := match c with
            | CAutoMps => if ng =? 1 then CTrue else if ng =? 2 then CSwapPlusSplit else CNonlocal
            | _ => c
            end in
  match c1 with
  | CSwapPlusSplit => if ng =? 1 then RGeneric CTrue else RAutoSwap
  | CNonlocal => if ng =? 1 then RGeneric CTrue else RNonlocal
  | _ => RGeneric c1
  end.

(* ---- tensor_network_gate_inds : the generic entry ------------------------------ *)
Definition valid_generic (c : cmode) : bool :=
  match c with CSwapPlusSplit | CNonlocal | CAutoMps => false | _ => true end.

Definition is_gatesplit (c : cmode) : bool :=
  match c with CSplitGate | CSwapSplitGate | CAutoSplitGate => true | _ => false end.

Definition truthy (c : cmode) : bool := negb (cmode_eqb c CFalse).

(* local facts about the network the dispatch looks at *)
Record geom := {
  ntids  : nat;   (* distinct tensors carrying the target labels *)
  shared : nat;   (* number of labels shared by the two tensors (only looked at for 2 labels on 2 tensors) *)
  nleft  : nat;   (* labels only on the left tensor  (includes its physical label) *)
  nright : nat;   (* labels only on the right tensor *)
  spat_rank : nat; swap_rank : nat; full_rank : nat  (* ranks seen by 'auto-split-gate' *)
}.

Definition basic_action (c : cmode) (ng : nat) (g : geom) : action :=
  if (ng =? 1) && truthy c then ASingleSite
  else if cmode_eqb c CFalse then ALazy
  else if cmode_eqb c CTrue || (ntids g =? 1) then AContractAll
  else (* _tensor_network_gate_inds_eager_split: `ixl, ixr = inds`, `(bix,) = shared bonds` *)
    if negb (ng =? 2) then ARejected
    else if negb (shared g =? 1) then ARejected
    else if (nleft g <=? 2) && (nright g <=? 2) then ASplit
    else match c with CReduceSplit => AReduceSplit | _ => ASplit end.

Definition lazy_split_action (c : cmode) (g : geom) : action :=
  match c with
  | CSplitGate => ALazySplitGate
  | CSwapSplitGate => ALazySwapSplitGate
  | _ => (* auto *)
    if swap_rank g <? spat_rank g then ALazySwapSplitGate
    else if spat_rank g <? full_rank g then ALazySplitGate
    else ALazy
  end.

Definition generic_action (c : cmode) (ng : nat) (isparam : bool) (g : geom) : action :=
  if negb (valid_generic c) then ARejected
  else
    let gs := is_gatesplit c in
    (* single label: gate splitting = lazy; 3+ labels: auto = lazy *)
    let degrade := (gs && (ng =? 1)) || (cmode_eqb c CAutoSplitGate && (2 <? ng)) in
    let gs := if degrade then false else gs in
    let c := if degrade then CFalse else c in
    (* parametrized gates *)
    if isparam && cmode_eqb c CAutoSplitGate then basic_action CFalse ng g
    else if isparam && truthy c && (1 <? ng) then ARejected
    else if gs then (if 2 <? ng then ARejected else lazy_split_action c g)
    else basic_action c ng g.

(* geometry: 1D vector networks go through gate_TN_1D, everything else straight to the generic entry *)
Definition gate_action (is1d : bool) (c : cmode) (ng : nat) (isparam : bool) (g : geom) : action :=
  if is1d then
    match dispatch_1d c ng with
    | RAutoSwap => if ng =? 2 then AAutoSwap else ARejected   (* `i, j = where` *)
    | RNonlocal => ANonlocal
    | RGeneric c' => generic_action c' ng isparam g
    end
  else generic_action c ng isparam g.

(* ---- label bookkeeping of lazy gating ---------------------------------------- *)
Definition net := list (list nat).       (* labels of each tensor, in tensor order *)

Fixpoint rename (inds bnds : list nat) (k : nat) : nat :=
  match inds, bnds with
  | i :: inds', b :: bnds' => if Nat.eqb k i then b else rename inds' bnds' k
  | _, _ => k
  end.

(* fresh names: rand_uuid is modelled as a counter starting above every label in use *)
Definition fresh_base (tn : net) (inds : list nat) : nat := S (list_max (concat tn ++ inds)).
Definition fresh_labels (tn : net) (inds : list nat) : list nat := seq (fresh_base tn inds) (length inds).

Definition gate_labels (transposed : bool) (inds bnds : list nat) : list nat :=
  if transposed then bnds ++ inds else inds ++ bnds.

(* gate tensor first, then the relabelled tensors in their old order *)
Definition gate_lazy_labels (transposed : bool) (tn : net) (inds : list nat) : net :=
  let bnds := fresh_labels tn inds in
  gate_labels transposed inds bnds :: map (map (rename inds bnds)) tn.

Definition occ (x : nat) (tn : net) : nat := count_occ Nat.eq_dec (concat tn) x.
Definition is_outer (tn : net) (x : nat) : bool := occ x tn =? 1.
Definition outer (tn : net) : list nat := filter (is_outer tn) (nodup Nat.eq_dec (concat tn)).

(* ---- tags ----------------------------------------------------------------------- *)
Inductive pmode := PSites | PRegister | PFalse | PTrue.

Definition mem (x : nat) (l : list nat) : bool := existsb (Nat.eqb x) l.
Fixpoint union (a b : list nat) : list nat :=   (* insertion-ordered, like oset.update *)
  match b with [] => a | x :: b' => union (if mem x a then a else a ++ [x]) b' end.
Definition unions (ls : list (list nat)) : list nat := fold_left union ls [].

Definition is_lazy_mode (c : cmode) : bool :=
  match c with CFalse | CSplitGate | CSwapSplitGate | CAutoSplitGate => true | _ => false end.

(* tags handed to the gate tensor(s) by tensor_network_ag_gate (before 'register') *)
Definition gate_tags (c : cmode) (p : pmode) (user : list nat) (touched : list (list nat)) (site_tags : list nat)
  : list nat :=
  if is_lazy_mode c then
    match p with
    | PTrue => union user (unions touched)
    | PSites => union user (filter (fun t => mem t site_tags) (unions touched))
    | _ => user
    end
  else user.

(* 'register': afterwards the tensor now holding each target label gets that site's tag *)
Definition register_tags (p : pmode) (tags : list nat) (where_tags : list nat) : list nat :=
  match p with PRegister => union tags where_tags | _ => tags end.

(* tag lists of the whole network afterwards.  `tn` = (touched?, tags) per old tensor,
   `gtags` = tag lists of the new gate tensor(s) (lazy modes).  The 1D swap / sub-MPO
   routes receive neither `tags` nor `propagate_tags` from gate_TN_1D. *)
Definition tags_after (a : action) (gtags : list (list nat)) (user : list nat) (tn : list (bool * list nat))
  : list (list nat) :=
  match a with
  | ALazy | ALazySplitGate | ALazySwapSplitGate => gtags ++ map snd tn
  | ASingleSite | ASplit | AReduceSplit => map (fun p : bool * list nat => if fst p then union (snd p) user else snd p) tn
  | AContractAll => union (unions (map snd (filter fst tn))) user :: map snd (filter (fun p : bool * list nat => negb (fst p)) tn)
  | _ => map snd tn
  end.

(* subset / set equality on lists *)
Definition subset (a b : list nat) : bool := forallb (fun x => mem x b) a.
Definition seteq (a b : list nat) : bool := subset a b && subset b a.

Fixpoint nl_eqb (a b : list nat) : bool :=
  match a, b with [], [] => true | x :: a', y :: b' => Nat.eqb x y && nl_eqb a' b' | _, _ => false end.
Fixpoint nll_eqb (a b : list (list nat)) : bool :=
  match a, b with [], [] => true | x :: a', y :: b' => nl_eqb x y && nll_eqb a' b' | _, _ => false end.

(* ---- the isometry flag of the lazy gate tensor (DESIGN F16) --------------------- *)
(* _tensor_network_gate_inds_basic creates the gate tensor with left_inds=bnds
   unconditionally; the model mirrors that *)
Definition lazy_left_inds (bnds : list nat) : option (list nat) := Some bnds.

(* set-of-sets comparison (tensor order is irrelevant) *)
Definition sets_eq (a b : list (list nat)) : bool :=
  forallb (fun l => existsb (seteq l) b) a && forallb (fun l => existsb (seteq l) a) b && (length a =? length b).


(* swap_sites_with_compress(k, k+1): exchange the physical spaces at positions k, k+1.
   A state of the bookkeeping = which original site each position holds. *)
Fixpoint swap_adj (l : list nat) (k : nat) : list nat :=
  match k, l with
  | 0, a :: b :: r => b :: a :: r
  | S k', a :: r => a :: swap_adj r k'
  | _, _ => l
  end.

(* swap_site_to(i, f): js = range(i, f) if i < f else range(i-1, f-1, -1); each j swaps (j, j+1) *)
Definition swap_site_to_js (i f : nat) : list nat :=
  if i <? f then seq i (f - i) else rev (seq f (i - f)).

Definition apply_swaps (l : list nat) (js : list nat) : list nat := fold_left swap_adj js l.

(* gate_with_auto_swap(where=(i, j)): lo<hi sorted, the site hi is moved to lo+1,
   the gate is applied at final_where, then (swap_back) hi is moved back *)
Record auto_plan := { ap_lo : nat; ap_hi : nat; ap_final : nat * nat; ap_absorb_left : bool; ap_need_swap : bool }.

Definition auto_swap_plan (i j : nat) : auto_plan :=
  if j <? i
  then {| ap_lo := j; ap_hi := i; ap_final := (j + 1, j); ap_absorb_left := true; ap_need_swap := negb (j + 1 =? i) |}
  else {| ap_lo := i; ap_hi := j; ap_final := (i, i + 1); ap_absorb_left := false; ap_need_swap := negb (i + 1 =? j) |}.

(* positions -> original sites after the forward part / after the whole routine *)
Definition auto_swap_order (L i j : nat) (swap_back : bool) : list nat :=
  let p := auto_swap_plan i j in
  let l0 := seq 0 L in
  let l1 := if ap_need_swap p then apply_swaps l0 (swap_site_to_js (ap_hi p) (ap_lo p + 1)) else l0 in
  if ap_need_swap p && swap_back then apply_swaps l1 (swap_site_to_js (ap_lo p + 1) (ap_hi p)) else l1.

(* ---- option handling (transpose, dagger) ------------------------------------------ *)
(* tensor_network_gate_inds / gate_simple_long_range: `if dagger: G = conj(G); transpose = True`
   (transpose is IMPLIED by dagger: both flags together still mean G^dagger).
   Result: (conjugate the array?, transposed wiring?) *)
Definition gate_opts (transpose dagger : bool) : bool * bool :=
  if dagger then (true, true) else (false, transpose).

(* tensor_network_gate_sandwich_inds: `Gu, Gl = (conj G, G) if dagger else (G, conj G);
   transpose = dagger or transpose`.  Result: (conjugate upper?, conjugate lower?, transposed wiring?) *)
Definition sandwich_opts (transpose dagger : bool) : bool * bool * bool :=
  (dagger, negb dagger, dagger || transpose).

(* ---- forwarding of the caller's compression options in gate_with_auto_swap ---------- *)
(* every tensor split the routine performs, as (absorb = "left"?, options it is handed):
   d = hi-lo-1 swaps towards (swap_site_to downwards: absorb defaults to "left"), one
   gate_split (absorb per plan), and - with swap_back - d swaps back (absorb "right").
   ALL of them receive the caller's **compress_opts `o`. *)
Definition auto_swap_splits {O : Type} (i j : nat) (swap_back : bool) (o : O) : list (bool * O) :=
  let p := auto_swap_plan i j in
  let d := ap_hi p - ap_lo p - 1 in
  repeat (true, o) d ++ [(ap_absorb_left p, o)] ++ (if swap_back then repeat (false, o) d else []).

Fixpoint bn_eqb (a b : list (bool * nat)) : bool :=
  match a, b with
  | [], [] => true
  | (x, n) :: a', (y, m) :: b' => Bool.eqb x y && Nat.eqb n m && bn_eqb a' b'
  | _, _ => false
  end.

(* ==== round 3 ========================================================================= *)

(* ---- which operator a 1D route applies for the caller's (transpose, dagger) ---------- *)
Inductive opkind := OpG | OpGT | OpGconj | OpGdag.

Definition opkind_eqb (a b : opkind) : bool :=
  match a, b with OpG, OpG | OpGT, OpGT | OpGconj, OpGconj | OpGdag, OpGdag => true | _, _ => false end.

(* (conjugate the array?, transposed wiring?) -> the operator applied *)
Definition op_of (o : bool * bool) : opkind :=
  match o with
  | (false, false) => OpG | (false, true) => OpGT | (true, false) => OpGconj | (true, true) => OpGdag
  end.

(* documented meaning of the two flags: dagger -> G^dagger (transpose is implied), transpose -> G^T *)
Definition spec_op (transpose dagger : bool) : opkind :=
  if dagger then OpGdag else if transpose then OpGT else OpG.

(* gate_TN_1D has no transpose / dagger parameters of its own: both flags travel inside
   the compress_opts keywords.
   RAutoSwap : gate_with_auto_swap(opts..) -> gate_split_(opts..) -> gate_inds(contract='split',
               opts..), where they are named parameters again                  -> gate_opts
   RNonlocal : gate_nonlocal(opts..): `transpose` is a named parameter (wiring of the sub-MPO).
               `dagger` is a named parameter only if the signature has it (nl_dagger, read off the
               implementation's signature by the harness); otherwise it stays in compress_opts
               and nobody reads it
   RGeneric  : TensorNetworkGenVector.gate(opts..) -> gate_inds                -> gate_opts *)
Definition route_opts (nl_dagger : bool) (r : route1d) (transpose dagger : bool) : bool * bool :=
  match r with
  | RNonlocal => if nl_dagger then gate_opts transpose dagger else (false, transpose)
  | _ => gate_opts transpose dagger
  end.

Definition gate_1d_op (nl_dagger : bool) (c : cmode) (ng : nat) (transpose dagger : bool) : opkind :=
  op_of (route_opts nl_dagger (dispatch_1d c ng) transpose dagger).

(* ---- MatrixProductOperator.gate_sandwich_with_auto_swap --------------------------------- *)
(* where=(i, j); absorb := the caller's if given, else "left" for i > j, "right" otherwise -
   written INTO compress_opts (setdefault), so the same absorb and the caller's options go to
   every split: d = hi-lo-1 swaps towards, ONE split of the gated pair (an MPO pair always takes
   the 'split' branch: each tensor has <= 3 unshared labels), and - with swap_back - d swaps back.
   Sites / final gate position are those of auto_swap_plan / auto_swap_order. *)
Definition sandwich_absorb_left (i j : nat) (user : option bool) : bool :=
  match user with Some a => a | None => j <? i end.

Definition sandwich_auto_swap_splits {O : Type} (i j : nat) (user : option bool) (swap_back : bool) (o : O)
  : list (bool * O) :=
  let p := auto_swap_plan i j in
  let d := ap_hi p - ap_lo p - 1 in
  let a := sandwich_absorb_left i j user in
  repeat (a, o) d ++ [(a, o)] ++ (if swap_back then repeat (a, o) d else []).

(* ---- labels of the lazily attached SPLIT gate ('split-gate' / 'swap-split-gate') ---------- *)
(* _tensor_network_gate_inds_lazy_split + gate_inds_with_tn: the two-label gate tensor is
   factorised into two tensors joined by a bond label `bond`; spatially each part keeps
   (target label k, fresh label k), across ('swap') the parts hold (target 0, fresh 1) and
   (target 1, fresh 0).  `bond` is a parameter: the code uses the FIXED name "b". *)
Definition split_gate_labels (swap : bool) (bond : nat) (tn : net) (i0 i1 : nat) : net :=
  let bnds := fresh_labels tn [i0; i1] in
  let b0 := nth 0 bnds 0 in
  let b1 := nth 1 bnds 0 in
  [i0; (if swap then b1 else b0); bond] :: [bond; i1; (if swap then b0 else b1)]
  :: map (map (rename [i0; i1] bnds)) tn.

(* C06 property theorems: statements only (proofs: C06/Gate.v over an ARBITRARY
   commutative ring K, C06/Proofs.v for the bookkeeping model, C06/Exec.v for
   the executable Z[i] instance used by the correspondence). *)
From Coq Require Import ZArith Arith List Bool Ring Permutation.
From QV Require Import Base.Sums Base.TN Base.TNExec C06.Model C06.Gate C06.Proofs C06.Exec.
Import ListNotations.

Section C06.
  Variable K : Type.
  Variables (k0 k1 : K) (kadd kmul ksub : K -> K -> K) (kopp : K -> K).
  Hypothesis Kring : ring_theory k0 k1 kadd kmul ksub kopp eq.
  Variable dim : nat -> nat.
  Notation value := (value K k0 k1 kadd kmul dim).
  Notation wf := (wf K).

  (* LAZY gating (contract=False, gate_inds_with_tn): the network `ts` with open
     target labels `inds` (any number, any order, any dimensions; labels in
     `summed` are contracted) is relabelled inds[k] -> bnds[k] (fresh) and the
     gate tensor with labels (inds, bnds) - or (bnds, inds) when transposed - is
     added.  Over the same open labels the new network denotes the operator
     applied to the old one:  sum_beta G[s(inds), beta] * value ts (s[inds := beta]). *)
  Theorem C06_gate_lazy_sound : forall tr (g : gfun K) ts inds bnds summed s,
    Forall wf ts -> NoDup bnds -> length inds = length bnds ->
    (forall b, In b bnds -> ~ In b inds /\ ~ In b summed /\ ~ in_net K ts b) ->
    (forall i, In i inds -> ~ In i summed) ->
    value (gate_tensor K tr g inds bnds :: map (reindex K (Gate.rename inds bnds)) ts) (bnds ++ summed) s
    = sum_vals K k0 kadd (map dim bnds)
        (fun beta => kmul (gapply K tr g (map s inds) beta) (value ts summed (upds s inds beta))).
  Proof. exact (gate_lazy_sound K k0 k1 kadd kmul ksub kopp Kring dim). Qed.

  (* one target label: matrix-vector multiplication on that leg (and its transpose) *)
  Theorem C06_gate_lazy_sound_one_label : forall tr (g : nat -> nat -> K) ts i b summed s,
    Forall wf ts -> b <> i -> ~ In b summed -> ~ in_net K ts b -> ~ In i summed -> dim b = dim i ->
    value (gate_tensor K tr (fun o n => g (hd 0 o) (hd 0 n)) [i] [b] :: map (reindex K (Gate.rename [i] [b])) ts) (b :: summed) s
    = Sums.sum K k0 kadd (dim i)
        (fun beta => kmul (if tr then g beta (s i) else g (s i) beta) (value ts summed (upd s i beta))).
  Proof. exact (gate_lazy_sound_one K k0 k1 kadd kmul ksub kopp Kring dim). Qed.

  (* EAGER application (contract=True): contracting the gate into the touched
     tensors along ANY contraction path (any pairing order) denotes the same. *)
  Theorem C06_gate_eager_sound : forall tr (g : gfun K) ts inds bnds summed s y,
    Forall wf ts -> NoDup bnds -> length inds = length bnds ->
    (forall b, In b bnds -> ~ In b inds /\ ~ In b summed /\ ~ in_net K ts b) ->
    (forall i, In i inds -> ~ In i summed) ->
    steps K k0 kadd kmul dim (gate_tensor K tr g inds bnds :: map (reindex K (Gate.rename inds bnds)) ts, bnds ++ summed) y ->
    value (fst y) (snd y) s
    = sum_vals K k0 kadd (map dim bnds)
        (fun beta => kmul (gapply K tr g (map s inds) beta) (value ts summed (upds s inds beta))).
  Proof. exact (gate_eager_sound K k0 k1 kadd kmul ksub kopp Kring dim). Qed.

  (* one-site eager short cut (Tensor.gate): the matrix is contracted into the
     single tensor carrying the label; labels unchanged *)
  Theorem C06_tensor_gate_sound : forall tr g i t others summed s,
    wf t -> Forall wf others -> ~ In i summed -> (forall t', In t' others -> ~ In i (tinds K t')) ->
    value (tgate K k0 kadd kmul dim tr g i t :: others) summed s
    = Sums.sum K k0 kadd (dim i)
        (fun beta => kmul (if tr then g beta (s i) else g (s i) beta) (value (t :: others) summed (upd s i beta))).
  Proof. exact (tensor_gate_sound K k0 k1 kadd kmul ksub kopp Kring dim). Qed.

  (* exact factorisation (no truncation) of any tensor of a network preserves its value *)
  Theorem C06_split_exact_sound : forall T a' b' others S' R s,
    wf a' -> wf b' -> Forall wf others ->
    (forall i, In i S' -> ~ In i R) ->
    (forall i t, In i S' -> In t others -> ~ In i (tinds K t)) ->
    (forall s', tval K T s' = tval K (contract2 K k0 kadd kmul dim a' b' S') s') ->
    value (T :: others) R s = value (a' :: b' :: others) (S' ++ R) s.
  Proof. exact (split_exact_sound K k0 k1 kadd kmul ksub kopp Kring dim). Qed.

  (* every mode made of contractions and exact factorisations in any order
     ('split', 'reduce-split', 'split-gate', 'swap-split-gate', sub-operator
     application, without truncation), started from the lazily gated network,
     denotes the operator applied.  Relative to the exact-factorisation contract
     of the decomposition routine (validated numerically by the oracle stream). *)
  Theorem C06_gate_exact_modes_sound : forall tr (g : gfun K) ts inds bnds summed s y,
    Forall wf ts -> NoDup bnds -> length inds = length bnds ->
    (forall b, In b bnds -> ~ In b inds /\ ~ In b summed /\ ~ in_net K ts b) ->
    (forall i, In i inds -> ~ In i summed) ->
    xsteps K k0 kadd kmul dim (gate_tensor K tr g inds bnds :: map (reindex K (Gate.rename inds bnds)) ts, bnds ++ summed) y ->
    value (fst y) (snd y) s
    = sum_vals K k0 kadd (map dim bnds)
        (fun beta => kmul (gapply K tr g (map s inds) beta) (value ts summed (upds s inds beta))).
  Proof. exact (gate_exact_modes_sound K k0 k1 kadd kmul ksub kopp Kring dim). Qed.

  (* swap_sites_with_compress (exact split): the new pair reproduces the old pair
     with the two physical labels exchanged => the network value is the old value
     read with the two labels exchanged *)
  Theorem C06_swap_sound : forall Ti Tj Ti' Tj' others S S' R ki kj s,
    wf Ti -> wf Tj -> wf Ti' -> wf Tj' -> Forall wf others ->
    (forall i, In i S -> ~ In i R) -> (forall i t, In i S -> In t others -> ~ In i (tinds K t)) ->
    (forall i, In i S' -> ~ In i R) -> (forall i t, In i S' -> In t others -> ~ In i (tinds K t)) ->
    ~ In ki R -> ~ In kj R -> (forall t, In t others -> ~ In ki (tinds K t) /\ ~ In kj (tinds K t)) ->
    (forall s', tval K (contract2 K k0 kadd kmul dim Ti' Tj' S') s'
                = tval K (contract2 K k0 kadd kmul dim Ti Tj S) (fun k => s' (swapl ki kj k))) ->
    value (Ti' :: Tj' :: others) (S' ++ R) s = value (Ti :: Tj :: others) (S ++ R) (fun k => s (swapl ki kj k)).
  Proof. exact (swap_sound K k0 k1 kadd kmul ksub kopp Kring dim). Qed.

  (* sandwich gating of an operator-like network: G on the upper labels, H on the
     lower labels (H = conj G gives G X G^dagger) *)
  Theorem C06_gate_sandwich_sound : forall tru trl (gu gl : gfun K) ts up lo bu bl summed s,
    Forall wf ts -> NoDup bu -> NoDup bl -> length up = length bu -> length lo = length bl ->
    (forall b, In b bu -> ~ In b up /\ ~ In b lo /\ ~ In b bl /\ ~ In b summed /\ ~ in_net K ts b) ->
    (forall b, In b bl -> ~ In b up /\ ~ In b lo /\ ~ In b bu /\ ~ In b summed /\ ~ in_net K ts b) ->
    (forall i, In i up -> ~ In i summed /\ ~ In i lo) -> (forall i, In i lo -> ~ In i summed) ->
    value (gate_tensor K trl gl lo bl
           :: map (reindex K (Gate.rename lo bl)) (gate_tensor K tru gu up bu :: map (reindex K (Gate.rename up bu)) ts))
          (bl ++ bu ++ summed) s
    = sum_vals K k0 kadd (map dim bl) (fun gamma => kmul (gapply K trl gl (map s lo) gamma)
        (sum_vals K k0 kadd (map dim bu) (fun beta => kmul (gapply K tru gu (map s up) beta)
          (value ts summed (upds (upds s lo gamma) up beta))))).
  Proof. exact (gate_sandwich_sound K k0 k1 kadd kmul ksub kopp Kring dim). Qed.
  (* OPTIONS (transpose, dagger), all four combinations, gate tensor built as the code
     builds it (Model.gate_opts: dagger conjugates the array and FORCES the transposed
     wiring - transpose is implied by dagger): the operator applied is
     G (ff), G^T (transpose), G^dagger (dagger), G^dagger (both).  kconj is arbitrary. *)
  Variable kconj : K -> K.
  Theorem C06_gate_options_sound : forall tr dg (g : gfun K) ts inds bnds summed s,
    Forall wf ts -> NoDup bnds -> length inds = length bnds ->
    (forall b, In b bnds -> ~ In b inds /\ ~ In b summed /\ ~ in_net K ts b) ->
    (forall i, In i inds -> ~ In i summed) ->
    value (opt_gate_tensor K kconj tr dg g inds bnds :: map (reindex K (Gate.rename inds bnds)) ts) (bnds ++ summed) s
    = sum_vals K k0 kadd (map dim bnds)
        (fun beta => kmul (if dg then kconj (g beta (map s inds)) else if tr then g beta (map s inds) else g (map s inds) beta)
                          (value ts summed (upds s inds beta))).
  Proof. exact (gate_options_sound K k0 k1 kadd kmul ksub kopp Kring dim kconj). Qed.

  (* sandwich options, all four combinations: upper gets G / G^T / G^dagger / G^dagger,
     lower gets conj G / G^dagger / G^T / G^T *)
  Theorem C06_sandwich_options_sound : forall tr dg (g : gfun K) ts up lo bu bl summed s,
    Forall wf ts -> NoDup bu -> NoDup bl -> length up = length bu -> length lo = length bl ->
    (forall b, In b bu -> ~ In b up /\ ~ In b lo /\ ~ In b bl /\ ~ In b summed /\ ~ in_net K ts b) ->
    (forall b, In b bl -> ~ In b up /\ ~ In b lo /\ ~ In b bu /\ ~ In b summed /\ ~ in_net K ts b) ->
    (forall i, In i up -> ~ In i summed /\ ~ In i lo) -> (forall i, In i lo -> ~ In i summed) ->
    value (sandwich_lower K kconj tr dg g lo bl
           :: map (reindex K (Gate.rename lo bl)) (sandwich_upper K kconj tr dg g up bu :: map (reindex K (Gate.rename up bu)) ts))
          (bl ++ bu ++ summed) s
    = sum_vals K k0 kadd (map dim bl) (fun gamma =>
        kmul (if dg then g gamma (map s lo) else if tr then kconj (g gamma (map s lo)) else kconj (g (map s lo) gamma))
        (sum_vals K k0 kadd (map dim bu) (fun beta =>
          kmul (if dg then kconj (g beta (map s up)) else if tr then g beta (map s up) else g (map s up) beta)
               (value ts summed (upds (upds s lo gamma) up beta))))).
  Proof. exact (sandwich_options_sound K k0 k1 kadd kmul ksub kopp Kring dim kconj). Qed.
End C06.

Print Assumptions C06_gate_lazy_sound.
Print Assumptions C06_gate_lazy_sound_one_label.
Print Assumptions C06_gate_eager_sound.
Print Assumptions C06_tensor_gate_sound.
Print Assumptions C06_split_exact_sound.
Print Assumptions C06_gate_exact_modes_sound.
Print Assumptions C06_swap_sound.
Print Assumptions C06_gate_sandwich_sound.
Print Assumptions C06_gate_options_sound.
Print Assumptions C06_sandwich_options_sound.

(* the executable Z[i] instance evaluated by the correspondence IS the theorem's right-hand side *)
Theorem C06_executable_instance : forall dims ts inds bnds summed tr gshape gdata s,
  Forall (wf G) ts -> NoDup bnds -> length inds = length bnds ->
  map (lookup dims) bnds = map (lookup dims) inds ->
  (forall b, In b bnds -> ~ In b inds /\ ~ In b summed /\ ~ in_net G ts b) ->
  (forall i, In i inds -> ~ In i summed) ->
  gvalue dims (arr_tensor (gate_labels tr inds bnds) gshape gdata
               :: map (reindex G (Gate.rename inds bnds)) ts) (bnds ++ summed) s
  = op_entry dims ts summed inds tr gshape gdata s.
Proof. exact op_entry_is_lazy_gate. Qed.
Print Assumptions C06_executable_instance.

(* the executed option handling (what the correspondence evaluates for every
   (transpose, dagger) pair) is the value of the network built as the code builds it *)
Theorem C06_executable_options_instance : forall dims ts inds bnds summed tr dg gshape gdata s,
  Forall (wf G) ts -> NoDup bnds -> length inds = length bnds ->
  map (lookup dims) bnds = map (lookup dims) inds ->
  (forall b, In b bnds -> ~ In b inds /\ ~ In b summed /\ ~ in_net G ts b) ->
  (forall i, In i inds -> ~ In i summed) ->
  gvalue dims (opt_gate_tensor G TNExec.gconj tr dg (gentry gshape gdata) inds bnds
               :: map (reindex G (Gate.rename inds bnds)) ts) (bnds ++ summed) s
  = op_entry dims ts summed inds (snd (gate_opts tr dg)) gshape
             (if fst (gate_opts tr dg) then map TNExec.gconj gdata else gdata) s.
Proof. exact op_entry_opts_is_options_gate. Qed.
Print Assumptions C06_executable_options_instance.

(* the option table itself: (conjugate?, transposed wiring?) for (transpose, dagger) *)
Theorem C06_gate_opts_table :
  gate_opts false false = (false, false) /\ gate_opts true false = (false, true)
  /\ gate_opts false true = (true, true) /\ gate_opts true true = (true, true)
  /\ (forall tr, sandwich_opts tr true = (true, false, true))
  /\ sandwich_opts false false = (false, true, false) /\ sandwich_opts true false = (false, true, true).
Proof. repeat split; try reflexivity. Qed.
Print Assumptions C06_gate_opts_table.

(* ---- label bookkeeping (fresh bond naming, outer labels) ---- *)
Theorem C06_fresh_labels_fresh : forall tn inds b, In b (fresh_labels tn inds) ->
  ~ In b (concat tn) /\ ~ In b inds.
Proof. exact fresh_is_fresh. Qed.
Print Assumptions C06_fresh_labels_fresh.

Theorem C06_gate_label_occurrences : forall tr tn inds x, NoDup inds -> (forall i, In i inds -> occ i tn = 1) ->
  let bnds := fresh_labels tn inds in
  (In x inds -> occ x (gate_lazy_labels tr tn inds) = 1)
  /\ (In x bnds -> occ x (gate_lazy_labels tr tn inds) = 2)
  /\ (~ In x inds -> ~ In x bnds -> occ x (gate_lazy_labels tr tn inds) = occ x tn).
Proof. exact gate_lazy_occ. Qed.
Print Assumptions C06_gate_label_occurrences.

Theorem C06_gate_outer_preserved : forall tr tn inds x, NoDup inds -> (forall i, In i inds -> occ i tn = 1) ->
  is_outer (gate_lazy_labels tr tn inds) x = is_outer tn x.
Proof. exact gate_outer_preserved. Qed.
Print Assumptions C06_gate_outer_preserved.

(* ---- tags ---- *)
Theorem C06_gate_tags_spec : forall c p user touched site_tags x,
  In x (gate_tags c p user touched site_tags) <->
  In x user \/ (is_lazy_mode c = true /\
                match p with
                | PTrue => exists l, In l touched /\ In x l
                | PSites => In x site_tags /\ exists l, In l touched /\ In x l
                | _ => False
                end).
Proof. exact gate_tags_spec. Qed.
Print Assumptions C06_gate_tags_spec.

Theorem C06_register_tags_spec : forall p tags where_tags x,
  In x (register_tags p tags where_tags) <-> In x tags \/ (p = PRegister /\ In x where_tags).
Proof. exact register_tags_spec. Qed.
Print Assumptions C06_register_tags_spec.

(* whatever is done to the network, every tag of every old tensor (site tags in
   particular) is on some tensor afterwards, and untouched tensors keep their tag list *)
Theorem C06_gate_site_tags_preserved : forall a gtags user tn p x, In p tn -> In x (snd p) ->
  exists l, In l (tags_after a gtags user tn) /\ In x l.
Proof. exact tags_never_lost. Qed.
Print Assumptions C06_gate_site_tags_preserved.

Theorem C06_untouched_tags_kept : forall a gtags user tn p, In p tn -> fst p = false ->
  In (snd p) (tags_after a gtags user tn).
Proof. exact untouched_tags_kept. Qed.
Print Assumptions C06_untouched_tags_kept.

(* ---- dispatch ---- *)
Theorem C06_single_site_action : forall is1d c isparam g, (is1d = true \/ valid_generic c = true) ->
  gate_action is1d c 1 isparam g = (if is_lazy_mode c then ALazy else ASingleSite).
Proof. exact single_site_action. Qed.
Print Assumptions C06_single_site_action.

Theorem C06_two_site_action : forall is1d c g, valid_generic c = true ->
  gate_action is1d c 2 false g =
  match c with
  | CFalse => ALazy
  | CTrue => AContractAll
  | CSplit | CReduceSplit =>
      if ntids g =? 1 then AContractAll
      else if negb (shared g =? 1) then ARejected
      else if (nleft g <=? 2) && (nright g <=? 2) then ASplit
      else match c with CReduceSplit => AReduceSplit | _ => ASplit end
  | CSplitGate => ALazySplitGate
  | CSwapSplitGate => ALazySwapSplitGate
  | _ => if swap_rank g <? spat_rank g then ALazySwapSplitGate
         else if spat_rank g <? full_rank g then ALazySplitGate else ALazy
  end.
Proof. exact two_site_action. Qed.
Print Assumptions C06_two_site_action.

Theorem C06_many_site_action : forall is1d c ng g, 3 <= ng ->
  gate_action is1d c ng false g =
  match c with
  | CFalse | CAutoSplitGate => ALazy
  | CTrue => AContractAll
  | CSplit | CReduceSplit => if ntids g =? 1 then AContractAll else ARejected
  | CSplitGate | CSwapSplitGate => ARejected
  | CSwapPlusSplit => ARejected
  | CNonlocal | CAutoMps => if is1d then ANonlocal else ARejected
  end.
Proof. exact many_site_action. Qed.
Print Assumptions C06_many_site_action.

Theorem C06_mps_modes_action : forall ng isparam g, 2 <= ng ->
  gate_action true CSwapPlusSplit ng isparam g = (if ng =? 2 then AAutoSwap else ARejected)
  /\ gate_action true CNonlocal ng isparam g = ANonlocal
  /\ gate_action true CAutoMps ng isparam g = (if ng =? 2 then AAutoSwap else ANonlocal).
Proof. exact mps_modes_action. Qed.
Print Assumptions C06_mps_modes_action.

Theorem C06_mps_modes_rejected_elsewhere : forall c ng isparam g, valid_generic c = false ->
  gate_action false c ng isparam g = ARejected.
Proof. exact mps_modes_rejected_generic. Qed.
Print Assumptions C06_mps_modes_rejected_elsewhere.

Theorem C06_dispatch_1d_table : table_1d =
  [ (CFalse, [RGeneric CFalse; RGeneric CFalse; RGeneric CFalse; RGeneric CFalse]);
    (CTrue, [RGeneric CTrue; RGeneric CTrue; RGeneric CTrue; RGeneric CTrue]);
    (CSplit, [RGeneric CSplit; RGeneric CSplit; RGeneric CSplit; RGeneric CSplit]);
    (CReduceSplit, [RGeneric CReduceSplit; RGeneric CReduceSplit; RGeneric CReduceSplit; RGeneric CReduceSplit]);
    (CSplitGate, [RGeneric CSplitGate; RGeneric CSplitGate; RGeneric CSplitGate; RGeneric CSplitGate]);
    (CSwapSplitGate, [RGeneric CSwapSplitGate; RGeneric CSwapSplitGate; RGeneric CSwapSplitGate; RGeneric CSwapSplitGate]);
    (CAutoSplitGate, [RGeneric CAutoSplitGate; RGeneric CAutoSplitGate; RGeneric CAutoSplitGate; RGeneric CAutoSplitGate]);
    (CSwapPlusSplit, [RGeneric CTrue; RAutoSwap; RAutoSwap; RAutoSwap]);
    (CNonlocal, [RGeneric CTrue; RNonlocal; RNonlocal; RNonlocal]);
    (CAutoMps, [RGeneric CTrue; RAutoSwap; RNonlocal; RNonlocal]) ].
Proof. exact dispatch_1d_table. Qed.
Print Assumptions C06_dispatch_1d_table.

Theorem C06_dispatch_1d_arity : forall c ng, 3 <= ng -> dispatch_1d c ng = dispatch_1d c 3.
Proof. exact dispatch_1d_arity. Qed.
Print Assumptions C06_dispatch_1d_arity.

(* ---- site permutation of swap_site_to / gate_with_auto_swap ---- *)
(* swap_site_to(i, f), f > i: the site at position i ends at f, the sites between move one down *)
Theorem C06_swap_site_to_forward : forall pre a mid post,
  apply_swaps (pre ++ a :: mid ++ post) (swap_site_to_js (length pre) (length pre + length mid)) = pre ++ mid ++ a :: post.
Proof. exact swap_site_to_forward. Qed.
Print Assumptions C06_swap_site_to_forward.

Theorem C06_swap_site_to_backward : forall pre a mid post,
  apply_swaps (pre ++ mid ++ a :: post) (swap_site_to_js (length pre + length mid) (length pre)) = pre ++ a :: mid ++ post.
Proof. exact swap_site_to_backward. Qed.
Print Assumptions C06_swap_site_to_backward.

(* gate_with_auto_swap on an L-site chain, targets (i, j) in either order: without
   swapping back the positions hold 0..lo, hi, lo+1..hi-1, hi+1..L-1; with swap_back the
   original order is restored; the two legs of the gate (final_where, in this
   order) act on the original sites (i, j) - the site-order reversal for i > j included *)
Theorem C06_auto_swap_site_permutation : forall L i j, i <> j -> i < L -> j < L ->
  let p := auto_swap_plan i j in
  let lo := Nat.min i j in let hi := Nat.max i j in
  ap_lo p = lo /\ ap_hi p = hi
  /\ auto_swap_order L i j false = seq 0 (lo + 1) ++ hi :: seq (lo + 1) (hi - lo - 1) ++ seq (hi + 1) (L - hi - 1)
  /\ auto_swap_order L i j true = seq 0 L
  /\ nth (fst (ap_final p)) (auto_swap_order L i j false) L = i
  /\ nth (snd (ap_final p)) (auto_swap_order L i j false) L = j.
Proof. exact auto_swap_order_spec. Qed.
Print Assumptions C06_auto_swap_site_permutation.

(* gate_with_auto_swap hands the caller's compression options to EVERY split it performs
   (swaps towards, gate split, swaps back) - a request for no truncation is honoured throughout *)
Theorem C06_auto_swap_forwards_options : forall (O : Type) i j sb (o : O),
  Forall (fun c => snd c = o) (auto_swap_splits i j sb o)
  /\ length (auto_swap_splits i j sb o)
     = let d := Nat.max i j - Nat.min i j - 1 in if sb then 2 * d + 1 else d + 1.
Proof. exact auto_swap_forwards_options. Qed.
Print Assumptions C06_auto_swap_forwards_options.

(* the lazy gate tensor is flagged as an isometry (left_inds) although the gate is
   not one (DESIGN F16; known finding gate_inds:lazy:left_inds_flag:nonunitary) *)
Theorem C06_gate_flag_refuted : exists a b c d bnds, iso2 a b c d = false /\ lazy_left_inds bnds <> None.
Proof. exact gate_flag_refuted. Qed.
Print Assumptions C06_gate_flag_refuted.

(* ---- round 3 ---- *)
(* (transpose, dagger) through gate_TN_1D: whatever the mode and arity, the route taken
   applies the documented operator (G / G^T / G^dagger / G^dagger) - unless the route is the
   sub-MPO one, dagger is set and gate_nonlocal has no `dagger` parameter (nl = false) *)
Theorem C06_route_options_sound : forall nl c ng tr dg,
  (dispatch_1d c ng = RNonlocal -> nl = true \/ dg = false) ->
  gate_1d_op nl c ng tr dg = spec_op tr dg.
Proof. exact route_options_sound. Qed.
Print Assumptions C06_route_options_sound.

(* known finding gate:mps:contract=nonlocal:dagger=True:ignored - as coded (no `dagger`
   parameter) the sub-MPO route applies G (G^T with transpose) instead of G^dagger *)
Theorem C06_nonlocal_dagger_refuted : forall c ng tr,
  dispatch_1d c ng = RNonlocal ->
  gate_1d_op false c ng tr true = (if tr then OpGT else OpG) /\ gate_1d_op false c ng tr true <> spec_op tr true.
Proof. exact nonlocal_dagger_refuted. Qed.
Print Assumptions C06_nonlocal_dagger_refuted.

(* MatrixProductOperator.gate_sandwich_with_auto_swap hands the caller's compression options
   and ONE absorb choice (the caller's, else by site order) to every split it performs:
   swaps towards, the split of the gated pair, swaps back *)
Theorem C06_sandwich_auto_swap_forwards_options : forall (O : Type) i j user sb (o : O),
  Forall (fun c => c = (sandwich_absorb_left i j user, o)) (sandwich_auto_swap_splits i j user sb o)
  /\ length (sandwich_auto_swap_splits i j user sb o)
     = let d := Nat.max i j - Nat.min i j - 1 in if sb then 2 * d + 1 else d + 1.
Proof. exact sandwich_auto_swap_forwards_options. Qed.
Print Assumptions C06_sandwich_auto_swap_forwards_options.

(* lazily attached SPLIT gate ('split-gate', 'swap-split-gate'): label occurrences are those
   of the un-split lazy gate plus the bond label twice; with a bond label that occurs nowhere
   else the set of open labels is exactly preserved ... *)
Theorem C06_split_gate_label_occurrences : forall sw bond tn i0 i1 x,
  occ x (split_gate_labels sw bond tn i0 i1)
  = occ x (gate_lazy_labels false tn [i0; i1]) + (if Nat.eqb x bond then 2 else 0).
Proof. exact split_gate_occ. Qed.
Print Assumptions C06_split_gate_label_occurrences.

Theorem C06_split_gate_outer_preserved : forall sw bond tn i0 i1 x,
  i0 <> i1 -> occ i0 tn = 1 -> occ i1 tn = 1 ->
  occ bond tn = 0 -> bond <> i0 -> bond <> i1 -> ~ In bond (fresh_labels tn [i0; i1]) ->
  is_outer (split_gate_labels sw bond tn i0 i1) x = is_outer tn x.
Proof. exact split_gate_outer_preserved. Qed.
Print Assumptions C06_split_gate_outer_preserved.

(* ... and a FIXED bond name (the code uses "b") is refuted: a network that already has an open
   label of that name loses it (known finding gate_inds:lazy_split_gate:outer_label_named_b) *)
Theorem C06_split_gate_fixed_bond_refuted : forall sw bond tn i0 i1,
  i0 <> i1 -> occ i0 tn = 1 -> occ i1 tn = 1 ->
  occ bond tn = 1 -> bond <> i0 -> bond <> i1 ->
  is_outer tn bond = true /\ is_outer (split_gate_labels sw bond tn i0 i1) bond = false.
Proof. exact split_gate_fixed_bond_refuted. Qed.
Print Assumptions C06_split_gate_fixed_bond_refuted.

(* non-vacuity: CNOT-like integer gate on labels (1, 0) of a 3-tensor ring network, lazy
   network (gate tensor + relabelled tensors) vs the operator applied to the old values *)
Example C06_example :
  let dims := [(0, 2); (1, 2); (2, 2); (3, 2); (4, 2); (5, 2); (6, 2)] in
  let a := arr_tensor [0; 3] [2; 2] [(1,0); (2,0); (0,1); (1,0)]%Z in
  let b := arr_tensor [3; 1; 4] [2; 2; 2] [(1,0); (0,0); (2,0); (1,0); (0,0); (1,0); (1,1); (3,0)]%Z in
  let c := arr_tensor [4; 2] [2; 2] [(1,0); (1,0); (0,0); (2,0)]%Z in
  let gd := [(1,0); (0,0); (0,0); (0,0);  (0,0); (0,0); (0,0); (2,0);  (0,0); (0,0); (3,0); (0,0);  (0,0); (1,0); (0,0); (0,1)]%Z in
  let lazy := arr_tensor (gate_labels false [1; 0] [5; 6]) [2; 2; 2; 2] gd
              :: map (reindex G (Gate.rename [1; 0] [5; 6])) [a; b; c] in
  dense dims lazy [0; 1; 2] = op_dense dims [a; b; c] [0; 1; 2] [1; 0] false [2; 2; 2; 2] gd
  /\ gate_lazy_labels false [[0; 3]; [3; 1; 4]; [4; 2]] [1; 0] = [[1; 0; 5; 6]; [6; 3]; [3; 5; 4]; [4; 2]]
  /\ outer (gate_lazy_labels true [[0; 3]; [3; 1; 4]; [4; 2]] [1; 0]) = [1; 0; 2]
  /\ auto_swap_order 6 4 1 false = [0; 1; 4; 2; 3; 5] /\ ap_final (auto_swap_plan 4 1) = (2, 1)
  /\ gate_1d_op false CAutoMps 2 true true = OpGdag /\ gate_1d_op false CAutoMps 3 false true = OpG
  /\ sandwich_auto_swap_splits 4 1 None true 7 = [(true, 7); (true, 7); (true, 7); (true, 7); (true, 7)]
  /\ split_gate_labels true 9 [[0; 3]; [3; 1; 4]; [4; 2]] 1 0 = [[1; 6; 9]; [9; 0; 5]; [6; 3]; [3; 5; 4]; [4; 2]].
Proof. vm_compute. repeat split. Qed.

(* C06 - proofs about the bookkeeping model (C06/Model.v).  The algebraic
   theorems (gating = operator multiplication over any commutative ring) are in
   C06/Gate.v. *)
From Coq Require Import ZArith Arith List Bool Lia PeanoNat.
From QV Require Import C06.Model.
Import ListNotations.

(* ---- fresh labels ------------------------------------------------------------- *)
Lemma list_max_ge l x : In x l -> x <= list_max l.
Proof.
  induction l as [|y l IH]; intros H; [contradiction|].
  change (list_max (y :: l)) with (Nat.max y (list_max l)). destruct H as [<-|H]; [lia|].
  specialize (IH H). lia.
Qed.

Lemma fresh_is_fresh tn inds b : In b (fresh_labels tn inds) -> ~ In b (concat tn) /\ ~ In b inds.
Proof.
  unfold fresh_labels, fresh_base. intros H. apply in_seq in H.
  split; intros Hin; (assert (Hle : b <= list_max (concat tn ++ inds)) by (apply list_max_ge; apply in_or_app; auto)); lia.
Qed.

Lemma fresh_nodup tn inds : NoDup (fresh_labels tn inds).
Proof. apply seq_NoDup. Qed.

Lemma fresh_length tn inds : length (fresh_labels tn inds) = length inds.
Proof. apply seq_length. Qed.

(* ---- counting through a relabelling ------------------------------------------- *)
Lemma count_map_iff (f : nat -> nat) x l : (forall k, In k l -> (f k = x <-> k = x)) ->
  count_occ Nat.eq_dec (map f l) x = count_occ Nat.eq_dec l x.
Proof.
  induction l as [|y l IH]; intros H; [reflexivity|]. cbn [map count_occ].
  destruct (Nat.eq_dec (f y) x) as [E|E]; destruct (Nat.eq_dec y x) as [E'|E'].
  - f_equal. apply IH. intros k Hk. apply H. right. exact Hk.
  - exfalso. apply E'. apply H; [left; reflexivity | exact E].
  - exfalso. apply E. apply H; [left; reflexivity | exact E'].
  - apply IH. intros k Hk. apply H. right. exact Hk.
Qed.

Lemma count_map_none (f : nat -> nat) x l : (forall k, In k l -> f k <> x) ->
  count_occ Nat.eq_dec (map f l) x = 0.
Proof.
  intros H. apply count_occ_not_In. intros Hin. apply in_map_iff in Hin. destruct Hin as [k [Hk Hin]].
  exact (H k Hin Hk).
Qed.

Lemma rename_notin inds : forall bnds k, ~ In k inds -> rename inds bnds k = k.
Proof.
  induction inds as [|i inds IH]; intros [|b bnds] k Hk; cbn; try reflexivity.
  destruct (Nat.eqb k i) eqn:E.
  - apply Nat.eqb_eq in E. subst. exfalso. apply Hk. left. reflexivity.
  - apply IH. intros H. apply Hk. right. exact H.
Qed.

Lemma rename_in inds : forall bnds k, length inds = length bnds -> In k inds -> In (rename inds bnds k) bnds.
Proof.
  induction inds as [|i inds IH]; intros [|b bnds] k Hl Hk; cbn in *; try contradiction; try discriminate.
  destruct (Nat.eqb k i) eqn:E; [left; reflexivity|].
  right. apply IH; [lia|]. destruct Hk as [Hk|Hk]; [|exact Hk]. subst. rewrite Nat.eqb_refl in E. discriminate.
Qed.

(* each fresh label is the image of some target label *)
Lemma rename_onto inds : forall bnds b, length inds = length bnds -> NoDup inds -> In b bnds ->
  exists i, In i inds /\ rename inds bnds i = b.
Proof.
  induction inds as [|i inds IH]; intros [|b0 bnds] b Hl Hnd Hb; cbn in *; try contradiction; try discriminate.
  inversion Hnd as [|? ? Hni Hnd']; subst.
  destruct Hb as [<-|Hb].
  - exists i. split; [left; reflexivity|]. rewrite Nat.eqb_refl. reflexivity.
  - destruct (IH bnds b ltac:(lia) Hnd' Hb) as [i' [Hi' Hr]]. exists i'. split; [right; exact Hi'|].
    destruct (Nat.eqb i' i) eqn:E; [|exact Hr]. apply Nat.eqb_eq in E. subst. contradiction.
Qed.

Lemma rename_inj_on inds : forall bnds a b, NoDup inds -> NoDup bnds -> length inds = length bnds ->
  In a inds -> In b inds -> rename inds bnds a = rename inds bnds b -> a = b.
Proof.
  induction inds as [|i0 inds IH]; intros [|b0 bnds] a b Hnd Hndb Hl Ha Hb E; cbn in *; try contradiction; try discriminate.
  inversion Hnd as [|? ? Hni0 Hnd0]; subst. inversion Hndb as [|? ? Hnb0 Hndb0]; subst.
  destruct (Nat.eqb a i0) eqn:Ea; destruct (Nat.eqb b i0) eqn:Eb.
  - apply Nat.eqb_eq in Ea, Eb. congruence.
  - exfalso. apply Nat.eqb_eq in Ea. subst i0. subst b0.
    destruct Hb as [Hb|Hb]; [subst; rewrite Nat.eqb_refl in Eb; discriminate|].
    apply Hnb0. apply rename_in; [lia | exact Hb].
  - exfalso. apply Nat.eqb_eq in Eb. subst i0. subst b0.
    destruct Ha as [Ha|Ha]; [subst; rewrite Nat.eqb_refl in Ea; discriminate|].
    apply Hnb0. apply rename_in; [lia | exact Ha].
  - apply Nat.eqb_neq in Ea, Eb.
    destruct Ha as [Ha|Ha]; [congruence|]. destruct Hb as [Hb|Hb]; [congruence|].
    apply (IH bnds); try assumption; lia.
Qed.

(* the occurrences of a fresh label after relabelling are exactly those of its target before *)
Lemma count_map_rename inds bnds i x l : NoDup inds -> NoDup bnds -> length inds = length bnds ->
  In i inds -> rename inds bnds i = x -> ~ In x l ->
  count_occ Nat.eq_dec (map (rename inds bnds) l) x = count_occ Nat.eq_dec l i.
Proof.
  intros Hnd Hndb Hl Hi Hr. induction l as [|y l IH]; intros Hnx; [reflexivity|]. cbn [map count_occ].
  assert (Hnx' : ~ In x l) by (intros H; apply Hnx; right; exact H).
  assert (Hyx : y <> x) by (intros ->; apply Hnx; left; reflexivity).
  specialize (IH Hnx').
  destruct (Nat.eq_dec (rename inds bnds y) x) as [E1|E1]; destruct (Nat.eq_dec y i) as [E2|E2]; try (rewrite IH; reflexivity).
  - exfalso. destruct (in_dec Nat.eq_dec y inds) as [Hy|Hy].
    + apply E2. apply (rename_inj_on inds bnds); try assumption. congruence.
    + rewrite rename_notin in E1 by exact Hy. contradiction.
  - exfalso. subst y. contradiction.
Qed.

Lemma count_app x a b : count_occ Nat.eq_dec (a ++ b) x = count_occ Nat.eq_dec a x + count_occ Nat.eq_dec b x.
Proof. apply count_occ_app. Qed.

Lemma count_nodup_in x l : NoDup l -> In x l -> count_occ Nat.eq_dec l x = 1.
Proof. intros Hnd Hin. pose proof (proj1 (NoDup_count_occ Nat.eq_dec l) Hnd x). pose proof (proj1 (count_occ_In Nat.eq_dec l x) Hin). lia. Qed.

Lemma count_gate_labels tr x inds bnds :
  count_occ Nat.eq_dec (gate_labels tr inds bnds) x = count_occ Nat.eq_dec inds x + count_occ Nat.eq_dec bnds x.
Proof. destruct tr; cbn; rewrite count_app; lia. Qed.

(* occurrences after lazy gating, for ANY network, target labels and transposition:
   target labels occur once (on the gate), fresh labels at least twice, every
   other label as often as before *)
Theorem gate_lazy_occ tr tn inds x : NoDup inds -> (forall i, In i inds -> occ i tn = 1) ->
  let bnds := fresh_labels tn inds in
  (In x inds -> occ x (gate_lazy_labels tr tn inds) = 1)
  /\ (In x bnds -> occ x (gate_lazy_labels tr tn inds) = 2)
  /\ (~ In x inds -> ~ In x bnds -> occ x (gate_lazy_labels tr tn inds) = occ x tn).
Proof.
  intros Hnd Hone bnds.
  assert (Hl : length inds = length bnds) by (symmetry; apply fresh_length).
  assert (Hfr : forall b, In b bnds -> ~ In b (concat tn) /\ ~ In b inds) by (apply fresh_is_fresh).
  unfold occ, gate_lazy_labels. fold bnds. cbn [concat]. rewrite count_app, count_gate_labels, <- concat_map.
  repeat split.
  - intros Hx.
    rewrite (count_nodup_in x inds Hnd Hx).
    rewrite (proj1 (count_occ_not_In Nat.eq_dec bnds x)) by (intros Hb; destruct (Hfr x Hb) as [_ Hn]; exact (Hn Hx)).
    rewrite count_map_none; [reflexivity|].
    intros k _ Hk. destruct (in_dec Nat.eq_dec k inds) as [Hin|Hnin].
    + pose proof (rename_in inds bnds k Hl Hin) as Hb. rewrite Hk in Hb. destruct (Hfr x Hb) as [_ Hn]. exact (Hn Hx).
    + rewrite rename_notin in Hk by exact Hnin. subst. contradiction.
  - intros Hx. destruct (Hfr x Hx) as [Hnc Hni].
    rewrite (proj1 (count_occ_not_In Nat.eq_dec inds x) Hni).
    rewrite (count_nodup_in x bnds (fresh_nodup tn inds) Hx).
    destruct (rename_onto inds bnds x Hl Hnd Hx) as [i [Hi Hr]].
    rewrite (count_map_rename inds bnds i x (concat tn) Hnd (fresh_nodup tn inds) Hl Hi Hr Hnc).
    pose proof (Hone i Hi) as Ho. unfold occ in Ho. rewrite Ho. reflexivity.
  - intros Hni Hnb.
    rewrite (proj1 (count_occ_not_In Nat.eq_dec inds x) Hni), (proj1 (count_occ_not_In Nat.eq_dec bnds x) Hnb).
    cbn [Nat.add]. apply count_map_iff. intros k _. split.
    + intros Hk. destruct (in_dec Nat.eq_dec k inds) as [Hin|Hnin].
      * exfalso. apply Hnb. rewrite <- Hk. apply rename_in; assumption.
      * rewrite rename_notin in Hk by exact Hnin. exact Hk.
    + intros ->. apply rename_notin. exact Hni.
Qed.

(* the set of outer (open) labels is exactly preserved by lazy gating *)
Theorem gate_outer_preserved tr tn inds x : NoDup inds -> (forall i, In i inds -> occ i tn = 1) ->
  is_outer (gate_lazy_labels tr tn inds) x = is_outer tn x.
Proof.
  intros Hnd Hone. destruct (gate_lazy_occ tr tn inds x Hnd Hone) as [H1 [H2 H3]]. unfold is_outer.
  destruct (in_dec Nat.eq_dec x inds) as [Hi|Hi].
  - rewrite (H1 Hi), (Hone x Hi). reflexivity.
  - destruct (in_dec Nat.eq_dec x (fresh_labels tn inds)) as [Hb|Hb].
    + rewrite (H2 Hb). destruct (fresh_is_fresh tn inds x Hb) as [Hnc _].
      unfold occ. rewrite (proj1 (count_occ_not_In Nat.eq_dec (concat tn) x) Hnc). reflexivity.
    + rewrite (H3 Hi Hb). reflexivity.
Qed.

(* the fresh bond labels are inner labels joining the gate to the old network *)
Theorem gate_bonds_inner tr tn inds b : NoDup inds -> (forall i, In i inds -> occ i tn = 1) ->
  In b (fresh_labels tn inds) -> occ b (gate_lazy_labels tr tn inds) = 2 /\ occ b tn = 0.
Proof.
  intros Hnd Hone Hb. destruct (gate_lazy_occ tr tn inds b Hnd Hone) as [_ [H2 _]]. split; [exact (H2 Hb)|].
  destruct (fresh_is_fresh tn inds b Hb) as [Hnc _]. unfold occ. apply count_occ_not_In. exact Hnc.
Qed.

(* ---- tags ------------------------------------------------------------------------ *)
Lemma mem_In x l : mem x l = true <-> In x l.
Proof.
  unfold mem. rewrite existsb_exists. split.
  - intros [y [Hy E]]. apply Nat.eqb_eq in E. subst. exact Hy.
  - intros H. exists x. split; [exact H | apply Nat.eqb_refl].
Qed.

Lemma union_In b : forall a x, In x (union a b) <-> In x a \/ In x b.
Proof.
  induction b as [|y b IH]; intros a x; cbn [union]; [cbn [In]; tauto|].
  rewrite IH. destruct (mem y a) eqn:E.
  - apply mem_In in E. split; [intros [H|H]; auto; right; right; exact H | intros [H|[H|H]]; auto; subst; auto].
  - rewrite in_app_iff. cbn [In]. tauto.
Qed.

Lemma unions_In ls x : In x (unions ls) <-> exists l, In l ls /\ In x l.
Proof.
  unfold unions. assert (G : forall acc, In x (fold_left union ls acc) <-> In x acc \/ exists l, In l ls /\ In x l).
  { induction ls as [|l ls IH]; intros acc; cbn [fold_left].
    - split; [auto | intros [H|[l [[] _]]]; exact H].
    - rewrite IH, union_In. split.
      + intros [[H|H]|[l' [Hl' Hx]]]; auto; right; [exists l | exists l']; cbn; auto.
      + intros [H|[l' [[<-|Hl'] Hx]]]; auto. right. exists l'. auto. }
  rewrite G. cbn [In]. tauto.
Qed.

(* what the new gate tensor is tagged with, for every mode / option / tag sets *)
Theorem gate_tags_spec c p user touched site_tags x :
  In x (gate_tags c p user touched site_tags) <->
  In x user \/ (is_lazy_mode c = true /\
                match p with
                | PTrue => exists l, In l touched /\ In x l
                | PSites => In x site_tags /\ exists l, In l touched /\ In x l
                | _ => False
                end).
Proof.
  unfold gate_tags. destruct (is_lazy_mode c); [|intuition congruence].
  destruct p; rewrite ?union_In, ?filter_In, ?unions_In, ?mem_In; intuition.
Qed.

(* user tags always reach the gate tensor; with propagate_tags='sites' nothing but
   user tags and site tags does; with False nothing but user tags *)
Corollary gate_tags_user c p user touched site_tags x : In x user -> In x (gate_tags c p user touched site_tags).
Proof. intros H. apply gate_tags_spec. left. exact H. Qed.

Corollary gate_tags_sites_only c user touched site_tags x :
  In x (gate_tags c PSites user touched site_tags) -> In x user \/ In x site_tags.
Proof. intros H. apply gate_tags_spec in H. destruct H as [H|[_ [H _]]]; auto. Qed.

Corollary gate_tags_false c user touched site_tags x :
  In x (gate_tags c PFalse user touched site_tags) <-> In x user.
Proof. rewrite gate_tags_spec. intuition. Qed.

Corollary register_tags_spec p tags where_tags x :
  In x (register_tags p tags where_tags) <-> In x tags \/ (p = PRegister /\ In x where_tags).
Proof. destruct p; cbn [register_tags]; rewrite ?union_In; intuition congruence. Qed.

(* whatever the action, no tensor's tag is ever lost: every tag of every old
   tensor is on some tensor afterwards (site tags in particular), and an
   untouched tensor keeps exactly its tag list *)
Theorem tags_never_lost a gtags user tn p x : In p tn -> In x (snd p) ->
  exists l, In l (tags_after a gtags user tn) /\ In x l.
Proof.
  intros Hp Hx.
  assert (Hplain : exists l, In l (map snd tn) /\ In x l) by (exists (snd p); split; [apply in_map; exact Hp | exact Hx]).
  assert (Hsingle : exists l, In l (map (fun p : bool * list nat => if fst p then union (snd p) user else snd p) tn) /\ In x l).
  { exists (if fst p then union (snd p) user else snd p). split.
    - apply (in_map (fun p : bool * list nat => if fst p then union (snd p) user else snd p)). exact Hp.
    - destruct (fst p); [apply union_In; left|]; exact Hx. }
  destruct a; cbn [tags_after]; try exact Hplain; try exact Hsingle.
  - destruct Hplain as [l [Hl Hxl]]. exists l. split; [apply in_or_app; right; exact Hl | exact Hxl].
  - destruct (fst p) eqn:E.
    + eexists. split; [left; reflexivity|]. apply union_In. left. apply unions_In. exists (snd p). split; [|exact Hx].
      apply in_map. apply filter_In. split; assumption.
    + exists (snd p). split; [|exact Hx]. right. apply in_map. apply filter_In. split; [exact Hp | rewrite E; reflexivity].
  - destruct Hplain as [l [Hl Hxl]]. exists l. split; [apply in_or_app; right; exact Hl | exact Hxl].
  - destruct Hplain as [l [Hl Hxl]]. exists l. split; [apply in_or_app; right; exact Hl | exact Hxl].
Qed.

Theorem untouched_tags_kept a gtags user tn p : In p tn -> fst p = false -> In (snd p) (tags_after a gtags user tn).
Proof.
  intros Hp E.
  assert (Hplain : In (snd p) (map snd tn)) by (apply in_map; exact Hp).
  assert (Hsingle : In (snd p) (map (fun p : bool * list nat => if fst p then union (snd p) user else snd p) tn)).
  { apply in_map_iff. exists p. rewrite E. split; [reflexivity | exact Hp]. }
  destruct a; cbn [tags_after]; try exact Hplain; try exact Hsingle; try (apply in_or_app; right; exact Hplain).
  right. apply in_map. apply filter_In. split; [exact Hp | rewrite E; reflexivity].
Qed.

(* ---- dispatch --------------------------------------------------------------------- *)
(* one target label: never a split, never rejected (for modes the geometry knows) *)
Theorem single_site_action is1d c isparam g : (is1d = true \/ valid_generic c = true) ->
  gate_action is1d c 1 isparam g = (if is_lazy_mode c then ALazy else ASingleSite).
Proof.
  intros H. destruct is1d; destruct c; destruct isparam; cbn; try reflexivity;
    destruct H as [H|H]; cbn in H; congruence.
Qed.

(* the MPS-preserving 1D modes *)
Theorem mps_modes_action ng isparam g : 2 <= ng ->
  gate_action true CSwapPlusSplit ng isparam g = (if ng =? 2 then AAutoSwap else ARejected)
  /\ gate_action true CNonlocal ng isparam g = ANonlocal
  /\ gate_action true CAutoMps ng isparam g = (if ng =? 2 then AAutoSwap else ANonlocal).
Proof.
  intros H. destruct ng as [|[|[|n]]]; try lia; cbn; repeat split; reflexivity.
Qed.

(* outside 1D the three MPS modes are rejected, whatever else *)
Theorem mps_modes_rejected_generic c ng isparam g : valid_generic c = false ->
  gate_action false c ng isparam g = ARejected.
Proof. intros H. unfold gate_action, generic_action. rewrite H. reflexivity. Qed.

(* three or more labels: the pair-splitting modes reject unless everything sits on
   one tensor; gate-splitting modes reject; 'auto-split-gate' degrades to lazy *)
Theorem many_site_action is1d c ng g : 3 <= ng ->
  gate_action is1d c ng false g =
  match c with
  | CFalse | CAutoSplitGate => ALazy
  | CTrue => AContractAll
  | CSplit | CReduceSplit => if ntids g =? 1 then AContractAll else ARejected
  | CSplitGate | CSwapSplitGate => ARejected
  | CSwapPlusSplit => ARejected
  | CNonlocal | CAutoMps => if is1d then ANonlocal else ARejected
  end.
Proof.
  intros H. destruct ng as [|[|[|n]]]; try lia.
  destruct is1d; destruct c; cbn; try reflexivity; destruct (ntids g =? 1); reflexivity.
Qed.

(* two labels, the generic modes *)
Theorem two_site_action is1d c g : valid_generic c = true ->
  gate_action is1d c 2 false g =
  match c with
  | CFalse => ALazy
  | CTrue => AContractAll
  | CSplit | CReduceSplit =>
      if ntids g =? 1 then AContractAll
      else if negb (shared g =? 1) then ARejected
      else if (nleft g <=? 2) && (nright g <=? 2) then ASplit
      else match c with CReduceSplit => AReduceSplit | _ => ASplit end
  | CSplitGate => ALazySplitGate
  | CSwapSplitGate => ALazySwapSplitGate
  | _ => if swap_rank g <? spat_rank g then ALazySwapSplitGate
         else if spat_rank g <? full_rank g then ALazySplitGate else ALazy
  end.
Proof.
  intros H. destruct is1d; destruct c; cbn in *; try discriminate; try reflexivity.
Qed.

(* the whole finite front-end table (mode x arity 1..4) of gate_TN_1D *)
Definition table_1d : list (cmode * list route1d) :=
  map (fun c => (c, map (dispatch_1d c) [1; 2; 3; 4])) all_modes.

Theorem dispatch_1d_table : table_1d =
  [ (CFalse, [RGeneric CFalse; RGeneric CFalse; RGeneric CFalse; RGeneric CFalse]);
    (CTrue, [RGeneric CTrue; RGeneric CTrue; RGeneric CTrue; RGeneric CTrue]);
    (CSplit, [RGeneric CSplit; RGeneric CSplit; RGeneric CSplit; RGeneric CSplit]);
    (CReduceSplit, [RGeneric CReduceSplit; RGeneric CReduceSplit; RGeneric CReduceSplit; RGeneric CReduceSplit]);
    (CSplitGate, [RGeneric CSplitGate; RGeneric CSplitGate; RGeneric CSplitGate; RGeneric CSplitGate]);
    (CSwapSplitGate, [RGeneric CSwapSplitGate; RGeneric CSwapSplitGate; RGeneric CSwapSplitGate; RGeneric CSwapSplitGate]);
    (CAutoSplitGate, [RGeneric CAutoSplitGate; RGeneric CAutoSplitGate; RGeneric CAutoSplitGate; RGeneric CAutoSplitGate]);
    (CSwapPlusSplit, [RGeneric CTrue; RAutoSwap; RAutoSwap; RAutoSwap]);
    (CNonlocal, [RGeneric CTrue; RNonlocal; RNonlocal; RNonlocal]);
    (CAutoMps, [RGeneric CTrue; RAutoSwap; RNonlocal; RNonlocal]) ].
Proof. vm_compute. reflexivity. Qed.

(* beyond the table: the front end depends on the arity only through {1, 2, >=3} *)
Theorem dispatch_1d_arity c ng : 3 <= ng -> dispatch_1d c ng = dispatch_1d c 3.
Proof. intros H. destruct ng as [|[|[|n]]]; try lia. destruct c; reflexivity. Qed.

(* ---- the isometry flag (DESIGN F16) ------------------------------------------------ *)
(* 2x2 integer matrices: G^T G = 1 ? *)
Definition iso2 (a b c d : Z) : bool :=
  ((a * a + c * c =? 1) && (a * b + c * d =? 0) && (b * b + d * d =? 1))%Z.

(* the lazy gate tensor is flagged with left_inds although the gate is not an isometry *)
Theorem gate_flag_refuted : exists a b c d bnds,
  iso2 a b c d = false /\ lazy_left_inds bnds <> None.
Proof. exists 1%Z, 1%Z, 0%Z, 1%Z, [7]. split; [reflexivity | discriminate]. Qed.

(* ---- site permutation of swap_site_to / gate_with_auto_swap ---------------------- *)

Lemma swap_adj_app pre : forall a b r, swap_adj (pre ++ a :: b :: r) (length pre) = pre ++ b :: a :: r.
Proof. induction pre as [|x pre IH]; intros a b r; cbn; [reflexivity|]. rewrite IH. reflexivity. Qed.

(* moving the site at position |pre| forward past `mid` *)
Theorem move_forward mid : forall pre a post,
  apply_swaps (pre ++ a :: mid ++ post) (seq (length pre) (length mid)) = pre ++ mid ++ a :: post.
Proof.
  induction mid as [|m mid IH]; intros pre a post; cbn [length seq app apply_swaps fold_left]; [reflexivity|].
  rewrite swap_adj_app. fold (apply_swaps (pre ++ m :: a :: mid ++ post) (seq (S (length pre)) (length mid))).
  replace (pre ++ m :: a :: mid ++ post) with ((pre ++ [m]) ++ a :: mid ++ post) by (rewrite <- app_assoc; reflexivity).
  replace (S (length pre)) with (length (pre ++ [m])) by (rewrite app_length; cbn; lia).
  rewrite IH. rewrite <- app_assoc. reflexivity.
Qed.

(* moving the site at position |pre|+|mid| backward to position |pre| *)
Theorem move_backward mid : forall pre a post,
  apply_swaps (pre ++ mid ++ a :: post) (rev (seq (length pre) (length mid))) = pre ++ a :: mid ++ post.
Proof.
  induction mid as [|m mid IH] using rev_ind; intros pre a post; [reflexivity|].
  rewrite app_length. cbn [length]. rewrite Nat.add_1_r. rewrite seq_S, rev_app_distr. cbn [rev app].
  unfold apply_swaps. cbn [fold_left].
  replace (pre ++ (mid ++ [m]) ++ a :: post) with ((pre ++ mid) ++ m :: a :: post) by (rewrite <- !app_assoc; reflexivity).
  replace (length pre + length mid) with (length (pre ++ mid)) by (apply app_length).
  rewrite swap_adj_app. fold (apply_swaps ((pre ++ mid) ++ a :: m :: post) (rev (seq (length pre) (length mid)))).
  rewrite <- app_assoc. rewrite (IH pre a (m :: post)). rewrite <- app_assoc. reflexivity.
Qed.

Theorem swap_site_to_forward pre a mid post :
  apply_swaps (pre ++ a :: mid ++ post) (swap_site_to_js (length pre) (length pre + length mid)) = pre ++ mid ++ a :: post.
Proof.
  unfold swap_site_to_js. destruct (length pre <? length pre + length mid) eqn:E.
  - replace (length pre + length mid - length pre) with (length mid) by lia. apply move_forward.
  - apply Nat.ltb_ge in E. assert (length mid = 0) by lia. destruct mid; [|discriminate].
    rewrite Nat.add_0_r, Nat.sub_diag. reflexivity.
Qed.

Theorem swap_site_to_backward pre a mid post :
  apply_swaps (pre ++ mid ++ a :: post) (swap_site_to_js (length pre + length mid) (length pre)) = pre ++ a :: mid ++ post.
Proof.
  unfold swap_site_to_js. destruct (length pre + length mid <? length pre) eqn:E.
  - apply Nat.ltb_lt in E. lia.
  - replace (length pre + length mid - length pre) with (length mid) by lia. apply move_backward.
Qed.

(* there and back again *)
Corollary swap_site_to_roundtrip pre a mid post :
  apply_swaps (apply_swaps (pre ++ mid ++ a :: post) (swap_site_to_js (length pre + length mid) (length pre)))
              (swap_site_to_js (length pre) (length pre + length mid)) = pre ++ mid ++ a :: post.
Proof. rewrite swap_site_to_backward. apply swap_site_to_forward. Qed.

Lemma seq_split3 L lo hi : lo < hi -> hi < L ->
  seq 0 L = seq 0 (lo + 1) ++ seq (lo + 1) (hi - lo - 1) ++ hi :: seq (hi + 1) (L - hi - 1).
Proof.
  intros H1 H2.
  assert (E : L = (lo + 1) + ((hi - lo - 1) + (1 + (L - hi - 1)))) by lia.
  rewrite E at 1. rewrite (seq_app (lo + 1)), (seq_app (hi - lo - 1)). cbn [seq Nat.add].
  replace (lo + 1 + (hi - lo - 1)) with hi by lia. replace (S hi) with (hi + 1) by lia. reflexivity.
Qed.

(* gate_with_auto_swap on an L-site chain, targets (i, j) in either order:
   without swapping back the positions hold  0..lo, hi, lo+1..hi-1, hi+1..L-1 ;
   with swap_back the original order is restored; in both cases the two legs of
   the gate (final_where, in this order) sit on the original sites (i, j). *)
Theorem auto_swap_order_spec L i j : i <> j -> i < L -> j < L ->
  let p := auto_swap_plan i j in
  let lo := Nat.min i j in let hi := Nat.max i j in
  ap_lo p = lo /\ ap_hi p = hi
  /\ auto_swap_order L i j false = seq 0 (lo + 1) ++ hi :: seq (lo + 1) (hi - lo - 1) ++ seq (hi + 1) (L - hi - 1)
  /\ auto_swap_order L i j true = seq 0 L
  /\ nth (fst (ap_final p)) (auto_swap_order L i j false) L = i
  /\ nth (snd (ap_final p)) (auto_swap_order L i j false) L = j.
Proof.
  intros Hne Hi Hj p lo hi.
  assert (Hlo : ap_lo p = lo /\ ap_hi p = hi).
  { unfold p, auto_swap_plan, lo, hi. destruct (j <? i) eqn:E; cbn; [apply Nat.ltb_lt in E | apply Nat.ltb_ge in E]; lia. }
  destruct Hlo as [Hlo Hhi].
  assert (Hlt : lo < hi) by (unfold lo, hi; lia). assert (HhL : hi < L) by (unfold hi; lia).
  assert (Hneed : ap_need_swap p = negb (lo + 1 =? hi)).
  { unfold p, auto_swap_plan, lo, hi. destruct (j <? i) eqn:E; cbn; [apply Nat.ltb_lt in E | apply Nat.ltb_ge in E];
      f_equal; f_equal; lia. }
  assert (Hfwd : auto_swap_order L i j false
                 = seq 0 (lo + 1) ++ hi :: seq (lo + 1) (hi - lo - 1) ++ seq (hi + 1) (L - hi - 1)).
  { unfold auto_swap_order. fold p. rewrite Hneed, Hlo, Hhi. rewrite andb_false_r.
    rewrite (seq_split3 L lo hi Hlt HhL).
    destruct (lo + 1 =? hi) eqn:E; cbn [negb].
    - apply Nat.eqb_eq in E. replace (hi - lo - 1) with 0 by lia. reflexivity.
    - pose proof (swap_site_to_backward (seq 0 (lo + 1)) hi (seq (lo + 1) (hi - lo - 1)) (seq (hi + 1) (L - hi - 1))) as B.
      rewrite !seq_length in B. replace (lo + 1 + (hi - lo - 1)) with hi in B by (apply Nat.eqb_neq in E; lia). exact B. }
  assert (Hback : auto_swap_order L i j true = seq 0 L).
  { unfold auto_swap_order. fold p. rewrite Hneed, Hlo, Hhi. rewrite andb_true_r.
    destruct (lo + 1 =? hi) eqn:E; cbn [negb]; [reflexivity|].
    rewrite (seq_split3 L lo hi Hlt HhL).
    pose proof (swap_site_to_roundtrip (seq 0 (lo + 1)) hi (seq (lo + 1) (hi - lo - 1)) (seq (hi + 1) (L - hi - 1))) as B.
    rewrite !seq_length in B. replace (lo + 1 + (hi - lo - 1)) with hi in B by (apply Nat.eqb_neq in E; lia). exact B. }
  repeat split; try assumption.
  - rewrite Hfwd. unfold p, auto_swap_plan. fold lo hi.
    destruct (j <? i) eqn:E; cbn [ap_final fst]; [apply Nat.ltb_lt in E | apply Nat.ltb_ge in E].
    + (* i = hi sits at lo+1 *)
      replace (j + 1) with (length (seq 0 (lo + 1))) by (rewrite seq_length; unfold lo; lia).
      rewrite nth_middle. unfold hi. lia.
    + (* i = lo stays *)
      rewrite app_nth1 by (rewrite seq_length; unfold lo; lia). rewrite seq_nth by (unfold lo; lia). reflexivity.
  - rewrite Hfwd. unfold p, auto_swap_plan. fold lo hi.
    destruct (j <? i) eqn:E; cbn [ap_final snd]; [apply Nat.ltb_lt in E | apply Nat.ltb_ge in E].
    + rewrite app_nth1 by (rewrite seq_length; unfold lo; lia). rewrite seq_nth by (unfold lo; lia). reflexivity.
    + replace (i + 1) with (length (seq 0 (lo + 1))) by (rewrite seq_length; unfold lo; lia).
      rewrite nth_middle. unfold hi. lia.
Qed.

(* every split of gate_with_auto_swap works with the caller's options (so a request for
   no truncation reaches the swaps towards, the gate split AND the swaps back), and the
   number of splits is 2(hi-lo-1)+1 resp. (hi-lo-1)+1 *)
Theorem auto_swap_forwards_options (O : Type) i j sb (o : O) :
  Forall (fun c => snd c = o) (auto_swap_splits i j sb o)
  /\ length (auto_swap_splits i j sb o)
     = let d := Nat.max i j - Nat.min i j - 1 in if sb then 2 * d + 1 else d + 1.
Proof.
  unfold auto_swap_splits.
  assert (Hd : ap_hi (auto_swap_plan i j) - ap_lo (auto_swap_plan i j) - 1 = Nat.max i j - Nat.min i j - 1).
  { unfold auto_swap_plan. destruct (j <? i) eqn:E; cbn; [apply Nat.ltb_lt in E | apply Nat.ltb_ge in E]; lia. }
  rewrite Hd. set (d := Nat.max i j - Nat.min i j - 1). split.
  - apply Forall_forall. intros c Hc. apply in_app_or in Hc. destruct Hc as [Hc|Hc].
    + apply repeat_spec in Hc. subst. reflexivity.
    + apply in_app_or in Hc. destruct Hc as [[<-|[]]|Hc]; [reflexivity|].
      destruct sb; [apply repeat_spec in Hc; subst; reflexivity | contradiction].
  - rewrite !app_length, repeat_length. cbn [length]. destruct sb; [rewrite repeat_length|]; cbn [length]; lia.
Qed.

(* ==== round 3 ========================================================================= *)

(* ---- (transpose, dagger) through the 1D dispatcher -------------------------------------- *)
(* every route except the sub-MPO route with a signature lacking `dagger` applies the
   documented operator, for every mode, arity and flag pair *)
Theorem route_options_sound nl c ng tr dg :
  (dispatch_1d c ng = RNonlocal -> nl = true \/ dg = false) ->
  gate_1d_op nl c ng tr dg = spec_op tr dg.
Proof.
  unfold gate_1d_op, route_opts. intros H.
  destruct (dispatch_1d c ng) eqn:E.
  - destruct tr, dg; reflexivity.
  - destruct (H eq_refl) as [-> | ->]; destruct tr; try destruct dg; try destruct nl; reflexivity.
  - destruct tr, dg; reflexivity.
Qed.

(* ... and on that route, without the parameter, dagger=True is NOT the documented operator
   (plain G, or G^T together with transpose) *)
Theorem nonlocal_dagger_refuted c ng tr :
  dispatch_1d c ng = RNonlocal ->
  gate_1d_op false c ng tr true = (if tr then OpGT else OpG) /\ gate_1d_op false c ng tr true <> spec_op tr true.
Proof.
  unfold gate_1d_op, route_opts. intros ->. destruct tr; cbn; split; try reflexivity; discriminate.
Qed.

(* ---- MPO sandwich with automatic swaps: options reach every split ----------------------- *)
Theorem sandwich_auto_swap_forwards_options (O : Type) i j user sb (o : O) :
  Forall (fun c => c = (sandwich_absorb_left i j user, o)) (sandwich_auto_swap_splits i j user sb o)
  /\ length (sandwich_auto_swap_splits i j user sb o)
     = let d := Nat.max i j - Nat.min i j - 1 in if sb then 2 * d + 1 else d + 1.
Proof.
  unfold sandwich_auto_swap_splits.
  assert (Hd : ap_hi (auto_swap_plan i j) - ap_lo (auto_swap_plan i j) - 1 = Nat.max i j - Nat.min i j - 1).
  { unfold auto_swap_plan. destruct (j <? i) eqn:E; cbn; [apply Nat.ltb_lt in E | apply Nat.ltb_ge in E]; lia. }
  rewrite Hd. set (d := Nat.max i j - Nat.min i j - 1). split.
  - apply Forall_forall. intros c Hc. apply in_app_or in Hc. destruct Hc as [Hc|Hc].
    + apply repeat_spec in Hc. exact Hc.
    + apply in_app_or in Hc. destruct Hc as [[<-|[]]|Hc]; [reflexivity|].
      destruct sb; [apply repeat_spec in Hc; exact Hc | contradiction].
  - rewrite !app_length, repeat_length. cbn [length]. destruct sb; [rewrite repeat_length|]; cbn [length]; lia.
Qed.

(* ---- labels of the lazily attached split gate ------------------------------------------- *)
Lemma fresh_two tn i0 i1 : fresh_labels tn [i0; i1] = [fresh_base tn [i0; i1]; S (fresh_base tn [i0; i1])].
Proof. reflexivity. Qed.

(* label occurrences: those of the un-split lazy gate, plus the bond label twice *)
Theorem split_gate_occ sw bond tn i0 i1 x :
  occ x (split_gate_labels sw bond tn i0 i1)
  = occ x (gate_lazy_labels false tn [i0; i1]) + (if Nat.eqb x bond then 2 else 0).
Proof.
  unfold occ, split_gate_labels, gate_lazy_labels, gate_labels. rewrite fresh_two.
  set (b0 := fresh_base tn [i0; i1]).
  cbn [nth].
  change (concat ([i0; if sw then S b0 else b0; bond] :: [bond; i1; if sw then b0 else S b0]
                  :: map (map (rename [i0; i1] [b0; S b0])) tn))
    with ([i0; if sw then S b0 else b0; bond] ++ [bond; i1; if sw then b0 else S b0]
          ++ concat (map (map (rename [i0; i1] [b0; S b0])) tn)).
  change (concat (([i0; i1] ++ [b0; S b0]) :: map (map (rename [i0; i1] [b0; S b0])) tn))
    with ([i0; i1; b0; S b0] ++ concat (map (map (rename [i0; i1] [b0; S b0])) tn)).
  rewrite !count_app.
  set (rest := count_occ Nat.eq_dec (concat (map (map (rename [i0; i1] [b0; S b0])) tn)) x).
  destruct (Nat.eqb x bond) eqn:E; [apply Nat.eqb_eq in E | apply Nat.eqb_neq in E];
    destruct sw; cbn [count_occ];
    repeat match goal with |- context [Nat.eq_dec ?a ?b] => destruct (Nat.eq_dec a b) end;
    try lia; subst; try contradiction; try lia.
Qed.

(* with a bond label that occurs nowhere else the set of outer labels is exactly preserved *)
Theorem split_gate_outer_preserved sw bond tn i0 i1 x :
  i0 <> i1 -> occ i0 tn = 1 -> occ i1 tn = 1 ->
  occ bond tn = 0 -> bond <> i0 -> bond <> i1 -> ~ In bond (fresh_labels tn [i0; i1]) ->
  is_outer (split_gate_labels sw bond tn i0 i1) x = is_outer tn x.
Proof.
  intros Hne H0 H1 Hb Hb0 Hb1 Hbf.
  assert (Hnd : NoDup [i0; i1]).
  { constructor; [intros [H|[]]; congruence | constructor; [intros []|constructor]]. }
  assert (Hone : forall i, In i [i0; i1] -> occ i tn = 1) by (intros i [<-|[<-|[]]]; assumption).
  unfold is_outer at 1. rewrite split_gate_occ.
  destruct (Nat.eqb x bond) eqn:E.
  - apply Nat.eqb_eq in E. subst x.
    destruct (gate_lazy_occ false tn [i0; i1] bond Hnd Hone) as [_ [_ H3]].
    rewrite H3; [| intros [H|[H|[]]]; congruence | exact Hbf].
    unfold is_outer. rewrite Hb. reflexivity.
  - rewrite Nat.add_0_r. apply (gate_outer_preserved false tn [i0; i1] x Hnd Hone).
Qed.

(* a FIXED bond name is not sound: if the network already has an open label of that name
   (not a target), the label is no longer open after gating *)
Theorem split_gate_fixed_bond_refuted sw bond tn i0 i1 :
  i0 <> i1 -> occ i0 tn = 1 -> occ i1 tn = 1 ->
  occ bond tn = 1 -> bond <> i0 -> bond <> i1 ->
  is_outer tn bond = true /\ is_outer (split_gate_labels sw bond tn i0 i1) bond = false.
Proof.
  intros Hne H0 H1 Hb Hb0 Hb1.
  assert (Hnd : NoDup [i0; i1]).
  { constructor; [intros [H|[]]; congruence | constructor; [intros []|constructor]]. }
  assert (Hone : forall i, In i [i0; i1] -> occ i tn = 1) by (intros i [<-|[<-|[]]]; assumption).
  split; [unfold is_outer; rewrite Hb; reflexivity|].
  unfold is_outer. rewrite split_gate_occ, Nat.eqb_refl.
  destruct (gate_lazy_occ false tn [i0; i1] bond Hnd Hone) as [_ [_ H3]].
  rewrite H3, Hb; [reflexivity | intros [H|[H|[]]]; congruence |].
  intros Hf. destruct (fresh_is_fresh tn [i0; i1] bond Hf) as [Hnc _].
  unfold occ in Hb. rewrite (proj1 (count_occ_not_In Nat.eq_dec (concat tn) bond) Hnc) in Hb. discriminate.
Qed.

(* C06 - algebraic core: gating a tensor network = multiplying by the operator.
   Everything is over an ARBITRARY commutative ring K (Section variables +
   ring_theory, no axioms) on top of the shared network semantics Base/TN.v. *)
From Coq Require Import Arith List Lia Ring PeanoNat Permutation.
From QV Require Import Base.Sums Base.TN.
From QV Require C06.Model.
Import ListNotations.

Section Gate.
  Variable K : Type.
  Variables (k0 k1 : K) (kadd kmul ksub : K -> K -> K) (kopp : K -> K).
  Hypothesis Kring : ring_theory k0 k1 kadd kmul ksub kopp eq.
  Add Ring Krg : Kring.
  Infix "+" := kadd. Infix "*" := kmul.
  Variable dim : ind -> nat.

  Notation sum := (Sums.sum K k0 kadd).
  Notation tensor := (tensor K).
  Notation wf := (wf K).
  Notation tval := (tval K).
  Notation tinds := (tinds K).
  Notation sum_over := (sum_over K k0 kadd dim).
  Notation value := (value K k0 k1 kadd kmul dim).
  Notation tprod := (tprod K k1 kmul).
  Notation contract2 := (contract2 K k0 kadd kmul dim).
  Notation steps := (steps K k0 kadd kmul dim).
  Notation ext := (ext K).
  Notation indep := (indep K).

  (* ---- generic facts about sum_over ------------------------------------ *)

  (* two integrands that agree on every assignment reachable from s by updating
     labels of L give the same sum (Inv = any property preserved by those updates) *)
  Lemma sum_over_inv (Inv : asg -> Prop) L : forall f f' s,
    Inv s -> (forall s' j v, In j L -> Inv s' -> Inv (upd s' j v)) ->
    (forall s', Inv s' -> f s' = f' s') ->
    sum_over L f s = sum_over L f' s.
  Proof.
    induction L as [|i L IH]; intros f f' s Hs Hpres Hff; cbn [TN.sum_over].
    - apply Hff. exact Hs.
    - apply sum_ext. intros v _. apply IH.
      + apply Hpres; [left; reflexivity | exact Hs].
      + intros s' j w Hj. apply Hpres. right. exact Hj.
      + exact Hff.
  Qed.

  Definition agree_on (P : ind -> Prop) (s s' : asg) : Prop := forall i, P i -> s i = s' i.
  Definition dep_on (P : ind -> Prop) (f : asg -> K) : Prop := forall s s', agree_on P s s' -> f s = f s'.

  Lemma agree_on_upd P s s' j v : agree_on P s s' -> agree_on P (upd s j v) (upd s' j v).
  Proof. intros H i Hi. unfold upd. destruct (Nat.eqb i j); [reflexivity | apply H; exact Hi]. Qed.

  Lemma dep_on_sum_over P L f : dep_on P f -> dep_on P (sum_over L f).
  Proof.
    intros Hf. induction L as [|i L IH]; intros s s' H; cbn [TN.sum_over]; [apply Hf; exact H|].
    apply sum_ext. intros v _. apply IH. apply agree_on_upd. exact H.
  Qed.

  Definition in_net (ts : list tensor) (i : ind) : Prop := exists t, In t ts /\ In i (tinds t).

  Lemma dep_on_tprod ts : Forall wf ts -> dep_on (in_net ts) (tprod ts).
  Proof.
    induction 1 as [|t ts Ht Hts IH]; intros s s' E; unfold TN.tprod in *; cbn [map TN.prodK]; [reflexivity|].
    rewrite (Ht s s').
    - rewrite (IH s s'); [reflexivity|]. intros i [t' [Ht' Hi]]. apply E. exists t'. split; [right; exact Ht' | exact Hi].
    - intros i Hi. apply E. exists t. split; [left; reflexivity | exact Hi].
  Qed.

  Lemma sum_over_scale S c f s : sum_over S (fun s' => c * f s') s = c * sum_over S f s.
  Proof.
    rewrite (sum_over_ext_fun K k0 kadd dim S _ (fun s' => f s' * (fun _ => c) s')) by (intros; ring).
    rewrite (sum_over_factor K k0 k1 kadd kmul ksub kopp Kring dim S f (fun _ => c)); [ring|].
    intros i _ s0 v. reflexivity.
  Qed.

  (* ---- relabelling -------------------------------------------------------- *)

  (* rename the label of every tensor: old label i becomes rho i *)
  Definition reindex (rho : ind -> ind) (t : tensor) : tensor :=
    {| TN.tinds := map rho (tinds t); TN.tval := fun s => tval t (fun i => s (rho i)) |}.

  Lemma wf_reindex rho t : wf t -> wf (reindex rho t).
  Proof.
    intros Ht s s' E. cbn [reindex TN.tval TN.tinds] in *. apply Ht. intros i Hi. apply E. apply in_map. exact Hi.
  Qed.

  Lemma tprod_reindex rho ts s : tprod (map (reindex rho) ts) s = tprod ts (fun i => s (rho i)).
  Proof. unfold TN.tprod. rewrite map_map. reflexivity. Qed.

  (* a relabelling that leaves the summed labels alone commutes with the sum *)
  Lemma sum_over_reindex rho L f : ext f ->
    (forall j, In j L -> rho j = j) -> (forall k j, In j L -> rho k = j -> k = j) ->
    forall s, sum_over L (fun s' => f (fun i => s' (rho i))) s = sum_over L f (fun i => s (rho i)).
  Proof.
    intros Hf. induction L as [|j L IH]; intros Hfix Hinj s; cbn [TN.sum_over]; [reflexivity|].
    apply sum_ext. intros v _.
    rewrite IH.
    2:{ intros j' Hj'. apply Hfix. right. exact Hj'. }
    2:{ intros k j' Hj' Hr. apply (Hinj k j'); [right; exact Hj' | exact Hr]. }
    apply (sum_over_aeq K k0 kadd dim L f Hf). intros k. unfold upd.
    destruct (Nat.eqb (rho k) j) eqn:E1; destruct (Nat.eqb k j) eqn:E2; try reflexivity.
    - apply Nat.eqb_eq in E1. apply Nat.eqb_neq in E2. exfalso. apply E2. apply (Hinj k j); [left; reflexivity | exact E1].
    - apply Nat.eqb_neq in E1. apply Nat.eqb_eq in E2. subst k. exfalso. apply E1. apply Hfix. left. reflexivity.
  Qed.

  Theorem value_reindex rho ts L s : Forall wf ts ->
    (forall j, In j L -> rho j = j) -> (forall k j, In j L -> rho k = j -> k = j) ->
    value (map (reindex rho) ts) L s = value ts L (fun i => s (rho i)).
  Proof.
    intros Hw Hfix Hinj. unfold TN.value.
    rewrite (sum_over_ext_fun K k0 kadd dim L _ (fun s' => tprod ts (fun i => s' (rho i)))) by (intros; apply tprod_reindex).
    apply sum_over_reindex; [apply ext_tprod; exact Hw | exact Hfix | exact Hinj].
  Qed.

  (* ---- the gate ------------------------------------------------------------- *)

  (* rename inds[k] -> bnds[k] (first match), everything else fixed *)
  Fixpoint rename (inds bnds : list ind) (k : ind) : ind :=
    match inds, bnds with
    | i :: Is, b :: B => if Nat.eqb k i then b else rename Is B k
    | _, _ => k
    end.

  (* s[inds := vals] *)
  Fixpoint upds (s : asg) (inds : list ind) (vals : list nat) : asg :=
    match inds, vals with
    | i :: Is, v :: V => upd (upds s Is V) i v
    | _, _ => s
    end.

  (* the gate as a function of (values of the output legs, values of the input legs) *)
  Definition gfun := list nat -> list nat -> K.

  (* gate tensor: labels (outer inds ++ bond labels); `transposed` wires the array the other way round *)
  Definition gate_tensor (transposed : bool) (g : gfun) (inds bnds : list ind) : tensor :=
    if transposed
    then {| TN.tinds := bnds ++ inds; TN.tval := fun s => g (map s bnds) (map s inds) |}
    else {| TN.tinds := inds ++ bnds; TN.tval := fun s => g (map s inds) (map s bnds) |}.

  Definition gapply (transposed : bool) (g : gfun) (out inn : list nat) : K :=
    if transposed then g inn out else g out inn.

  Lemma gate_tensor_val tr g inds bnds s :
    tval (gate_tensor tr g inds bnds) s = gapply tr g (map s inds) (map s bnds).
  Proof. destruct tr; reflexivity. Qed.

  Lemma wf_gate_tensor tr g inds bnds : wf (gate_tensor tr g inds bnds).
  Proof.
    intros s s' E. rewrite !gate_tensor_val.
    assert (H1 : map s inds = map s' inds).
    { apply map_ext_in. intros i Hi. apply E. destruct tr; cbn; apply in_or_app; auto. }
    assert (H2 : map s bnds = map s' bnds).
    { apply map_ext_in. intros i Hi. apply E. destruct tr; cbn; apply in_or_app; auto. }
    rewrite H1, H2. reflexivity.
  Qed.

  (* nested sums over value lists: sum_vals [d1..dn] F = sum_{v1<d1}..sum_{vn<dn} F [v1..vn] *)
  Fixpoint sum_vals (ds : list nat) (F : list nat -> K) : K :=
    match ds with
    | [] => F []
    | d :: ds' => sum d (fun v => sum_vals ds' (fun vs => F (v :: vs)))
    end.

  Lemma sum_vals_ext ds : forall F F', (forall vs, F vs = F' vs) -> sum_vals ds F = sum_vals ds F'.
  Proof.
    induction ds as [|d ds IH]; intros F F' H; cbn; [apply H|].
    apply sum_ext. intros v _. apply IH. intros vs. apply H.
  Qed.

  (* summing over the assignments of distinct labels B = summing over their value lists *)
  Lemma sum_over_vals B : NoDup B -> forall (F : asg -> list nat -> K) s,
    (forall s1 s2 vs, (forall k, ~ In k B -> s1 k = s2 k) -> F s1 vs = F s2 vs) ->
    sum_over B (fun s' => F s' (map s' B)) s = sum_vals (map dim B) (fun vs => F s vs).
  Proof.
    induction 1 as [|b B Hnb Hnd IH]; intros F s HF; cbn [TN.sum_over sum_vals map]; [reflexivity|].
    apply sum_ext. intros v _.
    rewrite (sum_over_inv (fun s' => s' b = v) B _ (fun s' => F s' (v :: map s' B)) (upd s b v)).
    - rewrite (IH (fun s' vs => F s' (v :: vs)) (upd s b v)).
      + apply sum_vals_ext. intros vs. apply HF. intros k Hk. unfold upd.
        destruct (Nat.eqb k b) eqn:E; [|reflexivity]. apply Nat.eqb_eq in E. subst. exfalso. apply Hk. left. reflexivity.
      + intros s1 s2 vs H12. apply HF. intros k Hk. apply H12. intros Hin. apply Hk. right. exact Hin.
    - unfold upd. rewrite Nat.eqb_refl. reflexivity.
    - intros s' j w Hj Hs'. unfold upd. destruct (Nat.eqb b j) eqn:E; [|exact Hs'].
      apply Nat.eqb_eq in E. subst. contradiction.
    - intros s' Hs'. rewrite Hs'. reflexivity.
  Qed.

  Lemma rename_notin inds : forall bnds k, ~ In k inds -> rename inds bnds k = k.
  Proof.
    induction inds as [|i Is IH]; intros [|b B] k Hk; cbn; try reflexivity.
    destruct (Nat.eqb k i) eqn:E.
    - apply Nat.eqb_eq in E. subst. exfalso. apply Hk. left. reflexivity.
    - apply IH. intros H. apply Hk. right. exact H.
  Qed.

  Lemma rename_in inds : forall bnds k, length inds = length bnds -> In k inds -> In (rename inds bnds k) bnds.
  Proof.
    induction inds as [|i Is IH]; intros [|b B] k Hl Hk; cbn in *; try contradiction; try discriminate.
    destruct (Nat.eqb k i) eqn:E; [left; reflexivity|].
    right. apply IH; [lia|]. destruct Hk as [Hk|Hk]; [|exact Hk]. subst. rewrite Nat.eqb_refl in E. discriminate.
  Qed.

  Lemma upds_notin s inds : forall vals k, ~ In k inds -> upds s inds vals k = s k.
  Proof.
    induction inds as [|i Is IH]; intros [|v V] k Hk; cbn; try reflexivity.
    unfold upd. destruct (Nat.eqb k i) eqn:E.
    - apply Nat.eqb_eq in E. subst. exfalso. apply Hk. left. reflexivity.
    - apply IH. intros H. apply Hk. right. exact H.
  Qed.

  Lemma upds_in s s' inds : forall bnds k, length inds = length bnds -> In k inds ->
    upds s inds (map s' bnds) k = s' (rename inds bnds k).
  Proof.
    induction inds as [|i Is IH]; intros [|b B] k Hl Hk; cbn in *; try contradiction; try discriminate.
    unfold upd. destruct (Nat.eqb k i) eqn:E; [reflexivity|].
    apply IH; [lia|]. destruct Hk as [Hk|Hk]; [|exact Hk]. subst. rewrite Nat.eqb_refl in E. discriminate.
  Qed.

  (* s[inds := s' bnds] is s' read through the renaming, away from the bond labels *)
  Lemma upds_rename s s' inds bnds : length inds = length bnds ->
    (forall k, ~ In k bnds -> s' k = s k) ->
    forall k, ~ In k bnds -> upds s inds (map s' bnds) k = s' (rename inds bnds k).
  Proof.
    intros Hl Hs k Hk. destruct (in_dec Nat.eq_dec k inds) as [Hin|Hnin].
    - apply upds_in; assumption.
    - rewrite upds_notin by exact Hnin. rewrite rename_notin by exact Hnin. symmetry. apply Hs. exact Hk.
  Qed.

  (* ---- main theorem: lazy gating ---------------------------------------------
     The network `ts` (labels in `summed` are summed, all others - in particular
     the target labels `inds` - are open) is gated on `inds`: every tensor is
     relabelled inds[k] -> bnds[k] (fresh bond labels) and the gate tensor with
     labels (inds, bnds) is added; the bond labels are summed.  The value of the
     new network over the SAME open labels is the operator applied to the old
     value:   sum_beta  G[sigma(inds), beta] * value ts (sigma[inds := beta]).
     Any number of target labels, any order, any dimensions, G arbitrary. *)
  Theorem gate_lazy_sound tr g ts inds bnds summed s :
    Forall wf ts -> NoDup bnds -> length inds = length bnds ->
    (forall b, In b bnds -> ~ In b inds /\ ~ In b summed /\ ~ in_net ts b) ->
    (forall i, In i inds -> ~ In i summed) ->
    value (gate_tensor tr g inds bnds :: map (reindex (rename inds bnds)) ts) (bnds ++ summed) s
    = sum_vals (map dim bnds)
        (fun beta => gapply tr g (map s inds) beta * value ts summed (upds s inds beta)).
  Proof.
    intros Hw Hnd Hl Hfresh Hout.
    set (rho := rename inds bnds).
    unfold TN.value at 1. rewrite sum_over_app.
    (* inner sum, for an assignment s' that differs from s only on bnds *)
    rewrite (sum_over_inv (fun s' => forall k, ~ In k bnds -> s' k = s k) bnds _
              (fun s' => gapply tr g (map s inds) (map s' bnds) * value ts summed (upds s inds (map s' bnds))) s).
    - apply (sum_over_vals bnds Hnd (fun _ vs => gapply tr g (map s inds) vs * value ts summed (upds s inds vs))).
      intros; reflexivity.
    - intros k _. reflexivity.
    - intros s' j v Hj Hs' k Hk. unfold upd. destruct (Nat.eqb k j) eqn:E.
      + apply Nat.eqb_eq in E. subst. contradiction.
      + apply Hs'. exact Hk.
    - intros s' Hs'.
      (* pull the gate entry out of the sum over `summed` *)
      rewrite (sum_over_ext_fun K k0 kadd dim summed _
                 (fun s'' => tprod (map (reindex rho) ts) s'' * tval (gate_tensor tr g inds bnds) s'')).
      2:{ intros s''. unfold TN.tprod. cbn [map TN.prodK]. ring. }
      rewrite (sum_over_factor K k0 k1 kadd kmul ksub kopp Kring dim).
      2:{ intros i Hi s0 v. rewrite !gate_tensor_val.
          assert (E1 : map (upd s0 i v) inds = map s0 inds).
          { apply map_ext_in. intros j Hj. unfold upd. destruct (Nat.eqb j i) eqn:E; [|reflexivity].
            apply Nat.eqb_eq in E. subst. exfalso. exact (Hout i Hj Hi). }
          assert (E2 : map (upd s0 i v) bnds = map s0 bnds).
          { apply map_ext_in. intros j Hj. unfold upd. destruct (Nat.eqb j i) eqn:E; [|reflexivity].
            apply Nat.eqb_eq in E. subst. exfalso. destruct (Hfresh i Hj) as [_ [Hn _]]. exact (Hn Hi). }
          rewrite E1, E2. reflexivity. }
      rewrite gate_tensor_val.
      assert (E1 : map s' inds = map s inds).
      { apply map_ext_in. intros i Hi. apply Hs'. intros Hb. destruct (Hfresh i Hb) as [Hn _]. exact (Hn Hi). }
      rewrite E1.
      fold (value (map (reindex rho) ts) summed s').
      rewrite value_reindex; [| exact Hw | |].
      + rewrite (Kring.(Rmul_comm)). f_equal.
        apply (dep_on_sum_over (in_net ts) summed (tprod ts) (dep_on_tprod ts Hw)).
        intros k Hk. symmetry. apply upds_rename; [exact Hl | exact Hs' |].
        intros Hb. destruct (Hfresh k Hb) as [_ [_ Hn]]. exact (Hn Hk).
      + intros j Hj. apply rename_notin. intros Hi. exact (Hout j Hi Hj).
      + intros k j Hj Hr. destruct (in_dec Nat.eq_dec k inds) as [Hin|Hnin].
        * exfalso. pose proof (rename_in inds bnds k Hl Hin) as Hb. unfold rho in Hr. rewrite Hr in Hb.
          destruct (Hfresh j Hb) as [_ [Hn _]]. exact (Hn Hj).
        * unfold rho in Hr. rewrite rename_notin in Hr by exact Hnin. exact Hr.
  Qed.

  (* with matching dimensions the sum ranges over the physical dimensions of the target labels *)
  Corollary gate_lazy_sound_dims tr g ts inds bnds summed s :
    Forall wf ts -> NoDup bnds -> length inds = length bnds -> map dim bnds = map dim inds ->
    (forall b, In b bnds -> ~ In b inds /\ ~ In b summed /\ ~ in_net ts b) ->
    (forall i, In i inds -> ~ In i summed) ->
    value (gate_tensor tr g inds bnds :: map (reindex (rename inds bnds)) ts) (bnds ++ summed) s
    = sum_vals (map dim inds)
        (fun beta => gapply tr g (map s inds) beta * value ts summed (upds s inds beta)).
  Proof. intros Hw Hnd Hl Hd Hf Ho. rewrite <- Hd. apply gate_lazy_sound; assumption. Qed.

  (* one target label: plain matrix-vector multiplication on that leg *)
  Corollary gate_lazy_sound_one tr (g : nat -> nat -> K) ts i b summed s :
    Forall wf ts -> b <> i -> ~ In b summed -> ~ in_net ts b -> ~ In i summed -> dim b = dim i ->
    value (gate_tensor tr (fun o n => g (hd 0 o) (hd 0 n)) [i] [b] :: map (reindex (rename [i] [b])) ts) (b :: summed) s
    = sum (dim i) (fun beta => (if tr then g beta (s i) else g (s i) beta) * value ts summed (upd s i beta)).
  Proof.
    intros Hw Hbi Hbs Hbn His Hd.
    change (b :: summed) with ([b] ++ summed).
    rewrite gate_lazy_sound; try assumption.
    - cbn [map sum_vals]. rewrite Hd. apply sum_ext. intros v _. destruct tr; reflexivity.
    - constructor; [intros [] | constructor].
    - reflexivity.
    - intros b' [<-|[]]. repeat split; try assumption. intros [E|[]]. apply Hbi. symmetry. exact E.
    - intros i' [<-|[]]. exact His.
  Qed.

  (* ---- eager application: contracting the gate in, along ANY contraction path ---- *)
  Theorem gate_eager_sound tr g ts inds bnds summed s y :
    Forall wf ts -> NoDup bnds -> length inds = length bnds ->
    (forall b, In b bnds -> ~ In b inds /\ ~ In b summed /\ ~ in_net ts b) ->
    (forall i, In i inds -> ~ In i summed) ->
    steps (gate_tensor tr g inds bnds :: map (reindex (rename inds bnds)) ts, bnds ++ summed) y ->
    value (fst y) (snd y) s
    = sum_vals (map dim bnds)
        (fun beta => gapply tr g (map s inds) beta * value ts summed (upds s inds beta)).
  Proof.
    intros Hw Hnd Hl Hf Ho Hst.
    rewrite <- (gate_lazy_sound tr g ts inds bnds summed s Hw Hnd Hl Hf Ho).
    symmetry.
    apply (path_sound K k0 k1 kadd kmul ksub kopp Kring dim _ _ Hst).
    cbn [fst]. constructor; [apply wf_gate_tensor|].
    apply Forall_forall. intros t Ht. apply in_map_iff in Ht. destruct Ht as [t0 [<- Ht0]].
    apply wf_reindex. eapply Forall_forall in Hw; eauto.
  Qed.

  (* ---- one-site eager short cut (Tensor.gate): the matrix is contracted into the
     one tensor carrying the label, labels unchanged ---- *)
  Definition tgate (tr : bool) (g : nat -> nat -> K) (i : ind) (t : tensor) : tensor :=
    {| TN.tinds := tinds t;
       TN.tval := fun s => sum (dim i) (fun beta => (if tr then g beta (s i) else g (s i) beta) * tval t (upd s i beta)) |}.

  Lemma wf_tgate tr g i t : wf t -> In i (tinds t) -> wf (tgate tr g i t).
  Proof.
    intros Ht Hi s s' E. cbn [tgate TN.tval TN.tinds] in *. apply sum_ext. intros v _.
    rewrite (E i Hi). f_equal. apply Ht. intros j Hj. unfold upd. destruct (Nat.eqb j i); [reflexivity | apply E; exact Hj].
  Qed.

  Theorem tensor_gate_sound tr g i t others summed s :
    wf t -> Forall wf others -> ~ In i summed -> (forall t', In t' others -> ~ In i (tinds t')) ->
    value (tgate tr g i t :: others) summed s
    = sum (dim i) (fun beta => (if tr then g beta (s i) else g (s i) beta) * value (t :: others) summed (upd s i beta)).
  Proof.
    intros Ht Ho His Hio.
    set (gg := fun a b => if tr then g b a else g a b).
    (* G s'' = gate entry read off the assignment * old integrand *)
    set (G := fun s'' : asg => gg (s i) (s'' i) * tprod (t :: others) s'').
    assert (HG : ext G).
    { intros s1 s2 E. unfold G. rewrite (E i). f_equal. apply ext_tprod; [constructor; assumption | exact E]. }
    transitivity (sum (dim i) (fun v => sum_over summed G (upd s i v))).
    - rewrite (sum_push K k0 k1 kadd kmul ksub kopp Kring dim i summed G HG His).
      unfold TN.value.
      apply (sum_over_inv (fun s' => s' i = s i)).
      + reflexivity.
      + intros s' j v Hj Hs'. unfold upd. destruct (Nat.eqb i j) eqn:E; [|exact Hs'].
        apply Nat.eqb_eq in E. subst. contradiction.
      + intros s' Hs'. unfold TN.tprod. cbn [map TN.prodK tgate TN.tval].
        rewrite <- (sum_mul_r K k0 k1 kadd kmul ksub kopp Kring).
        apply sum_ext. intros v _. unfold G, TN.tprod. cbn [map TN.prodK].
        fold (tprod others s'). fold (tprod others (upd s' i v)).
        rewrite (indep_tprod K k1 kmul others i Ho Hio s' v).
        unfold upd at 2. rewrite Nat.eqb_refl. rewrite Hs'. unfold gg. destruct tr; ring.
    - apply sum_ext. intros v _. unfold TN.value. rewrite <- sum_over_scale.
      apply (sum_over_inv (fun s' => s' i = v)).
      + unfold upd. rewrite Nat.eqb_refl. reflexivity.
      + intros s' j w Hj Hs'. unfold upd. destruct (Nat.eqb i j) eqn:E; [|exact Hs'].
        apply Nat.eqb_eq in E. subst. contradiction.
      + intros s' Hs'. unfold G. rewrite Hs'. unfold gg. destruct tr; reflexivity.
  Qed.

  (* ---- exact factorisations (the contract of every splitting mode) -----------
     Replacing a tensor T by two tensors a', b' joined by fresh labels S' whose
     contraction reproduces T entry for entry (an exact split: SVD/QR/... without
     truncation) preserves the value of the network. *)
  Lemma value_tval_ext t t' others R s : (forall s', tval t s' = tval t' s') ->
    value (t :: others) R s = value (t' :: others) R s.
  Proof.
    intros H. unfold TN.value. apply sum_over_ext_fun. intros s'. unfold TN.tprod. cbn [map TN.prodK]. rewrite H. reflexivity.
  Qed.

  Theorem split_exact_sound T a' b' others S' R s :
    wf a' -> wf b' -> Forall wf others ->
    (forall i, In i S' -> ~ In i R) ->
    (forall i t, In i S' -> In t others -> ~ In i (tinds t)) ->
    (forall s', tval T s' = tval (contract2 a' b' S') s') ->
    value (T :: others) R s = value (a' :: b' :: others) (S' ++ R) s.
  Proof.
    intros Ha Hb Ho Hd Hfree HT.
    rewrite (contract_step_sound K k0 k1 kadd kmul ksub kopp Kring dim a' b' others S' R s Ha Hb Ho Hd Hfree).
    apply value_tval_ext. exact HT.
  Qed.

  (* contraction steps and exact factorisation steps, in any order *)
  Inductive xstep : list tensor * list ind -> list tensor * list ind -> Prop :=
  | XContract x y : step K k0 kadd kmul dim x y -> xstep x y
  | XSplit ts T a' b' others S' R :
      Permutation ts (T :: others) -> wf a' -> wf b' ->
      (forall i, In i S' -> ~ In i R) ->
      (forall i t, In i S' -> In t others -> ~ In i (tinds t)) ->
      (forall s', tval T s' = tval (contract2 a' b' S') s') ->
      xstep (ts, R) (a' :: b' :: others, S' ++ R).

  Inductive xsteps : list tensor * list ind -> list tensor * list ind -> Prop :=
  | xsteps_refl x : xsteps x x
  | xsteps_cons x y z : xstep x y -> xsteps y z -> xsteps x z.

  Lemma xstep_sound x y s : xstep x y -> Forall wf (fst x) ->
    value (fst x) (snd x) s = value (fst y) (snd y) s /\ Forall wf (fst y).
  Proof.
    intros H Hw. destruct H as [x y Hs | ts T a' b' others S' R HP Ha Hb Hd Hfree HT].
    - destruct x as [ts L], y as [ts' L']. cbn [fst snd] in *. split.
      + apply (step_sound K k0 k1 kadd kmul ksub kopp Kring dim ts L ts' L' s Hs Hw).
      + apply (step_wf K k0 kadd kmul dim ts L ts' L' Hs Hw).
    - cbn [fst snd] in *.
      assert (Hw' : Forall wf (T :: others)) by (eapply Permutation_Forall; eassumption).
      inversion Hw' as [|? ? HwT Ho]; subst. split.
      + rewrite (value_perm K k0 k1 kadd kmul ksub kopp Kring dim ts (T :: others) R s HP).
        apply split_exact_sound; assumption.
      + constructor; [exact Ha | constructor; [exact Hb | exact Ho]].
  Qed.

  Theorem xpath_sound x y : xsteps x y -> Forall wf (fst x) ->
    forall s, value (fst x) (snd x) s = value (fst y) (snd y) s.
  Proof.
    induction 1 as [x|x y z Hxy Hyz IH]; intros Hw s; [reflexivity|].
    destruct (xstep_sound x y s Hxy Hw) as [E Hw']. rewrite E. apply IH. exact Hw'.
  Qed.

  (* every mode that contracts and/or exactly splits (eager, 'split', 'reduce-split',
     'split-gate', 'swap-split-gate', sub-operator application) denotes G applied *)
  Theorem gate_exact_modes_sound tr g ts inds bnds summed s y :
    Forall wf ts -> NoDup bnds -> length inds = length bnds ->
    (forall b, In b bnds -> ~ In b inds /\ ~ In b summed /\ ~ in_net ts b) ->
    (forall i, In i inds -> ~ In i summed) ->
    xsteps (gate_tensor tr g inds bnds :: map (reindex (rename inds bnds)) ts, bnds ++ summed) y ->
    value (fst y) (snd y) s
    = sum_vals (map dim bnds)
        (fun beta => gapply tr g (map s inds) beta * value ts summed (upds s inds beta)).
  Proof.
    intros Hw Hnd Hl Hf Ho Hst.
    rewrite <- (gate_lazy_sound tr g ts inds bnds summed s Hw Hnd Hl Hf Ho).
    symmetry. apply (xpath_sound _ _ Hst).
    cbn [fst]. constructor; [apply wf_gate_tensor|].
    apply Forall_forall. intros t Ht. apply in_map_iff in Ht. destruct Ht as [t0 [<- Ht0]].
    apply wf_reindex. eapply Forall_forall in Hw; eauto.
  Qed.

  (* ---- swapping two physical labels (swap_sites_with_compress) ------------------
     The pair (Ti, Tj) is contracted, split exactly with the physical legs
     exchanged and relabelled: the new pair reproduces the old pair with the two
     labels ki, kj exchanged.  Then the network value is the old value read with
     the two labels exchanged (= SWAP applied). *)
  Definition swapl (a b : ind) (k : ind) : ind := if Nat.eqb k a then b else if Nat.eqb k b then a else k.

  Theorem swap_sound Ti Tj Ti' Tj' others S S' R ki kj s :
    wf Ti -> wf Tj -> wf Ti' -> wf Tj' -> Forall wf others ->
    (forall i, In i S -> ~ In i R) -> (forall i t, In i S -> In t others -> ~ In i (tinds t)) ->
    (forall i, In i S' -> ~ In i R) -> (forall i t, In i S' -> In t others -> ~ In i (tinds t)) ->
    ~ In ki R -> ~ In kj R -> (forall t, In t others -> ~ In ki (tinds t) /\ ~ In kj (tinds t)) ->
    (forall s', tval (contract2 Ti' Tj' S') s' = tval (contract2 Ti Tj S) (fun k => s' (swapl ki kj k))) ->
    value (Ti' :: Tj' :: others) (S' ++ R) s = value (Ti :: Tj :: others) (S ++ R) (fun k => s (swapl ki kj k)).
  Proof.
    intros HTi HTj HTi' HTj' Ho HdS HfS HdS' HfS' HkiR HkjR Hko Hsw.
    rewrite (contract_step_sound K k0 k1 kadd kmul ksub kopp Kring dim Ti' Tj' others S' R s) by assumption.
    rewrite (contract_step_sound K k0 k1 kadd kmul ksub kopp Kring dim Ti Tj others S R) by assumption.
    set (rho := swapl ki kj).
    assert (Hwc : wf (contract2 Ti Tj S)) by (apply wf_contract2; assumption).
    rewrite <- (value_reindex rho (contract2 Ti Tj S :: others) R s).
    - unfold TN.value. apply sum_over_ext_fun. intros s'. unfold TN.tprod. cbn [map TN.prodK].
      f_equal; [apply Hsw|]. fold (tprod others s'). fold (tprod (map (reindex rho) others) s').
      rewrite tprod_reindex. apply (dep_on_tprod others Ho). intros k [t [Ht Hk]].
      destruct (Hko t Ht) as [H1 H2]. unfold rho, swapl.
      destruct (Nat.eqb k ki) eqn:E1; [apply Nat.eqb_eq in E1; subst; contradiction|].
      destruct (Nat.eqb k kj) eqn:E2; [apply Nat.eqb_eq in E2; subst; contradiction|]. reflexivity.
    - constructor; assumption.
    - intros j Hj. unfold rho, swapl.
      destruct (Nat.eqb j ki) eqn:E1; [apply Nat.eqb_eq in E1; subst; contradiction|].
      destruct (Nat.eqb j kj) eqn:E2; [apply Nat.eqb_eq in E2; subst; contradiction|]. reflexivity.
    - intros k j Hj. unfold rho, swapl.
      destruct (Nat.eqb k ki) eqn:E1; [intros <-; contradiction|].
      destruct (Nat.eqb k kj) eqn:E2; [intros <-; contradiction|]. auto.
  Qed.

  (* ---- sandwich: gate G on the upper labels and H on the lower labels of an
     operator-like network (H = conj G for G X G^dagger) ---- *)
  Theorem gate_sandwich_sound tru trl gu gl ts up lo bu bl summed s :
    Forall wf ts -> NoDup bu -> NoDup bl -> length up = length bu -> length lo = length bl ->
    (forall b, In b bu -> ~ In b up /\ ~ In b lo /\ ~ In b bl /\ ~ In b summed /\ ~ in_net ts b) ->
    (forall b, In b bl -> ~ In b up /\ ~ In b lo /\ ~ In b bu /\ ~ In b summed /\ ~ in_net ts b) ->
    (forall i, In i up -> ~ In i summed /\ ~ In i lo) -> (forall i, In i lo -> ~ In i summed) ->
    value (gate_tensor trl gl lo bl
           :: map (reindex (rename lo bl)) (gate_tensor tru gu up bu :: map (reindex (rename up bu)) ts))
          (bl ++ bu ++ summed) s
    = sum_vals (map dim bl) (fun gamma => gapply trl gl (map s lo) gamma *
        sum_vals (map dim bu) (fun beta => gapply tru gu (map s up) beta *
          value ts summed (upds (upds s lo gamma) up beta))).
  Proof.
    intros Hw Hndu Hndl Hlu Hll Hfu Hfl Hup Hlo.
    assert (Hw1 : Forall wf (gate_tensor tru gu up bu :: map (reindex (rename up bu)) ts)).
    { constructor; [apply wf_gate_tensor|].
      apply Forall_forall. intros t Ht. apply in_map_iff in Ht. destruct Ht as [t0 [<- Ht0]].
      apply wf_reindex. eapply Forall_forall in Hw; eauto. }
    rewrite (gate_lazy_sound trl gl _ lo bl (bu ++ summed) s Hw1 Hndl Hll).
    - apply sum_vals_ext. intros gamma. f_equal.
      rewrite (gate_lazy_sound tru gu ts up bu summed (upds s lo gamma) Hw Hndu Hlu).
      + apply sum_vals_ext. intros beta. f_equal. f_equal.
        apply map_ext_in. intros i Hi. apply upds_notin. intros Hil. destruct (Hup i Hi) as [_ Hn]. exact (Hn Hil).
      + intros b Hb. destruct (Hfu b Hb) as [H1 [H2 [H3 [H4 H5]]]]. repeat split; assumption.
      + intros i Hi. destruct (Hup i Hi) as [H1 _]. exact H1.
    - intros b Hb. destruct (Hfl b Hb) as [H1 [H2 [H3 [H4 H5]]]]. repeat split; try assumption.
      + intros Hin. apply in_app_or in Hin. destruct Hin; contradiction.
      + intros [t [[<-|Ht] Hi]].
        * destruct tru; cbn [gate_tensor TN.tinds] in Hi; apply in_app_or in Hi; destruct Hi; contradiction.
        * apply in_map_iff in Ht. destruct Ht as [t0 [<- Ht0]]. cbn [reindex TN.tinds] in Hi.
          apply in_map_iff in Hi. destruct Hi as [k [Hk Hk0]].
          destruct (in_dec Nat.eq_dec k up) as [Hku|Hku].
          -- pose proof (rename_in up bu k Hlu Hku) as Hr. rewrite Hk in Hr. destruct (Hfu b Hr) as [_ [_ [Hn _]]]. exact (Hn Hb).
          -- rewrite rename_notin in Hk by exact Hku. subst k. apply H5. exists t0. split; assumption.
    - intros i Hi Hin. apply in_app_or in Hin. destruct Hin as [Hin|Hin].
      + destruct (Hfu i Hin) as [_ [Hn _]]. exact (Hn Hi).
      + exact (Hlo i Hi Hin).
  Qed.

  (* ---- the (transpose, dagger) options -----------------------------------------------
     K carries an arbitrary map `kconj` (conjugation; no property of it is needed).
     The gate tensor is built exactly as the code does (C06/Model.v gate_opts): dagger
     conjugates the array and forces the transposed wiring, whatever `transpose` says. *)
  Variable kconj : K -> K.
  Definition gconj (g : gfun) : gfun := fun o n => kconj (g o n).

  Definition opt_gate_tensor (transpose dagger : bool) (g : gfun) (inds bnds : list ind) : tensor :=
    gate_tensor (snd (Model.gate_opts transpose dagger))
                (if fst (Model.gate_opts transpose dagger) then gconj g else g) inds bnds.

  (* the operator that must be applied: G, G^T, G^dagger, G^dagger *)
  Definition eff_entry (transpose dagger : bool) (g : gfun) (o n : list nat) : K :=
    if dagger then kconj (g n o) else if transpose then g n o else g o n.

  Theorem gate_options_sound tr dg g ts inds bnds summed s :
    Forall wf ts -> NoDup bnds -> length inds = length bnds ->
    (forall b, In b bnds -> ~ In b inds /\ ~ In b summed /\ ~ in_net ts b) ->
    (forall i, In i inds -> ~ In i summed) ->
    value (opt_gate_tensor tr dg g inds bnds :: map (reindex (rename inds bnds)) ts) (bnds ++ summed) s
    = sum_vals (map dim bnds)
        (fun beta => eff_entry tr dg g (map s inds) beta * value ts summed (upds s inds beta)).
  Proof.
    intros Hw Hnd Hl Hf Ho. unfold opt_gate_tensor.
    destruct tr, dg; cbn [Model.gate_opts fst snd]; rewrite gate_lazy_sound by assumption; reflexivity.
  Qed.

  (* sandwich options: upper / lower gate tensors as the code builds them *)
  Definition sandwich_upper (transpose dagger : bool) (g : gfun) (up bu : list ind) : tensor :=
    let o := Model.sandwich_opts transpose dagger in
    gate_tensor (snd o) (if fst (fst o) then gconj g else g) up bu.
  Definition sandwich_lower (transpose dagger : bool) (g : gfun) (lo bl : list ind) : tensor :=
    let o := Model.sandwich_opts transpose dagger in
    gate_tensor (snd o) (if snd (fst o) then gconj g else g) lo bl.

  (* what must act on the lower (bra-like) labels: conj G, G^dagger, G^T, G^T *)
  Definition eff_lower (transpose dagger : bool) (g : gfun) (o n : list nat) : K :=
    if dagger then g n o else if transpose then kconj (g n o) else kconj (g o n).

  Theorem sandwich_options_sound tr dg g ts up lo bu bl summed s :
    Forall wf ts -> NoDup bu -> NoDup bl -> length up = length bu -> length lo = length bl ->
    (forall b, In b bu -> ~ In b up /\ ~ In b lo /\ ~ In b bl /\ ~ In b summed /\ ~ in_net ts b) ->
    (forall b, In b bl -> ~ In b up /\ ~ In b lo /\ ~ In b bu /\ ~ In b summed /\ ~ in_net ts b) ->
    (forall i, In i up -> ~ In i summed /\ ~ In i lo) -> (forall i, In i lo -> ~ In i summed) ->
    value (sandwich_lower tr dg g lo bl
           :: map (reindex (rename lo bl)) (sandwich_upper tr dg g up bu :: map (reindex (rename up bu)) ts))
          (bl ++ bu ++ summed) s
    = sum_vals (map dim bl) (fun gamma => eff_lower tr dg g (map s lo) gamma *
        sum_vals (map dim bu) (fun beta => eff_entry tr dg g (map s up) beta *
          value ts summed (upds (upds s lo gamma) up beta))).
  Proof.
    intros. unfold sandwich_upper, sandwich_lower.
    destruct tr, dg; cbn [Model.sandwich_opts fst snd negb orb]; rewrite gate_sandwich_sound by assumption; reflexivity.
  Qed.
End Gate.

(* C20 model: the index / dispatch layer of quimb/calc.py and of
   quimb/linalg/approx_spectral.py:gen_bipartite_spectral_fn.
   Executable definitions only, hand-written, same branch structure as the
   Python; tied to the implementation by correspondence (harness/c20.py).
   Nothing spectral lives here (entropies, norms, square roots are oracles). *)
From Coq Require Import ZArith List Bool Arith.
Import ListNotations.

Definition prodZ (l : list Z) : Z := fold_right Z.mul 1%Z l.

(* Python `i in sysa` for non-negative integer subsystem labels *)
Definition memn (i : nat) (A : list nat) : bool := existsb (Nat.eqb i) A.

(* ---- partial_transpose ---------------------------------------------------- *)
(* for i in range(ndims):
     if i in sysa: perm_ket.append(i + ndims); perm_bra.append(i)
     else:         perm_ket.append(i);         perm_bra.append(i + ndims)
   .reshape(dims + dims).transpose(perm_ket + perm_bra).reshape(D, D)   *)
Definition pt_perm_ket (n : nat) (A : list nat) : list nat :=
  map (fun i => if memn i A then i + n else i) (seq 0 n).
Definition pt_perm_bra (n : nat) (A : list nat) : list nat :=
  map (fun i => if memn i A then i else i + n) (seq 0 n).
Definition pt_perm (n : nat) (A : list nat) : list nat := pt_perm_ket n A ++ pt_perm_bra n A.

(* numpy transpose at the level of one entry: out[idx] = in[src] where
   src[perm[j]] = idx[j]; pos p perm = the j with perm[j] = p *)
Fixpoint pos (p : nat) (l : list nat) : nat :=
  match l with [] => 0 | x :: t => if Nat.eqb x p then 0 else S (pos p t) end.
Definition transpose_src (perm : list nat) (idx : list Z) : list Z :=
  map (fun p => nth (pos p perm) idx 0%Z) (seq 0 (length perm)).

(* (ket multi-index, bra multi-index) of the entry of rho that
   partial_transpose(rho, dims, sysa) places at (k, b) *)
Definition pt_src (n : nat) (A : list nat) (k b : list Z) : list Z * list Z :=
  let s := transpose_src (pt_perm n A) (k ++ b) in (firstn n s, skipn n s).

(* the closed form: digit i is taken from the other side iff i in sysa *)
Fixpoint sel (A : list nat) (i : nat) (x y : list Z) : list Z :=
  match x, y with
  | a :: x', b :: y' => (if memn i A then b else a) :: sel A (S i) x' y'
  | _, _ => []
  end.

(* partial transpose of a matrix given as a function of (ket, bra) multi-indices *)
Definition PT {K : Type} (A : list nat) (M : list Z -> list Z -> K) : list Z -> list Z -> K :=
  fun k b => M (sel A 0 k b) (sel A 0 b k).

(* row-major flat index <-> multi-index (numpy reshape) *)
Open Scope Z_scope.
Fixpoint ravel (dims idx : list Z) : Z :=
  match dims, idx with
  | _ :: ds, x :: xs => x * prodZ ds + ravel ds xs
  | _, _ => 0
  end.
Fixpoint unravel (dims : list Z) (r : Z) : list Z :=
  match dims with
  | [] => []
  | _ :: ds => (r / prodZ ds) :: unravel ds (r mod prodZ ds)
  end.

(* flat (row, col) of rho that lands at flat (r, c) of the partial transpose *)
Definition pt_flat (dims : list Z) (A : list nat) (r c : Z) : Z * Z :=
  let n := length dims in
  let '(k, b) := pt_src n A (unravel dims r) (unravel dims c) in
  (ravel dims k, ravel dims b).
Close Scope Z_scope.

(* ---- sizes of subsystems ---------------------------------------------------- *)
(* prod(d for i, d in enumerate(dims) if i in sysa), enumerate starting at i *)
Fixpoint prod_sel (i : nat) (A : list nat) (dims : list Z) : Z :=
  match dims with
  | [] => 1%Z
  | d :: ds => ((if memn i A then d else 1) * prod_sel (S i) A ds)%Z
  end.

(* [i for i in range(len(dims)) if i not in sysa] *)
Definition compl (n : nat) (A : list nat) : list nat :=
  filter (fun i => negb (memn i A)) (seq 0 n).

(* check_dims_and_indices: all(0 <= i < nsys for i in sysa + sysb) *)
Definition indices_ok (n : nat) (A B : list nat) : bool :=
  forallb (fun i => Nat.ltb i n) (A ++ B).

(* ---- gen_bipartite_spectral_fn (entropy_subsys, tr_sqrt_subsys) -------------- *)
Inductive route :=
| RPure                                   (* return pure_default *)
| RApprox (sys : list nat) (sz : Z)       (* approx_fn(psi, dims, sys) *)
| RExact (sys : list nat) (sz : Z).       (* exact_fn(ptr(psi, dims, sys)) *)

Definition bipartite_route (dims : list Z) (A : list nat) (thresh : option Z) : route :=
  let sz_a := prod_sel 0 A dims in
  let sz_b := (prodZ dims / sz_a)%Z in
  if (sz_b =? 1)%Z then RPure else
  let '(sz, sys) := if (sz_b <? sz_a)%Z then (sz_b, compl (length dims) A) else (sz_a, A) in
  match thresh with
  | Some t => if (t <=? sz)%Z then RApprox sys sz else RExact sys sz
  | None => RExact sys sz
  end.

(* schmidt_gap: same swap, no approximate branch *)
Definition schmidt_route (dims : list Z) (A : list nat) : route :=
  let sz_a := prod_sel 0 A dims in
  let sz_b := (prodZ dims / sz_a)%Z in
  if (sz_b =? 1)%Z then RPure else
  if (sz_b <? sz_a)%Z then RExact (compl (length dims) A) sz_b else RExact A sz_a.

(* partial_transpose_norm on a ket: swap to the smaller side (also when sz_b = 1) *)
Definition ptn_ket_sys (dims : list Z) (A : list nat) : list nat :=
  let sz_a := prod_sel 0 A dims in
  let sz_b := (prodZ dims / sz_a)%Z in
  if (sz_b <? sz_a)%Z then compl (length dims) A else A.

(* ---- mutinf_subsys ------------------------------------------------------------ *)
(* the entropy_subsys calls issued (subsystem lists), None = ValueError *)
Definition mutinf_subsys_calls (dims : list Z) (A B : list nat) : option (list (list nat)) :=
  if negb (indices_ok (length dims) A B) then None else
  let sz_a := prod_sel 0 A dims in
  let sz_b := prod_sel 0 B dims in
  let sz_c := (prodZ dims / (sz_a * sz_b))%Z in
  if (sz_c =? 1)%Z then Some [A] else Some [A ++ B; A; B].

(* ---- logneg_subsys ------------------------------------------------------------ *)
(* new_dims, new_sysa = [], []; new_inds = iter(range(len(dims)))
   for i, d in enumerate(dims):
       if i in sysa:   new_dims.append(d); new_sysa.append(next(new_inds))
       elif i in sysb: new_dims.append(d); next(new_inds)                     *)
Fixpoint reindex_loop (i c : nat) (dims : list Z) (A B : list nat) : list Z * list nat :=
  match dims with
  | [] => ([], [])
  | d :: ds =>
      if memn i A then
        let '(nd, na) := reindex_loop (S i) (S c) ds A B in (d :: nd, c :: na)
      else if memn i B then
        let '(nd, na) := reindex_loop (S i) (S c) ds A B in (d :: nd, na)
      else reindex_loop (S i) c ds A B
  end.
Definition reindex (dims : list Z) (A B : list nat) := reindex_loop 0 0 dims A B.

(* what partial_trace keeps, in the order it keeps it (ascending; C15) *)
Definition kept (n : nat) (A B : list nat) : list nat :=
  filter (fun i => memn i A || memn i B) (seq 0 n).

Inductive lroute :=
| LReject                                                  (* ValueError *)
| LPureBip (sys : list nat)                                (* tr_sqrt_subsys(psi, dims, sysa) ** 2 *)
| LApprox                                                  (* logneg_subsys_approx *)
| LExact (keep : list nat) (nd : list Z) (na : list nat).  (* logneg(ptr(psi, dims, keep), nd, na) *)

Definition logneg_subsys_route (dims : list Z) (A B : list nat) (thresh : option Z) : lroute :=
  if negb (indices_ok (length dims) A B) then LReject else
  let sz_a := prod_sel 0 A dims in
  let sz_b := prod_sel 0 B dims in
  let sz_ab := (sz_a * sz_b)%Z in
  let sz_c := (prodZ dims / sz_ab)%Z in
  if (sz_c =? 1)%Z then LPureBip A else
  if (match thresh with Some t => (t <=? sz_ab)%Z | None => false end) then LApprox else
  let '(nd, na) := reindex dims A B in LExact (A ++ B) nd na.

(* ---- ket / operator dispatch ---------------------------------------------------- *)
(* isop / isvec on 2-D shapes *)
Definition isop (r c : Z) : bool := (1 <? r)%Z && (1 <? c)%Z.
Definition isvec (r c : Z) : bool := (r =? 1)%Z || (c =? 1)%Z.

Inductive kind := Ket | Op.
Definition kind_of (r c : Z) : kind := if isop r c then Op else Ket.

Inductive measure :=
| MFidelity | MTraceDistance | MMutinf | MPTNorm | MLogneg | MNegativity
| MConcurrence | MDiscord | MMeasure | MCounts | MDecomp | MPartialTranspose.

(* which spectral oracle / formula each measure reaches, as an enum *)
Inductive branch :=
| BOverlap            (* expec(p1, p2): |<a|b>|^2 or <a|rho|a> *)
| BSqrtm              (* tr sqrtm(sqrt(p1) p2 sqrt(p1)) *)
| BKetDistance        (* sqrt(1 - expec) *)
| BTraceNorm          (* 0.5 * || dop(p1) - dop(p2) ||_tr *)
| BEntropySubsys      (* 2 * entropy_subsys(p, dims, sysa), H(AB) = 0 *)
| BThreeEntropies     (* H(A) + H(B) - H(AB) with two partial traces *)
| BTrSqrtSmaller      (* tr_sqrt(ptr(p, dims, smaller side)) ** 2 *)
| BNormPT             (* norm_trace_dense(partial_transpose(p)) *)
| BKetConcurrence     (* |<psi| YY |psi*>| *)
| BWootters           (* eigenvalues of rho (YY rho* YY) *)
| BAsDop              (* convert to a density operator first, then one formula *)
| BAmplitudes         (* |<v_j|psi>|^2  /  |psi_i|^2 *)
| BDiagonal.          (* <v_j|rho|v_j>  /  diag(rho) *)

(* first argument kind, second argument kind (ignored by one-state measures),
   len(dims) > 2 ?  *)
Definition dispatch (m : measure) (k1 k2 : kind) (many : bool) : branch :=
  match m with
  | MFidelity => match k1, k2 with Op, Op => BSqrtm | _, _ => BOverlap end
  | MTraceDistance => match k1, k2 with Ket, Ket => BKetDistance | _, _ => BTraceNorm end
  | MMutinf => match k1 with Op => BThreeEntropies | Ket => BEntropySubsys end
  | MPTNorm | MLogneg | MNegativity => match k1 with Ket => BTrSqrtSmaller | Op => BNormPT end
  | MConcurrence => if many then BWootters else match k1 with Op => BWootters | Ket => BKetConcurrence end
  | MDiscord | MDecomp | MPartialTranspose => BAsDop
  | MMeasure | MCounts => match k1 with Ket => BAmplitudes | Op => BDiagonal end
  end.

(* the contract that makes the ket branch and the operator branch of a measure
   agree on |psi><psi| (validated numerically by the oracle stream) *)
Inductive contract :=
| CSame                  (* same branch, nothing to link *)
| CPureOverlap           (* tr sqrt(sqrt(P) Q sqrt(P)) = |<a|b>| for projectors; <a|rho|a> likewise *)
| CPureDistance          (* 1/2 || P - Q ||_1 = sqrt(1 - |<a|b>|^2) *)
| CSchmidtSymmetry       (* S(A) = S(B), S(AB) = 0 for a pure state *)
| CPurePTNorm            (* || (|psi><psi|)^{T_A} ||_1 = (tr sqrt(rho_A))^2 = (tr sqrt(rho_B))^2 *)
| CPureConcurrence       (* Wootters' formula on a projector = |<psi|YY|psi*>| *)
| CBornRule.             (* <v|psi><psi|v> = |<v|psi>|^2 *)

Definition link (m : measure) (many : bool) : contract :=
  match m with
  | MFidelity => CPureOverlap
  | MTraceDistance => CPureDistance
  | MMutinf => CSchmidtSymmetry
  | MPTNorm | MLogneg | MNegativity => CPurePTNorm
  | MConcurrence => if many then CSame else CPureConcurrence
  | MDiscord | MDecomp | MPartialTranspose => CSame
  | MMeasure | MCounts => CBornRule
  end.

Definition all_measures : list measure :=
  [MFidelity; MTraceDistance; MMutinf; MPTNorm; MLogneg; MNegativity;
   MConcurrence; MDiscord; MMeasure; MCounts; MDecomp; MPartialTranspose].

(* ---- projector / measure: grouping eigenvalues within a tolerance --------------- *)
(* Eigenvalues, the outcome and the tolerance live on one integer grid (floats
   k / 2^s, exact); for a tolerance off the grid the harness passes its ceiling,
   which decides `x < tol` identically for every integer x.
   projector():  which = np.argwhere(abs(el - eigenvalue) < tol)
   measure():    P = projector((el, ev), eigenvalue=eigenvalue, tol=tol)
                 total_prob = np.sum(pj[abs(el - eigenvalue) < tol])        *)
Definition near (lam tol e : Z) : bool := (Z.abs (e - lam) <? tol)%Z.

Fixpoint group_from (i : nat) (el : list Z) (lam tol : Z) : list nat :=
  match el with
  | [] => []
  | e :: t => if near lam tol e then i :: group_from (S i) t lam tol else group_from (S i) t lam tol
  end.
(* indices of the eigenvectors summed into the projector *)
Definition group (el : list Z) (lam tol : Z) : list nat := group_from 0 el lam tol.

(* boolean-mask sum of the probabilities *)
Fixpoint group_sum (el pj : list Z) (lam tol : Z) : Z :=
  match el, pj with
  | e :: t, p :: q => ((if near lam tol e then p else 0) + group_sum t q lam tol)%Z
  | _, _ => 0%Z
  end.

(* the probability mass of the levels with tol1 <= |e - lam| < tol2 *)
Fixpoint annulus_sum (el pj : list Z) (lam tol1 tol2 : Z) : Z :=
  match el, pj with
  | e :: t, p :: q => ((if near lam tol2 e && negb (near lam tol1 e) then p else 0) + annulus_sum t q lam tol1 tol2)%Z
  | _, _ => 0%Z
  end.

(* sum of pj over a list of indices *)
Definition sum_at (pj : list Z) (idx : list nat) : Z := fold_right (fun j acc => (nth j pj 0 + acc)%Z) 0%Z idx.

(* measure(p, (el, ev), eigenvalue, tol): (outcome, eigenvectors projected on, normaliser);
   the caller's tol reaches BOTH the projector and the normaliser *)
Definition measure_model (el pj : list Z) (lam tol : Z) : Z * list nat * Z :=
  (lam, group el lam tol, group_sum el pj lam tol).
(* eigenvalue=None: the sampled level j gives the outcome el[j], grouping is around it *)
Definition measure_sampled (el pj : list Z) (j : nat) (tol : Z) : Z * list nat * Z :=
  measure_model el pj (nth j el 0%Z) tol.

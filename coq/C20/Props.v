(* C20 property theorems (statements only; proofs in C20/Proofs.v, C20/Channel.v).
   Scope: the INDEX / DISPATCH layer of quimb/calc.py.  Entropies, trace norms,
   square roots and eigenvalues are not modelled: every spectral identity of
   C20 is decided by the oracle stream of harness/c20.py (tests, not theorems). *)
From Coq Require Import ZArith List Bool Ring.
From QV Require Import Base.Sums C20.Model C20.Proofs C20.Channel.
Import ListNotations.

(* partial_transpose: the permutation the code builds (perm_ket + perm_bra) fed to
   numpy's transpose reads, for the entry at (ket k, bra b), the entry of rho
   whose digit i is swapped between ket and bra exactly when i is in sysa -
   for every number of subsystems and every index set *)
Theorem C20_partial_transpose_entry : forall n A k b, length k = n -> length b = n ->
  pt_src n A k b = (sel A 0 k b, sel A 0 b k).
Proof. exact pt_src_closed_form. Qed.
Print Assumptions C20_partial_transpose_entry.

Theorem C20_partial_transpose_involutive : forall (K : Type) A (M : list Z -> list Z -> K) k b,
  length k = length b -> PT A (PT A M) k b = M k b.
Proof. exact @PT_involutive. Qed.
Print Assumptions C20_partial_transpose_involutive.

Theorem C20_partial_transpose_all_is_transpose : forall (K : Type) A (M : list Z -> list Z -> K) k b,
  length k = length b -> (forall i, i < length k -> memn i A = true) -> PT A M k b = M b k.
Proof. exact @PT_all_is_transpose. Qed.
Print Assumptions C20_partial_transpose_all_is_transpose.

Theorem C20_partial_transpose_none_is_identity : forall (K : Type) (M : list Z -> list Z -> K) k b,
  length k = length b -> PT [] M k b = M k b.
Proof. exact @PT_none_is_identity. Qed.
Print Assumptions C20_partial_transpose_none_is_identity.

(* transposing the complementary subsystems gives the transposed matrix (same spectrum) *)
Theorem C20_partial_transpose_complement : forall (K : Type) A A' (M : list Z -> list Z -> K) k b,
  length k = length b -> (forall i, i < length k -> memn i A' = negb (memn i A)) ->
  PT A' M k b = PT A M b k.
Proof. exact @PT_complement. Qed.
Print Assumptions C20_partial_transpose_complement.

(* the same at the level of flat (row, column) indices of the D x D matrix *)
Theorem C20_partial_transpose_flat : forall dims A r c, pos_dims dims ->
  (0 <= r < prodZ dims)%Z -> (0 <= c < prodZ dims)%Z ->
  pt_flat dims A r c = (ravel dims (sel A 0 (unravel dims r) (unravel dims c)),
                        ravel dims (sel A 0 (unravel dims c) (unravel dims r)))
  /\ (0 <= fst (pt_flat dims A r c) < prodZ dims)%Z /\ (0 <= snd (pt_flat dims A r c) < prodZ dims)%Z.
Proof. exact pt_flat_spec. Qed.
Print Assumptions C20_partial_transpose_flat.

Theorem C20_partial_transpose_flat_involutive : forall dims A r c, pos_dims dims ->
  (0 <= r < prodZ dims)%Z -> (0 <= c < prodZ dims)%Z ->
  pt_flat dims A (fst (pt_flat dims A r c)) (snd (pt_flat dims A r c)) = (r, c).
Proof. exact pt_flat_involutive. Qed.
Print Assumptions C20_partial_transpose_flat_involutive.

Theorem C20_partial_transpose_flat_all_is_transpose : forall dims A r c, pos_dims dims ->
  (0 <= r < prodZ dims)%Z -> (0 <= c < prodZ dims)%Z ->
  (forall i, i < length dims -> memn i A = true) -> pt_flat dims A r c = (c, r).
Proof. exact pt_flat_all_is_transpose. Qed.
Print Assumptions C20_partial_transpose_flat_all_is_transpose.

(* mixed-radix flat index <-> multi-index is a bijection (numpy reshape) *)
Theorem C20_ravel_unravel : forall dims, pos_dims dims -> forall r, (0 <= r < prodZ dims)%Z ->
  ravel dims (unravel dims r) = r /\ digits_ok (unravel dims r) dims.
Proof. exact ravel_unravel. Qed.
Print Assumptions C20_ravel_unravel.

Theorem C20_unravel_ravel : forall idx dims, digits_ok idx dims -> pos_dims dims ->
  unravel dims (ravel dims idx) = idx.
Proof. exact unravel_ravel. Qed.
Print Assumptions C20_unravel_ravel.

(* logneg_subsys: after ptr(psi, dims, sysa + sysb) - which keeps the in-range
   members of sysa + sysb once each in ascending order - the re-numbered
   (new_dims, new_sysa) address the same physical subsystems: new_dims are the
   dimensions of the kept subsystems in kept order, and new_sysa points, inside
   the kept list, at exactly the members of sysa *)
Theorem C20_subsys_reindex_sound : forall dims A B nd na, reindex dims A B = (nd, na) ->
  let keep := kept (length dims) A B in
  nd = map (fun q => nth q dims 0%Z) keep
  /\ map (fun j => nth j keep 0) na = filter (fun q => memn q A) (seq 0 (length dims))
  /\ Forall (fun j => j < length nd) na.
Proof. exact reindex_sound. Qed.
Print Assumptions C20_subsys_reindex_sound.

Theorem C20_kept_subsystems : forall n A B q, In q (kept n A B) <-> q < n /\ (In q A \/ In q B).
Proof. exact kept_spec. Qed.
Print Assumptions C20_kept_subsystems.

Theorem C20_kept_ascending : forall n A B a b, a < b -> b < length (kept n A B) ->
  nth a (kept n A B) 0 < nth b (kept n A B) 0.
Proof. exact kept_ascending. Qed.
Print Assumptions C20_kept_ascending.

Theorem C20_logneg_subsys_exact_route : forall dims A B thresh keep nd na,
  logneg_subsys_route dims A B thresh = LExact keep nd na ->
  keep = A ++ B /\ reindex dims A B = (nd, na) /\ indices_ok (length dims) A B = true
  /\ (prodZ dims / (prod_sel 0 A dims * prod_sel 0 B dims))%Z <> 1%Z.
Proof. exact logneg_subsys_exact_route. Qed.
Print Assumptions C20_logneg_subsys_exact_route.

Theorem C20_bad_indices_rejected : forall dims A B thresh, indices_ok (length dims) A B = false ->
  logneg_subsys_route dims A B thresh = LReject /\ mutinf_subsys_calls dims A B = None.
Proof. exact bad_indices_rejected. Qed.
Print Assumptions C20_bad_indices_rejected.

(* entropy_subsys / tr_sqrt_subsys / schmidt_gap / partial_transpose_norm:
   size(A) * size(complement) = total size (so the floor division is exact), the
   shortcut is taken iff the complement has size 1, and otherwise the partial
   trace is taken over the complement of the SMALLER side: the subsystem list
   handed on is sysa or its complement and its size is min(size A, size B) *)
Theorem C20_swap_to_smaller_side : forall dims A thresh, pos_dims dims ->
  route_ok dims A thresh (bipartite_route dims A thresh).
Proof. exact bipartite_route_sound. Qed.
Print Assumptions C20_swap_to_smaller_side.

Theorem C20_schmidt_gap_same_rule : forall dims A, schmidt_route dims A = bipartite_route dims A None.
Proof. exact schmidt_route_eq. Qed.
Print Assumptions C20_schmidt_gap_same_rule.

Theorem C20_ptnorm_ket_smaller_side : forall dims A, pos_dims dims ->
  let sys := ptn_ket_sys dims A in
  let sz_a := prod_sel 0 A dims in
  let sz_b := prod_sel 0 (compl (length dims) A) dims in
  prod_sel 0 sys dims = Z.min sz_a sz_b
  /\ ((sys = A /\ (sz_a <= sz_b)%Z) \/ (sys = compl (length dims) A /\ (sz_b < sz_a)%Z)).
Proof. exact ptn_ket_sys_sound. Qed.
Print Assumptions C20_ptnorm_ket_smaller_side.

Theorem C20_subsystem_sizes_multiply : forall dims A,
  (prod_sel 0 A dims * prod_sel 0 (compl (length dims) A) dims)%Z = prodZ dims.
Proof. exact prod_sel_compl. Qed.
Print Assumptions C20_subsystem_sizes_multiply.

(* ket / operator dispatch *)
Theorem C20_isvec_isop_complementary : forall r c, (0 < r)%Z -> (0 < c)%Z -> isvec r c = negb (isop r c).
Proof. exact isvec_isop_complementary. Qed.
Print Assumptions C20_isvec_isop_complementary.

Theorem C20_dispatch_table_linked : forall m many, dispatch_linked m many = true.
Proof. exact dispatch_table_linked. Qed.
Print Assumptions C20_dispatch_table_linked.

(* Kraus maps preserve the trace, measurement probabilities sum to the trace /
   the squared norm, the purification reduces to the state, the one-qubit Pauli
   coefficients reconstruct the operator: over ANY commutative ring *)
Theorem C20_kraus_trace_preserving :
  forall (K : Type) (k0 k1 : K) (kadd kmul ksub : K -> K -> K) (kopp : K -> K),
  ring_theory k0 k1 kadd kmul ksub kopp eq ->
  forall (m e d : nat) (E Ec : nat -> nat -> nat -> K) (rho : nat -> nat -> K),
  (forall a b, a < d -> b < d ->
     sum K k0 kadd m (fun k => sum K k0 kadd e (fun i => kmul (Ec k i b) (E k i a))) = delta K k0 k1 a b) ->
  tr K k0 kadd e (kraus K k0 kadd kmul m d E Ec rho) = tr K k0 kadd d rho.
Proof. exact kraus_trace_preserving. Qed.
Print Assumptions C20_kraus_trace_preserving.

Theorem C20_measure_probs_sum_to_trace :
  forall (K : Type) (k0 k1 : K) (kadd kmul ksub : K -> K -> K) (kopp : K -> K),
  ring_theory k0 k1 kadd kmul ksub kopp eq ->
  forall (d : nat) (ev evc : nat -> nat -> K),
  (forall k l, k < d -> l < d -> sum K k0 kadd d (fun j => kmul (ev l j) (evc k j)) = delta K k0 k1 k l) ->
  forall rho : nat -> nat -> K,
  sum K k0 kadd d (prob_op K k0 kadd kmul d ev evc rho) = tr K k0 kadd d rho.
Proof. exact measure_probs_sum_to_trace. Qed.
Print Assumptions C20_measure_probs_sum_to_trace.

Theorem C20_measure_probs_ket_sum_to_norm :
  forall (K : Type) (k0 k1 : K) (kadd kmul ksub : K -> K -> K) (kopp : K -> K),
  ring_theory k0 k1 kadd kmul ksub kopp eq ->
  forall (d : nat) (ev evc : nat -> nat -> K),
  (forall k l, k < d -> l < d -> sum K k0 kadd d (fun j => kmul (ev l j) (evc k j)) = delta K k0 k1 k l) ->
  forall psi psic : nat -> K,
  sum K k0 kadd d (prob_ket K k0 kadd kmul d ev evc psi psic) = sum K k0 kadd d (fun k => kmul (psi k) (psic k)).
Proof. exact measure_probs_ket_sum_to_norm. Qed.
Print Assumptions C20_measure_probs_ket_sum_to_norm.

Theorem C20_purify_reduces_to_state :
  forall (K : Type) (k0 k1 : K) (kadd kmul ksub : K -> K -> K) (kopp : K -> K),
  ring_theory k0 k1 kadd kmul ksub kopp eq ->
  forall (d : nat) (v vc : nat -> nat -> K) (s sc w : nat -> K) (rho : nat -> nat -> K),
  (forall i, i < d -> kmul (s i) (sc i) = w i) ->
  (forall a b, rho a b = sum K k0 kadd d (fun i => kmul (kmul (w i) (v a i)) (vc b i))) ->
  forall a b,
  sum K k0 kadd d (fun c => kmul (purified K k0 k1 kadd kmul d v s a c) (purifiedc K k0 k1 kadd kmul d vc sc b c))
  = rho a b.
Proof. exact purify_reduces_to_state. Qed.
Print Assumptions C20_purify_reduces_to_state.

Theorem C20_pauli_decomp_reconstructs_one_qubit :
  forall (K : Type) (k0 k1 : K) (kadd kmul ksub : K -> K -> K) (kopp : K -> K),
  ring_theory k0 k1 kadd kmul ksub kopp eq ->
  forall im half : K, kmul im im = kopp k1 -> kadd half half = k1 ->
  forall a00 a01 a10 a11 : K,
  kadd (cI K kadd kmul half a00 a11) (cZ K kadd kmul kopp half a00 a11) = a00
  /\ kadd (cX K kadd kmul half a01 a10) (kmul (cY K kadd kmul kopp im half a01 a10) (kopp im)) = a01
  /\ kadd (cX K kadd kmul half a01 a10) (kmul (cY K kadd kmul kopp im half a01 a10) im) = a10
  /\ kadd (cI K kadd kmul half a00 a11) (kopp (cZ K kadd kmul kopp half a00 a11)) = a11.
Proof. exact pauli_decomp_reconstructs. Qed.
Print Assumptions C20_pauli_decomp_reconstructs_one_qubit.

(* projector() / measure(): eigenvalues are grouped by the decision rule
   |el_j - outcome| < tol.  The projector sums exactly those eigenvectors, once
   each in ascending order; measure()'s boolean-mask normaliser sums the
   probabilities of exactly the same eigenvectors when it is given the same
   tolerance; two tolerances select the same group iff they classify every level
   alike; and a projector built with tol1 under a normaliser summed with
   tol2 >= tol1 is off by the probability mass of the levels in between. *)
Theorem C20_measure_group_spec : forall el lam tol j,
  In j (group el lam tol) <-> (j < length el /\ (Z.abs (nth j el 0 - lam) < tol)%Z).
Proof. exact group_spec. Qed.
Print Assumptions C20_measure_group_spec.

Theorem C20_measure_group_ascending : forall el lam tol, Sorted.StronglySorted lt (group el lam tol).
Proof. exact group_sorted. Qed.
Print Assumptions C20_measure_group_ascending.

Theorem C20_measure_normaliser_sums_the_projected_group : forall el pj lam tol, length pj = length el ->
  group_sum el pj lam tol = sum_at pj (group el lam tol).
Proof. exact group_sum_is_sum_over_group. Qed.
Print Assumptions C20_measure_normaliser_sums_the_projected_group.

Theorem C20_measure_tolerances_agree_iff : forall el lam tol1 tol2,
  group el lam tol1 = group el lam tol2 <->
  (forall e, In e el -> ((Z.abs (e - lam) < tol1)%Z <-> (Z.abs (e - lam) < tol2)%Z)).
Proof. exact group_tol_same_iff. Qed.
Print Assumptions C20_measure_tolerances_agree_iff.

Theorem C20_measure_mixed_tolerances_gap : forall el pj lam tol1 tol2, (tol1 <= tol2)%Z ->
  group_sum el pj lam tol2 = (group_sum el pj lam tol1 + annulus_sum el pj lam tol1 tol2)%Z.
Proof. exact group_sum_annulus. Qed.
Print Assumptions C20_measure_mixed_tolerances_gap.

Theorem C20_measure_model_one_tolerance : forall el pj lam tol, length pj = length el ->
  let '(out, proj, nrm) := measure_model el pj lam tol in
  out = lam /\ proj = group el lam tol /\ nrm = sum_at pj proj.
Proof. exact measure_model_consistent. Qed.
Print Assumptions C20_measure_model_one_tolerance.

Theorem C20_measure_sampled_level_is_projected : forall el pj j tol, j < length el -> (0 < tol)%Z ->
  let '(out, proj, _) := measure_sampled el pj j tol in out = nth j el 0%Z /\ In j proj.
Proof. exact measure_sampled_contains_level. Qed.
Print Assumptions C20_measure_sampled_level_is_projected.

(* over ANY commutative ring, for orthonormal eigenvectors (V^dagger V = 1) and
   arbitrary weights w, v (0/1 indicators of the selected groups in the code):
   tr(P_w rho P_v) = sum_j w_j v_j <v_j|rho|v_j>, so the collapsed operator is
   normalised by sum_{j in group} pj exactly when the normaliser sums the SAME
   group the projector was built from; || P_w psi ||^2 likewise; P_w P_v = P_{wv} *)
Theorem C20_measure_collapse_trace :
  forall (K : Type) (k0 k1 : K) (kadd kmul ksub : K -> K -> K) (kopp : K -> K),
  ring_theory k0 k1 kadd kmul ksub kopp eq ->
  forall (d : nat) (ev evc : nat -> nat -> K),
  (forall i j, i < d -> j < d -> sum K k0 kadd d (fun a => kmul (evc a j) (ev a i)) = delta K k0 k1 i j) ->
  forall (rho : nat -> nat -> K) (w v : nat -> K),
  tr K k0 kadd d (collapsed K k0 kadd kmul d ev evc rho w v)
  = sum K k0 kadd d (fun j => kmul (kmul (w j) (v j)) (prob_op K k0 kadd kmul d ev evc rho j)).
Proof. exact collapse_trace. Qed.
Print Assumptions C20_measure_collapse_trace.

Theorem C20_measure_collapse_normalised_by_same_group :
  forall (K : Type) (k0 k1 : K) (kadd kmul ksub : K -> K -> K) (kopp : K -> K),
  ring_theory k0 k1 kadd kmul ksub kopp eq ->
  forall (d : nat) (ev evc : nat -> nat -> K),
  (forall i j, i < d -> j < d -> sum K k0 kadd d (fun a => kmul (evc a j) (ev a i)) = delta K k0 k1 i j) ->
  forall (rho : nat -> nat -> K) (s : nat -> K), (forall j, j < d -> kmul (s j) (s j) = s j) ->
  tr K k0 kadd d (collapsed K k0 kadd kmul d ev evc rho s s)
  = sum K k0 kadd d (fun j => kmul (s j) (prob_op K k0 kadd kmul d ev evc rho j)).
Proof. exact collapse_trace_same_selection. Qed.
Print Assumptions C20_measure_collapse_normalised_by_same_group.

Theorem C20_measure_collapse_ket_norm :
  forall (K : Type) (k0 k1 : K) (kadd kmul ksub : K -> K -> K) (kopp : K -> K),
  ring_theory k0 k1 kadd kmul ksub kopp eq ->
  forall (d : nat) (ev evc : nat -> nat -> K),
  (forall i j, i < d -> j < d -> sum K k0 kadd d (fun a => kmul (evc a j) (ev a i)) = delta K k0 k1 i j) ->
  forall (psi psic : nat -> K) (w v : nat -> K),
  sum K k0 kadd d (fun a => kmul (proj_ket K k0 kadd kmul d ev evc psi w a) (proj_bra K k0 kadd kmul d ev evc psic v a))
  = sum K k0 kadd d (fun j => kmul (kmul (w j) (v j)) (prob_ket K k0 kadd kmul d ev evc psi psic j)).
Proof. exact collapse_ket_norm. Qed.
Print Assumptions C20_measure_collapse_ket_norm.

Theorem C20_projector_groups_multiply :
  forall (K : Type) (k0 k1 : K) (kadd kmul ksub : K -> K -> K) (kopp : K -> K),
  ring_theory k0 k1 kadd kmul ksub kopp eq ->
  forall (d : nat) (ev evc : nat -> nat -> K),
  (forall i j, i < d -> j < d -> sum K k0 kadd d (fun a => kmul (evc a j) (ev a i)) = delta K k0 k1 i j) ->
  forall (w v : nat -> K) (a b : nat),
  sum K k0 kadd d (fun c => kmul (proj K k0 kadd kmul d ev evc w a c) (proj K k0 kadd kmul d ev evc v c b))
  = proj K k0 kadd kmul d ev evc (fun j => kmul (w j) (v j)) a b.
Proof. exact proj_mul. Qed.
Print Assumptions C20_projector_groups_multiply.

(* non-vacuity: the model computes; the Kraus hypothesis is satisfiable over Z *)
Example C20_examples :
  pt_perm 3 [1] = [0; 4; 2; 3; 1; 5]
  /\ pt_flat [2; 3]%Z [0] 1%Z 5%Z = (4, 2)%Z
  /\ reindex [2; 3; 4; 2]%Z [3; 0] [2] = ([2; 4; 2]%Z, [0; 2])
  /\ kept 4 [3; 0] [2] = [0; 2; 3]
  /\ bipartite_route [2; 3; 4]%Z [1; 2] (Some 8192%Z) = RExact [0] 2%Z
  /\ bipartite_route [2; 3; 4]%Z [0; 1; 2] None = RPure
  /\ logneg_subsys_route [2; 3; 2]%Z [0] [2] None = LExact [0; 2] [2; 2]%Z [0]
  /\ logneg_subsys_route [2; 3; 2]%Z [0] [5] None = LReject
  /\ mutinf_subsys_calls [2; 3; 2]%Z [2] [0] = Some [[2; 0]; [2]; [0]]
  /\ group [-10; -7; 4; 14; 16; 20]%Z 16%Z 4%Z = [3; 4]
  /\ group [-10; -7; 4; 14; 16; 20]%Z 16%Z 5%Z = [3; 4; 5]
  /\ measure_model [-10; -7; 4; 14; 16; 20]%Z [1; 2; 3; 4; 5; 6]%Z 16%Z 5%Z = (16%Z, [3; 4; 5], 15%Z)
  /\ annulus_sum [-10; -7; 4; 14; 16; 20]%Z [1; 2; 3; 4; 5; 6]%Z 16%Z 1%Z 5%Z = 10%Z
  /\ tr Z 0%Z Z.add 2 (kraus Z 0%Z Z.add Z.mul 2 2
        (fun k i a => if Nat.eqb k 0 then (if Nat.eqb i 0 then if Nat.eqb a 0 then 1 else 0 else 0)
                      else (if Nat.eqb i 1 then if Nat.eqb a 1 then 1 else 0 else 0))%Z
        (fun k i a => if Nat.eqb k 0 then (if Nat.eqb i 0 then if Nat.eqb a 0 then 1 else 0 else 0)
                      else (if Nat.eqb i 1 then if Nat.eqb a 1 then 1 else 0 else 0))%Z
        (fun a b => Z.of_nat (3 * a + b + 2))) = 8%Z.
Proof. vm_compute. repeat split. Qed.

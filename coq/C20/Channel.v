(* Kraus maps, projective measurement, purification and the one-qubit Pauli
   decomposition as identities over an ARBITRARY commutative ring K (Section
   variables + ring_theory hypothesis; no axioms).  The "conjugate" entries are
   independent variables: only the stated completeness hypothesis is used, so
   the theorems hold for Z, Z[i], Q, R, C alike. *)
From Coq Require Import Arith List Lia Ring PeanoNat.
From QV Require Import Base.Sums.

Section Channel.
  Variable K : Type.
  Variables (k0 k1 : K) (kadd kmul ksub : K -> K -> K) (kopp : K -> K).
  Hypothesis Kring : ring_theory k0 k1 kadd kmul ksub kopp eq.
  Add Ring Kr20 : Kring.
  Infix "+" := kadd. Infix "*" := kmul.
  Notation sum := (sum K k0 kadd).
  Let sum_ext := sum_ext K k0 kadd.
  Let sum_swap := sum_swap K k0 k1 kadd kmul ksub kopp Kring.
  Let sum_mul_l := sum_mul_l K k0 k1 kadd kmul ksub kopp Kring.
  Let sum_mul_r := sum_mul_r K k0 k1 kadd kmul ksub kopp Kring.
  Let sum_delta := sum_delta K k0 k1 kadd kmul ksub kopp Kring.
  Let sum_all_zero := sum_all_zero K k0 k1 kadd kmul ksub kopp Kring.

  Definition delta (a b : nat) : K := if Nat.eqb b a then k1 else k0.
  Definition tr (d : nat) (M : nat -> nat -> K) : K := sum d (fun i => M i i).

  (* sum_a sum_b rho[a,b] * delta(a,b) = tr rho *)
  Lemma contract_delta d (rho : nat -> nat -> K) :
    sum d (fun a => sum d (fun b => rho a b * delta a b)) = tr d rho.
  Proof.
    unfold tr. apply sum_ext. intros a Ha.
    rewrite (sum_ext d _ (fun b => if Nat.eqb b a then rho a b else k0)).
    - apply sum_delta. exact Ha.
    - intros b _. unfold delta. destruct (Nat.eqb b a); ring.
  Qed.

  (* ---- Kraus map -------------------------------------------------------- *)
  Section Kraus.
    Variables m e d : nat.                (* number of operators, output dim, input dim *)
    Variable E : nat -> nat -> nat -> K.  (* E k i a  = (E_k)[i, a] *)
    Variable Ec : nat -> nat -> nat -> K. (* Ec k j b = conj((E_k)[j, b]) *)
    Variable rho : nat -> nat -> K.
    (* sum_k E_k^dagger E_k = 1 *)
    Hypothesis complete : forall a b, (a < d)%nat -> (b < d)%nat ->
      sum m (fun k => sum e (fun i => Ec k i b * E k i a)) = delta a b.

    (* kraus_op's contraction: sigma[i,j] = sum_k sum_a sum_b E_k[i,a] rho[a,b] conj(E_k[j,b]) *)
    Definition kraus (i j : nat) : K :=
      sum m (fun k => sum d (fun a => sum d (fun b => E k i a * rho a b * Ec k j b))).

    Theorem kraus_trace_preserving : tr e kraus = tr d rho.
    Proof.
      rewrite <- (contract_delta d rho). unfold tr, kraus.
      (* sum_i sum_k sum_a sum_b  ->  sum_a sum_b sum_k sum_i *)
      rewrite sum_swap.                                  (* k i a b *)
      etransitivity.
      { apply sum_ext. intros k _. rewrite sum_swap.     (* k a i b *)
        apply sum_ext. intros a _. apply sum_swap. }     (* k a b i *)
      rewrite sum_swap.                                  (* a k b i *)
      apply sum_ext. intros a Ha. rewrite sum_swap.      (* a b k i *)
      apply sum_ext. intros b Hb.
      rewrite <- (complete a b Ha Hb). rewrite <- sum_mul_l.
      apply sum_ext. intros k _. rewrite <- sum_mul_l.
      apply sum_ext. intros i _. ring.
    Qed.
  End Kraus.

  (* ---- projective measurement ------------------------------------------- *)
  Section Measure.
    Variable d : nat.
    Variable ev : nat -> nat -> K.    (* ev l j  = V[l, j]  (eigenvector j) *)
    Variable evc : nat -> nat -> K.   (* evc k j = conj(V[k, j]) *)
    (* the eigenvectors resolve the identity: V V^dagger = 1 *)
    Hypothesis resolution : forall k l, (k < d)%nat -> (l < d)%nat ->
      sum d (fun j => ev l j * evc k j) = delta k l.

    (* measure(): pj = einsum('jk,kl,lj->j', V^dagger, rho, V) *)
    Definition prob_op (rho : nat -> nat -> K) (j : nat) : K :=
      sum d (fun k => sum d (fun l => evc k j * rho k l * ev l j)).

    Theorem measure_probs_sum_to_trace rho : sum d (prob_op rho) = tr d rho.
    Proof.
      rewrite <- (contract_delta d rho). unfold prob_op.
      rewrite sum_swap. apply sum_ext. intros k Hk.
      rewrite sum_swap. apply sum_ext. intros l Hl.
      rewrite <- (resolution k l Hk Hl). rewrite <- sum_mul_l.
      apply sum_ext. intros j _. ring.
    Qed.

    (* ket branch: pj = |V^dagger psi|^2 = (sum_k conj(V[k,j]) psi_k) (sum_l V[l,j] conj(psi_l)) *)
    Variables psi psic : nat -> K.
    Definition prob_ket (j : nat) : K :=
      sum d (fun k => evc k j * psi k) * sum d (fun l => ev l j * psic l).

    Lemma prob_ket_is_prob_op j : prob_ket j = prob_op (fun k l => psi k * psic l) j.
    Proof.
      unfold prob_ket, prob_op. rewrite <- sum_mul_r. apply sum_ext. intros k _.
      rewrite <- sum_mul_l. apply sum_ext. intros l _. ring.
    Qed.

    Theorem measure_probs_ket_sum_to_norm :
      sum d prob_ket = sum d (fun k => psi k * psic k).
    Proof.
      rewrite (sum_ext d prob_ket (prob_op (fun k l => psi k * psic l))) by (intros; apply prob_ket_is_prob_op).
      rewrite measure_probs_sum_to_trace. reflexivity.
    Qed.
  End Measure.

  (* ---- purification ------------------------------------------------------- *)
  Section Purify.
    Variable d : nat.
    Variables v vc : nat -> nat -> K.   (* eigenvectors v[a, i] and their conjugates *)
    Variables s sc w : nat -> K.        (* sqrt of eigenvalue, its conjugate, eigenvalue *)
    Variable rho : nat -> nat -> K.
    Hypothesis sqrt_ok : forall i, (i < d)%nat -> s i * sc i = w i.
    Hypothesis eig_ok : forall a b, rho a b = sum d (fun i => w i * v a i * vc b i).
    (* purify(): psi[(a, c)] = sum_i s_i v[a,i] [c = i] *)
    Definition purified (a c : nat) : K := sum d (fun i => s i * v a i * delta i c).
    Definition purifiedc (b c : nat) : K := sum d (fun i => sc i * vc b i * delta i c).

    Lemma purified_entry a c : (c < d)%nat -> purified a c = s c * v a c.
    Proof.
      intros Hc. unfold purified.
      rewrite (sum_ext d _ (fun i => if Nat.eqb i c then s i * v a i else k0)).
      - apply sum_delta. exact Hc.
      - intros i _. unfold delta. rewrite Nat.eqb_sym. destruct (Nat.eqb i c); ring.
    Qed.
    Lemma purifiedc_entry b c : (c < d)%nat -> purifiedc b c = sc c * vc b c.
    Proof.
      intros Hc. unfold purifiedc.
      rewrite (sum_ext d _ (fun i => if Nat.eqb i c then sc i * vc b i else k0)).
      - apply sum_delta. exact Hc.
      - intros i _. unfold delta. rewrite Nat.eqb_sym. destruct (Nat.eqb i c); ring.
    Qed.

    (* tracing the ancilla out of the purification returns rho *)
    Theorem purify_reduces_to_state a b :
      sum d (fun c => purified a c * purifiedc b c) = rho a b.
    Proof.
      rewrite eig_ok. apply sum_ext. intros c Hc.
      rewrite purified_entry, purifiedc_entry by exact Hc. rewrite <- (sqrt_ok c Hc). ring.
    Qed.
  End Purify.

  (* ---- one-qubit Pauli decomposition -------------------------------------- *)
  Section Pauli.
    Variables im half : K.
    Hypothesis im_sq : im * im = kopp k1.
    Hypothesis half_ok : half + half = k1.
    Variables a00 a01 a10 a11 : K.
    (* pauli_decomp: c_P = expec(a, P / 2) = tr(a P) / 2 *)
    Definition cI := half * (a00 + a11).
    Definition cX := half * (a01 + a10).
    Definition cY := half * (a01 * im + a10 * kopp im).   (* Y = [[0, -i], [i, 0]] *)
    Definition cZ := half * (a00 + kopp a11).

    Theorem pauli_decomp_reconstructs :
         cI + cZ = a00
      /\ cX + cY * kopp im = a01
      /\ cX + cY * im = a10
      /\ cI + kopp cZ = a11.
    Proof.
      unfold cI, cX, cY, cZ. repeat split.
      - replace (half * (a00 + a11) + half * (a00 + kopp a11)) with ((half + half) * a00) by ring.
        rewrite half_ok. ring.
      - replace (half * (a01 + a10) + half * (a01 * im + a10 * kopp im) * kopp im)
          with (half * (a01 + a10) + half * (kopp (im * im)) * (a01 + kopp a10)) by ring.
        rewrite im_sq.
        replace (half * (a01 + a10) + half * kopp (kopp k1) * (a01 + kopp a10)) with ((half + half) * a01) by ring.
        rewrite half_ok. ring.
      - replace (half * (a01 + a10) + half * (a01 * im + a10 * kopp im) * im)
          with (half * (a01 + a10) + half * (im * im) * (a01 + kopp a10)) by ring.
        rewrite im_sq.
        replace (half * (a01 + a10) + half * kopp k1 * (a01 + kopp a10)) with ((half + half) * a10) by ring.
        rewrite half_ok. ring.
      - replace (half * (a00 + a11) + kopp (half * (a00 + kopp a11))) with ((half + half) * a11) by ring.
        rewrite half_ok. ring.
    Qed.
  End Pauli.

  (* ---- collapse onto a selected group of eigenvectors (projector / measure) --- *)
  Lemma sum_mul_both n m f g c :
    sum n f * c * sum m g = sum n (fun i => sum m (fun j => f i * c * g j)).
  Proof.
    rewrite <- (sum_mul_r n c f). rewrite <- sum_mul_r.
    apply sum_ext. intros i _. rewrite <- sum_mul_l. reflexivity.
  Qed.

  Lemma sum4_swap a b c e (F : nat -> nat -> nat -> nat -> K) :
    sum a (fun k => sum b (fun l => sum c (fun i => sum e (fun j => F k l i j))))
    = sum c (fun i => sum e (fun j => sum a (fun k => sum b (fun l => F k l i j)))).
  Proof.
    etransitivity.
    { apply sum_ext. intros k _. apply sum_swap. }          (* k i l j *)
    rewrite sum_swap.                                        (* i k l j *)
    apply sum_ext. intros i _.
    etransitivity.
    { apply sum_ext. intros k _. apply sum_swap. }          (* i k j l *)
    apply sum_swap.                                          (* i j k l *)
  Qed.

  Section Collapse.
    Variable d : nat.
    Variable ev : nat -> nat -> K.    (* ev a j  = V[a, j]  (eigenvector j) *)
    Variable evc : nat -> nat -> K.   (* evc a j = conj(V[a, j]) *)
    (* the eigenvectors are orthonormal: V^dagger V = 1 *)
    Hypothesis orth : forall i j, (i < d)%nat -> (j < d)%nat ->
      sum d (fun a => evc a j * ev a i) = delta i j.

    (* projector(): P = sum_j w_j |v_j><v_j| ; w is the 0/1 indicator of the group
       selected by the tolerance (the statements hold for arbitrary weights) *)
    Definition proj (w : nat -> K) (a b : nat) : K := sum d (fun j => w j * ev a j * evc b j).

    Variable rho : nat -> nat -> K.
    (* <v_i| rho |v_j> ; the diagonal is measure()'s pj *)
    Definition melt (i j : nat) : K := sum d (fun k => sum d (fun l => evc k i * rho k l * ev l j)).
    Lemma melt_diag_is_prob j : melt j j = prob_op d ev evc rho j.
    Proof. reflexivity. Qed.

    (* measure(): P rho P^dagger, un-normalised, with the projector built from w on the
       left and from v on the right *)
    Definition collapsed (w v : nat -> K) (a b : nat) : K :=
      sum d (fun k => sum d (fun l => proj w a k * rho k l * proj v l b)).

    Lemma collapsed_expand w v a b :
      collapsed w v a b = sum d (fun i => sum d (fun j => w i * v j * ev a i * evc b j * melt i j)).
    Proof.
      unfold collapsed, proj.
      etransitivity.
      { apply sum_ext. intros k _. apply sum_ext. intros l _. apply sum_mul_both. }
      rewrite sum4_swap. apply sum_ext. intros i _. apply sum_ext. intros j _.
      unfold melt. rewrite <- sum_mul_l. apply sum_ext. intros k _.
      rewrite <- sum_mul_l. apply sum_ext. intros l _. ring.
    Qed.

    (* the trace of the collapsed operator is the probability mass of the eigenvectors
       selected on BOTH sides *)
    Theorem collapse_trace w v :
      tr d (collapsed w v) = sum d (fun j => w j * v j * prob_op d ev evc rho j).
    Proof.
      unfold tr.
      etransitivity. { apply sum_ext. intros a _. apply collapsed_expand. }
      rewrite sum_swap. apply sum_ext. intros i Hi.
      rewrite sum_swap.
      rewrite (sum_ext d _ (fun j => if Nat.eqb j i then w i * v j * melt i j else k0)).
      - rewrite sum_delta by exact Hi. rewrite melt_diag_is_prob. reflexivity.
      - intros j Hj.
        rewrite (sum_ext d _ (fun a => (w i * v j * melt i j) * (evc a j * ev a i))) by (intros; ring).
        rewrite sum_mul_l. rewrite (orth i j Hi Hj). unfold delta.
        destruct (Nat.eqb j i); ring.
    Qed.

    (* with ONE 0/1 selection s on both sides (s*s = s) the collapsed state has trace
       sum_{j in group} pj, the number measure() divides by when it sums pj with the
       same selection: the post-measurement state then has the trace of a state *)
    Theorem collapse_trace_same_selection s : (forall j, (j < d)%nat -> s j * s j = s j) ->
      tr d (collapsed s s) = sum d (fun j => s j * prob_op d ev evc rho j).
    Proof.
      intros Hs. rewrite collapse_trace. apply sum_ext. intros j Hj. rewrite (Hs j Hj). reflexivity.
    Qed.

    (* P_w P_v = P_{w v}: projectors on groups multiply by intersecting the groups;
       in particular P_s is idempotent for a 0/1 selection *)
    Theorem proj_mul w v a b :
      sum d (fun c => proj w a c * proj v c b) = proj (fun j => w j * v j) a b.
    Proof.
      unfold proj.
      etransitivity.
      { apply sum_ext. intros c _.
        rewrite <- (Kring.(Rmul_1_l) (sum d (fun j => w j * ev a j * evc c j))).
        rewrite (Kring.(Rmul_comm) k1). apply sum_mul_both. }
      rewrite sum_swap. apply sum_ext. intros i Hi.
      rewrite sum_swap.
      rewrite (sum_ext d _ (fun j => if Nat.eqb j i then w i * v j * ev a i * evc b j else k0)).
      - rewrite sum_delta by exact Hi. ring.
      - intros j Hj.
        rewrite (sum_ext d _ (fun c => (w i * v j * ev a i * evc b j) * (evc c i * ev c j))) by (intros; ring).
        rewrite sum_mul_l. rewrite (orth j i Hj Hi). unfold delta. rewrite Nat.eqb_sym.
        destruct (Nat.eqb j i); ring.
    Qed.
  End Collapse.

  (* ket branch: || P_w psi ||^2 = tr(P_w |psi><psi| P_w) = sum_j w_j w_j |<v_j|psi>|^2 *)
  Section CollapseKet.
    Variable d : nat.
    Variables ev evc : nat -> nat -> K.
    Hypothesis orth : forall i j, (i < d)%nat -> (j < d)%nat ->
      sum d (fun a => evc a j * ev a i) = delta i j.
    Variables psi psic : nat -> K.
    Definition proj_ket (w : nat -> K) (a : nat) : K := sum d (fun k => proj d ev evc w a k * psi k).
    Definition proj_bra (w : nat -> K) (a : nat) : K := sum d (fun l => psic l * proj d ev evc w l a).

    Theorem collapse_ket_norm w v :
      sum d (fun a => proj_ket w a * proj_bra v a)
      = sum d (fun j => w j * v j * prob_ket d ev evc psi psic j).
    Proof.
      transitivity (sum d (fun j => w j * v j * prob_op d ev evc (fun k l => psi k * psic l) j)).
      2: { apply sum_ext. intros j _. rewrite prob_ket_is_prob_op. reflexivity. }
      rewrite <- (collapse_trace d ev evc orth (fun k l => psi k * psic l) w v).
      unfold tr. apply sum_ext. intros a _. unfold proj_ket, proj_bra, collapsed.
      rewrite <- (Kring.(Rmul_1_l) (sum d (fun k => proj d ev evc w a k * psi k))).
      rewrite (Kring.(Rmul_comm) k1). rewrite sum_mul_both.
      apply sum_ext. intros k _. apply sum_ext. intros l _. ring.
    Qed.
  End CollapseKet.
End Channel.

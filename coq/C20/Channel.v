(* Kraus maps, projective measurement, purification and the one-qubit Pauli
   decomposition as identities over an ARBITRARY commutative ring K (Section
   variables + ring_theory hypothesis; no axioms).  The "conjugate" entries are
   independent variables: only the stated completeness hypothesis is used, so
   the theorems hold for Z, Z[i], Q, R, C alike. *)
From Coq Require Import Arith List Lia Ring PeanoNat.
From QV Require Import Base.Sums.

Section Channel.
  Variable K : Type.
  Variables (k0 k1 : K) (kadd kmul ksub : K -> K -> K) (kopp : K -> K).
  Hypothesis Kring : ring_theory k0 k1 kadd kmul ksub kopp eq.
  Add Ring Kr20 : Kring.
  Infix "+" := kadd. Infix "*" := kmul.
  Notation sum := (sum K k0 kadd).
  Let sum_ext := sum_ext K k0 kadd.
  Let sum_swap := sum_swap K k0 k1 kadd kmul ksub kopp Kring.
  Let sum_mul_l := sum_mul_l K k0 k1 kadd kmul ksub kopp Kring.
  Let sum_mul_r := sum_mul_r K k0 k1 kadd kmul ksub kopp Kring.
  Let sum_delta := sum_delta K k0 k1 kadd kmul ksub kopp Kring.
  Let sum_all_zero := sum_all_zero K k0 k1 kadd kmul ksub kopp Kring.

  Definition delta (a b : nat) : K := if Nat.eqb b a then k1 else k0.
  Definition tr (d : nat) (M : nat -> nat -> K) : K := sum d (fun i => M i i).

  (* sum_a sum_b rho[a,b] * delta(a,b) = tr rho *)
  Lemma contract_delta d (rho : nat -> nat -> K) :
    sum d (fun a => sum d (fun b => rho a b * delta a b)) = tr d rho.
  Proof.
    unfold tr. apply sum_ext. intros a Ha.
    rewrite (sum_ext d _ (fun b => if Nat.eqb b a then rho a b else k0)).
    - apply sum_delta. exact Ha.
    - intros b _. unfold delta. destruct (Nat.eqb b a); ring.
  Qed.

  (* ---- Kraus map -------------------------------------------------------- *)
  Section Kraus.
    Variables m e d : nat.                (* number of operators, output dim, input dim *)
    Variable E : nat -> nat -> nat -> K.  (* E k i a  = (E_k)[i, a] *)
    Variable Ec : nat -> nat -> nat -> K. (* Ec k j b = conj((E_k)[j, b]) *)
    Variable rho : nat -> nat -> K.
    (* sum_k E_k^dagger E_k = 1 *)
    Hypothesis complete : forall a b, (a < d)%nat -> (b < d)%nat ->
      sum m (fun k => sum e (fun i => Ec k i b * E k i a)) = delta a b.

    (* kraus_op's contraction: sigma[i,j] = sum_k sum_a sum_b E_k[i,a] rho[a,b] conj(E_k[j,b]) *)
    Definition kraus (i j : nat) : K :=
      sum m (fun k => sum d (fun a => sum d (fun b => E k i a * rho a b * Ec k j b))).

    Theorem kraus_trace_preserving : tr e kraus = tr d rho.
    Proof.
      rewrite <- (contract_delta d rho). unfold tr, kraus.
      (* sum_i sum_k sum_a sum_b  ->  sum_a sum_b sum_k sum_i *)
      rewrite sum_swap.                                  (* k i a b *)
      etransitivity.
      { apply sum_ext. intros k _. rewrite sum_swap.     (* k a i b *)
        apply sum_ext. intros a _. apply sum_swap. }     (* k a b i *)
      rewrite sum_swap.                                  (* a k b i *)
      apply sum_ext. intros a Ha. rewrite sum_swap.      (* a b k i *)
      apply sum_ext. intros b Hb.
      rewrite <- (complete a b Ha Hb). rewrite <- sum_mul_l.
      apply sum_ext. intros k _. rewrite <- sum_mul_l.
      apply sum_ext. intros i _. ring.
    Qed.
  End Kraus.

  (* ---- projective measurement ------------------------------------------- *)
  Section Measure.
    Variable d : nat.
    Variable ev : nat -> nat -> K.    (* ev l j  = V[l, j]  (eigenvector j) *)
    Variable evc : nat -> nat -> K.   (* evc k j = conj(V[k, j]) *)
    (* the eigenvectors resolve the identity: V V^dagger = 1 *)
    Hypothesis resolution : forall k l, (k < d)%nat -> (l < d)%nat ->
      sum d (fun j => ev l j * evc k j) = delta k l.

    (* measure(): pj = einsum('jk,kl,lj->j', V^dagger, rho, V) *)
    Definition prob_op (rho : nat -> nat -> K) (j : nat) : K :=
      sum d (fun k => sum d (fun l => evc k j * rho k l * ev l j)).

    Theorem measure_probs_sum_to_trace rho : sum d (prob_op rho) = tr d rho.
    Proof.
      rewrite <- (contract_delta d rho). unfold prob_op.
      rewrite sum_swap. apply sum_ext. intros k Hk.
      rewrite sum_swap. apply sum_ext. intros l Hl.
      rewrite <- (resolution k l Hk Hl). rewrite <- sum_mul_l.
      apply sum_ext. intros j _. ring.
    Qed.

    (* ket branch: pj = |V^dagger psi|^2 = (sum_k conj(V[k,j]) psi_k) (sum_l V[l,j] conj(psi_l)) *)
    Variables psi psic : nat -> K.
    Definition prob_ket (j : nat) : K :=
      sum d (fun k => evc k j * psi k) * sum d (fun l => ev l j * psic l).

    Lemma prob_ket_is_prob_op j : prob_ket j = prob_op (fun k l => psi k * psic l) j.
    Proof.
      unfold prob_ket, prob_op. rewrite <- sum_mul_r. apply sum_ext. intros k _.
      rewrite <- sum_mul_l. apply sum_ext. intros l _. ring.
    Qed.

    Theorem measure_probs_ket_sum_to_norm :
      sum d prob_ket = sum d (fun k => psi k * psic k).
    Proof.
      rewrite (sum_ext d prob_ket (prob_op (fun k l => psi k * psic l))) by (intros; apply prob_ket_is_prob_op).
      rewrite measure_probs_sum_to_trace. reflexivity.
    Qed.
  End Measure.

  (* ---- purification ------------------------------------------------------- *)
  Section Purify.
    Variable d : nat.
    Variables v vc : nat -> nat -> K.   (* eigenvectors v[a, i] and their conjugates *)
    Variables s sc w : nat -> K.        (* sqrt of eigenvalue, its conjugate, eigenvalue *)
    Variable rho : nat -> nat -> K.
    Hypothesis sqrt_ok : forall i, (i < d)%nat -> s i * sc i = w i.
    Hypothesis eig_ok : forall a b, rho a b = sum d (fun i => w i * v a i * vc b i).
    (* purify(): psi[(a, c)] = sum_i s_i v[a,i] [c = i] *)
    Definition purified (a c : nat) : K := sum d (fun i => s i * v a i * delta i c).
    Definition purifiedc (b c : nat) : K := sum d (fun i => sc i * vc b i * delta i c).

    Lemma purified_entry a c : (c < d)%nat -> purified a c = s c * v a c.
    Proof.
      intros Hc. unfold purified.
      rewrite (sum_ext d _ (fun i => if Nat.eqb i c then s i * v a i else k0)).
      - apply sum_delta. exact Hc.
      - intros i _. unfold delta. rewrite Nat.eqb_sym. destruct (Nat.eqb i c); ring.
    Qed.
    Lemma purifiedc_entry b c : (c < d)%nat -> purifiedc b c = sc c * vc b c.
    Proof.
      intros Hc. unfold purifiedc.
      rewrite (sum_ext d _ (fun i => if Nat.eqb i c then sc i * vc b i else k0)).
      - apply sum_delta. exact Hc.
      - intros i _. unfold delta. rewrite Nat.eqb_sym. destruct (Nat.eqb i c); ring.
    Qed.

    (* tracing the ancilla out of the purification returns rho *)
    Theorem purify_reduces_to_state a b :
      sum d (fun c => purified a c * purifiedc b c) = rho a b.
    Proof.
      rewrite eig_ok. apply sum_ext. intros c Hc.
      rewrite purified_entry, purifiedc_entry by exact Hc. rewrite <- (sqrt_ok c Hc). ring.
    Qed.
  End Purify.

  (* ---- one-qubit Pauli decomposition -------------------------------------- *)
  Section Pauli.
    Variables im half : K.
    Hypothesis im_sq : im * im = kopp k1.
    Hypothesis half_ok : half + half = k1.
    Variables a00 a01 a10 a11 : K.
    (* pauli_decomp: c_P = expec(a, P / 2) = tr(a P) / 2 *)
    Definition cI := half * (a00 + a11).
    Definition cX := half * (a01 + a10).
    Definition cY := half * (a01 * im + a10 * kopp im).   (* Y = [[0, -i], [i, 0]] *)
    Definition cZ := half * (a00 + kopp a11).

    Theorem pauli_decomp_reconstructs :
         cI + cZ = a00
      /\ cX + cY * kopp im = a01
      /\ cX + cY * im = a10
      /\ cI + kopp cZ = a11.
    Proof.
      unfold cI, cX, cY, cZ. repeat split.
      - replace (half * (a00 + a11) + half * (a00 + kopp a11)) with ((half + half) * a00) by ring.
        rewrite half_ok. ring.
      - replace (half * (a01 + a10) + half * (a01 * im + a10 * kopp im) * kopp im)
          with (half * (a01 + a10) + half * (kopp (im * im)) * (a01 + kopp a10)) by ring.
        rewrite im_sq.
        replace (half * (a01 + a10) + half * kopp (kopp k1) * (a01 + kopp a10)) with ((half + half) * a01) by ring.
        rewrite half_ok. ring.
      - replace (half * (a01 + a10) + half * (a01 * im + a10 * kopp im) * im)
          with (half * (a01 + a10) + half * (im * im) * (a01 + kopp a10)) by ring.
        rewrite im_sq.
        replace (half * (a01 + a10) + half * kopp k1 * (a01 + kopp a10)) with ((half + half) * a10) by ring.
        rewrite half_ok. ring.
      - replace (half * (a00 + a11) + kopp (half * (a00 + kopp a11))) with ((half + half) * a11) by ring.
        rewrite half_ok. ring.
    Qed.
  End Pauli.
End Channel.

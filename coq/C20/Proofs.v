(* C20 proofs: partial transpose as an index permutation, subsystem
   re-indexing of the *_subsys shortcuts, the swap-to-the-smaller-side rule,
   ket/operator dispatch tables. *)
From Coq Require Import ZArith List Bool Arith Lia ZifyBool.
From QV Require Import C20.Model.
Import ListNotations.

(* ------------------------------------------------------------------ lists *)
Lemma nth_map_seq {T} (f : nat -> T) a n p d : p < n -> nth p (map f (seq a n)) d = f (a + p).
Proof.
  intros Hp. rewrite (nth_indep _ d (f 0)) by (rewrite map_length, seq_length; exact Hp).
  rewrite map_nth. rewrite seq_nth by exact Hp. reflexivity.
Qed.

Lemma pos_in p l : In p l -> nth (pos p l) l 0 = p /\ pos p l < length l.
Proof.
  induction l as [|x t IH]; intros H; [destruct H|]. cbn [pos].
  destruct (Nat.eqb x p) eqn:E.
  - apply Nat.eqb_eq in E. subst. cbn. split; [reflexivity | lia].
  - apply Nat.eqb_neq in E. destruct H as [H|H]; [contradiction|].
    destruct (IH H) as [A B]. cbn [nth length]. split; [exact A | lia].
Qed.

(* for a list that is an involution of its own positions, pos = nth *)
Lemma pos_involution l :
  (forall j, j < length l -> nth j l 0 < length l /\ nth (nth j l 0) l 0 = j) ->
  forall p, p < length l -> pos p l = nth p l 0.
Proof.
  intros H p Hp. destruct (H p Hp) as [Hb Hinv].
  assert (Hin : In p l). { rewrite <- Hinv. apply nth_In. exact Hb. }
  destruct (pos_in p l Hin) as [Hn Hl].
  destruct (H (pos p l) Hl) as [_ Hinv']. rewrite Hn in Hinv'. symmetry. exact Hinv'.
Qed.

(* ------------------------------------------------------- partial transpose *)
Lemma pt_perm_length n A : length (pt_perm n A) = n + n.
Proof. unfold pt_perm, pt_perm_ket, pt_perm_bra. rewrite app_length, !map_length, !seq_length. reflexivity. Qed.

Lemma pt_perm_lo n A p : p < n -> nth p (pt_perm n A) 0 = if memn p A then p + n else p.
Proof.
  intros Hp. unfold pt_perm. rewrite app_nth1 by (unfold pt_perm_ket; rewrite map_length, seq_length; exact Hp).
  unfold pt_perm_ket. rewrite nth_map_seq by exact Hp. reflexivity.
Qed.

Lemma pt_perm_hi n A q : q < n -> nth (n + q) (pt_perm n A) 0 = if memn q A then q else q + n.
Proof.
  intros Hq. unfold pt_perm.
  rewrite app_nth2 by (unfold pt_perm_ket; rewrite map_length, seq_length; lia).
  unfold pt_perm_ket at 1. rewrite map_length, seq_length.
  replace (n + q - n) with q by lia.
  unfold pt_perm_bra. rewrite nth_map_seq by exact Hq. reflexivity.
Qed.

Lemma pt_perm_involution n A j : j < length (pt_perm n A) ->
  nth j (pt_perm n A) 0 < length (pt_perm n A) /\ nth (nth j (pt_perm n A) 0) (pt_perm n A) 0 = j.
Proof.
  rewrite pt_perm_length. intros Hj.
  destruct (Nat.ltb j n) eqn:E.
  - apply Nat.ltb_lt in E. rewrite (pt_perm_lo n A j E).
    destruct (memn j A) eqn:M.
    + split; [lia|]. replace (j + n) with (n + j) by lia. rewrite (pt_perm_hi n A j E), M. reflexivity.
    + split; [lia|]. rewrite (pt_perm_lo n A j E), M. reflexivity.
  - apply Nat.ltb_ge in E. replace j with (n + (j - n)) by lia.
    assert (Hq : j - n < n) by lia. rewrite (pt_perm_hi n A (j - n) Hq).
    destruct (memn (j - n) A) eqn:M.
    + split; [lia|]. rewrite (pt_perm_lo n A (j - n) Hq), M. lia.
    + split; [lia|]. replace (j - n + n) with (n + (j - n)) by lia.
      rewrite (pt_perm_hi n A (j - n) Hq), M. lia.
Qed.

Lemma pt_pos n A p : p < n + n -> pos p (pt_perm n A) = nth p (pt_perm n A) 0.
Proof.
  intros Hp. apply pos_involution; [apply pt_perm_involution | rewrite pt_perm_length; exact Hp].
Qed.

Lemma sel_length A : forall x y i, length x = length y -> length (sel A i x y) = length x.
Proof.
  induction x as [|a x IH]; intros [|b y] i H; cbn in *; try lia. rewrite IH by lia. reflexivity.
Qed.

Lemma sel_nth A : forall x y i j, length x = length y -> j < length x ->
  nth j (sel A i x y) 0%Z = if memn (i + j) A then nth j y 0%Z else nth j x 0%Z.
Proof.
  induction x as [|a x IH]; intros [|b y] i j H Hj; cbn in H, Hj; try lia.
  cbn [sel]. destruct j as [|j].
  - cbn [nth]. rewrite Nat.add_0_r. reflexivity.
  - cbn [nth]. rewrite IH by lia. replace (S i + j) with (i + S j) by lia. reflexivity.
Qed.

Lemma sel_invol A : forall x y i, length x = length y -> sel A i (sel A i x y) (sel A i y x) = x.
Proof.
  induction x as [|a x IH]; intros [|b y] i H; cbn in H; try lia; [reflexivity|].
  cbn [sel]. destruct (memn i A) eqn:M; rewrite IH by lia; reflexivity.
Qed.

Lemma sel_all A : forall x y i, length x = length y ->
  (forall j, j < length x -> memn (i + j) A = true) -> sel A i x y = y.
Proof.
  induction x as [|a x IH]; intros [|b y] i H Hall; cbn in H; try lia; [reflexivity|].
  cbn [sel]. pose proof (Hall 0 ltac:(cbn; lia)) as H0. rewrite Nat.add_0_r in H0. rewrite H0.
  rewrite IH; [reflexivity | lia |].
  intros j Hj. replace (S i + j) with (i + S j) by lia. apply Hall. cbn. lia.
Qed.

Lemma sel_none : forall x y i, length x = length y -> sel [] i x y = x.
Proof.
  induction x as [|a x IH]; intros [|b y] i H; cbn in H; try lia; [reflexivity|].
  cbn [sel memn existsb]. rewrite IH by lia. reflexivity.
Qed.

Lemma sel_compl A A' : forall x y i, length x = length y ->
  (forall j, j < length x -> memn (i + j) A' = negb (memn (i + j) A)) -> sel A' i x y = sel A i y x.
Proof.
  induction x as [|a x IH]; intros [|b y] i H Hc; cbn in H; try lia; [reflexivity|].
  cbn [sel]. pose proof (Hc 0 ltac:(cbn; lia)) as H0. rewrite Nat.add_0_r in H0. rewrite H0.
  rewrite (IH y (S i)); [destruct (memn i A); reflexivity | lia |].
  intros j Hj. replace (S i + j) with (i + S j) by lia. apply Hc. cbn. lia.
Qed.

(* the permutation built by the code + numpy's transpose = the closed form *)
Lemma transpose_src_pt n A k b : length k = n -> length b = n ->
  transpose_src (pt_perm n A) (k ++ b) = sel A 0 k b ++ sel A 0 b k.
Proof.
  intros Hk Hb. unfold transpose_src. rewrite pt_perm_length.
  apply (nth_ext _ _ 0%Z 0%Z).
  - rewrite map_length, seq_length, app_length, !sel_length by lia. lia.
  - rewrite map_length, seq_length. intros p Hp.
    rewrite (nth_indep _ 0%Z (nth (pos 0 (pt_perm n A)) (k ++ b) 0%Z))
      by (rewrite map_length, seq_length; exact Hp).
    rewrite (map_nth (fun p => nth (pos p (pt_perm n A)) (k ++ b) 0%Z)).
    rewrite seq_nth by exact Hp. cbn [plus]. rewrite pt_pos by exact Hp.
    destruct (Nat.ltb p n) eqn:E.
    + apply Nat.ltb_lt in E. rewrite (pt_perm_lo n A p E).
      rewrite (app_nth1 (sel A 0 k b)) by (rewrite sel_length; lia).
      rewrite sel_nth by lia. cbn [plus].
      destruct (memn p A).
      * rewrite app_nth2 by lia. f_equal. lia.
      * rewrite app_nth1 by lia. reflexivity.
    + apply Nat.ltb_ge in E. replace p with (n + (p - n)) at 1 by lia.
      assert (Hq : p - n < n) by lia. rewrite (pt_perm_hi n A (p - n) Hq).
      rewrite (app_nth2 (sel A 0 k b)) by (rewrite sel_length; lia).
      rewrite (sel_length A k b 0) by lia. rewrite Hk.
      rewrite sel_nth by lia. cbn [plus].
      destruct (memn (p - n) A).
      * rewrite app_nth1 by lia. reflexivity.
      * rewrite app_nth2 by lia. f_equal. lia.
Qed.

Lemma firstn_len_app {T} (a b : list T) n : length a = n -> firstn n (a ++ b) = a.
Proof. intros <-. rewrite firstn_app, Nat.sub_diag, firstn_all. cbn. apply app_nil_r. Qed.
Lemma skipn_len_app {T} (a b : list T) n : length a = n -> skipn n (a ++ b) = b.
Proof. intros <-. rewrite skipn_app, Nat.sub_diag, skipn_all. reflexivity. Qed.

Theorem pt_src_closed_form n A k b : length k = n -> length b = n ->
  pt_src n A k b = (sel A 0 k b, sel A 0 b k).
Proof.
  intros Hk Hb. unfold pt_src. rewrite transpose_src_pt by assumption.
  rewrite firstn_len_app, skipn_len_app by (rewrite sel_length; lia). reflexivity.
Qed.

Theorem PT_involutive {K} A (M : list Z -> list Z -> K) k b : length k = length b ->
  PT A (PT A M) k b = M k b.
Proof. intros H. unfold PT. rewrite !sel_invol by lia. reflexivity. Qed.

Theorem PT_all_is_transpose {K} A (M : list Z -> list Z -> K) k b : length k = length b ->
  (forall i, i < length k -> memn i A = true) -> PT A M k b = M b k.
Proof.
  intros H Hall. unfold PT. rewrite (sel_all A k b 0), (sel_all A b k 0); try lia; try reflexivity.
  - intros j Hj. apply Hall. lia.
  - intros j Hj. apply Hall. lia.
Qed.

Theorem PT_none_is_identity {K} (M : list Z -> list Z -> K) k b : length k = length b -> PT [] M k b = M k b.
Proof. intros H. unfold PT. rewrite !sel_none by lia. reflexivity. Qed.

(* transposing the complementary subsystems = partial transpose followed by the full transpose *)
Theorem PT_complement {K} A A' (M : list Z -> list Z -> K) k b : length k = length b ->
  (forall i, i < length k -> memn i A' = negb (memn i A)) -> PT A' M k b = PT A M b k.
Proof.
  intros H Hc. unfold PT.
  rewrite (sel_compl A A' k b 0), (sel_compl A A' b k 0); try lia; try reflexivity.
  - intros j Hj. apply Hc. lia.
  - intros j Hj. apply Hc. lia.
Qed.

(* ------------------------------------------------------------ flat indices *)
Open Scope Z_scope.
Fixpoint digits_ok (idx dims : list Z) : Prop :=
  match idx, dims with
  | [], [] => True
  | x :: xs, d :: ds => 0 <= x < d /\ digits_ok xs ds
  | _, _ => False
  end.
Definition pos_dims (l : list Z) : Prop := Forall (fun d => 0 < d) l.

Lemma prodZ_cons d l : prodZ (d :: l) = d * prodZ l.
Proof. reflexivity. Qed.
Lemma prodZ_pos l : pos_dims l -> 0 < prodZ l.
Proof. induction 1 as [|d l Hd Hl IH]; [cbn; lia|]. rewrite prodZ_cons. nia. Qed.

Lemma digits_ok_length : forall idx dims, digits_ok idx dims -> length idx = length dims.
Proof.
  induction idx as [|x xs IH]; intros [|d ds] H; cbn in H; try tauto. cbn. f_equal. apply IH. tauto.
Qed.

Lemma ravel_bound : forall idx dims, digits_ok idx dims -> pos_dims dims -> 0 <= ravel dims idx < prodZ dims.
Proof.
  induction idx as [|x xs IH]; intros [|d ds] H Hp; cbn in H; try tauto; [cbn; lia|].
  destruct H as [Hx H]. inversion Hp as [|? ? Hd Hp']; subst.
  specialize (IH ds H Hp'). cbn [ravel]. rewrite prodZ_cons. nia.
Qed.

Lemma unravel_ravel : forall idx dims, digits_ok idx dims -> pos_dims dims -> unravel dims (ravel dims idx) = idx.
Proof.
  induction idx as [|x xs IH]; intros [|d ds] H Hp; cbn in H; try tauto.
  destruct H as [Hx H]. inversion Hp as [|? ? Hd Hp']; subst.
  pose proof (ravel_bound xs ds H Hp') as HB. pose proof (prodZ_pos ds Hp') as HP.
  cbn [ravel unravel]. f_equal.
  - rewrite Z.div_add_l by lia. rewrite (Z.div_small _ _ HB). lia.
  - rewrite Z.add_comm, Z.mod_add by lia. rewrite (Z.mod_small _ _ HB). apply IH; assumption.
Qed.

Lemma ravel_unravel : forall dims, pos_dims dims -> forall r, 0 <= r < prodZ dims ->
  ravel dims (unravel dims r) = r /\ digits_ok (unravel dims r) dims.
Proof.
  induction 1 as [|d ds Hd Hp IH]; intros r Hr.
  - cbn in *. split; [lia | exact I].
  - rewrite prodZ_cons in Hr. pose proof (prodZ_pos ds Hp) as HP.
    cbn [unravel ravel digits_ok].
    pose proof (Z.div_mod r (prodZ ds) ltac:(lia)) as Hdm.
    pose proof (Z.mod_pos_bound r (prodZ ds) HP) as Hm.
    destruct (IH (r mod prodZ ds) Hm) as [E Ok]. rewrite E.
    assert (Hq : 0 <= r / prodZ ds < d).
    { split; [apply Z.div_pos; lia | apply Z.div_lt_upper_bound; lia]. }
    split; [lia | split; [exact Hq | exact Ok]].
Qed.

Lemma sel_digits_ok A : forall x y dims i, digits_ok x dims -> digits_ok y dims -> digits_ok (sel A i x y) dims.
Proof.
  induction x as [|a x IH]; intros [|b y] [|d ds] i Hx Hy; cbn in Hx, Hy; try tauto.
  cbn [sel digits_ok]. destruct Hx as [Ha Hx], Hy as [Hb Hy]. split; [destruct (memn i A); assumption|].
  apply IH; assumption.
Qed.

Theorem pt_flat_spec dims A r c : pos_dims dims -> 0 <= r < prodZ dims -> 0 <= c < prodZ dims ->
  pt_flat dims A r c = (ravel dims (sel A 0 (unravel dims r) (unravel dims c)),
                        ravel dims (sel A 0 (unravel dims c) (unravel dims r)))
  /\ 0 <= fst (pt_flat dims A r c) < prodZ dims /\ 0 <= snd (pt_flat dims A r c) < prodZ dims.
Proof.
  intros Hp Hr Hc.
  destruct (ravel_unravel dims Hp r Hr) as [_ Okr]. destruct (ravel_unravel dims Hp c Hc) as [_ Okc].
  pose proof (digits_ok_length _ _ Okr) as Lr. pose proof (digits_ok_length _ _ Okc) as Lc.
  unfold pt_flat. rewrite pt_src_closed_form by assumption. cbn [fst snd].
  split; [reflexivity|]. split; apply ravel_bound; try assumption; apply sel_digits_ok; assumption.
Qed.

Theorem pt_flat_involutive dims A r c : pos_dims dims -> 0 <= r < prodZ dims -> 0 <= c < prodZ dims ->
  pt_flat dims A (fst (pt_flat dims A r c)) (snd (pt_flat dims A r c)) = (r, c).
Proof.
  intros Hp Hr Hc.
  destruct (pt_flat_spec dims A r c Hp Hr Hc) as [E [B1 B2]].
  destruct (ravel_unravel dims Hp r Hr) as [Er Okr]. destruct (ravel_unravel dims Hp c Hc) as [Ec Okc].
  pose proof (digits_ok_length _ _ Okr) as Lr. pose proof (digits_ok_length _ _ Okc) as Lc.
  destruct (pt_flat_spec dims A _ _ Hp B1 B2) as [E2 _]. rewrite E2. rewrite E. cbn [fst snd].
  rewrite !unravel_ravel by (try assumption; apply sel_digits_ok; assumption).
  rewrite !sel_invol by lia. rewrite Er, Ec. reflexivity.
Qed.

Theorem pt_flat_all_is_transpose dims A r c : pos_dims dims -> 0 <= r < prodZ dims -> 0 <= c < prodZ dims ->
  (forall i, (i < length dims)%nat -> memn i A = true) -> pt_flat dims A r c = (c, r).
Proof.
  intros Hp Hr Hc Hall.
  destruct (pt_flat_spec dims A r c Hp Hr Hc) as [E _]. rewrite E.
  destruct (ravel_unravel dims Hp r Hr) as [Er Okr]. destruct (ravel_unravel dims Hp c Hc) as [Ec Okc].
  pose proof (digits_ok_length _ _ Okr) as Lr. pose proof (digits_ok_length _ _ Okc) as Lc.
  rewrite (sel_all A (unravel dims r) (unravel dims c) 0%nat), (sel_all A (unravel dims c) (unravel dims r) 0%nat).
  - rewrite Er, Ec. reflexivity.
  - lia.
  - intros j Hj. apply Hall. cbn. lia.
  - lia.
  - intros j Hj. apply Hall. cbn. lia.
Qed.

Theorem pt_flat_none_is_identity dims r c : pos_dims dims -> 0 <= r < prodZ dims -> 0 <= c < prodZ dims ->
  pt_flat dims [] r c = (r, c).
Proof.
  intros Hp Hr Hc. destruct (pt_flat_spec dims [] r c Hp Hr Hc) as [E _]. rewrite E.
  destruct (ravel_unravel dims Hp r Hr) as [Er Okr]. destruct (ravel_unravel dims Hp c Hc) as [Ec Okc].
  pose proof (digits_ok_length _ _ Okr) as Lr. pose proof (digits_ok_length _ _ Okc) as Lc.
  rewrite !sel_none by lia. rewrite Er, Ec. reflexivity.
Qed.
Close Scope Z_scope.

(* ------------------------------------------------- subsystem sizes, swap rule *)
Lemma memn_compl n A j : j < n -> memn j (compl n A) = negb (memn j A).
Proof.
  intros Hj. unfold compl. destruct (memn j A) eqn:M; cbn [negb].
  - apply not_true_is_false. intros H. unfold memn in H. apply existsb_exists in H.
    destruct H as [x [Hin Heq]]. apply Nat.eqb_eq in Heq. subst x.
    apply filter_In in Hin. destruct Hin as [_ Hn]. cbn beta in Hn. unfold memn in M. rewrite M in Hn. discriminate.
  - unfold memn. apply existsb_exists. exists j. split; [|apply Nat.eqb_refl].
    apply filter_In. split; [apply in_seq; lia | cbn beta; fold (memn j A); rewrite M; reflexivity].
Qed.

Open Scope Z_scope.
Lemma prod_sel_pos A : forall dims i, pos_dims dims -> 0 < prod_sel i A dims.
Proof.
  induction dims as [|d ds IH]; intros i Hp; cbn [prod_sel]; [lia|].
  inversion Hp as [|? ? Hd Hp']; subst. specialize (IH (S i) Hp'). destruct (memn i A); nia.
Qed.

Lemma prod_sel_split A A' : forall dims i,
  (forall j, (j < length dims)%nat -> memn (i + j) A' = negb (memn (i + j) A)) ->
  prod_sel i A dims * prod_sel i A' dims = prodZ dims.
Proof.
  induction dims as [|d ds IH]; intros i Hc; [reflexivity|].
  cbn [prod_sel]. rewrite prodZ_cons.
  pose proof (Hc 0%nat ltac:(cbn; lia)) as H0. rewrite Nat.add_0_r in H0. rewrite H0.
  assert (E : prod_sel (S i) A ds * prod_sel (S i) A' ds = prodZ ds).
  { apply IH. intros j Hj. replace (S i + j)%nat with (i + S j)%nat by lia. apply Hc. cbn. lia. }
  destruct (memn i A); cbn [negb]; nia.
Qed.

Lemma prod_sel_compl dims A :
  prod_sel 0 A dims * prod_sel 0 (compl (length dims) A) dims = prodZ dims.
Proof. apply prod_sel_split. intros j Hj. cbn [plus]. apply memn_compl. exact Hj. Qed.

Lemma size_b_exact dims A : pos_dims dims ->
  prodZ dims / prod_sel 0 A dims = prod_sel 0 (compl (length dims) A) dims.
Proof.
  intros Hp. pose proof (prod_sel_compl dims A) as E. pose proof (prod_sel_pos A dims 0 Hp) as Ha.
  rewrite <- E. rewrite Z.mul_comm. apply Z.div_mul. lia.
Qed.

Definition route_ok (dims : list Z) (A : list nat) (thresh : option Z) (r : route) : Prop :=
  let n := length dims in
  let sz_a := prod_sel 0 A dims in
  let sz_b := prod_sel 0 (compl n A) dims in
  sz_a * sz_b = prodZ dims /\
  match r with
  | RPure => sz_b = 1
  | RApprox sys sz =>
      sz_b <> 1 /\ sz = Z.min sz_a sz_b /\ sz = prod_sel 0 sys dims
      /\ ((sys = A /\ sz_a <= sz_b) \/ (sys = compl n A /\ sz_b < sz_a))
      /\ exists t, thresh = Some t /\ t <= sz
  | RExact sys sz =>
      sz_b <> 1 /\ sz = Z.min sz_a sz_b /\ sz = prod_sel 0 sys dims
      /\ ((sys = A /\ sz_a <= sz_b) \/ (sys = compl n A /\ sz_b < sz_a))
      /\ (thresh = None \/ exists t, thresh = Some t /\ sz < t)
  end.

Theorem bipartite_route_sound dims A thresh : pos_dims dims ->
  route_ok dims A thresh (bipartite_route dims A thresh).
Proof.
  intros Hp. unfold route_ok, bipartite_route. cbv zeta.
  rewrite (size_b_exact dims A Hp).
  split; [apply prod_sel_compl|].
  set (sa := prod_sel 0 A dims). set (sb := prod_sel 0 (compl (length dims) A) dims).
  destruct (sb =? 1) eqn:E1; [lia|].
  destruct (sb <? sa) eqn:E2.
  - destruct thresh as [t|].
    + destruct (t <=? sb) eqn:E3.
      * repeat split; try lia. right. split; [reflexivity | lia]. exists t. split; [reflexivity | lia].
      * repeat split; try lia. right. split; [reflexivity | lia]. right. exists t. split; [reflexivity | lia].
    + repeat split; try lia. right. split; [reflexivity | lia]. left. reflexivity.
  - destruct thresh as [t|].
    + destruct (t <=? sa) eqn:E3.
      * repeat split; try lia. left. split; [reflexivity | lia]. exists t. split; [reflexivity | lia].
      * repeat split; try lia. left. split; [reflexivity | lia]. right. exists t. split; [reflexivity | lia].
    + repeat split; try lia. left. split; [reflexivity | lia]. left. reflexivity.
Qed.

Lemma schmidt_route_eq dims A : schmidt_route dims A = bipartite_route dims A None.
Proof.
  unfold schmidt_route, bipartite_route. cbv zeta.
  destruct (prodZ dims / prod_sel 0 A dims =? 1); [reflexivity|].
  destruct (prodZ dims / prod_sel 0 A dims <? prod_sel 0 A dims); reflexivity.
Qed.

Theorem ptn_ket_sys_sound dims A : pos_dims dims ->
  let sys := ptn_ket_sys dims A in
  let sz_a := prod_sel 0 A dims in
  let sz_b := prod_sel 0 (compl (length dims) A) dims in
  prod_sel 0 sys dims = Z.min sz_a sz_b
  /\ ((sys = A /\ sz_a <= sz_b) \/ (sys = compl (length dims) A /\ sz_b < sz_a)).
Proof.
  intros Hp. cbv zeta. unfold ptn_ket_sys. cbv zeta. rewrite (size_b_exact dims A Hp).
  destruct (prod_sel 0 (compl (length dims) A) dims <? prod_sel 0 A dims) eqn:E; split; try lia.
  - right. split; [reflexivity | lia].
  - left. split; [reflexivity | lia].
Qed.
Close Scope Z_scope.

(* ------------------------------------------------ logneg_subsys re-indexing *)
Lemma filter_seq_ge (f : nat -> bool) i n q : In q (filter f (seq i n)) -> i <= q < i + n.
Proof. intros H. apply filter_In in H. destruct H as [H _]. apply in_seq in H. lia. Qed.

Lemma reindex_loop_spec A B : forall dims i c nd na,
  reindex_loop i c dims A B = (nd, na) ->
  let keepl := filter (fun q => memn q A || memn q B) (seq i (length dims)) in
  nd = map (fun q => nth (q - i) dims 0%Z) keepl
  /\ Forall (fun j => c <= j < c + length keepl) na
  /\ map (fun j => nth (j - c) keepl 0) na = filter (fun q => memn q A) (seq i (length dims)).
Proof.
  induction dims as [|d ds IH]; intros i c nd na H; cbn [reindex_loop] in H.
  - inversion H; subst. cbn. repeat split. constructor.
  - cbn [length seq filter].
    assert (Hshift : forall l, (forall q, In q l -> S i <= q) ->
              map (fun q => nth (q - i) (d :: ds) 0%Z) l = map (fun q => nth (q - S i) ds 0%Z) l).
    { intros l Hl. apply map_ext_in. intros q Hq. specialize (Hl q Hq).
      replace (q - i) with (S (q - S i)) by lia. reflexivity. }
    destruct (memn i A) eqn:MA; [|destruct (memn i B) eqn:MB]; cbn [orb].
    + destruct (reindex_loop (S i) (S c) ds A B) as [nd' na'] eqn:R. inversion H; subst nd na.
      destruct (IH (S i) (S c) nd' na' R) as [E1 [E2 E3]]. cbv zeta in E1, E2, E3.
      set (keepl' := filter (fun q => memn q A || memn q B) (seq (S i) (length ds))) in *.
      split; [|split].
      * cbn [map]. rewrite Nat.sub_diag. cbn [nth]. f_equal. rewrite E1. symmetry. apply Hshift.
        intros q Hq. apply filter_seq_ge in Hq. lia.
      * constructor; [cbn [length]; lia|]. eapply Forall_impl; [|exact E2]. cbn [length]. intros j Hj. lia.
      * cbn [map]. rewrite Nat.sub_diag. cbn [nth]. f_equal. rewrite <- E3.
        apply map_ext_in. intros j Hj. rewrite Forall_forall in E2. specialize (E2 j Hj).
        replace (j - c) with (S (j - S c)) by lia. reflexivity.
    + destruct (reindex_loop (S i) (S c) ds A B) as [nd' na'] eqn:R. inversion H; subst nd na.
      destruct (IH (S i) (S c) nd' na' R) as [E1 [E2 E3]]. cbv zeta in E1, E2, E3.
      set (keepl' := filter (fun q => memn q A || memn q B) (seq (S i) (length ds))) in *.
      split; [|split].
      * cbn [map]. rewrite Nat.sub_diag. cbn [nth]. f_equal. rewrite E1. symmetry. apply Hshift.
        intros q Hq. apply filter_seq_ge in Hq. lia.
      * eapply Forall_impl; [|exact E2]. cbn [length]. intros j Hj. lia.
      * rewrite <- E3. apply map_ext_in. intros j Hj. rewrite Forall_forall in E2. specialize (E2 j Hj).
        replace (j - c) with (S (j - S c)) by lia. reflexivity.
    + destruct (IH (S i) c nd na H) as [E1 [E2 E3]]. cbv zeta in E1, E2, E3.
      split; [|split]; [|exact E2|exact E3].
      rewrite E1. symmetry. apply Hshift. intros q Hq. apply filter_seq_ge in Hq. lia.
Qed.

Theorem reindex_sound dims A B nd na : reindex dims A B = (nd, na) ->
  let keep := kept (length dims) A B in
  nd = map (fun q => nth q dims 0%Z) keep
  /\ map (fun j => nth j keep 0) na = filter (fun q => memn q A) (seq 0 (length dims))
  /\ Forall (fun j => j < length nd) na.
Proof.
  intros H. destruct (reindex_loop_spec A B dims 0 0 nd na H) as [E1 [E2 E3]]. cbv zeta in *.
  unfold kept. split; [|split].
  - rewrite E1. apply map_ext. intros q. rewrite Nat.sub_0_r. reflexivity.
  - rewrite <- E3. apply map_ext. intros j. rewrite Nat.sub_0_r. reflexivity.
  - rewrite E1, map_length. eapply Forall_impl; [|exact E2]. intros j Hj. cbn beta in Hj. lia.
Qed.

Lemma memn_In i A : memn i A = true <-> In i A.
Proof.
  unfold memn. rewrite existsb_exists. split.
  - intros [x [Hx E]]. apply Nat.eqb_eq in E. subst. exact Hx.
  - intros H. exists i. split; [exact H | apply Nat.eqb_refl].
Qed.

(* what is kept = exactly the in-range members of sysa + sysb, each once, ascending *)
Theorem kept_spec n A B q : In q (kept n A B) <-> q < n /\ (In q A \/ In q B).
Proof.
  unfold kept. rewrite filter_In, in_seq, orb_true_iff, !memn_In. split; intros [H1 H2]; (split; [lia | exact H2]).
Qed.

Lemma filter_seq_sorted (f : nat -> bool) : forall n i, 
  forall a b, a < b -> b < length (filter f (seq i n)) ->
  nth a (filter f (seq i n)) 0 < nth b (filter f (seq i n)) 0.
Proof.
  induction n as [|n IH]; intros i a b Hab Hb; cbn [seq filter length] in *; [lia|].
  destruct (f i).
  - cbn [length] in Hb. destruct b as [|b]; [lia|]. cbn [nth]. destruct a as [|a].
    + assert (Hin : In (nth b (filter f (seq (S i) n)) 0) (filter f (seq (S i) n))) by (apply nth_In; lia).
      apply filter_seq_ge in Hin. lia.
    + apply IH; lia.
  - apply IH; lia.
Qed.

Theorem kept_ascending n A B a b : a < b -> b < length (kept n A B) ->
  nth a (kept n A B) 0 < nth b (kept n A B) 0.
Proof. apply filter_seq_sorted. Qed.

(* the routes of logneg_subsys / mutinf_subsys *)
Theorem logneg_subsys_exact_route dims A B thresh keep nd na :
  logneg_subsys_route dims A B thresh = LExact keep nd na ->
  keep = A ++ B /\ reindex dims A B = (nd, na) /\ indices_ok (length dims) A B = true
  /\ (prodZ dims / (prod_sel 0 A dims * prod_sel 0 B dims))%Z <> 1%Z.
Proof.
  unfold logneg_subsys_route. cbv zeta.
  destruct (indices_ok (length dims) A B); cbn [negb]; [|discriminate].
  destruct (prodZ dims / (prod_sel 0 A dims * prod_sel 0 B dims) =? 1)%Z eqn:E; [discriminate|].
  destruct (match thresh with Some t => (t <=? prod_sel 0 A dims * prod_sel 0 B dims)%Z | None => false end); [discriminate|].
  destruct (reindex dims A B) as [nd' na'] eqn:R. intros H. inversion H; subst.
  repeat split. apply Z.eqb_neq. exact E.
Qed.

Theorem bad_indices_rejected dims A B thresh : indices_ok (length dims) A B = false ->
  logneg_subsys_route dims A B thresh = LReject /\ mutinf_subsys_calls dims A B = None.
Proof. intros H. unfold logneg_subsys_route, mutinf_subsys_calls. rewrite H. split; reflexivity. Qed.

(* --------------------------------------------------- ket / operator dispatch *)
Theorem isvec_isop_complementary r c : (0 < r)%Z -> (0 < c)%Z -> isvec r c = negb (isop r c).
Proof. intros Hr Hc. unfold isvec, isop. lia. Qed.

Definition kinds := [Ket; Op].
Definition contract_eqb (a b : contract) : bool :=
  match a, b with
  | CSame, CSame | CPureOverlap, CPureOverlap | CPureDistance, CPureDistance
  | CSchmidtSymmetry, CSchmidtSymmetry | CPurePTNorm, CPurePTNorm
  | CPureConcurrence, CPureConcurrence | CBornRule, CBornRule => true
  | _, _ => false
  end.
Definition branch_eqb (a b : branch) : bool :=
  match a, b with
  | BOverlap, BOverlap | BSqrtm, BSqrtm | BKetDistance, BKetDistance | BTraceNorm, BTraceNorm
  | BEntropySubsys, BEntropySubsys | BThreeEntropies, BThreeEntropies | BTrSqrtSmaller, BTrSqrtSmaller
  | BNormPT, BNormPT | BKetConcurrence, BKetConcurrence | BWootters, BWootters | BAsDop, BAsDop
  | BAmplitudes, BAmplitudes | BDiagonal, BDiagonal => true
  | _, _ => false
  end.

(* a measure takes different branches on a ket and on an operator exactly when
   a named pure-state contract links the two branches; CSame otherwise *)
Definition dispatch_linked (m : measure) (many : bool) : bool :=
  let differs := negb (branch_eqb (dispatch m Ket Ket many) (dispatch m Op Op many)) in
  Bool.eqb differs (negb (contract_eqb (link m many) CSame)).

Theorem dispatch_table_linked : forall m many, dispatch_linked m many = true.
Proof. intros [] []; vm_compute; reflexivity. Qed.

(* two-state measures: a mixed pair (ket, operator) takes the branch that accepts both kinds *)
Theorem two_state_mixed_dispatch :
  dispatch MFidelity Ket Op false = BOverlap /\ dispatch MFidelity Op Ket false = BOverlap
  /\ dispatch MTraceDistance Ket Op false = BTraceNorm /\ dispatch MTraceDistance Op Ket false = BTraceNorm.
Proof. vm_compute. repeat split. Qed.

From Coq Require Import Sorted.
(* ------------------------------------------ projector / measure: tolerance grouping *)
Lemma group_from_spec el : forall i lam tol j,
  In j (group_from i el lam tol) <-> (i <= j < i + length el /\ near lam tol (nth (j - i) el 0%Z) = true).
Proof.
  induction el as [|e t IH]; intros i lam tol j; cbn [group_from length].
  - split; [intros [] | intros [H _]; lia].
  - destruct (near lam tol e) eqn:E.
    + cbn [In]. rewrite IH. split.
      * intros [H | [H1 H2]].
        -- subst j. rewrite Nat.sub_diag. cbn. split; [lia | exact E].
        -- split; [lia|]. replace (j - i) with (S (j - S i)) by lia. exact H2.
      * intros [H1 H2]. destruct (Nat.eq_dec i j) as [->|Hn]; [left; reflexivity | right].
        split; [lia|]. replace (j - i) with (S (j - S i)) in H2 by lia. exact H2.
    + rewrite IH. split.
      * intros [H1 H2]. split; [lia|]. replace (j - i) with (S (j - S i)) by lia. exact H2.
      * intros [H1 H2]. destruct (Nat.eq_dec i j) as [->|Hn].
        -- rewrite Nat.sub_diag in H2. cbn in H2. congruence.
        -- split; [lia|]. replace (j - i) with (S (j - S i)) in H2 by lia. exact H2.
Qed.

(* the projector sums exactly the eigenvectors whose eigenvalue is strictly within tol of the outcome *)
Theorem group_spec el lam tol j :
  In j (group el lam tol) <-> (j < length el /\ (Z.abs (nth j el 0 - lam) < tol)%Z).
Proof.
  unfold group. rewrite group_from_spec. rewrite Nat.sub_0_r. unfold near. split.
  - intros [H1 H2]. split; [lia|]. apply Z.ltb_lt. exact H2.
  - intros [H1 H2]. split; [lia|]. apply Z.ltb_lt. exact H2.
Qed.

Lemma group_from_sorted el : forall i lam tol, StronglySorted lt (group_from i el lam tol).
Proof.
  induction el as [|e t IH]; intros i lam tol; cbn [group_from]; [constructor|].
  destruct (near lam tol e); [|apply IH].
  constructor; [apply IH|]. apply Forall_forall. intros j Hj. apply group_from_spec in Hj. lia.
Qed.

(* each selected eigenvector enters once, in ascending order *)
Theorem group_sorted el lam tol : StronglySorted lt (group el lam tol).
Proof. apply group_from_sorted. Qed.

Lemma group_sum_sum_at_gen el : forall pj pre lam tol, length pj = length el ->
  group_sum el pj lam tol = sum_at (pre ++ pj) (group_from (length pre) el lam tol).
Proof.
  induction el as [|e t IH]; intros pj pre lam tol Hl; destruct pj as [|p q]; try discriminate; [reflexivity|].
  cbn [group_sum group_from]. cbn in Hl.
  assert (Hq : pre ++ p :: q = (pre ++ [p]) ++ q) by (rewrite <- app_assoc; reflexivity).
  assert (Hlen : S (length pre) = length (pre ++ [p])) by (rewrite app_length; cbn; lia).
  specialize (IH q (pre ++ [p]) lam tol ltac:(lia)). rewrite <- Hlen, <- Hq in IH.
  destruct (near lam tol e).
  - cbn [sum_at fold_right]. fold (sum_at (pre ++ p :: q) (group_from (S (length pre)) t lam tol)).
    rewrite <- IH. rewrite app_nth2 by lia. rewrite Nat.sub_diag. cbn [nth]. reflexivity.
  - rewrite <- IH. lia.
Qed.

(* measure()'s boolean-mask normaliser sums the probabilities of exactly the
   eigenvectors projector() sums - when both are given the same tolerance *)
Theorem group_sum_is_sum_over_group el pj lam tol : length pj = length el ->
  group_sum el pj lam tol = sum_at pj (group el lam tol).
Proof. intros H. exact (group_sum_sum_at_gen el pj [] lam tol H). Qed.

Lemma near_mono lam tol1 tol2 e : (tol1 <= tol2)%Z -> near lam tol1 e = true -> near lam tol2 e = true.
Proof. unfold near. intros H H1. apply Z.ltb_lt in H1. apply Z.ltb_lt. lia. Qed.

(* a projector built with tol1 and a normaliser summed with tol2 >= tol1 differ by
   the probability mass of the levels with tol1 <= |e - outcome| < tol2 *)
Theorem group_sum_annulus el : forall pj lam tol1 tol2, (tol1 <= tol2)%Z ->
  group_sum el pj lam tol2 = (group_sum el pj lam tol1 + annulus_sum el pj lam tol1 tol2)%Z.
Proof.
  induction el as [|e t IH]; intros pj lam tol1 tol2 H; destruct pj as [|p q]; try reflexivity.
  cbn [group_sum annulus_sum]. rewrite (IH q lam tol1 tol2 H).
  destruct (near lam tol1 e) eqn:E1.
  - rewrite (near_mono lam tol1 tol2 e H E1). cbn. lia.
  - destruct (near lam tol2 e); cbn; lia.
Qed.

Lemma group_from_same_iff el : forall i lam tol1 tol2,
  group_from i el lam tol1 = group_from i el lam tol2 <-> (forall e, In e el -> near lam tol1 e = near lam tol2 e).
Proof.
  induction el as [|e t IH]; intros i lam tol1 tol2; cbn [group_from].
  - split; [intros _ x [] | reflexivity].
  - split.
    + intros H x [Hx|Hx].
      * subst x. destruct (near lam tol1 e) eqn:E1, (near lam tol2 e) eqn:E2; try reflexivity; exfalso.
        -- assert (Hin : In i (group_from (S i) t lam tol2)) by (rewrite <- H; left; reflexivity).
           apply group_from_spec in Hin. lia.
        -- assert (Hin : In i (group_from (S i) t lam tol1)) by (rewrite H; left; reflexivity).
           apply group_from_spec in Hin. lia.
      * revert x Hx. apply (IH (S i)).
        destruct (near lam tol1 e) eqn:E1, (near lam tol2 e) eqn:E2.
        -- injection H. auto.
        -- exfalso. assert (Hin : In i (group_from (S i) t lam tol2)) by (rewrite <- H; left; reflexivity).
           apply group_from_spec in Hin. lia.
        -- exfalso. assert (Hin : In i (group_from (S i) t lam tol1)) by (rewrite H; left; reflexivity).
           apply group_from_spec in Hin. lia.
        -- exact H.
    + intros H. rewrite (H e (or_introl eq_refl)).
      assert (Ht : group_from (S i) t lam tol1 = group_from (S i) t lam tol2).
      { apply IH. intros x Hx. apply H. right. exact Hx. }
      rewrite Ht. reflexivity.
Qed.

(* the tolerance matters exactly when some level lies between the two tolerances:
   two tolerances select the same eigenvectors iff they classify every level alike *)
Theorem group_tol_same_iff el lam tol1 tol2 :
  group el lam tol1 = group el lam tol2 <->
  (forall e, In e el -> ((Z.abs (e - lam) < tol1)%Z <-> (Z.abs (e - lam) < tol2)%Z)).
Proof.
  unfold group. rewrite group_from_same_iff. unfold near. split; intros H e He; specialize (H e He).
  - rewrite <- !Z.ltb_lt. rewrite H. tauto.
  - destruct (Z.abs (e - lam) <? tol1)%Z eqn:E1, (Z.abs (e - lam) <? tol2)%Z eqn:E2; try reflexivity; exfalso.
    + apply Z.ltb_lt in E1. apply Z.ltb_ge in E2. apply H in E1. lia.
    + apply Z.ltb_lt in E2. apply Z.ltb_ge in E1. apply H in E2. lia.
Qed.

(* the model of measure() hands ONE tolerance to both cooperating sites, and the
   sampled-outcome path groups around the sampled level *)
Theorem measure_model_consistent el pj lam tol : length pj = length el ->
  let '(out, proj, nrm) := measure_model el pj lam tol in
  out = lam /\ proj = group el lam tol /\ nrm = sum_at pj proj.
Proof. intros H. cbn. repeat split. apply group_sum_is_sum_over_group. exact H. Qed.

Theorem measure_sampled_contains_level el pj j tol : j < length el -> (0 < tol)%Z ->
  let '(out, proj, _) := measure_sampled el pj j tol in out = nth j el 0%Z /\ In j proj.
Proof.
  intros Hj Ht. cbn. split; [reflexivity|]. apply group_spec. split; [exact Hj|].
  rewrite Z.sub_diag. cbn. exact Ht.
Qed.

(* C16 - the worker ("world") level of the parallel operator build / application
   (quimb/operator/builder.py: build_coo_data, matvec; quimb/operator/configcore.py:
   every kernel loops `for ci in range(world_rank, D, world_size)`).

   Model: worker r of W visits `stride r D W` = [r, r+W, r+2W, ...) below D, exactly
   Python's range(r, D, W).  The parallel COO build concatenates the workers' outputs
   in rank order; the parallel matvec lets worker r accumulate into a private zeroed
   row and returns the column sums (written over `out`), the serial matvec clears
   `out` and accumulates everything into it.

   Theorems (all sizes D, all worker counts W >= 1, no bound):
     * every row index below D is visited by exactly one worker, exactly once;
     * the concatenated parallel COO list is a permutation of the serial one, so any
       order-insensitive reading of it (a COO matrix sums duplicates) is the same;
     * over any commutative monoid, the sum of the workers' private buffers is the
       serial result, whatever the caller-supplied `out` held before. *)
From Coq Require Import Arith List Lia PeanoNat Permutation Bool.
Import ListNotations.

(* range(r, D, W) *)
Definition rlen (r D W : nat) : nat := if r <? D then (D - r + W - 1) / W else 0.
Definition stride (r D W : nat) : list nat := map (fun k => r + k * W) (seq 0 (rlen r D W)).

Lemma rlen_spec r D W k : 1 <= W -> (k < rlen r D W <-> r + k * W < D).
Proof.
  intros HW. unfold rlen. destruct (r <? D) eqn:E.
  - apply Nat.ltb_lt in E. split; intros H.
    + assert (k + 1 <= (D - r + W - 1) / W) by lia.
      assert ((k + 1) * W <= D - r + W - 1).
      { eapply Nat.le_trans; [apply Nat.mul_le_mono_r; exact H0|]. rewrite Nat.mul_comm. apply Nat.mul_div_le. lia. }
      nia.
    + apply Nat.div_le_lower_bound; [lia|]. nia.
  - apply Nat.ltb_ge in E. split; intros H; [lia | nia].
Qed.

Lemma in_stride r D W ci : 1 <= W -> (In ci (stride r D W) <-> ci < D /\ r <= ci /\ (ci - r) mod W = 0).
Proof.
  intros HW. unfold stride. rewrite in_map_iff. split.
  - intros [k [Hk Hin]]. apply in_seq in Hin. destruct Hin as [_ Hlt]. cbn in Hlt.
    apply (rlen_spec r D W k HW) in Hlt. subst ci. repeat split; [exact Hlt | lia |].
    replace (r + k * W - r) with (k * W) by lia. apply Nat.mod_mul. lia.
  - intros [Hlt [Hle Hm]]. exists ((ci - r) / W).
    assert (Hd : ci - r = W * ((ci - r) / W)).
    { pose proof (Nat.div_mod (ci - r) W ltac:(lia)) as H. rewrite Hm in H. lia. }
    split; [nia|]. apply in_seq. split; [lia|]. cbn. apply (rlen_spec r D W _ HW). nia.
Qed.

Lemma NoDup_stride r D W : 1 <= W -> NoDup (stride r D W).
Proof.
  intros HW. unfold stride. apply FinFun.Injective_map_NoDup; [|apply seq_NoDup].
  intros a b H. nia.
Qed.

(* a worker below W visits exactly the rows congruent to its rank *)
Lemma in_stride_rank r D W ci : 1 <= W -> r < W -> (In ci (stride r D W) <-> ci < D /\ ci mod W = r).
Proof.
  intros HW Hr. rewrite (in_stride r D W ci HW). split.
  - intros [Hlt [Hle Hm]]. split; [exact Hlt|].
    assert (Hd : ci - r = W * ((ci - r) / W)).
    { pose proof (Nat.div_mod (ci - r) W ltac:(lia)) as H. rewrite Hm in H. lia. }
    replace ci with (r + ((ci - r) / W) * W) by nia.
    rewrite Nat.mod_add by lia. apply Nat.mod_small. exact Hr.
  - intros [Hlt Hm]. pose proof (Nat.div_mod ci W ltac:(lia)) as H. rewrite Hm in H.
    repeat split; [exact Hlt | lia |].
    replace (ci - r) with ((ci / W) * W) by lia. apply Nat.mod_mul. lia.
Qed.

(* all workers, in rank order *)
Definition all_strides (D W : nat) : list nat := flat_map (fun r => stride r D W) (seq 0 W).

Lemma in_all_strides D W ci : 1 <= W -> (In ci (all_strides D W) <-> ci < D).
Proof.
  intros HW. unfold all_strides. rewrite in_flat_map. split.
  - intros [r [Hr Hin]]. apply in_seq in Hr. apply (in_stride_rank r D W ci HW) in Hin; [tauto | lia].
  - intros Hlt. exists (ci mod W). split.
    + apply in_seq. split; [lia|]. cbn. apply Nat.mod_upper_bound. lia.
    + apply (in_stride_rank (ci mod W) D W ci HW); [apply Nat.mod_upper_bound; lia | tauto].
Qed.

Lemma NoDup_app_intro {A} (l l' : list A) :
  NoDup l -> NoDup l' -> (forall x, In x l -> ~ In x l') -> NoDup (l ++ l').
Proof.
  induction l as [|a l IH]; cbn; intros Hl Hl' Hd; [exact Hl'|].
  inversion Hl as [|? ? Hna NDl]; subst. constructor.
  - rewrite in_app_iff. intros [Hin|Hin]; [contradiction|]. apply (Hd a); [left; reflexivity | exact Hin].
  - apply IH; [exact NDl | exact Hl' |]. intros x Hx. apply Hd. right. exact Hx.
Qed.

Lemma NoDup_flat_map_disjoint {A B} (f : A -> list B) (l : list A) :
  NoDup l -> (forall a, In a l -> NoDup (f a)) ->
  (forall a a' b, In a l -> In a' l -> In b (f a) -> In b (f a') -> a = a') ->
  NoDup (flat_map f l).
Proof.
  induction l as [|x l IH]; intros ND Hf Hd; cbn; [constructor|].
  inversion ND as [|? ? Hnx NDl]; subst.
  apply NoDup_app_intro.
  - apply Hf. left. reflexivity.
  - apply IH; [exact NDl | intros; apply Hf; right; assumption |].
    intros a a' b Ha Ha'. apply Hd; right; assumption.
  - intros b Hb Hin. apply in_flat_map in Hin. destruct Hin as [a [Ha Hba]].
    assert (x = a) by (apply (Hd x a b); [left; reflexivity | right; exact Ha | exact Hb | exact Hba]).
    subst. contradiction.
Qed.

Lemma NoDup_all_strides D W : 1 <= W -> NoDup (all_strides D W).
Proof.
  intros HW. unfold all_strides. apply NoDup_flat_map_disjoint.
  - apply seq_NoDup.
  - intros r _. apply NoDup_stride. exact HW.
  - intros r r' ci Hr Hr' H1 H2. apply in_seq in Hr. apply in_seq in Hr'.
    apply (in_stride_rank r D W ci HW) in H1; [|lia]. apply (in_stride_rank r' D W ci HW) in H2; [|lia]. lia.
Qed.

(* every row is visited by exactly one worker, exactly once: the workers' visit lists, concatenated in rank
   order, are a permutation of range(D) *)
Theorem world_partition D W : 1 <= W -> Permutation (seq 0 D) (all_strides D W).
Proof.
  intros HW. apply NoDup_Permutation; [apply seq_NoDup | apply NoDup_all_strides; exact HW |].
  intros ci. rewrite (in_all_strides D W ci HW). rewrite in_seq. lia.
Qed.

Theorem world_unique_worker D W ci : 1 <= W -> ci < D ->
  exists! r, r < W /\ In ci (stride r D W).
Proof.
  intros HW Hlt. exists (ci mod W). split.
  - split; [apply Nat.mod_upper_bound; lia|].
    apply (in_stride_rank (ci mod W) D W ci HW); [apply Nat.mod_upper_bound; lia | tauto].
  - intros r [Hr Hin]. apply (in_stride_rank r D W ci HW Hr) in Hin. lia.
Qed.

(* ---- parallel COO build: concatenation in rank order ------------------------------------------- *)
Section Coo.
  Variable T : Type.                       (* a COO triplet (data, row, col) *)
  Variable emit : nat -> list T.           (* what the kernel appends while visiting row ci *)

  Definition coo_worker (r D W : nat) : list T := flat_map emit (stride r D W).
  Definition coo_serial (D : nat) : list T := flat_map emit (seq 0 D).
  Definition coo_parallel (D W : nat) : list T := flat_map (fun r => coo_worker r D W) (seq 0 W).

  Lemma flat_map_flat_map {A B C} (f : A -> list B) (g : B -> list C) l :
    flat_map g (flat_map f l) = flat_map (fun a => flat_map g (f a)) l.
  Proof. induction l as [|a l IH]; cbn; [reflexivity|]. rewrite flat_map_app, IH. reflexivity. Qed.

  Lemma Permutation_flat_map_l {A B} (g : A -> list B) l l' : Permutation l l' -> Permutation (flat_map g l) (flat_map g l').
  Proof.
    induction 1 as [|x l l' HP IH|x y l|l l' l'' HP1 IH1 HP2 IH2]; cbn.
    - constructor.
    - apply Permutation_app_head. exact IH.
    - rewrite !app_assoc. apply Permutation_app_tail. apply Permutation_app_comm.
    - eapply Permutation_trans; eassumption.
  Qed.

  Theorem coo_parallel_is_permutation_of_serial D W : 1 <= W ->
    Permutation (coo_serial D) (coo_parallel D W).
  Proof.
    intros HW. unfold coo_serial, coo_parallel, coo_worker.
    rewrite <- (flat_map_flat_map (fun r => stride r D W) emit (seq 0 W)).
    apply Permutation_flat_map_l. apply world_partition. exact HW.
  Qed.

  (* with one worker the parallel build IS the serial build *)
  Theorem coo_one_worker D : coo_parallel D 1 = coo_serial D.
  Proof.
    unfold coo_parallel, coo_serial, coo_worker. cbn [seq flat_map]. rewrite app_nil_r. f_equal.
    unfold stride, rlen. destruct (0 <? D) eqn:E.
    - replace (D - 0 + 1 - 1) with D by lia. rewrite Nat.div_1_r.
      rewrite <- (map_id (seq 0 D)) at 2. apply map_ext. intros k. lia.
    - apply Nat.ltb_ge in E. assert (D = 0) by lia. subst. reflexivity.
  Qed.
End Coo.

(* ---- parallel matvec: private zeroed buffers, summed over `out` --------------------------------- *)
Section Matvec.
  Variable V : Type.
  Variable v0 : V.
  Variable vadd : V -> V -> V.
  Hypothesis vadd_comm : forall a b, vadd a b = vadd b a.
  Hypothesis vadd_assoc : forall a b c, vadd a (vadd b c) = vadd (vadd a b) c.
  Hypothesis vadd_0_l : forall a, vadd v0 a = a.

  (* contrib ci j: what visiting row ci adds to out[j] (the kernels scatter-accumulate) *)
  Variable contrib : nat -> nat -> V.

  Definition vsum (l : list V) : V := fold_right vadd v0 l.

  (* the kernel ACCUMULATES into the buffer it is given *)
  Definition kernel (buf : nat -> V) (rows : list nat) : nat -> V :=
    fun j => vadd (buf j) (vsum (map (fun ci => contrib ci j) rows)).

  Definition zeros : nat -> V := fun _ => v0.

  (* serial branch: out[...] = 0; matvec_numba(x, out) *)
  Definition matvec_serial (out : nat -> V) (D : nat) : nat -> V := kernel zeros (seq 0 D).
  (* parallel branch: out_i = zeros((W, n)); worker i accumulates into out_i[i]; np.sum(out_i, axis=0, out=out) *)
  Definition matvec_parallel (out : nat -> V) (D W : nat) : nat -> V :=
    fun j => vsum (map (fun r => kernel zeros (stride r D W) j) (seq 0 W)).

  Lemma vsum_app l l' : vsum (l ++ l') = vadd (vsum l) (vsum l').
  Proof.
    induction l as [|a l IH]; cbn [app].
    - change (vsum []) with v0. rewrite vadd_0_l. reflexivity.
    - change (vsum (a :: l ++ l')) with (vadd a (vsum (l ++ l'))).
      change (vsum (a :: l)) with (vadd a (vsum l)). rewrite IH. apply vadd_assoc.
  Qed.

  Lemma vsum_perm l l' : Permutation l l' -> vsum l = vsum l'.
  Proof.
    induction 1 as [|x l l' HP IH|x y l|l l' l'' HP1 IH1 HP2 IH2].
    - reflexivity.
    - change (vadd x (vsum l) = vadd x (vsum l')). rewrite IH. reflexivity.
    - change (vadd y (vadd x (vsum l)) = vadd x (vadd y (vsum l))).
      rewrite !vadd_assoc. rewrite (vadd_comm y x). reflexivity.
    - congruence.
  Qed.

  Lemma vsum_flat_map {A} (f : A -> list V) l : vsum (flat_map f l) = vsum (map (fun a => vsum (f a)) l).
  Proof. induction l as [|a l IH]; cbn [flat_map map]; [reflexivity|]. rewrite vsum_app, IH. reflexivity. Qed.

  Theorem matvec_parallel_is_serial out out' D W : 1 <= W ->
    forall j, matvec_parallel out D W j = matvec_serial out' D j.
  Proof.
    intros HW j. unfold matvec_parallel, matvec_serial, kernel, zeros.
    rewrite vadd_0_l.
    transitivity (vsum (map (fun r => vsum (map (fun ci => contrib ci j) (stride r D W))) (seq 0 W))).
    { f_equal. apply map_ext. intros r. apply vadd_0_l. }
    rewrite <- (vsum_flat_map (fun r => map (fun ci => contrib ci j) (stride r D W)) (seq 0 W)).
    apply vsum_perm.
    transitivity (map (fun ci => contrib ci j) (all_strides D W)).
    - unfold all_strides. clear. induction (seq 0 W) as [|r l IH]; cbn; [reflexivity|].
      rewrite map_app. apply Permutation_app_head. exact IH.
    - apply Permutation_map. symmetry. apply world_partition. exact HW.
  Qed.

  (* a kernel run that accumulates straight into an uncleared caller buffer is NOT the serial answer:
     the flow above is the only one of the two that is independent of the buffer's old content *)
  Definition matvec_uncleared (out : nat -> V) (D : nat) : nat -> V := kernel out (seq 0 D).
  Theorem matvec_uncleared_depends_on_out out D j :
    matvec_uncleared out D j = vadd (out j) (matvec_serial out D j).
  Proof. unfold matvec_uncleared, matvec_serial, kernel, zeros. rewrite vadd_0_l. reflexivity. Qed.
End Matvec.

(* C16: work partition, striding, interleaving independence, tree reduce. *)
From Coq Require Import ZArith List Bool Lia ZifyBool Permutation.
From QV Require Import Base.PyZ Gen.C16_gen.
Import ListNotations.
Open Scope Z_scope.

(* ---- the chooser: characterising lemma over the GENERATED text --------- *)

Ltac step_if :=
  match goal with
  | |- context [if ?c then _ else _] => destruct c eqn:?
  end; cbv beta iota zeta.

Lemma divmod_facts size nb : 0 <= size -> 1 <= nb ->
  size = (size / nb) * nb + size mod nb /\ 0 <= size mod nb < nb /\ 0 <= size / nb.
Proof.
  intros Hs Hnb.
  pose proof (Z.div_mod size nb ltac:(lia)).
  pose proof (Z.mod_pos_bound size nb ltac:(lia)).
  pose proof (Z.div_pos size nb Hs ltac:(lia)). nia.
Qed.

Definition good_split (size : Z) (r : option (Z * Z * Z)) : Prop :=
  exists nb base rem, r = Some (nb, base, rem)
    /\ 1 <= nb /\ size = base * nb + rem /\ 0 <= rem < nb /\ 0 <= base.

Lemma good_split_intro size X : 0 <= size -> 1 <= X ->
  good_split size (Some (X, size / X, size mod X)).
Proof.
  intros Hs HX. exists X, (size / X), (size mod X). split; [reflexivity|].
  pose proof (divmod_facts size X Hs HX). lia.
Qed.

Lemma choose_spec size tbs T :
  0 <= size -> 1 <= T -> good_split size (threading_choose_num_blocks size tbs T).
Proof.
  intros Hs HT. unfold threading_choose_num_blocks. cbv beta iota zeta.
  repeat step_if;
  try (apply good_split_intro; [assumption | lia]);
  exfalso; lia.
Qed.

(* ---- block ranges -------------------------------------------------------- *)

Definition bstart (base rem b : Z) : Z := b * base + Z.min b rem.
Definition bstop (base rem b : Z) : Z := bstart base rem b + base + (if b <? rem then 1 else 0).

Lemma block_range_eq b base rem :
  threading_get_block_range b base rem = Some (bstart base rem b, bstop base rem b).
Proof. unfold threading_get_block_range, bstop, bstart. cbv zeta. destruct (b <? rem); f_equal; f_equal; lia. Qed.

Section Partition.
  Variables size nb base rem : Z.
  Hypothesis Hnb : 1 <= nb.
  Hypothesis Hsz : size = base * nb + rem.
  Hypothesis Hrem : 0 <= rem < nb.
  Hypothesis Hbase : 0 <= base.

  Lemma bstart_0 : bstart base rem 0 = 0.
  Proof. unfold bstart. lia. Qed.

  Lemma bstop_succ b : 0 <= b -> bstop base rem b = bstart base rem (b + 1).
  Proof. intros Hb. unfold bstop, bstart. destruct (b <? rem) eqn:E; lia. Qed.

  Lemma bstop_last : bstop base rem (nb - 1) = size.
  Proof. unfold bstop, bstart. destruct (nb - 1 <? rem) eqn:E; nia. Qed.

  Lemma bstart_le_bstop b : 0 <= b -> bstart base rem b <= bstop base rem b.
  Proof. intros Hb. unfold bstop. destruct (b <? rem); lia. Qed.

  Lemma bstart_mono b c : 0 <= b -> b <= c -> bstart base rem b <= bstart base rem c.
  Proof. intros Hb Hbc. unfold bstart. nia. Qed.

  (* the block that owns element i, in closed form *)
  Definition owner (i : Z) : Z :=
    if i <? rem * (base + 1) then i / (base + 1) else rem + (i - rem * (base + 1)) / base.

  Lemma owner_ok i : 0 <= i < size ->
    0 <= owner i < nb /\ bstart base rem (owner i) <= i < bstop base rem (owner i).
  Proof.
    intros Hi. unfold owner, bstop, bstart.
    destruct (i <? rem * (base + 1)) eqn:E.
    - pose proof (Z.div_mod i (base + 1) ltac:(lia)).
      pose proof (Z.mod_pos_bound i (base + 1) ltac:(lia)).
      set (q := i / (base + 1)) in *. set (r := i mod (base + 1)) in *.
      assert (0 <= q) by nia. assert (q < rem) by nia.
      replace (q <? rem) with true by lia. split; [lia|]. rewrite Z.min_l by lia. nia.
    - assert (Hb : 0 < base) by nia.
      pose proof (Z.div_mod (i - rem * (base + 1)) base ltac:(lia)).
      pose proof (Z.mod_pos_bound (i - rem * (base + 1)) base Hb).
      set (q := (i - rem * (base + 1)) / base) in *.
      set (r := (i - rem * (base + 1)) mod base) in *.
      assert (0 <= q) by nia. assert (rem + q < nb) by nia.
      replace (rem + q <? rem) with false by lia. split; [lia|]. rewrite Z.min_r by lia. nia.
  Qed.

  Lemma block_disjoint b c i :
    0 <= b -> 0 <= c ->
    bstart base rem b <= i < bstop base rem b ->
    bstart base rem c <= i < bstop base rem c -> b = c.
  Proof.
    intros Hb Hc H1 H2.
    destruct (Z.lt_trichotomy b c) as [L|[E|G]]; [|exact E|]; exfalso.
    - pose proof (bstop_succ b Hb). pose proof (bstart_mono (b + 1) c ltac:(lia) ltac:(lia)). lia.
    - pose proof (bstop_succ c Hc). pose proof (bstart_mono (c + 1) b ltac:(lia) ltac:(lia)). lia.
  Qed.

  (* every element lies in exactly one block *)
  Theorem element_in_exactly_one_block i : 0 <= i < size ->
    exists! b, 0 <= b < nb /\ bstart base rem b <= i < bstop base rem b.
  Proof.
    intros Hi. exists (owner i). split.
    - apply owner_ok; assumption.
    - intros c [Hc Hin]. destruct (owner_ok i Hi) as [Ho Hoin].
      apply (block_disjoint (owner i) c i); lia.
  Qed.

  (* blocks never reach outside [0, size) *)
  Lemma block_in_bounds b : 0 <= b < nb -> 0 <= bstart base rem b /\ bstop base rem b <= size.
  Proof.
    intros Hb. split.
    - unfold bstart. nia.
    - destruct (Z.eq_dec b (nb - 1)) as [->|Hne]; [rewrite bstop_last; lia|].
      rewrite bstop_succ by lia.
      pose proof (bstart_mono (b + 1) (nb - 1) ltac:(lia) ltac:(lia)).
      pose proof (bstart_le_bstop (nb - 1) ltac:(lia)). rewrite bstop_last in *. lia.
  Qed.
End Partition.

(* ---- striding: block b is visited by exactly one thread rank ---------------- *)
(* `for b in range(rank, nb, T)` visits b iff rank <= b < nb and (b - rank) mod T = 0 *)
Definition visits (T nb rank b : Z) : Prop := rank <= b < nb /\ (b - rank) mod T = 0.

Theorem block_visited_by_exactly_one_rank T nb b : 1 <= T -> 0 <= b < nb ->
  exists! r, 0 <= r < T /\ visits T nb r b.
Proof.
  intros HT Hb. exists (b mod T). split.
  - pose proof (Z.mod_pos_bound b T ltac:(lia)). pose proof (Z.div_mod b T ltac:(lia)).
    split; [lia|]. split.
    + assert (0 <= b / T) by (apply Z.div_pos; lia). nia.
    + replace (b - b mod T) with ((b / T) * T) by lia. apply Z.mod_mul. lia.
  - intros r [Hr [Hrb Hm]].
    assert (b mod T = r mod T).
    { replace b with (r + (b - r)) at 1 by lia.
      rewrite Z.add_mod by lia. rewrite Hm. rewrite Z.add_0_r. rewrite Z.mod_mod by lia. reflexivity. }
    rewrite (Z.mod_small r T) in H by lia. exact H.
Qed.

(* range(rank, nb, T) as the translator's for_range enumerates it: the list of visited b *)
Lemma range_len_stride T nb r : 1 <= T -> 0 <= r ->
  0 <= range_len r nb T.
Proof.
  intros HT Hr. unfold range_len. replace (T >? 0) with true by lia.
  destruct (r <? nb) eqn:E; [|lia]. apply ceil_div_nonneg; lia.
Qed.

(* ---- interleavings: disjoint single-cell writes commute ------------------------- *)
Section Writes.
  Variable V : Type.
  Definition mem := Z -> option V.
  Definition write (m : mem) (w : Z * V) : mem :=
    fun j => if j =? fst w then Some (snd w) else m j.
  Definition run (m : mem) (ws : list (Z * V)) : mem := fold_left write ws m.

  Lemma write_comm m w1 w2 : fst w1 <> fst w2 ->
    forall j, write (write m w1) w2 j = write (write m w2) w1 j.
  Proof.
    intros Hne j. unfold write.
    destruct (j =? fst w2) eqn:E2; destruct (j =? fst w1) eqn:E1; try reflexivity. lia.
  Qed.

  Lemma run_ext m m' ws : (forall j, m j = m' j) -> forall j, run m ws j = run m' ws j.
  Proof.
    revert m m'. induction ws as [|w ws IH]; intros m m' H j; [apply H|].
    cbn [run fold_left]. apply IH. intros k. unfold write. rewrite H. reflexivity.
  Qed.

  Theorem interleaving_independent ws ws' m :
    Permutation ws ws' -> NoDup (map fst ws) -> forall j, run m ws j = run m ws' j.
  Proof.
    intros HP. revert m. induction HP as [|x l l' HP IH|x y l|l l' l'' HP1 IH1 HP2 IH2]; intros m ND j.
    - reflexivity.
    - cbn [run fold_left]. apply IH. inversion ND; assumption.
    - cbn [run fold_left]. apply run_ext. apply write_comm.
      inversion ND as [|a l0 Hnotin ND']; subst. cbn in Hnotin. intros E. apply Hnotin. left. symmetry. exact E.
    - rewrite IH1 by assumption. apply IH2.
      eapply Permutation_NoDup; [apply Permutation_map; exact HP1 | exact ND].
  Qed.

  Lemma run_last_write ws m i v : ~ In i (map fst ws) -> run (write m (i, v)) ws i = Some v.
  Proof.
    revert m. induction ws as [|w ws IH]; intros m Hnotin.
    - cbn. unfold write. cbn. rewrite Z.eqb_refl. reflexivity.
    - cbn [run fold_left].
      transitivity (run (write (write m w) (i, v)) ws i).
      + apply run_ext. intros j. apply write_comm. cbn [fst]. intros E. apply Hnotin. left. symmetry. exact E.
      + apply IH. intros H. apply Hnotin. right. exact H.
  Qed.

  (* the final memory is the "serial answer": each written cell holds its value *)
  Theorem run_result ws m : NoDup (map fst ws) ->
    forall i v, In (i, v) ws -> run m ws i = Some v.
  Proof.
    revert m. induction ws as [|w ws IH]; intros m ND i v Hin; [contradiction|].
    cbn [run fold_left]. destruct Hin as [->|Hin].
    - apply run_last_write. inversion ND; assumption.
    - apply IH; [inversion ND; assumption | exact Hin].
  Qed.

  (* cells nobody writes keep their content *)
  Theorem run_frame ws m j : ~ In j (map fst ws) -> run m ws j = m j.
  Proof.
    revert m. induction ws as [|w ws IH]; intros m Hnotin; [reflexivity|].
    cbn [run fold_left]. unfold run in IH. rewrite IH.
    - unfold write. destruct (j =? fst w) eqn:E; [|reflexivity]. exfalso. apply Hnotin. left. lia.
    - intros H. apply Hnotin. right. exact H.
  Qed.
End Writes.

(* ---- par_reduce: pairwise tree reduction = left fold (associative fn) -------- *)
Section Reduce.
  Variable A : Type.
  Variable f : A -> A -> A.
  Hypothesis f_assoc : forall x y z, f (f x y) z = f x (f y z).

  Fixpoint pair_up (l : list A) : list A :=
    match l with
    | x :: y :: t => f x y :: pair_up t
    | _ => l
    end.

  Fixpoint preduce (fuel : nat) (l : list A) : option A :=
    match fuel with
    | O => None
    | S k => match l with
             | [] => None
             | [x] => Some x
             | [x; y] => Some (f x y)
             | _ => preduce k (pair_up l)
             end
    end.

  Definition reduce (l : list A) : option A :=
    match l with [] => None | x :: t => Some (fold_left f t x) end.

  Lemma fold_left_assoc t : forall x y, fold_left f t (f x y) = f x (fold_left f t y).
  Proof. induction t as [|z t IH]; intros x y; cbn; [reflexivity|]. rewrite f_assoc. apply IH. Qed.

  Lemma pair_up_length l : (length (pair_up l) <= length l)%nat.
  Proof.
    induction l as [l IH] using (well_founded_induction (Wf_nat.well_founded_ltof _ (@length A))).
    destruct l as [|x [|y t]]; cbn; try lia. specialize (IH t). unfold Wf_nat.ltof in IH. cbn in IH.
    specialize (IH ltac:(lia)). lia.
  Qed.

  Lemma pair_up_shrinks x y z t : (length (pair_up (x :: y :: z :: t)) < length (x :: y :: z :: t))%nat.
  Proof. change (pair_up (x :: y :: z :: t)) with (f x y :: pair_up (z :: t)).
    pose proof (pair_up_length (z :: t)) as H. cbn [length] in *. lia. Qed.

  Lemma list_ind2 (P : list A -> Prop) :
    P [] -> (forall x, P [x]) -> (forall x y t, P t -> P (x :: y :: t)) -> forall l, P l.
  Proof.
    intros H0 H1 H2. fix IH 1. intros [|x [|y t]]; [exact H0 | apply H1 | apply H2; apply IH].
  Qed.

  Lemma fold_pair_up t : forall a, fold_left f (pair_up t) a = fold_left f t a.
  Proof.
    induction t as [|x|x y t IH] using list_ind2; intros a; try reflexivity.
    cbn [pair_up fold_left]. rewrite IH. rewrite f_assoc. reflexivity.
  Qed.

  Lemma reduce_pair_up l : reduce (pair_up l) = reduce l.
  Proof.
    destruct l as [|x [|y t]]; try reflexivity.
    cbn [pair_up reduce fold_left]. rewrite fold_pair_up. reflexivity.
  Qed.

  Theorem par_reduce_eq_reduce l : l <> [] -> preduce (S (length l)) l = reduce l.
  Proof.
    remember (S (length l)) as n eqn:Hn.
    assert (Hle : (length l < n)%nat) by lia. clear Hn.
    revert l Hle. induction n as [|n IH]; intros l Hle Hne; [lia|].
    destruct l as [|x [|y [|z t]]]; try reflexivity; try contradiction.
    cbn [preduce]. rewrite IH.
    - apply reduce_pair_up.
    - pose proof (pair_up_shrinks x y z t). lia.
    - cbn. discriminate.
  Qed.
End Reduce.

(* ---- composites over the generated functions ---------------------------------- *)
Definition in_block (base rem b i : Z) : Prop :=
  exists s e, threading_get_block_range b base rem = Some (s, e) /\ s <= i < e.

Lemma in_block_iff base rem b i : in_block base rem b i <-> bstart base rem b <= i < bstop base rem b.
Proof.
  unfold in_block. split.
  - intros (s & e & H & Hi). rewrite block_range_eq in H. injection H as <- <-. exact Hi.
  - intros Hi. eexists _, _. split; [apply block_range_eq | exact Hi].
Qed.

Theorem partition_exact size tbs T : 0 <= size -> 1 <= T ->
  exists nb base rem,
    threading_choose_num_blocks size tbs T = Some (nb, base, rem) /\ 1 <= nb /\
    (forall i, 0 <= i < size -> exists! b, 0 <= b < nb /\ in_block base rem b i) /\
    (forall b i, 0 <= b < nb -> in_block base rem b i -> 0 <= i < size) /\
    (forall b, 0 <= b < nb -> exists! r, 0 <= r < T /\ visits T nb r b).
Proof.
  intros Hs HT. destruct (choose_spec size tbs T Hs HT) as (nb & base & rem & E & Hnb & Hsz & Hrem & Hbase).
  exists nb, base, rem. split; [exact E|]. split; [exact Hnb|]. split; [|split].
  - intros i Hi.
    destruct (element_in_exactly_one_block size nb base rem Hnb Hsz Hrem Hbase i Hi) as (b & Hb & Hu).
    exists b. split.
    + split; [apply Hb|]. apply in_block_iff. apply Hb.
    + intros c [Hc Hin]. apply Hu. split; [exact Hc|]. apply in_block_iff. exact Hin.
  - intros b i Hb Hin. apply in_block_iff in Hin.
    pose proof (block_in_bounds size nb base rem Hnb Hsz Hrem Hbase b Hb). lia.
  - intros b Hb. apply block_visited_by_exactly_one_rank; assumption.
Qed.

Theorem blocks_contiguous size tbs T : 0 <= size -> 1 <= T ->
  exists nb base rem,
    threading_choose_num_blocks size tbs T = Some (nb, base, rem) /\
    bstart base rem 0 = 0 /\ bstop base rem (nb - 1) = size /\
    (forall b, 0 <= b -> bstop base rem b = bstart base rem (b + 1)) /\
    (forall b, 0 <= b -> bstart base rem b <= bstop base rem b) /\
    (forall b, threading_get_block_range b base rem = Some (bstart base rem b, bstop base rem b)).
Proof.
  intros Hs HT. destruct (choose_spec size tbs T Hs HT) as (nb & base & rem & E & Hnb & Hsz & Hrem & Hbase).
  exists nb, base, rem. split; [exact E|]. split; [unfold bstart; lia|]. split; [apply (bstop_last size nb); assumption|].
  split; [intros b Hb; unfold bstop, bstart; destruct (b <? rem) eqn:?; lia|]. split; [intros b Hb; unfold bstop; destruct (b <? rem); lia|].
  intros; apply block_range_eq.
Qed.

(* non-vacuity: the hypotheses are met by a case smaller than the thread count *)
Example partition_small : threading_choose_num_blocks 2 1 8 = Some (1, 2, 0)
  /\ threading_choose_num_blocks 10 (-3) 4 = Some (4, 2, 2)
  /\ threading_get_block_range 1 2 2 = Some (3, 6).
Proof. vm_compute. repeat split. Qed.

(* C16 property theorems: statements only; proofs live in C16/Proofs.v.
   `threading_choose_num_blocks` and `threading_get_block_range` are the
   functions REGENERATED from /repo/quimb/core.py on every run (Gen/C16_gen.v). *)
From Coq Require Import ZArith List Bool Permutation.
From QV Require Import Base.PyZ Gen.C16_gen C16.Proofs C16.World C16.Kernel.
Import ListNotations.
Open Scope Z_scope.

(* The chooser never raises and returns >= 1 block with size = base*nb + rem. *)
Theorem C16_chooser_total_and_positive : forall size tbs T, 0 <= size -> 1 <= T ->
  exists nb base rem, threading_choose_num_blocks size tbs T = Some (nb, base, rem)
    /\ 1 <= nb /\ size = base * nb + rem /\ 0 <= rem < nb /\ 0 <= base.
Proof. exact choose_spec. Qed.
Print Assumptions C16_chooser_total_and_positive.

(* Every element 0 <= i < size is in exactly one block; blocks stay inside
   [0,size); every block is visited by exactly one thread rank's stride. *)
Theorem C16_every_element_exactly_one_block_one_thread : forall size tbs T, 0 <= size -> 1 <= T ->
  exists nb base rem,
    threading_choose_num_blocks size tbs T = Some (nb, base, rem) /\ 1 <= nb /\
    (forall i, 0 <= i < size -> exists! b, 0 <= b < nb /\ in_block base rem b i) /\
    (forall b i, 0 <= b < nb -> in_block base rem b i -> 0 <= i < size) /\
    (forall b, 0 <= b < nb -> exists! r, 0 <= r < T /\ visits T nb r b).
Proof. exact partition_exact. Qed.
Print Assumptions C16_every_element_exactly_one_block_one_thread.

Theorem C16_blocks_contiguous : forall size tbs T, 0 <= size -> 1 <= T ->
  exists nb base rem,
    threading_choose_num_blocks size tbs T = Some (nb, base, rem) /\
    bstart base rem 0 = 0 /\ bstop base rem (nb - 1) = size /\
    (forall b, 0 <= b -> bstop base rem b = bstart base rem (b + 1)) /\
    (forall b, 0 <= b -> bstart base rem b <= bstop base rem b) /\
    (forall b, threading_get_block_range b base rem = Some (bstart base rem b, bstop base rem b)).
Proof. exact blocks_contiguous. Qed.
Print Assumptions C16_blocks_contiguous.

(* Any interleaving (permutation) of single-cell writes to pairwise distinct
   cells leaves the same memory; each written cell holds its value; unwritten
   cells are untouched. *)
Theorem C16_interleaving_independent : forall (V : Type) (ws ws' : list (Z * V)) (m : mem V),
  Permutation ws ws' -> NoDup (map fst ws) -> forall j, run V m ws j = run V m ws' j.
Proof. exact interleaving_independent. Qed.
Print Assumptions C16_interleaving_independent.

Theorem C16_parallel_result_is_serial_map : forall (V : Type) (ws : list (Z * V)) (m : mem V),
  NoDup (map fst ws) ->
  (forall i v, In (i, v) ws -> run V m ws i = Some v) /\
  (forall j, ~ In j (map fst ws) -> run V m ws j = m j).
Proof. intros V ws m ND. split; [exact (run_result V ws m ND) | exact (run_frame V ws m)]. Qed.
Print Assumptions C16_parallel_result_is_serial_map.

(* par_reduce's pairwise tree = functools.reduce for associative fn *)
Theorem C16_par_reduce_eq_reduce : forall (A : Type) (f : A -> A -> A),
  (forall x y z, f (f x y) z = f x (f y z)) ->
  forall l, l <> [] -> preduce A f (S (length l)) l = reduce A f l.
Proof. exact par_reduce_eq_reduce. Qed.
Print Assumptions C16_par_reduce_eq_reduce.

(* ---- the threaded kernel schema, end to end (C16/Kernel.v, over the REGENERATED partition functions) ---- *)
(* the rows written by all threads together - thread rank r runs blocks range(r, num_blocks, num_threads), block b
   covers threading_get_block_range(b, ...) - are a permutation of range(size): every row exactly once *)
Theorem C16_kernel_rows_are_exactly_range_size : forall size tbs T, 0 <= size -> 1 <= T ->
  exists nb base rem,
    threading_choose_num_blocks size tbs T = Some (nb, base, rem) /\
    Permutation (all_rows base rem T nb) (zrange 0 size).
Proof. exact kernel_rows_exact. Qed.
Print Assumptions C16_kernel_rows_are_exactly_range_size.

(* for ANY interleaving of the threads' writes out[i] = f(i) and any row function f, the final memory is the
   serial map on [0, size) and untouched elsewhere *)
Theorem C16_threaded_kernel_is_serial_map : forall (V : Type) (f : Z -> V) size tbs T, 0 <= size -> 1 <= T ->
  exists nb base rem,
    threading_choose_num_blocks size tbs T = Some (nb, base, rem) /\
    forall (ws : list (Z * V)) (m : mem V),
      Permutation ws (map (fun i => (i, f i)) (all_rows base rem T nb)) ->
      (forall i, 0 <= i < size -> run V m ws i = Some (f i)) /\
      (forall j, ~ (0 <= j < size) -> run V m ws j = m j).
Proof. exact threaded_kernel_is_serial_map. Qed.
Print Assumptions C16_threaded_kernel_is_serial_map.

(* ---- the worker ("world") level of the parallel operator build / application (C16/World.v) ---- *)
Close Scope Z_scope.
Open Scope nat_scope.
(* every row index below D is visited by exactly one of the W workers (range(world_rank, D, world_size)),
   exactly once: the visit lists concatenated in rank order are a permutation of range(D) *)
Theorem C16_world_every_row_exactly_one_worker : forall D W, (1 <= W)%nat ->
  Permutation (seq 0 D) (all_strides D W) /\
  (forall ci, (ci < D)%nat -> exists! r, (r < W)%nat /\ In ci (stride r D W)).
Proof. intros D W HW. split; [exact (world_partition D W HW) | intros ci Hci; exact (world_unique_worker D W ci HW Hci)]. Qed.
Print Assumptions C16_world_every_row_exactly_one_worker.

(* the parallel COO build (workers' triplet lists concatenated in rank order) is a permutation of the serial
   build, for every per-row emission function; with one worker it is the serial build *)
Theorem C16_world_parallel_coo_is_serial_coo : forall (T : Type) (emit : nat -> list T) D W, (1 <= W)%nat ->
  Permutation (coo_serial T emit D) (coo_parallel T emit D W) /\ coo_parallel T emit D 1 = coo_serial T emit D.
Proof. intros T emit D W HW. split; [exact (coo_parallel_is_permutation_of_serial T emit D W HW) | exact (coo_one_worker T emit D)]. Qed.
Print Assumptions C16_world_parallel_coo_is_serial_coo.

(* the parallel matvec (private zeroed buffers, summed over `out`) is the serial matvec (out cleared, then
   accumulated into) over ANY commutative monoid, for every caller-supplied content of `out` *)
Theorem C16_world_parallel_matvec_is_serial : forall (V : Type) (v0 : V) (vadd : V -> V -> V),
  (forall a b, vadd a b = vadd b a) -> (forall a b c, vadd a (vadd b c) = vadd (vadd a b) c) ->
  (forall a, vadd v0 a = a) ->
  forall (contrib : nat -> nat -> V) out out' D W, (1 <= W)%nat ->
  forall j, matvec_parallel V v0 vadd contrib out D W j = matvec_serial V v0 vadd contrib out' D j.
Proof. exact matvec_parallel_is_serial. Qed.
Print Assumptions C16_world_parallel_matvec_is_serial.

(* non-vacuity / executable instance used by the correspondence *)
Example C16_world_example :
  stride 1 10 3 = [1; 4; 7]%nat /\ stride 2 2 3 = []%nat /\ all_strides 7 3 = [0; 3; 6; 1; 4; 2; 5]%nat
  /\ matvec_parallel nat 0%nat Nat.add (fun ci j => (ci * (j + 1))%nat) (fun _ => 9%nat) 7 3 2%nat
     = matvec_serial nat 0%nat Nat.add (fun ci j => (ci * (j + 1))%nat) (fun _ => 0%nat) 7 2%nat.
Proof. vm_compute. repeat split; reflexivity. Qed.

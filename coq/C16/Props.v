(* C16 property theorems: statements only; proofs live in C16/Proofs.v.
   `threading_choose_num_blocks` and `threading_get_block_range` are the
   functions REGENERATED from /repo/quimb/core.py on every run (Gen/C16_gen.v). *)
From Coq Require Import ZArith List Bool Permutation.
From QV Require Import Base.PyZ Gen.C16_gen C16.Proofs.
Import ListNotations.
Open Scope Z_scope.

(* The chooser never raises and returns >= 1 block with size = base*nb + rem. *)
Theorem C16_chooser_total_and_positive : forall size tbs T, 0 <= size -> 1 <= T ->
  exists nb base rem, threading_choose_num_blocks size tbs T = Some (nb, base, rem)
    /\ 1 <= nb /\ size = base * nb + rem /\ 0 <= rem < nb /\ 0 <= base.
Proof. exact choose_spec. Qed.
Print Assumptions C16_chooser_total_and_positive.

(* Every element 0 <= i < size is in exactly one block; blocks stay inside
   [0,size); every block is visited by exactly one thread rank's stride. *)
Theorem C16_every_element_exactly_one_block_one_thread : forall size tbs T, 0 <= size -> 1 <= T ->
  exists nb base rem,
    threading_choose_num_blocks size tbs T = Some (nb, base, rem) /\ 1 <= nb /\
    (forall i, 0 <= i < size -> exists! b, 0 <= b < nb /\ in_block base rem b i) /\
    (forall b i, 0 <= b < nb -> in_block base rem b i -> 0 <= i < size) /\
    (forall b, 0 <= b < nb -> exists! r, 0 <= r < T /\ visits T nb r b).
Proof. exact partition_exact. Qed.
Print Assumptions C16_every_element_exactly_one_block_one_thread.

Theorem C16_blocks_contiguous : forall size tbs T, 0 <= size -> 1 <= T ->
  exists nb base rem,
    threading_choose_num_blocks size tbs T = Some (nb, base, rem) /\
    bstart base rem 0 = 0 /\ bstop base rem (nb - 1) = size /\
    (forall b, 0 <= b -> bstop base rem b = bstart base rem (b + 1)) /\
    (forall b, 0 <= b -> bstart base rem b <= bstop base rem b) /\
    (forall b, threading_get_block_range b base rem = Some (bstart base rem b, bstop base rem b)).
Proof. exact blocks_contiguous. Qed.
Print Assumptions C16_blocks_contiguous.

(* Any interleaving (permutation) of single-cell writes to pairwise distinct
   cells leaves the same memory; each written cell holds its value; unwritten
   cells are untouched. *)
Theorem C16_interleaving_independent : forall (V : Type) (ws ws' : list (Z * V)) (m : mem V),
  Permutation ws ws' -> NoDup (map fst ws) -> forall j, run V m ws j = run V m ws' j.
Proof. exact interleaving_independent. Qed.
Print Assumptions C16_interleaving_independent.

Theorem C16_parallel_result_is_serial_map : forall (V : Type) (ws : list (Z * V)) (m : mem V),
  NoDup (map fst ws) ->
  (forall i v, In (i, v) ws -> run V m ws i = Some v) /\
  (forall j, ~ In j (map fst ws) -> run V m ws j = m j).
Proof. intros V ws m ND. split; [exact (run_result V ws m ND) | exact (run_frame V ws m)]. Qed.
Print Assumptions C16_parallel_result_is_serial_map.

(* par_reduce's pairwise tree = functools.reduce for associative fn *)
Theorem C16_par_reduce_eq_reduce : forall (A : Type) (f : A -> A -> A),
  (forall x y z, f (f x y) z = f x (f y z)) ->
  forall l, l <> [] -> preduce A f (S (length l)) l = reduce A f l.
Proof. exact par_reduce_eq_reduce. Qed.
Print Assumptions C16_par_reduce_eq_reduce.

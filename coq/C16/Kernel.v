(* C16 - the threaded kernel schema, end to end.

   Every multi-threaded numba kernel of quimb/core.py has the shape (checked syntactically on every
   run by kernel_shape_scan, and behaviourally against serial references):

       num_blocks, base, rem = threading_choose_num_blocks(size, target_block_size, num_threads)
       thread rank r:  for b in range(r, num_blocks, num_threads):
                           start, stop = threading_get_block_range(b, base, rem)
                           for i in range(start, stop):  out[i] = f(i)

   Here the rows each thread touches are listed EXECUTABLY from the two functions regenerated from the
   source (Gen/C16_gen.v), and the statements of C16/Proofs.v (exists-unique block / rank) are
   assembled into the end-to-end claim: for all sizes, block-size targets and thread counts the rows
   written by all threads together are a permutation of range(size) - every row exactly once - hence,
   for ANY interleaving of the threads' writes and any row function f, the final memory is the serial
   map i -> f(i) on [0, size) and untouched elsewhere. *)
From Coq Require Import ZArith List Bool Lia ZifyBool Permutation Arith.
From QV Require Import Base.PyZ Gen.C16_gen C16.Proofs C16.World.
Import ListNotations.
Open Scope Z_scope.

Definition zrange (lo hi : Z) : list Z := map (fun k => lo + Z.of_nat k) (seq 0 (Z.to_nat (hi - lo))).

Lemma in_zrange lo hi i : In i (zrange lo hi) <-> lo <= i < hi.
Proof.
  unfold zrange. rewrite in_map_iff. split.
  - intros [k [<- Hk]]. apply in_seq in Hk. lia.
  - intros H. exists (Z.to_nat (i - lo)). split; [lia|]. apply in_seq. lia.
Qed.

Lemma NoDup_zrange lo hi : NoDup (zrange lo hi).
Proof.
  unfold zrange. apply FinFun.Injective_map_NoDup; [|apply seq_NoDup]. intros a b H. lia.
Qed.

(* range(rank, nb, T) *)
Definition blocks_of_rank (T nb r : Z) : list Z := filter (fun b => (b - r) mod T =? 0) (zrange r nb).

Lemma in_blocks_of_rank T nb r b : In b (blocks_of_rank T nb r) <-> visits T nb r b.
Proof.
  unfold blocks_of_rank, visits. rewrite filter_In, in_zrange. split.
  - intros [H E]. split; [exact H | lia].
  - intros [H E]. split; [exact H | lia].
Qed.

Lemma NoDup_blocks_of_rank T nb r : NoDup (blocks_of_rank T nb r).
Proof. unfold blocks_of_rank. apply NoDup_filter. apply NoDup_zrange. Qed.

Definition block_rows (base rem b : Z) : list Z :=
  match threading_get_block_range b base rem with
  | Some (s, e) => zrange s e
  | None => []
  end.

Lemma in_block_rows base rem b i : In i (block_rows base rem b) <-> in_block base rem b i.
Proof.
  unfold block_rows. rewrite block_range_eq. rewrite in_zrange. symmetry. apply in_block_iff.
Qed.

Lemma NoDup_block_rows base rem b : NoDup (block_rows base rem b).
Proof. unfold block_rows. rewrite block_range_eq. apply NoDup_zrange. Qed.

(* the rows one thread writes, in its own program order *)
Definition thread_rows (base rem T nb r : Z) : list Z :=
  flat_map (block_rows base rem) (blocks_of_rank T nb r).
(* all threads, rank after rank (one particular schedule) *)
Definition all_rows (base rem T nb : Z) : list Z :=
  flat_map (thread_rows base rem T nb) (zrange 0 T).

Lemma in_thread_rows base rem T nb r i :
  In i (thread_rows base rem T nb r) <-> exists b, visits T nb r b /\ in_block base rem b i.
Proof.
  unfold thread_rows. rewrite in_flat_map. split; intros [b [H1 H2]]; exists b.
  - split; [apply in_blocks_of_rank; exact H1 | apply in_block_rows; exact H2].
  - split; [apply in_blocks_of_rank; exact H1 | apply in_block_rows; exact H2].
Qed.

Section Assemble.
  Variables (size T nb base rem : Z).
  Hypothesis HT : 1 <= T.
  Hypothesis Hblock : forall i, 0 <= i < size -> exists! b, 0 <= b < nb /\ in_block base rem b i.
  Hypothesis Hin : forall b i, 0 <= b < nb -> in_block base rem b i -> 0 <= i < size.
  Hypothesis Hrank : forall b, 0 <= b < nb -> exists! r, 0 <= r < T /\ visits T nb r b.

  Lemma visits_block_range r b : 0 <= r -> visits T nb r b -> 0 <= b < nb.
  Proof. unfold visits. lia. Qed.

  Lemma same_block b b' i : 0 <= b < nb -> 0 <= b' < nb -> in_block base rem b i -> in_block base rem b' i -> b = b'.
  Proof.
    intros Hb Hb' H1 H2. pose proof (Hin b i Hb H1) as Hi.
    destruct (Hblock i Hi) as [c [_ Hu]].
    rewrite <- (Hu b (conj Hb H1)). apply Hu. split; assumption.
  Qed.

  Lemma NoDup_thread_rows r : 0 <= r -> NoDup (thread_rows base rem T nb r).
  Proof.
    intros Hr. unfold thread_rows. apply NoDup_flat_map_disjoint.
    - apply NoDup_blocks_of_rank.
    - intros b _. apply NoDup_block_rows.
    - intros b b' i Hb Hb' H1 H2.
      apply in_blocks_of_rank in Hb. apply in_blocks_of_rank in Hb'.
      apply in_block_rows in H1. apply in_block_rows in H2.
      apply (same_block b b' i); [apply (visits_block_range r b); assumption | apply (visits_block_range r b'); assumption | exact H1 | exact H2].
  Qed.

  Lemma in_all_rows i : In i (all_rows base rem T nb) <-> 0 <= i < size.
  Proof.
    unfold all_rows. rewrite in_flat_map. split.
    - intros [r [Hr Hi]]. apply in_zrange in Hr. apply in_thread_rows in Hi. destruct Hi as [b [Hv Hb]].
      apply (Hin b i); [apply (visits_block_range r b); [lia | exact Hv] | exact Hb].
    - intros Hi. destruct (Hblock i Hi) as [b [[Hb Hbi] _]].
      destruct (Hrank b Hb) as [r [[Hr Hv] _]].
      exists r. split; [apply in_zrange; lia|]. apply in_thread_rows. exists b. split; assumption.
  Qed.

  Lemma NoDup_all_rows : NoDup (all_rows base rem T nb).
  Proof.
    unfold all_rows. apply NoDup_flat_map_disjoint.
    - apply NoDup_zrange.
    - intros r Hr. apply in_zrange in Hr. apply NoDup_thread_rows. lia.
    - intros r r' i Hr Hr' H1 H2. apply in_zrange in Hr. apply in_zrange in Hr'.
      apply in_thread_rows in H1. apply in_thread_rows in H2.
      destruct H1 as [b [Hv Hb]]. destruct H2 as [b' [Hv' Hb']].
      assert (Hbr : 0 <= b < nb) by (apply (visits_block_range r b); [lia | exact Hv]).
      assert (Hbr' : 0 <= b' < nb) by (apply (visits_block_range r' b'); [lia | exact Hv']).
      assert (b = b') by (eapply same_block; eauto). subst b'.
      destruct (Hrank b Hbr) as [r0 [_ Hu]].
      assert (Hr0 : 0 <= r < T) by lia.
      rewrite <- (Hu r (conj Hr0 Hv)). apply Hu. split; [lia | exact Hv'].
  Qed.

  Theorem all_rows_is_range : Permutation (all_rows base rem T nb) (zrange 0 size).
  Proof.
    apply NoDup_Permutation; [apply NoDup_all_rows | apply NoDup_zrange|].
    intros i. rewrite in_all_rows, in_zrange. reflexivity.
  Qed.
End Assemble.

(* for the partition REGENERATED from quimb/core.py: the rows written by all threads are range(size) *)
Theorem kernel_rows_exact size tbs T : 0 <= size -> 1 <= T ->
  exists nb base rem,
    threading_choose_num_blocks size tbs T = Some (nb, base, rem) /\
    Permutation (all_rows base rem T nb) (zrange 0 size).
Proof.
  intros Hs HT. destruct (partition_exact size tbs T Hs HT) as (nb & base & rem & E & Hnb & H1 & H2 & H3).
  exists nb, base, rem. split; [exact E|]. apply all_rows_is_range; assumption.
Qed.

(* hence: ANY interleaving of the threads' single-cell writes out[i] = f(i) leaves the serial map *)
Theorem threaded_kernel_is_serial_map (V : Type) (f : Z -> V) size tbs T : 0 <= size -> 1 <= T ->
  exists nb base rem,
    threading_choose_num_blocks size tbs T = Some (nb, base, rem) /\
    forall (ws : list (Z * V)) (m : mem V),
      Permutation ws (map (fun i => (i, f i)) (all_rows base rem T nb)) ->
      (forall i, 0 <= i < size -> run V m ws i = Some (f i)) /\
      (forall j, ~ (0 <= j < size) -> run V m ws j = m j).
Proof.
  intros Hs HT. destruct (kernel_rows_exact size tbs T Hs HT) as (nb & base & rem & E & HP).
  exists nb, base, rem. split; [exact E|]. intros ws m Hws.
  assert (Hfst : Permutation (map fst ws) (zrange 0 size)).
  { eapply Permutation_trans; [apply Permutation_map; exact Hws|].
    rewrite map_map. cbn [fst]. rewrite map_id. exact HP. }
  assert (ND : NoDup (map fst ws)).
  { eapply Permutation_NoDup; [symmetry; exact Hfst | apply NoDup_zrange]. }
  split.
  - intros i Hi. apply (run_result V ws m ND).
    apply (Permutation_in _ (Permutation_sym Hws)). apply in_map_iff. exists i. split; [reflexivity|].
    apply (Permutation_in _ (Permutation_sym HP)). apply in_zrange. exact Hi.
  - intros j Hj. apply (run_frame V ws m). intros Hin. apply Hj.
    apply in_zrange. apply (Permutation_in _ Hfst). exact Hin.
Qed.

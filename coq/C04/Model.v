(* C04 model (executable definitions only): the three structure finders of
   quimb/tensor/array_ops.py on exact arrays -
     _numba_find_diag_axes / find_diag_axes,
     _numba_find_antidiag_axes / find_antidiag_axes,
     _numba_find_columns / find_columns (numpy branch).
   Same structure as the code: build the candidate set, walk the array in
   numpy.ndenumerate (row-major) order eagerly invalidating candidates, stop
   when no candidate is left, return min(candidates) (tuple order) or None.
   `nz v` stands for `abs(val) > atol`; on exact (Gaussian-)integer data with the
   default atol=1e-12 that is `val != 0`.  Hand-written; tied to the
   implementation by correspondence (harness/c04.py). *)
From Coq Require Import ZArith QArith Arith List Bool PeanoNat.
Import ListNotations.
Close Scope Q_scope.

Section Finders.
  Variable A : Type.
  Variable nz : A -> bool.
  Variable a0 : A.

  Definition size (shape : list nat) : nat := fold_right Nat.mul 1 shape.

  (* multi-index of flat position k (row-major) *)
  Fixpoint unravel (shape : list nat) (k : nat) : list nat :=
    match shape with
    | [] => []
    | d :: shape' => let p := fold_right Nat.mul 1 shape' in (k / p) mod d :: unravel shape' k
    end.

  (* numpy.ndenumerate(x) *)
  Definition entries (shape : list nat) (data : list A) : list (list nat * A) :=
    map (fun k => (unravel shape k, nth k data a0)) (seq 0 (size shape)).

  (* for index, val in ndenumerate(x): cands = step(index, val, cands); if not cands: break *)
  Fixpoint scan (step : list nat -> A -> list (nat * nat) -> list (nat * nat))
      (es : list (list nat * A)) (cands : list (nat * nat)) : list (nat * nat) :=
    match es with
    | [] => cands
    | (idx, v) :: rest =>
        match step idx v cands with
        | [] => []
        | c :: cs => scan step rest (c :: cs)
        end
    end.

  (* min() of a set of 2-tuples: lexicographic order *)
  Definition pair_ltb (p q : nat * nat) : bool :=
    (fst p <? fst q) || ((fst p =? fst q) && (snd p <? snd q)).
  Fixpoint min_pair (l : list (nat * nat)) : option (nat * nat) :=
    match l with
    | [] => None
    | p :: r => match min_pair r with
                | None => Some p
                | Some q => Some (if pair_ltb q p then q else p)
                end
    end.

  (* for d1 in range(ndim - 1): for d2 in range(d1 + 1, ndim): if shape[d1] == shape[d2]: add *)
  Definition eq_pairs (shape : list nat) : list (nat * nat) :=
    let n := length shape in
    flat_map (fun d1 =>
      flat_map (fun d2 => if nth d1 shape 0 =? nth d2 shape 0 then [(d1, d2)] else [])
               (seq (S d1) (n - S d1)))
      (seq 0 (n - 1)).

  (* if (index[d1] != index[d2]) and (abs(val) > atol): remove *)
  Definition diag_step (idx : list nat) (v : A) (cands : list (nat * nat)) : list (nat * nat) :=
    filter (fun p => negb (negb (nth (fst p) idx 0 =? nth (snd p) idx 0) && nz v)) cands.

  Definition find_diag_axes (shape : list nat) (data : list A) : option (nat * nat) :=
    if length shape <? 2 then None
    else min_pair (scan diag_step (entries shape data) (eq_pairs shape)).

  (* d = x.shape[i]; if (index[i] != d - 1 - index[j]) and (abs(val) > atol): remove *)
  Definition antidiag_step (shape : list nat) (idx : list nat) (v : A) (cands : list (nat * nat)) :=
    filter (fun p => negb (negb (nth (fst p) idx 0 =? nth (fst p) shape 0 - 1 - nth (snd p) idx 0) && nz v)) cands.

  Definition find_antidiag_axes (shape : list nat) (data : list A) : option (nat * nat) :=
    if length shape <? 2 then None
    else min_pair (scan (antidiag_step shape) (entries shape data) (eq_pairs shape)).

  (* for ax, d in enumerate(x.shape): for i in range(d): add((ax, i)) *)
  Definition col_pairs (shape : list nat) : list (nat * nat) :=
    flat_map (fun axd => map (fun i => (fst axd, i)) (seq 0 (snd axd)))
             (combine (seq 0 (length shape)) shape).

  (* if abs(val) > atol: for ax, i in enumerate(index): remove every (pax, pi) with pax == ax, pi != i *)
  Definition col_step (idx : list nat) (v : A) (cands : list (nat * nat)) : list (nat * nat) :=
    if nz v then
      fold_left (fun c axi => filter (fun p => negb ((fst axi =? fst p) && negb (snd p =? snd axi))) c)
                (combine (seq 0 (length idx)) idx) cands
    else cands.

  Definition find_columns (shape : list nat) (data : list A) : option (nat * nat) :=
    if length shape <? 1 then None
    else min_pair (scan col_step (entries shape data) (col_pairs shape)).
End Finders.

(* instances used by the correspondence: Gaussian integers (re, im) *)
Definition nzG (g : Z * Z) : bool := negb ((fst g =? 0)%Z && (snd g =? 0)%Z).
Definition find_diag_axes_G := find_diag_axes (Z * Z) nzG (0, 0)%Z.
Definition find_antidiag_axes_G := find_antidiag_axes (Z * Z) nzG (0, 0)%Z.
Definition find_columns_G := find_columns (Z * Z) nzG (0, 0)%Z.

Definition opt_pair_eqb (a b : option (nat * nat)) : bool :=
  match a, b with
  | None, None => true
  | Some (x, y), Some (u, v) => (x =? u) && (y =? v)
  | _, _ => false
  end.

(* explicit tolerance: `abs(val) > atol` on exact rational (dyadic = float) data, complex entries as (re, im):
   |x| > atol  <->  re^2 + im^2 > atol^2   (atol >= 0) *)
Definition nzQ (atol : Q) (x : Q * Q) : bool :=
  negb (Qle_bool (fst x * fst x + snd x * snd x)%Q (atol * atol)%Q).
Definition find_diag_axes_Q (atol : Q) := find_diag_axes (Q * Q) (nzQ atol) (0, 0)%Q.
Definition find_antidiag_axes_Q (atol : Q) := find_antidiag_axes (Q * Q) (nzQ atol) (0, 0)%Q.
Definition find_columns_Q (atol : Q) := find_columns (Q * Q) (nzQ atol) (0, 0)%Q.

(* ---- decision rules of the three structure passes ---------------------------------------------------------------
   TensorNetwork.antidiag_gauge / diagonal_reduce / column_reduce (quimb/tensor/tensor_core.py), same branch structure
   as the code.  Labels are naturals, `outs` = output_inds, `done` = the labels already flipped in this pass. *)
Definition lmem (i : nat) (l : list nat) : bool := existsb (Nat.eqb i) l.

(* antidiag_gauge, for a visited tensor whose finder answer (i, j) carries the labels ix_i = t.inds[i], ix_j = t.inds[j]:
     if ix_i in output_inds:
         if ix_j in output_inds: continue        # both are output indices, don't flip
         ix_flip = ix_j
     else: ix_flip = ix_i
     if ix_flip in done: continue                # only flip once
     flip(ix_flip); done.add(ix_flip)                                                        *)
Definition ag_choose (outs done : list nat) (ix_i ix_j : nat) : option nat :=
  let cand := if lmem ix_i outs then (if lmem ix_j outs then None else Some ix_j) else Some ix_i in
  match cand with
  | None => None
  | Some f => if lmem f done then None else Some f
  end.

(* one call of the pass: `hist` = the labelled finder answers of the visited antidiagonal tensors, in visit order
   (visits where the finder returns None change nothing); result = what is done at each visit *)
Fixpoint ag_decisions (outs done : list nat) (hist : list (nat * nat)) : list (option nat) :=
  match hist with
  | [] => []
  | (i, j) :: h =>
      let d := ag_choose outs done i j in
      d :: ag_decisions outs (match d with Some f => f :: done | None => done end) h
  end.

Definition somes (l : list (option nat)) : list nat :=
  flat_map (fun o => match o with Some x => [x] | None => [] end) l.

(* the labels flipped by one call, in order (`done = set()` at the start of every call) *)
Definition ag_flips (outs : list nat) (hist : list (nat * nat)) : list nat := somes (ag_decisions outs [] hist).

(* diagonal_reduce, finder answer (i, j) with labels ix_i, ix_j:  result (removed label, surviving label)
     if ix_j in output_inds:
         if ix_i in output_inds: continue
         ixmap = {ix_i: ix_j}
     else: ixmap = {ix_j: ix_i}                                                               *)
Definition dr_choose (outs : list nat) (ix_i ix_j : nat) : option (nat * nat) :=
  if lmem ix_j outs then (if lmem ix_i outs then None else Some (ix_i, ix_j)) else Some (ix_j, ix_i).

(* column_reduce: `if ind in output_inds: continue` else isel *)
Definition cr_choose (outs : list nat) (ind : nat) : bool := negb (lmem ind outs).

(* comparison helpers for the correspondence *)
Definition opt_nat_eqb (a b : option nat) : bool :=
  match a, b with None, None => true | Some x, Some y => x =? y | _, _ => false end.
Fixpoint list_eqb {A : Type} (eqb : A -> A -> bool) (l m : list A) : bool :=
  match l, m with
  | [], [] => true
  | x :: l', y :: m' => eqb x y && list_eqb eqb l' m'
  | _, _ => false
  end.
Definition ag_trace_ok (outs : list nat) (hist : list (nat * nat)) (observed : list (option nat)) : bool :=
  list_eqb opt_nat_eqb (ag_decisions outs [] hist) observed.
Definition dr_trace_ok (outs : list nat) (hist : list (nat * nat)) (observed : list (option (nat * nat))) : bool :=
  list_eqb opt_pair_eqb (map (fun p => dr_choose outs (fst p) (snd p)) hist) observed.
Definition cr_trace_ok (outs : list nat) (hist : list nat) (observed : list bool) : bool :=
  list_eqb Bool.eqb (map (cr_choose outs) hist) observed.

(* C04 property theorems: statements only (proofs: C04/Rules.v, C04/Proofs.v, C04/Finders.v).
   K is an ARBITRARY commutative ring (Z, Z[i], Q, R, C ...), `dim` any label
   dimensions, E any exponent type with a homomorphism `ten` into K: no axioms.
   value ts S s = sum over the labels S of the product of the tensors ts, every
   other label (the outer labels) read from the assignment s  (Base/TN.v). *)
From Coq Require Import ZArith QArith Arith List Bool Ring Permutation.
From QV Require Import Base.Sums Base.TN Base.TNExec C04.Model C04.Rules C04.Proofs C04.Finders C04.Passes.
Import ListNotations.
Close Scope Q_scope.

Section C04.
  Variable K : Type.
  Variables (k0 k1 : K) (kadd kmul ksub : K -> K -> K) (kopp : K -> K).
  Hypothesis Kring : ring_theory k0 k1 kadd kmul ksub kopp eq.
  Variable dim : nat -> nat.
  Variable E : Type.
  Variable eadd : E -> E -> E.
  Variable ten : E -> K.
  Hypothesis ten_add : forall a b, ten (eadd a b) = kmul (ten a) (ten b).

  Notation value := (value K k0 k1 kadd kmul dim).
  Notation sum := (Sums.sum K k0 kadd).
  Notation wf := (wf K).
  Notation tinds := (tinds K).
  Notation tval := (tval K).
  Notation prodK := (prodK K k1 kmul).
  Notation inrange := (inrange dim).

  (* insert_gauge: T1 <- gate(T1, A), T2 <- gate(T2, B) on a bond k carried by T1, T2 only,
     with sum_j A[j,m] B[j,n] = delta_mn  (quimb: A = Uinv^T, B = U, Uinv.U = 1; balance_bond: diagonal A, B) *)
  Theorem C04_insert_gauge_sound : forall a b others k A B R s,
    wf a -> wf b -> Forall wf others ->
    (forall t, In t others -> ~ In k (tinds t)) ->
    (forall m n, m < dim k -> n < dim k ->
       sum (dim k) (fun j => kmul (A j m) (B j n)) = if Nat.eqb n m then k1 else k0) ->
    value (gate_ind K k0 kadd kmul dim k A a :: gate_ind K k0 kadd kmul dim k B b :: others) (R ++ [k]) s
    = value (a :: b :: others) (R ++ [k]) s.
  Proof. exact (insert_gauge_sound K k0 k1 kadd kmul ksub kopp Kring dim). Qed.

  (* canonize_bond / compress_bond without truncation: if a = q.M (a factorisation
     over a new bond k', ANY dimension), then (a, b) over k equals (q, M.b) over k' *)
  Theorem C04_move_matrix_across_bond_sound : forall a q b others k k' M R s,
    wf q -> wf b -> Forall wf others -> k <> k' ->
    ~ In k (tinds q) -> ~ In k' (tinds b) ->
    (forall t, In t others -> ~ In k (tinds t) /\ ~ In k' (tinds t)) ->
    (forall s', tval a s' = sum (dim k') (fun m => kmul (tval q (upd s' k' m)) (M m (s' k)))) ->
    value (a :: b :: others) (R ++ [k]) s
    = value (q :: absorb_mat K k0 kadd kmul dim k k' M b :: others) (R ++ [k']) s.
  Proof. exact (move_matrix_sound K k0 k1 kadd kmul ksub kopp Kring dim). Qed.

  (* scalar moves *)
  Theorem C04_absorb_scalar_sound : forall c t ts S s,
    value (scalar_tensor K c :: t :: ts) S s = value (scale K kmul c t :: ts) S s.
  Proof. exact (absorb_scalar_sound K k0 k1 kadd kmul ksub kopp Kring dim). Qed.

  Theorem C04_multiply_spread_value : forall cs ts S s, length cs <= length ts ->
    value (scale_each K kmul cs ts) S s = kmul (prodK cs) (value ts S s).
  Proof. exact (multiply_spread_value K k0 k1 kadd kmul ksub kopp Kring dim). Qed.

  Theorem C04_multiply_spread_sound : forall c cs ts S s, length cs <= length ts -> prodK cs = c ->
    value (scale_each K kmul cs ts) S s = value (scalar_tensor K c :: ts) S s.
  Proof. exact (multiply_spread_sound K k0 k1 kadd kmul ksub kopp Kring dim). Qed.

  Theorem C04_multiply_each_value : forall r ts S s,
    value (map (scale K kmul r) ts) S s = kmul (prodK (repeat r (length ts))) (value ts S s).
  Proof. exact (multiply_each_value K k0 k1 kadd kmul ksub kopp Kring dim). Qed.

  (* exponent bookkeeping: mantissa * ten(e) invariance over an abstract exponent type *)
  Theorem C04_strip_exponent_sound : forall t t' ts S e d s,
    (forall s', tval t s' = kmul (ten d) (tval t' s')) ->
    den K k0 k1 kadd kmul dim E ten (t' :: ts, S, eadd e d) s = den K k0 k1 kadd kmul dim E ten (t :: ts, S, e) s.
  Proof. exact (strip_exponent_sound K k0 k1 kadd kmul ksub kopp Kring dim E eadd ten ten_add). Qed.

  Theorem C04_distribute_exponent_sound : forall ts S e e' r s,
    kmul (prodK (repeat r (length ts))) (ten e') = ten e ->
    den K k0 k1 kadd kmul dim E ten (map (scale K kmul r) ts, S, e') s = den K k0 k1 kadd kmul dim E ten (ts, S, e) s.
  Proof. exact (distribute_exponent_sound K k0 k1 kadd kmul ksub kopp Kring dim E ten). Qed.

  (* equalize_norms(value=None): strip every tensor, then distribute the exponent *)
  Theorem C04_equalize_norms_sound : forall ts ts' S e e' e'' r s,
    strips K kmul E eadd ten ts ts' e e' -> kmul (prodK (repeat r (length ts'))) (ten e'') = ten e' ->
    Forall wf ts -> inrange s ->
    den K k0 k1 kadd kmul dim E ten (map (scale K kmul r) ts', S, e'') s = den K k0 k1 kadd kmul dim E ten (ts, S, e) s.
  Proof. exact (equalize_norms_sound K k0 k1 kadd kmul ksub kopp Kring dim E eadd ten ten_add). Qed.

  (* rank_simplify: a non-output label carried by one tensor only is summed away *)
  Theorem C04_sum_reduce_dangling_sound : forall t ts k R s, Forall wf ts ->
    (forall t', In t' ts -> ~ In k (tinds t')) ->
    value (t :: ts) (R ++ [k]) s = value (sumred K k0 kadd dim k t :: ts) R s.
  Proof. exact (sum_reduce_sound K k0 k1 kadd kmul ksub kopp Kring dim). Qed.

  (* fuse_multibonds: labels ka, kb (dims d1, d2) replaced on EVERY tensor by one fresh
     label of dimension d1*d2 read as ka = k / d2, kb = k mod d2 (k = ka*d2 + kb) *)
  Theorem C04_fuse_sound : forall ts ka kb k R s, Forall wf ts ->
    (forall t, In t ts -> ~ In k (tinds t)) -> k <> ka -> k <> kb -> ka <> kb ->
    dim k = dim ka * dim kb ->
    value (map (fuse K dim ka kb k) ts) (R ++ [k]) s = value ts (R ++ [ka; kb]) s.
  Proof. exact (fuse_sound K k0 k1 kadd kmul ksub kopp Kring dim). Qed.

  (* squeeze: a summed label of dimension 1 ... *)
  Theorem C04_squeeze_sound : forall ts k R s, dim k = 1 ->
    value ts (R ++ [k]) s = value (map (sel K k 0) ts) R s.
  Proof. exact (squeeze_sound K k0 k1 kadd kmul ksub kopp Kring dim). Qed.

  (* ... and an OUTER label of dimension 1 (entries unchanged on in-range assignments) *)
  Theorem C04_squeeze_output_sound : forall ts k S s, Forall wf ts -> dim k = 1 -> ~ In k S -> s k < dim k ->
    value (map (sel K k 0) ts) S s = value ts S s.
  Proof. exact (squeeze_output_sound K k0 k1 kadd kmul dim). Qed.

  (* diagonal_reduce, with the EXACT side condition: the label j that disappears must be
     summed (not an output); the surviving label i may be anything - summed, an output,
     a hyper-index, an output that is also a bond.  (Both outputs: no rewrite.  Only j an
     output: the roles are swapped.) *)
  Theorem C04_diag_reduce_sound : forall ts t i j R s, In t ts -> i <> j -> dim i = dim j ->
    (forall s', inrange s' -> s' i <> s' j -> tval t s' = k0) ->
    inrange s ->
    value ts (R ++ [j]) s = value (map (subst K j i) ts) R s.
  Proof. exact (diag_reduce_sound K k0 k1 kadd kmul ksub kopp Kring dim). Qed.

  (* column_reduce *)
  Theorem C04_column_reduce_sound : forall ts t k c R s, In t ts -> c < dim k ->
    (forall s', inrange s' -> s' k <> c -> tval t s' = k0) ->
    inrange s ->
    value ts (R ++ [k]) s = value (map (sel K k c) ts) R s.
  Proof. exact (isel_sound K k0 k1 kadd kmul ksub kopp Kring dim). Qed.

  (* antidiag_gauge: reversing a summed label on every tensor *)
  Theorem C04_flip_sound : forall ts k R s, Forall wf ts ->
    value (map (flip K dim k) ts) (R ++ [k]) s = value ts (R ++ [k]) s.
  Proof. exact (flip_sound K k0 k1 kadd kmul ksub kopp Kring dim). Qed.

  (* hyperinds_resolve, one occurrence at a time: COPY(x, x') inserted, x renamed to fresh x' on t *)
  Theorem C04_copy_insert_sound : forall t others x x' R s, wf t -> Forall wf others ->
    ~ In x' (tinds t) -> (forall u, In u others -> ~ In x' (tinds u)) -> x <> x' -> dim x' = dim x ->
    inrange s ->
    value (copy2 K k0 k1 x x' :: rename K x x' t :: others) (R ++ [x']) s = value (t :: others) R s.
  Proof. exact (copy_insert_sound K k0 k1 kadd kmul ksub kopp Kring dim). Qed.

  Theorem C04_rename_bond_sound : forall ts x x' R s, Forall wf ts ->
    (forall t, In t ts -> ~ In x' (tinds t)) -> x <> x' -> dim x' = dim x ->
    value (map (rename K x x') ts) (R ++ [x']) s = value ts (R ++ [x]) s.
  Proof. exact (rename_sound K k0 k1 kadd kmul dim). Qed.

  (* gauged networks ((tn, gauges) = tn with the gauge vector inserted on its bond): squeezing a size-1
     gauged bond (tensor_fuse_squeeze with gauges) is sound iff the scalar is absorbed once: r*r = g[0] *)
  Theorem C04_squeeze_gauged_bond_sound : forall a b others k g r R s, dim k = 1 -> kmul r r = g 0 ->
    value (gauge_vec K k g :: a :: b :: others) (R ++ [k]) s
    = value (scale K kmul r (sel K k 0 a) :: scale K kmul r (sel K k 0 b) :: map (sel K k 0) others) R s.
  Proof. exact (squeeze_gauged_bond_sound K k0 k1 kadd kmul ksub kopp Kring dim). Qed.

  (* loop_simplify / pair_simplify replace a GROUP of tensors by their contraction: sound when no summed label occurs
     outside the group or is needed later ... *)
  Theorem C04_group_contract_sound : forall group others S R s,
    Forall wf group -> Forall wf others ->
    (forall i, In i S -> ~ In i R) ->
    (forall i t, In i S -> In t others -> ~ In i (tinds t)) ->
    value (group ++ others) (S ++ R) s = value (contractN K k0 k1 kadd kmul dim group S :: others) R s.
  Proof. exact (group_contract_sound K k0 k1 kadd kmul ksub kopp Kring dim). Qed.

  (* ... and the rule compute_contracted_inds implements (keep a label of the group iff it is a declared outer label or
     occurs outside the group) discharges that side condition for ANY choice of outer labels: an outer label that is
     also a bond inside the group is never summed *)
  Theorem C04_group_contract_keeping_outputs_sound : forall group others outs R s,
    Forall wf group -> Forall wf others ->
    (forall i, In i (group_summed K group others outs) -> ~ In i R) ->
    value (group ++ others) (group_summed K group others outs ++ R) s
    = value (contractN K k0 k1 kadd kmul dim group (group_summed K group others outs) :: others) R s
    /\ forall o, In o outs -> ~ In o (group_summed K group others outs).
  Proof. exact (group_contract_keeping_outputs_sound K k0 k1 kadd kmul ksub kopp Kring dim). Qed.

  (* the order of summation is irrelevant (any permutation) *)
  Theorem C04_value_summed_perm : forall ts S S' s, Forall wf ts -> Permutation S S' -> value ts S s = value ts S' s.
  Proof. exact (value_summed_perm K k0 k1 kadd kmul ksub kopp Kring dim). Qed.

  (* one application of any rule of the rule language preserves the denoted tensor
     and well-formedness ... *)
  Theorem C04_rule_sound : forall x y, rw K k0 k1 kadd kmul dim E eadd ten x y ->
    Forall wf (st_tensors K E x) ->
    Forall wf (st_tensors K E y) /\
    forall s, inrange s -> den K k0 k1 kadd kmul dim E ten x s = den K k0 k1 kadd kmul dim E ten y s.
  Proof. exact (rule_sound K k0 k1 kadd kmul ksub kopp Kring dim E eadd ten ten_add). Qed.

  (* ... hence ANY finite composition of rules, in any order (every `seq` of
     full_simplify, every interleaving with gauging / canonisation / exponent moves) *)
  Theorem C04_rewrite_star_sound : forall x y, rws K k0 k1 kadd kmul dim E eadd ten x y ->
    Forall wf (st_tensors K E x) ->
    forall s, inrange s -> den K k0 k1 kadd kmul dim E ten x s = den K k0 k1 kadd kmul dim E ten y s.
  Proof. exact (rewrite_star_sound K k0 k1 kadd kmul ksub kopp Kring dim E eadd ten ten_add). Qed.
End C04.

Print Assumptions C04_insert_gauge_sound.
Print Assumptions C04_move_matrix_across_bond_sound.
Print Assumptions C04_absorb_scalar_sound.
Print Assumptions C04_multiply_spread_value.
Print Assumptions C04_multiply_spread_sound.
Print Assumptions C04_multiply_each_value.
Print Assumptions C04_strip_exponent_sound.
Print Assumptions C04_distribute_exponent_sound.
Print Assumptions C04_equalize_norms_sound.
Print Assumptions C04_sum_reduce_dangling_sound.
Print Assumptions C04_fuse_sound.
Print Assumptions C04_squeeze_sound.
Print Assumptions C04_squeeze_output_sound.
Print Assumptions C04_diag_reduce_sound.
Print Assumptions C04_column_reduce_sound.
Print Assumptions C04_flip_sound.
Print Assumptions C04_copy_insert_sound.
Print Assumptions C04_rename_bond_sound.
Print Assumptions C04_squeeze_gauged_bond_sound.
Print Assumptions C04_group_contract_sound.
Print Assumptions C04_group_contract_keeping_outputs_sound.
Print Assumptions C04_value_summed_perm.
Print Assumptions C04_rule_sound.
Print Assumptions C04_rewrite_star_sound.

(* ---- structure finders: for every element type, zero test, shape and array ---------- *)
Theorem C04_find_diag_axes_spec : forall (A : Type) (nz : A -> bool) (a0 : A) shape data,
  (forall p, find_diag_axes A nz a0 shape data = Some p ->
     is_diag A nz a0 shape data p /\ forall q, is_diag A nz a0 shape data q -> ~ lex_lt q p)
  /\ (find_diag_axes A nz a0 shape data = None <-> forall q, ~ is_diag A nz a0 shape data q).
Proof. exact find_diag_axes_spec. Qed.
Print Assumptions C04_find_diag_axes_spec.

Theorem C04_find_antidiag_axes_spec : forall (A : Type) (nz : A -> bool) (a0 : A) shape data,
  (forall p, find_antidiag_axes A nz a0 shape data = Some p ->
     is_antidiag A nz a0 shape data p /\ forall q, is_antidiag A nz a0 shape data q -> ~ lex_lt q p)
  /\ (find_antidiag_axes A nz a0 shape data = None <-> forall q, ~ is_antidiag A nz a0 shape data q).
Proof. exact find_antidiag_axes_spec. Qed.
Print Assumptions C04_find_antidiag_axes_spec.

Theorem C04_find_columns_spec : forall (A : Type) (nz : A -> bool) (a0 : A) shape data,
  (forall p, find_columns A nz a0 shape data = Some p ->
     is_col A nz a0 shape data p /\ forall q, is_col A nz a0 shape data q -> ~ lex_lt q p)
  /\ (find_columns A nz a0 shape data = None <-> forall q, ~ is_col A nz a0 shape data q).
Proof. exact find_columns_spec. Qed.
Print Assumptions C04_find_columns_spec.

(* explicit tolerance (`abs(val) > atol`, exact rational data, complex entries as (re, im)): the zero test of the
   finder instances find_*_Q is exactly |x|^2 <= atol^2, and what find_columns returns has every entry off the
   column within atol - not merely within sqrt(atol) *)
Theorem C04_finder_tolerance_predicate : forall atol x,
  nzQ atol x = false <-> (fst x * fst x + snd x * snd x <= atol * atol)%Q.
Proof. exact nzQ_false. Qed.
Print Assumptions C04_finder_tolerance_predicate.

Theorem C04_find_columns_within_tolerance : forall atol shape data ax c,
  find_columns_Q atol shape data = Some (ax, c) ->
  forall k, k < Model.size shape -> nth ax (Model.unravel shape k) 0 <> c ->
  let x := nth k data (0, 0)%Q in (fst x * fst x + snd x * snd x <= atol * atol)%Q.
Proof. exact find_columns_tolerance. Qed.
Print Assumptions C04_find_columns_within_tolerance.

(* finder answer + rewrite theorem on array tensors (the executable Z[i] instance):
   diagonal_reduce / column_reduce driven by the finders are sound *)
Theorem C04_diagonal_reduce_by_finder_sound : forall dims inds shape data,
  length inds = length shape ->
  (forall n, n < length shape -> lookup dims (nth n inds 0) = nth n shape 0) ->
  forall ts a b R s, find_diag_axes_G shape data = Some (a, b) ->
  In (arr_tensor inds shape data) ts -> nth a inds 0 <> nth b inds 0 ->
  inrange (lookup dims) s ->
  gvalue dims ts (R ++ [nth b inds 0]) s = gvalue dims (map (subst G (nth b inds 0) (nth a inds 0)) ts) R s.
Proof. exact diag_reduce_by_finder. Qed.
Print Assumptions C04_diagonal_reduce_by_finder_sound.

Theorem C04_column_reduce_by_finder_sound : forall dims inds shape data,
  length inds = length shape ->
  (forall n, n < length shape -> lookup dims (nth n inds 0) = nth n shape 0) ->
  forall ts ax c R s, find_columns_G shape data = Some (ax, c) ->
  In (arr_tensor inds shape data) ts -> inrange (lookup dims) s ->
  gvalue dims ts (R ++ [nth ax inds 0]) s = gvalue dims (map (sel G (nth ax inds 0) c) ts) R s.
Proof. exact column_reduce_by_finder. Qed.
Print Assumptions C04_column_reduce_by_finder_sound.

Theorem C04_antidiag_finder_licenses_flip : forall dims inds shape data,
  length inds = length shape ->
  (forall n, n < length shape -> lookup dims (nth n inds 0) = nth n shape 0) ->
  forall a b, find_antidiag_axes_G shape data = Some (a, b) ->
  forall s, inrange (lookup dims) s ->
  s (nth a inds 0) <> lookup dims (nth a inds 0) - 1 - s (nth b inds 0) ->
  tval G (arr_tensor inds shape data) s = g0.
Proof. exact find_antidiag_axes_licenses. Qed.
Print Assumptions C04_antidiag_finder_licenses_flip.

(* ---- decision rules of the structure passes (Model.v: ag_choose / ag_decisions / dr_choose / cr_choose mirror the
   branch structure of TensorNetwork.antidiag_gauge / diagonal_reduce / column_reduce) --------------------------- *)
(* which label antidiag_gauge flips for a tensor that is antidiagonal in the labels (i, j): i unless it is an output,
   else j unless it is an output too; never a label already flipped in this call *)
Theorem C04_antidiag_choice_spec : forall outs done i j f,
  ag_choose outs done i j = Some f <->
  ((~ In i outs /\ f = i) \/ (In i outs /\ ~ In j outs /\ f = j)) /\ ~ In f done.
Proof. exact ag_choose_spec. Qed.
Print Assumptions C04_antidiag_choice_spec.

Theorem C04_antidiag_choice_none : forall outs done i j,
  ag_choose outs done i j = None <->
  (In i outs /\ In j outs) \/ (In i outs /\ ~ In j outs /\ In j done) \/ (~ In i outs /\ In i done).
Proof. exact ag_choose_none. Qed.
Print Assumptions C04_antidiag_choice_none.

(* one call of antidiag_gauge, for EVERY history of finder answers (any queue order, cache, arrays): no label is
   flipped twice, no output label is ever flipped, every flipped label is one the finder reported *)
Theorem C04_antidiag_pass_flips_spec : forall outs hist,
  NoDup (ag_flips outs hist)
  /\ forall f, In f (ag_flips outs hist) -> ~ In f outs /\ exists i j, In (i, j) hist /\ (f = i \/ f = j).
Proof. exact ag_flips_spec. Qed.
Print Assumptions C04_antidiag_pass_flips_spec.

Theorem C04_diag_choice_spec : forall outs i j r k,
  dr_choose outs i j = Some (r, k) <->
  (~ In j outs /\ r = j /\ k = i) \/ (In j outs /\ ~ In i outs /\ r = i /\ k = j).
Proof. exact dr_choose_spec. Qed.
Print Assumptions C04_diag_choice_spec.

Theorem C04_diag_choice_none : forall outs i j, dr_choose outs i j = None <-> In i outs /\ In j outs.
Proof. exact dr_choose_none. Qed.
Print Assumptions C04_diag_choice_none.

Theorem C04_column_choice_spec : forall outs k, cr_choose outs k = true <-> ~ In k outs.
Proof. exact cr_choose_spec. Qed.
Print Assumptions C04_column_choice_spec.

Section C04Passes.
  Variable K : Type.
  Variables (k0 k1 : K) (kadd kmul ksub : K -> K -> K) (kopp : K -> K).
  Hypothesis Kring : ring_theory k0 k1 kadd kmul ksub kopp eq.
  Variable dim : nat -> nat.
  Notation value := (value K k0 k1 kadd kmul dim).

  (* ... hence a whole call of antidiag_gauge preserves the denoted tensor, whatever the history: it suffices that every
     label is either a declared output or summed *)
  Theorem C04_antidiag_gauge_pass_sound : forall outs hist ts S s, Forall (wf K) ts ->
    (forall i j, In (i, j) hist -> (In i outs \/ In i S) /\ (In j outs \/ In j S)) ->
    value (apply_flips K dim (ag_flips outs hist) ts) S s = value ts S s.
  Proof. exact (antidiag_gauge_pass_sound K k0 k1 kadd kmul ksub kopp Kring dim). Qed.

  (* diagonal_reduce with the coded choice: the label that disappears is not an output and, being summed, may be
     identified with the surviving one in either orientation *)
  Theorem C04_diagonal_reduce_choice_sound : forall outs ts t i j r k R s, In t ts -> i <> j -> dim i = dim j ->
    (forall s', inrange dim s' -> s' i <> s' j -> tval K t s' = k0) -> inrange dim s ->
    dr_choose outs i j = Some (r, k) ->
    ~ In r outs /\ value ts (R ++ [r]) s = value (map (subst K r k) ts) R s.
  Proof. exact (diagonal_reduce_choice_sound K k0 k1 kadd kmul ksub kopp Kring dim). Qed.
End C04Passes.
Print Assumptions C04_antidiag_gauge_pass_sound.
Print Assumptions C04_diagonal_reduce_choice_sound.

(* non-vacuity for the pass rules: the operator wire  0 -X- 1 -Z- 2  with outputs 0 and 2.  X (antidiagonal) is visited
   first and the inner bond 1 is flipped; that makes Z antidiagonal in (1, 2), whose only flippable label is done: the
   rule leaves it alone.  Flipping the bond keeps the dense operator, flipping the output 2 instead does not. *)
Example C04_pass_example :
  let x := arr_tensor [0; 1] [2; 2] [(0,0); (1,0); (2,0); (0,0)]%Z in
  let z := arr_tensor [1; 2] [2; 2] [(3,0); (0,0); (0,0); (5,1)]%Z in
  let dims := [(0, 2); (1, 2); (2, 2)] in
  ag_decisions [0; 2] [] [(0, 1); (1, 2); (1, 2)] = [Some 1; None; None]
  /\ ag_flips [0; 2] [(0, 1); (1, 2)] = [1]
  /\ ag_flips [] [(0, 1); (1, 2)] = [0; 1]
  /\ dr_choose [0; 2] 1 2 = Some (1, 2) /\ dr_choose [0; 2] 0 2 = None /\ cr_choose [0; 2] 2 = false
  /\ dense dims (apply_flips G (lookup dims) [1] [x; z]) [0; 2] = dense dims [x; z] [0; 2]
  /\ dense dims (apply_flips G (lookup dims) [2] [x; z]) [0; 2] <> dense dims [x; z] [0; 2].
Proof. vm_compute. repeat split; try reflexivity. discriminate. Qed.

(* non-vacuity: a loopy 3-tensor network with a diagonal tensor; the finder returns (0,1),
   diagonal reduction (label 1 -> label 0) gives the same dense tensor over the outer label 3;
   and the side condition is necessary: identifying an OUTPUT label changes the tensor. *)
Example C04_example :
  let d := arr_tensor [0; 1] [2; 2] [(2,0); (0,0); (0,0); (3,1)]%Z in
  let a := arr_tensor [0; 2] [2; 2] [(1,0); (2,0); (3,0); (4,0)]%Z in
  let b := arr_tensor [1; 2; 3] [2; 2; 2] [(1,0); (0,1); (2,0); (0,0); (1,1); (1,0); (0,0); (5,0)]%Z in
  let dims := [(0, 2); (1, 2); (2, 2); (3, 2)] in
  find_diag_axes_G [2; 2] [(2,0); (0,0); (0,0); (3,1)]%Z = Some (0, 1)
  /\ dense dims [d; a; b] [3] = dense dims (map (subst G 1 0) [d; a; b]) [3]
  /\ dense dims [d; a; b] [1; 3] <> dense dims (map (subst G 1 0) [d; a; b]) [1; 3]
  /\ find_columns_G [2; 2] [(0,0); (1,0); (0,0); (2,0)]%Z = Some (1, 1)
  /\ find_antidiag_axes_G [2; 2] [(0,0); (1,0); (2,0); (0,0)]%Z = Some (0, 1).
Proof. vm_compute. repeat split; try reflexivity. discriminate. Qed.

(* non-vacuity for the group rule: a triangle whose bond 1 is declared an outer label: it is kept (labels 0 and 2 are
   summed) and the contracted group has the same dense tensor over [1]; forgetting the declaration sums label 1 too *)
Example C04_group_example :
  let a := arr_tensor [0; 1] [2; 2] [(1,0); (2,0); (3,0); (4,0)]%Z in
  let b := arr_tensor [1; 2] [2; 2] [(0,1); (1,0); (1,0); (2,0)]%Z in
  let c := arr_tensor [2; 0] [2; 2] [(1,0); (0,0); (2,0); (1,1)]%Z in
  let dims := [(0, 2); (1, 2); (2, 2)] in
  group_summed G [a; b; c] [] [1] = [2; 0]
  /\ group_summed G [a; b; c] [] [] = [1; 2; 0]
  /\ dense dims [contractN G g0 g1 gadd gmul (lookup dims) [a; b; c] (group_summed G [a; b; c] [] [1])] [1] = dense dims [a; b; c] [1].
Proof. vm_compute. repeat split; reflexivity. Qed.

(* C04 - the decision rules of the structure passes (Model.v: ag_choose / ag_decisions / dr_choose / cr_choose) never touch
   an output label, flip a label at most once per call, and therefore every call of antidiag_gauge - for EVERY history
   of finder answers, i.e. whatever the queue order, the cache and the arrays are - is a composition of sound flips.
   The rewrite part is over an arbitrary commutative ring (no axioms). *)
From Coq Require Import Arith List Lia Ring PeanoNat Permutation Bool.
From QV Require Import Base.Sums Base.TN C04.Model C04.Rules.
Import ListNotations.

(* ---- the decision rules (pure list facts) -------------------------------------------------------------------- *)
Lemma lmem_true i l : lmem i l = true <-> In i l.
Proof.
  unfold lmem. rewrite existsb_exists. split.
  - intros [x [Hx E]]. apply Nat.eqb_eq in E. subst x. exact Hx.
  - intros H. exists i. split; [exact H | apply Nat.eqb_refl].
Qed.

Lemma lmem_false i l : lmem i l = false <-> ~ In i l.
Proof.
  rewrite <- lmem_true. destruct (lmem i l); split; intros H; try reflexivity; try discriminate.
  exfalso. apply H. reflexivity.
Qed.

(* full characterisation of the antidiag choice *)
Lemma ag_choose_spec outs done i j f :
  ag_choose outs done i j = Some f <->
  ((~ In i outs /\ f = i) \/ (In i outs /\ ~ In j outs /\ f = j)) /\ ~ In f done.
Proof.
  unfold ag_choose.
  destruct (lmem i outs) eqn:Ei; [destruct (lmem j outs) eqn:Ej|].
  - apply lmem_true in Ei. apply lmem_true in Ej. split; [discriminate|].
    intros [[[H _]|[_ [H _]]] _]; contradiction.
  - apply lmem_true in Ei. apply lmem_false in Ej.
    destruct (lmem j done) eqn:Ed.
    + apply lmem_true in Ed. split; [discriminate|].
      intros [[[H _]|[_ [_ ->]]] Hd]; contradiction.
    + apply lmem_false in Ed. split.
      * intros H. injection H as <-. split; [right; auto | exact Ed].
      * intros [[[H _]|[_ [_ ->]]] _]; [contradiction | reflexivity].
  - apply lmem_false in Ei.
    destruct (lmem i done) eqn:Ed.
    + apply lmem_true in Ed. split; [discriminate|].
      intros [[[_ ->]|[H _]] Hd]; contradiction.
    + apply lmem_false in Ed. split.
      * intros H. injection H as <-. split; [left; auto | exact Ed].
      * intros [[[_ ->]|[H _]] _]; [reflexivity | contradiction].
Qed.

Lemma ag_choose_none outs done i j :
  ag_choose outs done i j = None <->
  (In i outs /\ In j outs) \/ (In i outs /\ ~ In j outs /\ In j done) \/ (~ In i outs /\ In i done).
Proof.
  unfold ag_choose.
  destruct (lmem i outs) eqn:Ei; [destruct (lmem j outs) eqn:Ej|].
  - apply lmem_true in Ei. apply lmem_true in Ej. split; [intros _; left; auto | reflexivity].
  - apply lmem_true in Ei. apply lmem_false in Ej. destruct (lmem j done) eqn:Ed.
    + apply lmem_true in Ed. split; [intros _; right; left; auto | reflexivity].
    + apply lmem_false in Ed. split; [discriminate|].
      intros [[_ H]|[[_ [_ H]]|[H _]]]; contradiction.
  - apply lmem_false in Ei. destruct (lmem i done) eqn:Ed.
    + apply lmem_true in Ed. split; [intros _; right; right; auto | reflexivity].
    + apply lmem_false in Ed. split; [discriminate|].
      intros [[H _]|[[H _]|[_ H]]]; contradiction.
Qed.

(* one call: whatever the starting `done` and the history *)
Lemma ag_decisions_spec outs : forall hist done,
  NoDup (somes (ag_decisions outs done hist))
  /\ forall f, In f (somes (ag_decisions outs done hist)) ->
       ~ In f outs /\ ~ In f done /\ exists i j, In (i, j) hist /\ (f = i \/ f = j).
Proof.
  induction hist as [|[i j] h IH]; intros done; cbn [ag_decisions].
  - split; [constructor | intros f []].
  - destruct (ag_choose outs done i j) as [f0|] eqn:Ec.
    + destruct (IH (f0 :: done)) as [Hnd Hin].
      apply ag_choose_spec in Ec. destruct Ec as [Hc Hd0].
      assert (Hf0 : ~ In f0 outs /\ (f0 = i \/ f0 = j)).
      { destruct Hc as [[Hi ->]|[_ [Hj ->]]]; auto. }
      unfold somes in *. cbn [flat_map app]. split.
      * constructor; [|exact Hnd]. intros H. apply Hin in H. destruct H as [_ [H _]]. apply H. left. reflexivity.
      * intros f [<-|H].
        -- destruct Hf0 as [Ho Hij]. repeat split; [exact Ho | exact Hd0 |].
           exists i, j. split; [left; reflexivity | exact Hij].
        -- apply Hin in H. destruct H as [Ho [Hd [i' [j' [Hh Hij]]]]].
           repeat split; [exact Ho | intros Hd'; apply Hd; right; exact Hd' |].
           exists i', j'. split; [right; exact Hh | exact Hij].
    + destruct (IH done) as [Hnd Hin]. unfold somes in *. cbn [flat_map app]. split; [exact Hnd|].
      intros f H. apply Hin in H. destruct H as [Ho [Hd [i' [j' [Hh Hij]]]]].
      repeat split; [exact Ho | exact Hd |]. exists i', j'. split; [right; exact Hh | exact Hij].
Qed.

Theorem ag_flips_spec outs hist :
  NoDup (ag_flips outs hist)
  /\ forall f, In f (ag_flips outs hist) -> ~ In f outs /\ exists i j, In (i, j) hist /\ (f = i \/ f = j).
Proof.
  unfold ag_flips. destruct (ag_decisions_spec outs hist []) as [H1 H2]. split; [exact H1|].
  intros f H. apply H2 in H. destruct H as [Ho [_ He]]. split; assumption.
Qed.

(* diagonal_reduce: the label that disappears is never an output; nothing is done iff both are outputs *)
Lemma dr_choose_spec outs i j r k :
  dr_choose outs i j = Some (r, k) <->
  (~ In j outs /\ r = j /\ k = i) \/ (In j outs /\ ~ In i outs /\ r = i /\ k = j).
Proof.
  unfold dr_choose. destruct (lmem j outs) eqn:Ej; [destruct (lmem i outs) eqn:Ei|].
  - apply lmem_true in Ej. apply lmem_true in Ei. split; [discriminate|].
    intros [[H _]|[_ [H _]]]; contradiction.
  - apply lmem_true in Ej. apply lmem_false in Ei. split.
    + intros H. injection H as <- <-. right. auto.
    + intros [[H _]|[_ [_ [-> ->]]]]; [contradiction | reflexivity].
  - apply lmem_false in Ej. split.
    + intros H. injection H as <- <-. left. auto.
    + intros [[_ [-> ->]]|[H _]]; [reflexivity | contradiction].
Qed.

Lemma dr_choose_removed_not_output outs i j r k : dr_choose outs i j = Some (r, k) -> ~ In r outs.
Proof. intros H. apply dr_choose_spec in H. destruct H as [[H [-> _]]|[_ [H [-> _]]]]; exact H. Qed.

Lemma dr_choose_none outs i j : dr_choose outs i j = None <-> In i outs /\ In j outs.
Proof.
  unfold dr_choose. destruct (lmem j outs) eqn:Ej; [destruct (lmem i outs) eqn:Ei|].
  - apply lmem_true in Ej. apply lmem_true in Ei. split; auto.
  - apply lmem_false in Ei. split; [discriminate | intros [H _]; contradiction].
  - apply lmem_false in Ej. split; [discriminate | intros [_ H]; contradiction].
Qed.

Lemma cr_choose_spec outs k : cr_choose outs k = true <-> ~ In k outs.
Proof. unfold cr_choose. rewrite negb_true_iff. apply lmem_false. Qed.

(* ---- the passes as rewrites, over any commutative ring -------------------------------------------------------- *)
Section PassSound.
  Variable K : Type.
  Variables (k0 k1 : K) (kadd kmul ksub : K -> K -> K) (kopp : K -> K).
  Hypothesis Kring : ring_theory k0 k1 kadd kmul ksub kopp eq.
  Variable dim : ind -> nat.

  Notation value := (TN.value K k0 k1 kadd kmul dim).
  Notation tensor := (TN.tensor K).
  Notation tinds := (TN.tinds K).
  Notation tval := (TN.tval K).
  Notation wf := (TN.wf K).
  Notation flip := (Rules.flip K dim).
  Notation subst := (Rules.subst K).
  Notation sel := (Rules.sel K).
  Notation inrange := (Rules.inrange dim).

  (* TensorNetwork.flip(tn, [k]) for each k in turn *)
  Definition apply_flips (ks : list ind) (ts : list tensor) : list tensor :=
    fold_left (fun ts k => map (flip k) ts) ks ts.

  Lemma Forall_wf_flip k ts : Forall wf ts -> Forall wf (map (flip k) ts).
  Proof. intros H. induction H; cbn; constructor; [apply wf_flip; assumption | assumption]. Qed.

  (* flipping a label that is summed - wherever it stands in the list of summed labels *)
  Lemma flip_summed_sound ts k S s : Forall wf ts -> In k S ->
    value (map (flip k) ts) S s = value ts S s.
  Proof.
    intros Hw Hin. apply in_split in Hin. destruct Hin as [l1 [l2 ->]].
    assert (HP : Permutation (l1 ++ k :: l2) ((l1 ++ l2) ++ [k])).
    { rewrite <- app_assoc. apply Permutation_app_head. change (k :: l2) with ([k] ++ l2). apply Permutation_app_comm. }
    rewrite (value_summed_perm K k0 k1 kadd kmul ksub kopp Kring dim _ _ _ s (Forall_wf_flip k ts Hw) HP).
    rewrite (value_summed_perm K k0 k1 kadd kmul ksub kopp Kring dim _ _ _ s Hw HP).
    apply (flip_sound K k0 k1 kadd kmul ksub kopp Kring). exact Hw.
  Qed.

  Lemma apply_flips_sound : forall ks ts S s, Forall wf ts -> (forall k, In k ks -> In k S) ->
    value (apply_flips ks ts) S s = value ts S s.
  Proof.
    induction ks as [|k ks IH]; intros ts S s Hw Hin; [reflexivity|].
    unfold apply_flips. cbn [fold_left]. fold (apply_flips ks (map (flip k) ts)).
    rewrite IH; [| apply Forall_wf_flip; exact Hw | intros k' Hk'; apply Hin; right; exact Hk'].
    apply flip_summed_sound; [exact Hw | apply Hin; left; reflexivity].
  Qed.

  (* one call of antidiag_gauge, ANY history of finder answers: if every label the finder reports is either a declared
     output or summed (which is what "outer labels" means), the network after the call denotes the same tensor *)
  Theorem antidiag_gauge_pass_sound outs hist ts S s : Forall wf ts ->
    (forall i j, In (i, j) hist -> (In i outs \/ In i S) /\ (In j outs \/ In j S)) ->
    value (apply_flips (ag_flips outs hist) ts) S s = value ts S s.
  Proof.
    intros Hw Hl. apply apply_flips_sound; [exact Hw|].
    intros k Hk. apply ag_flips_spec in Hk. destruct Hk as [Ho [i [j [Hh Hij]]]].
    destruct (Hl i j Hh) as [Hi Hj]. destruct Hij as [->| ->]; [destruct Hi | destruct Hj]; tauto.
  Qed.

  (* diagonal_reduce with the coded choice of the surviving label: the removed label r is not an output, and with r
     summed the rewrite is sound in BOTH orientations *)
  Theorem diagonal_reduce_choice_sound outs ts t i j r k R s : In t ts -> i <> j -> dim i = dim j ->
    (forall s', inrange s' -> s' i <> s' j -> tval t s' = k0) -> inrange s ->
    dr_choose outs i j = Some (r, k) ->
    ~ In r outs /\ value ts (R ++ [r]) s = value (map (subst r k) ts) R s.
  Proof.
    intros Hin Hij Hd Hz Hs Hc. split; [eapply dr_choose_removed_not_output; exact Hc|].
    apply dr_choose_spec in Hc. destruct Hc as [[_ [-> ->]]|[_ [_ [-> ->]]]].
    - apply (diag_reduce_sound K k0 k1 kadd kmul ksub kopp Kring dim ts t i j R s); assumption.
    - apply (diag_reduce_sound K k0 k1 kadd kmul ksub kopp Kring dim ts t j i R s); try assumption.
      + intros E. apply Hij. symmetry. exact E.
      + symmetry. exact Hd.
      + intros s' Hs' Hne. apply Hz; [exact Hs'|]. intros E. apply Hne. symmetry. exact E.
  Qed.
End PassSound.

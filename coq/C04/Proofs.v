(* C04 - composition of rewrite rules.  A network state is
     (tensors, labels still to be summed, stored exponent)
   denoting  ten(exponent) * sum_{summed} prod tensors  (all other labels are the
   outer labels, read from the assignment).  `rw` is the rule language: one
   constructor per primitive that quimb's gauging / simplification passes are
   made of, each with exactly the side condition its soundness proof needs.
   `rewrite_star_sound`: ANY finite composition of rules, in any order, denotes
   the same tensor on every in-range assignment of the outer labels. *)
From Coq Require Import Arith List Lia Ring PeanoNat Permutation Bool.
From QV Require Import Base.Sums Base.TN C04.Rules.
Import ListNotations.

Section Rewrites.
  Variable K : Type.
  Variables (k0 k1 : K) (kadd kmul ksub : K -> K -> K) (kopp : K -> K).
  Hypothesis Kring : ring_theory k0 k1 kadd kmul ksub kopp eq.
  Add Ring Krc04p : Kring.
  Infix "+" := kadd. Infix "*" := kmul.
  Variable dim : ind -> nat.

  (* exponents: any abelian-group-like type with a homomorphism into the multiplicative monoid of K;
     quimb: E = floats, ten e = 10^e *)
  Variable E : Type.
  Variable eadd : E -> E -> E.
  Variable ten : E -> K.
  Hypothesis ten_add : forall a b, ten (eadd a b) = ten a * ten b.

  Notation sum := (Sums.sum K k0 kadd).
  Notation value := (TN.value K k0 k1 kadd kmul dim).
  Notation tprod := (TN.tprod K k1 kmul).
  Notation prodK := (TN.prodK K k1 kmul).
  Notation tensor := (TN.tensor K).
  Notation tinds := (TN.tinds K).
  Notation tval := (TN.tval K).
  Notation wf := (TN.wf K).
  Notation contract2 := (TN.contract2 K k0 kadd kmul dim).
  Notation scale := (Rules.scale K kmul).
  Notation scalar_tensor := (Rules.scalar_tensor K).
  Notation scale_each := (Rules.scale_each K kmul).
  Notation sumred := (Rules.sumred K k0 kadd dim).
  Notation sel := (Rules.sel K).
  Notation subst := (Rules.subst K).
  Notation flip := (Rules.flip K dim).
  Notation fuse := (Rules.fuse K dim).
  Notation gate_ind := (Rules.gate_ind K k0 kadd kmul dim).
  Notation absorb_mat := (Rules.absorb_mat K k0 kadd kmul dim).
  Notation rename := (Rules.rename K).
  Notation copy2 := (Rules.copy2 K k0 k1).
  Notation inrange := (Rules.inrange dim).

  Definition state := (list tensor * list ind * E)%type.
  Definition st_tensors (x : state) := fst (fst x).
  Definition st_summed (x : state) := snd (fst x).
  Definition st_exp (x : state) := snd x.

  (* the tensor a state denotes over its outer labels *)
  Definition den (x : state) (s : asg) : K := ten (st_exp x) * value (st_tensors x) (st_summed x) s.

  (* ---- exponent bookkeeping ------------------------------------------------------- *)
  (* strip_exponent: t = ten(d) * t'  ==> store t', add d to the exponent *)
  Theorem strip_exponent_sound t t' ts S e d s :
    (forall s', tval t s' = ten d * tval t' s') ->
    den (t' :: ts, S, eadd e d) s = den (t :: ts, S, e) s.
  Proof.
    intros H. unfold den. cbn [st_exp st_tensors st_summed fst snd].
    rewrite ten_add.
    rewrite (value_pointwise K k0 k1 kadd kmul dim (t :: ts) (scale (ten d) t' :: ts))
      by (intros s'; rewrite !(tprod_cons K k1 kmul); cbn; rewrite H; reflexivity).
    rewrite (scale_value K k0 k1 kadd kmul ksub kopp Kring). ring.
  Qed.

  (* distribute_exponent: every tensor times r, exponent e -> e', with r^n * ten e' = ten e *)
  Theorem distribute_exponent_sound ts S e e' r s :
    prodK (repeat r (length ts)) * ten e' = ten e ->
    den (map (scale r) ts, S, e') s = den (ts, S, e) s.
  Proof.
    intros H. unfold den. cbn [st_exp st_tensors st_summed fst snd].
    rewrite (multiply_each_value K k0 k1 kadd kmul ksub kopp Kring). rewrite <- H. ring.
  Qed.

  (* ---- the rule language ------------------------------------------------------------ *)
  Inductive rw : state -> state -> Prop :=
  | Rw_perm ts ts' S e : Permutation ts ts' -> rw (ts, S, e) (ts', S, e)
  | Rw_reorder ts S S' e : Permutation S S' -> rw (ts, S, e) (ts, S', e)
  (* pairwise contraction (C01): labels S0 occur on no other tensor and are not summed later *)
  | Rw_contract a b others S0 R e :
      (forall i, In i S0 -> ~ In i R) ->
      (forall i t, In i S0 -> In t others -> ~ In i (tinds t)) ->
      rw (a :: b :: others, S0 ++ R, e) (contract2 a b S0 :: others, R, e)
  (* rank_simplify: a label on one tensor only, not an output, is summed away *)
  | Rw_sum_reduce t ts k R e :
      (forall t', In t' ts -> ~ In k (tinds t')) ->
      rw (t :: ts, R ++ [k], e) (sumred k t :: ts, R, e)
  (* squeeze: a summed label of dimension 1 is dropped *)
  | Rw_squeeze ts k R e : dim k = 1 -> rw (ts, R ++ [k], e) (map (sel k 0) ts, R, e)
  (* column_reduce: some tensor is zero unless label k = c *)
  | Rw_isel ts t k c R e : In t ts -> c < dim k ->
      (forall s', inrange s' -> s' k <> c -> tval t s' = k0) ->
      rw (ts, R ++ [k], e) (map (sel k c) ts, R, e)
  (* diagonal_reduce: some tensor is zero unless labels i, j agree; j (summed) is replaced by i everywhere *)
  | Rw_diag ts t i j R e : In t ts -> i <> j -> dim i = dim j ->
      (forall s', inrange s' -> s' i <> s' j -> tval t s' = k0) ->
      rw (ts, R ++ [j], e) (map (subst j i) ts, R, e)
  (* antidiag_gauge: a summed label is reversed on every tensor *)
  | Rw_flip ts k R e : rw (ts, R ++ [k], e) (map (flip k) ts, R ++ [k], e)
  (* fuse_multibonds: two summed labels replaced by one fresh label of the product dimension *)
  | Rw_fuse ts ka kb k R e :
      (forall t, In t ts -> ~ In k (tinds t)) -> k <> ka -> k <> kb -> ka <> kb ->
      dim k = (dim ka * dim kb)%nat ->
      rw (ts, R ++ [ka; kb], e) (map (fuse ka kb k) ts, R ++ [k], e)
  (* insert_gauge / balance_bond: A^T B = 1 on the bond k between a and b *)
  | Rw_gauge a b others k A B R e :
      In k (tinds a) -> In k (tinds b) ->
      (forall t, In t others -> ~ In k (tinds t)) ->
      (forall m n, m < dim k -> n < dim k ->
         sum (dim k) (fun j => A j m * B j n) = if Nat.eqb n m then k1 else k0) ->
      rw (a :: b :: others, R ++ [k], e) (gate_ind k A a :: gate_ind k B b :: others, R ++ [k], e)
  (* canonize_bond / compress_bond without truncation: a = q.M, the factor M moves into b *)
  | Rw_move_matrix a q b others k k' M R e :
      wf q -> k <> k' -> In k (tinds b) ->
      ~ In k (tinds q) -> ~ In k' (tinds b) ->
      (forall t, In t others -> ~ In k (tinds t) /\ ~ In k' (tinds t)) ->
      (forall s', tval a s' = sum (dim k') (fun m => tval q (upd s' k' m) * M m (s' k))) ->
      rw (a :: b :: others, R ++ [k], e) (q :: absorb_mat k k' M b :: others, R ++ [k'], e)
  (* alpha-renaming of a summed label *)
  | Rw_rename ts x x' R e :
      (forall t, In t ts -> ~ In x' (tinds t)) -> x <> x' -> dim x' = dim x ->
      rw (ts, R ++ [x], e) (map (rename x x') ts, R ++ [x'], e)
  (* hyperinds_resolve, one occurrence: rename x to a fresh x' on t and insert COPY(x, x') *)
  | Rw_copy_insert t others x x' R e :
      ~ In x' (tinds t) -> (forall u, In u others -> ~ In x' (tinds u)) -> x <> x' -> dim x' = dim x ->
      rw (t :: others, R, e) (copy2 x x' :: rename x x' t :: others, R ++ [x'], e)
  (* a popped scalar is multiplied back, spread over several tensors *)
  | Rw_absorb_scalars c cs ts S e : length cs <= length ts -> prodK cs = c ->
      rw (scalar_tensor c :: ts, S, e) (scale_each cs ts, S, e)
  (* moving scalar factors between tensors *)
  | Rw_rescale cs cs' ts S e : Forall wf ts -> length cs <= length ts -> length cs' <= length ts -> prodK cs = prodK cs' ->
      rw (scale_each cs ts, S, e) (scale_each cs' ts, S, e)
  (* strip_exponent *)
  | Rw_strip t t' ts S e d : wf t' -> (forall s', tval t s' = ten d * tval t' s') ->
      rw (t :: ts, S, e) (t' :: ts, S, eadd e d)
  (* distribute_exponent *)
  | Rw_distribute ts S e e' r : prodK (repeat r (length ts)) * ten e' = ten e ->
      rw (ts, S, e) (map (scale r) ts, S, e').

  Lemma Forall_map_wf (F : tensor -> tensor) ts : (forall t, wf t -> wf (F t)) -> Forall wf ts -> Forall wf (map F ts).
  Proof. intros H Hw. induction Hw; cbn; constructor; auto. Qed.

  Theorem rw_wf x y : rw x y -> Forall wf (st_tensors x) -> Forall wf (st_tensors y).
  Proof.
    intros H Hw. destruct H; cbn [st_tensors fst] in *.
    - eapply Permutation_Forall; eassumption.
    - exact Hw.
    - inversion Hw as [|? ? Ha Hw']; subst. inversion Hw' as [|? ? Hb Ho]; subst.
      constructor; [apply wf_contract2; assumption | exact Ho].
    - inversion Hw; subst. constructor; [apply wf_sumred; assumption | assumption].
    - apply Forall_map_wf; [intros; apply wf_sel; assumption | exact Hw].
    - apply Forall_map_wf; [intros; apply wf_sel; assumption | exact Hw].
    - apply Forall_map_wf; [intros; apply wf_subst; assumption | exact Hw].
    - apply Forall_map_wf; [intros; apply wf_flip; assumption | exact Hw].
    - apply Forall_map_wf; [intros; apply wf_fuse; assumption | exact Hw].
    - inversion Hw as [|? ? Ha Hw']; subst. inversion Hw' as [|? ? Hb Ho]; subst.
      constructor; [apply wf_gate_ind; assumption|]. constructor; [apply wf_gate_ind; assumption | exact Ho].
    - inversion Hw as [|? ? Ha Hw']; subst. inversion Hw' as [|? ? Hb Ho]; subst.
      constructor; [assumption|]. constructor; [apply wf_absorb_mat; assumption | exact Ho].
    - apply Forall_map_wf; [intros; apply wf_rename; assumption | exact Hw].
    - inversion Hw; subst. constructor; [apply wf_copy2|]. constructor; [apply wf_rename; assumption | assumption].
    - inversion Hw; subst. apply wf_scale_each. assumption.
    - apply wf_scale_each. assumption.
    - inversion Hw; subst. constructor; assumption.
    - apply Forall_map_wf; [intros; apply wf_scale; assumption | exact Hw].
  Qed.
  Ltac unden := unfold den; cbn [st_exp st_tensors st_summed fst snd]; f_equal.

  (* one rule application preserves the denoted tensor on every in-range assignment *)
  Theorem rw_sound x y : rw x y -> Forall wf (st_tensors x) ->
    forall s, inrange s -> den x s = den y s.
  Proof.
    intros H Hw s Hs. destruct H; cbn [st_tensors fst] in Hw.
    - unden. apply (value_perm K k0 k1 kadd kmul ksub kopp Kring). assumption.
    - unden. apply (value_summed_perm K k0 k1 kadd kmul ksub kopp Kring); assumption.
    - unden. inversion Hw as [|? ? Ha Hw']; subst. inversion Hw' as [|? ? Hb Ho]; subst.
      apply (contract_step_sound K k0 k1 kadd kmul ksub kopp Kring); assumption.
    - unden. inversion Hw; subst. apply (sum_reduce_sound K k0 k1 kadd kmul ksub kopp Kring); assumption.
    - unden. apply (squeeze_sound K k0 k1 kadd kmul ksub kopp Kring). assumption.
    - unden. apply (isel_sound K k0 k1 kadd kmul ksub kopp Kring) with (t := t); assumption.
    - unden. apply (diag_reduce_sound K k0 k1 kadd kmul ksub kopp Kring) with (t := t); assumption.
    - unden. symmetry. apply (flip_sound K k0 k1 kadd kmul ksub kopp Kring). assumption.
    - unden. symmetry. apply (fuse_sound K k0 k1 kadd kmul ksub kopp Kring); assumption.
    - unden. inversion Hw as [|? ? Ha Hw']; subst. inversion Hw' as [|? ? Hb Ho]; subst.
      symmetry. apply (insert_gauge_sound K k0 k1 kadd kmul ksub kopp Kring); assumption.
    - unden. inversion Hw as [|? ? Ha Hw']; subst. inversion Hw' as [|? ? Hb Ho]; subst.
      apply (move_matrix_sound K k0 k1 kadd kmul ksub kopp Kring); assumption.
    - unden. symmetry. apply (rename_sound K k0 k1 kadd kmul dim); assumption.
    - unden. inversion Hw; subst. symmetry. apply (copy_insert_sound K k0 k1 kadd kmul ksub kopp Kring); assumption.
    - unden. symmetry. apply (multiply_spread_sound K k0 k1 kadd kmul ksub kopp Kring); assumption.
    - unden. rewrite !(multiply_spread_value K k0 k1 kadd kmul ksub kopp Kring) by assumption. congruence.
    - symmetry. apply strip_exponent_sound. assumption.
    - symmetry. apply distribute_exponent_sound. assumption.
  Qed.

  Theorem rule_sound x y : rw x y -> Forall wf (st_tensors x) ->
    Forall wf (st_tensors y) /\ forall s, inrange s -> den x s = den y s.
  Proof. intros H Hw. split; [exact (rw_wf x y H Hw) | exact (rw_sound x y H Hw)]. Qed.

  (* finite compositions *)
  Inductive rws : state -> state -> Prop :=
  | rws_refl x : rws x x
  | rws_step x y z : rw x y -> rws y z -> rws x z.

  Lemma rws_trans x y z : rws x y -> rws y z -> rws x z.
  Proof. induction 1; intros H2; [exact H2 | econstructor; eauto]. Qed.

  Theorem rws_wf x y : rws x y -> Forall wf (st_tensors x) -> Forall wf (st_tensors y).
  Proof. induction 1 as [|x y z Hxy Hyz IH]; intros Hw; [exact Hw|]. apply IH. eapply rw_wf; eassumption. Qed.

  (* ANY finite composition of sound rules, in any order, preserves the denoted tensor *)
  Theorem rewrite_star_sound x y : rws x y -> Forall wf (st_tensors x) ->
    forall s, inrange s -> den x s = den y s.
  Proof.
    induction 1 as [|x y z Hxy Hyz IH]; intros Hw s Hs; [reflexivity|].
    rewrite (rw_sound x y Hxy Hw s Hs). apply IH; [eapply rw_wf; eassumption | exact Hs].
  Qed.

  (* equalize_norms(value=None) = strip every tensor, then distribute: a composition of rules.
     Stated for the two-phase program on an arbitrary list of per-tensor strips. *)
  Inductive strips : list tensor -> list tensor -> E -> E -> Prop :=
  | strips_nil e : strips [] [] e e
  | strips_cons t t' ts ts' e e' d : wf t' -> (forall s', tval t s' = ten d * tval t' s') ->
      strips ts ts' (eadd e d) e' -> strips (t :: ts) (t' :: ts') e e'.

  Lemma strips_rws ts ts' e e' : strips ts ts' e e' -> forall pre S, rws (pre ++ ts, S, e) (pre ++ ts', S, e').
  Proof.
    induction 1 as [e|t t' ts ts' e e' d Hw Ht Hs IH]; intros pre S; [apply rws_refl|].
    (* bring t to the front, strip it, put it back, continue *)
    apply rws_step with (y := (t :: pre ++ ts, S, e)).
    { apply Rw_perm. symmetry. apply Permutation_middle. }
    apply rws_step with (y := (t' :: pre ++ ts, S, eadd e d)).
    { apply Rw_strip; assumption. }
    apply rws_step with (y := ((pre ++ [t']) ++ ts, S, eadd e d)).
    { apply Rw_perm. rewrite <- app_assoc. cbn. apply Permutation_middle. }
    replace (pre ++ t' :: ts') with ((pre ++ [t']) ++ ts') by (rewrite <- app_assoc; reflexivity).
    apply IH.
  Qed.

  Theorem equalize_norms_sound ts ts' S e e' e'' r s :
    strips ts ts' e e' -> prodK (repeat r (length ts')) * ten e'' = ten e' ->
    Forall wf ts -> inrange s ->
    den (map (scale r) ts', S, e'') s = den (ts, S, e) s.
  Proof.
    intros Hs Hr Hw Hin. symmetry. apply rewrite_star_sound; [|exact Hw | exact Hin].
    apply rws_trans with (y := (ts', S, e')).
    - apply (strips_rws ts ts' e e' Hs []).
    - apply rws_step with (y := (map (scale r) ts', S, e'')); [apply Rw_distribute; exact Hr | apply rws_refl].
  Qed.
End Rewrites.

(* C04 - specifications of the structure finders (model: C04/Model.v), for every
   shape and every array:
     - the returned pair really is a diagonal / antidiagonal / single-column
       structure of the array,
     - it is the least such pair in tuple order (what min(set) returns),
     - None is returned iff no pair has the structure;
   and the link to the network semantics: what find_diag_axes / find_columns
   return is exactly the side condition of diag_reduce_sound / isel_sound. *)
From Coq Require Import ZArith QArith Arith List Bool Lia PeanoNat.
From QV Require Import Base.Sums Base.TN Base.TNExec C04.Model C04.Rules.
Import ListNotations.
Close Scope Q_scope.

Section FinderSpecs.
  Variable A : Type.
  Variable nz : A -> bool.
  Variable a0 : A.

  Notation unravel := Model.unravel.
  Notation size := Model.size.
  Notation entries := (Model.entries A a0).
  Notation scan := (Model.scan A).

  Definition lex_lt (p q : nat * nat) : Prop := fst p < fst q \/ (fst p = fst q /\ snd p < snd q).

  Lemma pair_ltb_spec p q : pair_ltb p q = true <-> lex_lt p q.
  Proof.
    unfold pair_ltb, lex_lt. rewrite orb_true_iff, andb_true_iff, !Nat.ltb_lt, Nat.eqb_eq. reflexivity.
  Qed.

  Lemma pair_ltb_false p q : pair_ltb p q = false <-> ~ lex_lt p q.
  Proof. rewrite <- pair_ltb_spec. destruct (pair_ltb p q); split; congruence. Qed.

  (* min(set): a member that nothing in the set is below *)
  Lemma min_pair_spec l p : min_pair l = Some p -> In p l /\ forall q, In q l -> ~ lex_lt q p.
  Proof.
    revert p. induction l as [|p0 r IH]; intros p H; [discriminate|]. cbn [min_pair] in H.
    destruct (min_pair r) as [q0|] eqn:Er.
    - destruct (IH q0 eq_refl) as [Hin Hmin].
      destruct (pair_ltb q0 p0) eqn:Elt; injection H as <-.
      + split; [right; exact Hin|]. intros q [<-|Hq]; [|apply Hmin; exact Hq].
        apply pair_ltb_spec in Elt. unfold lex_lt in *. lia.
      + split; [left; reflexivity|]. intros q [<-|Hq]; [unfold lex_lt; lia|].
        apply pair_ltb_false in Elt. specialize (Hmin q Hq). unfold lex_lt in *. lia.
    - injection H as <-. destruct r as [|x r']; [|cbn in Er; destruct (min_pair r'); discriminate].
      split; [left; reflexivity|]. intros q [<-|[]]. unfold lex_lt. lia.
  Qed.

  Lemma min_pair_none l : min_pair l = None <-> l = [].
  Proof.
    split; [|intros ->; reflexivity]. destruct l as [|p r]; [reflexivity|]. cbn. destruct (min_pair r); discriminate.
  Qed.

  (* the eager scan keeps exactly the candidates that survive every entry (the `break` changes nothing) *)
  Lemma scan_In step (ok : list nat -> A -> nat * nat -> bool) :
    (forall idx v c p, In p (step idx v c) <-> In p c /\ ok idx v p = true) ->
    forall es c p, In p (scan step es c) <-> In p c /\ forall idx v, In (idx, v) es -> ok idx v p = true.
  Proof.
    intros Hstep. induction es as [|[idx v] rest IH]; intros c p; cbn [Model.scan].
    - split; [intros H; split; [exact H | intros ? ? []] | intros [H _]; exact H].
    - destruct (step idx v c) as [|c' cs] eqn:E.
      + split; [intros []|]. intros [Hin Hok].
        assert (Hp : In p (step idx v c)) by (apply Hstep; split; [exact Hin | apply Hok; left; reflexivity]).
        rewrite E in Hp. exact Hp.
      + rewrite IH, <- E, Hstep. split.
        * intros [[Hin Hok] Hrest]. split; [exact Hin|]. intros idx' v' [Heq|Hin']; [injection Heq as <- <-; exact Hok | apply Hrest; exact Hin'].
        * intros [Hin Hall]. split; [split; [exact Hin | apply Hall; left; reflexivity]|]. intros idx' v' Hin'. apply Hall. right. exact Hin'.
  Qed.

  Lemma In_entries shape data idx v :
    In (idx, v) (entries shape data) <-> exists k, k < size shape /\ idx = unravel shape k /\ v = nth k data a0.
  Proof.
    unfold Model.entries. rewrite in_map_iff. split.
    - intros [k [Heq Hk]]. injection Heq as <- <-. apply in_seq in Hk. exists k. repeat split. lia.
    - intros [k [Hk [-> ->]]]. exists k. split; [reflexivity | apply in_seq; lia].
  Qed.

  Lemma In_eq_pairs shape a b :
    In (a, b) (eq_pairs shape) <-> a < b < length shape /\ nth a shape 0 = nth b shape 0.
  Proof.
    unfold eq_pairs. rewrite in_flat_map. split.
    - intros [d1 [H1 H2]]. apply in_seq in H1. apply in_flat_map in H2. destruct H2 as [d2 [H2 H3]].
      apply in_seq in H2. destruct (nth d1 shape 0 =? nth d2 shape 0) eqn:E; [|destruct H3].
      destruct H3 as [H3|[]]. injection H3 as <- <-. apply Nat.eqb_eq in E. split; [lia | exact E].
    - intros [Hab E]. exists a. split; [apply in_seq; lia|]. apply in_flat_map. exists b.
      split; [apply in_seq; lia|]. rewrite E, Nat.eqb_refl. left. reflexivity.
  Qed.

  (* ---- find_diag_axes ------------------------------------------------------------- *)
  Definition is_diag (shape : list nat) (data : list A) (p : nat * nat) : Prop :=
    fst p < snd p < length shape /\ nth (fst p) shape 0 = nth (snd p) shape 0 /\
    forall k, k < size shape ->
      nth (fst p) (unravel shape k) 0 <> nth (snd p) (unravel shape k) 0 -> nz (nth k data a0) = false.

  Lemma diag_cands shape data p :
    In p (scan (diag_step A nz) (entries shape data) (eq_pairs shape)) <-> is_diag shape data p.
  Proof.
    rewrite (scan_In (diag_step A nz)
               (fun idx v p => negb (negb (nth (fst p) idx 0 =? nth (snd p) idx 0) && nz v))).
    2:{ intros idx v c q. unfold diag_step. apply filter_In. }
    destruct p as [a b]. rewrite In_eq_pairs. unfold is_diag. cbn [fst snd]. split.
    - intros [[Hab E] Hall]. repeat split; try lia; try exact E. intros k Hk Hne.
      specialize (Hall (unravel shape k) (nth k data a0)).
      rewrite In_entries in Hall. specialize (Hall (ex_intro _ k (conj Hk (conj eq_refl eq_refl)))).
      apply Nat.eqb_neq in Hne. rewrite Hne in Hall. cbn in Hall. destruct (nz (nth k data a0)); [discriminate | reflexivity].
    - intros [Hab [E Hall]]. split; [split; [lia | exact E]|]. intros idx v Hin.
      apply In_entries in Hin. destruct Hin as [k [Hk [-> ->]]].
      destruct (nth a (unravel shape k) 0 =? nth b (unravel shape k) 0) eqn:Eq; [reflexivity|].
      apply Nat.eqb_neq in Eq. rewrite (Hall k Hk Eq). reflexivity.
  Qed.

  Theorem find_diag_axes_some shape data p : find_diag_axes A nz a0 shape data = Some p ->
    is_diag shape data p /\ forall q, is_diag shape data q -> ~ lex_lt q p.
  Proof.
    unfold find_diag_axes. destruct (length shape <? 2); [discriminate|]. intros H.
    apply min_pair_spec in H. destruct H as [Hin Hmin]. split; [apply diag_cands; exact Hin|].
    intros q Hq. apply Hmin. apply diag_cands. exact Hq.
  Qed.

  Theorem find_diag_axes_none shape data :
    find_diag_axes A nz a0 shape data = None <-> forall q, ~ is_diag shape data q.
  Proof.
    unfold find_diag_axes. destruct (length shape <? 2) eqn:El.
    - apply Nat.ltb_lt in El. split; [|reflexivity]. intros _ q [H _]. lia.
    - rewrite min_pair_none. split.
      + intros H q Hq. apply diag_cands in Hq. rewrite H in Hq. exact Hq.
      + intros H. destruct (scan _ _ _) as [|q r] eqn:E; [reflexivity|]. exfalso. apply (H q). apply diag_cands. rewrite E. left. reflexivity.
  Qed.

  (* ---- find_antidiag_axes --------------------------------------------------------- *)
  Definition is_antidiag (shape : list nat) (data : list A) (p : nat * nat) : Prop :=
    fst p < snd p < length shape /\ nth (fst p) shape 0 = nth (snd p) shape 0 /\
    forall k, k < size shape ->
      nth (fst p) (unravel shape k) 0 <> nth (fst p) shape 0 - 1 - nth (snd p) (unravel shape k) 0 ->
      nz (nth k data a0) = false.

  Lemma antidiag_cands shape data p :
    In p (scan (antidiag_step A nz shape) (entries shape data) (eq_pairs shape)) <-> is_antidiag shape data p.
  Proof.
    rewrite (scan_In (antidiag_step A nz shape)
               (fun idx v p => negb (negb (nth (fst p) idx 0 =? nth (fst p) shape 0 - 1 - nth (snd p) idx 0) && nz v))).
    2:{ intros idx v c q. unfold antidiag_step. apply filter_In. }
    destruct p as [a b]. rewrite In_eq_pairs. unfold is_antidiag. cbn [fst snd]. split.
    - intros [[Hab E] Hall]. repeat split; try lia; try exact E. intros k Hk Hne.
      specialize (Hall (unravel shape k) (nth k data a0)).
      rewrite In_entries in Hall. specialize (Hall (ex_intro _ k (conj Hk (conj eq_refl eq_refl)))).
      apply Nat.eqb_neq in Hne. rewrite Hne in Hall. cbn in Hall. destruct (nz (nth k data a0)); [discriminate | reflexivity].
    - intros [Hab [E Hall]]. split; [split; [lia | exact E]|]. intros idx v Hin.
      apply In_entries in Hin. destruct Hin as [k [Hk [-> ->]]].
      destruct (nth a (unravel shape k) 0 =? nth a shape 0 - 1 - nth b (unravel shape k) 0) eqn:Eq; [reflexivity|].
      apply Nat.eqb_neq in Eq. rewrite (Hall k Hk Eq). reflexivity.
  Qed.

  Theorem find_antidiag_axes_some shape data p : find_antidiag_axes A nz a0 shape data = Some p ->
    is_antidiag shape data p /\ forall q, is_antidiag shape data q -> ~ lex_lt q p.
  Proof.
    unfold find_antidiag_axes. destruct (length shape <? 2); [discriminate|]. intros H.
    apply min_pair_spec in H. destruct H as [Hin Hmin]. split; [apply antidiag_cands; exact Hin|].
    intros q Hq. apply Hmin. apply antidiag_cands. exact Hq.
  Qed.

  Theorem find_antidiag_axes_none shape data :
    find_antidiag_axes A nz a0 shape data = None <-> forall q, ~ is_antidiag shape data q.
  Proof.
    unfold find_antidiag_axes. destruct (length shape <? 2) eqn:El.
    - apply Nat.ltb_lt in El. split; [|reflexivity]. intros _ q [H _]. lia.
    - rewrite min_pair_none. split.
      + intros H q Hq. apply antidiag_cands in Hq. rewrite H in Hq. exact Hq.
      + intros H. destruct (scan _ _ _) as [|q r] eqn:E; [reflexivity|]. exfalso. apply (H q). apply antidiag_cands. rewrite E. left. reflexivity.
  Qed.

  (* ---- find_columns ------------------------------------------------------------------ *)
  Lemma in_combine_seq (l : list nat) : forall s ax i,
    In (ax, i) (combine (seq s (length l)) l) <-> s <= ax < s + length l /\ nth (ax - s) l 0 = i.
  Proof.
    induction l as [|x l IH]; intros s ax i; cbn [length seq combine].
    - split; [intros [] | intros [H _]; lia].
    - cbn [In]. rewrite IH. split.
      + intros [Heq|[Hr Hn]].
        * injection Heq as <- <-. split; [lia|]. rewrite Nat.sub_diag. reflexivity.
        * split; [lia|]. replace (ax - s) with (S (ax - S s)) by lia. exact Hn.
      + intros [Hr Hn]. destruct (Nat.eq_dec ax s) as [->|Hne].
        * left. rewrite Nat.sub_diag in Hn. cbn in Hn. subst. reflexivity.
        * right. split; [lia|]. replace (ax - s) with (S (ax - S s)) in Hn by lia. exact Hn.
  Qed.

  Lemma fold_filter_In {X} (P : X -> nat * nat -> bool) xs : forall c p,
    In p (fold_left (fun c x => filter (P x) c) xs c) <-> In p c /\ forall x, In x xs -> P x p = true.
  Proof.
    induction xs as [|x xs IH]; intros c p; cbn [fold_left].
    - split; [intros H; split; [exact H | intros ? []] | intros [H _]; exact H].
    - rewrite IH, filter_In. split.
      + intros [[Hin Hx] Hall]. split; [exact Hin|]. intros y [<-|Hy]; [exact Hx | apply Hall; exact Hy].
      + intros [Hin Hall]. split; [split; [exact Hin | apply Hall; left; reflexivity]|]. intros y Hy. apply Hall. right. exact Hy.
  Qed.

  Definition col_ok (idx : list nat) (v : A) (p : nat * nat) : bool :=
    if nz v then (length idx <=? fst p) || (nth (fst p) idx 0 =? snd p) else true.

  Lemma col_step_In idx v c p : In p (col_step A nz idx v c) <-> In p c /\ col_ok idx v p = true.
  Proof.
    unfold col_step, col_ok. destruct (nz v); [|split; [intros H; split; [exact H | reflexivity] | intros [H _]; exact H]].
    rewrite (fold_filter_In (fun axi p => negb ((fst axi =? fst p) && negb (snd p =? snd axi)))).
    destruct p as [a b]. cbn [fst snd]. split; intros [Hin H]; (split; [exact Hin|]).
    - destruct (length idx <=? a) eqn:El; [reflexivity|]. apply Nat.leb_gt in El. cbn [orb].
      specialize (H (a, nth a idx 0)). cbn [fst snd] in H. rewrite Nat.eqb_refl in H. cbn in H.
      assert (Hin' : In (a, nth a idx 0) (combine (seq 0 (length idx)) idx)).
      { apply in_combine_seq. split; [lia|]. rewrite Nat.sub_0_r. reflexivity. }
      specialize (H Hin'). apply negb_true_iff, negb_false_iff, Nat.eqb_eq in H. rewrite H. apply Nat.eqb_refl.
    - intros [ax i] Hx. cbn [fst snd]. apply in_combine_seq in Hx. rewrite Nat.sub_0_r in Hx. destruct Hx as [Hr Hn].
      destruct (ax =? a) eqn:Ea; [|reflexivity]. apply Nat.eqb_eq in Ea. subst ax. cbn [andb].
      apply orb_true_iff in H. destruct H as [H|H]; [apply Nat.leb_le in H; lia|].
      apply Nat.eqb_eq in H. rewrite negb_involutive. apply Nat.eqb_eq. congruence.
  Qed.

  Lemma In_col_pairs shape a i : In (a, i) (col_pairs shape) <-> a < length shape /\ i < nth a shape 0.
  Proof.
    unfold col_pairs. rewrite in_flat_map. split.
    - intros [[ax d] [H1 H2]]. apply in_combine_seq in H1. rewrite Nat.sub_0_r in H1. cbn [fst snd] in H2.
      apply in_map_iff in H2. destruct H2 as [j [Heq Hj]]. injection Heq as <- <-. apply in_seq in Hj.
      destruct H1 as [Hr Hn]. split; [lia|]. rewrite Hn. lia.
    - intros [Ha Hi]. exists (a, nth a shape 0). split.
      + apply in_combine_seq. split; [lia|]. rewrite Nat.sub_0_r. reflexivity.
      + cbn [fst snd]. apply in_map_iff. exists i. split; [reflexivity | apply in_seq; lia].
  Qed.

  Lemma length_unravel shape k : length (unravel shape k) = length shape.
  Proof. induction shape as [|d sh IH]; cbn; [reflexivity | rewrite IH; reflexivity]. Qed.

  Definition is_col (shape : list nat) (data : list A) (p : nat * nat) : Prop :=
    fst p < length shape /\ snd p < nth (fst p) shape 0 /\
    forall k, k < size shape -> nth (fst p) (unravel shape k) 0 <> snd p -> nz (nth k data a0) = false.

  Lemma col_cands shape data p :
    In p (scan (col_step A nz) (entries shape data) (col_pairs shape)) <-> is_col shape data p.
  Proof.
    rewrite (scan_In (col_step A nz) col_ok) by (intros; apply col_step_In).
    destruct p as [a i]. rewrite In_col_pairs. unfold is_col. cbn [fst snd]. split.
    - intros [[Ha Hi] Hall]. repeat split; try assumption. intros k Hk Hne.
      specialize (Hall (unravel shape k) (nth k data a0)).
      rewrite In_entries in Hall. specialize (Hall (ex_intro _ k (conj Hk (conj eq_refl eq_refl)))).
      unfold col_ok in Hall. cbn [fst snd] in Hall. destruct (nz (nth k data a0)); [|reflexivity].
      rewrite length_unravel in Hall. apply orb_true_iff in Hall. destruct Hall as [H|H].
      + apply Nat.leb_le in H. lia.
      + apply Nat.eqb_eq in H. contradiction.
    - intros [Ha [Hi Hall]]. split; [split; assumption|]. intros idx v Hin.
      apply In_entries in Hin. destruct Hin as [k [Hk [-> ->]]]. unfold col_ok. cbn [fst snd].
      destruct (nz (nth k data a0)) eqn:En; [|reflexivity].
      destruct (nth a (unravel shape k) 0 =? i) eqn:Eq; [apply orb_true_r|].
      apply Nat.eqb_neq in Eq. rewrite (Hall k Hk Eq) in En. discriminate.
  Qed.

  Theorem find_columns_some shape data p : find_columns A nz a0 shape data = Some p ->
    is_col shape data p /\ forall q, is_col shape data q -> ~ lex_lt q p.
  Proof.
    unfold find_columns. destruct (length shape <? 1); [discriminate|]. intros H.
    apply min_pair_spec in H. destruct H as [Hin Hmin]. split; [apply col_cands; exact Hin|].
    intros q Hq. apply Hmin. apply col_cands. exact Hq.
  Qed.

  Theorem find_columns_none shape data :
    find_columns A nz a0 shape data = None <-> forall q, ~ is_col shape data q.
  Proof.
    unfold find_columns. destruct (length shape <? 1) eqn:El.
    - apply Nat.ltb_lt in El. split; [|reflexivity]. intros _ q [H _]. lia.
    - rewrite min_pair_none. split.
      + intros H q Hq. apply col_cands in Hq. rewrite H in Hq. exact Hq.
      + intros H. destruct (scan _ _ _) as [|q r] eqn:E; [reflexivity|]. exfalso. apply (H q). apply col_cands. rewrite E. left. reflexivity.
  Qed.
  Theorem find_diag_axes_spec shape data :
    (forall p, find_diag_axes A nz a0 shape data = Some p ->
       is_diag shape data p /\ forall q, is_diag shape data q -> ~ lex_lt q p)
    /\ (find_diag_axes A nz a0 shape data = None <-> forall q, ~ is_diag shape data q).
  Proof. split; [intros p; apply find_diag_axes_some | apply find_diag_axes_none]. Qed.

  Theorem find_antidiag_axes_spec shape data :
    (forall p, find_antidiag_axes A nz a0 shape data = Some p ->
       is_antidiag shape data p /\ forall q, is_antidiag shape data q -> ~ lex_lt q p)
    /\ (find_antidiag_axes A nz a0 shape data = None <-> forall q, ~ is_antidiag shape data q).
  Proof. split; [intros p; apply find_antidiag_axes_some | apply find_antidiag_axes_none]. Qed.

  Theorem find_columns_spec shape data :
    (forall p, find_columns A nz a0 shape data = Some p ->
       is_col shape data p /\ forall q, is_col shape data q -> ~ lex_lt q p)
    /\ (find_columns A nz a0 shape data = None <-> forall q, ~ is_col shape data q).
  Proof. split; [intros p; apply find_columns_some | apply find_columns_none]. Qed.
End FinderSpecs.

(* ---- link to the network semantics (Gaussian-integer instance) ------------------------- *)
Lemma unravel_same shape k : Model.unravel shape k = TNExec.unravel shape k.
Proof. induction shape as [|d sh IH]; cbn; [reflexivity | rewrite IH; reflexivity]. Qed.

Lemma unravel_add_mul shape : forall k m, Model.unravel shape (k + m * Model.size shape) = Model.unravel shape k.
Proof.
  induction shape as [|d sh IH]; intros k m; [reflexivity|]. cbn [Model.unravel Model.size fold_right].
  fold (Model.size sh). f_equal.
  - destruct (Nat.eq_dec (Model.size sh) 0) as [E0|Hne].
    + rewrite E0. cbn. reflexivity.
    + replace (m * (d * Model.size sh)) with ((m * d) * Model.size sh) by lia.
      rewrite Nat.div_add by exact Hne.
      destruct (Nat.eq_dec d 0) as [->|Hd]; [rewrite Nat.mul_0_r, Nat.add_0_r; reflexivity|].
      rewrite Nat.mod_add by exact Hd. reflexivity.
  - replace (m * (d * Model.size sh)) with ((m * d) * Model.size sh) by lia. apply IH.
Qed.

Lemma unravel_ravel shape : forall idx, Forall2 lt idx shape ->
  ravel shape idx < Model.size shape /\ Model.unravel shape (ravel shape idx) = idx.
Proof.
  induction shape as [|d sh IH]; intros idx H; inversion H as [|i d' ix sh' Hi Hrest]; subst.
  - cbn. split; [lia | reflexivity].
  - destruct (IH ix Hrest) as [Hlt Hun]. cbn [ravel Model.size fold_right Model.unravel].
    fold (Model.size sh). split.
    + nia.
    + f_equal.
      * assert (Hne : Model.size sh <> 0) by lia.
        rewrite Nat.div_add_l by exact Hne. rewrite (Nat.div_small _ _ Hlt), Nat.add_0_r.
        apply Nat.mod_small. exact Hi.
      * rewrite Nat.add_comm, unravel_add_mul. exact Hun.
Qed.

Lemma inrange_F2_gen dims s : inrange (lookup dims) s -> forall inds shape,
  length inds = length shape ->
  (forall n, n < length shape -> lookup dims (nth n inds 0) = nth n shape 0) ->
  Forall2 lt (map s inds) shape.
Proof.
  intros Hs. induction inds as [|i is IH]; intros sh Hl Hd; destruct sh as [|d sh]; try discriminate; cbn [map].
  - constructor.
  - constructor.
    + pose proof (Hd 0 ltac:(cbn; lia)) as H0. cbn in H0. rewrite <- H0. apply Hs.
    + apply IH; [cbn in Hl; lia|]. intros n Hn. apply (Hd (S n)). cbn. lia.
Qed.

Section Link.
  Variable dims : list (nat * nat).
  Variables (inds shape : list nat) (data : list G).
  Hypothesis Hlen : length inds = length shape.
  Hypothesis Hdims : forall n, n < length shape -> lookup dims (nth n inds 0) = nth n shape 0.

  Lemma inrange_F2 s : inrange (lookup dims) s -> Forall2 lt (map s inds) shape.
  Proof. intros Hs. apply inrange_F2_gen with (dims := dims); assumption. Qed.

  Lemma nth_map_s s a : a < length inds -> nth a (map s inds) 0 = s (nth a inds 0).
  Proof. intros Ha. rewrite (nth_indep _ 0 (s 0)) by (rewrite map_length; exact Ha). apply map_nth. Qed.

  Lemma nzG_false g : nzG g = false -> g = g0.
  Proof.
    unfold nzG. destruct g as [x y]. cbn [fst snd]. intros H. apply negb_false_iff, andb_true_iff in H.
    destruct H as [Hx Hy]. apply Z.eqb_eq in Hx, Hy. subst. reflexivity.
  Qed.

  (* what find_diag_axes returns licenses diagonal_reduce on that tensor *)
  Theorem find_diag_axes_licenses a b : find_diag_axes_G shape data = Some (a, b) ->
    forall s, inrange (lookup dims) s -> s (nth a inds 0) <> s (nth b inds 0) ->
    tval G (arr_tensor inds shape data) s = g0.
  Proof.
    intros Hf s Hs Hne. apply find_diag_axes_some in Hf. destruct Hf as [[Hab [_ Hz]] _]. cbn [fst snd] in *.
    destruct (unravel_ravel shape (map s inds) (inrange_F2 s Hs)) as [Hlt Hun].
    cbn [arr_tensor tval]. apply nzG_false. apply (Hz _ Hlt). rewrite Hun, !nth_map_s by lia. exact Hne.
  Qed.

  (* what find_columns returns licenses column_reduce (isel) on that tensor *)
  Theorem find_columns_licenses ax c : find_columns_G shape data = Some (ax, c) ->
    c < lookup dims (nth ax inds 0) /\
    forall s, inrange (lookup dims) s -> s (nth ax inds 0) <> c ->
    tval G (arr_tensor inds shape data) s = g0.
  Proof.
    intros Hf. apply find_columns_some in Hf. destruct Hf as [[Ha [Hc Hz]] _]. cbn [fst snd] in *.
    split; [rewrite Hdims by exact Ha; exact Hc|]. intros s Hs Hne.
    destruct (unravel_ravel shape (map s inds) (inrange_F2 s Hs)) as [Hlt Hun].
    cbn [arr_tensor tval]. apply nzG_false. apply (Hz _ Hlt). rewrite Hun, nth_map_s by lia. exact Hne.
  Qed.

  (* what find_antidiag_axes returns: after flipping label b the tensor is diagonal in (a, b) *)
  Theorem find_antidiag_axes_licenses a b : find_antidiag_axes_G shape data = Some (a, b) ->
    forall s, inrange (lookup dims) s ->
    s (nth a inds 0) <> lookup dims (nth a inds 0) - 1 - s (nth b inds 0) ->
    tval G (arr_tensor inds shape data) s = g0.
  Proof.
    intros Hf s Hs Hne. apply find_antidiag_axes_some in Hf. destruct Hf as [[Hab [_ Hz]] _]. cbn [fst snd] in *.
    destruct (unravel_ravel shape (map s inds) (inrange_F2 s Hs)) as [Hlt Hun].
    cbn [arr_tensor tval]. apply nzG_false. apply (Hz _ Hlt). rewrite Hun, !nth_map_s by lia.
    rewrite <- Hdims by lia. exact Hne.
  Qed.
  (* the finder's answer + the rewrite theorem: diagonal_reduce on an array tensor is sound
     whenever the label that disappears (axis b's label) is summed *)
  Theorem diag_reduce_by_finder ts a b R s : find_diag_axes_G shape data = Some (a, b) ->
    In (arr_tensor inds shape data) ts -> nth a inds 0 <> nth b inds 0 ->
    inrange (lookup dims) s ->
    gvalue dims ts (R ++ [nth b inds 0]) s
    = gvalue dims (map (subst G (nth b inds 0) (nth a inds 0)) ts) R s.
  Proof.
    intros Hf Hin Hne Hs.
    apply (diag_reduce_sound G g0 g1 gadd gmul gsub gopp G_ring (lookup dims)) with (t := arr_tensor inds shape data);
      try assumption.
    - pose proof (find_diag_axes_some _ _ _ _ _ _ Hf) as [[Hab [Hsh _]] _]. cbn [fst snd] in *.
      rewrite !Hdims by lia. exact Hsh.
    - intros s' Hs' Hd. apply (find_diag_axes_licenses a b Hf s' Hs' Hd).
  Qed.

  Theorem column_reduce_by_finder ts ax c R s : find_columns_G shape data = Some (ax, c) ->
    In (arr_tensor inds shape data) ts -> inrange (lookup dims) s ->
    gvalue dims ts (R ++ [nth ax inds 0]) s = gvalue dims (map (sel G (nth ax inds 0) c) ts) R s.
  Proof.
    intros Hf Hin Hs. destruct (find_columns_licenses ax c Hf) as [Hc Hz].
    apply (isel_sound G g0 g1 gadd gmul gsub gopp G_ring (lookup dims)) with (t := arr_tensor inds shape data); assumption.
  Qed.
End Link.

(* ---- explicit tolerance predicate ------------------------------------------------------------- *)
Lemma nzQ_false atol x : nzQ atol x = false <-> (fst x * fst x + snd x * snd x <= atol * atol)%Q.
Proof. unfold nzQ. rewrite negb_false_iff. apply Qle_bool_iff. Qed.

(* find_columns with tolerance atol: every entry off the returned column has |x|^2 <= atol^2 (never merely <= atol) *)
Theorem find_columns_tolerance atol shape data ax c : find_columns_Q atol shape data = Some (ax, c) ->
  forall k, (k < Model.size shape)%nat -> nth ax (Model.unravel shape k) 0%nat <> c ->
  let x := nth k data (0, 0)%Q in (fst x * fst x + snd x * snd x <= atol * atol)%Q.
Proof.
  intros H k Hk Hne. apply find_columns_some in H. destruct H as [[_ [_ Hz]] _]. cbn [fst snd] in Hz.
  apply nzQ_false. apply (Hz k Hk Hne).
Qed.

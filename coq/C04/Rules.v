(* C04 - rewrite rules on tensor networks and their soundness, over an ARBITRARY
   commutative ring K (Section variables + ring_theory: no axioms), on top of the
   shared network semantics Base/TN.v.

   Every rule is a function on (semantic) tensors mirroring what the quimb pass
   does to the arrays; every theorem has the shape
       side-condition -> value (rule tn) = value tn
   and every rule preserves well-formedness, so rules compose (Proofs.v). *)
From Coq Require Import Arith List Lia Ring PeanoNat Permutation Bool.
From QV Require Import Base.Sums Base.TN.
Import ListNotations.

Section Rules.
  Variable K : Type.
  Variables (k0 k1 : K) (kadd kmul ksub : K -> K -> K) (kopp : K -> K).
  Hypothesis Kring : ring_theory k0 k1 kadd kmul ksub kopp eq.
  Add Ring Krc04 : Kring.
  Infix "+" := kadd. Infix "*" := kmul.
  Variable dim : ind -> nat.

  Notation sum := (Sums.sum K k0 kadd).
  Notation sum_over := (TN.sum_over K k0 kadd dim).
  Notation value := (TN.value K k0 k1 kadd kmul dim).
  Notation tprod := (TN.tprod K k1 kmul).
  Notation prodK := (TN.prodK K k1 kmul).
  Notation tensor := (TN.tensor K).
  Notation tinds := (TN.tinds K).
  Notation tval := (TN.tval K).
  Notation wf := (TN.wf K).
  Notation ext := (TN.ext K).
  Notation indep := (TN.indep K).
  Notation mkT := (TN.Build_tensor K).

  Let sum_ext := Sums.sum_ext K k0 kadd.
  Let sum_zero := Sums.sum_zero K k0 k1 kadd kmul ksub kopp Kring.
  Let sum_add := Sums.sum_add K k0 k1 kadd kmul ksub kopp Kring.
  Let sum_mul_l := Sums.sum_mul_l K k0 k1 kadd kmul ksub kopp Kring.
  Let sum_mul_r := Sums.sum_mul_r K k0 k1 kadd kmul ksub kopp Kring.
  Let sum_swap := Sums.sum_swap K k0 k1 kadd kmul ksub kopp Kring.
  Let sum_delta := Sums.sum_delta K k0 k1 kadd kmul ksub kopp Kring.
  Let sum_prod := Sums.sum_prod K k0 k1 kadd kmul ksub kopp Kring.
  Let sum_over_ext_fun := TN.sum_over_ext_fun K k0 kadd dim.
  Let sum_over_aeq := TN.sum_over_aeq K k0 kadd dim.
  Let sum_over_app := TN.sum_over_app K k0 kadd dim.

  (* an assignment is in range when every label takes a value below its dimension *)
  Definition inrange (s : asg) : Prop := forall i, s i < dim i.

  Lemma inrange_upd s i v : inrange s -> v < dim i -> inrange (upd s i v).
  Proof.
    intros H Hv j. unfold upd. destruct (Nat.eqb j i) eqn:E; [|apply H].
    apply Nat.eqb_eq in E. subst. exact Hv.
  Qed.

  Lemma upd_same s i v : upd s i v i = v.
  Proof. unfold upd. rewrite Nat.eqb_refl. reflexivity. Qed.
  Lemma upd_other s i v j : j <> i -> upd s i v j = s j.
  Proof. intros H. unfold upd. destruct (Nat.eqb j i) eqn:E; [apply Nat.eqb_eq in E; contradiction | reflexivity]. Qed.
  Lemma upd_upd s i v w : aeq (upd (upd s i v) i w) (upd s i w).
  Proof. intros j. unfold upd. destruct (Nat.eqb j i); reflexivity. Qed.
  Lemma upd_id_gen s i j : aeq (upd (upd s j (s i)) i (s i)) (upd s j (s i)).
  Proof. intros x. unfold upd. destruct (Nat.eqb x i) eqn:E; [|reflexivity].
    apply Nat.eqb_eq in E. subst x. destruct (Nat.eqb i j); reflexivity. Qed.
  Lemma upd_id s i : aeq (upd s i (s i)) s.
  Proof. intros j. unfold upd. destruct (Nat.eqb j i) eqn:E; [apply Nat.eqb_eq in E; subst|]; reflexivity. Qed.

  (* ---- sums over label blocks: extensionality under an invariant ----------- *)
  Lemma sum_over_ext_P (P : asg -> Prop) L f g :
    (forall s i v, In i L -> v < dim i -> P s -> P (upd s i v)) ->
    (forall s, P s -> f s = g s) ->
    forall s, P s -> sum_over L f s = sum_over L g s.
  Proof.
    induction L as [|i L IH]; intros HP Hfg s Hs; cbn [TN.sum_over]; [apply Hfg; exact Hs|].
    apply sum_ext. intros v Hv. apply IH.
    - intros s' j w Hj. apply HP. right. exact Hj.
    - exact Hfg.
    - apply HP; [left; reflexivity | exact Hv | exact Hs].
  Qed.

  Lemma sum_over_ext_inrange L f g : (forall s, inrange s -> f s = g s) ->
    forall s, inrange s -> sum_over L f s = sum_over L g s.
  Proof.
    intros H. apply sum_over_ext_P; [|exact H].
    intros s i v _ Hv Hs. apply inrange_upd; assumption.
  Qed.

  Lemma sum_over_mul_l L c f s : sum_over L (fun s' => c * f s') s = c * sum_over L f s.
  Proof.
    revert s. induction L as [|i L IH]; intros s; cbn [TN.sum_over]; [reflexivity|].
    rewrite <- sum_mul_l. apply sum_ext. intros v _. apply IH.
  Qed.

  (* the order in which labels are summed is irrelevant: any permutation *)
  Lemma sum_over_perm L L' f : ext f -> Permutation L L' -> forall s, sum_over L f s = sum_over L' f s.
  Proof.
    intros Hf HP. induction HP as [|x l l' HP IH|x y l|l l' l'' H1 IH1 H2 IH2]; intros s.
    - reflexivity.
    - cbn [TN.sum_over]. apply sum_ext. intros v _. apply IH.
    - cbn [TN.sum_over]. destruct (Nat.eq_dec x y) as [->|Hne]; [reflexivity|].
      rewrite sum_swap. apply sum_ext. intros v _. apply sum_ext. intros w _.
      apply sum_over_aeq; [exact Hf|]. apply upd_comm. intros E; apply Hne; symmetry; exact E.
    - rewrite IH1. apply IH2.
  Qed.

  Theorem value_summed_perm ts S S' s : Forall wf ts -> Permutation S S' -> value ts S s = value ts S' s.
  Proof. intros Hw HP. unfold TN.value. apply sum_over_perm; [apply ext_tprod; exact Hw | exact HP]. Qed.

  Lemma value_pointwise ts ts' S s : (forall s', tprod ts s' = tprod ts' s') -> value ts S s = value ts' S s.
  Proof. intros H. unfold TN.value. apply sum_over_ext_fun. exact H. Qed.

  Lemma tprod_cons t ts s : tprod (t :: ts) s = tval t s * tprod ts s.
  Proof. reflexivity. Qed.

  Lemma tprod_zero ts t s : In t ts -> tval t s = k0 -> tprod ts s = k0.
  Proof.
    induction ts as [|u ts IH]; intros Hin Hz; [destruct Hin|].
    rewrite tprod_cons. destruct Hin as [->|Hin]; [rewrite Hz; ring | rewrite (IH Hin Hz); ring].
  Qed.

  Lemma tprod_map (F : tensor -> tensor) (g : asg -> asg) ts s :
    (forall t, tval (F t) s = tval t (g s)) -> tprod (map F ts) s = tprod ts (g s).
  Proof.
    intros H. induction ts as [|t ts IH]; [reflexivity|].
    cbn [map]. rewrite !tprod_cons, H, IH. reflexivity.
  Qed.

  (* ---- scalars ----------------------------------------------------------------- *)
  Definition scale (c : K) (t : tensor) : tensor := mkT (tinds t) (fun s => c * tval t s).
  Definition scalar_tensor (c : K) : tensor := mkT [] (fun _ => c).

  Lemma wf_scale c t : wf t -> wf (scale c t).
  Proof. intros H s s' E. cbn. rewrite (H s s' E). reflexivity. Qed.
  Lemma wf_scalar c : wf (scalar_tensor c).
  Proof. intros s s' _. reflexivity. Qed.

  (* multiplying any one tensor by c multiplies the value by c *)
  Theorem scale_value c t ts S s : value (scale c t :: ts) S s = c * value (t :: ts) S s.
  Proof.
    unfold TN.value. rewrite <- sum_over_mul_l. apply sum_over_ext_fun. intros s'.
    rewrite !tprod_cons. cbn. ring.
  Qed.

  (* a scalar (rank-0) tensor can be absorbed into any tensor *)
  Theorem absorb_scalar_sound c t ts S s :
    value (scalar_tensor c :: t :: ts) S s = value (scale c t :: ts) S s.
  Proof. apply value_pointwise. intros s'. rewrite !tprod_cons. cbn. ring. Qed.

  (* spread: tensor number n is multiplied by the n-th factor (tensors beyond the factor list untouched) *)
  Fixpoint scale_each (cs : list K) (ts : list tensor) : list tensor :=
    match cs, ts with
    | c :: cs', t :: ts' => scale c t :: scale_each cs' ts'
    | _, _ => ts
    end.

  Lemma wf_scale_each cs ts : Forall wf ts -> Forall wf (scale_each cs ts).
  Proof.
    revert ts. induction cs as [|c cs IH]; intros ts H; [destruct ts; exact H|].
    destruct ts as [|t ts]; [exact H|]. inversion H; subst. cbn. constructor; [apply wf_scale; assumption | apply IH; assumption].
  Qed.

  Lemma tprod_scale_each cs ts s : length cs <= length ts ->
    tprod (scale_each cs ts) s = prodK cs * tprod ts s.
  Proof.
    revert ts. induction cs as [|c cs IH]; intros ts Hl.
    - destruct ts; cbn; ring.
    - destruct ts as [|t ts]; [cbn in Hl; lia|]. cbn [scale_each]. rewrite !tprod_cons, IH by (cbn in Hl; lia).
      cbn. ring.
  Qed.

  Theorem multiply_spread_value cs ts S s : length cs <= length ts ->
    value (scale_each cs ts) S s = prodK cs * value ts S s.
  Proof.
    intros Hl. unfold TN.value. rewrite <- sum_over_mul_l. apply sum_over_ext_fun. intros s'.
    apply tprod_scale_each. exact Hl.
  Qed.

  (* popped scalars re-absorbed by `tn *= c` spread over several tensors with factors whose product is c *)
  Theorem multiply_spread_sound c cs ts S s : length cs <= length ts -> prodK cs = c ->
    value (scale_each cs ts) S s = value (scalar_tensor c :: ts) S s.
  Proof.
    intros Hl Hc. rewrite multiply_spread_value by exact Hl. rewrite Hc.
    unfold TN.value. rewrite <- sum_over_mul_l. apply sum_over_ext_fun. intros s'. rewrite tprod_cons. reflexivity.
  Qed.

  Lemma prodK_repeat_map r ts s : tprod (map (scale r) ts) s = prodK (repeat r (length ts)) * tprod ts s.
  Proof.
    induction ts as [|t ts IH]; [cbn; ring|]. cbn [map length repeat]. rewrite !tprod_cons, IH. cbn. ring.
  Qed.

  Theorem multiply_each_value r ts S s :
    value (map (scale r) ts) S s = prodK (repeat r (length ts)) * value ts S s.
  Proof.
    unfold TN.value. rewrite <- sum_over_mul_l. apply sum_over_ext_fun. intros s'. apply prodK_repeat_map.
  Qed.

  (* ---- summing a dangling label --------------------------------------------------- *)
  Definition sumred (k : ind) (t : tensor) : tensor :=
    mkT (remove Nat.eq_dec k (tinds t)) (fun s => sum (dim k) (fun v => tval t (upd s k v))).

  Lemma wf_sumred k t : wf t -> wf (sumred k t).
  Proof.
    intros H s s' E. cbn. apply sum_ext. intros v _. apply H. intros j Hj. unfold upd.
    destruct (Nat.eqb j k) eqn:Ejk; [reflexivity|]. apply E. cbn. apply in_in_remove; [|exact Hj].
    apply Nat.eqb_neq. exact Ejk.
  Qed.

  Theorem sum_reduce_sound t ts k R s : Forall wf ts ->
    (forall t', In t' ts -> ~ In k (tinds t')) ->
    value (t :: ts) (R ++ [k]) s = value (sumred k t :: ts) R s.
  Proof.
    intros Hw Hfree. unfold TN.value. rewrite sum_over_app. apply sum_over_ext_fun. intros s'.
    cbn [TN.sum_over]. rewrite tprod_cons. cbn [sumred TN.tval]. rewrite <- sum_mul_r.
    apply sum_ext. intros v _. rewrite tprod_cons.
    rewrite (indep_tprod K k1 kmul ts k Hw Hfree). reflexivity.
  Qed.

  (* ---- selecting one value of a label (squeeze, column reduction) ------------------- *)
  Definition sel (k : ind) (c : nat) (t : tensor) : tensor :=
    mkT (remove Nat.eq_dec k (tinds t)) (fun s => tval t (upd s k c)).

  Lemma wf_sel k c t : wf t -> wf (sel k c t).
  Proof.
    intros H s s' E. cbn. apply H. intros j Hj. unfold upd.
    destruct (Nat.eqb j k) eqn:Ejk; [reflexivity|]. apply E. cbn. apply in_in_remove; [|exact Hj].
    apply Nat.eqb_neq. exact Ejk.
  Qed.

  Lemma tprod_sel k c ts s : tprod (map (sel k c) ts) s = tprod ts (upd s k c).
  Proof. apply (tprod_map (sel k c) (fun s0 => upd s0 k c)). intros t. reflexivity. Qed.

  (* a summed label of dimension 1 can be dropped from every tensor *)
  Theorem squeeze_sound ts k R s : dim k = 1 ->
    value ts (R ++ [k]) s = value (map (sel k 0) ts) R s.
  Proof.
    intros Hd. unfold TN.value. rewrite sum_over_app. apply sum_over_ext_fun. intros s'.
    cbn [TN.sum_over]. rewrite Hd. cbn [Sums.sum]. rewrite tprod_sel. ring.
  Qed.

  (* squeezing an OUTPUT label of dimension 1: same entries on every in-range assignment *)
  Theorem squeeze_output_sound ts k S s : Forall wf ts -> dim k = 1 -> ~ In k S -> s k < dim k ->
    value (map (sel k 0) ts) S s = value ts S s.
  Proof.
    intros Hw Hd Hni Hs. unfold TN.value.
    apply (sum_over_ext_P (fun s' => s' k = 0)).
    - intros s' i v Hi _ E. rewrite upd_other; [exact E|]. intros ->. contradiction.
    - intros s' E. rewrite tprod_sel. apply ext_tprod; [exact Hw|]. rewrite <- E. apply upd_id.
    - lia.
  Qed.

  (* column reduction: some tensor vanishes unless label k takes the value c *)
  Theorem isel_sound ts t k c R s : In t ts -> c < dim k ->
    (forall s', inrange s' -> s' k <> c -> tval t s' = k0) ->
    inrange s ->
    value ts (R ++ [k]) s = value (map (sel k c) ts) R s.
  Proof.
    intros Hin Hc Hz Hs. unfold TN.value. rewrite sum_over_app.
    apply sum_over_ext_inrange; [|exact Hs]. intros s' Hs'.
    cbn [TN.sum_over]. rewrite tprod_sel.
    rewrite (sum_ext (dim k) _ (fun v => if Nat.eqb v c then tprod ts (upd s' k v) else k0)).
    - apply sum_delta. exact Hc.
    - intros v Hv. destruct (Nat.eqb v c) eqn:E; [reflexivity|]. apply Nat.eqb_neq in E.
      apply (tprod_zero ts t); [exact Hin|]. apply Hz; [apply inrange_upd; assumption|]. rewrite upd_same. exact E.
  Qed.

  (* ---- diagonal reduction: identify label j with label i -------------------------------- *)
  Definition subst (j i : ind) (t : tensor) : tensor :=
    mkT (map (fun x => if Nat.eqb x j then i else x) (tinds t)) (fun s => tval t (upd s j (s i))).

  Lemma wf_subst j i t : wf t -> wf (subst j i t).
  Proof.
    intros H s s' E. cbn. apply H. intros x Hx. unfold upd.
    destruct (Nat.eqb x j) eqn:Exj.
    - apply E. cbn. apply in_map_iff. exists x. rewrite Exj. split; [reflexivity | exact Hx].
    - apply E. cbn. apply in_map_iff. exists x. rewrite Exj. split; [reflexivity | exact Hx].
  Qed.

  Lemma tprod_subst j i ts s : tprod (map (subst j i) ts) s = tprod ts (upd s j (s i)).
  Proof. apply (tprod_map (subst j i) (fun s0 => upd s0 j (s0 i))). intros t. reflexivity. Qed.

  (* EXACT side condition: the label j that disappears must be a summed (non-output)
     label; the label i that stays may be anything (summed later, an output, a
     hyper-index, a bond that is also an output).  The tensor t must vanish
     whenever the two labels take different values, and they have equal dimension. *)
  Theorem diag_reduce_sound ts t i j R s : In t ts -> i <> j -> dim i = dim j ->
    (forall s', inrange s' -> s' i <> s' j -> tval t s' = k0) ->
    inrange s ->
    value ts (R ++ [j]) s = value (map (subst j i) ts) R s.
  Proof.
    intros Hin Hij Hd Hz Hs. unfold TN.value. rewrite sum_over_app.
    apply sum_over_ext_inrange; [|exact Hs]. intros s' Hs'.
    cbn [TN.sum_over]. rewrite tprod_subst.
    rewrite (sum_ext (dim j) _ (fun v => if Nat.eqb v (s' i) then tprod ts (upd s' j v) else k0)).
    - apply sum_delta. rewrite <- Hd. apply Hs'.
    - intros v Hv. destruct (Nat.eqb v (s' i)) eqn:E; [reflexivity|]. apply Nat.eqb_neq in E.
      apply (tprod_zero ts t); [exact Hin|]. apply Hz; [apply inrange_upd; assumption|].
      rewrite upd_same, upd_other by exact Hij.
      intros E'. apply E. symmetry. exact E'.
  Qed.

  (* ---- flipping a summed label (antidiagonal gauge) ---------------------------------------- *)
  Definition flip (k : ind) (t : tensor) : tensor :=
    mkT (tinds t) (fun s => tval t (upd s k (dim k - 1 - s k))).

  Lemma wf_flip k t : wf t -> wf (flip k t).
  Proof.
    intros H s s' E. cbn. apply H. intros x Hx. unfold upd.
    destruct (Nat.eqb x k) eqn:Exk; [|apply E; exact Hx].
    apply Nat.eqb_eq in Exk. subst x. rewrite (E k Hx). reflexivity.
  Qed.

  Lemma sum_shift n f : sum (S n) f = f 0 + sum n (fun v => f (S v)).
  Proof.
    induction n as [|n IH]; [cbn; ring|].
    change (sum (S (S n)) f) with (sum (S n) f + f (S n)). rewrite IH. cbn [Sums.sum]. ring.
  Qed.

  Lemma sum_rev n : forall f, sum n (fun v => f (n - 1 - v)) = sum n f.
  Proof.
    induction n as [|n IH]; intros f; [reflexivity|].
    rewrite (sum_shift n f). cbn [Sums.sum].
    replace (S n - 1 - n) with 0 by lia.
    rewrite (sum_ext n _ (fun v => (fun w => f (S w)) (n - 1 - v))).
    - rewrite (IH (fun w => f (S w))). ring.
    - intros v Hv. cbn beta. f_equal. lia.
  Qed.

  Theorem flip_sound ts k R s : Forall wf ts ->
    value (map (flip k) ts) (R ++ [k]) s = value ts (R ++ [k]) s.
  Proof.
    intros Hw. unfold TN.value. rewrite !sum_over_app. apply sum_over_ext_fun. intros s'.
    cbn [TN.sum_over]. rewrite <- (sum_rev (dim k) (fun v => tprod ts (upd s' k v))).
    apply sum_ext. intros v Hv.
    rewrite (tprod_map (flip k) (fun s0 => upd s0 k (dim k - 1 - s0 k))) by (intros t; reflexivity).
    apply ext_tprod; [exact Hw|]. rewrite upd_same. apply upd_upd.
  Qed.

  (* ---- fusing two labels into one of dimension d1*d2 (index i*d2 + j) ------------------------ *)
  Definition has (i : ind) (l : list ind) : bool := existsb (Nat.eqb i) l.

  Definition fuse (ka kb k : ind) (t : tensor) : tensor :=
    mkT (if has ka (tinds t) || has kb (tinds t)
         then k :: remove Nat.eq_dec ka (remove Nat.eq_dec kb (tinds t)) else tinds t)
        (fun s => tval t (upd (upd s ka (s k / dim kb)) kb (s k mod dim kb))).

  Lemma has_false i l : has i l = false -> ~ In i l.
  Proof.
    unfold has. intros H Hin. assert (existsb (Nat.eqb i) l = true); [|congruence].
    apply existsb_exists. exists i. split; [exact Hin | apply Nat.eqb_refl].
  Qed.

  Lemma wf_fuse ka kb k t : wf t -> wf (fuse ka kb k t).
  Proof.
    intros H s s' E. cbn [fuse TN.tval TN.tinds] in *. apply H. intros x Hx.
    destruct (has ka (tinds t) || has kb (tinds t)) eqn:Hh.
    - assert (Ek : s k = s' k) by (apply E; left; reflexivity).
      unfold upd. rewrite Ek. destruct (Nat.eqb x kb) eqn:E2; [reflexivity|].
      destruct (Nat.eqb x ka) eqn:E1; [reflexivity|].
      apply E. right. apply in_in_remove; [apply Nat.eqb_neq; exact E1|].
      apply in_in_remove; [apply Nat.eqb_neq; exact E2 | exact Hx].
    - apply orb_false_iff in Hh. destruct Hh as [H1 H2]. apply has_false in H1, H2.
      assert (Hxa : x <> ka) by (intros ->; contradiction).
      assert (Hxb : x <> kb) by (intros ->; contradiction).
      rewrite !upd_other by assumption. apply E. exact Hx.
  Qed.

  Theorem fuse_sound ts ka kb k R s : Forall wf ts ->
    (forall t, In t ts -> ~ In k (tinds t)) -> k <> ka -> k <> kb -> ka <> kb ->
    dim k = (dim ka * dim kb)%nat ->
    value (map (fuse ka kb k) ts) (R ++ [k]) s = value ts (R ++ [ka; kb]) s.
  Proof.
    intros Hw Hfresh Hka Hkb H12 Hd. unfold TN.value. rewrite !sum_over_app.
    apply sum_over_ext_fun. intros s'. cbn [TN.sum_over]. rewrite Hd, sum_prod.
    apply sum_ext. intros a Ha. apply sum_ext. intros b Hb.
    rewrite (tprod_map (fuse ka kb k) (fun s0 => upd (upd s0 ka (s0 k / dim kb)) kb (s0 k mod dim kb)))
      by (intros t; reflexivity).
    rewrite upd_same.
    assert (Hb0 : dim kb <> 0) by lia.
    replace ((a * dim kb + b)%nat / dim kb) with a
      by (rewrite Nat.div_add_l by exact Hb0; rewrite (Nat.div_small b) by exact Hb; lia).
    replace ((a * dim kb + b)%nat mod dim kb) with b
      by (rewrite Nat.add_comm, Nat.mod_add by exact Hb0; rewrite Nat.mod_small by exact Hb; reflexivity).
    set (v := (a * dim kb + b)%nat).
    assert (Hext : ext (tprod ts)) by (apply ext_tprod; exact Hw).
    transitivity (tprod ts (upd (upd (upd s' ka a) kb b) k v)).
    - apply Hext. intros x. unfold upd.
      destruct (Nat.eqb x kb) eqn:E2; destruct (Nat.eqb x ka) eqn:E1; destruct (Nat.eqb x k) eqn:E0; try reflexivity;
        apply Nat.eqb_eq in E0; subst x.
      + apply Nat.eqb_eq in E2. contradiction.
      + apply Nat.eqb_eq in E2. contradiction.
      + apply Nat.eqb_eq in E1. contradiction.
    - apply (indep_tprod K k1 kmul ts k Hw Hfresh).
  Qed.

  (* ---- gauge freedom on a bond ---------------------------------------------------------------- *)
  (* T'[.., k, ..] = sum_m M[k, m] * T[.., m, ..]   (quimb: Tensor.gate_(M, k)) *)
  Definition gate_ind (k : ind) (M : nat -> nat -> K) (t : tensor) : tensor :=
    mkT (tinds t) (fun s => sum (dim k) (fun m => M (s k) m * tval t (upd s k m))).

  Lemma wf_gate_ind k M t : wf t -> In k (tinds t) -> wf (gate_ind k M t).
  Proof.
    intros H Hk s s' E. cbn in *. rewrite (E k Hk). apply sum_ext. intros m _. f_equal.
    apply H. intros x Hx. unfold upd. destruct (Nat.eqb x k); [reflexivity | apply E; exact Hx].
  Qed.

  Lemma sum_mul_sum n (f g : nat -> K) :
    sum n f * sum n g = sum n (fun m => sum n (fun m' => f m * g m')).
  Proof.
    rewrite <- sum_mul_r. apply sum_ext. intros m _. rewrite <- sum_mul_l. reflexivity.
  Qed.

  (* sum_j (sum_m A[j,m] x_m)(sum_n B[j,n] y_n) = sum_m x_m y_m  when  A^T B = 1 *)
  Lemma gauge_sum d (A B : nat -> nat -> K) (x y : nat -> K) :
    (forall m n, m < d -> n < d -> sum d (fun j => A j m * B j n) = if Nat.eqb n m then k1 else k0) ->
    sum d (fun j => sum d (fun m => A j m * x m) * sum d (fun n => B j n * y n))
    = sum d (fun m => x m * y m).
  Proof.
    intros HI.
    rewrite (sum_ext d _ (fun j => sum d (fun m => sum d (fun n => (A j m * x m) * (B j n * y n)))))
      by (intros j _; apply sum_mul_sum).
    rewrite sum_swap. apply sum_ext. intros m Hm.
    rewrite sum_swap.
    rewrite (sum_ext d _ (fun n => if Nat.eqb n m then x m * y n else k0)).
    - apply sum_delta. exact Hm.
    - intros n Hn.
      rewrite (sum_ext d _ (fun j => (x m * y n) * (A j m * B j n))) by (intros; ring).
      rewrite sum_mul_l, HI by assumption. destruct (Nat.eqb n m); ring.
  Qed.

  (* insert_gauge: T1 <- gate(T1, A), T2 <- gate(T2, B) on the bond k shared only by
     T1 and T2, with sum_j A[j,m] B[j,n] = delta_mn  (quimb: A = Uinv^T, B = U, Uinv U = 1) *)
  Theorem insert_gauge_sound a b others k A B R s :
    wf a -> wf b -> Forall wf others ->
    (forall t, In t others -> ~ In k (tinds t)) ->
    (forall m n, m < dim k -> n < dim k ->
       sum (dim k) (fun j => A j m * B j n) = if Nat.eqb n m then k1 else k0) ->
    value (gate_ind k A a :: gate_ind k B b :: others) (R ++ [k]) s
    = value (a :: b :: others) (R ++ [k]) s.
  Proof.
    intros Ha Hb Ho Hfree HI. unfold TN.value. rewrite !sum_over_app. apply sum_over_ext_fun. intros s'.
    cbn [TN.sum_over].
    assert (Hind := indep_tprod K k1 kmul others k Ho Hfree).
    rewrite (sum_ext (dim k) _ (fun j =>
       (sum (dim k) (fun m => A j m * tval a (upd s' k m)) * sum (dim k) (fun n => B j n * tval b (upd s' k n)))
       * tprod others s')).
    2:{ intros j _. rewrite !tprod_cons. rewrite Hind. cbn [gate_ind TN.tval]. rewrite upd_same.
        rewrite (sum_ext (dim k) (fun m => A j m * tval a (upd (upd s' k j) k m)) (fun m => A j m * tval a (upd s' k m)))
          by (intros m _; f_equal; apply (wf_ext K a Ha); apply upd_upd).
        rewrite (sum_ext (dim k) (fun m => B j m * tval b (upd (upd s' k j) k m)) (fun n => B j n * tval b (upd s' k n)))
          by (intros m _; f_equal; apply (wf_ext K b Hb); apply upd_upd).
        ring. }
    rewrite sum_mul_r, gauge_sum by exact HI.
    rewrite <- sum_mul_r. apply sum_ext. intros m _. rewrite !tprod_cons, Hind. ring.
  Qed.

  (* moving a matrix across a bond (canonize / compress-without-truncation / balance):
     if  a[.., k, ..] = sum_m q[.., m (label k'), ..] * Rm[m, k]  then
     (a, b) over bond k  ==  (q, Rm.b) over the new bond k' (dimension may differ) *)
  Definition absorb_mat (k k' : ind) (M : nat -> nat -> K) (t : tensor) : tensor :=
    mkT (map (fun x => if Nat.eqb x k then k' else x) (tinds t))
        (fun s => sum (dim k) (fun n => M (s k') n * tval t (upd s k n))).

  Lemma wf_absorb_mat k k' M t : wf t -> In k (tinds t) -> wf (absorb_mat k k' M t).
  Proof.
    intros H Hk s s' E. cbn in *.
    assert (Ek' : s k' = s' k').
    { apply E. apply in_map_iff. exists k. rewrite Nat.eqb_refl. split; [reflexivity | exact Hk]. }
    rewrite Ek'. apply sum_ext. intros n _. f_equal. apply H. intros x Hx. unfold upd.
    destruct (Nat.eqb x k) eqn:Exk; [reflexivity|]. apply E. apply in_map_iff. exists x. rewrite Exk. split; [reflexivity | exact Hx].
  Qed.

  Theorem move_matrix_sound a q b others k k' M R s :
    wf q -> wf b -> Forall wf others -> k <> k' ->
    ~ In k (tinds q) -> ~ In k' (tinds b) ->
    (forall t, In t others -> ~ In k (tinds t) /\ ~ In k' (tinds t)) ->
    (forall s', tval a s' = sum (dim k') (fun m => tval q (upd s' k' m) * M m (s' k))) ->
    value (a :: b :: others) (R ++ [k]) s
    = value (q :: absorb_mat k k' M b :: others) (R ++ [k']) s.
  Proof.
    intros Hq Hb Ho Hkk Hqk Hbk' Hfree Hfac. unfold TN.value. rewrite !sum_over_app.
    apply sum_over_ext_fun. intros s'. cbn [TN.sum_over].
    assert (Hi1 : indep (tprod others) k) by (apply indep_tprod; [exact Ho | intros t Ht; apply (Hfree t Ht)]).
    assert (Hi2 : indep (tprod others) k') by (apply indep_tprod; [exact Ho | intros t Ht; apply (Hfree t Ht)]).
    (* LHS: sum_n (sum_m q(m) M m n) b(n) o ; RHS: sum_m q(m) (sum_n M m n b(n)) o *)
    rewrite (sum_ext (dim k) _ (fun n => sum (dim k') (fun m =>
        tval q (upd s' k' m) * M m n * tval b (upd s' k n) * tprod others s'))).
    2:{ intros n _. rewrite !tprod_cons, Hi1, Hfac, upd_same.
        rewrite <- !sum_mul_r. apply sum_ext. intros m _.
        replace (tval q (upd (upd s' k n) k' m)) with (tval q (upd s' k' m)); [ring|].
        transitivity (tval q (upd (upd s' k' m) k n)).
        - symmetry. apply (wf_indep K q k Hq Hqk).
        - apply (wf_ext K q Hq). apply upd_comm. intros E. apply Hkk. symmetry. exact E. }
    rewrite sum_swap. apply sum_ext. intros m _.
    rewrite !tprod_cons, Hi2. cbn [absorb_mat TN.tval]. rewrite upd_same.
    rewrite (Sums.sum_ext K k0 kadd (dim k) (fun n => M m n * tval b (upd (upd s' k' m) k n))
               (fun n => M m n * tval b (upd s' k n))).
    2:{ intros n _. f_equal. transitivity (tval b (upd (upd s' k n) k' m)).
        - apply (wf_ext K b Hb). apply upd_comm. intros E. apply Hkk. symmetry. exact E.
        - apply (wf_indep K b k' Hb Hbk'). }
    rewrite <- sum_mul_r, <- sum_mul_l. apply sum_ext. intros n _. ring.
  Qed.
  (* ---- renaming a summed label; introducing a hyper-index copy -------------------------------- *)
  Definition rename (x x' : ind) (t : tensor) : tensor :=
    mkT (map (fun y => if Nat.eqb y x then x' else y) (tinds t)) (fun s => tval t (upd s x (s x'))).

  Lemma wf_rename x x' t : wf t -> wf (rename x x' t).
  Proof. exact (wf_subst x x' t). Qed.

  (* alpha-renaming of a summed label to a fresh label of the same dimension *)
  Theorem rename_sound ts x x' R s : Forall wf ts ->
    (forall t, In t ts -> ~ In x' (tinds t)) -> x <> x' -> dim x' = dim x ->
    value (map (rename x x') ts) (R ++ [x']) s = value ts (R ++ [x]) s.
  Proof.
    intros Hw Hfresh Hne Hd. unfold TN.value. rewrite !sum_over_app. apply sum_over_ext_fun. intros s'.
    cbn [TN.sum_over]. rewrite Hd. apply sum_ext. intros v _.
    rewrite (tprod_map (rename x x') (fun s0 => upd s0 x (s0 x'))) by (intros t; reflexivity).
    rewrite upd_same.
    transitivity (tprod ts (upd (upd s' x v) x' v)).
    - apply ext_tprod; [exact Hw|]. apply upd_comm. intros E. apply Hne. symmetry. exact E.
    - apply (indep_tprod K k1 kmul ts x' Hw Hfresh).
  Qed.

  (* the two-leg COPY tensor *)
  Definition copy2 (x x' : ind) : tensor := mkT [x; x'] (fun s => if Nat.eqb (s x') (s x) then k1 else k0).

  Lemma wf_copy2 x x' : wf (copy2 x x').
  Proof. intros s s' E. cbn. rewrite (E x), (E x') by (cbn; auto). reflexivity. Qed.

  (* resolving one occurrence of a (hyper-)label x: on tensor t it is renamed to a
     fresh x' and a COPY tensor delta(x, x') is inserted; x' is summed *)
  Theorem copy_insert_sound t others x x' R s : wf t -> Forall wf others ->
    ~ In x' (tinds t) -> (forall u, In u others -> ~ In x' (tinds u)) -> x <> x' -> dim x' = dim x ->
    inrange s ->
    value (copy2 x x' :: rename x x' t :: others) (R ++ [x']) s = value (t :: others) R s.
  Proof.
    intros Ht Ho Hft Hfo Hne Hd Hs. unfold TN.value. rewrite sum_over_app.
    apply sum_over_ext_inrange; [|exact Hs]. intros s' Hs'. cbn [TN.sum_over].
    rewrite (sum_ext (dim x') _ (fun v => if Nat.eqb v (s' x) then tval t s' * tprod others s' else k0)).
    - rewrite sum_delta; [rewrite tprod_cons; reflexivity|]. rewrite Hd. apply Hs'.
    - intros v _. rewrite !tprod_cons. cbn [copy2 rename TN.tval].
      rewrite upd_same, (upd_other s' x' v x) by exact Hne.
      destruct (Nat.eqb v (s' x)) eqn:E; [|ring]. apply Nat.eqb_eq in E. subst v.
      rewrite (indep_tprod K k1 kmul others x' Ho Hfo).
      replace (tval t (upd (upd s' x' (s' x)) x (s' x))) with (tval t s'); [ring|].
      symmetry. transitivity (tval t (upd s' x' (s' x))).
      + apply (wf_ext K t Ht). apply upd_id_gen.
      + apply (wf_indep K t x' Ht Hft).
  Qed.
  (* ---- gauged networks: a bond gauge is a vector sitting on the bond ------------------------------ *)
  (* (tn, gauges) denotes tn with the vector g inserted on bond k; squeezing a size-1 gauged bond
     (tensor_fuse_squeeze with gauges) must absorb the scalar g[0] exactly once: r into each end with r*r = g[0] *)
  Definition gauge_vec (k : ind) (g : nat -> K) : tensor := mkT [k] (fun s => g (s k)).

  Lemma wf_gauge_vec k g : wf (gauge_vec k g).
  Proof. intros s s' E. cbn. rewrite (E k) by (left; reflexivity). reflexivity. Qed.

  Theorem squeeze_gauged_bond_sound a b others k g r R s : dim k = 1 -> r * r = g 0 ->
    value (gauge_vec k g :: a :: b :: others) (R ++ [k]) s
    = value (scale r (sel k 0 a) :: scale r (sel k 0 b) :: map (sel k 0) others) R s.
  Proof.
    intros Hd Hr. rewrite (squeeze_sound _ k R s Hd). apply value_pointwise. intros s'.
    cbn [map]. rewrite !tprod_cons. cbn [gauge_vec sel scale TN.tval]. rewrite upd_same, <- Hr. ring.
  Qed.
  (* ---- contracting a GROUP of tensors (loop_simplify / pair_simplify: tensor_contract of the tensors with output_inds=oix) ---- *)
  (* The group is replaced by one tensor in which the labels S have been summed.  Side condition - exactly what
     compute_contracted_inds(..., output_inds) must guarantee: a summed label occurs on no tensor outside the group
     and is not needed later (it is not an outer label: outer labels are simply never in S ++ R). *)
  Definition contractN (ts : list tensor) (S : list ind) : tensor :=
    mkT (filter (fun i => negb (existsb (Nat.eqb i) S)) (flat_map tinds ts)) (sum_over S (tprod ts)).

  Lemma tprod_app ts us s : tprod (ts ++ us) s = tprod ts s * tprod us s.
  Proof. induction ts as [|t ts IH]; [unfold TN.tprod; cbn; ring|]. cbn [app]. rewrite !tprod_cons, IH. ring. Qed.

  Theorem group_contract_sound group others S R s :
    Forall wf group -> Forall wf others ->
    (forall i, In i S -> ~ In i R) ->
    (forall i t, In i S -> In t others -> ~ In i (tinds t)) ->
    value (group ++ others) (S ++ R) s = value (contractN group S :: others) R s.
  Proof.
    intros Hg Ho Hd Hfree. unfold TN.value. rewrite sum_over_app.
    rewrite (TN.sum_over_comm K k0 k1 kadd kmul ksub kopp Kring dim).
    - apply sum_over_ext_fun. intros s1. rewrite tprod_cons. cbn [contractN TN.tval].
      rewrite (sum_over_ext_fun S _ (fun s' => tprod group s' * tprod others s')) by (intros; apply tprod_app).
      apply (TN.sum_over_factor K k0 k1 kadd kmul ksub kopp Kring dim). intros i Hi.
      apply indep_tprod; [exact Ho|]. intros t Ht. apply Hfree; assumption.
    - apply ext_tprod. apply Forall_app. split; assumption.
    - exact Hd.
  Qed.

  (* the labels a group contraction may sum, computed as compute_contracted_inds does: a label of the group is KEPT iff
     it is a declared outer label or it occurs on a tensor outside the group *)
  Definition group_summed (group others : list tensor) (outs : list ind) : list ind :=
    filter (fun i => negb (has i outs) && negb (existsb (fun t => has i (tinds t)) others))
           (nodup Nat.eq_dec (flat_map tinds group)).

  Lemma has_true i l : In i l -> has i l = true.
  Proof. intros H. apply existsb_exists. exists i. split; [exact H | apply Nat.eqb_refl]. Qed.

  (* with that choice the side conditions hold by construction, whatever the outer labels are - in particular an outer
     label that is also a bond inside the group is never summed *)
  Theorem group_contract_keeping_outputs_sound group others outs R s :
    Forall wf group -> Forall wf others ->
    (forall i, In i (group_summed group others outs) -> ~ In i R) ->
    value (group ++ others) (group_summed group others outs ++ R) s
    = value (contractN group (group_summed group others outs) :: others) R s
    /\ forall o, In o outs -> ~ In o (group_summed group others outs).
  Proof.
    intros Hg Ho Hd. split.
    - apply group_contract_sound; try assumption. intros i t Hi Ht Hin.
      apply filter_In in Hi. destruct Hi as [_ Hb]. apply andb_true_iff in Hb. destruct Hb as [_ Hb].
      apply negb_true_iff in Hb.
      assert (E : existsb (fun t0 => has i (tinds t0)) others = true); [|congruence].
      apply existsb_exists. exists t. split; [exact Ht | apply has_true; exact Hin].
    - intros o Hoin Hs. apply filter_In in Hs. destruct Hs as [_ Hb]. apply andb_true_iff in Hb. destruct Hb as [Hb _].
      apply negb_true_iff in Hb. rewrite (has_true o outs Hoin) in Hb. discriminate.
  Qed.
End Rules.

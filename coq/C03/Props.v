(* C03 property theorems (statements only; proofs in C03/Proofs.v). *)
From Coq Require Import ZArith Arith List Bool.
From QV Require Import Base.Sums Base.TN Base.TNExec C03.Model C03.Proofs.
Import ListNotations.

(* (a) Whatever order a tensor's array stores its axes in, its labelled value
   function is the same - for every rank, shape, permutation and assignment.
   Network values (Base/TN.v `value`) are functions of these value functions
   only, so every label-level operation inherits the independence. *)
Theorem C03_axis_order_never_matters : forall pi inds shape data (s : nat -> nat),
  is_perm pi -> length pi = length inds -> length shape = length inds ->
  Forall2 lt (map s inds) shape ->
  tval G (ttranspose pi inds shape data) s = tval G (arr_tensor inds shape data) s.
Proof. exact transpose_same_tval. Qed.
Print Assumptions C03_axis_order_never_matters.

Theorem C03_unravel_ravel : forall idx shape, Forall2 lt idx shape -> unravel shape (ravel shape idx) = idx.
Proof. exact unravel_ravel. Qed.
Print Assumptions C03_unravel_ravel.

(* (b) A body that respects the copy idiom leaves the receiver observably
   unchanged, including the arrays it shares with copies. *)
Theorem C03_plain_call_leaves_receiver_unchanged : forall h ids body,
  forallb (respects ids (refs_of h ids)) body = true ->
  fingerprint (run h body) ids = fingerprint h ids.
Proof. exact plain_call_leaves_receiver_unchanged. Qed.
Print Assumptions C03_plain_call_leaves_receiver_unchanged.

(* ... and an in-place write into a shared array cell IS observable, which is why
   the inventory also scans for in-place array writes. *)
Theorem C03_inplace_array_write_is_observable :
  exists h ids body, fingerprint (run h body) ids <> fingerprint h ids.
Proof. exact inplace_array_write_is_observable. Qed.
Print Assumptions C03_inplace_array_write_is_observable.

Example C03_transpose_example :
  transpose_data [1; 0] [2; 3] [(1,0); (2,0); (3,0); (4,0); (5,0); (6,0)]%Z
  = [(1,0); (4,0); (2,0); (5,0); (3,0); (6,0)]%Z.
Proof. vm_compute. reflexivity. Qed.

(* C03 property theorems (statements only; proofs in C03/Proofs.v). *)
From Coq Require Import ZArith Arith List Bool.
From QV Require Import Base.Sums Base.TN Base.TNExec C03.Model C03.Proofs.
Import ListNotations.

(* (a) Whatever order a tensor's array stores its axes in, its labelled value
   function is the same - for every rank, shape, permutation and assignment.
   Network values (Base/TN.v `value`) are functions of these value functions
   only, so every label-level operation inherits the independence. *)
Theorem C03_axis_order_never_matters : forall pi inds shape data (s : nat -> nat),
  is_perm pi -> length pi = length inds -> length shape = length inds ->
  Forall2 lt (map s inds) shape ->
  tval G (ttranspose pi inds shape data) s = tval G (arr_tensor inds shape data) s.
Proof. exact transpose_same_tval. Qed.
Print Assumptions C03_axis_order_never_matters.

Theorem C03_unravel_ravel : forall idx shape, Forall2 lt idx shape -> unravel shape (ravel shape idx) = idx.
Proof. exact unravel_ravel. Qed.
Print Assumptions C03_unravel_ravel.

(* (b) A body that respects the copy idiom leaves the receiver observably
   unchanged, including the arrays it shares with copies. *)
Theorem C03_plain_call_leaves_receiver_unchanged : forall h ids body,
  forallb (respects ids (refs_of h ids)) body = true ->
  fingerprint (run h body) ids = fingerprint h ids.
Proof. exact plain_call_leaves_receiver_unchanged. Qed.
Print Assumptions C03_plain_call_leaves_receiver_unchanged.

(* ... and an in-place write into a shared array cell IS observable, which is why
   the inventory also scans for in-place array writes. *)
Theorem C03_inplace_array_write_is_observable :
  exists h ids body, fingerprint (run h body) ids <> fingerprint h ids.
Proof. exact inplace_array_write_is_observable. Qed.
Print Assumptions C03_inplace_array_write_is_observable.

(* (c) The broadcasting binary operators (add, sub, mul, truediv, pow): for every number of
   labels to add on either side, every object write of the modelled operator
   body goes to a private copy, hence both operands (and whatever shares their
   arrays) are observably unchanged. *)
Theorem C03_binop_writes_only_copies : forall nl nr, forallb is_fresh (binop_writes nl nr) = true.
Proof. exact binop_writes_fresh. Qed.
Print Assumptions C03_binop_writes_only_copies.

Theorem C03_binop_leaves_operands_unchanged : forall h a b fa fb payload nl nr,
  fa <> a -> fa <> b -> fb <> a -> fb <> b ->
  fingerprint (run h (binop_body a b fa fb payload (binop_writes nl nr))) [a; b] = fingerprint h [a; b].
Proof. exact binop_leaves_operands_unchanged. Qed.
Print Assumptions C03_binop_leaves_operands_unchanged.

(* ... and the flag reset between the two loops is what the theorem rests on:
   the same body without it writes the caller's right operand. *)
Theorem C03_binop_without_reset_writes_operand :
  exists nl nr, existsb (tgt_eqb TOther) (binop_writes_gen false nl nr) = true.
Proof. exact binop_without_reset_writes_operand. Qed.
Print Assumptions C03_binop_without_reset_writes_operand.

Example C03_transpose_example :
  transpose_data [1; 0] [2; 3] [(1,0); (2,0); (3,0); (4,0); (5,0); (6,0)]%Z
  = [(1,0); (4,0); (2,0); (5,0); (3,0); (6,0)]%Z.
Proof. vm_compute. reflexivity. Qed.

(* C03 property theorems (statements only; proofs in C03/Proofs.v). *)
From Coq Require Import ZArith Arith List Bool.
From QV Require Import Base.Sums Base.TN Base.TNExec C03.Model C03.Proofs.
Import ListNotations.

(* (a) Whatever order a tensor's array stores its axes in, its labelled value
   function is the same - for every rank, shape, permutation and assignment.
   Network values (Base/TN.v `value`) are functions of these value functions
   only, so every label-level operation inherits the independence. *)
Theorem C03_axis_order_never_matters : forall pi inds shape data (s : nat -> nat),
  is_perm pi -> length pi = length inds -> length shape = length inds ->
  Forall2 lt (map s inds) shape ->
  tval G (ttranspose pi inds shape data) s = tval G (arr_tensor inds shape data) s.
Proof. exact transpose_same_tval. Qed.
Print Assumptions C03_axis_order_never_matters.

Theorem C03_unravel_ravel : forall idx shape, Forall2 lt idx shape -> unravel shape (ravel shape idx) = idx.
Proof. exact unravel_ravel. Qed.
Print Assumptions C03_unravel_ravel.

(* (b) A body that respects the copy idiom leaves the receiver observably
   unchanged, including the arrays it shares with copies. *)
Theorem C03_plain_call_leaves_receiver_unchanged : forall h ids body,
  forallb (respects ids (refs_of h ids)) body = true ->
  fingerprint (run h body) ids = fingerprint h ids.
Proof. exact plain_call_leaves_receiver_unchanged. Qed.
Print Assumptions C03_plain_call_leaves_receiver_unchanged.

(* ... and an in-place write into a shared array cell IS observable, which is why
   the inventory also scans for in-place array writes. *)
Theorem C03_inplace_array_write_is_observable :
  exists h ids body, fingerprint (run h body) ids <> fingerprint h ids.
Proof. exact inplace_array_write_is_observable. Qed.
Print Assumptions C03_inplace_array_write_is_observable.

(* (c) The broadcasting binary operators (add, sub, mul, truediv, pow): for every number of
   labels to add on either side, every object write of the modelled operator
   body goes to a private copy, hence both operands (and whatever shares their
   arrays) are observably unchanged. *)
Theorem C03_binop_writes_only_copies : forall nl nr, forallb is_fresh (binop_writes nl nr) = true.
Proof. exact binop_writes_fresh. Qed.
Print Assumptions C03_binop_writes_only_copies.

Theorem C03_binop_leaves_operands_unchanged : forall h a b fa fb payload nl nr,
  fa <> a -> fa <> b -> fb <> a -> fb <> b ->
  fingerprint (run h (binop_body a b fa fb payload (binop_writes nl nr))) [a; b] = fingerprint h [a; b].
Proof. exact binop_leaves_operands_unchanged. Qed.
Print Assumptions C03_binop_leaves_operands_unchanged.

(* ... and the flag reset between the two loops is what the theorem rests on:
   the same body without it writes the caller's right operand. *)
Theorem C03_binop_without_reset_writes_operand :
  exists nl nr, existsb (tgt_eqb TOther) (binop_writes_gen false nl nr) = true.
Proof. exact binop_without_reset_writes_operand. Qed.
Print Assumptions C03_binop_without_reset_writes_operand.

(* (d) Installing an array that was produced under other labels (what every in-place pair function does with the
   factors of a split / contraction: tensor_compress_bond, tensor_canonize_bond, ...): moved by `perm_like src nix` it
   denotes the same labelled tensor, for every rank, shape and pair of label orders ... *)
Theorem C03_install_like_same_tensor : forall src nix shape data (s : nat -> nat),
  NoDup src -> NoDup nix -> (forall i, In i nix <-> In i src) ->
  length shape = length src -> Forall2 lt (map s src) shape ->
  tinds G (install_like src nix shape data) = nix /\
  tval G (install_like src nix shape data) s = tval G (arr_tensor src shape data) s.
Proof. exact install_like_same_tval. Qed.
Print Assumptions C03_install_like_same_tensor.

(* ... installed without the move it is a different tensor (so the move cannot be dropped as redundant) *)
Theorem C03_install_raw_is_observable :
  exists src nix shape data (s : nat -> nat), NoDup src /\ NoDup nix /\ (forall i, In i nix <-> In i src) /\
    tval G (install_raw nix shape data) s <> tval G (arr_tensor src shape data) s.
Proof. exact install_raw_is_observable. Qed.
Print Assumptions C03_install_raw_is_observable.

(* Tensor.transpose_like (one label may differ): the order it picks is a permutation of the tensor's own labels and
   agrees with the other tensor's order on every shared label, so (d) applies to it. *)
Theorem C03_like_order_is_permutation : forall src dst nix, NoDup src -> NoDup dst -> length src = length dst ->
  like_order src dst = Some nix ->
  NoDup nix /\ (forall i, In i nix <-> In i src) /\ length nix = length dst /\
  (forall j, j < length dst -> In (nth j dst 0) src -> nth j nix 0 = nth j dst 0).
Proof. exact like_order_is_permutation. Qed.
Print Assumptions C03_like_order_is_permutation.

(* (e) The sum / difference of structured networks (`a + b`, `a - b`, `a += b`, `a -= b`, add_MPS, add_MPO, add_PEPS,
   add_PEPO = tensor_network_ag_sum): for every number of sites and every negate / inplace flag the modelled body
   never writes a tensor of the second operand, and with inplace=False none of the first operand either ... *)
Theorem C03_agsum_never_writes_second_operand : forall inplace n negate,
  existsb (owner_eqb OwnB) (agsum_writes inplace n negate) = false.
Proof. exact agsum_never_writes_second_operand. Qed.
Print Assumptions C03_agsum_never_writes_second_operand.

Theorem C03_agsum_plain_writes_no_operand : forall n negate,
  forallb (fun o => negb (owner_eqb OwnA o || owner_eqb OwnB o)) (agsum_writes false n negate) = true.
Proof. exact agsum_plain_writes_no_operand. Qed.
Print Assumptions C03_agsum_plain_writes_no_operand.

(* ... hence every object the caller can see other than the result's and the temporaries' is observably unchanged *)
Theorem C03_agsum_leaves_operands_unchanged : forall h a b r t payload ids inplace n negate,
  (forall k o, In o ids -> r k <> o /\ t k <> o /\ (inplace = true -> a k <> o)) ->
  fingerprint (run h (agsum_body a b r t payload 0 (agsum_writes inplace n negate))) ids = fingerprint h ids.
Proof. exact agsum_leaves_operands_unchanged. Qed.
Print Assumptions C03_agsum_leaves_operands_unchanged.

(* ... and the per-site copy of the second operand's tensor is what this rests on: relabel-and-copy only when there
   is something to relabel, and `a - b` negates the caller's b. *)
Theorem C03_agsum_without_copy_writes_operand :
  exists n, existsb (owner_eqb OwnB) (agsum_loop false false n true) = true.
Proof. exact agsum_without_copy_writes_operand. Qed.
Print Assumptions C03_agsum_without_copy_writes_operand.

Example C03_transpose_example :
  transpose_data [1; 0] [2; 3] [(1,0); (2,0); (3,0); (4,0); (5,0); (6,0)]%Z
  = [(1,0); (4,0); (2,0); (5,0); (3,0); (6,0)]%Z.
Proof. vm_compute. reflexivity. Qed.

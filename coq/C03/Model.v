(* C03 model.
   (a) stored axis order: an array-backed tensor and its transposition by an
       arbitrary axis permutation;
   (b) the copy idiom `x = self if inplace else self.copy()` on a heap of
       tensor objects sharing immutable array cells. *)
From Coq Require Import ZArith Arith List Bool PeanoNat Lia.
From QV Require Import Base.Sums Base.TN Base.TNExec.
Import ListNotations.

(* ---- (a) axis permutations ------------------------------------------------ *)
Definition prodn (l : list nat) : nat := fold_right Nat.mul 1 l.

(* new[j] = old[pi[j]]   (numpy: a.transpose(pi)) *)
Definition permute {A} (d : A) (pi : list nat) (l : list A) : list A := map (fun k => nth k l d) pi.

Fixpoint index_of (i : nat) (pi : list nat) : nat :=
  match pi with [] => 0 | k :: pi' => if Nat.eqb k i then 0 else S (index_of i pi') end.

(* old[i] = new[index_of i pi] *)
Definition unpermute (pi : list nat) (l : list nat) : list nat :=
  map (fun i => nth (index_of i pi) l 0) (seq 0 (length pi)).

Definition transpose_data (pi : list nat) (shape : list nat) (data : list G) : list G :=
  let nshape := permute 1 pi shape in
  map (fun k => nth (ravel shape (unpermute pi (unravel nshape k))) data g0) (seq 0 (prodn nshape)).

Definition ttranspose (pi inds shape : list nat) (data : list G) : tensor G :=
  arr_tensor (permute 0 pi inds) (permute 1 pi shape) (transpose_data pi shape data).

Definition is_perm (pi : list nat) : Prop := NoDup pi /\ forall k, In k pi <-> k < length pi.

(* ---- (b) heap with shared immutable arrays ---------------------------------- *)
Record tobj := { o_inds : list nat; o_tags : list nat; o_arr : nat }.
Record heap := { objs : list (nat * tobj);        (* object id -> tensor object *)
                 arrs : list (nat * list Z) }.     (* array ref -> contents *)

Fixpoint find {A} (k : nat) (l : list (nat * A)) : option A :=
  match l with [] => None | (j, v) :: l' => if Nat.eqb j k then Some v else find k l' end.

Fixpoint set {A} (k : nat) (v : A) (l : list (nat * A)) : list (nat * A) :=
  match l with
  | [] => [(k, v)]
  | (j, w) :: l' => if Nat.eqb j k then (k, v) :: l' else (j, w) :: set k v l'
  end.

Inductive op :=
| SetInds (o : nat) (inds : list nat)        (* t.modify(inds=...) *)
| SetTags (o : nat) (tags : list nat)        (* t.modify(tags=...) *)
| SetData (o : nat) (ref : nat) (d : list Z) (* t.modify(data=new array): allocates cell `ref` *)
| WriteArr (ref : nat) (d : list Z).         (* in-place write into an existing array *)

Definition step (h : heap) (p : op) : heap :=
  match p with
  | SetInds o inds => match find o (objs h) with
                      | Some t => {| objs := set o {| o_inds := inds; o_tags := o_tags t; o_arr := o_arr t |} (objs h); arrs := arrs h |}
                      | None => h end
  | SetTags o tags => match find o (objs h) with
                      | Some t => {| objs := set o {| o_inds := o_inds t; o_tags := tags; o_arr := o_arr t |} (objs h); arrs := arrs h |}
                      | None => h end
  | SetData o ref d => match find o (objs h) with
                      | Some t => {| objs := set o {| o_inds := o_inds t; o_tags := o_tags t; o_arr := ref |} (objs h);
                                     arrs := set ref d (arrs h) |}
                      | None => h end
  | WriteArr ref d => {| objs := objs h; arrs := set ref d (arrs h) |}
  end.

Definition run (h : heap) (body : list op) : heap := fold_left step body h.

(* what an observer of the object ids `ids` can see *)
Definition view (h : heap) (o : nat) : option (list nat * list nat * option (list Z)) :=
  match find o (objs h) with
  | Some t => Some (o_inds t, o_tags t, find (o_arr t) (arrs h))
  | None => None
  end.
Definition fingerprint (h : heap) (ids : list nat) := map (view h) ids.

(* which object / array cell an operation writes *)
Definition writes_obj (p : op) : option nat :=
  match p with SetInds o _ | SetTags o _ | SetData o _ _ => Some o | WriteArr _ _ => None end.
Definition writes_arr (p : op) : option nat :=
  match p with SetData _ r _ | WriteArr r _ => Some r | _ => None end.

(* the copy idiom is respected by `body` w.r.t. the receiver's objects `ids` and
   the array cells `refs` they reference: it only writes other objects (the
   copies) and only allocates fresh cells *)
Definition respects (ids refs : list nat) (p : op) : bool :=
  match writes_obj p with Some o => negb (existsb (Nat.eqb o) ids) | None => true end
  && match writes_arr p with Some r => negb (existsb (Nat.eqb r) refs) | None => true end.

Definition refs_of (h : heap) (ids : list nat) : list nat :=
  flat_map (fun o => match find o (objs h) with Some t => [o_arr t] | None => [] end) ids.

(* ---- (c) copy discipline of the broadcasting binary operators ---------------
   Tensor.__add__/__sub__/__mul__/__truediv__/__pow__ (_make_promote_array_func):
   labels only the right operand has are appended to the LEFT operand with
   `new_ind` (an in-place write), labels only the left operand has to the RIGHT
   one; a `copied` flag makes sure the first write of each loop goes to a private
   copy; finally the right operand is transposed, in place iff it is a copy.
   The model records the target of every object write. *)
Inductive tgt := TSelf | TOther | TFreshL | TFreshR.

Definition tgt_eqb (a b : tgt) : bool :=
  match a, b with TSelf, TSelf | TOther, TOther | TFreshL, TFreshL | TFreshR, TFreshR => true | _, _ => false end.
Fixpoint tgts_eqb (a b : list tgt) : bool :=
  match a, b with
  | [], [] => true
  | x :: a', y :: b' => tgt_eqb x y && tgts_eqb a' b'
  | _, _ => false
  end.

(* the two loops, with the flag exactly as in the source: `reset` says whether
   the flag is cleared between the loops (the source does; dropping the line is
   the classic slip) *)
(* one loop: `copied` is the flag on entry, `is_copy` whether the operand variable really holds a private copy (an
   already-set flag is trusted even if the operand was never copied - that is what makes a missing reset matter) *)
Fixpoint expand_loop_trust (n : nat) (copied : bool) (is_copy : bool) (orig fresh : tgt) : list tgt * bool * bool :=
  match n with
  | 0 => ([], copied, is_copy)
  | S n' => let is_copy' := if copied then is_copy else true in
            let cur := if is_copy' then fresh else orig in
            let '(l, c, k) := expand_loop_trust n' true is_copy' orig fresh in (cur :: l, c, k)
  end.

Definition binop_writes_gen (reset : bool) (nl nr : nat) : list tgt :=
  let '(wl, c1, _) := expand_loop_trust nl false false TSelf TFreshL in
  let c1' := if reset then false else c1 in
  let '(wr, c2, k2) := expand_loop_trust nr c1' false TOther TFreshR in
  wl ++ wr ++ (if c2 then [if k2 then TFreshR else TOther] else []).

Definition binop_writes := binop_writes_gen true.

Definition is_fresh (t : tgt) : bool := match t with TFreshL | TFreshR => true | _ => false end.

(* the writes as heap operations: operands are objects a, b; the copies fa, fb *)
Definition obj_of (a b fa fb : nat) (t : tgt) : nat :=
  match t with TSelf => a | TOther => b | TFreshL => fa | TFreshR => fb end.
Definition binop_body (a b fa fb : nat) (payload : nat -> list nat) (ws : list tgt) : list op :=
  map (fun kt => SetInds (obj_of a b fa fb (snd kt)) (payload (fst kt))) (combine (seq 0 (length ws)) ws).

(* C03 model.
   (a) stored axis order: an array-backed tensor and its transposition by an
       arbitrary axis permutation;
   (b) the copy idiom `x = self if inplace else self.copy()` on a heap of
       tensor objects sharing immutable array cells. *)
From Coq Require Import ZArith Arith List Bool PeanoNat Lia.
From QV Require Import Base.Sums Base.TN Base.TNExec.
Import ListNotations.

(* ---- (a) axis permutations ------------------------------------------------ *)
Definition prodn (l : list nat) : nat := fold_right Nat.mul 1 l.

(* new[j] = old[pi[j]]   (numpy: a.transpose(pi)) *)
Definition permute {A} (d : A) (pi : list nat) (l : list A) : list A := map (fun k => nth k l d) pi.

Fixpoint index_of (i : nat) (pi : list nat) : nat :=
  match pi with [] => 0 | k :: pi' => if Nat.eqb k i then 0 else S (index_of i pi') end.

(* old[i] = new[index_of i pi] *)
Definition unpermute (pi : list nat) (l : list nat) : list nat :=
  map (fun i => nth (index_of i pi) l 0) (seq 0 (length pi)).

Definition transpose_data (pi : list nat) (shape : list nat) (data : list G) : list G :=
  let nshape := permute 1 pi shape in
  map (fun k => nth (ravel shape (unpermute pi (unravel nshape k))) data g0) (seq 0 (prodn nshape)).

Definition ttranspose (pi inds shape : list nat) (data : list G) : tensor G :=
  arr_tensor (permute 0 pi inds) (permute 1 pi shape) (transpose_data pi shape data).

Definition is_perm (pi : list nat) : Prop := NoDup pi /\ forall k, In k pi <-> k < length pi.

(* ---- (b) heap with shared immutable arrays ---------------------------------- *)
Record tobj := { o_inds : list nat; o_tags : list nat; o_arr : nat }.
Record heap := { objs : list (nat * tobj);        (* object id -> tensor object *)
                 arrs : list (nat * list Z) }.     (* array ref -> contents *)

Fixpoint find {A} (k : nat) (l : list (nat * A)) : option A :=
  match l with [] => None | (j, v) :: l' => if Nat.eqb j k then Some v else find k l' end.

Fixpoint set {A} (k : nat) (v : A) (l : list (nat * A)) : list (nat * A) :=
  match l with
  | [] => [(k, v)]
  | (j, w) :: l' => if Nat.eqb j k then (k, v) :: l' else (j, w) :: set k v l'
  end.

Inductive op :=
| SetInds (o : nat) (inds : list nat)        (* t.modify(inds=...) *)
| SetTags (o : nat) (tags : list nat)        (* t.modify(tags=...) *)
| SetData (o : nat) (ref : nat) (d : list Z) (* t.modify(data=new array): allocates cell `ref` *)
| WriteArr (ref : nat) (d : list Z).         (* in-place write into an existing array *)

Definition step (h : heap) (p : op) : heap :=
  match p with
  | SetInds o inds => match find o (objs h) with
                      | Some t => {| objs := set o {| o_inds := inds; o_tags := o_tags t; o_arr := o_arr t |} (objs h); arrs := arrs h |}
                      | None => h end
  | SetTags o tags => match find o (objs h) with
                      | Some t => {| objs := set o {| o_inds := o_inds t; o_tags := tags; o_arr := o_arr t |} (objs h); arrs := arrs h |}
                      | None => h end
  | SetData o ref d => match find o (objs h) with
                      | Some t => {| objs := set o {| o_inds := o_inds t; o_tags := o_tags t; o_arr := ref |} (objs h);
                                     arrs := set ref d (arrs h) |}
                      | None => h end
  | WriteArr ref d => {| objs := objs h; arrs := set ref d (arrs h) |}
  end.

Definition run (h : heap) (body : list op) : heap := fold_left step body h.

(* what an observer of the object ids `ids` can see *)
Definition view (h : heap) (o : nat) : option (list nat * list nat * option (list Z)) :=
  match find o (objs h) with
  | Some t => Some (o_inds t, o_tags t, find (o_arr t) (arrs h))
  | None => None
  end.
Definition fingerprint (h : heap) (ids : list nat) := map (view h) ids.

(* which object / array cell an operation writes *)
Definition writes_obj (p : op) : option nat :=
  match p with SetInds o _ | SetTags o _ | SetData o _ _ => Some o | WriteArr _ _ => None end.
Definition writes_arr (p : op) : option nat :=
  match p with SetData _ r _ | WriteArr r _ => Some r | _ => None end.

(* the copy idiom is respected by `body` w.r.t. the receiver's objects `ids` and
   the array cells `refs` they reference: it only writes other objects (the
   copies) and only allocates fresh cells *)
Definition respects (ids refs : list nat) (p : op) : bool :=
  match writes_obj p with Some o => negb (existsb (Nat.eqb o) ids) | None => true end
  && match writes_arr p with Some r => negb (existsb (Nat.eqb r) refs) | None => true end.

Definition refs_of (h : heap) (ids : list nat) : list nat :=
  flat_map (fun o => match find o (objs h) with Some t => [o_arr t] | None => [] end) ids.

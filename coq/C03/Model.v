(* C03 model.
   (a) stored axis order: an array-backed tensor and its transposition by an
       arbitrary axis permutation;
   (b) the copy idiom `x = self if inplace else self.copy()` on a heap of
       tensor objects sharing immutable array cells. *)
From Coq Require Import ZArith Arith List Bool PeanoNat Lia.
From QV Require Import Base.Sums Base.TN Base.TNExec.
Import ListNotations.

(* ---- (a) axis permutations ------------------------------------------------ *)
Definition prodn (l : list nat) : nat := fold_right Nat.mul 1 l.

(* new[j] = old[pi[j]]   (numpy: a.transpose(pi)) *)
Definition permute {A} (d : A) (pi : list nat) (l : list A) : list A := map (fun k => nth k l d) pi.

Fixpoint index_of (i : nat) (pi : list nat) : nat :=
  match pi with [] => 0 | k :: pi' => if Nat.eqb k i then 0 else S (index_of i pi') end.

(* old[i] = new[index_of i pi] *)
Definition unpermute (pi : list nat) (l : list nat) : list nat :=
  map (fun i => nth (index_of i pi) l 0) (seq 0 (length pi)).

Definition transpose_data (pi : list nat) (shape : list nat) (data : list G) : list G :=
  let nshape := permute 1 pi shape in
  map (fun k => nth (ravel shape (unpermute pi (unravel nshape k))) data g0) (seq 0 (prodn nshape)).

Definition ttranspose (pi inds shape : list nat) (data : list G) : tensor G :=
  arr_tensor (permute 0 pi inds) (permute 1 pi shape) (transpose_data pi shape data).

Definition is_perm (pi : list nat) : Prop := NoDup pi /\ forall k, In k pi <-> k < length pi.

(* ---- (b) heap with shared immutable arrays ---------------------------------- *)
Record tobj := { o_inds : list nat; o_tags : list nat; o_arr : nat }.
Record heap := { objs : list (nat * tobj);        (* object id -> tensor object *)
                 arrs : list (nat * list Z) }.     (* array ref -> contents *)

Fixpoint find {A} (k : nat) (l : list (nat * A)) : option A :=
  match l with [] => None | (j, v) :: l' => if Nat.eqb j k then Some v else find k l' end.

Fixpoint set {A} (k : nat) (v : A) (l : list (nat * A)) : list (nat * A) :=
  match l with
  | [] => [(k, v)]
  | (j, w) :: l' => if Nat.eqb j k then (k, v) :: l' else (j, w) :: set k v l'
  end.

Inductive op :=
| SetInds (o : nat) (inds : list nat)        (* t.modify(inds=...) *)
| SetTags (o : nat) (tags : list nat)        (* t.modify(tags=...) *)
| SetData (o : nat) (ref : nat) (d : list Z) (* t.modify(data=new array): allocates cell `ref` *)
| WriteArr (ref : nat) (d : list Z).         (* in-place write into an existing array *)

Definition step (h : heap) (p : op) : heap :=
  match p with
  | SetInds o inds => match find o (objs h) with
                      | Some t => {| objs := set o {| o_inds := inds; o_tags := o_tags t; o_arr := o_arr t |} (objs h); arrs := arrs h |}
                      | None => h end
  | SetTags o tags => match find o (objs h) with
                      | Some t => {| objs := set o {| o_inds := o_inds t; o_tags := tags; o_arr := o_arr t |} (objs h); arrs := arrs h |}
                      | None => h end
  | SetData o ref d => match find o (objs h) with
                      | Some t => {| objs := set o {| o_inds := o_inds t; o_tags := o_tags t; o_arr := ref |} (objs h);
                                     arrs := set ref d (arrs h) |}
                      | None => h end
  | WriteArr ref d => {| objs := objs h; arrs := set ref d (arrs h) |}
  end.

Definition run (h : heap) (body : list op) : heap := fold_left step body h.

(* what an observer of the object ids `ids` can see *)
Definition view (h : heap) (o : nat) : option (list nat * list nat * option (list Z)) :=
  match find o (objs h) with
  | Some t => Some (o_inds t, o_tags t, find (o_arr t) (arrs h))
  | None => None
  end.
Definition fingerprint (h : heap) (ids : list nat) := map (view h) ids.

(* which object / array cell an operation writes *)
Definition writes_obj (p : op) : option nat :=
  match p with SetInds o _ | SetTags o _ | SetData o _ _ => Some o | WriteArr _ _ => None end.
Definition writes_arr (p : op) : option nat :=
  match p with SetData _ r _ | WriteArr r _ => Some r | _ => None end.

(* the copy idiom is respected by `body` w.r.t. the receiver's objects `ids` and
   the array cells `refs` they reference: it only writes other objects (the
   copies) and only allocates fresh cells *)
Definition respects (ids refs : list nat) (p : op) : bool :=
  match writes_obj p with Some o => negb (existsb (Nat.eqb o) ids) | None => true end
  && match writes_arr p with Some r => negb (existsb (Nat.eqb r) refs) | None => true end.

Definition refs_of (h : heap) (ids : list nat) : list nat :=
  flat_map (fun o => match find o (objs h) with Some t => [o_arr t] | None => [] end) ids.

(* ---- (c) copy discipline of the broadcasting binary operators ---------------
   Tensor.__add__/__sub__/__mul__/__truediv__/__pow__ (_make_promote_array_func):
   labels only the right operand has are appended to the LEFT operand with
   `new_ind` (an in-place write), labels only the left operand has to the RIGHT
   one; a `copied` flag makes sure the first write of each loop goes to a private
   copy; finally the right operand is transposed, in place iff it is a copy.
   The model records the target of every object write. *)
Inductive tgt := TSelf | TOther | TFreshL | TFreshR.

Definition tgt_eqb (a b : tgt) : bool :=
  match a, b with TSelf, TSelf | TOther, TOther | TFreshL, TFreshL | TFreshR, TFreshR => true | _, _ => false end.
Fixpoint tgts_eqb (a b : list tgt) : bool :=
  match a, b with
  | [], [] => true
  | x :: a', y :: b' => tgt_eqb x y && tgts_eqb a' b'
  | _, _ => false
  end.

(* the two loops, with the flag exactly as in the source: `reset` says whether
   the flag is cleared between the loops (the source does; dropping the line is
   the classic slip) *)
(* one loop: `copied` is the flag on entry, `is_copy` whether the operand variable really holds a private copy (an
   already-set flag is trusted even if the operand was never copied - that is what makes a missing reset matter) *)
Fixpoint expand_loop_trust (n : nat) (copied : bool) (is_copy : bool) (orig fresh : tgt) : list tgt * bool * bool :=
  match n with
  | 0 => ([], copied, is_copy)
  | S n' => let is_copy' := if copied then is_copy else true in
            let cur := if is_copy' then fresh else orig in
            let '(l, c, k) := expand_loop_trust n' true is_copy' orig fresh in (cur :: l, c, k)
  end.

Definition binop_writes_gen (reset : bool) (nl nr : nat) : list tgt :=
  let '(wl, c1, _) := expand_loop_trust nl false false TSelf TFreshL in
  let c1' := if reset then false else c1 in
  let '(wr, c2, k2) := expand_loop_trust nr c1' false TOther TFreshR in
  wl ++ wr ++ (if c2 then [if k2 then TFreshR else TOther] else []).

Definition binop_writes := binop_writes_gen true.

Definition is_fresh (t : tgt) : bool := match t with TFreshL | TFreshR => true | _ => false end.

(* the writes as heap operations: operands are objects a, b; the copies fa, fb *)
Definition obj_of (a b fa fb : nat) (t : tgt) : nat :=
  match t with TSelf => a | TOther => b | TFreshL => fa | TFreshR => fb end.
Definition binop_body (a b fa fb : nat) (payload : nat -> list nat) (ws : list tgt) : list op :=
  map (fun kt => SetInds (obj_of a b fa fb (snd kt)) (payload (fst kt))) (combine (seq 0 (length ws)) ws).

(* ---- (d) installing an array that was produced under other labels ------------
   `t.modify(data=arr)` keeps the tensor's stored labels `dst`; an array produced by a
   factorisation / contraction under the label order `src` therefore has to be moved by
   the axis permutation `perm_like src dst` first (Tensor.transpose_like, which also
   allows ONE label of `src` to be missing from `dst`: it takes the place of the one
   label of `dst` that `src` lacks). *)
Definition mem (i : nat) (l : list nat) : bool := existsb (Nat.eqb i) l.

(* new[j] = old[perm[j]] with dst[j] = src[perm[j]] *)
Definition perm_like (src dst : list nat) : list nat := map (fun i => index_of i src) dst.

(* the label order Tensor.transpose_like(other) produces: src = self.inds, dst = other.inds *)
Definition like_order (src dst : list nat) : option (list nat) :=
  match filter (fun i => negb (mem i dst)) src with
  | [] => Some dst
  | [d] => Some (map (fun i => if mem i src then i else d) dst)
  | _ => None                                   (* ValueError: not well defined *)
  end.

(* the array + labels after moving `data` (stored under `src`) into the order `nix` *)
Definition install_like (src nix shape : list nat) (data : list G) : tensor G :=
  ttranspose (perm_like src nix) src shape data.

(* what is stored when the array is installed WITHOUT being moved *)
Definition install_raw (nix shape : list nat) (data : list G) : tensor G := arr_tensor nix shape data.

Definition natlist_eqb (a b : list nat) : bool := if list_eq_dec Nat.eq_dec a b then true else false.

(* ---- (e) ownership discipline of the structured-network sum ------------------
   tensor_network_ag_sum(tna, tnb, negate, inplace) - behind `a + b`, `a - b`, `a += b`,
   `a -= b`, add_MPS/add_MPO/add_PEPS/add_PEPO:
       tna = tna if inplace else tna.copy()
       for each site:  tb = tnb[site].reindex(map)      (plain spelling: ALWAYS a private copy)
                       if negate: tb.negate_(); negate = False
                       ta.direct_product_(tb, ...)
   The model records the owner of every tensor object written, in program order. *)
Inductive owner := OwnA | OwnB | OwnRes | OwnTemp.

Definition owner_eqb (a b : owner) : bool :=
  match a, b with OwnA, OwnA | OwnB, OwnB | OwnRes, OwnRes | OwnTemp, OwnTemp => true | _, _ => false end.
Fixpoint owners_eqb (a b : list owner) : bool :=
  match a, b with
  | [], [] => true
  | x :: a', y :: b' => owner_eqb x y && owners_eqb a' b'
  | _, _ => false
  end.

(* `copy_b`: does the per-site relabelling hand back a private copy (the source: always; "skip it when there is
   nothing to relabel" is the slip) *)
Fixpoint agsum_loop (copy_b inplace : bool) (nsites : nat) (negate : bool) : list owner :=
  match nsites with
  | 0 => []
  | S n => let tb := if copy_b then OwnTemp else OwnB in
           (if copy_b then [OwnTemp] else [])                  (* reindex writes the labels of its copy *)
           ++ (if negate then [tb] else [])                    (* tb.negate_() *)
           ++ [if inplace then OwnA else OwnRes]               (* ta.direct_product_(tb) *)
           ++ agsum_loop copy_b inplace n false
  end.

Definition agsum_writes := agsum_loop true.

(* what a caller can see: writes to objects that outlive the call *)
Definition visible (o : owner) : bool := match o with OwnTemp => false | _ => true end.
Definition is_operand (inplace : bool) (o : owner) : bool :=
  match o with OwnB => true | OwnA => negb inplace | _ => false end.

(* as heap operations: site k of the operands / result / temporaries are the objects a k, b k, r k, t k *)
Definition agsum_obj (a b r t : nat -> nat) (k : nat) (o : owner) : nat :=
  match o with OwnA => a k | OwnB => b k | OwnRes => r k | OwnTemp => t k end.
Fixpoint agsum_body (a b r t : nat -> nat) (payload : nat -> list nat) (k : nat) (ws : list owner) : list op :=
  match ws with
  | [] => []
  | o :: ws' => SetInds (agsum_obj a b r t k o) (payload k)
                :: agsum_body a b r t payload (match o with OwnA | OwnRes => S k | _ => k end) ws'
  end.

From Coq Require Import ZArith Arith List Bool PeanoNat Lia.
From QV Require Import Base.Sums Base.TN Base.TNExec C03.Model.
Import ListNotations.

(* ================= (a) stored axis order is irrelevant ==================== *)
Lemma prodn_cons d l : prodn (d :: l) = d * prodn l.
Proof. reflexivity. Qed.

Lemma ravel_cons d shape i idx : ravel (d :: shape) (i :: idx) = i * prodn shape + ravel shape idx.
Proof. reflexivity. Qed.

Lemma unravel_cons d shape k : unravel (d :: shape) k = (k / prodn shape) mod d :: unravel shape k.
Proof. reflexivity. Qed.

Lemma prodn_pos_of idx shape : Forall2 lt idx shape -> 0 < prodn shape.
Proof.
  induction 1 as [|i d idx shape Hid H IH]; [cbn; lia|]. rewrite prodn_cons. nia.
Qed.

Lemma ravel_bound idx shape : Forall2 lt idx shape -> ravel shape idx < prodn shape.
Proof.
  induction 1 as [|i d idx shape Hid H IH]; [cbn; lia|].
  rewrite ravel_cons, prodn_cons. nia.
Qed.

Lemma unravel_shift shape : forall q t, 0 < prodn shape ->
  unravel shape (q * prodn shape + t) = unravel shape t.
Proof.
  induction shape as [|d shape IH]; intros q t Hp; [reflexivity|].
  rewrite prodn_cons in *. assert (0 < d) by nia. assert (0 < prodn shape) by nia.
  rewrite !unravel_cons. f_equal.
  - replace (q * (d * prodn shape) + t) with (t + (q * d) * prodn shape) by lia.
    rewrite Nat.div_add by lia. rewrite Nat.add_mod by lia.
    rewrite Nat.mod_mul by lia. rewrite Nat.add_0_r. apply Nat.mod_mod. lia.
  - replace (q * (d * prodn shape) + t) with ((q * d) * prodn shape + t) by lia. apply IH. lia.
Qed.

Lemma unravel_ravel idx shape : Forall2 lt idx shape -> unravel shape (ravel shape idx) = idx.
Proof.
  induction 1 as [|i d idx shape Hid H IH]; [reflexivity|].
  rewrite ravel_cons, unravel_cons.
  pose proof (ravel_bound idx shape H) as HB. pose proof (prodn_pos_of idx shape H) as HP.
  f_equal.
  - rewrite Nat.div_add_l by lia. rewrite (Nat.div_small _ _ HB). rewrite Nat.add_0_r. apply Nat.mod_small. exact Hid.
  - rewrite unravel_shift by exact HP. exact IH.
Qed.

(* permutations *)
Lemma index_of_spec i pi : In i pi -> index_of i pi < length pi /\ nth (index_of i pi) pi 0 = i.
Proof.
  induction pi as [|k pi IH]; intros Hin; [contradiction|]. cbn [index_of length].
  destruct (Nat.eqb k i) eqn:E.
  - apply Nat.eqb_eq in E. subst. split; [lia | reflexivity].
  - destruct Hin as [->|Hin]; [rewrite Nat.eqb_refl in E; discriminate|].
    destruct (IH Hin) as [L N]. split; [lia | exact N].
Qed.

Lemma list_as_map {A} (d : A) (l : list A) : l = map (fun i => nth i l d) (seq 0 (length l)).
Proof.
  induction l as [|x l IH]; [reflexivity|]. cbn [length seq map nth]. f_equal.
  rewrite <- seq_shift, map_map. exact IH.
Qed.

Lemma nth_map_lt {A B} (f : A -> B) l j d d' : j < length l -> nth j (map f l) d = f (nth j l d').
Proof.
  revert j. induction l as [|x l IH]; intros j Hj; [cbn in Hj; lia|].
  destruct j; [reflexivity|]. cbn in *. apply IH. lia.
Qed.

Lemma unpermute_permute (s : nat -> nat) pi inds : is_perm pi -> length pi = length inds ->
  unpermute pi (map s (permute 0 pi inds)) = map s inds.
Proof.
  intros [ND Hin] HL. unfold unpermute, permute.
  transitivity (map (fun i => nth i (map s inds) 0) (seq 0 (length (map s inds)))); [|symmetry; apply (list_as_map 0)].
  rewrite map_length, <- HL. apply map_ext_in. intros i Hi. apply in_seq in Hi.
  assert (Hip : In i pi) by (apply Hin; lia).
  destruct (index_of_spec i pi Hip) as [HLt HN].
  rewrite map_map.
  rewrite (nth_map_lt (fun k => s (nth k inds 0)) pi (index_of i pi) 0 0 HLt).
  rewrite HN. symmetry. apply nth_map_lt. lia.
Qed.

Lemma Forall2_nth {A B} (R : A -> B -> Prop) a b da db : Forall2 R a b ->
  forall k, k < length a -> R (nth k a da) (nth k b db).
Proof.
  induction 1 as [|x y a b Hxy H IH]; intros k Hk; [cbn in Hk; lia|].
  destruct k; [exact Hxy|]. cbn in *. apply IH. lia.
Qed.

Lemma Forall2_permute {A B} (R : A -> B -> Prop) da db pi a b : Forall2 R a b ->
  (forall k, In k pi -> k < length a) -> Forall2 R (permute da pi a) (permute db pi b).
Proof.
  intros H. induction pi as [|k pi IH]; intros Hin; unfold permute; cbn [map]; constructor.
  - apply Forall2_nth; [exact H | apply Hin; left; reflexivity].
  - apply IH. intros j Hj. apply Hin. right. exact Hj.
Qed.

Lemma permute_map (s : nat -> nat) pi inds : (forall k, In k pi -> k < length inds) ->
  map s (permute 0 pi inds) = permute (s 0) pi (map s inds).
Proof.
  intros H. unfold permute. rewrite map_map. apply map_ext_in. intros k Hk.
  symmetry. apply nth_map_lt. apply H. exact Hk.
Qed.

(* The value function of a tensor does not depend on the order in which its
   array happens to store the axes. *)
Theorem transpose_same_tval pi inds shape data (s : nat -> nat) :
  is_perm pi -> length pi = length inds -> length shape = length inds ->
  Forall2 lt (map s inds) shape ->
  tval G (ttranspose pi inds shape data) s = tval G (arr_tensor inds shape data) s.
Proof.
  intros Hp HL HS Hv. unfold ttranspose, arr_tensor, transpose_data. cbn [tval].
  assert (Hk : forall k, In k pi -> k < length inds) by (intros k Hk; apply Hp in Hk; lia).
  assert (Hv' : Forall2 lt (map s (permute 0 pi inds)) (permute 1 pi shape)).
  { rewrite permute_map by exact Hk. apply Forall2_permute; [exact Hv|].
    intros k Hk'. rewrite map_length. apply Hk. exact Hk'. }
  pose proof (ravel_bound _ _ Hv') as HB.
  set (nshape := permute 1 pi shape) in *.
  set (k := ravel nshape (map s (permute 0 pi inds))) in *.
  etransitivity; [apply (nth_map_lt _ _ _ _ 0); rewrite seq_length; exact HB|].
  rewrite seq_nth by exact HB. cbn [Nat.add].
  rewrite unravel_ravel by exact Hv'.
  rewrite unpermute_permute by assumption. reflexivity.
Qed.

(* ================= (b) the copy idiom is a frame ============================== *)
Lemma find_set_other {A} k j (v : A) l : k <> j -> find k (set j v l) = find k l.
Proof.
  intros Hne. induction l as [|[i w] l IH]; cbn.
  - destruct (Nat.eqb j k) eqn:E; [apply Nat.eqb_eq in E; lia | reflexivity].
  - destruct (Nat.eqb i j) eqn:Eij; cbn.
    + apply Nat.eqb_eq in Eij. subst.
      destruct (Nat.eqb j k) eqn:E; [apply Nat.eqb_eq in E; lia | reflexivity].
    + destruct (Nat.eqb i k); [reflexivity | exact IH].
Qed.

Lemma existsb_false_neq x l : existsb (Nat.eqb x) l = false -> forall y, In y l -> y <> x.
Proof.
  intros H y Hy E. subst. rewrite existsb_exists_false in H || idtac.
  assert (existsb (Nat.eqb x) l = true) by (apply existsb_exists; exists x; split; [exact Hy | apply Nat.eqb_refl]).
  congruence.
Qed.

Lemma step_frame ids refs h p : respects ids refs p = true ->
  (forall o, In o ids -> find o (objs (step h p)) = find o (objs h)) /\
  (forall r, In r refs -> find r (arrs (step h p)) = find r (arrs h)).
Proof.
  unfold respects. intros H. apply andb_true_iff in H. destruct H as [Ho Ha].
  destruct p as [o inds|o tags|o ref d|ref d]; cbn [writes_obj writes_arr step] in *.
  - apply negb_true_iff in Ho. destruct (find o (objs h)); cbn; split; intros; try reflexivity.
    apply find_set_other. apply (existsb_false_neq o ids Ho). assumption.
  - apply negb_true_iff in Ho. destruct (find o (objs h)); cbn; split; intros; try reflexivity.
    apply find_set_other. apply (existsb_false_neq o ids Ho). assumption.
  - apply negb_true_iff in Ho, Ha. destruct (find o (objs h)); cbn; split; intros; try reflexivity.
    + apply find_set_other. apply (existsb_false_neq o ids Ho). assumption.
    + apply find_set_other. apply (existsb_false_neq ref refs Ha). assumption.
  - apply negb_true_iff in Ha. cbn. split; intros; [reflexivity|].
    apply find_set_other. apply (existsb_false_neq ref refs Ha). assumption.
Qed.

Lemma run_frame ids refs body : forall h, forallb (respects ids refs) body = true ->
  (forall o, In o ids -> find o (objs (run h body)) = find o (objs h)) /\
  (forall r, In r refs -> find r (arrs (run h body)) = find r (arrs h)).
Proof.
  induction body as [|p body IH]; intros h H; [split; reflexivity|].
  cbn [forallb] in H. apply andb_true_iff in H. destruct H as [Hp Hb].
  cbn [run fold_left]. destruct (IH (step h p) Hb) as [I1 I2].
  destruct (step_frame ids refs h p Hp) as [S1 S2]. split; intros.
  - unfold run in I1. rewrite I1 by assumption. apply S1. assumption.
  - unfold run in I2. rewrite I2 by assumption. apply S2. assumption.
Qed.

(* A body that respects the idiom (writes only objects other than the receiver's
   and never writes into the receiver's array cells - shared with the copy or
   not) leaves everything observable about the receiver unchanged. *)
Theorem plain_call_leaves_receiver_unchanged h ids body :
  forallb (respects ids (refs_of h ids)) body = true ->
  fingerprint (run h body) ids = fingerprint h ids.
Proof.
  intros H. destruct (run_frame ids (refs_of h ids) body h H) as [I1 I2].
  unfold fingerprint. apply map_ext_in. intros o Ho. unfold view.
  rewrite (I1 o Ho). destruct (find o (objs h)) as [t|] eqn:E; [|reflexivity].
  f_equal. f_equal. apply I2. unfold refs_of. apply in_flat_map. exists o. split; [exact Ho|].
  rewrite E. left. reflexivity.
Qed.

(* and the converse direction of the idiom: an in-place write into a cell the
   receiver references IS observable (so the syntactic scan for array writes matters) *)
Theorem inplace_array_write_is_observable :
  exists h ids body, fingerprint (run h body) ids <> fingerprint h ids.
Proof.
  exists {| objs := [(0, {| o_inds := [0]; o_tags := []; o_arr := 7 |}); (1, {| o_inds := [0]; o_tags := []; o_arr := 7 |})];
            arrs := [(7, [1; 2]%Z)] |}, [0], [WriteArr 7 [9; 9]%Z].
  vm_compute. discriminate.
Qed.

(* ================= (c) binary operators never write their operands ======== *)
Lemma expand_loop_trust_fresh n : forall copied is_copy orig fresh,
  (copied = true -> is_copy = true) -> is_fresh fresh = true ->
  let '(l, c, k) := expand_loop_trust n copied is_copy orig fresh in
  forallb is_fresh l = true /\ (c = true -> k = true) /\ (n <> 0 -> c = true) /\ (n = 0 -> c = copied /\ k = is_copy).
Proof.
  induction n as [|n IH]; intros copied is_copy orig fresh Hc Hf; cbn [expand_loop_trust].
  - repeat split; try assumption; try congruence.
  - set (ic := if copied then is_copy else true).
    assert (Hic : ic = true) by (unfold ic; destruct copied; [apply Hc; reflexivity | reflexivity]).
    specialize (IH true ic orig fresh (fun _ => Hic) Hf).
    destruct (expand_loop_trust n true ic orig fresh) as [[l c] k].
    destruct IH as [Hl [Hck [Hn0 Hz]]]. rewrite Hic. cbn [forallb]. rewrite Hf, Hl.
    repeat split; try congruence.
    + exact Hck.
    + intros _. destruct n as [|n']; [destruct Hz as [Hz _]; [reflexivity | exact Hz] | apply Hn0; discriminate].
Qed.

Theorem binop_writes_fresh nl nr : forallb is_fresh (binop_writes nl nr) = true.
Proof.
  unfold binop_writes, binop_writes_gen.
  pose proof (expand_loop_trust_fresh nl false false TSelf TFreshL ltac:(discriminate) eq_refl) as H1.
  destruct (expand_loop_trust nl false false TSelf TFreshL) as [[wl c1] k1]. destruct H1 as [Hl _].
  pose proof (expand_loop_trust_fresh nr false false TOther TFreshR ltac:(discriminate) eq_refl) as H2.
  destruct (expand_loop_trust nr false false TOther TFreshR) as [[wr c2] k2]. destruct H2 as [Hr [Hck _]].
  rewrite !forallb_app, Hl, Hr. cbn [andb].
  destruct c2; [rewrite (Hck eq_refl); reflexivity | reflexivity].
Qed.

(* without the reset between the loops the flag set by the LEFT copy is trusted
   for the right operand: the caller's right tensor is written *)
Theorem binop_without_reset_writes_operand :
  exists nl nr, existsb (tgt_eqb TOther) (binop_writes_gen false nl nr) = true.
Proof. exists 1, 1. vm_compute. reflexivity. Qed.

Lemma respects_binop_body a b fa fb payload refs ws :
  fa <> a -> fa <> b -> fb <> a -> fb <> b -> forallb is_fresh ws = true ->
  forallb (respects [a; b] refs) (binop_body a b fa fb payload ws) = true.
Proof.
  intros H1 H2 H3 H4 Hf. unfold binop_body. apply forallb_forall. intros p Hp.
  apply in_map_iff in Hp. destruct Hp as [[k t] [Ep Hin]]. subst p.
  apply in_combine_r in Hin. rewrite forallb_forall in Hf. specialize (Hf t Hin).
  unfold respects. cbn [writes_obj writes_arr snd fst existsb]. rewrite andb_true_r, orb_false_r.
  destruct t; cbn in Hf; try discriminate; cbn [obj_of];
    apply negb_true_iff; apply orb_false_iff; split; apply Nat.eqb_neq; assumption.
Qed.

Theorem binop_leaves_operands_unchanged h a b fa fb payload nl nr :
  fa <> a -> fa <> b -> fb <> a -> fb <> b ->
  fingerprint (run h (binop_body a b fa fb payload (binop_writes nl nr))) [a; b] = fingerprint h [a; b].
Proof.
  intros H1 H2 H3 H4. apply plain_call_leaves_receiver_unchanged.
  apply respects_binop_body; try assumption. apply binop_writes_fresh.
Qed.

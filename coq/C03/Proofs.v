From Coq Require Import ZArith Arith List Bool PeanoNat Lia.
From QV Require Import Base.Sums Base.TN Base.TNExec C03.Model.
Import ListNotations.

(* ================= (a) stored axis order is irrelevant ==================== *)
Lemma prodn_cons d l : prodn (d :: l) = d * prodn l.
Proof. reflexivity. Qed.

Lemma ravel_cons d shape i idx : ravel (d :: shape) (i :: idx) = i * prodn shape + ravel shape idx.
Proof. reflexivity. Qed.

Lemma unravel_cons d shape k : unravel (d :: shape) k = (k / prodn shape) mod d :: unravel shape k.
Proof. reflexivity. Qed.

Lemma prodn_pos_of idx shape : Forall2 lt idx shape -> 0 < prodn shape.
Proof.
  induction 1 as [|i d idx shape Hid H IH]; [cbn; lia|]. rewrite prodn_cons. nia.
Qed.

Lemma ravel_bound idx shape : Forall2 lt idx shape -> ravel shape idx < prodn shape.
Proof.
  induction 1 as [|i d idx shape Hid H IH]; [cbn; lia|].
  rewrite ravel_cons, prodn_cons. nia.
Qed.

Lemma unravel_shift shape : forall q t, 0 < prodn shape ->
  unravel shape (q * prodn shape + t) = unravel shape t.
Proof.
  induction shape as [|d shape IH]; intros q t Hp; [reflexivity|].
  rewrite prodn_cons in *. assert (0 < d) by nia. assert (0 < prodn shape) by nia.
  rewrite !unravel_cons. f_equal.
  - replace (q * (d * prodn shape) + t) with (t + (q * d) * prodn shape) by lia.
    rewrite Nat.div_add by lia. rewrite Nat.add_mod by lia.
    rewrite Nat.mod_mul by lia. rewrite Nat.add_0_r. apply Nat.mod_mod. lia.
  - replace (q * (d * prodn shape) + t) with ((q * d) * prodn shape + t) by lia. apply IH. lia.
Qed.

Lemma unravel_ravel idx shape : Forall2 lt idx shape -> unravel shape (ravel shape idx) = idx.
Proof.
  induction 1 as [|i d idx shape Hid H IH]; [reflexivity|].
  rewrite ravel_cons, unravel_cons.
  pose proof (ravel_bound idx shape H) as HB. pose proof (prodn_pos_of idx shape H) as HP.
  f_equal.
  - rewrite Nat.div_add_l by lia. rewrite (Nat.div_small _ _ HB). rewrite Nat.add_0_r. apply Nat.mod_small. exact Hid.
  - rewrite unravel_shift by exact HP. exact IH.
Qed.

(* permutations *)
Lemma index_of_spec i pi : In i pi -> index_of i pi < length pi /\ nth (index_of i pi) pi 0 = i.
Proof.
  induction pi as [|k pi IH]; intros Hin; [contradiction|]. cbn [index_of length].
  destruct (Nat.eqb k i) eqn:E.
  - apply Nat.eqb_eq in E. subst. split; [lia | reflexivity].
  - destruct Hin as [->|Hin]; [rewrite Nat.eqb_refl in E; discriminate|].
    destruct (IH Hin) as [L N]. split; [lia | exact N].
Qed.

Lemma list_as_map {A} (d : A) (l : list A) : l = map (fun i => nth i l d) (seq 0 (length l)).
Proof.
  induction l as [|x l IH]; [reflexivity|]. cbn [length seq map nth]. f_equal.
  rewrite <- seq_shift, map_map. exact IH.
Qed.

Lemma nth_map_lt {A B} (f : A -> B) l j d d' : j < length l -> nth j (map f l) d = f (nth j l d').
Proof.
  revert j. induction l as [|x l IH]; intros j Hj; [cbn in Hj; lia|].
  destruct j; [reflexivity|]. cbn in *. apply IH. lia.
Qed.

Lemma unpermute_permute (s : nat -> nat) pi inds : is_perm pi -> length pi = length inds ->
  unpermute pi (map s (permute 0 pi inds)) = map s inds.
Proof.
  intros [ND Hin] HL. unfold unpermute, permute.
  transitivity (map (fun i => nth i (map s inds) 0) (seq 0 (length (map s inds)))); [|symmetry; apply (list_as_map 0)].
  rewrite map_length, <- HL. apply map_ext_in. intros i Hi. apply in_seq in Hi.
  assert (Hip : In i pi) by (apply Hin; lia).
  destruct (index_of_spec i pi Hip) as [HLt HN].
  rewrite map_map.
  rewrite (nth_map_lt (fun k => s (nth k inds 0)) pi (index_of i pi) 0 0 HLt).
  rewrite HN. symmetry. apply nth_map_lt. lia.
Qed.

Lemma Forall2_nth {A B} (R : A -> B -> Prop) a b da db : Forall2 R a b ->
  forall k, k < length a -> R (nth k a da) (nth k b db).
Proof.
  induction 1 as [|x y a b Hxy H IH]; intros k Hk; [cbn in Hk; lia|].
  destruct k; [exact Hxy|]. cbn in *. apply IH. lia.
Qed.

Lemma Forall2_permute {A B} (R : A -> B -> Prop) da db pi a b : Forall2 R a b ->
  (forall k, In k pi -> k < length a) -> Forall2 R (permute da pi a) (permute db pi b).
Proof.
  intros H. induction pi as [|k pi IH]; intros Hin; unfold permute; cbn [map]; constructor.
  - apply Forall2_nth; [exact H | apply Hin; left; reflexivity].
  - apply IH. intros j Hj. apply Hin. right. exact Hj.
Qed.

Lemma permute_map (s : nat -> nat) pi inds : (forall k, In k pi -> k < length inds) ->
  map s (permute 0 pi inds) = permute (s 0) pi (map s inds).
Proof.
  intros H. unfold permute. rewrite map_map. apply map_ext_in. intros k Hk.
  symmetry. apply nth_map_lt. apply H. exact Hk.
Qed.

(* The value function of a tensor does not depend on the order in which its
   array happens to store the axes. *)
Theorem transpose_same_tval pi inds shape data (s : nat -> nat) :
  is_perm pi -> length pi = length inds -> length shape = length inds ->
  Forall2 lt (map s inds) shape ->
  tval G (ttranspose pi inds shape data) s = tval G (arr_tensor inds shape data) s.
Proof.
  intros Hp HL HS Hv. unfold ttranspose, arr_tensor, transpose_data. cbn [tval].
  assert (Hk : forall k, In k pi -> k < length inds) by (intros k Hk; apply Hp in Hk; lia).
  assert (Hv' : Forall2 lt (map s (permute 0 pi inds)) (permute 1 pi shape)).
  { rewrite permute_map by exact Hk. apply Forall2_permute; [exact Hv|].
    intros k Hk'. rewrite map_length. apply Hk. exact Hk'. }
  pose proof (ravel_bound _ _ Hv') as HB.
  set (nshape := permute 1 pi shape) in *.
  set (k := ravel nshape (map s (permute 0 pi inds))) in *.
  etransitivity; [apply (nth_map_lt _ _ _ _ 0); rewrite seq_length; exact HB|].
  rewrite seq_nth by exact HB. cbn [Nat.add].
  rewrite unravel_ravel by exact Hv'.
  rewrite unpermute_permute by assumption. reflexivity.
Qed.

(* ================= (b) the copy idiom is a frame ============================== *)
Lemma find_set_other {A} k j (v : A) l : k <> j -> find k (set j v l) = find k l.
Proof.
  intros Hne. induction l as [|[i w] l IH]; cbn.
  - destruct (Nat.eqb j k) eqn:E; [apply Nat.eqb_eq in E; lia | reflexivity].
  - destruct (Nat.eqb i j) eqn:Eij; cbn.
    + apply Nat.eqb_eq in Eij. subst.
      destruct (Nat.eqb j k) eqn:E; [apply Nat.eqb_eq in E; lia | reflexivity].
    + destruct (Nat.eqb i k); [reflexivity | exact IH].
Qed.

Lemma existsb_false_neq x l : existsb (Nat.eqb x) l = false -> forall y, In y l -> y <> x.
Proof.
  intros H y Hy E. subst. rewrite existsb_exists_false in H || idtac.
  assert (existsb (Nat.eqb x) l = true) by (apply existsb_exists; exists x; split; [exact Hy | apply Nat.eqb_refl]).
  congruence.
Qed.

Lemma step_frame ids refs h p : respects ids refs p = true ->
  (forall o, In o ids -> find o (objs (step h p)) = find o (objs h)) /\
  (forall r, In r refs -> find r (arrs (step h p)) = find r (arrs h)).
Proof.
  unfold respects. intros H. apply andb_true_iff in H. destruct H as [Ho Ha].
  destruct p as [o inds|o tags|o ref d|ref d]; cbn [writes_obj writes_arr step] in *.
  - apply negb_true_iff in Ho. destruct (find o (objs h)); cbn; split; intros; try reflexivity.
    apply find_set_other. apply (existsb_false_neq o ids Ho). assumption.
  - apply negb_true_iff in Ho. destruct (find o (objs h)); cbn; split; intros; try reflexivity.
    apply find_set_other. apply (existsb_false_neq o ids Ho). assumption.
  - apply negb_true_iff in Ho, Ha. destruct (find o (objs h)); cbn; split; intros; try reflexivity.
    + apply find_set_other. apply (existsb_false_neq o ids Ho). assumption.
    + apply find_set_other. apply (existsb_false_neq ref refs Ha). assumption.
  - apply negb_true_iff in Ha. cbn. split; intros; [reflexivity|].
    apply find_set_other. apply (existsb_false_neq ref refs Ha). assumption.
Qed.

Lemma run_frame ids refs body : forall h, forallb (respects ids refs) body = true ->
  (forall o, In o ids -> find o (objs (run h body)) = find o (objs h)) /\
  (forall r, In r refs -> find r (arrs (run h body)) = find r (arrs h)).
Proof.
  induction body as [|p body IH]; intros h H; [split; reflexivity|].
  cbn [forallb] in H. apply andb_true_iff in H. destruct H as [Hp Hb].
  cbn [run fold_left]. destruct (IH (step h p) Hb) as [I1 I2].
  destruct (step_frame ids refs h p Hp) as [S1 S2]. split; intros.
  - unfold run in I1. rewrite I1 by assumption. apply S1. assumption.
  - unfold run in I2. rewrite I2 by assumption. apply S2. assumption.
Qed.

(* A body that respects the idiom (writes only objects other than the receiver's
   and never writes into the receiver's array cells - shared with the copy or
   not) leaves everything observable about the receiver unchanged. *)
Theorem plain_call_leaves_receiver_unchanged h ids body :
  forallb (respects ids (refs_of h ids)) body = true ->
  fingerprint (run h body) ids = fingerprint h ids.
Proof.
  intros H. destruct (run_frame ids (refs_of h ids) body h H) as [I1 I2].
  unfold fingerprint. apply map_ext_in. intros o Ho. unfold view.
  rewrite (I1 o Ho). destruct (find o (objs h)) as [t|] eqn:E; [|reflexivity].
  f_equal. f_equal. apply I2. unfold refs_of. apply in_flat_map. exists o. split; [exact Ho|].
  rewrite E. left. reflexivity.
Qed.

(* and the converse direction of the idiom: an in-place write into a cell the
   receiver references IS observable (so the syntactic scan for array writes matters) *)
Theorem inplace_array_write_is_observable :
  exists h ids body, fingerprint (run h body) ids <> fingerprint h ids.
Proof.
  exists {| objs := [(0, {| o_inds := [0]; o_tags := []; o_arr := 7 |}); (1, {| o_inds := [0]; o_tags := []; o_arr := 7 |})];
            arrs := [(7, [1; 2]%Z)] |}, [0], [WriteArr 7 [9; 9]%Z].
  vm_compute. discriminate.
Qed.

(* ================= (c) binary operators never write their operands ======== *)
Lemma expand_loop_trust_fresh n : forall copied is_copy orig fresh,
  (copied = true -> is_copy = true) -> is_fresh fresh = true ->
  let '(l, c, k) := expand_loop_trust n copied is_copy orig fresh in
  forallb is_fresh l = true /\ (c = true -> k = true) /\ (n <> 0 -> c = true) /\ (n = 0 -> c = copied /\ k = is_copy).
Proof.
  induction n as [|n IH]; intros copied is_copy orig fresh Hc Hf; cbn [expand_loop_trust].
  - repeat split; try assumption; try congruence.
  - set (ic := if copied then is_copy else true).
    assert (Hic : ic = true) by (unfold ic; destruct copied; [apply Hc; reflexivity | reflexivity]).
    specialize (IH true ic orig fresh (fun _ => Hic) Hf).
    destruct (expand_loop_trust n true ic orig fresh) as [[l c] k].
    destruct IH as [Hl [Hck [Hn0 Hz]]]. rewrite Hic. cbn [forallb]. rewrite Hf, Hl.
    repeat split; try congruence.
    + exact Hck.
    + intros _. destruct n as [|n']; [destruct Hz as [Hz _]; [reflexivity | exact Hz] | apply Hn0; discriminate].
Qed.

Theorem binop_writes_fresh nl nr : forallb is_fresh (binop_writes nl nr) = true.
Proof.
  unfold binop_writes, binop_writes_gen.
  pose proof (expand_loop_trust_fresh nl false false TSelf TFreshL ltac:(discriminate) eq_refl) as H1.
  destruct (expand_loop_trust nl false false TSelf TFreshL) as [[wl c1] k1]. destruct H1 as [Hl _].
  pose proof (expand_loop_trust_fresh nr false false TOther TFreshR ltac:(discriminate) eq_refl) as H2.
  destruct (expand_loop_trust nr false false TOther TFreshR) as [[wr c2] k2]. destruct H2 as [Hr [Hck _]].
  rewrite !forallb_app, Hl, Hr. cbn [andb].
  destruct c2; [rewrite (Hck eq_refl); reflexivity | reflexivity].
Qed.

(* without the reset between the loops the flag set by the LEFT copy is trusted
   for the right operand: the caller's right tensor is written *)
Theorem binop_without_reset_writes_operand :
  exists nl nr, existsb (tgt_eqb TOther) (binop_writes_gen false nl nr) = true.
Proof. exists 1, 1. vm_compute. reflexivity. Qed.

Lemma respects_binop_body a b fa fb payload refs ws :
  fa <> a -> fa <> b -> fb <> a -> fb <> b -> forallb is_fresh ws = true ->
  forallb (respects [a; b] refs) (binop_body a b fa fb payload ws) = true.
Proof.
  intros H1 H2 H3 H4 Hf. unfold binop_body. apply forallb_forall. intros p Hp.
  apply in_map_iff in Hp. destruct Hp as [[k t] [Ep Hin]]. subst p.
  apply in_combine_r in Hin. rewrite forallb_forall in Hf. specialize (Hf t Hin).
  unfold respects. cbn [writes_obj writes_arr snd fst existsb]. rewrite andb_true_r, orb_false_r.
  destruct t; cbn in Hf; try discriminate; cbn [obj_of];
    apply negb_true_iff; apply orb_false_iff; split; apply Nat.eqb_neq; assumption.
Qed.

Theorem binop_leaves_operands_unchanged h a b fa fb payload nl nr :
  fa <> a -> fa <> b -> fb <> a -> fb <> b ->
  fingerprint (run h (binop_body a b fa fb payload (binop_writes nl nr))) [a; b] = fingerprint h [a; b].
Proof.
  intros H1 H2 H3 H4. apply plain_call_leaves_receiver_unchanged.
  apply respects_binop_body; try assumption. apply binop_writes_fresh.
Qed.

(* ================= (d) installing an array produced under other labels ========== *)
Lemma mem_In i l : mem i l = true <-> In i l.
Proof.
  unfold mem. rewrite existsb_exists. split.
  - intros [x [Hx E]]. apply Nat.eqb_eq in E. subst. exact Hx.
  - intros H. exists i. split; [exact H | apply Nat.eqb_refl].
Qed.

Lemma mem_false i l : mem i l = false <-> ~ In i l.
Proof.
  split.
  - intros H Hin. apply mem_In in Hin. congruence.
  - intros H. destruct (mem i l) eqn:E; [apply mem_In in E; contradiction | reflexivity].
Qed.

Lemma index_of_nth l : NoDup l -> forall k, k < length l -> index_of (nth k l 0) l = k.
Proof.
  induction 1 as [|x l Hx ND IH]; intros k Hk; [cbn in Hk; lia|].
  destruct k as [|k]; cbn [nth index_of].
  - rewrite Nat.eqb_refl. reflexivity.
  - cbn [length] in Hk. assert (Hk' : k < length l) by lia.
    destruct (Nat.eqb x (nth k l 0)) eqn:E.
    + apply Nat.eqb_eq in E. exfalso. apply Hx. rewrite E. apply nth_In. exact Hk'.
    + f_equal. apply IH. exact Hk'.
Qed.

Lemma index_of_inj l i j : In i l -> In j l -> index_of i l = index_of j l -> i = j.
Proof.
  intros Hi Hj E. destruct (index_of_spec i l Hi) as [_ Ni]. destruct (index_of_spec j l Hj) as [_ Nj].
  rewrite <- Ni, <- Nj, E. reflexivity.
Qed.

Lemma NoDup_map_inj_in {A B} (f : A -> B) l : NoDup l ->
  (forall x y, In x l -> In y l -> f x = f y -> x = y) -> NoDup (map f l).
Proof.
  induction 1 as [|x l Hx ND IH]; intros Hinj; cbn [map]; constructor.
  - intros Hin. apply in_map_iff in Hin. destruct Hin as [y [E Hy]].
    apply Hx. rewrite (Hinj x y); [exact Hy | left; reflexivity | right; exact Hy | symmetry; exact E].
  - apply IH. intros a b Ha Hb. apply Hinj; right; assumption.
Qed.

Lemma same_members_same_length (l l' : list nat) : NoDup l -> NoDup l' -> (forall i, In i l' <-> In i l) -> length l' = length l.
Proof.
  intros N N' H. apply Nat.le_antisymm; apply NoDup_incl_length; try assumption; intros i Hi; apply H; exact Hi.
Qed.

Lemma perm_like_is_perm src nix : NoDup src -> NoDup nix -> (forall i, In i nix <-> In i src) ->
  is_perm (perm_like src nix) /\ length (perm_like src nix) = length src.
Proof.
  intros NS NN H. pose proof (same_members_same_length src nix NS NN H) as HL.
  assert (HLp : length (perm_like src nix) = length src) by (unfold perm_like; rewrite map_length; exact HL).
  split; [|exact HLp]. split.
  - unfold perm_like. apply NoDup_map_inj_in; [exact NN|].
    intros x y Hx Hy E. apply (index_of_inj src); [apply H; exact Hx | apply H; exact Hy | exact E].
  - intros k. rewrite HLp. split.
    + unfold perm_like. intros Hk. apply in_map_iff in Hk. destruct Hk as [i [E Hi]]. subst k.
      apply index_of_spec. apply H. exact Hi.
    + intros Hk. unfold perm_like. apply in_map_iff. exists (nth k src 0). split.
      * apply index_of_nth; assumption.
      * apply H. apply nth_In. exact Hk.
Qed.

Lemma permute_perm_like src nix : (forall i, In i nix -> In i src) -> permute 0 (perm_like src nix) src = nix.
Proof.
  intros H. unfold permute, perm_like. rewrite map_map.
  transitivity (map (fun i : nat => i) nix); [|apply map_id].
  apply map_ext_in. intros i Hi. apply index_of_spec. apply H. exact Hi.
Qed.

(* An array produced under the labels `src` and moved by `perm_like src nix` before it is installed under the stored
   labels `nix` denotes the same labelled tensor - for every rank, shape, and every pair of label orders. *)
Theorem install_like_same_tval src nix shape data (s : nat -> nat) :
  NoDup src -> NoDup nix -> (forall i, In i nix <-> In i src) ->
  length shape = length src -> Forall2 lt (map s src) shape ->
  tinds G (install_like src nix shape data) = nix /\
  tval G (install_like src nix shape data) s = tval G (arr_tensor src shape data) s.
Proof.
  intros NS NN H HS Hv. destruct (perm_like_is_perm src nix NS NN H) as [HP HL]. split.
  - unfold install_like, ttranspose, arr_tensor. cbn [tinds]. apply permute_perm_like. intros i Hi. apply H. exact Hi.
  - unfold install_like. apply transpose_same_tval; assumption.
Qed.

(* ... and the move is needed: the same array installed as it is under another label order is a different tensor. *)
Theorem install_raw_is_observable :
  exists src nix shape data (s : nat -> nat), NoDup src /\ NoDup nix /\ (forall i, In i nix <-> In i src) /\
    tval G (install_raw nix shape data) s <> tval G (arr_tensor src shape data) s.
Proof.
  exists [0; 1], [1; 0], [2; 2], [(1, 0); (2, 0); (3, 0); (4, 0)]%Z, (fun i => i).
  repeat split.
  - repeat constructor; cbn; intuition lia.
  - repeat constructor; cbn; intuition lia.
  - cbn. intuition.
  - cbn. intuition.
  - vm_compute. discriminate.
Qed.

Lemma existsb_false_all {A} (f : A -> bool) l : existsb f l = false -> forall x, In x l -> f x = false.
Proof.
  intros H x Hx. destruct (f x) eqn:E; [|reflexivity].
  assert (existsb f l = true) by (apply existsb_exists; exists x; split; assumption). congruence.
Qed.

(* Tensor.transpose_like: the label order it produces is a relabelling-free permutation of the tensor's own labels that
   agrees with `other` wherever `other`'s label is one of the tensor's. *)
Theorem like_order_is_permutation src dst nix : NoDup src -> NoDup dst -> length src = length dst ->
  like_order src dst = Some nix ->
  NoDup nix /\ (forall i, In i nix <-> In i src) /\ length nix = length dst /\
  (forall j, j < length dst -> In (nth j dst 0) src -> nth j nix 0 = nth j dst 0).
Proof.
  intros NS ND HL. unfold like_order.
  destruct (filter (fun i => negb (mem i dst)) src) as [|d [|d' rest]] eqn:EF; intros E; inversion E; subst nix; clear E.
  - (* same label sets *)
    assert (Hsub : incl src dst).
    { intros i Hi. destruct (mem i dst) eqn:M; [apply mem_In; exact M|].
      assert (In i (filter (fun i => negb (mem i dst)) src)) by (apply filter_In; split; [exact Hi | rewrite M; reflexivity]).
      rewrite EF in H. contradiction. }
    assert (Hsup : incl dst src) by (apply NoDup_length_incl; [exact NS | lia | exact Hsub]).
    repeat split; auto.
  - (* exactly one label `d` of src is missing from dst *)
    assert (Hd : In d src /\ mem d dst = false).
    { assert (In d (filter (fun i => negb (mem i dst)) src)) by (rewrite EF; left; reflexivity).
      apply filter_In in H. destruct H as [H1 H2]. split; [exact H1 | apply negb_true_iff; exact H2]. }
    destruct Hd as [Hds Hdd].
    assert (Honly : forall i, In i src -> mem i dst = false -> i = d).
    { intros i Hi M. assert (In i (filter (fun i => negb (mem i dst)) src)) by (apply filter_In; split; [exact Hi | rewrite M; reflexivity]).
      rewrite EF in H. destruct H as [H|[]]. symmetry. exact H. }
    set (f := fun i => if mem i src then i else d).
    assert (Hlen : length (map f dst) = length dst) by apply map_length.
    assert (Hin : forall i, In i (map f dst) -> In i src).
    { intros i Hi. apply in_map_iff in Hi. destruct Hi as [j [Ej Hj]]. subst i. unfold f.
      destruct (mem j src) eqn:M; [apply mem_In; exact M | exact Hds]. }
    assert (Hex : exists j, In j dst /\ mem j src = false).
    { destruct (existsb (fun j => negb (mem j src)) dst) eqn:EX.
      - apply existsb_exists in EX. destruct EX as [j [Hj Mj]]. exists j. split; [exact Hj | apply negb_true_iff; exact Mj].
      - exfalso. assert (Hsub : incl dst src).
        { intros j Hj. pose proof (existsb_false_all _ _ EX j Hj) as M. apply negb_false_iff in M. apply mem_In. exact M. }
        assert (Hsup : incl src dst) by (apply NoDup_length_incl; [exact ND | lia | exact Hsub]).
        apply mem_false in Hdd. apply Hdd. apply Hsup. exact Hds. }
    assert (Hincl : incl src (map f dst)).
    { intros i Hi. destruct (mem i dst) eqn:M.
      - apply in_map_iff. exists i. split; [unfold f; apply mem_In in Hi; rewrite Hi; reflexivity | apply mem_In; exact M].
      - rewrite (Honly i Hi M). destruct Hex as [j [Hj Mj]]. apply in_map_iff. exists j. split; [unfold f; rewrite Mj; reflexivity | exact Hj]. }
    repeat split.
    + apply NoDup_incl_NoDup with (l := src); [exact NS | lia | exact Hincl].
    + apply Hin.
    + apply Hincl.
    + exact Hlen.
    + intros j Hj Hs. rewrite (nth_map_lt f dst j 0 0 Hj). unfold f. apply mem_In in Hs. rewrite Hs. reflexivity.
Qed.

(* ================= (e) the structured-network sum never writes its operands ========== *)
Lemma agsum_writes_no_operand inplace n : forall negate,
  forallb (fun o => negb (is_operand inplace o)) (agsum_writes inplace n negate) = true.
Proof.
  unfold agsum_writes. induction n as [|n IH]; intros negate; [reflexivity|].
  cbn [agsum_loop]. rewrite !forallb_app, IH. destruct negate, inplace; reflexivity.
Qed.

Theorem agsum_never_writes_second_operand inplace n negate :
  existsb (owner_eqb OwnB) (agsum_writes inplace n negate) = false.
Proof.
  pose proof (agsum_writes_no_operand inplace n negate) as H.
  destruct (existsb (owner_eqb OwnB) (agsum_writes inplace n negate)) eqn:E; [|reflexivity].
  apply existsb_exists in E. destruct E as [o [Ho Eo]]. rewrite forallb_forall in H. specialize (H o Ho).
  destruct o; cbn in Eo; discriminate.
Qed.

Theorem agsum_plain_writes_no_operand n negate :
  forallb (fun o => negb (owner_eqb OwnA o || owner_eqb OwnB o)) (agsum_writes false n negate) = true.
Proof.
  pose proof (agsum_writes_no_operand false n negate) as H. rewrite forallb_forall in *.
  intros o Ho. specialize (H o Ho). destruct o; cbn in *; congruence.
Qed.

(* the slip: relabel (= copy) only when there is something to relabel; the caller's right operand is negated in place *)
Theorem agsum_without_copy_writes_operand :
  exists n, existsb (owner_eqb OwnB) (agsum_loop false false n true) = true.
Proof. exists 1. vm_compute. reflexivity. Qed.

Lemma existsb_eqb_false x l : (forall y, In y l -> x <> y) -> existsb (Nat.eqb x) l = false.
Proof.
  intros H. destruct (existsb (Nat.eqb x) l) eqn:E; [|reflexivity].
  apply existsb_exists in E. destruct E as [y [Hy Ey]]. apply Nat.eqb_eq in Ey. exfalso. exact (H y Hy Ey).
Qed.

Lemma respects_agsum_body a b r t payload ids refs inplace ws :
  (forall k o, In o ids -> r k <> o /\ t k <> o /\ (inplace = true -> a k <> o)) ->
  forallb (fun o => negb (is_operand inplace o)) ws = true ->
  forall k, forallb (respects ids refs) (agsum_body a b r t payload k ws) = true.
Proof.
  intros Hdis. induction ws as [|o ws IH]; intros Hf k; [reflexivity|].
  cbn [forallb] in Hf. apply andb_true_iff in Hf. destruct Hf as [Ho Hws].
  cbn [agsum_body forallb]. rewrite (IH Hws). rewrite andb_true_r.
  unfold respects. cbn [writes_obj writes_arr]. rewrite andb_true_r. apply negb_true_iff. apply existsb_eqb_false.
  intros y Hy. destruct (Hdis k y Hy) as [Hr [Ht Ha]].
  destruct o; cbn [agsum_obj]; cbn in Ho.
  - destruct inplace; [apply Ha; reflexivity | discriminate].
  - discriminate.
  - exact Hr.
  - exact Ht.
Qed.

(* whatever objects `ids` the caller can see (both operands' tensors for the plain spelling, the right operand's for
   `a += b` / `a -= b`), provided the result's and the temporaries' objects are others, they are observably unchanged *)
Theorem agsum_leaves_operands_unchanged h a b r t payload ids inplace n negate :
  (forall k o, In o ids -> r k <> o /\ t k <> o /\ (inplace = true -> a k <> o)) ->
  fingerprint (run h (agsum_body a b r t payload 0 (agsum_writes inplace n negate))) ids = fingerprint h ids.
Proof.
  intros Hdis. apply plain_call_leaves_receiver_unchanged.
  apply (respects_agsum_body a b r t payload ids _ inplace); [exact Hdis | apply agsum_writes_no_operand].
Qed.

(* C05: the generic truncation routine `_trim_and_renorm_svd_result` on a BATCH of spectra
   (s of shape (..., d); the only way a numpy array reaches the generic routine is x.ndim > 2).
   Model (executable) + proofs.  A batch is the list of its member spectra in C order (the batch
   axes only enter through axis=-1 reductions and one global xp.max, so their shape is irrelevant).

   Code mirrored:
     n_chi = <per-member count along axis=-1>        (abs / rel: rel uses sabs[..., 0:1], the
                                                      member's OWN largest value; sum modes:
                                                      cumsum / tot along axis=-1)
     if batch_dims: n_chi = xp.max(n_chi)
     n_chi = max(int(n_chi), 1); if max_bond > 0: n_chi = min(n_chi, max_bond)
     elif max_bond > 0: n_chi = max_bond   else: n_chi = d
     if n_chi < d: slice every member to n_chi, renorm PER MEMBER (axis=-1, keepdims),
                   error per member = sqrt(sum(sabs[..., n_chi:]**2, axis=-1))       *)
From Coq Require Import ZArith QArith List Bool Lia ZifyBool.
From QV Require Import C05.Model C05.Proofs C05.Trim.
Import ListNotations.
Open Scope Q_scope.

(* xp.max of a non-empty array of counts *)
Fixpoint zmax (l : list Z) : Z :=
  match l with
  | [] => 0%Z
  | x :: r => match r with [] => x | _ => Z.max x (zmax r) end
  end.

(* the part of g_trim after n_chi is known, applied to one member *)
Definition trim_at (n renorm : Z) (s : list Q) : trim :=
  if (n <? lenZ s)%Z then
    let err2 := sumsq (py_drop n s) in
    if (0 <? renorm)%Z then
      let raise_power := (2 <=? renorm)%Z in
      let spr := map (fun x => if raise_power then Qpower x renorm else x) s in
      {| t_svals := py_take n s;
         t_rn := Some (if raise_power then renorm else 1%Z, sumQ spr, sumQ (py_take n spr));
         t_err2 := err2 |}
    else {| t_svals := py_take n s; t_rn := None; t_err2 := err2 |}
  else {| t_svals := s; t_rn := None; t_err2 := 0 |}.

(* n_chi of the whole batch (d = common length of the members) *)
Definition gb_nchi (m : cmode) (cutoff : Q) (max_bond renorm : Z) (ss : list (list Q)) : Z :=
  if Qltb 0 cutoff || (0 <? renorm)%Z then
    let n := Z.max (zmax (map (g_nchi_dynamic m cutoff) ss)) 1 in
    if (0 <? max_bond)%Z then Z.min n max_bond else n
  else if (0 <? max_bond)%Z then max_bond
  else lenZ (hd [] ss).

Definition gb_trim (m : cmode) (cutoff : Q) (max_bond renorm : Z) (ss : list (list Q)) : list trim :=
  map (trim_at (gb_nchi m cutoff max_bond renorm ss) renorm) ss.

(* the bond dimension of the batched result *)
Definition gb_kept (m : cmode) (cutoff : Q) (max_bond renorm : Z) (ss : list (list Q)) : Z :=
  let n := gb_nchi m cutoff max_bond renorm ss in
  let d := lenZ (hd [] ss) in if (n <? d)%Z then n else d.

(* ------------------------------------------------------------------ proofs *)

Lemma g_trim_is_trim_at : forall m c mb rn s, g_trim m c mb rn s = trim_at (g_nchi m c mb rn s) rn s.
Proof. reflexivity. Qed.

Lemma zmax_cons2 : forall x y r, zmax (x :: y :: r) = Z.max x (zmax (y :: r)).
Proof. reflexivity. Qed.

Lemma zmax_map_mono : forall (f : Z -> Z), (forall a b, (a <= b)%Z -> (f a <= f b)%Z) ->
  forall l, l <> [] -> f (zmax l) = zmax (map f l).
Proof.
  intros f Hf l. induction l as [|x r IH]; intro Hne; [congruence|].
  destruct r as [|y r]; [reflexivity|].
  rewrite zmax_cons2. cbn [map]. rewrite zmax_cons2. cbn [map] in IH. rewrite <- IH by congruence.
  set (z := zmax (y :: r)).
  destruct (Z.max_spec x z) as [[H1 H2]|[H1 H2]]; rewrite H2.
  - pose proof (Hf x z ltac:(lia)). lia.
  - pose proof (Hf z x ltac:(lia)). lia.
Qed.

Lemma zmax_ge : forall l x, In x l -> (x <= zmax l)%Z.
Proof.
  induction l as [|a r IH]; intros x Hin; [destruct Hin|].
  destruct r as [|y r]; [destruct Hin as [->|[]]; cbn; lia|].
  rewrite zmax_cons2. destruct Hin as [->|Hin]; [lia|]. pose proof (IH x Hin). lia.
Qed.

Lemma zmax_in : forall l, l <> [] -> In (zmax l) l.
Proof.
  induction l as [|a r IH]; intro Hne; [congruence|].
  destruct r as [|y r]; [left; reflexivity|].
  rewrite zmax_cons2. destruct (Z.max_spec a (zmax (y :: r))) as [[_ ->]|[_ ->]].
  - right. apply IH. congruence.
  - left. reflexivity.
Qed.

(* kept count as a monotone function of the member's raw dynamic count *)
Definition keptF (c : Q) (mb rn d x : Z) : Z :=
  let n := if Qltb 0 c || (0 <? rn)%Z then
             let n := Z.max x 1 in if (0 <? mb)%Z then Z.min n mb else n
           else if (0 <? mb)%Z then mb else d in
  if (n <? d)%Z then n else d.

Lemma keptF_mono : forall c mb rn d a b, (a <= b)%Z -> (keptF c mb rn d a <= keptF c mb rn d b)%Z.
Proof.
  intros c mb rn d a b Hab. unfold keptF.
  destruct (Qltb 0 c || (0 <? rn)%Z); destruct (0 <? mb)%Z eqn:Emb;
    repeat match goal with |- context [(?u <? ?v)%Z] => destruct (u <? v)%Z eqn:? end; lia.
Qed.

Lemma g_kept_keptF : forall m c mb rn s, g_kept m c mb rn s = keptF c mb rn (lenZ s) (g_nchi_dynamic m c s).
Proof. reflexivity. Qed.

Lemma gb_kept_keptF : forall m c mb rn ss,
  gb_kept m c mb rn ss = keptF c mb rn (lenZ (hd [] ss)) (zmax (map (g_nchi_dynamic m c) ss)).
Proof. reflexivity. Qed.

Definition uniform (d : Z) (ss : list (list Q)) : Prop := Forall (fun s => lenZ s = d) ss.

(* The bond of a batched truncation is exactly the LARGEST kept count any member needs on its
   own under the same options (each judged against ITS OWN spectrum: own s[0], own total). *)
Theorem batch_kept_is_max_generic : forall m c mb rn ss, ss <> [] -> uniform (lenZ (hd [] ss)) ss ->
  gb_kept m c mb rn ss = zmax (map (g_kept m c mb rn) ss).
Proof.
  intros m c mb rn ss Hne Hu. rewrite gb_kept_keptF.
  assert (Hm : map (g_nchi_dynamic m c) ss <> []) by (destruct ss; [congruence|discriminate]).
  rewrite (zmax_map_mono (keptF c mb rn (lenZ (hd [] ss))) (keptF_mono c mb rn _) _ Hm).
  rewrite map_map. f_equal. apply map_ext_in. intros s Hin.
  rewrite g_kept_keptF. unfold uniform in Hu. rewrite Forall_forall in Hu. rewrite (Hu s Hin). reflexivity.
Qed.

(* ... and hence the largest count the ACCELERATED 2D routine picks member by member *)
Theorem batch_kept_is_max_numba : forall m c mb rn ss, ss <> [] -> uniform (lenZ (hd [] ss)) ss ->
  Forall nonneg ss -> Forall (fun s => s <> []) ss -> (mb = -1 \/ 1 <= mb)%Z ->
  gb_kept m c mb rn ss = zmax (map (n_kept m c mb rn) ss)
  /\ (forall s, In s ss -> (n_kept m c mb rn s <= gb_kept m c mb rn ss)%Z)
  /\ (exists s, In s ss /\ n_kept m c mb rn s = gb_kept m c mb rn ss).
Proof.
  intros m c mb rn ss Hne Hu Hnn Hnz Hmb.
  assert (E : map (g_kept m c mb rn) ss = map (n_kept m c mb rn) ss).
  { apply map_ext_in. intros s Hin. rewrite Forall_forall in Hnn, Hnz. apply kept_agree; auto. }
  assert (K : gb_kept m c mb rn ss = zmax (map (n_kept m c mb rn) ss)).
  { rewrite batch_kept_is_max_generic by assumption. rewrite E. reflexivity. }
  split; [exact K|]. split.
  - intros s Hin. rewrite K. apply zmax_ge. apply in_map. exact Hin.
  - assert (Hm : map (n_kept m c mb rn) ss <> []) by (destruct ss; [congruence|discriminate]).
    pose proof (zmax_in _ Hm) as Hin. apply in_map_iff in Hin. destruct Hin as [s [Hs Hin]].
    exists s. split; [exact Hin|]. rewrite K. exact Hs.
Qed.

(* every member is sliced at the common bond: same number of kept values for all members, and a
   one-member batch is the 2D routine *)
Theorem batch_singleton : forall m c mb rn s, gb_trim m c mb rn [s] = [g_trim m c mb rn s].
Proof. reflexivity. Qed.

Theorem batch_members_same_bond : forall m c mb rn ss, uniform (lenZ (hd [] ss)) ss ->
  Forall (fun r => lenZ (t_svals r) = gb_kept m c mb rn ss) (gb_trim m c mb rn ss).
Proof.
  intros m c mb rn ss Hu. unfold gb_trim. rewrite Forall_map. unfold uniform in Hu.
  rewrite Forall_forall in *. intros s Hin. specialize (Hu s Hin).
  unfold gb_kept. set (n := gb_nchi m c mb rn ss) in *. set (d := lenZ (hd [] ss)) in *.
  assert (Hn : (n <? d)%Z = true -> (0 <= n)%Z \/ (n < 0)%Z) by lia.
  unfold trim_at. rewrite Hu. destruct (n <? d)%Z eqn:E; [|exact Hu].
  assert (L : lenZ (py_take n s) = (if (n <? 0)%Z then Z.max 0 (d + n) else n)).
  { unfold py_take, lenZ in *. destruct (n <? 0)%Z eqn:E0; rewrite firstn_length; lia. }
  destruct (0 <? rn)%Z; cbn [t_svals]; rewrite L.
  all: destruct (n <? 0)%Z eqn:E0; [|reflexivity].
  all: exfalso; unfold n, gb_nchi in E0;
    destruct (Qltb 0 c || (0 <? rn)%Z); destruct (0 <? mb)%Z eqn:Emb; unfold lenZ in *; lia.
Qed.

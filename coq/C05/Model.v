(* C05 model: truncation / renormalisation / absorption bookkeeping of
   quimb/tensor/decomp.py.  Hand-written, one definition per Python function,
   same branch structure; floats are modelled by exact rationals (Q), NaN
   handling is not modelled.  Executable (vm_compute); no proofs here.
   Tied to the implementation by correspondence (harness/c05.py). *)
From Coq Require Import ZArith QArith Qabs List Bool String.
Import ListNotations.
Open Scope Q_scope.

(* ------------------------------------------------------------------ basics *)

Inductive cmode := Abs | Rel | Sum2 | RSum2 | Sum1 | RSum1.

(* cutoff_mode_abs = 1 ... cutoff_mode_rsum1 = 6 *)
Definition cmode_of_code (c : Z) : option cmode :=
  match c with
  | 1%Z => Some Abs | 2%Z => Some Rel | 3%Z => Some Sum2
  | 4%Z => Some RSum2 | 5%Z => Some Sum1 | 6%Z => Some RSum1
  | _ => None
  end.
Definition cmode_code (m : cmode) : Z :=
  match m with Abs => 1 | Rel => 2 | Sum2 => 3 | RSum2 => 4 | Sum1 => 5 | RSum1 => 6 end%Z.

Definition Qltb (a b : Q) : bool := negb (Qle_bool b a).

(* `pow = 2` for sum2 / rsum2, `pow = 1` for sum1 / rsum1 *)
Definition mode_pow (m : cmode) : Z :=
  match m with Sum2 | RSum2 => 2 | Sum1 | RSum1 => 1 | _ => 0 end%Z.
Definition is_sum_mode (m : cmode) : bool :=
  match m with Abs | Rel => false | _ => true end.
Definition is_rel_sum (m : cmode) : bool :=
  match m with RSum2 | RSum1 => true | _ => false end.

(* s ** pow  (pow in {1, 2} on these paths) *)
Definition powq (p : Z) (x : Q) : Q := if (p =? 2)%Z then x * x else x.

Fixpoint sumQ (l : list Q) : Q :=
  match l with [] => 0 | x :: r => x + sumQ r end.

Definition sumsq (l : list Q) : Q := sumQ (map (fun x => x * x) l).

Definition countb {A} (f : A -> bool) (l : list A) : Z :=
  Z.of_nat (List.length (filter f l)).

(* xp.cumsum *)
Fixpoint cumsum_from (acc : Q) (l : list Q) : list Q :=
  match l with
  | [] => []
  | x :: r => (acc + x) :: cumsum_from (acc + x) r
  end.

Definition lenZ {A} (l : list A) : Z := Z.of_nat (List.length l).

(* python slices  l[:k]  and  l[k:]  (k may be negative) *)
Definition py_take {A} (k : Z) (l : list A) : list A :=
  if (k <? 0)%Z then firstn (Z.to_nat (lenZ l + k)) l else firstn (Z.to_nat k) l.
Definition py_drop {A} (k : Z) (l : list A) : list A :=
  if (k <? 0)%Z then skipn (Z.to_nat (lenZ l + k)) l else skipn (Z.to_nat k) l.

(* result of trimming a spectrum:
     t_svals : the kept values BEFORE multiplication by the renorm factor
     t_rn    : Some (p, num, den): kept values are multiplied by (num/den)^(1/p)
     t_err2  : square of the reported truncation error *)
Record trim := { t_svals : list Q; t_rn : option (Z * Q * Q); t_err2 : Q }.

(* --------------------------- generic path: _trim_and_renorm_svd_result ---- *)

(* the `n_chi = ...` part of the dynamic branch, before max(., 1) *)
Definition g_nchi_dynamic (m : cmode) (cutoff : Q) (s : list Q) : Z :=
  match m with
  | Abs => countb (fun x => Qltb cutoff x) s
  | Rel => countb (fun x => Qltb (cutoff * hd 0 s) x) s
  | _ =>
      let sp := map (powq (mode_pow m)) s in
      let csp := cumsum_from 0 sp in
      let tot := last csp 0 in
      let thr := if is_rel_sum m then tot * (1 - cutoff) else tot - cutoff in
      (countb (fun c => Qltb c thr) csp + 1)%Z
  end.

Definition g_nchi (m : cmode) (cutoff : Q) (max_bond renorm : Z) (s : list Q) : Z :=
  if Qltb 0 cutoff || (0 <? renorm)%Z then
    let n := Z.max (g_nchi_dynamic m cutoff s) 1 in
    if (0 <? max_bond)%Z then Z.min n max_bond else n
  else if (0 <? max_bond)%Z then max_bond
  else lenZ s.

(* the whole generic routine (after fix 91dfb209: the kept values are
   renormalised with the REQUESTED power, spr = sabs**renorm if renorm >= 2 else
   sabs; norm = (sum spr / sum spr[:n_chi]) ** (1/renorm); no mode-dependent
   variables are used, so no mode raises) *)
Definition g_trim (m : cmode) (cutoff : Q) (max_bond renorm : Z) (s : list Q) : trim :=
  let n := g_nchi m cutoff max_bond renorm s in
  if (n <? lenZ s)%Z then
    let err2 := sumsq (py_drop n s) in
    if (0 <? renorm)%Z then
      let raise_power := (2 <=? renorm)%Z in
      let spr := map (fun x => if raise_power then Qpower x renorm else x) s in
      {| t_svals := py_take n s;
         t_rn := Some (if raise_power then renorm else 1%Z, sumQ spr, sumQ (py_take n spr));
         t_err2 := err2 |}
    else {| t_svals := py_take n s; t_rn := None; t_err2 := err2 |}
  else {| t_svals := s; t_rn := None; t_err2 := 0 |}.

(* --------------- numba path: _compute_number_svals_to_keep_numba etc. ---- *)

(* for i in range(s.size - 1, -1, -1): ssum += s[i]**pow;
       if ssum > target: break;  n_chi -= 1        (rs = reversed s) *)
Fixpoint tail_loop (p : Z) (target : Q) (rs : list Q) (ssum : Q) (n : Z) : Z :=
  match rs with
  | [] => n
  | x :: r =>
      let ssum' := ssum + powq p x in
      if Qltb target ssum' then n else tail_loop p target r ssum' (n - 1)%Z
  end.

Definition n_target (m : cmode) (cutoff : Q) (s : list Q) : Q :=
  if is_rel_sum m then cutoff * sumQ (map (powq (mode_pow m)) s) else cutoff.

Definition n_nchi_raw (m : cmode) (cutoff : Q) (s : list Q) : Z :=
  match m with
  | Abs => countb (fun x => Qltb cutoff x) s
  | Rel => countb (fun x => Qltb (cutoff * hd 0 s) x) s
  | _ => tail_loop (mode_pow m) (n_target m cutoff s) (rev s) 0 (lenZ s)
  end.

(* _compute_number_svals_to_keep_numba *)
Definition n_nchi_dynamic (m : cmode) (cutoff : Q) (s : list Q) : Z :=
  Z.max (n_nchi_raw m cutoff s) 1.

(* _compute_svals_renorm_factor_numba: (p, keep + lose, keep), f = (./.)^(1/p) *)
Definition n_renorm (s : list Q) (n renorm : Z) : Z * Q * Q :=
  let raise_power := (2 <=? renorm)%Z in
  let sp := map (fun x => if raise_power then Qpower x renorm else x) s in
  let keep := sumQ (firstn (Z.to_nat n) sp) in
  let lose := sumQ (skipn (Z.to_nat n) sp) in
  (if raise_power then renorm else 1%Z, keep + lose, keep).

(* _trim_and_renorm_svd_result_numba *)
Definition n_trim (m : cmode) (cutoff : Q) (max_bond renorm : Z) (s : list Q) : trim :=
  if Qltb 0 cutoff || (0 <? renorm)%Z then
    let n0 := n_nchi_dynamic m cutoff s in
    let n := if (0 <? max_bond)%Z then Z.min n0 max_bond else n0 in
    if (n <? lenZ s)%Z then
      {| t_svals := py_take n s;
         t_rn := if (0 <? renorm)%Z then Some (n_renorm s n renorm) else None;
         t_err2 := sumsq (py_drop n s) |}
    else {| t_svals := s; t_rn := None; t_err2 := 0 |}
  else if negb (max_bond =? -1)%Z && (max_bond <? lenZ s)%Z then
    {| t_svals := py_take max_bond s; t_rn := None; t_err2 := sumsq (py_drop max_bond s) |}
  else {| t_svals := s; t_rn := None; t_err2 := 0 |}.

Definition g_kept m cutoff max_bond renorm s : Z :=
  let n := g_nchi m cutoff max_bond renorm s in if (n <? lenZ s)%Z then n else lenZ s.
Definition n_kept m cutoff max_bond renorm s : Z := lenZ (t_svals (n_trim m cutoff max_bond renorm s)).

(* discarded weight of keeping n values, in the mode's power *)
Definition disc (p : Z) (s : list Q) (n : Z) : Q := sumQ (map (powq p) (skipn (Z.to_nat n) s)).

(* --------------------------------------------------------- absorb tables -- *)

(* what a returned factor is, in terms of the SVD  U diag(s) VH *)
(* LPiso / RPiso: a partial isometry that is NOT isometric in the direction Tensor.split would flag
   (W VH of a polar decomposition of a non-square matrix) *)
Inductive lfac := LNone | LU | LUs | LUsq | LPiso.
Inductive rfac := RNone | RVH | RsVH | RsqVH | RPiso.
Definition lfac_eqb a b := match a, b with LNone, LNone | LU, LU | LUs, LUs | LUsq, LUsq | LPiso, LPiso => true | _, _ => false end.
Definition rfac_eqb a b := match a, b with RNone, RNone | RVH, RVH | RsVH, RsVH | RsqVH, RsqVH | RPiso, RPiso => true | _, _ => false end.

(* absorb codes: None = 'full' (get_U_s_VH) *)
Definition get_s := 2%Z.        Definition get_Usq := (-12)%Z.
Definition get_VH := (-11)%Z.   Definition get_Us := (-10)%Z.
Definition get_Us_VH := (-1)%Z. Definition get_Usq_sqVH := 0%Z.
Definition get_U_sVH := 1%Z.    Definition get_U := 10%Z.
Definition get_sVH := 11%Z.     Definition get_sqVH := 12%Z.

Definition all_codes : list (option Z) :=
  [None; Some get_s; Some get_Usq; Some get_VH; Some get_Us; Some get_Us_VH;
   Some get_Usq_sqVH; Some get_U_sVH; Some get_U; Some get_sVH; Some get_sqVH].

Definition code_eqb (a b : option Z) : bool :=
  match a, b with None, None => true | Some x, Some y => (x =? y)%Z | _, _ => false end.
Definition code_in (a : option Z) (l : list (option Z)) : bool := existsb (code_eqb a) l.

(* _do_absorb: (left, s returned?, right); None = raises ValueError *)
Definition do_absorb (a : option Z) : option (lfac * bool * rfac) :=
  match a with
  | None => Some (LU, true, RVH)
  | Some c =>
      if (c =? get_Usq_sqVH)%Z then Some (LUsq, false, RsqVH)
      else if (c =? get_U_sVH)%Z then Some (LU, false, RsVH)
      else if (c =? get_Us_VH)%Z then Some (LUs, false, RVH)
      else if (c =? get_sVH)%Z then Some (LNone, false, RsVH)
      else if (c =? get_Us)%Z then Some (LUs, false, RNone)
      else if (c =? get_U)%Z then Some (LU, false, RNone)
      else if (c =? get_VH)%Z then Some (LNone, false, RVH)
      else if (c =? get_Usq)%Z then Some (LUsq, false, RNone)
      else if (c =? get_sqVH)%Z then Some (LNone, false, RsqVH)
      else if (c =? get_s)%Z then Some (LNone, true, RNone)
      else None
  end.

(* _do_absorb_numba: same chain, falls through to (None, None, None) *)
Definition do_absorb_numba (a : option Z) : lfac * bool * rfac :=
  match do_absorb a with Some r => r | None => (LNone, false, RNone) end.

(* _ABSORB_TRANSPOSE_MAP *)
Definition absorb_transpose (a : option Z) : option Z :=
  match a with
  | None => None
  | Some c =>
      if (c =? get_s)%Z then Some get_s
      else if (c =? get_Usq)%Z then Some get_sqVH
      else if (c =? get_VH)%Z then Some get_U
      else if (c =? get_Us)%Z then Some get_sVH
      else if (c =? get_Us_VH)%Z then Some get_U_sVH
      else if (c =? get_Usq_sqVH)%Z then Some get_Usq_sqVH
      else if (c =? get_U_sVH)%Z then Some get_Us_VH
      else if (c =? get_U)%Z then Some get_VH
      else if (c =? get_sVH)%Z then Some get_Us
      else if (c =? get_sqVH)%Z then Some get_Usq
      else Some c
  end.

(* _RETURNS_LEFT_ABSORBS / _RETURNS_RIGHT_ABSORBS *)
Definition returns_left_absorbs : list (option Z) :=
  [None; Some get_Usq; Some get_Us; Some get_Us_VH; Some get_Usq_sqVH; Some get_U_sVH; Some get_U].
Definition returns_right_absorbs : list (option Z) :=
  [None; Some get_VH; Some get_Us_VH; Some get_Usq_sqVH; Some get_U_sVH; Some get_sVH; Some get_sqVH].

(* transposition of a factor description: (U diag(s) VH)^T = VH^T diag(s) U^T *)
Definition l_of_r (r : rfac) : lfac := match r with RNone => LNone | RVH => LU | RsVH => LUs | RsqVH => LUsq | RPiso => LPiso end.
Definition r_of_l (l : lfac) : rfac := match l with LNone => RNone | LU => RVH | LUs => RsVH | LUsq => RsqVH | LPiso => RPiso end.

(* power of s carried by a factor, in half units *)
Definition lpow2 (l : lfac) : Z := match l with LNone | LU | LPiso => 0 | LUs => 2 | LUsq => 1 end%Z.
Definition rpow2 (r : rfac) : Z := match r with RNone | RVH | RPiso => 0 | RsVH => 2 | RsqVH => 1 end%Z.

(* _ABSORB_MAP aliases *)
Open Scope string_scope.
Definition absorb_aliases : list (string * option Z) :=
  [("U,s,VH", None); ("s", Some get_s); ("lsqrt", Some get_Usq);
   ("VH", Some get_VH); ("rorthog", Some get_VH); ("Us", Some get_Us); ("lfactor", Some get_Us);
   ("Us,VH", Some get_Us_VH); ("left", Some get_Us_VH);
   ("Usq,sqVH", Some get_Usq_sqVH); ("both", Some get_Usq_sqVH);
   ("U,sVH", Some get_U_sVH); ("right", Some get_U_sVH);
   ("U", Some get_U); ("lorthog", Some get_U); ("sVH", Some get_sVH); ("rfactor", Some get_sVH);
   ("sqVH", Some get_sqVH); ("rsqrt", Some get_sqVH)].
Close Scope string_scope.

(* ------------------------------------------------ methods and option parsing *)

Inductive meth :=
  | MAuto | MSvd | MSvdEig | MSvdRand | MEigh | MQr | MCholesky | MQrCholesky
  | MSvds | MIsvd | MRsvd | MEigsh | MLu | MPolarRight | MPolarLeft
  | MLq | MLqCholesky | MEig (* deprecated alias of svd:eig *).

Definition all_meths : list meth :=
  [MAuto; MSvd; MSvdEig; MSvdRand; MEigh; MQr; MCholesky; MQrCholesky; MSvds; MIsvd; MRsvd;
   MEigsh; MLu; MPolarRight; MPolarLeft; MLq; MLqCholesky; MEig].

Definition meth_id (m : meth) : Z :=
  match m with
  | MAuto => 0 | MSvd => 1 | MSvdEig => 2 | MSvdRand => 3 | MEigh => 4 | MQr => 5 | MCholesky => 6
  | MQrCholesky => 7 | MSvds => 8 | MIsvd => 9 | MRsvd => 10 | MEigsh => 11 | MLu => 12
  | MPolarRight => 13 | MPolarLeft => 14 | MLq => 15 | MLqCholesky => 16 | MEig => 17
  end%Z.
Definition meth_eqb (a b : meth) : bool := (meth_id a =? meth_id b)%Z.
Definition meth_of_id (i : Z) : meth :=
  hd MAuto (filter (fun m => (meth_id m =? i)%Z) all_meths).

(* _DEFAULT_ABSORB (register_split_driver(..., default_absorb=...)) *)
Definition default_absorb (m : meth) : option Z :=
  match m with
  | MQr | MQrCholesky | MPolarRight => Some get_U_sVH
  | MPolarLeft => Some get_Us_VH
  | _ => Some get_Usq_sqVH
  end.

(* the `absorb` argument after alias resolution: 'auto' or a code *)
Inductive aarg := AAuto | ACode (c : option Z).

(* parse_method_absorb *)
Definition parse_method_absorb (m : meth) (a : aarg) (truncation : bool) : meth * option Z :=
  let m := match m with MEig => MSvdEig | _ => m end in
  let m :=
    match m with
    | MAuto =>
        if truncation then MSvd
        else match a with
             | AAuto => MSvd
             | ACode c =>
                 if code_in c [Some get_U_sVH; Some get_U; Some get_sVH; Some get_Us_VH; Some get_Us; Some get_VH]
                 then MQr else MSvd
             end
    | _ => m
    end in
  let '(m, a) :=
    match m with
    | MLq => (MQr, match a with AAuto => ACode (Some get_Us_VH) | _ => a end)
    | MLqCholesky => (MQrCholesky, match a with AAuto => ACode (Some get_Us_VH) | _ => a end)
    | _ => (m, a)
    end in
  match a with
  | AAuto => (m, default_absorb m)
  | ACode c => (m, c)
  end.

(* parse_split_left_right_isom (after fix 740177ad): cholesky never flags;
   the polar drivers ignore `absorb`, so their default form decides *)
Definition parse_isom (m : meth) (a : aarg) : bool * bool :=
  let '(m', c) := parse_method_absorb m a true in
  match m' with
  | MCholesky => (false, false)
  | _ =>
      let c := match m' with MPolarRight | MPolarLeft => default_absorb m' | _ => c end in
      (code_in c [None; Some get_U_sVH; Some get_U], code_in c [None; Some get_Us_VH; Some get_VH])
  end.

(* What each registered driver (numpy backend) returns for a resolved absorb
   code, as a description in terms of an SVD-like factorisation; None = the
   driver (or parse_split_opts) rejects the combination.  This table is the
   per-driver contract; it is validated against the implementation by the
   harness (returned / not returned / numerically isometric). *)
Definition qr_like (c : option Z) : option (lfac * bool * rfac) :=
  if code_in c [Some get_U_sVH; Some get_U; Some get_sVH; Some get_Us_VH; Some get_Us; Some get_VH]
  then do_absorb c else None.

(* shape class of the matrix (rows vs columns): only the polar drivers depend on it *)
Inductive shape := Tall | Square | Wide.
Definition shape_id (s : shape) : Z := match s with Tall => 0 | Square => 1 | Wide => 2 end%Z.
Definition shape_of_id (i : Z) : shape := match i with 0%Z => Tall | 2%Z => Wide | _ => Square end.
Definition all_shapes : list shape := [Tall; Square; Wide].

Definition driver_returns (m : meth) (sh : shape) (c : option Z) : option (lfac * bool * rfac) :=
  match m with
  | MSvd | MSvdEig | MSvdRand | MEigh | MSvds | MIsvd | MRsvd | MEigsh => do_absorb c
  | MQr | MQrCholesky => qr_like c
  | MCholesky =>
      match c with
      | None => Some (LUsq, false, RsqVH)   (* numba: `None == code` is False, falls through to (L, None, L^H) *)
      | Some z => if (z =? get_Usq)%Z then Some (LUsq, false, RNone)
                  else if (z =? get_sqVH)%Z then Some (LNone, false, RsqVH)
                  else Some (LUsq, false, RsqVH)   (* numba: every other code gives (L, None, L^H) *)
      end
  (* x = (W VH) P: W VH has orthonormal columns only when rows >= columns *)
  | MPolarRight => match c with None => None | _ => Some (match sh with Wide => LPiso | _ => LU end, false, RsVH) end
  | MPolarLeft => match c with None => None | _ => Some (LUs, false, match sh with Tall => RPiso | _ => RVH end) end
  | MLu => match c with Some 0%Z => Some (LUsq, false, RsqVH) | _ => None end
  | _ => None
  end.

(* ----------------------------- parse_split_opts and its functools.cache ---- *)

(* Python values that can be passed as `renorm` *)
Inductive pyval := PNone | PBool (b : bool) | PInt (z : Z).

(* key equality of functools.lru_cache(typed=True) (after fix 29128285): the
   type is part of the key, so True / 1 and False / 0 are different keys *)
Definition py_eqb (a b : pyval) : bool :=
  match a, b with
  | PNone, PNone => true
  | PBool x, PBool y => Bool.eqb x y
  | PInt x, PInt y => (x =? y)%Z
  | _, _ => false
  end.

(* _RENORM_LOOKUP.get(cutoff_mode, 0) *)
Definition renorm_lookup (m : cmode) : Z := mode_pow m.

(* the `renorm` entry of the options computed by the body of parse_split_opts *)
Definition parse_renorm (m : cmode) (r : pyval) : Z :=
  match r with
  | PBool true => renorm_lookup m      (* `renorm is True` *)
  | PNone => 0
  | PBool false => 0                   (* False, numerically 0 *)
  | PInt z => z
  end%Z.

(* the cache: a dictionary keyed by the (typed) argument tuple *)
Definition cache := list ((cmode * pyval) * Z).
Definition key_eqb (k1 k2 : cmode * pyval) : bool :=
  (cmode_code (fst k1) =? cmode_code (fst k2))%Z && py_eqb (snd k1) (snd k2).
Fixpoint cache_find (c : cache) (k : cmode * pyval) : option Z :=
  match c with
  | [] => None
  | (k', v) :: r => if key_eqb k' k then Some v else cache_find r k
  end.
Definition cached_call (c : cache) (k : cmode * pyval) : cache * Z :=
  match cache_find c k with
  | Some v => (c, v)
  | None => let v := parse_renorm (fst k) (snd k) in (c ++ [(k, v)], v)
  end.
(* a history of calls (other arguments equal): results seen by the callers *)
Fixpoint cached_run (c : cache) (calls : list (cmode * pyval)) : list Z :=
  match calls with
  | [] => []
  | k :: r => let '(c', v) := cached_call c k in v :: cached_run c' r
  end.

(* ----------------------------------------------- comparison helpers ------- *)

(* two renorm descriptions give the same factor f = (num/den)^(1/p)
   (positive reals):  f1 = f2  <->  (num1/den1)^p2 = (num2/den2)^p1 *)
Definition rn_same_factor (a b : Z * Q * Q) : bool :=
  let '(p1, x1, y1) := a in let '(p2, x2, y2) := b in
  Qeq_bool (Qpower (x1 / y1) p2) (Qpower (x2 / y2) p1).

Fixpoint ql_eqb (a b : list Q) : bool :=
  match a, b with
  | [], [] => true
  | x :: a', y :: b' => Qeq_bool x y && ql_eqb a' b'
  | _, _ => false
  end.

Definition Qabs_le_rel (x y tol : Q) : bool :=   (* |x - y| <= tol * |y| *)
  Qle_bool (Qabs (x - y)) (tol * Qabs y).

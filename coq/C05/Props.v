(* C05 property theorems about the CURRENT code (statements only; proofs in C05/Proofs.v, Trim.v,
   Tables.v, Optimal.v).  Pre-fix variants and their refutations: C05/Historic.v. *)
From Coq Require Import ZArith QArith List Bool.
From QV Require Import C05.Model C05.Proofs C05.Trim C05.Tables C05.Optimal C05.Eig C05.Batch.
Import ListNotations.
Open Scope Q_scope.

(* Both truncation routines keep between 1 and max(1, min(d, max_bond')) values, for
   every spectrum, cutoff mode, cutoff, bond cap (None = -1, or >= 1) and renorm power. *)
Theorem C05_kept_count_bounds : forall m cutoff max_bond renorm s, s <> [] -> (max_bond = -1 \/ 1 <= max_bond)%Z ->
  let bound := Z.max 1 (Z.min (lenZ s) (if (0 <? max_bond)%Z then max_bond else lenZ s)) in
  (1 <= n_kept m cutoff max_bond renorm s <= bound)%Z /\ (1 <= g_kept m cutoff max_bond renorm s <= bound)%Z.
Proof. exact kept_bounds. Qed.
Print Assumptions C05_kept_count_bounds.

(* sum2 / rsum2 / sum1 / rsum1: the count n0 chosen by the cutoff is the SMALLEST whose
   discarded weight obeys the rule (stated with the code's <=: weight equal to the target is
   discarded).  No sortedness needed, only non-negative values. *)
Theorem C05_sum_rule_and_minimality : forall m cutoff s, is_sum_mode m = true -> nonneg s -> s <> [] ->
  0 <= n_target m cutoff s ->
  let n0 := n_nchi_dynamic m cutoff s in
  (1 <= n0 <= lenZ s)%Z
  /\ disc (mode_pow m) s n0 <= n_target m cutoff s
  /\ ((1 < n0)%Z -> n_target m cutoff s < disc (mode_pow m) s (n0 - 1)).
Proof. exact sum_rule_stmt. Qed.
Print Assumptions C05_sum_rule_and_minimality.

(* abs / rel: for a descending spectrum every discarded value is <= the threshold and the
   last kept one is above it (unless only the mandatory first value is kept). *)
Theorem C05_absrel_rule_and_minimality : forall m cutoff s, is_sum_mode m = false -> sorted_desc s -> s <> [] ->
  let n0 := n_nchi_dynamic m cutoff s in
  let thr := absrel_thr m cutoff s in
  (1 <= n0 <= lenZ s)%Z
  /\ Forall (fun x => x <= thr) (skipn (Z.to_nat n0) s)
  /\ ((1 < n0)%Z -> thr < nth (Z.to_nat (n0 - 1)) s 0).
Proof. exact absrel_rule. Qed.
Print Assumptions C05_absrel_rule_and_minimality.

(* The generic (cumsum prefix count + 1) and the accelerated (tail accumulation with
   break) counts agree in exact arithmetic, for every mode and every cutoff (any sign). *)
Theorem C05_generic_count_eq_numba_count : forall m cutoff s, nonneg s -> s <> [] ->
  Z.min (lenZ s) (Z.max (g_nchi_dynamic m cutoff s) 1) = n_nchi_dynamic m cutoff s
  /\ (0 <= cutoff -> Z.max (g_nchi_dynamic m cutoff s) 1 = n_nchi_dynamic m cutoff s).
Proof. exact count_agree_stmt. Qed.
Print Assumptions C05_generic_count_eq_numba_count.

Theorem C05_generic_kept_eq_numba_kept : forall m cutoff max_bond renorm s, nonneg s -> s <> [] ->
  (max_bond = -1 \/ 1 <= max_bond)%Z ->
  g_kept m cutoff max_bond renorm s = n_kept m cutoff max_bond renorm s.
Proof. exact kept_agree. Qed.
Print Assumptions C05_generic_kept_eq_numba_kept.

(* Whole results (kept values, renorm factor, error^2) of the generic and the accelerated
   routine agree for EVERY cutoff mode, cutoff, bond cap and EVERY renorm power (after fix
   91dfb209; the pre-fix disagreement, DESIGN F5, is kept in C05/Historic.v). *)
Theorem C05_trim_generic_eq_numba : forall m cutoff max_bond renorm s, nonneg s -> s <> [] ->
  (max_bond = -1 \/ 1 <= max_bond)%Z ->
  trim_equiv (g_trim m cutoff max_bond renorm s) (n_trim m cutoff max_bond renorm s).
Proof. exact trim_agree. Qed.
Print Assumptions C05_trim_generic_eq_numba.

(* Static truncation inside the SVD-via-eigendecomposition driver (`s2[-max_bond:]` on eigh's
   ASCENDING spectrum, before the optional flip): for either requested order it keeps exactly the
   values the shared truncation routine keeps - the max_bond largest - and the same number. *)
Theorem C05_svd_eig_static_truncation_keeps_largest : forall m (c : Q) max_bond (s : list Q),
  (max_bond = -1 \/ 1 <= max_bond)%Z -> c <= 0 ->
  eig_shortcut_svals (rev s) max_bond true = t_svals (n_trim m c max_bond 0 s)
  /\ rev (eig_shortcut_svals (rev s) max_bond false) = t_svals (n_trim m c max_bond 0 s)
  /\ lenZ (eig_shortcut_svals (rev s) max_bond false) = n_kept m c max_bond 0 s.
Proof. exact eig_shortcut_keeps_largest. Qed.
Print Assumptions C05_svd_eig_static_truncation_keeps_largest.

(* Reported error^2 = (sum of all squares) - (sum of kept squares) = sum of discarded squares. *)
Theorem C05_error_is_discarded_weight : forall m cutoff max_bond renorm s, (max_bond = -1 \/ 1 <= max_bond)%Z ->
  (let r := n_trim m cutoff max_bond renorm s in t_err2 r == sumsq s - sumsq (t_svals r))
  /\ (let r := g_trim m cutoff max_bond renorm s in t_err2 r == sumsq s - sumsq (t_svals r)).
Proof. exact error_stmt. Qed.
Print Assumptions C05_error_is_discarded_weight.

(* Optimality, diagonal special case of Eckart-Young (the general statement needs spectral
   theory and is NOT proved; it is tested numerically): for a descending non-negative spectrum,
   any choice `m` of which n values to keep retains at most the weight of the first n, i.e.
   prefix truncation discards the least weight among all selections of the same size. *)
Theorem C05_eckart_young_diagonal_partial : forall s m, sorted_desc s -> nonneg s ->
  sumsq (select m s) <= sumsq (firstn (ntrue m) s)
  /\ sumsq (skipn (ntrue m) s) <= sumsq s - sumsq (select m s).
Proof. exact prefix_truncation_optimal_diagonal. Qed.
Print Assumptions C05_eckart_young_diagonal_partial.

(* The accelerated renorm factor is ((sum of all s^p) / (sum of kept s^p))^(1/p): multiplying
   the kept values by it restores the p-norm of the full spectrum. *)
Theorem C05_renorm_factor_restores_norm : forall s n renorm, (0 <= n)%Z ->
  let pw := fun x => if (2 <=? renorm)%Z then Qpower x renorm else x in
  let '(p, num, den) := n_renorm s n renorm in
  p = (if (2 <=? renorm)%Z then renorm else 1%Z)
  /\ num == sumQ (map pw s)
  /\ den == sumQ (map pw (firstn (Z.to_nat n) s)).
Proof. exact numba_renorm_char. Qed.
Print Assumptions C05_renorm_factor_restores_norm.

(* Absorb table, all 11 codes: exactly the requested factors are returned, two-sided forms
   multiply back to U diag(s) VH, s is returned only unabsorbed, generic = accelerated. *)
Theorem C05_absorb_table_sound : forall a, In a all_codes -> absorb_entry_ok a = true.
Proof. exact absorb_table_ok. Qed.
Print Assumptions C05_absorb_table_sound.

Theorem C05_absorb_unknown_code_rejected : forall a, code_in a all_codes = false -> do_absorb a = None.
Proof. exact do_absorb_rejects. Qed.
Print Assumptions C05_absorb_unknown_code_rejected.

Theorem C05_absorb_transpose_involution : forall a, In a all_codes -> transpose_entry_ok a = true.
Proof. exact transpose_table_ok. Qed.
Print Assumptions C05_absorb_transpose_involution.

(* parse_split_left_right_isom flags a factor iff the absorb table says it is the bare U / VH *)
Theorem C05_isom_flag_iff_bare_factor : forall a, In a all_codes -> flag_entry_ok a = true.
Proof. exact flag_table_ok. Qed.
Print Assumptions C05_isom_flag_iff_bare_factor.

(* Relative to the driver contract table (validated on the implementation by the harness, per
   shape class): the flags handed to Tensor(left_inds=...) are sound for EVERY method, every
   absorb request and every shape class (cholesky and the polar drivers included, after fix
   740177ad; the pre-fix unsoundness, DESIGN F7, is kept in C05/Historic.v) - except ... *)
Theorem C05_isom_flags_sound : forall m sh a, In m all_meths -> In sh all_shapes -> In a all_aargs ->
  polar_non_square m sh = false -> isom_sound_entry m sh a = true.
Proof. exact isom_flags_sound_all. Qed.
Print Assumptions C05_isom_flags_sound.

(* ... STILL OPEN in the current code: polar_right on a wide / polar_left on a tall matrix flags
   the factor W VH, which is only a partial isometry in the other direction, for every absorb
   request the driver accepts (known finding tensor_split:isom_flag:polar_*:non_square). *)
Theorem C05_isom_flags_polar_non_square_refuted :
  isom_sound_entry MPolarRight Wide AAuto = false /\ isom_sound_entry MPolarLeft Tall AAuto = false
  /\ (forall a, In a all_aargs -> a <> ACode None ->
        isom_sound_entry MPolarRight Wide a = false /\ isom_sound_entry MPolarLeft Tall a = false).
Proof. exact isom_flags_polar_non_square_refuted. Qed.
Print Assumptions C05_isom_flags_polar_non_square_refuted.

Theorem C05_parse_method_absorb_resolves : forall m a t, In m all_meths -> In a all_aargs ->
  registered (fst (parse_method_absorb m a t)) = true /\ code_in (snd (parse_method_absorb m a t)) all_codes = true.
Proof. exact parse_method_absorb_resolves. Qed.
Print Assumptions C05_parse_method_absorb_resolves.

(* The cache on parse_split_opts (typed keys after fix 29128285) is transparent for EVERY call
   history, renorm=True after renorm=1 included (the pre-fix history dependence, DESIGN F6, is
   kept in C05/Historic.v). *)
Theorem C05_parse_opts_cache_transparent : forall calls, cached_run [] calls = pure_run calls.
Proof. exact cache_transparent. Qed.
Print Assumptions C05_parse_opts_cache_transparent.


(* Batched input (x.ndim > 2: the generic routine on a stack of spectra, `gb_*` in C05/Batch.v).
   The bond of the batched result is EXACTLY the largest count any member needs when it is judged
   alone against its own spectrum (own s[0] for 'rel', own total for the rsum modes), which is also what
   the accelerated 2D routine picks member by member: no member is cut below its own rule and the
   bond is not larger than the worst member needs.  Every cutoff mode, cutoff, bond cap, renorm. *)
Theorem C05_batch_bond_is_max_of_member_counts : forall m c mb rn ss, ss <> [] -> uniform (lenZ (hd [] ss)) ss ->
  Forall nonneg ss -> Forall (fun s => s <> []) ss -> (mb = -1 \/ 1 <= mb)%Z ->
  gb_kept m c mb rn ss = zmax (map (n_kept m c mb rn) ss)
  /\ (forall s, In s ss -> (n_kept m c mb rn s <= gb_kept m c mb rn ss)%Z)
  /\ (exists s, In s ss /\ n_kept m c mb rn s = gb_kept m c mb rn ss).
Proof. exact batch_kept_is_max_numba. Qed.
Print Assumptions C05_batch_bond_is_max_of_member_counts.

(* every member of the batch is sliced at that common bond *)
Theorem C05_batch_members_same_bond : forall m c mb rn ss, uniform (lenZ (hd [] ss)) ss ->
  Forall (fun r => lenZ (t_svals r) = gb_kept m c mb rn ss) (gb_trim m c mb rn ss).
Proof. exact batch_members_same_bond. Qed.
Print Assumptions C05_batch_members_same_bond.

(* a batch of one is the 2D generic routine *)
Theorem C05_batch_singleton_is_generic : forall m c mb rn s, gb_trim m c mb rn [s] = [g_trim m c mb rn s].
Proof. exact batch_singleton. Qed.
Print Assumptions C05_batch_singleton_is_generic.

Example C05_examples :
  (* ties: weight equal to the target is discarded (code's <=, docs say <) *)
  n_nchi_dynamic Sum2 (5 # 4) [4 # 1; 2 # 1; 1 # 1; 1 # 2] = 2%Z
  /\ g_nchi_dynamic Sum2 (5 # 4) [4 # 1; 2 # 1; 1 # 1; 1 # 2] = 2%Z
  /\ n_nchi_dynamic Sum2 (9 # 8) [4 # 1; 2 # 1; 1 # 1; 1 # 2] = 3%Z
  /\ n_nchi_dynamic Abs (1 # 1) [4 # 1; 2 # 1; 1 # 1; 1 # 2] = 2%Z
  /\ n_kept RSum1 (1 # 2) 1 0 [4 # 1; 2 # 1; 1 # 1; 1 # 2] = 1%Z
  /\ g_nchi_dynamic Sum1 (-1 # 1) [2 # 1; 1 # 1] = 3%Z /\ n_nchi_dynamic Sum1 (-1 # 1) [2 # 1; 1 # 1] = 2%Z
  /\ do_absorb (Some get_U_sVH) = Some (LU, false, RsVH)
  /\ parse_method_absorb MLq AAuto true = (MQr, Some get_Us_VH)
  /\ parse_isom MLq AAuto = (false, true)
  /\ parse_isom MCholesky (ACode (Some get_U_sVH)) = (false, false)
  /\ parse_isom MPolarRight (ACode (Some get_Us_VH)) = (true, false)
  /\ t_rn (g_trim RSum2 (6 # 100) (-1) 1 [4 # 1; 2 # 1; 1 # 1; 1 # 2]) = Some (1%Z, 15 # 2, 6 # 1)
  /\ cached_run [] [(RSum2, PInt 1); (RSum2, PBool true)] = [1; 2]%Z
  /\ pure_run [(RSum2, PInt 1); (RSum2, PBool true)] = [1; 2]%Z.
Proof. vm_compute. repeat split. Qed.

(* members of different scale: the quiet member (own s[0] = 1) needs 3 values at rel cutoff 1/100 *)
Example C05_batch_example :
  gb_kept Rel (1 # 100) (-1) 0 [[50 # 1; 1 # 1000; 1 # 10000; 1 # 100000]; [1 # 1; 1 # 5; 1 # 20; 1 # 10000]] = 3%Z
  /\ n_kept Rel (1 # 100) (-1) 0 [50 # 1; 1 # 1000; 1 # 10000; 1 # 100000] = 1%Z.
Proof. vm_compute. repeat split. Qed.

(* C05 HISTORIC file.  Nothing here describes the current /repo.  It keeps, for
   the record, faithful models of three routines AS THEY WERE BEFORE the fix
   commits named in the identifiers, with the witness lemmas that justified the
   fixes (DESIGN section 5: F5, F6, F7).  The current code is modelled in
   Model.v and the positive theorems that replaced these are in Props.v. *)
From Coq Require Import ZArith QArith List Bool Lia.
From QV Require Import C05.Model C05.Proofs C05.Trim.
Import ListNotations.
Open Scope Q_scope.

(* ---- F5: generic _trim_and_renorm_svd_result before fix 91dfb209 ----------
   norm = (tot / csp[n_chi - 1]) ** (1 / pow) with `tot`, `pow` bound only in
   the sum modes: the mode's power was used whatever `renorm` said, and abs /
   rel with renorm > 0 raised UnboundLocalError (None). *)
Definition g_trim_pre_91dfb209 (m : cmode) (cutoff : Q) (max_bond renorm : Z) (s : list Q) : option trim :=
  let n := g_nchi m cutoff max_bond renorm s in
  if (n <? lenZ s)%Z then
    let err2 := sumsq (py_drop n s) in
    if (0 <? renorm)%Z then
      if is_sum_mode m then
        let csp := cumsum_from 0 (map (powq (mode_pow m)) s) in
        Some {| t_svals := py_take n s;
                t_rn := Some (mode_pow m, last csp 0, nth (Z.to_nat (n - 1)) csp 0);
                t_err2 := err2 |}
      else None
    else Some {| t_svals := py_take n s; t_rn := None; t_err2 := err2 |}
  else Some {| t_svals := s; t_rn := None; t_err2 := 0 |}.

Lemma historic_F5_generic_neq_numba :
  (exists m cutoff max_bond renorm s rg fg,
     nonneg s /\ sorted_desc s /\ g_trim_pre_91dfb209 m cutoff max_bond renorm s = Some rg /\ t_rn rg = Some fg
     /\ exists fn, t_rn (n_trim m cutoff max_bond renorm s) = Some fn /\ rn_same_factor fg fn = false)
  /\ (forall m cutoff max_bond renorm s, is_sum_mode m = false -> (0 < renorm)%Z ->
        (g_nchi m cutoff max_bond renorm s < lenZ s)%Z -> g_trim_pre_91dfb209 m cutoff max_bond renorm s = None).
Proof.
  split.
  - exists RSum2, (6 # 100), (-1)%Z, 1%Z, [4 # 1; 2 # 1; 1 # 1; 1 # 2]. eexists. eexists.
    split; [repeat constructor; unfold Qle; cbn; discriminate|].
    split; [repeat constructor; unfold Qle; cbn; discriminate|].
    split; [vm_compute; reflexivity|]. split; [reflexivity|].
    eexists. split; [vm_compute; reflexivity|]. vm_compute. reflexivity.
  - intros m c mb rn s Hm Hrn Hn. unfold g_trim_pre_91dfb209.
    assert (E1 : (g_nchi m c mb rn s <? lenZ s)%Z = true) by lia.
    assert (E2 : (0 <? rn)%Z = true) by lia. rewrite E1, E2, Hm. reflexivity.
Qed.

(* ---- F7: parse_split_left_right_isom before fix 740177ad ------------------
   flags derived from the REQUESTED absorb code for every method *)
Definition parse_isom_pre_740177ad (m : meth) (a : aarg) : bool * bool :=
  let '(_, c) := parse_method_absorb m a true in
  (code_in c [None; Some get_U_sVH; Some get_U], code_in c [None; Some get_Us_VH; Some get_VH]).

Definition isom_sound_entry_pre_740177ad (m : meth) (sh : shape) (a : aarg) : bool :=
  let '(m', c) := parse_method_absorb m a true in
  let '(fl, fr) := parse_isom_pre_740177ad m a in
  match driver_returns m' sh c with
  | None => true
  | Some (l, _, r) =>
      (negb fl || lfac_eqb l LU || lfac_eqb l LNone) && (negb fr || rfac_eqb r RVH || rfac_eqb r RNone)
  end.

Lemma historic_F7_flags_unsound :
  isom_sound_entry_pre_740177ad MCholesky Square (ACode (Some get_U_sVH)) = false
  /\ isom_sound_entry_pre_740177ad MCholesky Square (ACode (Some get_Us_VH)) = false
  /\ isom_sound_entry_pre_740177ad MPolarLeft Square (ACode (Some get_U_sVH)) = false
  /\ isom_sound_entry_pre_740177ad MPolarRight Square (ACode (Some get_Us_VH)) = false.
Proof. repeat split; vm_compute; reflexivity. Qed.

(* ---- F6: functools.cache on parse_split_opts before fix 29128285 ----------
   untyped keys compared with Python ==: True == 1, False == 0 *)
Definition py_num (v : pyval) : option Z :=
  match v with PNone => None | PBool b => Some (if b then 1 else 0)%Z | PInt z => Some z end.
Definition py_eqb_pre_29128285 (a b : pyval) : bool :=
  match py_num a, py_num b with
  | None, None => true
  | Some x, Some y => (x =? y)%Z
  | _, _ => false
  end.
Definition key_eqb_pre (k1 k2 : cmode * pyval) : bool :=
  (cmode_code (fst k1) =? cmode_code (fst k2))%Z && py_eqb_pre_29128285 (snd k1) (snd k2).
Fixpoint cache_find_pre (c : cache) (k : cmode * pyval) : option Z :=
  match c with
  | [] => None
  | (k', v) :: r => if key_eqb_pre k' k then Some v else cache_find_pre r k
  end.
Definition cached_call_pre (c : cache) (k : cmode * pyval) : cache * Z :=
  match cache_find_pre c k with
  | Some v => (c, v)
  | None => let v := parse_renorm (fst k) (snd k) in (c ++ [(k, v)], v)
  end.
Fixpoint cached_run_pre_29128285 (c : cache) (calls : list (cmode * pyval)) : list Z :=
  match calls with
  | [] => []
  | k :: r => let '(c', v) := cached_call_pre c k in v :: cached_run_pre_29128285 c' r
  end.

Lemma historic_F6_cache_history_dependent :
  exists calls, cached_run_pre_29128285 [] calls <> map (fun k => parse_renorm (fst k) (snd k)) calls.
Proof. exists [(RSum2, PInt 1); (RSum2, PBool true)]. vm_compute. discriminate. Qed.

(* C05 proofs: truncation-count theorems for both implementations. *)
From Coq Require Import ZArith QArith Lqa List Bool Lia ZifyBool.
From QV Require Import C05.Model.
Import ListNotations.
Open Scope Q_scope.

(* ------------------------------------------------------------ comparisons *)

Lemma Qltb_lt : forall a b, Qltb a b = true <-> a < b.
Proof.
  intros a b. unfold Qltb. rewrite negb_true_iff. split; intro H.
  - apply Qnot_le_lt. intro L. apply Qle_bool_iff in L. congruence.
  - destruct (Qle_bool b a) eqn:E; [|reflexivity]. apply Qle_bool_iff in E. lra.
Qed.

Lemma Qltb_ge : forall a b, Qltb a b = false <-> b <= a.
Proof.
  intros a b. split; intro H.
  - destruct (Qlt_le_dec a b) as [L|L]; [|exact L]. apply Qltb_lt in L. congruence.
  - destruct (Qltb a b) eqn:E; [|reflexivity]. apply Qltb_lt in E. lra.
Qed.

Lemma Qltb_iff_eq : forall a b c d, (a < b <-> c < d) -> Qltb a b = Qltb c d.
Proof.
  intros a b c d H. destruct (Qltb a b) eqn:E1, (Qltb c d) eqn:E2; try reflexivity.
  - apply Qltb_lt in E1. apply H in E1. apply Qltb_lt in E1. congruence.
  - apply Qltb_lt in E2. apply H in E2. apply Qltb_lt in E2. congruence.
Qed.

Definition nonneg (l : list Q) : Prop := Forall (fun x => 0 <= x) l.

Lemma powq_nonneg : forall p x, 0 <= x -> 0 <= powq p x.
Proof. intros p x H. unfold powq. destruct (p =? 2)%Z; [nra | exact H]. Qed.

Lemma nonneg_map_powq : forall p l, nonneg l -> nonneg (map (powq p) l).
Proof. intros p l H. induction H; constructor; auto using powq_nonneg. Qed.

Lemma sumQ_nonneg : forall l, nonneg l -> 0 <= sumQ l.
Proof. intros l H. induction H; cbn [sumQ]; lra. Qed.

Lemma nonneg_skipn : forall n l, nonneg l -> nonneg (skipn n l).
Proof.
  induction n; intros l H; [exact H|]. destruct l; [constructor|]. inversion H; subst. cbn [skipn]. auto.
Qed.

Lemma sumQ_skipn_le : forall n l, nonneg l -> sumQ (skipn n l) <= sumQ l.
Proof.
  induction n; intros l H; cbn [skipn]; [lra|]. destruct l; [cbn; lra|].
  inversion H; subst. cbn [sumQ]. specialize (IHn l H3). lra.
Qed.

Lemma sumQ_app : forall a b, sumQ (a ++ b) == sumQ a + sumQ b.
Proof. induction a; intros b; cbn [app sumQ]; [lra|]. rewrite IHa. lra. Qed.

Lemma sumQ_firstn_skipn : forall n l, sumQ (firstn n l) + sumQ (skipn n l) == sumQ l.
Proof. intros n l. rewrite <- sumQ_app, firstn_skipn. reflexivity. Qed.

Lemma sumQ_rev : forall l, sumQ (rev l) == sumQ l.
Proof. induction l; cbn [rev sumQ]; [lra|]. rewrite sumQ_app, IHl. cbn [sumQ]. lra. Qed.

(* ------------------------------------------------------------------ counts *)

Definition cnt {A} (f : A -> bool) (l : list A) : nat := List.length (filter f l).
Definition gt (t : Q) : Q -> bool := fun c => Qltb t c.
Definition b2n (b : bool) : nat := if b then 1%nat else 0%nat.

Lemma countb_cnt : forall A (f : A -> bool) l, countb f l = Z.of_nat (cnt f l).
Proof. reflexivity. Qed.

Lemma cnt_cons : forall A (f : A -> bool) x l, cnt f (x :: l) = (b2n (f x) + cnt f l)%nat.
Proof. intros. unfold cnt. cbn [filter]. destruct (f x); reflexivity. Qed.

Lemma cnt_app : forall A (f : A -> bool) a b, cnt f (a ++ b) = (cnt f a + cnt f b)%nat.
Proof. intros. unfold cnt. rewrite filter_app, app_length. reflexivity. Qed.

Lemma cnt_le : forall A (f : A -> bool) l, (cnt f l <= List.length l)%nat.
Proof. intros. unfold cnt. induction l; cbn [filter List.length]; [lia|]. destruct (f a); cbn [List.length]; lia. Qed.

Lemma cnt_all : forall A (f : A -> bool) l, Forall (fun x => f x = true) l -> cnt f l = List.length l.
Proof. intros A f l H. induction H; [reflexivity|]. rewrite cnt_cons, H. cbn [b2n List.length]. lia. Qed.

(* suffix sums: fsuf l = [tail_0 .. tail_{d-1}], ssuf l = [tail_1 .. tail_d] *)
Fixpoint fsuf (l : list Q) : list Q := match l with [] => [] | x :: r => sumQ l :: fsuf r end.
Fixpoint ssuf (l : list Q) : list Q := match l with [] => [] | x :: r => sumQ r :: ssuf r end.

Lemma fsuf_length : forall l, List.length (fsuf l) = List.length l.
Proof. induction l; cbn [fsuf List.length]; congruence. Qed.

Lemma suf_relation : forall t l,
  (cnt (gt t) (ssuf l) + b2n (Qltb t (sumQ l)) = cnt (gt t) (fsuf l) + b2n (Qltb t 0))%nat.
Proof.
  intros t. induction l as [|x r IH]; [reflexivity|].
  cbn [ssuf fsuf]. rewrite !cnt_cons. unfold gt at 1 3. lia.
Qed.

(* tails of a non-negative list are monotone: the count of tails above t is a threshold index *)
Lemma thresh : forall t l, nonneg l -> forall n, (n < List.length l)%nat ->
  (t < sumQ (skipn n l) <-> (n < cnt (gt t) (fsuf l))%nat).
Proof.
  intros t l H. induction H as [|x r Hx Hr IH]; intros n Hn; [cbn in Hn; lia|].
  cbn [fsuf]. rewrite cnt_cons. unfold gt at 1.
  assert (Hr0 : 0 <= sumQ r) by (apply sumQ_nonneg; exact Hr).
  destruct n as [|m].
  - cbn [skipn]. split; intro L.
    + apply Qltb_lt in L. rewrite L. cbn [b2n]. lia.
    + destruct (Qltb t (sumQ (x :: r))) eqn:E; [apply Qltb_lt in E; exact E|].
      cbn [b2n] in L. assert (Hlen : (0 < List.length r)%nat).
      { pose proof (cnt_le _ (gt t) (fsuf r)). rewrite fsuf_length in H. lia. }
      apply (IH 0%nat Hlen) in L. cbn [skipn] in L. cbn [sumQ]. lra.
  - cbn [skipn]. cbn [List.length] in Hn. assert (Hm : (m < List.length r)%nat) by lia.
    rewrite (IH m Hm). split; intro L.
    + assert (E : Qltb t (sumQ (x :: r)) = true).
      { apply Qltb_lt. apply (IH m Hm) in L. pose proof (sumQ_skipn_le m r Hr). cbn [sumQ]. lra. }
      rewrite E. cbn [b2n]. lia.
    + destruct (Qltb t (sumQ (x :: r))); cbn [b2n] in L; lia.
Qed.

(* ------------------------------------------------------------- cumsum facts *)

Lemma cumsum_length : forall l a, List.length (cumsum_from a l) = List.length l.
Proof. induction l; intros; cbn [cumsum_from List.length]; [reflexivity|]. rewrite IHl. reflexivity. Qed.

Lemma cumsum_app : forall l1 l2 a,
  cumsum_from a (l1 ++ l2) = cumsum_from a l1 ++ cumsum_from (fold_left Qplus l1 a) l2.
Proof. induction l1; intros; cbn [app cumsum_from fold_left]; [reflexivity|]. rewrite IHl1. reflexivity. Qed.

Lemma fold_left_sumQ : forall l a, fold_left Qplus l a == a + sumQ l.
Proof. induction l; intros; cbn [fold_left sumQ]; [lra|]. rewrite IHl. lra. Qed.

Lemma cumsum_ge : forall l a, nonneg l -> Forall (fun c => a <= c) (cumsum_from a l).
Proof.
  induction l; intros b H; cbn [cumsum_from]; [constructor|]. inversion H; subst. constructor; [lra|].
  specialize (IHl (b + a) H3). eapply Forall_impl; [|exact IHl]. cbn. intros; lra.
Qed.

Lemma cumsum_last : forall l a d, l <> [] -> last (cumsum_from a l) d == a + sumQ l.
Proof.
  induction l as [|x r IH]; intros a d H; [congruence|].
  cbn [cumsum_from sumQ]. destruct r as [|y r'].
  - cbn. lra.
  - change (last ((a + x) :: cumsum_from (a + x) (y :: r')) d) with (last (cumsum_from (a + x) (y :: r')) d).
    + rewrite IH by congruence. cbn [sumQ]. lra.
Qed.

Lemma cumsum_last0 : forall l, last (cumsum_from 0 l) 0 == sumQ l.
Proof. intros [|x r]; [cbn; lra|]. rewrite cumsum_last by congruence. lra. Qed.

Lemma cumsum_nth : forall l a k, (k < List.length l)%nat ->
  nth k (cumsum_from a l) 0 == a + sumQ (firstn (S k) l).
Proof.
  induction l as [|x r IH]; intros a k H; [cbn in H; lia|].
  cbn [cumsum_from]. destruct k.
  - cbn. lra.
  - cbn [nth]. cbn [List.length] in H. rewrite IH by lia. cbn [firstn sumQ]. lra.
Qed.

(* generic count: prefix sums below tot - t  <->  tails above t *)
Lemma gen_cnt : forall t l acc T thr, T == acc + sumQ l -> thr == T - t ->
  cnt (fun c => Qltb c thr) (cumsum_from acc l) = cnt (gt t) (ssuf l).
Proof.
  intros t. induction l as [|x r IH]; intros acc T thr HT Hthr; [reflexivity|].
  cbn [cumsum_from ssuf]. rewrite !cnt_cons. unfold gt at 1.
  cbn [sumQ] in HT.
  rewrite (IH (acc + x) T thr) by lra.
  f_equal. f_equal. apply Qltb_iff_eq. lra.
Qed.

(* numba loop: n minus the number of leading partial sums not above target *)
Lemma tail_loop_spec : forall p t rs ssum n, nonneg (map (powq p) rs) ->
  tail_loop p t rs ssum n =
  (n - Z.of_nat (List.length rs) + Z.of_nat (cnt (gt t) (cumsum_from ssum (map (powq p) rs))))%Z.
Proof.
  intros p t. induction rs as [|x r IH]; intros ssum n H; cbn [tail_loop map cumsum_from List.length].
  - cbn. lia.
  - inversion H; subst. rewrite cnt_cons. unfold gt at 1.
    destruct (Qltb t (ssum + powq p x)) eqn:E.
    + cbn [b2n]. rewrite cnt_all.
      * rewrite cumsum_length, map_length. lia.
      * apply Qltb_lt in E. pose proof (cumsum_ge _ (ssum + powq p x) H3) as G.
        eapply Forall_impl; [|exact G]. cbn. intros c Hc. apply Qltb_lt. lra.
    + rewrite IH by exact H3. cbn [b2n]. lia.
Qed.

Lemma cumsum_rev_cnt : forall t l, cnt (gt t) (cumsum_from 0 (rev l)) = cnt (gt t) (fsuf l).
Proof.
  intros t. induction l as [|x r IH]; [reflexivity|].
  cbn [rev fsuf]. rewrite cumsum_app. cbn [cumsum_from].
  rewrite cnt_app, IH, !cnt_cons.
  assert (E : gt t (fold_left Qplus (rev r) 0 + x) = gt t (sumQ (x :: r))).
  { unfold gt. apply Qltb_iff_eq. rewrite fold_left_sumQ, sumQ_rev. cbn [sumQ].
    split; intro; lra. }
  rewrite E. change (cnt (gt t) []) with 0%nat. lia.
Qed.

(* ---------------------------------------------- characterisation of both counts *)

Lemma n_nchi_raw_sum : forall m c s, is_sum_mode m = true ->
  n_nchi_raw m c s = tail_loop (mode_pow m) (n_target m c s) (rev s) 0 (lenZ s).
Proof. intros m c s H. destruct m; try discriminate H; reflexivity. Qed.

Lemma g_nchi_dynamic_sum : forall m c s, is_sum_mode m = true ->
  g_nchi_dynamic m c s =
  Z.add (countb (fun x => Qltb x (if is_rel_sum m then last (cumsum_from 0 (map (powq (mode_pow m)) s)) 0 * (1 - c)
                            else last (cumsum_from 0 (map (powq (mode_pow m)) s)) 0 - c))
          (cumsum_from 0 (map (powq (mode_pow m)) s))) 1%Z.
Proof. intros m c s H. destruct m; try discriminate H; reflexivity. Qed.

Section SumModes.
  Variable m : cmode.
  Hypothesis Hm : is_sum_mode m = true.
  Variable cutoff : Q.
  Variable s : list Q.
  Hypothesis Hs : nonneg s.

  Local Notation p := (mode_pow m).
  Local Notation sp := (map (powq (mode_pow m)) s).
  Local Notation t := (n_target m cutoff s).

  Lemma sp_nonneg : nonneg sp.
  Proof. apply nonneg_map_powq. exact Hs. Qed.

  Lemma numba_raw_char : n_nchi_raw m cutoff s = Z.of_nat (cnt (gt t) (fsuf sp)).
  Proof.
    rewrite n_nchi_raw_sum by exact Hm.
    rewrite tail_loop_spec by (rewrite map_rev; apply Forall_rev; apply sp_nonneg).
    rewrite map_rev, cumsum_rev_cnt, rev_length. unfold lenZ. lia.
  Qed.

  Lemma generic_dyn_char : g_nchi_dynamic m cutoff s = (Z.of_nat (cnt (gt t) (ssuf sp)) + 1)%Z.
  Proof.
    rewrite g_nchi_dynamic_sum by exact Hm.
    assert (G : forall thr, thr == sumQ sp - t ->
      (countb (fun c => Qltb c thr) (cumsum_from 0 sp) + 1 = Z.of_nat (cnt (gt t) (ssuf sp)) + 1)%Z).
    { intros thr Hthr. rewrite countb_cnt. rewrite (gen_cnt t sp 0 (sumQ sp) thr); [reflexivity|lra|exact Hthr]. }
    apply G. unfold n_target. destruct (is_rel_sum m); rewrite cumsum_last0; ring.
  Qed.

  Lemma cf_le : (cnt (gt t) (fsuf sp) <= List.length s)%nat.
  Proof. pose proof (cnt_le _ (gt t) (fsuf sp)). rewrite fsuf_length, map_length in H. exact H. Qed.

  Lemma sp_length : List.length sp = List.length s.
  Proof. apply map_length. Qed.

  (* both implementations keep the same number of values (exact arithmetic) *)
  Lemma dyn_agree_sum : s <> [] ->
    Z.min (lenZ s) (Z.max (g_nchi_dynamic m cutoff s) 1) = n_nchi_dynamic m cutoff s.
  Proof.
    intro Hne. unfold n_nchi_dynamic. rewrite numba_raw_char, generic_dyn_char.
    pose proof (suf_relation t sp) as R. pose proof cf_le as L.
    assert (Hd : (0 < List.length sp)%nat). { rewrite sp_length. destruct s; [congruence|cbn; lia]. }
    pose proof (thresh t sp sp_nonneg 0%nat Hd) as T0. cbn [skipn] in T0.
    assert (Htot : 0 <= sumQ sp) by (apply sumQ_nonneg, sp_nonneg).
    unfold lenZ. rewrite <- sp_length in *.
    destruct (Qltb t 0) eqn:E0.
    - (* negative target: everything is kept by both *)
      apply Qltb_lt in E0.
      assert (E1 : Qltb t (sumQ sp) = true) by (apply Qltb_lt; lra). rewrite E1 in R. cbn [b2n] in R.
      assert (Hall : cnt (gt t) (fsuf sp) = List.length sp).
      { assert (Hlast : (List.length sp - 1 < List.length sp)%nat) by lia.
        pose proof (thresh t sp sp_nonneg _ Hlast) as TL.
        assert (0 <= sumQ (skipn (List.length sp - 1) sp)) by (apply sumQ_nonneg, nonneg_skipn, sp_nonneg).
        assert (t < sumQ (skipn (List.length sp - 1) sp)) by lra. apply TL in H0. lia. }
      lia.
    - cbn [b2n] in R. destruct (Qltb t (sumQ sp)) eqn:E1; cbn [b2n] in R.
      + lia.
      + assert (cnt (gt t) (fsuf sp) = 0)%nat.
        { destruct (cnt (gt t) (fsuf sp)) eqn:C; [reflexivity|].
          assert (t < sumQ sp) by (apply T0; lia). apply Qltb_lt in H. congruence. }
        lia.
  Qed.

  (* rule and minimality *)
  Lemma sum_rule : s <> [] -> 0 <= t ->
    let n0 := n_nchi_dynamic m cutoff s in
    (1 <= n0 <= lenZ s)%Z /\ disc p s n0 <= t /\ ((1 < n0)%Z -> t < disc p s (n0 - 1)).
  Proof.
    intros Hne Ht n0. unfold n0, n_nchi_dynamic. rewrite numba_raw_char.
    pose proof cf_le as L. set (N := cnt (gt t) (fsuf sp)) in *.
    assert (Hd : (0 < List.length s)%nat) by (destruct s; [congruence|cbn; lia]).
    unfold lenZ. split; [lia|]. unfold disc. rewrite <- !skipn_map. split.
    - destruct (Nat.lt_ge_cases (Z.to_nat (Z.max (Z.of_nat N) 1)) (List.length sp)) as [Hlt|Hge].
      + pose proof (thresh t sp sp_nonneg _ Hlt) as T. fold N in T.
        destruct (Qlt_le_dec t (sumQ (skipn (Z.to_nat (Z.max (Z.of_nat N) 1)) sp))) as [A|A]; [|exact A].
        apply T in A. lia.
      + rewrite skipn_all2 by exact Hge. cbn. exact Ht.
    - intro H1. assert (Hlt : (Z.to_nat (Z.max (Z.of_nat N) 1 - 1) < List.length sp)%nat) by (rewrite sp_length; lia).
      apply (thresh t sp sp_nonneg _ Hlt). fold N. lia.
  Qed.
End SumModes.

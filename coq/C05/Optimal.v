(* C05 proofs, part 4: the diagonal special case of Eckart-Young.  For a
   descending non-negative spectrum, keeping the first n values discards the
   least weight among ALL ways of keeping n of the values. *)
From Coq Require Import ZArith QArith Lqa List Bool Lia Sorting.Sorted.
From QV Require Import C05.Model C05.Proofs C05.Trim.
Import ListNotations.
Open Scope Q_scope.

Fixpoint select (m : list bool) (l : list Q) : list Q :=
  match m, l with
  | b :: m', x :: l' => if b then x :: select m' l' else select m' l'
  | _, _ => []
  end.

Fixpoint ntrue (m : list bool) : nat :=
  match m with [] => 0%nat | b :: m' => ((if b then 1 else 0) + ntrue m')%nat end.

Lemma firstn_shift : forall x r, 0 <= x -> Forall (fun y => y <= x) r ->
  forall k, sumQ (firstn (S k) r) <= x + sumQ (firstn k r).
Proof.
  intros x r Hx H. induction H as [|y r' Hy Hr IH]; intros k.
  - rewrite !firstn_nil. cbn [sumQ]. lra.
  - cbn beta in Hy. rewrite firstn_cons. cbn [sumQ]. destruct k as [|j].
    + rewrite !firstn_O. cbn [sumQ]. lra.
    + specialize (IH j). rewrite firstn_cons. cbn [sumQ]. lra.
Qed.

Lemma firstn_le_cons : forall x r k, 0 <= x -> Forall (fun y => y <= x) r ->
  sumQ (firstn k r) <= sumQ (firstn k (x :: r)).
Proof.
  intros x r k Hx H. destruct k as [|j]; [cbn; lra|].
  rewrite firstn_cons. cbn [sumQ]. apply firstn_shift; assumption.
Qed.

Lemma select_le_prefix : forall l, sorted_desc l -> nonneg l -> forall m,
  sumQ (select m l) <= sumQ (firstn (ntrue m) l).
Proof.
  intros l Hs. induction Hs as [|x r Hr IH Hx]; intros Hn m.
  - destruct m as [|b m']; cbn [select sumQ]; rewrite firstn_nil; cbn [sumQ]; lra.
  - inversion Hn; subst. destruct m as [|b m']; [cbn [select ntrue sumQ]; rewrite firstn_O; cbn [sumQ]; lra|].
    cbn [select ntrue]. destruct b.
    + cbn [Nat.add]. rewrite firstn_cons. cbn [sumQ]. specialize (IH H2 m'). lra.
    + cbn [Nat.add]. specialize (IH H2 m').
      pose proof (firstn_le_cons x r (ntrue m') H1 Hx). lra.
Qed.

Lemma sorted_desc_sq : forall s, sorted_desc s -> nonneg s -> sorted_desc (map (fun x => x * x) s) /\ nonneg (map (fun x => x * x) s).
Proof.
  intros s H. induction H as [|x r Hr IH Hx]; intros Hn; [split; constructor|].
  inversion Hn; subst. destruct (IH H2) as [A B]. split.
  - cbn [map]. constructor; [exact A|]. rewrite Forall_map.
    rewrite Forall_forall in *. intros y Hy. specialize (Hx y Hy). specialize (H2 y Hy). cbn in *. nra.
  - cbn [map]. constructor; [nra|exact B].
Qed.

Lemma select_map : forall (f : Q -> Q) m l, select m (map f l) = map f (select m l).
Proof.
  intros f. induction m as [|b m' IH]; intros l; [reflexivity|]. destruct l as [|x l']; [reflexivity|].
  cbn [map select]. destruct b; cbn [map]; rewrite IH; reflexivity.
Qed.

(* any choice `m` of which values to keep retains at most the weight of the prefix
   of the same size, i.e. discards at least the weight that prefix truncation discards *)
Theorem prefix_truncation_optimal_diagonal : forall s m, sorted_desc s -> nonneg s ->
  sumsq (select m s) <= sumsq (firstn (ntrue m) s)
  /\ sumsq (skipn (ntrue m) s) <= sumsq s - sumsq (select m s).
Proof.
  intros s m Hs Hn. destruct (sorted_desc_sq s Hs Hn) as [A B].
  assert (E : sumsq (select m s) <= sumsq (firstn (ntrue m) s)).
  { unfold sumsq. rewrite <- select_map, <- firstn_map. apply select_le_prefix; assumption. }
  split; [exact E|]. pose proof (sumsq_split (ntrue m) s). lra.
Qed.

(* C05, part 5: static (max_bond only) truncation inside the SVD-via-eigen
   driver `_svd_via_eig_numba` / `svd_via_eig`.  eigh returns the spectrum in
   ASCENDING order; the driver slices `s2[-max_bond:]` BEFORE the optional
   flip.  Model of that slice bookkeeping and the theorem that it keeps exactly
   the values the shared truncation routine keeps (the max_bond largest). *)
From Coq Require Import ZArith QArith List Bool Lia.
From QV Require Import C05.Model C05.Proofs C05.Trim.
Import ListNotations.
Open Scope Q_scope.

(*  s2, V = eigh(...)                      (ascending)
    if 0 < max_bond < min(m, n): s2 = s2[-max_bond:]
    if descending: s2 = s2[::-1]                                        *)
Definition eig_shortcut_svals (asc : list Q) (max_bond : Z) (descending : bool) : list Q :=
  let k := if (0 <? max_bond)%Z && (max_bond <? lenZ asc)%Z then py_drop (- max_bond) asc else asc in
  if descending then rev k else k.

Lemma eig_shortcut_desc : forall (s : list Q) mb, (mb = -1 \/ 1 <= mb)%Z ->
  eig_shortcut_svals (rev s) mb true =
  (if negb (mb =? -1)%Z && (mb <? lenZ s)%Z then py_take mb s else s).
Proof.
  intros s mb Hmb. unfold eig_shortcut_svals, lenZ. rewrite rev_length.
  destruct (0 <? mb)%Z eqn:E0; destruct (mb <? Z.of_nat (List.length s))%Z eqn:E1; cbn [andb negb];
    try (assert (E2 : (mb =? -1)%Z = true) by lia; rewrite E2; cbn [negb andb]; apply rev_involutive);
    try (assert (E2 : (mb =? -1)%Z = false) by lia; rewrite E2; cbn [negb andb]; try apply rev_involutive).
  unfold py_drop, py_take, lenZ. rewrite rev_length.
  assert (En : (- mb <? 0)%Z = true) by lia. assert (Ep : (mb <? 0)%Z = false) by lia. rewrite En, Ep.
  rewrite skipn_rev, rev_involutive. f_equal. lia.
Qed.

(* whatever the order asked for, the values kept by the one-step driver are the
   values kept by the shared static truncation (cutoff <= 0, renorm off) *)
Theorem eig_shortcut_keeps_largest : forall m (c : Q) mb (s : list Q), (mb = -1 \/ 1 <= mb)%Z -> c <= 0 ->
  eig_shortcut_svals (rev s) mb true = t_svals (n_trim m c mb 0 s)
  /\ rev (eig_shortcut_svals (rev s) mb false) = t_svals (n_trim m c mb 0 s)
  /\ lenZ (eig_shortcut_svals (rev s) mb false) = n_kept m c mb 0 s.
Proof.
  intros m c mb s Hmb Hc.
  assert (A : eig_shortcut_svals (rev s) mb true = t_svals (n_trim m c mb 0 s)).
  { rewrite eig_shortcut_desc by exact Hmb. unfold n_trim.
    assert (E : Qltb 0 c = false) by (apply Qltb_ge; exact Hc). rewrite E. cbn [orb Z.ltb].
    change (0 <? 0)%Z with false. cbn [orb].
    destruct (negb (mb =? -1)%Z && (mb <? lenZ s)%Z); reflexivity. }
  assert (B : rev (eig_shortcut_svals (rev s) mb false) = eig_shortcut_svals (rev s) mb true).
  { unfold eig_shortcut_svals. destruct ((0 <? mb)%Z && (mb <? lenZ (rev s))%Z); reflexivity. }
  split; [exact A|]. split; [rewrite B; exact A|].
  unfold n_kept. rewrite <- A, <- B. unfold lenZ. rewrite rev_length. reflexivity.
Qed.
